#!/bin/sh
# merge.sh <workspace name>: copy the files a builder added in /tmp/wk/<name>/verif that do not exist in /verif
# (new files only; existing files are never overwritten) and cherry-pick its repo commits.
set -e
w=/tmp/wk/$1
cd $w/verif
for d in coq/Model coq/Spec coq/Proofs coq/Props coq/Check coq/Findings coq/Gen go/cmd go/internal checks.d corpus; do
  [ -d $d ] || continue
  find $d -type f \( -name '*.v' -o -name '*.go' -o -name '*.json' -o -name '*.jsonl' -o -name '*.txt' -o -name '*.ttf' -o -name '*.otf' \) | while read f; do
    if [ ! -e /verif/$f ]; then mkdir -p /verif/$(dirname $f); cp $f /verif/$f; echo "added $f"; 
    elif ! cmp -s $f /verif/$f; then echo "DIFFERS (not copied): $f"; fi
  done
done
base=$(git -C $w/repo merge-base HEAD $(git -C /repo rev-parse HEAD))
for c in $(git -C $w/repo rev-list --reverse $base..HEAD); do
  echo "cherry-pick $(git -C $w/repo log --oneline -1 $c)"
  git -C /repo cherry-pick $c >/dev/null || { echo "CONFLICT in $c"; exit 1; }
done
