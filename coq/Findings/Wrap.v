(* Regression records of the repaired findings of C02, C03, C04 - F6, F7, F8, F37 (never imported by Props/; no known
   finding of the line wrapper is left).
   Each case below is the literal record the Go driver wrote for the fixed witness input (go/cmd/drive/c02.go,
   c02Witnesses): inputs AND what the implementation returned.  corr_ok says the model returns exactly the same lines
   and leaves exactly the same glyph store, so the statements are about the faithful model and about the implementation
   at once; the oracles of the properties accept that output. *)
From TV Require Import Check.C02 Check.C03 Check.C04.

Definition f6_case : case := (mkCase [4; 4; 4; 5; 4; 4; 5; 4; 7] [(0, 0, 8, 5120, [(G 0 1 1 640 640 0 0 0); (G 1 1 1 640 640 0 0 0); (G 2 1 1 640 0 0 0 0); (G 3 1 1 640 640 0 0 0); (G 4 1 1 640 640 0 0 0); (G 5 1 1 640 0 0 0 0); (G 6 1 1 640 640 0 0 0); (G 7 1 1 640 640 0 0 0)])] (0, 0, 1, 64, [(G 0 1 1 64 64 0 0 0)]) [(mkCall 0 0 false 0 false 0 [35] false [[(R 1280 0 0 3 0 0 3 0)]; [(R 1280 0 3 3 0 3 3 0)]; [(R 1280 0 6 2 0 6 2 0)]] 0 [] [(0, 2, 0, 0, 0); (0, 5, 0, 0, 0)] false); (mkCall 0 0 false 0 false 0 [1000] false [[(R 3840 0 0 8 0 0 8 0)]] 0 [] [] false); (mkCall 0 0 false 0 false 0 [65] false [[(R 3840 0 0 8 0 0 8 0)]] 0 [] [] false)]).
Definition f7_case : case := (mkCase [4; 4; 4; 4; 4; 5; 4; 7] [(0, 0, 7, 320, [(G 0 1 1 64 64 0 0 0); (G 1 1 1 64 64 0 0 0); (G 2 1 1 64 64 0 0 0); (G 3 3 1 64 64 0 0 0); (G 6 1 1 64 64 0 0 0)])] (0, 0, 1, 64, [(G 0 1 1 64 64 0 0 0)]) [(mkCall 0 0 false 0 false 0 [2] false [[(R 128 0 0 2 0 0 2 0)]; [(R 128 0 2 4 0 2 2 0)]; [(R 64 0 6 1 0 4 1 0)]] 0 [] [] true); (mkCall 0 0 false 1 false 0 [2] false [[(R 320 0 0 7 0 0 5 0)]] 0 [] [] true); (mkCall 0 0 false 2 false 0 [2] false [[(R 128 0 0 2 0 0 2 0)]; [(R 128 0 2 4 0 2 2 0)]; [(R 64 0 6 1 0 4 1 0)]] 0 [] [] true)]).
Definition f37_case : case := (mkCase [4; 4; 1; 4; 4; 7] [(0, 0, 5, 320, [(G 0 2 1 192 192 0 0 0); (G 2 1 1 0 64 0 0 0); (G 3 1 1 64 64 0 0 0); (G 4 1 1 64 64 0 0 0)])] (0, 0, 1, 64, [(G 0 1 1 64 64 0 0 0)]) [(mkCall 0 0 false 0 false 0 [2] false [[(R 192 0 0 2 0 0 1 0)]; [(R 128 0 2 3 0 1 3 0)]] 0 [] [] true); (mkCall 0 0 false 0 false 1 [2] false [] 0 [((Some [(R 192 0 0 2 0 0 1 0)]), 0, 2, false); ((Some [(R 128 0 2 3 0 1 3 0)]), 0, 5, true); (None, 0, 5, true)] [] true); (mkCall 0 2 false 0 false 0 [2] false [[(R 192 0 0 2 0 0 1 0)]; [(R 128 0 2 3 0 1 3 0)]] 0 [] [] true); (mkCall 0 2 true 0 false 1 [2] false [] 0 [((Some [(R 192 0 0 2 0 0 1 0)]), 0, 2, false); ((Some [(R 64 0 2 2 0 1 2 0); (R 64 0 4 1 1 0 1 1)]), 1, 4, true); (None, 0, 4, true)] [] true); (mkCall 0 0 false 1 false 0 [2] false [[(R 192 0 0 2 0 0 1 0)]; [(R 128 0 2 3 0 1 3 0)]] 0 [] [] true); (mkCall 0 0 false 1 false 1 [2] false [] 0 [((Some [(R 192 0 0 2 0 0 1 0)]), 0, 2, false); ((Some [(R 128 0 2 3 0 1 3 0)]), 0, 5, true); (None, 0, 5, true)] [] true); (mkCall 0 2 false 1 false 0 [2] false [[(R 192 0 0 2 0 0 1 0)]; [(R 128 0 2 3 0 1 3 0)]] 0 [] [] true); (mkCall 0 2 true 1 false 1 [2] false [] 0 [((Some [(R 192 0 0 2 0 0 1 0)]), 0, 2, false); ((Some [(R 64 0 2 3 1 0 1 0)]), 3, 2, true); (None, 0, 2, true)] [] true); (mkCall 0 0 false 2 false 0 [2] false [[(R 192 0 0 2 0 0 1 0)]; [(R 128 0 2 3 0 1 3 0)]] 0 [] [] true); (mkCall 0 0 false 2 false 1 [2] false [] 0 [((Some [(R 192 0 0 2 0 0 1 0)]), 0, 2, false); ((Some [(R 128 0 2 3 0 1 3 0)]), 0, 5, true); (None, 0, 5, true)] [] true); (mkCall 0 2 false 2 false 0 [2] false [[(R 192 0 0 2 0 0 1 0)]; [(R 128 0 2 3 0 1 3 0)]] 0 [] [] true); (mkCall 0 2 true 2 false 1 [2] false [] 0 [((Some [(R 192 0 0 2 0 0 1 0)]), 0, 2, false); ((Some [(R 64 0 2 2 0 1 2 0); (R 64 0 4 1 1 0 1 1)]), 1, 4, true); (None, 0, 4, true)] [] true)]).
(* F6 (wrapping edits glyphs through slices that alias the caller's input runs; a whole input run placed on a line
   afterwards kept its stale Advance) was repaired in shaping/wrapping.go (fix: a run placed whole has its advance
   recomputed from its glyphs - fillUntil and the single-run fast path of WrapParagraph); the model follows.
   Regression: one run "aa bb cc" (10 px per glyph) wrapped at 35, then at 1000 (single-run fast path), then at 65, with the
   same []Output: the first call zeroes the advances of the two trailing spaces; the second call now returns the whole run
   with Advance 3840 = the sum of its glyphs (before the repair: 5120, the Advance on entry); the record below is what the
   repaired implementation returned, the model agrees and the C02 oracle (advance = sum included) accepts every call. *)
Theorem f6_repaired :
  case_wf f6_case = true /\ corr_ok f6_case = true /\ oracle_kinds f6_case c02_kind = [].
Proof. vm_compute. repeat split. Qed.

(* F7 (the grapheme fallback skipped every grapheme option <= previousWordBreak, and previousWordBreak advanced over UAX #14
   candidates rejected as intra-cluster) was repaired in shaping/wrapping.go (fix: a UAX #14 break option rejected by the
   shaped text is discarded, previousWordBreak no longer advances over it); the model follows (discard_word).
   Regression: runes a b c d SP e f, clusters a, b, c, "d SP e", f, width 2: under WhenNecessary and Always the lines are now
   "a b", "c d SP e" (the cluster is a single unit), "f" (before the repair the first line held the four clusters
   a b c "d SP e"); the record below is what the repaired implementation returned, the model agrees and the C04 oracle
   (width and greedy clauses) accepts every call. *)
Theorem f7_repaired :
  case_wf f7_case = true /\ corr_ok f7_case = true /\ oracle_kinds f7_case c04_kind = [].
Proof. vm_compute. repeat split. Qed.

(* F8 (truncated line = whole-run prefix) was repaired in shaping/wrapping.go (fix: a truncated line that cannot take its
   first break candidate holds no unmeasured runs); its witness stays in the driver as a regression input. *)

(* F37 (a UAX #14 opportunity that is not a grapheme boundary does not fit and no grapheme boundary before it is usable:
   WrapNextLine returned a nil line with done = false, dropped the option and split the following word) was repaired in
   shaping/wrapping.go (fix: the grapheme fallback uses the UAX #14 option when it finds no grapheme boundary); the model
   follows.  Regression: runes a SP U+0301 b b, clusters "a SP" (3 px), U+0301, b, b, width 2, every policy, WrapParagraph and
   WrapNextLine, with and without TruncateAfterLines = 2: the record below is what the repaired implementation returned
   ("a SP" then "U+0301 b b"); the model agrees and the oracles of C03 and C04 accept every call. *)
Theorem f37_repaired :
  case_wf f37_case = true /\ corr_ok f37_case = true
  /\ oracle_kinds f37_case c03_kind = [] /\ oracle_kinds f37_case c04_kind = [].
Proof. vm_compute. repeat split. Qed.
