(* Witnesses of the known findings of C02, C03, C04 (never imported by Props/).
   Each case below is the literal record the Go driver wrote for the fixed witness input (go/cmd/drive/c02.go,
   c02Witnesses): inputs AND what the implementation returned.  corr_ok says the model returns exactly the same lines
   and leaves exactly the same glyph store, so the statements are about the faithful model and about the implementation
   at once; the oracle of the property is false on that output. *)
From TV Require Import Check.C02 Check.C03 Check.C04.

Definition f6_case : case := (mkCase [4; 4; 4; 5; 4; 4; 5; 4; 7] [(0, 0, 8, 5120, [(G 0 1 1 640 640 0 0 0); (G 1 1 1 640 640 0 0 0); (G 2 1 1 640 0 0 0 0); (G 3 1 1 640 640 0 0 0); (G 4 1 1 640 640 0 0 0); (G 5 1 1 640 0 0 0 0); (G 6 1 1 640 640 0 0 0); (G 7 1 1 640 640 0 0 0)])] (0, 0, 1, 64, [(G 0 1 1 64 64 0 0 0)]) [(mkCall 0 0 false 0 false 0 [35] false [[(R 1280 0 0 3 0 0 3 0)]; [(R 1280 0 3 3 0 3 3 0)]; [(R 1280 0 6 2 0 6 2 0)]] 0 [] [(0, 2, 0, 0, 0); (0, 5, 0, 0, 0)] false); (mkCall 0 0 false 0 false 0 [1000] false [[(R 5120 0 0 8 0 0 8 0)]] 0 [] [] false); (mkCall 0 0 false 0 false 0 [65] false [[(R 3840 0 0 8 0 0 8 0)]] 0 [] [] false)]).
Definition f7_case : case := (mkCase [4; 4; 4; 4; 4; 5; 4; 7] [(0, 0, 7, 320, [(G 0 1 1 64 64 0 0 0); (G 1 1 1 64 64 0 0 0); (G 2 1 1 64 64 0 0 0); (G 3 3 1 64 64 0 0 0); (G 6 1 1 64 64 0 0 0)])] (0, 0, 1, 64, [(G 0 1 1 64 64 0 0 0)]) [(mkCall 0 0 false 0 false 0 [2] false [[(R 256 0 0 6 0 0 4 0)]; [(R 64 0 6 1 0 4 1 0)]] 0 [] [] true); (mkCall 0 0 false 1 false 0 [2] false [[(R 320 0 0 7 0 0 5 0)]] 0 [] [] true); (mkCall 0 0 false 2 false 0 [2] false [[(R 256 0 0 6 0 0 4 0)]; [(R 64 0 6 1 0 4 1 0)]] 0 [] [] true)]).
(* F6: one run "aa bb cc" wrapped at 35, then at 1000 (single-run fast path), then at 65, with the same []Output:
   the second call returns the whole run with Advance 5120 over glyphs that now sum to 3840 *)
Theorem advance_is_sum_refuted :
  case_wf f6_case = true /\ corr_ok f6_case = true /\ oracle_kinds f6_case c02_kind = [10%nat].
Proof. vm_compute. repeat split. Qed.

(* F7: runes a b c d SP e f, clusters a, b, c, "d SP e", f, width 2, WhenNecessary and Always: the first line holds the
   four clusters a b c "d e" (4 px) although a break after b is permitted and fits; check_width_truncation is false *)
Theorem greedy_refuted :
  case_wf f7_case = true /\ corr_ok f7_case = true /\ oracle_kinds f7_case c04_kind = [10%nat; 10%nat].
Proof. vm_compute. repeat split. Qed.

(* F8 (truncated line = whole-run prefix) was repaired in shaping/wrapping.go (fix: a truncated line that cannot take its
   first break candidate holds no unmeasured runs); its witness stays in the driver as a regression input. *)
