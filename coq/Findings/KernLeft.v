(* F61 (known finding, C18): legacy kerning and a skippable glyph on the left of a pair.
   kern() (harfbuzz/ot_kern.go, same in HarfBuzz hb-kern.hh) skips marks and default ignorables when it looks for the
   SECOND glyph of a pair, and after a pair with value 0 the cursor jumps to that second glyph (`idx = skippyIter.idx`),
   over the skipped glyphs.  A skipped glyph is therefore the LEFT glyph of a pair only when it starts the buffer (or
   follows a glyph without the kern mask).  With a table that has a non-zero pair whose left glyph is such a glyph, the
   piece that starts at it is kerned while the whole text is not, although nothing was flagged: without the side
   condition left_okb the cut statement of fallback_kern_cut_safe is false of the faithful model.
   Witness: X (cluster 0), a combining mark M (cluster 1, MonotoneCharacters), V (cluster 2); pairs (X, V) = 0 (absent),
   (M, V) = 126; cut at 1.  The driver c18engine replays it on the real otApplyFallbackKern (corpus/c18engine). *)
From TV Require Import Model.KernMachine Proofs.EngineItem Proofs.KernMachine.

Definition f52_it (c g u q : Z) : item := mkI (mkGX c fl0 1 0 g u q) 0 (mkP 500 0 0 0 0 0).

Theorem kern_left_skippable_refuted :
  exists P pre suf c rec,
    sorted (pre ++ suf) /\ cutv icl sideL c pre suf = true
    /\ left_okb P (pre ++ suf) = false
    /\ fog icl iutb c (fst (fallback_kern_f P false false (pre ++ suf) rec)) = false
    /\ fst (fallback_kern_f P false false (pre ++ suf) rec)
       <> fst (fallback_kern_f P false false pre rec) ++ fst (fallback_kern_f P false false suf rec).
Proof.
  exists (mkKP [(20, 5, 126)] 1 true), [f52_it 0 1 7 2], [f52_it 1 20 140 8; f52_it 2 5 7 2], 1, false.
  split; [cbn; repeat split; intros y H; cbn in H; intuition lia|].
  repeat split; try (vm_compute; reflexivity). vm_compute. discriminate.
Qed.
