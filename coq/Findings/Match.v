(* C15 — witnesses (by computation on the faithful model) that the hypotheses of the property theorems
   are needed.  Each witness is replayed on the real code by the driver c15 (malformed stream / fixed
   cases of c15Gen) through the hook fontscan.VerifFontSet.  Never imported by Props/. *)
From TV Require Import Model.Match Spec.Css.

(* F20 (DESIGN section 8): a footprint whose Style byte is outside 0..2 — which deserializeAspectFrom
   accepts, so a corrupted index file can yield it — makes matchStyle index crible[3] out of range:
   retainsBestMatches panics although every candidate index is valid and the request is valid. *)
Theorem match_style_total_refuted :
  exists fs cands q,
    Forall (fun i => in_range fs i = true) cands /\ valid_query q = true
    /\ match_style fs cands (a_style (set_defaults q)) = Panic p_index
    /\ retains_best_matches_list fs cands q = Panic p_index.
Proof.
  exists [mkAspect 3 3200 8], [0], (mkAspect 0 0 0).
  split; [repeat constructor|]. repeat split; reflexivity.
Qed.

(* a request whose Style is neither unset, Normal nor Italic reaches panic("should not happen"):
   SetDefaults only replaces 0, it does not sanitize *)
Theorem match_style_query_refuted :
  exists fs cands q,
    cands_ok fs cands = true /\ retains_best_matches_list fs cands q = Panic p_should_not_happen.
Proof. exists [mkAspect 1 3200 8], [0], (mkAspect 3 0 0). split; reflexivity. Qed.

(* "if candidates is not empty, the returned slice is guaranteed not to be empty" needs the candidates'
   styles to be set: with Style = 0 (unset) the style step keeps nothing.  (This is what made
   FontMap.ResolveFace panic after AddFace with a zero Description.Aspect, repaired in the library by
   commit "fix: AddFace fills unset aspect fields with the regular defaults".) *)
Theorem retains_nonempty_unset_style_refuted :
  exists fs cands q,
    cands <> [] /\ Forall (fun i => in_range fs i = true) cands
    /\ Forall (fun i => 0 < a_weight (asp_of fs i) /\ 0 < a_stretch (asp_of fs i)) cands
    /\ valid_query q = true
    /\ retains_best_matches_list fs cands q = Ok [].
Proof.
  exists [mkAspect 0 3200 8], [0], (mkAspect 0 0 0).
  split; [discriminate|]. split; [repeat constructor|]. split; [repeat constructor|]. split; reflexivity.
Qed.

(* 0 is the "nothing found yet" marker of matchStretch: a candidate with an unset stretch is invisible *)
Theorem match_stretch_unset_refuted :
  exists fs cands q, Forall (fun i => in_range fs i = true) cands
    /\ match_stretch fs cands q = Ok 0
    /\ css_stretch (map (fun i => a_stretch (asp_of fs i)) cands) q = Some (-8).
Proof. exists [mkAspect 1 3200 (-8)], [0], 8. split; [repeat constructor|]. split; reflexivity. Qed.
