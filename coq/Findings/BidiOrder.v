(* Known finding F5 (C08): rule L2 is not followed when a run nests two or more levels above the paragraph
   level: shaping.Output.Direction keeps only the parity of the embedding level, so computeBidiOrdering cannot
   tell a level-2 run (a number inside right-to-left text inside a left-to-right paragraph) from a level-0 run. *)
From TV Require Import Lib.GoNum Model.BidiOrder Spec.L2.

Definition frun (d : Z) : run := mkRun d 0 0 0 1 [].

(* the statement of l2_one_nesting without the bound on the nesting is false of the faithful model *)
Theorem l2_refuted : exists (pdir : Z) (levels : list nat) (line : list run),
  toward pdir = Nat.odd 0
  /\ Forall2 (fun r l => toward (r_dir r) = Nat.odd l) line levels
  /\ l2_reorder levels (map r_vis (compute_bidi_ordering pdir line)) <> ziota (length line).
Proof.
  exists 0, [0; 1; 2; 1; 0]%nat, [frun 0; frun 1; frun 0; frun 1; frun 0].
  split; [reflexivity|]. split; [repeat constructor|].
  vm_compute. discriminate.
Qed.

(* what the model (and the implementation, replayed by the driver) computes, and what L2 prescribes *)
Example l2_refuted_values :
  map r_vis (compute_bidi_ordering 0 [frun 0; frun 1; frun 0; frun 1; frun 0]) = [0; 1; 2; 3; 4]
  /\ l2_reorder [0; 1; 2; 1; 0]%nat [0; 1; 2; 3; 4]%nat = [0; 3; 2; 1; 4]%nat
  /\ follows_l2 [0; 1; 2; 1; 0]%nat [0; 3; 2; 1; 4] = true.
Proof. vm_compute. repeat split; reflexivity. Qed.
