(* F16 (DESIGN 8): Shape with RunEnd < RunStart shapes the swapped range but reports Runes.Count = RunEnd - RunStart < 0
   and hands RunEnd (the smaller bound) to countClusters.  Outside "run bounds lying within the text" of C01, so it is
   recorded as a witness only (not a known finding of the property). *)
From TV Require Import Model.ShapeGlue.

Lemma shape_count_nonneg_refuted :
  exists engine n rs re rtl o, 0 <= n /\ shape_glue engine n rs re rtl = Ok o /\ so_count o < 0.
Proof. exists (fun l => l), 5, 4, 1, false. eexists. split; [lia|]. split; [vm_compute; reflexivity|]. cbn. lia. Qed.
