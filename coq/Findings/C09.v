(* Witnesses for the three defects of C09 that were repaired in /repo (F10, F11, F12): on each witness the model of
   the code BEFORE the repair panics or allocates without bound, the model of the repaired code returns an error.
   Not imported by Props/. *)
From TV Require Import Model.Container Model.Glyf Model.CmapBuild Spec.Container Model.TableIndex Model.AatLookup.

(* F10: a 28-byte sfnt whose only table claims 0xF0000000 bytes *)
Definition f10_file : list Z :=
  [0;1;0;0; 0;1; 0;0;0;0;0;0; 104;101;97;100; 0;0;0;0; 0;0;0;0; 240;0;0;0].
Lemma alloc_unbounded_before_fix : exists file ld s,
  zlen file = 28 /\ result (new_loaders file) = Ok [ld] /\ find_csection 1751474532 (cl_tables ld) = Some s
  /\ allocated (find_table_buffer_unfixed file s) = 4026531840
  /\ table_alloc_bound (zlen file) < allocated (find_table_buffer_unfixed file s)
  /\ raw_table_m file ld 1751474532 = (0, Err e_eof).
Proof. exists f10_file. eexists. eexists. repeat split; vm_compute; reflexivity. Qed.

(* F12: decreasing or oversized loca offsets *)
Lemma glyf_slicing_panics_before_fix :
  parse_glyf_unfixed parse_glyph_mini (repeat 0 10) [4; 2] = Panic p_slice
  /\ parse_glyf_unfixed parse_glyph_mini (repeat 0 10) [0; 200] = Panic p_slice
  /\ parse_glyf_unfixed parse_glyph_mini (repeat 0 10) [] = Panic p_make
  /\ parse_glyf parse_glyph_mini (repeat 0 10) [4; 2] = Err e_glyf
  /\ parse_glyf parse_glyph_mini (repeat 0 10) [0; 200] = Err e_glyf
  /\ parse_glyf parse_glyph_mini (repeat 0 10) [] = Err e_glyf.
Proof. repeat split; vm_compute; reflexivity. Qed.

(* F11: idRangeOffset 2 on the first of two segments points one entry before the glyph id array *)
Lemma cmap4_build_panics_before_fix :
  new_cmap4_unfixed [65; 65535] [65; 65535] [0; 1] [2; 0] [] = Panic p_cindex
  /\ new_cmap4 [65; 65535] [65; 65535] [0; 1] [2; 0] [] = Err e_cmap4.
Proof. split; vm_compute; reflexivity. Qed.

(* F26 (overlapping format 4 segments resolving far more than 2^16 indexes; 64 KB of cmap allocated 12 GB in the
   implementation) has no cheap witness inside Coq: the bound is theorem cmap4_alloc_bounded in Props/C09.v, the
   witness against the old code is the Go probe recorded in known_findings.json. *)

(* F57: a resolved segment with start = end + 1 got an empty, non-nil index list (uint16 wrap of end - start + 1),
   which cmap4Iter.Char indexes at 0; the repaired builder rejects it *)
Lemma cmap4_empty_indexes_before_fix :
  new_cmap4_unfixed [64; 65535] [65; 65535] [0; 1] [4; 0] [0; 7] = Ok [mkEntry16 64 65 0 (Some []); mkEntry16 65535 65535 1 None]
  /\ new_cmap4 [64; 65535] [65; 65535] [0; 1] [4; 0] [0; 7] = Err e_cmap4.
Proof. split; vm_compute; reflexivity. Qed.

(* 814b335 (Hmtx.Advance with no long metric): before the repair, a table with side bearings only indexed Metrics[-1];
   365cf88 (cmap6or10.Lookup): before the repair the index was computed in int32, so that a format 10 start code above
   0x7FFFFFFF (negative rune) made r - firstCode wrap to a negative index *)
Lemma hmtx_advance_panics_before_fix :
  hmtx_advance_unfixed (mkHmtx [] [7]) 0 = Panic p_index /\ hmtx_advance (mkHmtx [] [7]) 0 = Ok 0.
Proof. split; vm_compute; reflexivity. Qed.
Lemma lookup610_panics_before_fix :
  lookup610_unfixed (mkCmap610 (-16) [7]) 2147483632 = Panic p_index /\ lookup610 (mkCmap610 (-16) [7]) 2147483632 = Ok None.
Proof. split; vm_compute; reflexivity. Qed.

(* 5034881 (AAT lookup format 4): a segment whose values offset is null has no values; before the repair Class indexed them *)
Lemma aat_class4_panics_before_fix :
  class4_unfixed [mkSeg4 5 3 []] 4 = Panic p_index /\ class4 [mkSeg4 5 3 []] 4 = Ok None.
Proof. split; vm_compute; reflexivity. Qed.
