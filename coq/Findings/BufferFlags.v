(* C18, flag transfer of setCluster: two readings of "merges and deletions never lose an unsafe-to-break flag" that are
   FALSE of the faithful model (and of the Go code it is tied to by the c01buf / c18flags correspondence drivers; the same
   holds for upstream HarfBuzz, whose set_cluster() is identical).  Never imported by Props. *)
From TV Require Import Model.Buffer Spec.Buffer.

Definition U : fl := mkFl true true false.
Definition any_utb (c : Z) (l : list glyph) : bool := existsb (fun g => (cl g =? c) && utb (gf g)) l.
Definition no_utb (l : list glyph) : bool := forallb (fun g => negb (utb (gf g))) l.

(* mergeClusters clears the flags of the glyphs it moves: LTR clusters 0 1 1, cluster 1 flagged as a whole
   (unsafe to break between cluster 0 and cluster 1); mergeClusters(0, 2) absorbs cluster 1 into cluster 0 and after
   propagateFlags no glyph is flagged.  By design: the start of cluster 1 is not a cluster boundary any more. *)
Theorem merge_keeps_every_unsafe_refuted :
  exists b s e b1 b2,
    WF 0 2 b = true /\ have_out b = false /\ has_gf b = true /\ any_utb 1 (slice s e (info b)) = true
    /\ merge_clusters b s e = Ok b1 /\ propagate_flags b1 = Ok b2
    /\ cls (info b2) = [0; 0; 0] /\ no_utb (info b2) = true.
Proof.
  exists (mkB [mkG 0 fl0 0 65 1; mkG 1 U 0 66 2; mkG 1 U 0 67 3] [] 0 false 3 3 0 true false true), 0, 2.
  eexists. eexists. repeat split; vm_compute; reflexivity.
Qed.

(* deleteGlyph when the cluster of the deleted glyph survives in a neighbour: the flag of the deleted glyph is simply
   dropped.  LTR clusters 0 1 1 with only the FIRST glyph of cluster 1 flagged (what unsafeToBreak(0, 2) leaves behind:
   the window ends inside cluster 1), cursor on it, out-buffer [0]: deleteGlyph, the rest of the pass, swapBuffers and
   propagateFlags leave cluster 1 = one glyph WITHOUT the flag, although before the deletion propagateFlags would have
   flagged cluster 1 (boundary 0|1 unsafe).  The flag a cluster shows at the end therefore depends on whether the
   flagged glyph or its cluster-mate is the one deleted; the conservative behaviour would OR the deleted glyph's flags
   into the surviving glyphs of its cluster (as the backward merge does via setCluster(cluster, mask)). *)
Theorem delete_keeps_cluster_unsafe_refuted :
  exists b b1 b2 b3 b4 before,
    WF 0 2 b = true /\ have_out b = true /\ has_gf b = true
    /\ pre ODelete b = true /\ utb (gf (nth (Z.to_nat (idx b)) (info b) g0)) = true
    (* without the deletion cluster 1 ends up flagged *)
    /\ run_ops [ONextN 2; OSwap; OPropagate] b = Ok before /\ any_utb 1 (info before) = true
    (* with it, cluster 1 survives (one glyph) and is not flagged *)
    /\ delete_glyph b = Ok b1 /\ next_glyph b1 = Ok b2 /\ swap_buffers b2 = Ok b3 /\ propagate_flags b3 = Ok b4
    /\ cls (info b4) = [0; 1] /\ no_utb (info b4) = true.
Proof.
  exists (mkB [mkG 0 fl0 0 65 1; mkG 1 U 0 66 2; mkG 1 fl0 0 67 3] [mkG 0 fl0 0 65 1] 1 true 3 3 0 true false true).
  eexists. eexists. eexists. eexists. eexists. repeat split; vm_compute; reflexivity.
Qed.
