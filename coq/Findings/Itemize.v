(* Finding F26 (C07), FIXED in the library by a per-paragraph loop in splitByBidi.  Kept as the record of what a single
   x/text call on the whole range gives: Paragraph.SetString stops at the first paragraph separator (bidi class B) and
   Ordering lumps every rune behind it into the last run of the first paragraph.  Witness "a\nא" (LTR paragraph
   direction): one x/text call returns the single run (end 2, LeftToRight); the Hebrew letter, whose embedding level is
   odd when its paragraph is analysed on its own, would be reported in a left-to-right run.  That run list satisfies the
   hypothesis of the theorems (bidi_wf); what fails is the reference parity (Spec.parity_ok).  With the fixed code the
   list is [(1, LTR); (2, RTL)] (second Example). *)
From TV Require Import Model.Itemize Spec.Itemize.
Open Scope Z_scope.

Definition w_latn := 1281455214.
Definition w_hebr := 1214603890.
Definition w_env : env :=
  mkEnv [mkObs w_latn (-1) false [] [(-1, 1)]; mkObs SC_COMMON (-1) true [] [(-1, 1)]; mkObs w_hebr (-1) false [] [(-1, 1)]]
        (Some [(2, false)]) (Some 59) (fun _ => true) (fun _ => 0) false.
Definition w_in : input := mkIn 1 0 3 (mkDir false false false false) 0 1 640 0 (-1).
(* per-paragraph reference: 'a' LTR, the separator unconstrained, alef RTL *)
Definition w_ref : list (option bool) := [Some false; None; Some true].

Theorem parity_refuted :
  exists e x ref runs, range_ok e x = true /\ bidi_wf (i_end x - i_start x) (e_bidi e) = true
    /\ split_runs e seg_zero x = Ok runs /\ check_itemization e x runs = true /\ parity_ok ref runs = false.
Proof.
  exists w_env, w_in, w_ref. eexists. split; [reflexivity|]. split; [reflexivity|].
  split; [vm_compute; reflexivity|]. split; vm_compute; reflexivity.
Qed.

Example parity_after_fix :
  exists runs, split_runs (mkEnv (e_text w_env) (Some [(1, false); (2, true)]) (Some 59) (fun _ => true) (fun _ => 0) false) seg_zero w_in = Ok runs
    /\ parity_ok w_ref runs = true.
Proof. eexists. split; vm_compute; reflexivity. Qed.
