(* Witnesses for segmenter defects kept as known findings (never imported by Props/). *)
From TV Require Import Model.Segmenter Spec.UAX14.
Open Scope Z_scope.

(* F3 (repaired): LB25 "(PR|PO) × (OP|HY) NU" is not applied when a combining mark sits between the opening
   punctuation and the digit: "$(" U+0301 "1".  By LB9 the mark is part of "(", so no break is allowed
   between "$" and "("; the code looks at the raw next rune (the mark) and allows it. *)
Definition o_dollar := mkObs LB_PR false false false false false GB_None WB_None false false false false false.
Definition o_paren := mkObs LB_OP false false false false false GB_None WB_None false false false false false.
Definition o_acute := mkObs LB_CM true false false false false GB_Extend WB_ExtendFormat false false false false false.
Definition o_one := mkObs LB_NU false false false false false GB_None WB_Numeric false false false false true.

(* F3 was repaired (startIteration now looks past the combining marks attached to an OP / HY); the former witness
   is kept as a positive example: model and specification agree on it. *)
Example line_lb25_mark_lookahead_repaired :
  let text := [o_dollar; o_paren; o_acute; o_one] in
  match compute_attrs text with
  | Ok attrs => map (fun a => negb (a_line a)) attrs = map (fun d => match d with Prohibited => true | _ => false end) (lb_spec text)
  | _ => False
  end.
Proof. vm_compute. reflexivity. Qed.
