(* Findings / refuted variants for C09, kerning pairs and FDSelect (never imported by Props):
   - the code of Kern2.KernPair before the repair C09-F85 panics on a null class table offset;
   - the seeded slips R4-C09-m1 (kern format 3 index == kernValueCount accepted) and R4-C09-m3 (FDSelect 3 bisection
     `lo = i`) are refuted on the model: the first by a one-cell table, the second for ANY amount of fuel. *)
From TV Require Import Model.Glyf Model.TableIndex Model.AatLookup Model.KernFd.

(* the code before the repair panics on a null class table, whatever the glyphs *)
Lemma kern2_unfixed_refuted : forall k l r, k2_left k = None -> kern2_pair_gen false k l r = Panic p_index.
Proof. intros k l r H. unfold kern2_pair_gen. rewrite H. reflexivity. Qed.

(* the seeded slip (index > kernValueCount accepted) is refuted by a one-cell table: accepted, then out of range *)
Definition kern3_slip_witness := mkKern3 1 1 1 [ -50 ] [0; 0; 0; 0] [0; 0; 0; 0] [1].
Lemma kern3_slip_refuted :
  kern3_shape kern3_slip_witness = true /\ kern3_sanitize_gen false kern3_slip_witness = Ok true
  /\ kern3_pair kern3_slip_witness 1 2 = Panic p_index /\ kern3_sanitize kern3_slip_witness = Ok false.
Proof. vm_compute. repeat split. Qed.

(* the seeded slip `lo = i` does not terminate: one range, sentinel below the glyph. With ANY fuel the model runs out *)
Lemma fd3_slip_refuted : forall fuel, fd3_loop false [mkRange3 0 0] 1 5 0 1 fuel = OutOfFuel.
Proof. induction fuel as [|fuel IH]; [reflexivity|]. cbn [fd3_loop]. cbn. exact IH. Qed.
