(* Witnesses around C16 (never imported by Props/).
   1. Beyond each limit of the wire format the writer silently truncates or wraps and the read-back differs:
      these are the boundaries of wf_index, not defects reachable by a scan (paths are far below 65535 bytes, there are
      fewer than 256 scripts, a rune set has at most 4352 pages).
   2. Without the modification-time hypothesis an incremental refresh keeps a stale entry: inherent to a cache keyed
      by modification time; recorded as an assumption of C16, not as a finding. *)
From TV Require Import Model.Index Spec.Index Model.Scan.

Definition base_fp (family : list Z) (scripts : list Z) : footprint :=
  mkFP [47;97] 0 0 family [] scripts [0;0;0;0;0;0;0;0] (mkAspect 1 1137180672 1065353216).
Definition one (fp : footprint) : index := [mkFF [47;97] 1 [fp]].

(* a 65536-byte family name is cut to 65535 bytes *)
Lemma roundtrip_beyond_string_limit_refuted :
  exists ix, deserialize_index (serialize_index ix) <> Ok ix /\ is_ok (deserialize_index (serialize_index ix)) = true.
Proof.
  exists (one (base_fp (repeat 120 (Z.to_nat 65536)) [])). split.
  - intros H. apply (f_equal (fun r => match r with Ok [mkFF _ _ [fp]] => zlen (fp_family fp) | _ => 0 end)) in H.
    vm_compute in H. discriminate.
  - vm_compute. reflexivity.
Qed.

(* 256 scripts: the count byte wraps to 0 and the rest of the entry is misread *)
Lemma roundtrip_beyond_script_limit_refuted :
  exists ix, deserialize_index (serialize_index ix) <> Ok ix.
Proof.
  exists (one (base_fp [97] (repeat 7 (Z.to_nat 256)))). intros H.
  apply (f_equal (fun r => match r with Ok _ => 0 | Err _ => 1 | _ => 2 end)) in H. vm_compute in H. discriminate.
Qed.

(* a style outside {1, 2} is written but (since the fix of F20) refused when read back *)
Lemma roundtrip_invalid_style_refuted :
  exists ix, deserialize_index (serialize_index ix) = Err e_aspect_value.
Proof.
  exists (one (mkFP [47;97] 0 0 [97] [] [] [0;0;0;0;0;0;0;0] (mkAspect 3 1137180672 1065353216))). vm_compute. reflexivity.
Qed.

(* same path, same modification time, other content: the stale entry is kept *)
Lemma incremental_without_mtime_hypothesis_refuted :
  exists last ws cache, scratch Z (fun cid _ => [cid]) last = Ok cache
                        /\ scan Z (fun cid _ => [cid]) cache ws <> scratch Z (fun cid _ => [cid]) ws.
Proof.
  exists [mkW [97] false true [97] 10 1], [mkW [97] false true [97] 10 2], [mkEntry [97] 10 [1]].
  split; [reflexivity|]. vm_compute. discriminate.
Qed.
