(* C18-F98 (known finding, C18, Arabic joining and the length of the context): Buffer.AddRunes keeps at most contextLength = 5
   code points of pre- and post-context (buffer.go; CONTEXT_LENGTH in HarfBuzz).  applyArabicJoining skips transparent
   code points (marks, format characters) when it looks for the letter the run joins with, so a letter behind five or
   more transparent code points is invisible to a piece, while the whole run has the state that letter left.  When the
   next letter's form depends on that state WITHOUT the pair being flagged (prevAction = none: the rows of
   arabicStateTable for states 1 and 6 — after R / DALATH RISH — in the ALAPH column give fin2 / fin3 where state 0 gives
   isol), cutting at an unflagged cluster boundary changes the result.
   arabic_joining_cut_safe is about contexts that are passed whole (L ++ pre, suf ++ R); with the contexts truncated to
   five code points, as AddRunes would, the statement is false of the faithful model.
   Witness (replayed on the real applyArabicJoining by driver c18arab, corpus/c18arab/witnesses.jsonl; the pieces get
   their contexts cut to 5 code points and the failure is classified kind 12 by Check/C18Arab.v truncation_hides_letter): SYRIAC DALATH U+0715 with five marks U+0730 U+0733 U+0736 U+0739 U+073C (one
   cluster), then ALAPH U+0710: the whole run gives ALAPH fin3, the boundary before ALAPH is not flagged; ALAPH alone
   with the five marks as pre-context gives isol. *)
From TV Require Import Model.ArabicJoin Proofs.EngineItem Proofs.KernMachine.

Definition fa_it (c ty : Z) : item := mkI (mkGX c fl0 1 ty 0 0 0) 7 p0.
(* the contextLength nearest code points of a pre-context (text order: the nearest is the last) *)
Definition last5 (l : list item) : list item := rev (firstn 5 (rev l)).

Theorem arab_truncated_context_refuted :
  exists L R pre suf c,
    sorted (pre ++ suf) /\ cutv icl sideL c pre suf = true
    /\ fog icl iutb c (erun [arab_pass] L R (pre ++ suf)) = false
    /\ erun [arab_pass] L R (pre ++ suf)
       <> erun [arab_pass] L (firstn 5 (suf ++ R)) pre ++ erun [arab_pass] (last5 (L ++ pre)) R suf.
Proof.
  exists [], [], [fa_it 0 5; fa_it 0 7; fa_it 0 7; fa_it 0 7; fa_it 0 7; fa_it 0 7], [fa_it 6 4], 6.
  split; [cbn; repeat split; intros y H; cbn in H; intuition lia|].
  repeat split; try (vm_compute; reflexivity). vm_compute. discriminate.
Qed.
