(* Witnesses (by computation on the model, which the correspondence check ties to the Go code) for behaviours of the
   glyph metric / outline decoder that the property theorems exclude by hypothesis.  Never imported by Props/. *)
From TV Require Import Model.Outline Spec.Outline.
Open Scope Z_scope.

(* F26: hmtx advanceWidth is a uint16 in OpenType; the library stores it in an int16, so an advance >= 32768 font units
   comes back negative.  Well-formed tables: 1 glyph, 1 long metric with advance 0x9000 = 36864. *)
Lemma advance_read_signed_refuted :
  exists hhea hmtx n_long num_glyphs upem gid t,
    hhea_num_long hhea = Ok n_long /\ wf_hmtx hmtx n_long num_glyphs /\ 0 <= gid < num_glyphs
    /\ load_hmtx hhea hmtx num_glyphs = Ok t
    /\ horizontal_advance upem t gid = Ok (-28672)
    /\ advance_spec_u hmtx n_long gid = 36864.
Proof.
  exists (repeat 0 34 ++ [0; 1]), [144; 0; 0; 0], 1, 1, 1000, 0.
  eexists. repeat split; try reflexivity; try (vm_compute; congruence).
Qed.

(* A contour reduced to ONE off-curve point (excluded by good_contour): buildSegments emits a single QuadTo towards the
   stale firstOnCurve of the previous contour (or (0,0)), without any MoveTo.  The output is not a closed path and depends
   on what was decoded before.  (golang.org/x/image/font/sfnt, from which the function was adapted, has the same shape.) *)
Lemma single_offcurve_contour_not_closed :
  build_segments (mark [((5, 5), false)]) = [QuadTo (10, 10) (0, 0)]
  /\ closed_contourb (build_segments (mark [((5, 5), false)])) = false.
Proof. split; reflexivity. Qed.

Lemma single_offcurve_contour_depends_on_history :
  exists c1 c2,
    good_contour c1 = true /\
    build_segments (mark c1 ++ mark c2) <> build_segments (mark c1) ++ build_segments (mark c2).
Proof.
  exists [((7, 9), true); ((8, 1), true)], [((5, 5), false)]. split; [reflexivity|]. vm_compute. congruence.
Qed.

(* The two panics on malformed tables formerly recorded here (Hmtx.Advance without long metrics, getContourPoints with an
   end point past the points) were repaired in /repo (C09 fixes); the model follows the repaired code. *)
