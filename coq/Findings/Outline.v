(* Witnesses (by computation on the model, which the correspondence check ties to the Go code) for behaviours of the
   glyph metric / outline decoder that the property theorems exclude by hypothesis.  Never imported by Props/. *)
From TV Require Import Model.Outline Spec.Outline.
Open Scope Z_scope.

(* F26: hmtx advanceWidth is a uint16 in OpenType; the library stores it in an int16, so an advance >= 32768 font units
   comes back negative.  Well-formed tables: 1 glyph, 1 long metric with advance 0x9000 = 36864. *)
Lemma advance_read_signed_refuted :
  exists hhea hmtx n_long num_glyphs upem gid t,
    hhea_num_long hhea = Ok n_long /\ wf_hmtx hmtx n_long num_glyphs /\ 0 <= gid < num_glyphs
    /\ load_hmtx hhea hmtx num_glyphs = Ok t
    /\ horizontal_advance upem t gid = Ok (-28672)
    /\ advance_spec_u hmtx n_long gid = 36864.
Proof.
  exists (repeat 0 34 ++ [0; 1]), [144; 0; 0; 0], 1, 1, 1000, 0.
  eexists. repeat split; try reflexivity; try (vm_compute; congruence).
Qed.

(* A contour reduced to ONE off-curve point (excluded by good_contour): buildSegments emits a single QuadTo towards the
   stale firstOnCurve of the previous contour (or (0,0)), without any MoveTo.  The output is not a closed path and depends
   on what was decoded before.  (golang.org/x/image/font/sfnt, from which the function was adapted, has the same shape.) *)
Lemma single_offcurve_contour_not_closed :
  build_segments (mark [((5, 5), false)]) = [QuadTo (10, 10) (0, 0)]
  /\ closed_contourb (build_segments (mark [((5, 5), false)])) = false.
Proof. split; reflexivity. Qed.

Lemma single_offcurve_contour_depends_on_history :
  exists c1 c2,
    good_contour c1 = true /\
    build_segments (mark c1 ++ mark c2) <> build_segments (mark c1) ++ build_segments (mark c2).
Proof.
  exists [((7, 9), true); ((8, 1), true)], [((5, 5), false)]. split; [reflexivity|]. vm_compute. congruence.
Qed.

(* Malformed tables on which the modelled code panics (totality is property C09's subject; listed here because the
   model says Panic and the implementation was seen to panic on the same patched font):
   numberOfHMetrics = 0 with a table long enough for numGlyphs side bearings -> Hmtx.Advance indexes Metrics[-1] *)
Lemma advance_panics_without_long_metric :
  exists hhea hmtx num_glyphs t,
    load_hmtx hhea hmtx num_glyphs = Ok t /\ horizontal_advance 1000 t 1 = Panic 2.
Proof.
  exists (repeat 0 36), [0; 1; 0; 2], 2. eexists. split; reflexivity.
Qed.

(* an end point above the last one: getContourPoints indexes points[end] out of range *)
Lemma contour_points_panic_on_unsorted_end_points :
  exists src, match parse_glyph src with
              | Ok (h, GSimple e p) => get_contour_points e p = Panic 4
              | _ => False
              end.
Proof.
  (* 2 contours, end points [5; 1], no instructions, two on-curve points with zero deltas (flags 0x31) *)
  exists [0; 2; 0; 0; 0; 0; 0; 0; 0; 0;  0; 5; 0; 1;  0; 0;  49; 49].
  vm_compute. reflexivity.
Qed.
