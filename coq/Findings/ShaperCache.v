(* C13: the three defects found in the caches of the shaper, as refutations of the transparency statements on the
   models of the UNREPAIRED code.  All three are repaired in the library (commits "fix: key the shaper's font cache by
   face ...", "fix: cached shape plans are matched on the feature-variation indices too", "fix: the shaper's font cache
   evicts down to its size ..."); the witnesses are replayed on the implementation by the first three cases of driver
   c13shaper.  Never imported by Props/. *)
From TV Require Import Spec.Reuse Proofs.Reuse.

(* F4: cache keyed by the parsed font.  Faces 0 and 1 belong to font 7; with the cache enabled the second Shape is
   served with the harfbuzz font built from face 0. *)
Fixpoint run_by_font (font_of : Z -> Z) (l : ShaperCache.lru Z) (ops : list ShaperCache.op) : list Z :=
  match ops with
  | [] => []
  | ShaperCache.Shape f :: r => let '(l', v) := shape_font_by_font Z (fun f => f) font_of l f in v :: run_by_font font_of l' r
  | ShaperCache.SetFontCacheSize n :: r => run_by_font font_of (ShaperCache.set_cache_size Z l n) r
  end.
Lemma shaper_lru_key_by_font_refuted :
  exists font_of ops, run_by_font font_of (ShaperCache.lru_init Z) ops <> shaper_ref Z (fun f => f) ops.
Proof.
  exists (fun _ => 7), [ShaperCache.SetFontCacheSize 4; ShaperCache.Shape 0; ShaperCache.Shape 1].
  vm_compute. discriminate.
Qed.

(* Put evicting a single entry: a cache filled to 4 entries and shrunk to 1 still holds 4 entries after the next insertion *)
Lemma lru_single_eviction_refuted :
  exists (es : list (Z * Z)) (maxsz : Z), 0 <= maxsz /\ zlen (evict_one Z (es ++ [(9, 9)]) maxsz) > Z.max 0 maxsz.
Proof. exists [(0, 0); (1, 1); (2, 2); (3, 3)], 1. vm_compute. split; [discriminate|reflexivity]. Qed.

(* F9: plans matched on properties and features only.  After the coordinates of face 0 moved into the range of a
   FeatureVariations record the cached plan of the default instance is executed. *)
Lemma plan_cache_ignores_coords_refuted :
  exists (varidx : Z -> Z -> Z * Z) (ops : list (PlanCache.op Z)),
    PlanCache.run_with Z _ (fun f => f) varidx proj_compile (PlanCache.plan_equal_nokey _) (PlanCache.mkWorld Z _ (fun _ => 0) []) ops
    <> plan_ref Z _ (fun f => f) varidx proj_compile (fun _ => 0) ops.
Proof.
  exists (fun _ c => if c >? 500 then (0, -1) else (-1, -1)),
         [PlanCache.ShapeB Z 0 1 []; PlanCache.SetCoords Z 0 900; PlanCache.ShapeB Z 0 1 []].
  vm_compute. discriminate.
Qed.
