(* C18, GSUB multiple substitution: on sorted buffers alone the "flags persist" clause of the contract (so_persist of
   Spec/LocalEngine.v) is FALSE of the model of applySubsSequence / deleteGlyph: a flagged glyph that is alone in the first
   cluster of the buffer is deleted, deleteGlyph merges the next cluster into it (mergeClusters(idx, idx+2)) and
   setCluster clears the flags of the renumbered glyphs.  By design: no cut lies before the first cluster of a buffer.
   This is why Proofs/GsubMulti.v states gm_step_ok for sorted buffers whose first cluster is not flagged (inv_gm).
   Not a defect of the library; not listed in known_findings.json. *)
From TV Require Import Model.GsubMulti Spec.LocalEngine.

Definition hx : item := mkI (mkGX 0 (mkFl true true false) 1 0 2 7 0) 0 p0.
Definition hy : item := mkI (mkGX 1 fl0 1 0 3 7 0) 0 p0.
Definition hP : gmparams := mkGM 0 1 [(2, [])].

Theorem gm_persist_sorted_only_refuted :
  exists P d t c, t <> [] /\ fog icl iutb c (d ++ t) = true
    /\ fog icl iutb c (fst (pstep (gm_pass P) [] [] d t) ++ snd (pstep (gm_pass P) [] [] d t)) = false.
Proof. exists hP, [], [hx; hy], 0. split; [discriminate|]. split; vm_compute; reflexivity. Qed.
