(* Former findings F13a/F13b/F13c of font/cmap.go (C11), now repaired in the library (`fix:` commits: cmap format 4 Iter and
   RuneRanges leave out the missing-glyph entries; ProcessCmap drops the format 4 segments that are empty or not after
   the previous one; the legacy cmap remapers enumerate the runes they remap; newCmap10 ignores the entries past the last
   Unicode code point; sanitizeCmapGroups for formats 12/13).  The former witnesses are kept as regression facts about
   the model of the repaired code, together with what the un-sanitized tables would still do (which is why ProcessCmap
   sanitizes).  Never imported by Props. *)
From TV Require Import Model.Cmap Model.CmapSel Spec.Cmap.

(* F13a: a glyph index array containing the missing-glyph entry 0: the iterator and RuneRanges now skip rune 11 *)
Lemma cmap4_zero_entry_fixed :
  exists s, wf_cmap4 s = true /\
            iter4 s = Ok [(10, 8); (12, 10)] /\
            rune_ranges4 s = [(10, 10); (12, 12)] /\
            lookup4 s 11 = Ok (0, false).
Proof. exists [mkSeg4 10 12 3 (Some [5; 0; 7])]. vm_compute. repeat split; reflexivity. Qed.

(* F13b, format 12: overlapping groups are reduced to the first one by sanitizeCmapGroups (newCmap12) *)
Lemma cmap12_overlap_sanitized :
  exists s, wf_cmap12 s = false /\ sanitize12 s = [mkGrp 10 20 1] /\ wf_cmap12 (sanitize12 s) = true.
Proof. exists [mkGrp 10 20 1; mkGrp 15 25 100]. vm_compute. repeat split; reflexivity. Qed.
(* ... which is needed: on the raw groups rune 15 is enumerated twice *)
Lemma cmap12_overlap_raw_duplicates :
  exists s, count_occ Z.eq_dec (map fst (iter12 s)) 15 = 2%nat /\ lookup12 s 15 = Ok (100, true).
Proof. exists [mkGrp 10 20 1; mkGrp 15 25 100]. vm_compute. repeat split; reflexivity. Qed.

(* F13b, format 4: segments out of order are reduced by sanitizeCmap4 (ProcessCmap); on the raw segments rune 20 is
   enumerated while the bisection of Lookup misses it *)
Lemma cmap4_unsorted_sanitized :
  exists s, wf_cmap4 s = false /\
            iter4 s = Ok [(20, 20); (21, 21); (10, 10); (11, 11)] /\ lookup4 s 20 = Ok (0, false) /\
            sanitize4 s = [mkSeg4 20 21 0 None] /\ wf_cmap4 (sanitize4 s) = true /\
            lookup4 (sanitize4 s) 20 = Ok (20, true) /\ lookup4 (sanitize4 s) 10 = Ok (0, false).
Proof. exists [mkSeg4 20 21 0 None; mkSeg4 10 11 0 None]. vm_compute. repeat split; reflexivity. Qed.

(* F13b, a delta segment with end < start was enumerated over wrap16 (end - start) + 1 = 65527 runes, none of which
   Lookup maps; sanitizeCmap4 drops it *)
Lemma cmap4_reversed_segment_sanitized :
  exists s, (exists l, iter4 s = Ok l /\ zlen l = 65527) /\ lookup4 s 20 = Ok (0, false) /\ sanitize4 s = [].
Proof.
  exists [mkSeg4 20 10 0 None]. split; [eexists; split; [reflexivity|vm_compute; reflexivity]|].
  vm_compute. split; reflexivity.
Qed.

(* F13c: a symbol cmap 0xF020..0xF022: Lookup(0x20) succeeds through the remaper and Iter now yields 0x20..0x22 too *)
Lemma symbol_remaper_iter_fixed :
  let inner := [mkSeg4 61472 61474 7 None] in
  remap_symbol (lookup4 inner) 32 = Ok (61479, true) /\
  (do i <- iter4 inner; remap_iter i (lookup4 inner) (remap_symbol (lookup4 inner)) 255)
    = Ok [(61472, 61479); (61473, 61480); (61474, 61481); (32, 61479); (33, 61480); (34, 61481)].
Proof. vm_compute. split; reflexivity. Qed.

(* format 10 with a start code beyond the Unicode range: no entry is kept (rune 0x1000041 would be recorded as U+0041
   by the 24-bit pages of the coverage) *)
Lemma cmap10_beyond_unicode_fixed :
  new_cmap10 16777281 [7] = mkCmap6 16777281 [] /\ new_cmap10 1114110 [1; 2; 3] = mkCmap6 1114110 [1; 2].
Proof. vm_compute. split; reflexivity. Qed.
