(* Findings for C11, character maps: without the well-formedness predicates of Spec.Cmap the enumeration
   (iterator), the point lookup and RuneRanges of the model disagree.  Every witness is closed and checked
   by computation on the model as written. *)
From TV Require Import Model.Cmap Spec.Cmap.

(* format 4, a glyph index array containing the missing-glyph entry 0: the iterator yields the rune with
   glyph 0, Lookup reports it as absent *)
Lemma cmap4_zero_entry_iter_refuted :
  exists s, wf_cmap4 s = false /\
            iter4 s = Ok [(10, 8); (11, 0); (12, 10)] /\
            lookup4 s 11 = Ok (0, false).
Proof. exists [mkSeg4 10 12 3 (Some [5; 0; 7])]. vm_compute. repeat split; reflexivity. Qed.

Lemma cmap4_zero_entry_not_iter_agrees :
  exists s l, iter4 s = Ok l /\ ~ iter_agrees l (lookup4 s).
Proof.
  exists [mkSeg4 10 12 3 (Some [5; 0; 7])], [(10, 8); (11, 0); (12, 10)].
  split; [vm_compute; reflexivity|].
  intros (_ & H). specialize (H 11 0).
  assert (Hr : int32_ok 11) by (unfold int32_ok; lia).
  assert (Hi : In (11, 0) [(10, 8); (11, 0); (12, 10)]) by (right; left; reflexivity).
  apply (proj1 (H Hr)) in Hi. vm_compute in Hi. discriminate Hi.
Qed.

(* the same cmap: RuneRanges covers rune 11 (coverage over-approximation), Lookup does not map it *)
Lemma cmap4_zero_entry_ranges_refuted :
  exists s, wf_cmap4 s = false /\
            rune_ranges4 s = [(10, 12)] /\
            in_ranges (rune_ranges4 s) 11 = true /\
            lookup4 s 11 = Ok (0, false).
Proof. exists [mkSeg4 10 12 3 (Some [5; 0; 7])]. vm_compute. repeat split; reflexivity. Qed.

Lemma cmap4_zero_entry_not_ranges_domain :
  exists s, ~ ranges_are_domain (rune_ranges4 s) (lookup4 s).
Proof.
  exists [mkSeg4 10 12 3 (Some [5; 0; 7])]. intros H. specialize (H 11).
  assert (Hr : int32_ok 11) by (unfold int32_ok; lia).
  destruct (proj1 (H Hr)) as (g & Hg); [vm_compute; reflexivity|].
  vm_compute in Hg. discriminate Hg.
Qed.

(* format 12, overlapping groups: rune 15 is enumerated twice, first with glyph 6 (first group) while
   Lookup answers with the second group's glyph 100 *)
Lemma cmap12_overlap_duplicates_refuted :
  exists s, wf_cmap12 s = false /\
            count_occ Z.eq_dec (map fst (iter12 s)) 15 = 2%nat /\
            nth 5 (iter12 s) (0, 0) = (15, 6) /\
            nth 11 (iter12 s) (0, 0) = (15, 100) /\
            lookup12 s 15 = Ok (100, true).
Proof. exists [mkGrp 10 20 1; mkGrp 15 25 100]. vm_compute. repeat split; reflexivity. Qed.

Lemma cmap12_overlap_not_iter_agrees :
  exists s, ~ iter_agrees (iter12 s) (lookup12 s).
Proof.
  exists [mkGrp 10 20 1; mkGrp 15 25 100]. intros (_ & H). specialize (H 15 6).
  assert (Hr : int32_ok 15) by (unfold int32_ok; lia).
  assert (Hi : In (15, 6) (iter12 [mkGrp 10 20 1; mkGrp 15 25 100])).
  { vm_compute. do 5 right. left. reflexivity. }
  apply (proj1 (H Hr)) in Hi. vm_compute in Hi. discriminate Hi.
Qed.

(* format 4, segments out of order: rune 20 is enumerated, the bisection of Lookup misses it *)
Lemma cmap4_unsorted_lookup_refuted :
  exists s, wf_cmap4 s = false /\
            iter4 s = Ok [(20, 20); (21, 21); (10, 10); (11, 11)] /\
            lookup4 s 20 = Ok (0, false).
Proof. exists [mkSeg4 20 21 0 None; mkSeg4 10 11 0 None]. vm_compute. repeat split; reflexivity. Qed.

Lemma cmap4_unsorted_not_iter_agrees :
  exists s l, iter4 s = Ok l /\ ~ iter_agrees l (lookup4 s).
Proof.
  exists [mkSeg4 20 21 0 None; mkSeg4 10 11 0 None], [(20, 20); (21, 21); (10, 10); (11, 11)].
  split; [vm_compute; reflexivity|].
  intros (_ & H). specialize (H 20 20).
  assert (Hr : int32_ok 20) by (unfold int32_ok; lia).
  assert (Hi : In (20, 20) [(20, 20); (21, 21); (10, 10); (11, 11)]) by (left; reflexivity).
  apply (proj1 (H Hr)) in Hi. vm_compute in Hi. discriminate Hi.
Qed.

(* formats 12/13, two groups sharing an end point: RuneRanges merges them into one range while the
   iterator enumerates the shared rune 20 twice (glyphs 11 and 50; Lookup answers 50) *)
Lemma rune_ranges_shared_endpoint_refuted :
  exists s, wf_cmap12 s = false /\
            rune_ranges12 s = [(10, 30)] /\
            count_occ Z.eq_dec (map fst (iter12 s)) 20 = 2%nat /\
            nth 10 (iter12 s) (0, 0) = (20, 11) /\
            nth 11 (iter12 s) (0, 0) = (20, 50) /\
            lookup12 s 20 = Ok (50, true).
Proof. exists [mkGrp 10 20 1; mkGrp 20 30 50]. vm_compute. repeat split; reflexivity. Qed.
