(* C18-F97 (known finding, C18): GPOS pair positioning and a skipped glyph as the first glyph of a pair — the analogue of
   F61 (Findings/KernLeft.v).  applyGPOSPair1 / applyGPOSPair2 (harfbuzz/ot_layout_gpos.go, same in HarfBuzz) look for the
   SECOND glyph of a pair with an iterator that skips default ignorables (and what the lookup flag ignores); after a pair
   whose record has no effect and no second value record the cursor jumps to that second glyph (`buffer.idx = pos`) over
   the skipped glyphs, and nothing is flagged.  A default ignorable that is in the coverage of the subtable is therefore
   the first glyph of a pair only when it starts the buffer: the piece that starts at it is kerned while the whole text is
   not.  Without the side condition pp_left_okb the cut statement of pairpos_lookup_cut_safe is false of the faithful
   model.  Witness: A (cluster 0), a default ignorable Z (cluster 1, MonotoneCharacters), V (cluster 2); format 1 with
   records (A, V) = XAdvance 0 and (Z, V) = XAdvance 126; cut at 1.  The driver c18pair replays it on the real lookup
   (corpus/c18pair). *)
From TV Require Import Model.PairPos Proofs.EngineItem Proofs.KernMachine Proofs.PairPos.

Definition f97_it (c g u q : Z) (adv : Z) : item := mkI (mkGX c fl0 1 0 g u q) 0 (mkP adv 0 0 0 0 0).
Definition f97_P : ppparams :=
  mkPP 0 1 true false false 4 0 [(1, 5, mkVR 0 0 0 0 false 0, vr0); (32, 5, mkVR 0 0 126 0 false 0, vr0)] [] [] [].

Theorem pairpos_left_skippable_refuted :
  exists P pre suf c rec,
    (pp_mask P =? 0) = false /\ sorted (pre ++ suf) /\ cutv icl sideL c pre suf = true
    /\ pp_left_okb P (pre ++ suf) = false
    /\ fog icl iutb c (fst (pp_lookup (pre ++ suf, rec) P)) = false
    /\ fst (pp_lookup (pre ++ suf, rec) P) <> fst (pp_lookup (pre, rec) P) ++ fst (pp_lookup (suf, rec) P).
Proof.
  exists f97_P, [f97_it 0 1 7 2 500], [f97_it 1 32 33 0 0; f97_it 2 5 7 2 500], 1, false.
  split; [reflexivity|]. split; [cbn; repeat split; intros y H; cbn in H; intuition lia|].
  repeat split; try (vm_compute; reflexivity). vm_compute. discriminate.
Qed.
