(* Witnesses for defects of fontscan/rune_coverage.go kept as known findings (C11).  Never imported by Props. *)
From TV Require Import Model.RuneSet Spec.RuneSet.

(* F23: b = {5} after Delete 5 has no member (Len = 0) but keeps an all-zero page; the empty set a
   "does not include" it, although the empty set includes the empty set. *)
Lemma includes_after_delete_refuted :
  exists r b, (do s <- rsAdd [] r; rsDelete s r) = Ok b /\ rsLen b = 0 /\ rsIncludes [] b = Ok false.
Proof. exists 5, [mkPage 0 zero_set]. vm_compute. repeat split; reflexivity. Qed.

(* same defect with a non-empty including set: a = {0x200}, b = {0x200} plus an emptied page 1 *)
Lemma includes_after_delete_nonempty_refuted :
  exists a b, rsAdd [] 512 = Ok a
              /\ (do s <- rsAdd a 300; rsDelete s 300) = Ok b
              /\ rsLen b = rsLen a /\ rsContains b 512 = Ok true
              /\ rsIncludes a b = Ok false.
Proof.
  eexists _, _. split; [vm_compute; reflexivity|]. split; [vm_compute; reflexivity|].
  vm_compute. repeat split; reflexivity.
Qed.
