(* Former finding F39 of fontscan/rune_coverage.go (C11), now repaired in the library (`fix: RuneSet.includes ignores the
   empty pages left behind by Delete`).  The former witnesses are kept as regression facts about the model of the
   repaired code; the general statement is Props/C11.v runeset_includes_iff.  Never imported by Props. *)
From TV Require Import Model.RuneSet Spec.RuneSet.

(* b = {5} after Delete 5 has no member (Len = 0) but keeps an all-zero page; the empty set includes it *)
Lemma includes_after_delete_fixed :
  exists r b, (do s <- rsAdd [] r; rsDelete s r) = Ok b /\ rsLen b = 0 /\ b <> [] /\ rsIncludes [] b = Ok true.
Proof. exists 5, [mkPage 0 zero_set]. vm_compute. repeat split; try reflexivity. discriminate. Qed.

(* a = {0x200}, b = {0x200} plus an emptied page 1: a includes b, and still does not include a real extra rune *)
Lemma includes_after_delete_nonempty_fixed :
  exists a b c, rsAdd [] 512 = Ok a
              /\ (do s <- rsAdd a 300; rsDelete s 300) = Ok b
              /\ rsAdd a 300 = Ok c
              /\ rsLen b = rsLen a /\ rsContains b 512 = Ok true
              /\ rsIncludes a b = Ok true /\ rsIncludes a c = Ok false.
Proof.
  eexists _, _, _. split; [vm_compute; reflexivity|]. split; [vm_compute; reflexivity|].
  split; [vm_compute; reflexivity|]. vm_compute. repeat split; reflexivity.
Qed.
