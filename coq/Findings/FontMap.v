(* C14 companions outside the property's quantifier (cache sizes 0, 1, small, default).
   A negative rune cache size makes the eviction loop of runeLRU.Put run past the last entry: tail.next is then the
   head sentinel, whose next pointer is nil, and remove(head) dereferences it.  Replayed on the implementation:
   NewFontMap; AddFace; SetRuneCacheSize(-1); ResolveFace('a') panics with a nil pointer dereference. *)
From TV Require Import Model.FontMap.
Open Scope Z_scope.

Definition neg_size_ops : list op :=
  [OpAdd [mkAdded 0 0 1 (mkAspect 1 400 8) [97] [10] false true]; OpCacheSize (-1); OpResolve 97].

Lemma resolve_total_negative_size_refuted :
  exists ops, run (fun _ _ => 0) (fun z => z) (fun _ => false) (fun _ _ => []) (fun _ => 0) 0 new_fontmap ops = Panic 4.
Proof. exists neg_size_ops. vm_compute. reflexivity. Qed.
