(* Result type for models of Go functions that can fail, panic or loop. *)
Inductive res (A : Type) : Type :=
| Ok (a : A)
| Err (code : nat)      (* Go returned a non-nil error; code = small enum *)
| Panic (code : nat)    (* Go would panic (index out of range, nil deref, ...) *)
| OutOfFuel.
Arguments Ok {A} a.
Arguments Err {A} code.
Arguments Panic {A} code.
Arguments OutOfFuel {A}.

Definition bind {A B} (r : res A) (f : A -> res B) : res B :=
  match r with
  | Ok a => f a
  | Err c => Err c
  | Panic c => Panic c
  | OutOfFuel => OutOfFuel
  end.
Notation "'do' x <- r ; k" := (bind r (fun x => k)) (at level 200, x pattern, r at level 100, k at level 200).

Definition is_ok {A} (r : res A) : bool := match r with Ok _ => true | _ => false end.
Definition is_err {A} (r : res A) : bool := match r with Err _ => true | _ => false end.
Definition total {A} (r : res A) : Prop := match r with Panic _ | OutOfFuel => False | _ => True end.
