(* Go fixed-width integer conventions: Z with explicit wrap. *)
From Coq Require Export ZArith List Lia Bool.
Export ListNotations.
Open Scope Z_scope.

Definition wrap8  (x : Z) : Z := x mod 256.
Definition wrap16 (x : Z) : Z := x mod 65536.
Definition wrap32 (x : Z) : Z := x mod 4294967296.
Definition wrap64 (x : Z) : Z := x mod 18446744073709551616.

(* signed reinterpretation, e.g. int16(uint16) *)
Definition sint16 (x : Z) : Z := let y := wrap16 x in if y <? 32768 then y else y - 65536.
Definition sint32 (x : Z) : Z := let y := wrap32 x in if y <? 2147483648 then y else y - 4294967296.

Definition zlen {A} (l : list A) : Z := Z.of_nat (length l).

Lemma zlen_nonneg {A} (l : list A) : 0 <= zlen l.
Proof. unfold zlen; lia. Qed.
Lemma zlen_app {A} (l1 l2 : list A) : zlen (l1 ++ l2) = zlen l1 + zlen l2.
Proof. unfold zlen; rewrite app_length; lia. Qed.
Lemma zlen_cons {A} (x : A) l : zlen (x :: l) = 1 + zlen l.
Proof. unfold zlen; simpl length; lia. Qed.
Lemma zlen_nil {A} : zlen (@nil A) = 0.
Proof. reflexivity. Qed.

Lemma wrap32_small x : 0 <= x < 4294967296 -> wrap32 x = x.
Proof. intros; unfold wrap32; apply Z.mod_small; lia. Qed.
Lemma wrap16_small x : 0 <= x < 65536 -> wrap16 x = x.
Proof. intros; unfold wrap16; apply Z.mod_small; lia. Qed.
Lemma wrap32_range x : 0 <= wrap32 x < 4294967296.
Proof. unfold wrap32; apply Z.mod_pos_bound; lia. Qed.
Lemma wrap16_range x : 0 <= wrap16 x < 65536.
Proof. unfold wrap16; apply Z.mod_pos_bound; lia. Qed.

(* slices: Go's s[a:b] on a list, clamped (callers check bounds explicitly) *)
Definition zfirstn {A} (n : Z) (l : list A) : list A := firstn (Z.to_nat n) l.
Definition zskipn {A} (n : Z) (l : list A) : list A := skipn (Z.to_nat n) l.
Definition znth {A} (d : A) (l : list A) (i : Z) : A := if i <? 0 then d else nth (Z.to_nat i) l d.

Lemma zlen_zfirstn {A} n (l : list A) : 0 <= n <= zlen l -> zlen (zfirstn n l) = n.
Proof. unfold zlen, zfirstn; intros; rewrite firstn_length; lia. Qed.
Lemma zlen_zskipn {A} n (l : list A) : 0 <= n <= zlen l -> zlen (zskipn n l) = zlen l - n.
Proof. unfold zlen, zskipn; intros; rewrite skipn_length; lia. Qed.
Lemma zskipn_app_exact {A} (l1 l2 : list A) : zskipn (zlen l1) (l1 ++ l2) = l2.
Proof. unfold zskipn, zlen; rewrite Nat2Z.id. rewrite skipn_app, skipn_all, Nat.sub_diag; reflexivity. Qed.
Lemma zfirstn_app_exact {A} (l1 l2 : list A) : zfirstn (zlen l1) (l1 ++ l2) = l1.
Proof. unfold zfirstn, zlen; rewrite Nat2Z.id. rewrite firstn_app, firstn_all, Nat.sub_diag; simpl; apply app_nil_r. Qed.
Lemma zskipn_app_ge {A} n (l1 l2 : list A) : zlen l1 <= n -> zskipn n (l1 ++ l2) = zskipn (n - zlen l1) l2.
Proof.
  unfold zskipn, zlen; intros. rewrite skipn_app.
  rewrite skipn_all2 by lia. simpl. f_equal. lia.
Qed.
Lemma zskipn_0 {A} (l : list A) : zskipn 0 l = l.
Proof. reflexivity. Qed.
