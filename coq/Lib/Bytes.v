(* Big-endian byte encodings over list Z and the hex literal decoder used by generated case files. *)
From TV Require Export Lib.GoNum.

Definition byte_ok (b : Z) : Prop := 0 <= b < 256.
Definition bytes_ok (l : list Z) : Prop := Forall byte_ok l.
Definition byte_okb (b : Z) : bool := (0 <=? b) && (b <? 256).
Definition bytes_okb (l : list Z) : bool := forallb byte_okb l.

Definition put16 (x : Z) : list Z := [ (x / 256) mod 256; x mod 256 ].
Definition put32 (x : Z) : list Z :=
  [ (x / 16777216) mod 256; (x / 65536) mod 256; (x / 256) mod 256; x mod 256 ].

(* binary.BigEndian.Uint16/Uint32 on a slice already known to be long enough; short lists read as 0-padded
   (callers in models guard the length, so that case is never a normal result) *)
Definition get16 (l : list Z) : Z :=
  match l with a :: b :: _ => a * 256 + b | _ => 0 end.
Definition get32 (l : list Z) : Z :=
  match l with a :: b :: c :: d :: _ => a * 16777216 + b * 65536 + c * 256 + d | _ => 0 end.

Lemma get16_put16 x : 0 <= x < 65536 -> get16 (put16 x) = x.
Proof. intros; unfold get16, put16. pose proof (Z.div_mod x 256). 
  rewrite (Z.mod_small (x/256)) by (split; [apply Z.div_pos; lia | apply Z.div_lt_upper_bound; lia]). lia. Qed.

Lemma get32_put32 x : 0 <= x < 4294967296 -> get32 (put32 x) = x.
Proof.
  intros; unfold get32, put32.
  pose proof (Z.div_mod x 256 ltac:(lia)).
  pose proof (Z.div_mod (x/256) 256 ltac:(lia)).
  pose proof (Z.div_mod (x/256/256) 256 ltac:(lia)).
  rewrite Z.div_div in * by lia.
  replace (256*256) with 65536 in * by reflexivity.
  rewrite Z.div_div in * by lia.
  replace (65536*256) with 16777216 in * by reflexivity.
  rewrite (Z.mod_small (x/16777216)) by (split; [apply Z.div_pos; lia | apply Z.div_lt_upper_bound; lia]).
  lia.
Qed.

Lemma put32_bytes_ok x : bytes_ok (put32 x).
Proof. unfold put32, bytes_ok, byte_ok; repeat constructor; apply Z.mod_pos_bound; lia. Qed.
Lemma put16_bytes_ok x : bytes_ok (put16 x).
Proof. unfold put16, bytes_ok, byte_ok; repeat constructor; apply Z.mod_pos_bound; lia. Qed.
Lemma zlen_put32 x : zlen (put32 x) = 4. Proof. reflexivity. Qed.
Lemma zlen_put16 x : zlen (put16 x) = 2. Proof. reflexivity. Qed.

Lemma get32_range l : bytes_ok l -> 0 <= get32 l < 4294967296.
Proof.
  unfold get32. destruct l as [|a [|b [|c [|d r]]]]; intros H; try lia.
  inversion H as [|? ? Ha T1]; inversion T1 as [|? ? Hb T2]; inversion T2 as [|? ? Hc T3]; inversion T3 as [|? ? Hd _].
  unfold byte_ok in *; lia.
Qed.

(* ---- literal decoder: a positive written 0x01<hex bytes> denotes the byte string after the 01 sentinel ---- *)
Fixpoint bits_of_pos (p : positive) : list bool :=   (* LSB first, without the leading 1 *)
  match p with
  | xH => []
  | xO q => false :: bits_of_pos q
  | xI q => true :: bits_of_pos q
  end.
Definition b2z (b : bool) : Z := if b then 1 else 0.
Fixpoint bytes_of_bits (l : list bool) (acc : list Z) : list Z :=  (* consumes 8 bits LSB first; builds big-endian result *)
  match l with
  | b0 :: b1 :: b2 :: b3 :: b4 :: b5 :: b6 :: b7 :: r =>
      bytes_of_bits r ((b2z b0 + 2 * b2z b1 + 4 * b2z b2 + 8 * b2z b3 + 16 * b2z b4 + 32 * b2z b5 + 64 * b2z b6 + 128 * b2z b7) :: acc)
  | _ => acc
  end.
(* B p : bytes of the literal p = 0x01 b1 b2 ... bn  (the sentinel keeps leading zero bytes) *)
Definition B (p : positive) : list Z := bytes_of_bits (bits_of_pos p) [].

Definition list_Z_eqb (a b : list Z) : bool :=
  (fix go a b := match a, b with
                 | [], [] => true
                 | x :: a', y :: b' => (x =? y) && go a' b'
                 | _, _ => false
                 end) a b.
Lemma list_Z_eqb_eq a b : list_Z_eqb a b = true <-> a = b.
Proof.
  revert b; induction a as [|x a IH]; destruct b as [|y b]; simpl; split; intros H; try congruence; try reflexivity.
  - apply andb_true_iff in H as [H1 H2]. apply Z.eqb_eq in H1. apply IH in H2. congruence.
  - inversion H; subst. rewrite Z.eqb_refl. simpl. apply IH. reflexivity.
Qed.
