(* C13 — Reusable objects never leak state between uses.  Property theorems only.
   Each caching object is a refinement of the cache-free reference machine of Spec/Reuse.v
   ("recompute from the arguments of the call and the settings in force"), for ALL histories. *)
From TV Require Import Spec.Reuse Proofs.Reuse Proofs.ReuseIndep.

(* font.Face: for every history of SetCoords / SetVariations / SetPpem / GlyphExtents on a new face,
   every GlyphExtents answer is the raw (uncached) extents at the coordinates and ppem in force.
   raw, norm are arbitrary functions; glyph ids are unsigned (op_wf). *)
Theorem face_cache_transparent :
  forall (coords variations extents : Type) (raw : Z -> coords -> Z * Z -> option extents)
         (norm : variations -> coords) (nil_coords : coords) (nglyphs : Z)
         (ops : list (FaceCache.op coords variations)),
    Forall (op_wf coords variations) ops ->
    FaceCache.run coords variations extents raw norm (FaceCache.new_face coords extents nil_coords nglyphs) ops
    = face_ref coords variations extents raw norm nil_coords (0, 0) ops.
Proof. exact face_cache_transparent_lemma. Qed.
Print Assumptions face_cache_transparent.

(* ... and the cache itself never holds a stale cell: after any history every valid cell equals raw at the settings in force *)
Theorem face_cache_cells_current :
  forall (coords variations extents : Type) (raw : Z -> coords -> Z * Z -> option extents)
         (norm : variations -> coords) (nil_coords : coords) (nglyphs : Z)
         (ops : list (FaceCache.op coords variations)),
    Forall (op_wf coords variations) ops ->
    let f := FaceCache.final coords variations extents raw norm (FaceCache.new_face coords extents nil_coords nglyphs) ops in
    forall g e, 0 <= g -> FaceCache.cache_get extents (f_cache _ _ f) g = Some e -> raw g (f_coords _ _ f) (f_ppem _ _ f) = Some e.
Proof. exact face_cache_cells_lemma. Qed.
Print Assumptions face_cache_cells_current.

(* shaping.HarfbuzzShaper: for every sequence of Shape(face_i) / SetFontCacheSize(n) on a zero shaper, the
   harfbuzz font handed to the engine by each Shape is NewFont of that input's own face *)
Theorem shaper_lru_transparent :
  forall (hbfont : Type) (mk : Z -> hbfont) (ops : list ShaperCache.op),
    ShaperCache.run hbfont mk (ShaperCache.lru_init hbfont) ops = shaper_ref hbfont mk ops.
Proof. exact shaper_lru_transparent_lemma. Qed.
Print Assumptions shaper_lru_transparent.

(* every cached harfbuzz font is the one built from the face it is filed under *)
Theorem lru_values_own_face :
  forall (hbfont : Type) (mk : Z -> hbfont) (ops : list ShaperCache.op) (k : Z) (v : hbfont),
    In (k, v) (ShaperCache.entries hbfont (ShaperCache.final hbfont mk (ShaperCache.lru_init hbfont) ops)) -> v = mk k.
Proof. exact lru_values_lemma. Qed.
Print Assumptions lru_values_own_face.

(* the recency list never holds a key twice (so len(map) = length of the list: the one-list model is faithful) *)
Theorem lru_keys_distinct :
  forall (hbfont : Type) (mk : Z -> hbfont) (ops : list ShaperCache.op),
    NoDup (map fst (ShaperCache.entries hbfont (ShaperCache.final hbfont mk (ShaperCache.lru_init hbfont) ops))).
Proof. exact lru_keys_distinct_lemma. Qed.
Print Assumptions lru_keys_distinct.

(* size: never more entries than the largest size ever configured (0 for the zero shaper) ... *)
Theorem lru_size_bounded :
  forall (hbfont : Type) (mk : Z -> hbfont) (ops : list ShaperCache.op) (B : Z),
    0 <= B -> (forall n, In n (sizes_set ops) -> n <= B) ->
    zlen (ShaperCache.entries hbfont (ShaperCache.final hbfont mk (ShaperCache.lru_init hbfont) ops)) <= B.
Proof. exact lru_size_bounded_lemma. Qed.
Print Assumptions lru_size_bounded.

(* ... and after SetFontCacheSize shrank it, the next Shape that inserts brings it down to the configured size
   (also for sizes 0 and below: nothing is kept) *)
Theorem lru_shrinks_on_next_insert :
  forall (hbfont : Type) (mk : Z -> hbfont) (ops : list ShaperCache.op) (f : Z),
    let l := ShaperCache.final hbfont mk (ShaperCache.lru_init hbfont) ops in
    ShaperCache.is_miss hbfont l f = true ->
    zlen (ShaperCache.entries hbfont (ShaperCache.final hbfont mk (ShaperCache.lru_init hbfont) (ops ++ [ShaperCache.Shape f])))
    <= Z.max 0 (ShaperCache.max_size hbfont l).
Proof. exact lru_shrinks_on_insert_lemma. Qed.
Print Assumptions lru_shrinks_on_next_insert.

(* stated without the reference machine: two histories of one shaper type that make the same Shape calls in the same
   order hand the same fonts to the engine, whatever SetFontCacheSize calls (how many, where, which sizes, also
   zero and negative) either of them contains *)
Theorem shaper_cache_sizes_irrelevant :
  forall (hbfont : Type) (mk : Z -> hbfont) (ops ops' : list ShaperCache.op),
    filter is_shape ops = filter is_shape ops' ->
    ShaperCache.run hbfont mk (ShaperCache.lru_init hbfont) ops = ShaperCache.run hbfont mk (ShaperCache.lru_init hbfont) ops'.
Proof. exact shaper_sizes_irrelevant_lemma. Qed.
Print Assumptions shaper_cache_sizes_irrelevant.

(* a Shape call is served with the font of its own face after ANY history (no leak from earlier inputs) *)
Theorem shape_history_free :
  forall (hbfont : Type) (mk : Z -> hbfont) (pre : list ShaperCache.op) (f : Z),
    exists front, ShaperCache.run hbfont mk (ShaperCache.lru_init hbfont) (pre ++ [ShaperCache.Shape f]) = front ++ [mk f].
Proof. exact shape_history_free_lemma. Qed.
Print Assumptions shape_history_free.

(* harfbuzz.Buffer plan cache: for every history of Shape calls (any faces, properties, features) interleaved with
   coordinate changes of the faces, the plan executed is the plan freshly compiled from the call's arguments and the
   face's CURRENT coordinates.  Assumption on the external compiler: it reads of a user feature only tag, value and
   whether it is global (the components userFeaturesMatch compares). *)
Theorem plan_cache_transparent :
  forall (coords plan : Type) (font_of : Z -> Z) (varidx : Z -> coords -> Z * Z)
         (compile : Z -> Z -> list feature -> Z * Z -> plan),
    (forall fnt props fs fs' key, feats_match (map normalise fs') fs = true -> compile fnt props fs' key = compile fnt props fs key) ->
    forall (cs : Z -> coords) (ops : list (PlanCache.op coords)),
      PlanCache.run coords plan font_of varidx compile (PlanCache.mkWorld coords plan cs []) ops
      = plan_ref coords plan font_of varidx compile cs ops.
Proof. exact plan_cache_transparent_lemma. Qed.
Print Assumptions plan_cache_transparent.

(* ---- non-vacuity ---------------------------------------------------------------------------- *)

(* a face with 3 cached glyphs whose raw extents depend on glyph, coordinates and ppem: the history contains cache
   hits (second query of glyph 1), resets, an id outside the cache (7) and a glyph without extents (2 -> None) *)
Definition ex_raw (g c : Z) (p : Z * Z) : option Z := if g =? 2 then None else Some (g + 100 * c + 10000 * fst p).
Definition ex_face_ops : list (FaceCache.op Z Z) :=
  [FaceCache.GlyphExtents Z Z 1; FaceCache.GlyphExtents Z Z 1; FaceCache.SetCoords Z Z 5; FaceCache.GlyphExtents Z Z 1;
   FaceCache.GlyphExtents Z Z 7; FaceCache.SetPpem Z Z 2 3; FaceCache.GlyphExtents Z Z 1; FaceCache.GlyphExtents Z Z 2;
   FaceCache.SetVariations Z Z 9; FaceCache.GlyphExtents Z Z 0; FaceCache.GlyphExtents Z Z 1].
Example face_example :
  Forall (op_wf Z Z) ex_face_ops
  /\ FaceCache.run Z Z Z ex_raw (fun v => v + 1) (FaceCache.new_face Z Z 0 3) ex_face_ops
     = [Some 1; Some 1; Some 501; Some 507; Some 20501; None; Some 21000; Some 21001]
  /\ map snd (FaceCache.trace Z Z Z ex_raw (fun v => v + 1) (FaceCache.new_face Z Z 0 3) ex_face_ops)
     = [[1]; [1]; []; [1]; [1]; []; [1]; [1]; []; [0]; [0; 1]].
Proof.
  split; [|split; reflexivity].
  repeat constructor; simpl; lia.
Qed.

(* a shaper history with hits, an eviction by recency, shrinking, size 0 and a negative size *)
Definition ex_lru_ops : list ShaperCache.op :=
  [ShaperCache.Shape 1; ShaperCache.SetFontCacheSize 2; ShaperCache.Shape 1; ShaperCache.Shape 2; ShaperCache.Shape 1;
   ShaperCache.Shape 3; ShaperCache.SetFontCacheSize 3; ShaperCache.Shape 4; ShaperCache.SetFontCacheSize 1;
   ShaperCache.Shape 3; ShaperCache.Shape 5; ShaperCache.SetFontCacheSize (-1); ShaperCache.Shape 6].
Example lru_example :
  map (ShaperCache.entries Z) (ShaperCache.trace Z (fun f => f) (ShaperCache.lru_init Z) ex_lru_ops)
  = [[]; []; [(1, 1)]; [(1, 1); (2, 2)]; [(2, 2); (1, 1)]; [(1, 1); (3, 3)]; [(1, 1); (3, 3)];
     [(1, 1); (3, 3); (4, 4)]; [(1, 1); (3, 3); (4, 4)]; [(1, 1); (4, 4); (3, 3)]; [(5, 5)]; [(5, 5)]; []]
  /\ ShaperCache.is_miss Z (ShaperCache.final Z (fun f => f) (ShaperCache.lru_init Z) (firstn 10 ex_lru_ops)) 5 = true.
Proof. split; reflexivity. Qed.

(* the assumption of plan_cache_transparent is satisfiable by a compiler that reads everything it may *)
Example plan_assumption_satisfiable :
  forall fnt props fs fs' key, feats_match (map normalise fs') fs = true ->
    proj_compile fnt props fs' key = proj_compile fnt props fs key.
Proof. exact proj_compile_respects_match. Qed.

(* a Buffer history: the second Shape hits the cached plan, the coordinate change selects another feature-variation
   record and a new plan is compiled, going back hits the first plan again; a non-global feature range matches
   whatever its bounds *)
Definition ex_plan_ops : list (PlanCache.op Z) :=
  [PlanCache.ShapeB Z 0 7 [(1, 1, 0, global_end)]; PlanCache.ShapeB Z 0 7 [(1, 1, 0, global_end)];
   PlanCache.SetCoords Z 0 900; PlanCache.ShapeB Z 0 7 [(1, 1, 0, global_end)];
   PlanCache.SetCoords Z 0 100; PlanCache.ShapeB Z 0 7 [(1, 1, 0, global_end)];
   PlanCache.ShapeB Z 0 7 [(1, 1, 3, 5)]; PlanCache.ShapeB Z 0 7 [(1, 1, 4, 9)]; PlanCache.ShapeB Z 1 7 [(1, 1, 4, 9)]].
Example plan_example :
  let varidx := fun (_ : Z) (c : Z) => if c >? 500 then (0, -1) else (-1, -1) in
  map (@length _) (PlanCache.trace Z _ (fun f => 10 + f) varidx proj_compile (PlanCache.mkWorld Z _ (fun _ => 0) []) ex_plan_ops)
  = [1; 1; 0; 2; 0; 2; 3; 3; 1]%nat
  /\ PlanCache.run Z _ (fun f => 10 + f) varidx proj_compile (PlanCache.mkWorld Z _ (fun _ => 0) []) ex_plan_ops
     = [(10, 7, [(1, 1, true)], (-1, -1)); (10, 7, [(1, 1, true)], (-1, -1)); (10, 7, [(1, 1, true)], (0, -1));
        (10, 7, [(1, 1, true)], (-1, -1)); (10, 7, [(1, 1, false)], (-1, -1)); (10, 7, [(1, 1, false)], (-1, -1));
        (11, 7, [(1, 1, false)], (-1, -1))].
Proof. split; reflexivity. Qed.

(* ---- shaping.LineWrapper (model of C02: Model/Wrap.v; proofs: Proofs/WrapReuse.v) ------------------------------------ *)
From TV Require Import Model.Wrap Spec.Wrap Proofs.WrapLines Proofs.WrapReuse.

(* wrap_history_independent: for EVERY LineWrapper state w — in particular every state reachable by any history of
   Prepare / WrapNextLine / WrapParagraph calls on other paragraphs, finished or abandoned — and every paragraph whose runs
   are well-formed on the store as it is now (wf_runs), every configuration, break attributes and widths:
   Prepare followed by any sequence of WrapNextLine calls observes exactly what the same calls observe from the zero
   LineWrapper: the same per-call results (line, Truncated, NextLine, done), the same final glyph store, the same failure
   if any.  Prepare resets every field except the rune -> glyph mapping buffer; the stale buffer, its length and run index
   do not matter because the valid flag is cleared and mapRunesToClusterIndices3 overwrites every entry of a well-formed
   run (C02 map3_correct).  (For malformed runs the stale buffer can leak: entries not covered by a cluster are kept.) *)
Theorem wrap_history_independent : forall n w cfg attrs runs widths,
  wf_runs (w_st w) runs n = true ->
  obs_calls (run_calls (prepare w cfg attrs runs 0 0) widths)
  = obs_calls (run_calls (prepare (w_zero (w_st w)) cfg attrs runs 0 0) widths).
Proof. exact history_independent_calls. Qed.
Print Assumptions wrap_history_independent.

(* the same for WrapParagraph (fast path included) *)
Theorem wrap_paragraph_history_independent : forall n w cfg attrs runs mw,
  wf_runs (w_st w) runs n = true ->
  obs_paragraph (wrap_paragraph w cfg mw attrs runs)
  = obs_paragraph (wrap_paragraph (w_zero (w_st w)) cfg mw attrs runs).
Proof. exact history_independent_paragraph. Qed.
Print Assumptions wrap_paragraph_history_independent.

(* non-vacuity: a wrapper abandoned after two lines of another paragraph (other break attributes, width 1) holds a valid
   stale mapping for run 1; the runs are still well-formed on its (edited) store; Prepare + three calls at width 2 succeed
   and return what the zero wrapper returns *)
Definition ex_hist_st : store :=
  [[mkGlyph 0 1 1 64 64 0 0 0; mkGlyph 1 1 1 64 64 0 0 0]; [mkGlyph 2 1 2 32 32 0 0 0; mkGlyph 2 1 2 32 32 0 0 0]; []].
Definition ex_hist_runs : list out := [mkOut 128 0 0 2 0 0 2 0; mkOut 64 0 2 1 1 0 2 0].
Definition ex_hist_w : W :=
  match run_calls (prepare (w_zero ex_hist_st) cfg_zero [4; 5; 5; 7] ex_hist_runs 0 0) [1; 1; 1] with
  | Ok (w, _) => w | _ => w_zero [] end.
Example wrap_history_example :
  m_back (w_mp ex_hist_w) <> [] /\ wf_runs (w_st ex_hist_w) ex_hist_runs 3 = true
  /\ exists s1 rs, obs_calls (run_calls (prepare ex_hist_w cfg_zero [4; 4; 5; 7] ex_hist_runs 0 0) [2; 2; 2]) = Ok (s1, rs)
       /\ obs_calls (run_calls (prepare (w_zero (w_st ex_hist_w)) cfg_zero [4; 4; 5; 7] ex_hist_runs 0 0) [2; 2; 2]) = Ok (s1, rs)
       /\ map (fun x => wl_next (fst x)) rs = [2; 3; 3].
Proof. vm_compute. split; [discriminate|]. split; [reflexivity|]. eexists _, _. repeat split; reflexivity. Qed.

(* ---------------------------------------------------------------------------------------------------------------- *)
(* The two segmenters: their history independence is proved in the pipelines of C06 and C07; restated here so that
   every reusable object named by the property is under a theorem of this file. *)
From TV Require Model.Segmenter Proofs.SegIter Model.Itemize Proofs.Itemize.

(* segmenter.Segmenter: Init on a used object = Init on a fresh one (attributes and therefore all iterators) *)
Theorem unicode_segmenter_history_independent :
  forall (s : TV.Model.Segmenter.segmenter) paragraph,
    TV.Model.Segmenter.seg_init s paragraph = TV.Model.Segmenter.seg_init TV.Model.Segmenter.seg_zero paragraph.
Proof. exact TV.Proofs.SegIter.seg_init_fresh. Qed.
Print Assumptions unicode_segmenter_history_independent.

(* shaping.Segmenter: Split after any history of Split calls (stale buffers, delimiter stack) = Split on a fresh one *)
Theorem itemizer_history_independent :
  forall e (s : TV.Model.Itemize.segmenter) x,
    TV.Model.Itemize.split_runs e s x = TV.Model.Itemize.split_runs e TV.Model.Itemize.seg_zero x.
Proof. exact TV.Proofs.Itemize.state_independent_lemma. Qed.
Print Assumptions itemizer_history_independent.

(* non-vacuity of shaper_cache_sizes_irrelevant: histories with different cache operations and evictions in between *)
Example sizes_irrelevant_example :
  let a := [ShaperCache.SetFontCacheSize 1; ShaperCache.Shape 3; ShaperCache.Shape 4; ShaperCache.Shape 3] in
  let b := [ShaperCache.Shape 3; ShaperCache.SetFontCacheSize 0; ShaperCache.Shape 4; ShaperCache.SetFontCacheSize (-2); ShaperCache.Shape 3] in
  filter is_shape a = filter is_shape b /\
  ShaperCache.run Z (fun f => 10 * f) (ShaperCache.lru_init Z) b = [30; 40; 30].
Proof. split; reflexivity. Qed.
