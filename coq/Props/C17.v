(* C17 — A parsed font can be shared by concurrent goroutines (partial: ownership / effect model).
   Property theorems only.  What the model is and what it says about Go's memory model: Model/Ownership.v.
   What ties it to the Go source: effects_confined below, over facts regenerated from the source on every run
   (go/cmd/effects -> Gen/Effects.v), and the race-detector stress program go/cmd/racecheck. *)
From Coq Require Import String List ZArith Bool Arith.
From TV Require Import Model.Ownership Model.Effects Gen.Effects Spec.Effects Proofs.Ownership Proofs.Effects.
Import ListNotations.

(* Formulation 1 (confinement by construction: an operation is a function sh -> st -> st * out).
   For every shared heap, every assignment of programs and private states to threads (any number of threads:
   thread ids are natural numbers), every schedule (any list of thread ids, fair or not) and every thread t:
   what t has observed, its private state and its remaining program are exactly those of running the first
   k operations of its program alone, k being the number of turns the schedule gave it. *)
Theorem confined_interleaving_deterministic :
  forall (sh st out : Type) (s : sh) (progs : thread -> list (op sh st out)) (privs : thread -> st)
         (sched : list thread) (t : thread),
    let k := turns t sched in
    let c := run s sched (initial progs privs) in
    t_outs (c t) = exec s (firstn k (progs t)) (privs t)
    /\ t_priv (c t) = final s (firstn k (progs t)) (privs t)
    /\ t_todo (c t) = skipn k (progs t).
Proof. exact interleaving_deterministic. Qed.
Print Assumptions confined_interleaving_deterministic.

(* the same as a statement about two schedules: whatever the other goroutines do and however the scheduler interleaves
   them, a goroutine that got the same number of turns has produced the same results and private state *)
Theorem confined_schedule_independent :
  forall (sh st out : Type) (s : sh) (progs : thread -> list (op sh st out)) (privs : thread -> st)
         (sched sched' : list thread) (t : thread),
    turns t sched = turns t sched' ->
    t_outs (run s sched (initial progs privs) t) = t_outs (run s sched' (initial progs privs) t)
    /\ t_priv (run s sched (initial progs privs) t) = t_priv (run s sched' (initial progs privs) t).
Proof.
  intros sh st out s progs privs sched sched' t E.
  pose proof (confined_interleaving_deterministic sh st out s progs privs sched t) as H.
  pose proof (confined_interleaving_deterministic sh st out s progs privs sched' t) as H'.
  cbv zeta in H, H'. destruct H as (A & B & _). destruct H' as (A' & B' & _).
  rewrite A, A', B, B', E. split; reflexivity.
Qed.
Print Assumptions confined_schedule_independent.

(* ... in particular a thread that was given enough turns has observed exactly the results of its whole program run alone *)
Theorem confined_complete_schedule :
  forall (sh st out : Type) (s : sh) (progs : thread -> list (op sh st out)) (privs : thread -> st)
         (sched : list thread) (t : thread),
    length (progs t) <= turns t sched ->
    let c := run s sched (initial progs privs) in
    t_outs (c t) = exec s (progs t) (privs t) /\ t_priv (c t) = final s (progs t) (privs t) /\ t_todo (c t) = [].
Proof. exact complete_schedule. Qed.
Print Assumptions confined_complete_schedule.

(* the commutation lemma: steps of different threads commute, so operations may be taken as atomic *)
Theorem confined_steps_commute :
  forall (sh st out : Type) (s : sh) (t u : thread) (c : config sh st out), t <> u ->
    forall v, step s t (step s u c) v = step s u (step s t c) v.
Proof. exact steps_commute. Qed.
Print Assumptions confined_steps_commute.

(* Formulation 2 (one explicit heap loc -> val, ownership map, operations may touch anything; confinement
   is a hypothesis on footprints: writes op ⊆ owned t, and the result depends on shared + own locations only).
   Same conclusion; the heap is compared on what t can see. *)
Theorem footprint_interleaving_deterministic :
  forall (loc val out : Type) (loc_eq_dec : forall a b : loc, {a = b} + {a <> b}) (owner : loc -> option thread)
         (h : heap loc val) (progs : thread -> list (hop loc val out)) (sched : list thread) (t : thread),
    (forall u, Forall (confined loc val out owner u) (progs u)) ->
    let k := turns t sched in
    let c := hrun loc val out loc_eq_dec sched (hinitial loc val out h progs) in
    h_outs c t = hexec loc val out loc_eq_dec (firstn k (progs t)) h
    /\ h_todo c t = skipn k (progs t)
    /\ agree_on loc val (visible loc owner t) (h_heap c) (hfinal loc val out loc_eq_dec (firstn k (progs t)) h).
Proof. exact footprint_deterministic. Qed.
Print Assumptions footprint_interleaving_deterministic.

(* the shared heap (the parsed Font, the package-level tables) is never modified: needs only the half of
   confinement that the generated effect facts are about *)
Theorem shared_heap_unchanged :
  forall (loc val out : Type) (loc_eq_dec : forall a b : loc, {a = b} + {a <> b}) (owner : loc -> option thread)
         (sched : list thread) (c : hconfig loc val out),
    all_no_shared_write loc val out owner c ->
    forall l, shared loc owner l -> h_heap (hrun loc val out loc_eq_dec sched c) l = h_heap c l.
Proof. exact shared_unchanged. Qed.
Print Assumptions shared_heap_unchanged.

(* write confinement = no write to shared locations (effect facts) + no write to another thread's locations
   (the caller's discipline: one Face / Buffer / shaper / FontMap per goroutine) *)
Theorem write_confinement_split :
  forall (loc val out : Type) (owner : loc -> option thread) (t : thread) (o : hop loc val out),
    writes_confined loc val out owner t o
    <-> no_shared_write loc val out owner o /\ no_foreign_write loc val out owner t o.
Proof. exact writes_confined_split. Qed.
Print Assumptions write_confinement_split.

(* THE TIE: every write effect that go/cmd/effects finds in the current source, on a package-level variable or
   through a reference into a type reachable from font.Font outside constructors, satisfies a rule
   (init-only, Once-protected, sync primitive, read-only address, reviewed address, fresh object, private owner).
   Finite statement about generated data, decided by the kernel (vm_compute); it is re-established from the
   source on every run and breaks when a memo / scratch buffer is added to Font or to package-level state. *)
Theorem effects_confined : confined_effects = true.
Proof. exact effects_confined_lemma. Qed.
Print Assumptions effects_confined.

(* the extractor still sees the facts the contract is known to rest on (systemFonts under its Once, the
   init-filled tables, the constant tables; Font reaches CFF and hmtx but not Face / Buffer / FontMap) *)
Theorem effects_extraction_sane : extraction_sane = true.
Proof. exact extraction_sane_lemma. Qed.
Print Assumptions effects_extraction_sane.

(* ---- non-vacuity ---- *)

(* formulation 1 on a shared "font" with per-thread memo caches: thread 0's second query hits its own cache *)
Example by_construction_example :
  t_outs (run Ex.the_font [0; 1; 1; 0; 2; 0; 1] (initial Ex.progs Ex.privs) 0) = [(620, false); (620, true); (700, false)]
  /\ t_outs (run Ex.the_font [1; 0; 0; 1; 0] (initial Ex.progs Ex.privs) 1) = [(700, false); (500, false)].
Proof. split; reflexivity. Qed.

(* formulation 2: the hypothesis is satisfiable by operations that really read shared state and write their own *)
Example footprint_hypothesis_satisfiable : forall u, Forall (confined nat nat nat Ex.owner u) (Ex.good_progs u).
Proof. exact Ex.good_progs_confined. Qed.

Example footprint_example :
  h_outs (hrun nat nat nat Nat.eq_dec [1; 0; 0; 1; 0] (hinitial nat nat nat (fun _ => 3) Ex.good_progs)) 0 = [3; 3; 6].
Proof. reflexivity. Qed.

(* ... and it is needed: a memo written into the shared cell is not confined, and makes what another thread
   observes depend on the schedule *)
Example shared_memo_not_confined : ~ no_shared_write nat nat nat Ex.owner Ex.bad.
Proof. exact Ex.bad_writes_shared. Qed.

Example shared_memo_schedule_dependent :
  h_outs (hrun nat nat nat Nat.eq_dec [0; 1] (hinitial nat nat nat (fun _ => 0) Ex.bad_progs)) 0 = [0]
  /\ h_outs (hrun nat nat nat Nat.eq_dec [1; 0] (hinitial nat nat nat (fun _ => 0) Ex.bad_progs)) 0 = [1].
Proof. split; reflexivity. Qed.

(* the generated lists are not empty: the rules are exercised *)
Example effect_facts_present : (10 <=? length package_writes)%nat = true /\ (100 <=? length font_reachable)%nat = true.
Proof. split; vm_compute; reflexivity. Qed.
