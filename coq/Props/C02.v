(* C02 — Line wrapping conserves every rune and every glyph, in order.  Property theorems only.
   Proved here: the rune-range bookkeeping (all run lists, configurations, widths, break attributes, fuel) and the
   advance bookkeeping of cutRun.  NOT proved (kept out of this file): that the last piece of a line is non-empty and that
   the line invariant is re-established for the following call (both need an ordering invariant of the breaker), the
   glyph-exactness of cutRun (map3_correct / cut_run_exact) and panic freedom; those clauses of C02 are covered by the
   oracle check_conservation on the implementation's output only. *)
From TV Require Import Model.Wrap Spec.Wrap Proofs.Wrap.

(* best_is_prefix_cut (partial): from any state satisfying the line invariant, processBreakOption keeps the invariant
   (candidate prefix = chain of non-empty whole/cut runs from lineStartRune ending where the cursor run starts, same for
   the checkpoint, mapping sized for its run, best line a chain from lineStartRune) and every candidate it does not reject
   extends the prefix to a contiguous chain ending at most one past the break option *)
Theorem best_is_prefix_cut_partial : forall n w opt lc w' r cand,
  Inv n w -> process_break_option w opt lc = Ok (w', r, cand) ->
  Inv n w' /\ frame w w'
  /\ (r <> BreakInvalid -> exists e, chain (w_start w') (s_alt (w_sc w') ++ [cand]) e /\ e <= fst opt + 1).
Proof. exact pbo_ok. Qed.
Print Assumptions best_is_prefix_cut_partial.

(* the two nested loops of wrapNextLine keep the line invariant, for every fuel, state and line configuration *)
Theorem wrap_loops_keep_invariant : forall n fuel w lc w' d,
  Inv n w -> outer_loop fuel w lc = Ok (w', d) -> Inv n w' /\ ofr w w'.
Proof. exact outer_loop_ok. Qed.
Print Assumptions wrap_loops_keep_invariant.

(* lines_contiguous (partial): one WrapNextLine call from a state whose line start satisfies the invariant returns a line
   whose rune ranges are contiguous from lineStartRune (= NextLine of the previous call); NextLine is its end; when the
   truncator is appended it is the last run, covers [NextLine, n) and Truncated = n - NextLine; otherwise Truncated is 0
   (or n - NextLine on the k-th line) *)
Theorem lines_contiguous_partial : forall n w mw w' wl d,
  Inv n (start_line w) -> b_n (w_br w) = n -> w_more w = true ->
  wrap_next_line w mw = Ok (w', wl, d) ->
  line_result n (w_start w) w' wl.
Proof. exact wrap_next_line_chain. Qed.
Print Assumptions lines_contiguous_partial.

(* the invariant holds after Prepare for every contiguous run list covering [0,n): first line of every paragraph *)
Theorem first_line_contiguous : forall n w cfg attrs runs mw w' wl d,
  runs_ok runs n -> zlen attrs - 1 = n ->
  wrap_next_line (prepare w cfg attrs runs 0 0) mw = Ok (w', wl, d) ->
  line_result n 0 w' wl.
Proof. exact first_line_chain. Qed.
Print Assumptions first_line_contiguous.

(* advance_is_sum (partial): the Advance of a run returned by cutRun is the sum of its glyphs' advances in the store at
   the time of the cut, and its rune range is the requested range clamped to the run *)
Theorem advance_is_sum_partial : forall st run m s e t st' r,
  cut_run st run m s e t = Ok (st', r) ->
  o_off r = o_off run + Z.max (s - o_off run) 0
  /\ out_end r = o_off run + Z.min (e - o_off run) (zlen m - 1) + 1
  /\ o_src r = o_src run /\ o_dir r = o_dir run /\ o_vis r = o_vis run
  /\ o_adv r = sum_adv (out_glyphs st' r).
Proof. exact cut_run_fields. Qed.
Print Assumptions advance_is_sum_partial.

(* non-vacuity: a two-run paragraph satisfies runs_ok; its first line at width 2 is a chain from 0 *)
Example runs_ok_example : runs_ok [mkOut 128 0 0 2 0 0 2 0; mkOut 64 0 2 1 1 0 1 0] 3.
Proof. split; [reflexivity|repeat constructor]. Qed.
Example first_line_example :
  let st := [[mkGlyph 0 1 1 64 64 0 0 0; mkGlyph 1 1 1 64 64 0 0 0]; [mkGlyph 2 1 1 64 64 0 0 0]; []] in
  let runs := [mkOut 128 0 0 2 0 0 2 0; mkOut 64 0 2 1 1 0 1 0] in
  exists w' l d, wrap_next_line (prepare (w_zero st) cfg_zero [4; 4; 4; 7] runs 0 0) 2 = Ok (w', mkWrapped (Some l) 0 2, d)
                 /\ map o_cnt l = [2].
Proof. vm_compute. eexists _, _, _. split; reflexivity. Qed.
