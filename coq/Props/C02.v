(* C02 — Line wrapping conserves every rune and every glyph, in order.  Property theorems only.
   Proved here: the rune-range bookkeeping of one call and of ANY sequence of WrapNextLine calls after Prepare
   (lines_contiguous: contiguity from 0, non-empty lines and pieces, NextLine/Truncated accounting, the call reporting
   done accounts for all n runes), the rune -> glyph mapping (map3_correct) and the glyph-exactness and advance of cutRun
   at cluster boundaries, LTR and RTL (cut_run_exact), and the advance bookkeeping of cutRun.
   wrap_terminates: the fuel passed by the model's callers always suffices when every GlyphCount is >= 1.
   wrap_no_panic: on well-formed input (wf_runs) no call of WrapParagraph / Prepare+WrapNextLine panics.
   wrapped_pieces_exact(_paragraph): every run placed on a returned line is a contiguous piece of one input run holding
   exactly the glyphs of the clusters of its rune range (piece_ok), and the store keeps its structure (structure_kept):
   together with lines_contiguous this is "nothing lost, duplicated, reordered or split off its cluster".
   The composition goes through the store-structure invariant of Proofs/WrapStore.v.
   The empty paragraph (n = 0) is covered by empty_paragraph_calls / empty_paragraph_wrap.
   advance_is_sum_returned (FULL, Proofs/WrapAdvFull.v): "Advance = sum of the glyph advances" holds for every text run of the
   line a WrapNextLine call returns, on the store as it is when the call returns - any store, start letter spacing included
   (advance_is_sum_partial states it at the time of the cut; finding F6 - a run placed whole kept the stale Advance of an
   input edited through aliasing slices - is repaired in the library and the model follows; the former witness is a
   regression record in Findings/Wrap.v, f6_repaired).  advance_is_sum_all_lines / advance_is_sum_paragraph (FULL,
   Proofs/WrapAdvFrame.v): the same for EVERY line of a call sequence and of WrapParagraph on the FINAL store - a later call
   touches no glyph of a line returned earlier; for WrapParagraph the conclusion is the oracle's own advance clause,
   Spec/Wrap.v conservation_advance. *)
From TV Require Import Model.WrapBuf Spec.WrapBuf Proofs.WrapBuf.
From TV Require Import Model.Wrap Spec.Wrap Spec.WrapCut Proofs.Wrap Proofs.WrapCut Proofs.WrapLines Proofs.WrapTotal Proofs.WrapStore Proofs.WrapEmpty
  Proofs.WrapAdvRet Proofs.WrapAdvFull Proofs.WrapAdvFrame.

(* best_is_prefix_cut (partial): from any state satisfying the line invariant, processBreakOption keeps the invariant
   (candidate prefix = chain of non-empty whole/cut runs from lineStartRune ending where the cursor run starts, same for
   the checkpoint, mapping sized for its run, best line a chain from lineStartRune) and every candidate it does not reject
   extends the prefix to a contiguous chain ending at most one past the break option *)
Theorem best_is_prefix_cut_partial : forall n w opt lc w' r cand,
  Inv n w -> process_break_option w opt lc = Ok (w', r, cand) ->
  Inv n w' /\ frame w w'
  /\ (r <> BreakInvalid -> exists e, chain (w_start w') (s_alt (w_sc w') ++ [cand]) e /\ e <= fst opt + 1).
Proof. exact pbo_ok. Qed.
Print Assumptions best_is_prefix_cut_partial.

(* the two nested loops of wrapNextLine keep the line invariant, for every fuel, state and line configuration *)
Theorem wrap_loops_keep_invariant : forall n fuel w lc w' d,
  Inv n w -> outer_loop fuel w lc = Ok (w', d) -> Inv n w' /\ ofr w w'.
Proof. exact outer_loop_ok. Qed.
Print Assumptions wrap_loops_keep_invariant.

(* lines_contiguous (partial): one WrapNextLine call from a state whose line start satisfies the invariant returns a line
   whose rune ranges are contiguous from lineStartRune (= NextLine of the previous call); NextLine is its end; when the
   truncator is appended it is the last run, covers [NextLine, n) and Truncated = n - NextLine; otherwise Truncated is 0
   (or n - NextLine on the k-th line) *)
Theorem lines_contiguous_partial : forall n w mw w' wl d,
  Inv n (start_line w) -> b_n (w_br w) = n -> w_more w = true ->
  wrap_next_line w mw = Ok (w', wl, d) ->
  line_result n (w_start w) w' wl.
Proof. exact wrap_next_line_chain. Qed.
Print Assumptions lines_contiguous_partial.

(* the invariant holds after Prepare for every contiguous run list covering [0,n): first line of every paragraph *)
Theorem first_line_contiguous : forall n w cfg attrs runs mw w' wl d,
  runs_ok runs n -> zlen attrs - 1 = n ->
  wrap_next_line (prepare w cfg attrs runs 0 0) mw = Ok (w', wl, d) ->
  line_result n 0 w' wl.
Proof. exact first_line_chain. Qed.
Print Assumptions first_line_contiguous.

(* advance_is_sum (partial): the Advance of a run returned by cutRun is the sum of its glyphs' advances in the store at
   the time of the cut, and its rune range is the requested range clamped to the run *)
Theorem advance_is_sum_partial : forall st run m s e t st' r,
  cut_run st run m s e t = Ok (st', r) ->
  o_off r = o_off run + Z.max (s - o_off run) 0
  /\ out_end r = o_off run + Z.min (e - o_off run) (zlen m - 1) + 1
  /\ o_src r = o_src run /\ o_dir r = o_dir run /\ o_vis r = o_vis run
  /\ o_adv r = sum_adv (out_glyphs st' r).
Proof. exact cut_run_fields. Qed.
Print Assumptions advance_is_sum_partial.

(* non-vacuity: a two-run paragraph satisfies runs_ok; its first line at width 2 is a chain from 0 *)
Example runs_ok_example : runs_ok [mkOut 128 0 0 2 0 0 2 0; mkOut 64 0 2 1 1 0 1 0] 3.
Proof. split; [reflexivity|repeat constructor]. Qed.
Example first_line_example :
  let st := [[mkGlyph 0 1 1 64 64 0 0 0; mkGlyph 1 1 1 64 64 0 0 0]; [mkGlyph 2 1 1 64 64 0 0 0]; []] in
  let runs := [mkOut 128 0 0 2 0 0 2 0; mkOut 64 0 2 1 1 0 1 0] in
  exists w' l d, wrap_next_line (prepare (w_zero st) cfg_zero [4; 4; 4; 7] runs 0 0) 2 = Ok (w', mkWrapped (Some l) 0 2, d)
                 /\ map o_cnt l = [2].
Proof. vm_compute. eexists _, _, _. split; reflexivity. Qed.

(* ---- the rune -> glyph mapping and cutRun (LTR and RTL) -------------------------------------------------- *)

(* map3_correct: for a run whose glyphs are whole clusters, monotone in the run's progression, with consistent
   RuneCount/GlyphCount (wf_glyphs = the cluster clause of wf_run), mapRunesToClusterIndices3 overwrites every entry of the
   (possibly stale) buffer and returns exactly map3_spec: entry i = storage index of the first glyph of the cluster holding
   rune off+i.  No panic, fuel suffices.  All directions (dir_rtl dir decides the loop). *)
Theorem map3_correct : forall dir off gs init cnt,
  wf_glyphs dir gs off cnt = true -> zlen init = cnt ->
  map3 dir off gs init = Ok (map3_spec gs off cnt).
Proof. exact Proofs.WrapCut.map3_correct. Qed.
Print Assumptions map3_correct.

(* the specification is what the property text says: the mapped glyph exists, its cluster holds the rune, and no earlier
   glyph's cluster does *)
Theorem map3_maps_to_first_glyph_of_cluster : forall dir off gs cnt i,
  wf_glyphs dir gs off cnt = true -> 0 <= i < cnt ->
  let j := znth 0 (map3_spec gs off cnt) i in
  0 <= j < zlen gs /\ holds (off + i) (znth glyph_zero gs j) = true
  /\ (forall k, 0 <= k < j -> holds (off + i) (znth glyph_zero gs k) = false).
Proof. exact map3_spec_first. Qed.
Print Assumptions map3_maps_to_first_glyph_of_cluster.

(* cut_run_exact: cutting a well-formed whole run (at least one rune) at cluster boundaries [s', e'+1) (the requested range
   clamped to the run) returns the rune range [s', e'+1) and exactly the glyphs whose cluster starts in it, in storage
   order, as a non-empty contiguous slice of the run's array; the only store edit is trimStartLetterSpacing on the first
   glyph of the slice when trim is set; Advance = sum of the slice's advances afterwards.  LTR and RTL.
   (Without 1 <= o_cnt the statement is false: cutRun panics on an empty run, Proofs/WrapCut.v cut_run_total_needs_runes.) *)
Theorem cut_run_exact : forall st run s e trim,
  let gs := out_glyphs st run in
  let s' := Z.max s (o_off run) in
  let e' := Z.min e (o_off run + o_cnt run - 1) in
  o_lo run = 0 -> o_len run = zlen (src_array st (o_src run)) -> 0 <= o_src run < zlen st ->
  wf_glyphs (o_dir run) gs (o_off run) (o_cnt run) = true ->
  1 <= o_cnt run ->
  s <= e -> s < o_off run + o_cnt run -> o_off run <= e ->
  cluster_start gs (o_off run) (o_cnt run) s' = true ->
  cluster_start gs (o_off run) (o_cnt run) (e' + 1) = true ->
  exists st' r, cut_run st run (map3_spec gs (o_off run) (o_cnt run)) s e trim = Ok (st', r)
    /\ o_off r = s' /\ out_end r = e' + 1 /\ o_src r = o_src run /\ o_dir r = o_dir run /\ 0 < o_len r
    /\ out_glyphs st r = filter (in_range s' (e' + 1)) gs
    /\ st' = (if trim then store_update st (o_src run) (o_lo r) trim_glyph else st)
    /\ out_glyphs st' r = (if trim then trim_first (out_glyphs st r) else out_glyphs st r)
    /\ o_adv r = sum_adv (out_glyphs st' r).
Proof. exact Proofs.WrapCut.cut_run_exact. Qed.
Print Assumptions cut_run_exact.

(* the same cut satisfies the glyph clause of the oracle (Spec/Wrap.v piece_glyphs_ok: inside the slice every cluster lies
   within the rune range, outside every cluster is disjoint from it) *)
Theorem cut_run_exact_passes_oracle : forall st run s e trim,
  let gs := out_glyphs st run in
  let s' := Z.max s (o_off run) in
  let e' := Z.min e (o_off run + o_cnt run - 1) in
  o_lo run = 0 -> o_len run = zlen (src_array st (o_src run)) -> 0 <= o_src run < zlen st ->
  wf_glyphs (o_dir run) gs (o_off run) (o_cnt run) = true ->
  1 <= o_cnt run ->
  s <= e -> s < o_off run + o_cnt run -> o_off run <= e ->
  cluster_start gs (o_off run) (o_cnt run) s' = true ->
  cluster_start gs (o_off run) (o_cnt run) (e' + 1) = true ->
  exists st' r, cut_run st run (map3_spec gs (o_off run) (o_cnt run)) s e trim = Ok (st', r)
    /\ piece_glyphs_ok (src_array st (o_src run)) 0 (o_lo r) (o_lo r + o_len r) s' (e' + 1) = true.
Proof. exact cut_run_exact_oracle. Qed.
Print Assumptions cut_run_exact_passes_oracle.

(* cutRun never panics on a well-formed non-empty run with the correct mapping, whatever the (overlapping) rune range:
   no cluster-boundary hypothesis *)
Theorem cut_run_total : forall st run s e trim,
  let gs := out_glyphs st run in
  o_lo run = 0 -> o_len run = zlen (src_array st (o_src run)) ->
  wf_glyphs (o_dir run) gs (o_off run) (o_cnt run) = true ->
  1 <= o_cnt run ->
  s <= e -> s < o_off run + o_cnt run -> o_off run <= e ->
  exists st' r, cut_run st run (map3_spec gs (o_off run) (o_cnt run)) s e trim = Ok (st', r).
Proof. exact Proofs.WrapCut.cut_run_total. Qed.
Print Assumptions cut_run_total.

(* breakOption.isValid never panics on a well-formed run and, when it accepts an option, the position after the option is
   a cluster boundary of the run (so the cut made for an accepted option ends at a cluster boundary) *)
Theorem is_valid_sound : forall st run opt,
  let gs := out_glyphs st run in
  o_lo run = 0 -> o_len run = zlen (src_array st (o_src run)) ->
  wf_glyphs (o_dir run) gs (o_off run) (o_cnt run) = true ->
  exists v, is_valid st opt (map3_spec gs (o_off run) (o_cnt run)) run = Ok v
            /\ (v = true -> cluster_start gs (o_off run) (o_cnt run) (opt + 1) = true).
Proof. exact is_valid_spec. Qed.
Print Assumptions is_valid_sound.

(* ---- any number of WrapNextLine calls ---------------------------------------------------------------------- *)

(* one call from a state satisfying the between-calls invariant CI (Proofs/WrapLines.v: contiguous runs, cursor run starts
   at or before the line start, breaker register bounds, truncation counter consistent, last break options pending):
   the result satisfies line_result2 — NextLine in [start, n]; 0 <= Truncated in {0, n - NextLine}; a non-nil line is
   non-empty and is a contiguous chain of non-empty text runs from start to NextLine, followed exactly by the truncator
   with Runes = (NextLine, Truncated = n - NextLine) when appended — and either done, or CI holds again (the line invariant
   is re-established for the next call) and the breaker measure phi (unread options + unused flags) has decreased *)
Theorem wrap_call_reestablishes_invariant : forall n attrs w mw w' wl d,
  CI n attrs w -> w_more w = true ->
  wrap_next_line w mw = Ok (w', wl, d) ->
  line_result2 n (w_start w) (o_src (c_truncator (w_cfg w))) wl
  /\ wl_next wl = w_start w' /\ c_truncator (w_cfg w') = c_truncator (w_cfg w)
  /\ (d = false -> CI n attrs w' /\ w_more w' = true /\ phi n (w_br w') + 1 <= phi n (w_br w))
  /\ (d = true -> w_more w' = false /\ (Fin n attrs -> wl_next wl + wl_truncated wl = n)).
Proof. exact wrap_next_line_J. Qed.
Print Assumptions wrap_call_reestablishes_invariant.

(* lines_contiguous: Prepare on any contiguous run list covering [0,n), n >= 1, any configuration and break attributes,
   followed by ANY number of WrapNextLine calls with ANY widths (run_calls; calls after done included).  lines_ok says:
   reading the recorded results from rune 0, every call made while the wrapper is live satisfies line_result2 from the
   previous NextLine (so the concatenated text ranges of the lines are contiguous from 0, no non-nil line is empty and no
   piece has a zero rune count); the call that reports done satisfies NextLine + Truncated = n provided the text end
   carries the line and grapheme flags (Fin: a guarantee of the segmenter, C06); every later call returns the nil line.
   The empty paragraph (n = 0, no runs) is outside the statement: WrapNextLine then returns done at once. *)
Theorem lines_contiguous : forall n w cfg attrs runs widths w' rs,
  runs_ok runs n -> zlen attrs - 1 = n -> 1 <= n ->
  run_calls (prepare w cfg attrs runs 0 0) widths = Ok (w', rs) ->
  lines_ok n (o_src (c_truncator cfg)) (Fin n attrs) true 0 rs.
Proof. exact lines_contiguous_all. Qed.
Print Assumptions lines_contiguous.

(* wrap_terminates: Prepare on any contiguous run list covering [0,n), n >= 1, any configuration, break attributes and
   widths, over a store in which every glyph has GlyphCount >= 1 (gc_pos; with GlyphCount <= 0 the Go loop of
   mapRunesToClusterIndices3 does not terminate either): WrapParagraph, the iterative API (wrap_iterative) and any sequence
   of WrapNextLine calls never return OutOfFuel, i.e. the fuel the model passes — S(len glyphs) for the mapping, S(len runs)
   for fillUntil, len attrs + 2 for nextGraphemeBreak and each loop of wrapNextLine, 2 len attrs + 2 calls per paragraph —
   always suffices.  Measures: glyphs / runs left, unread flagged positions + unused flag of one iterator, and
   phi = both iterators + both flags, which decreases at every call that does not report done. *)
Theorem wrap_terminates : forall n w cfg attrs runs,
  runs_ok runs n -> zlen attrs - 1 = n -> 1 <= n -> gc_pos (w_st w) = true ->
  (forall mw, wrap_paragraph w cfg mw attrs runs <> OutOfFuel)
  /\ (forall widths, wrap_iterative w cfg widths attrs runs <> OutOfFuel)
  /\ (forall widths, run_calls (prepare w cfg attrs runs 0 0) widths <> OutOfFuel).
Proof. exact wrap_terminates_all. Qed.
Print Assumptions wrap_terminates.

(* non-vacuity: an LTR and an RTL run with a 2-rune cluster and a 2-glyph cluster; the mapping from a stale buffer *)
Example map3_example :
  let ltr := [mkGlyph 5 2 1 10 10 0 1 0; mkGlyph 7 1 2 20 20 0 2 0; mkGlyph 7 1 2 30 30 0 3 0; mkGlyph 8 1 1 40 40 0 4 0] in
  wf_glyphs 0 ltr 5 4 = true /\ map3 0 5 ltr [9; 9; 9; 9] = Ok [0; 0; 1; 3]
  /\ wf_glyphs 1 (rev ltr) 5 4 = true /\ map3 1 5 (rev ltr) [9; 9; 9; 9] = Ok [3; 3; 1; 0].
Proof. vm_compute. repeat split. Qed.
(* non-vacuity of cut_run_exact: hypotheses hold and the cut [7,8) of the LTR run is the two glyphs of cluster 7 *)
Example cut_run_exact_example :
  let ltr := [mkGlyph 5 2 1 10 10 0 1 0; mkGlyph 7 1 2 20 20 0 2 0; mkGlyph 7 1 2 30 30 0 3 0; mkGlyph 8 1 1 40 40 0 4 0] in
  let st := [ltr] in let run := mkOut 100 0 5 4 0 0 4 0 in
  wf_glyphs 0 (out_glyphs st run) 5 4 = true
  /\ cluster_start (out_glyphs st run) 5 4 7 = true /\ cluster_start (out_glyphs st run) 5 4 8 = true
  /\ exists st' r, cut_run st run (map3_spec (out_glyphs st run) 5 4) 7 7 true = Ok (st', r)
        /\ (o_off r, o_cnt r, o_lo r, o_len r, o_adv r) = (7, 1, 1, 2, 48).
Proof. vm_compute. repeat split. eexists _, _. split; reflexivity. Qed.
(* non-vacuity of lines_contiguous: three runes "a a b" in two runs, width 1 px: three calls give the lines [0,1) [1,2) [2,3),
   the third reports done; a fourth call returns the nil line; the hypotheses (runs_ok, Fin) hold *)
Example lines_contiguous_example :
  let st := [[mkGlyph 0 1 1 64 64 0 0 0; mkGlyph 1 1 1 64 64 0 0 0]; [mkGlyph 2 1 1 64 64 0 0 0]; []] in
  let runs := [mkOut 128 0 0 2 0 0 2 0; mkOut 64 0 2 1 1 0 1 0] in
  let attrs := [4; 5; 5; 7] in
  runs_ok runs 3 /\ Fin 3 attrs
  /\ exists w' rs, run_calls (prepare (w_zero st) cfg_zero attrs runs 0 0) [1; 1; 1; 1] = Ok (w', rs)
       /\ map (fun x => (wl_next (fst x), snd x)) rs = [(1, false); (2, false); (3, true); (3, true)].
Proof.
  split; [split; [reflexivity|repeat constructor]|]. split; [split; reflexivity|].
  vm_compute. eexists _, _. split; reflexivity.
Qed.
(* non-vacuity of wrap_terminates: the hypotheses hold for the same paragraph and WrapParagraph at width 1 returns 3 lines *)
Example wrap_terminates_example :
  let st := [[mkGlyph 0 1 1 64 64 0 0 0; mkGlyph 1 1 1 64 64 0 0 0]; [mkGlyph 2 1 1 64 64 0 0 0]; []] in
  let runs := [mkOut 128 0 0 2 0 0 2 0; mkOut 64 0 2 1 1 0 1 0] in
  gc_pos st = true /\ runs_ok runs 3
  /\ exists w' ls, wrap_paragraph (w_zero st) cfg_zero 1 [4; 5; 5; 7] runs = Ok (w', ls, 0) /\ length ls = 3%nat.
Proof. split; [reflexivity|]. split; [split; [reflexivity|repeat constructor]|]. vm_compute. eexists _, _. split; reflexivity. Qed.

(* ---- panic freedom and exact pieces (store-structure invariant, Proofs/WrapStore.v) ------------------------------ *)

(* wrap_no_panic: for every LineWrapper state w (fresh or reused) whose store holds well-formed input runs covering
   [0,n), n >= 1 (wf_runs: contiguous, each run owns one whole glyph array made of whole clusters, monotone in the run's
   progression, RuneCount/GlyphCount consistent), every configuration, break attribute list of length n+1 and widths:
   WrapParagraph, the iterative API and any sequence of WrapNextLine calls after Prepare never return Panic (nor Err).
   Invariant through both loops of wrapNextLine, fillUntil and postProcessLine: the store keeps its skeleton, the cached
   rune -> glyph mapping is map3_spec of the run it is valid for, the line start and every recorded line end are cluster
   boundaries of every run (is_valid_sound), every candidate is cut from a whole well-formed run (cut_run_total). *)
Theorem wrap_no_panic : forall n w cfg attrs runs,
  wf_runs (w_st w) runs n = true -> zlen attrs - 1 = n -> 1 <= n ->
  (forall mw, no_panic (wrap_paragraph w cfg mw attrs runs))
  /\ (forall widths, no_panic (wrap_iterative w cfg widths attrs runs))
  /\ (forall widths, no_panic (run_calls (prepare w cfg attrs runs 0 0) widths)).
Proof. exact wrap_no_panic_all. Qed.
Print Assumptions wrap_no_panic.

(* wrapped_pieces_exact: Prepare + any number of WrapNextLine calls with any widths on well-formed input: on the store
   as it is after the last call, every text run of every returned line (text_runs: every run but the appended truncator)
   satisfies piece_ok — it lies inside the rune range of input run o_src, has its direction, a non-empty rune range,
   a glyph slice inside that run's array, and judged glyph by glyph on the whole array: every glyph of the slice belongs
   to a cluster inside the rune range and every glyph outside the slice to a cluster disjoint from it (piece_glyphs_ok)
   — and the store has kept its structure (same arrays, lengths, cluster values, rune/glyph counts, extents, end letter
   spacing; only advances/offsets/start spacing of trimmed or zeroed glyphs change). *)
Theorem wrapped_pieces_exact : forall n w cfg attrs runs widths w' rs,
  wf_runs (w_st w) runs n = true -> zlen attrs - 1 = n -> 1 <= n ->
  run_calls (prepare w cfg attrs runs 0 0) widths = Ok (w', rs) ->
  structure_kept (w_st w) (w_st w') = true
  /\ forall wl d l, In (wl, d) rs -> wl_line wl = Some l ->
       forallb (piece_ok (w_st w') runs) (text_runs (o_src (c_truncator cfg)) l) = true.
Proof. exact wrapped_pieces_exact_calls. Qed.
Print Assumptions wrapped_pieces_exact.

(* the same for WrapParagraph, including the single-run fast path (which returns the input run as is) *)
Theorem wrapped_pieces_exact_paragraph : forall n w cfg attrs runs mw w' ls tr,
  wf_runs (w_st w) runs n = true -> zlen attrs - 1 = n -> 1 <= n ->
  wrap_paragraph w cfg mw attrs runs = Ok (w', ls, tr) ->
  structure_kept (w_st w) (w_st w') = true
  /\ forall l, In l ls -> forallb (piece_ok (w_st w') runs) (text_runs (o_src (c_truncator cfg)) l) = true.
Proof. exact Proofs.WrapStore.wrapped_pieces_exact_paragraph. Qed.
Print Assumptions wrapped_pieces_exact_paragraph.

(* the empty paragraph (n = 0: one attribute, no runs), any wrapper state, configuration and widths: the first
   WrapNextLine call reports done with NextLine = 0 and Truncated = 0; its line is nil, except under TruncateAfterLines = 1
   with TextContinues, where it is the truncator alone with Runes = (0, 0); every later call returns the nil line *)
Theorem empty_paragraph_calls : forall w cfg attrs runs mw widths,
  runs_ok runs 0 -> zlen attrs - 1 = 0 ->
  exists w', run_calls (prepare w cfg attrs runs 0 0) (mw :: widths)
             = Ok (w', (empty_result cfg, true) :: map (fun _ => (mkWrapped None 0 0, true)) widths).
Proof. exact empty_calls. Qed.
Print Assumptions empty_paragraph_calls.

(* WrapParagraph on the empty paragraph returns no line (or the truncator line), Truncated = 0, without using its fuel *)
Theorem empty_paragraph_wrap : forall w cfg attrs runs mw,
  runs_ok runs 0 -> zlen attrs - 1 = 0 ->
  exists w', wrap_paragraph w cfg mw attrs runs
             = Ok (w', match wl_line (empty_result cfg) with Some l => [l] | None => [] end, 0).
Proof. exact empty_wrap. Qed.
Print Assumptions empty_paragraph_wrap.

(* non-vacuity of wrap_no_panic / wrapped_pieces_exact: the two-run paragraph "a a b" (second example store also has a
   2-glyph cluster) is well-formed; three calls at width 1 return three exact pieces, the second line being a cut piece *)
Example wrap_no_panic_example :
  let st := [[mkGlyph 0 1 1 64 64 0 0 0; mkGlyph 1 1 1 64 64 0 0 0]; [mkGlyph 2 1 2 32 32 0 0 0; mkGlyph 2 1 2 32 32 0 0 0]; []] in
  let runs := [mkOut 128 0 0 2 0 0 2 0; mkOut 64 0 2 1 1 0 2 0] in
  let attrs := [4; 5; 5; 7] in
  wf_runs st runs 3 = true
  /\ exists w' rs, run_calls (prepare (w_zero st) cfg_zero attrs runs 0 0) [1; 1; 1; 1] = Ok (w', rs)
       /\ map (fun x => match wl_line (fst x) with Some l => map (fun o => (o_src o, o_off o, o_cnt o, o_lo o, o_len o)) l | None => [] end) rs
          = [[(0, 0, 1, 0, 1)]; [(0, 1, 1, 1, 1)]; [(1, 2, 1, 0, 2)]; []]
       /\ forallb (fun x => match wl_line (fst x) with Some l => forallb (piece_ok (w_st w') runs) (text_runs 2 l) | None => true end) rs = true.
Proof. split; [reflexivity|]. vm_compute. eexists _, _. repeat split; reflexivity. Qed.
(* non-vacuity of the empty paragraph theorems *)
Example empty_paragraph_example :
  runs_ok [] 0 /\ zlen [7] - 1 = 0
  /\ exists w', run_calls (prepare (w_zero [[]]) cfg_zero [7] [] 0 0) [10; 10] = Ok (w', [(mkWrapped None 0 0, true); (mkWrapped None 0 0, true)]).
Proof. split; [split; [reflexivity|constructor]|]. split; [reflexivity|]. vm_compute. eexists. reflexivity. Qed.

(* ---- the line storage of the wrapper (Model/WrapBuf.v, Proofs/WrapBuf.v) ------------------------------------------ *)

(* line_storage_no_panic: the bookkeeping of wrapBuffer (shared array of capacity newcap, lineUsed, heap fallback of
   markCandidateBest, finalizeBest) never panics: for EVERY buffer state, capacity after reset, number of lines and
   sequence of candidateAppend / markCandidateBest(any suffixes) / candidateSave / candidateRestore operations per line
   (each line bracketed by startLine ... finalizeBest, as WrapNextLine does), the paragraph runs to the end and returns one
   result per line. *)
Theorem line_storage_no_panic : forall b newcap lines,
  exists b' rs, run_para b newcap lines = Ok (b', rs) /\ length rs = length lines.
Proof. exact para_no_panic. Qed.
Print Assumptions line_storage_no_panic.

(* returned_lines_not_overwritten: same quantification; at the end of the paragraph every line that was handed out as a
   view of the shared array still reads exactly the content it had when finalizeBest returned it (no later line was written
   over it), the views lie one after the other from offset 0 up to lineUsed, lineUsed <= cap, and the capacity is unchanged
   within the paragraph. *)
Theorem returned_lines_not_overwritten : forall b newcap lines b' rs,
  run_para b newcap lines = Ok (b', rs) ->
  views_intact (bf_line b') rs = true /\ views_ordered 0 rs (bf_used b') = true /\ used_ok b' = true
  /\ length (bf_line b') = newcap.
Proof. exact para_views_intact. Qed.
Print Assumptions returned_lines_not_overwritten.

(* non-vacuity: capacity 4, three lines of two pieces: the first two are views at offsets 0 and 2, the third does not fit
   any more and lives on the heap (lineExhausted), lineUsed stays 4 *)
Example line_storage_example :
  let line (a b : Z) := [OSave; OMark [a]; OSave; OAppend a; OMark [b]] in
  exists b' rs, run_para (mkBuf [] 0 false [] [] BNone false) 4 [line 1 2; line 3 4; line 5 6]%Z = Ok (b', rs)
    /\ map lr_view rs = [Some (0, 2); Some (2, 2); None]%nat /\ map lr_line rs = [Some [1; 2]; Some [3; 4]; Some [5; 6]]%Z
    /\ bf_used b' = 4%nat /\ bf_exh b' = true.
Proof. vm_compute. eexists _, _. repeat split; reflexivity. Qed.

(* ---- Advance = sum of the glyph advances at RETURN time (Proofs/WrapAdvRet.v, Proofs/WrapAdvFull.v) ------------------- *)

(* advance_is_sum_returned (FULL: the advance clause of the property at return time, one WrapNextLine call).  Prepare on
   well-formed runs, ANY sequence of WrapNextLine calls with any widths reaching a live state wk, one more call that
   returns a line: every text run of that line (every run but the appended truncator, whose glyph array lies after the
   runs' arrays) has Advance = sum of its glyphs' advances ON THE STORE AS RETURNED by the call (Spec/Wrap.v advance_ok,
   what the oracle conservation_advance evaluates).  ANY store: start letter spacing, any advances, any policy, width,
   truncation setting, trim flag.  The argument (Proofs/WrapAdvFull.v, invariant GA through fillUntil,
   processBreakOption and both loops of wrapNextLine, then postProcessLine):
   * a run placed whole is recomputed by fillUntil (repair of F6), a piece is recomputed by cutRun after its own trim;
   * the loops edit the store only by trimStartLetterSpacing on Glyphs[0] of a piece cut as FIRST in its line; when that
     happens the candidate prefix and the checkpoint are empty, and the best line is empty or a single piece whose
     Glyphs[0] is trimmed already; the new piece starts at the same rune and ends at or after it (candidates never get
     shorter than the best line), so its Glyphs[0] IS the best piece's Glyphs[0] (the trim is the identity there) or lies
     outside its slice (trim_of_longer_candidate_keeps_piece below): the best line keeps Advance = sum;
   * postProcessLine zeroes at most one glyph, inside the slice of the last visual run, and recomputes that run; the
     glyph lies in no other run of the line (exact pieces over disjoint rune ranges, every cluster holds a rune).
   That a LATER call leaves the glyphs of the lines returned EARLIER alone (the lines of WrapParagraph are all read after
   the last call) is advance_is_sum_all_lines / advance_is_sum_paragraph below. *)
Theorem advance_is_sum_returned : forall n w cfg attrs runs widths wk rs mw w' wl d line,
  wf_runs (w_st w) runs n = true -> zlen attrs - 1 = n -> 1 <= n ->
  run_calls (prepare w cfg attrs runs 0 0) widths = Ok (wk, rs) -> w_more wk = true ->
  zlen runs <= o_src (c_truncator (w_cfg wk)) ->
  wrap_next_line wk mw = Ok (w', wl, d) -> wl_line wl = Some line ->
  forallb (advance_ok (w_st w')) (text_runs (o_src (c_truncator (w_cfg wk))) line) = true.
Proof. exact advance_returned_calls_full. Qed.
Print Assumptions advance_is_sum_returned.

(* non-vacuity with start letter spacing: one right-to-left run "a b c" stored c b a, start letter spacing 16 on every
   glyph, policy Always, maxWidth 1: the first call tries the whole text [0,3) (the UAX #14 option), then [0,1) and
   [0,2), trimming Glyphs[0] of each candidate - glyphs 0, 2 and 1 - and returns [0,1) = glyph 2 alone, Advance 48 = its
   trimmed advance; the other two trimmed glyphs belong to the next lines *)
Example advance_returned_full_example :
  let st := [[mkGlyph 2 1 1 64 64 0 16 0; mkGlyph 1 1 1 64 64 0 16 0; mkGlyph 0 1 1 64 64 0 16 0]; []] in
  let runs := [mkOut 192 1 0 3 0 0 3 0] in
  let wk := prepare (w_zero st) (mkCfg 1 0 (mkOut 0 0 0 0 1 0 0 0) false 2 true) [4; 4; 4; 7] runs 0 0 in
  wf_runs st runs 3 = true /\ zlen runs <= 1
  /\ exists w' l, wrap_next_line wk 1 = Ok (w', mkWrapped (Some l) 0 1, false) /\ map o_adv l = [48] /\ map o_lo l = [2]
       /\ map g_adv (src_array (w_st w') 0) = [48; 48; 48].
Proof.
  cbv zeta. split; [vm_compute; reflexivity|]. split; [vm_compute; discriminate|].
  vm_compute. eexists _, _. repeat split; reflexivity.
Qed.

(* the special case proved first (Proofs/WrapAdvRet.v): stores without start letter spacing (no_start_spacing: g_sls = 0 for
   every glyph), where the loops do not touch the store at all; a corollary of advance_is_sum_returned, kept *)
Theorem advance_is_sum_returned_partial : forall n w cfg attrs runs widths wk rs mw w' wl d line,
  wf_runs (w_st w) runs n = true -> zlen attrs - 1 = n -> 1 <= n ->
  run_calls (prepare w cfg attrs runs 0 0) widths = Ok (wk, rs) -> w_more wk = true ->
  zlen runs <= o_src (c_truncator (w_cfg wk)) ->
  no_start_spacing (w_st wk) = true ->
  wrap_next_line wk mw = Ok (w', wl, d) -> wl_line wl = Some line ->
  forallb (advance_ok (w_st w')) (text_runs (o_src (c_truncator (w_cfg wk))) line) = true.
Proof. exact advance_returned_calls. Qed.
Print Assumptions advance_is_sum_returned_partial.

(* non-vacuity: "a SP" + "b": at maxWidth 2 the first line is [0,2) = the whole first run; its trailing space (Width 0) is
   zeroed in the store by postProcessLine and the run's Advance follows: 64, not the 128 the input run carried *)
Example advance_returned_example :
  let st := [[mkGlyph 0 1 1 64 64 0 0 0; mkGlyph 1 1 1 64 0 0 0 0]; [mkGlyph 2 1 1 64 64 0 0 0]; []] in
  let runs := [mkOut 128 0 0 2 0 0 2 0; mkOut 64 0 2 1 1 0 1 0] in
  let wk := prepare (w_zero st) (mkCfg 0 0 (mkOut 0 0 0 0 2 0 0 0) false 0 false) [4; 4; 5; 7] runs 0 0 in
  wf_runs st runs 3 = true /\ no_start_spacing st = true /\ zlen runs <= 2
  /\ exists w' l, wrap_next_line wk 2 = Ok (w', mkWrapped (Some l) 0 2, false) /\ map o_adv l = [64]
       /\ map g_adv (src_array (w_st w') 0) = [64; 0].
Proof.
  cbv zeta. split; [vm_compute; reflexivity|]. split; [vm_compute; reflexivity|]. split; [vm_compute; discriminate|].
  vm_compute. eexists _, _. repeat split; reflexivity.
Qed.

(* the core of the argument for stores WITH start letter spacing, used by advance_is_sum_returned:
   trimStartLetterSpacing applied to Glyphs[0] of an exact piece r (a candidate that is first in its line) leaves the
   glyphs - hence the Advance = sum equation - of an exact piece x with the same first rune and an end at or before the end
   of r (the best line recorded earlier: candidates never get shorter) untouched, provided Glyphs[0] of x has been
   trimmed already (x was cut as first in line): Glyphs[0] of r IS Glyphs[0] of x, where the trim is the identity, or
   lies outside the slice of x.  Left-to-right and right-to-left runs alike; any store, any two exact pieces. *)
Theorem trim_of_longer_candidate_keeps_piece : forall st rs n x r,
  wf_runs st rs n = true -> piece_ok st rs x = true -> piece_ok st rs r = true ->
  o_off r = o_off x -> (o_src x = o_src r -> out_end x <= out_end r) -> 0 < o_len r ->
  (0 < o_len x -> g_sls (znth glyph_zero (src_array st (o_src x)) (o_lo x)) = 0) ->
  out_glyphs (store_update st (o_src r) (o_lo r) trim_glyph) x = out_glyphs st x.
Proof. exact trim_longer_piece_safe. Qed.
Print Assumptions trim_of_longer_candidate_keeps_piece.

(* non-vacuity: a right-to-left run of three one-rune clusters (stored c b a), start letter spacing 16 on every glyph but
   the one of rune 0, which is trimmed: x = runes [0,1) (glyph 2), r = runes [0,2) (glyphs 1..2); trimming Glyphs[0] of r
   (glyph 1) changes the store and leaves the glyphs of x alone *)
Example trim_keeps_piece_example :
  let st := [[mkGlyph 2 1 1 64 64 0 16 0; mkGlyph 1 1 1 64 64 0 16 0; mkGlyph 0 1 1 48 64 0 0 0]] in
  let rs := [mkOut 176 1 0 3 0 0 3 0] in
  let x := mkOut 48 1 0 1 0 2 1 0 in let r := mkOut 112 1 0 2 0 1 2 0 in
  wf_runs st rs 3 = true /\ piece_ok st rs x = true /\ piece_ok st rs r = true /\ out_end x <= out_end r
  /\ g_sls (znth glyph_zero (src_array st (o_src x)) (o_lo x)) = 0
  /\ store_update st (o_src r) (o_lo r) trim_glyph <> st.
Proof. cbv zeta. repeat split; try (vm_compute; reflexivity); vm_compute; discriminate. Qed.

(* ---- every line, on the FINAL store (Proofs/WrapAdvFrame.v) --------------------------------------------------------------- *)

(* advance_is_sum_all_lines (FULL: the advance clause of the property for the iterative API).  Prepare on well-formed runs
   (the truncator's glyph array after the runs' arrays), ANY sequence of WrapNextLine calls with any widths, calls after done
   included: for EVERY result of the sequence, every text run of its line has Advance = sum of its glyphs' advances on
   the store as it is AFTER THE LAST CALL.  On top of advance_is_sum_returned: every store edit of a call at line start s
   is made inside the glyph slice of an exact piece that starts at or after s (the start-letter-spacing trim of a
   first-in-line piece, the trailing-whitespace trim in the last visual run of the new line), the runs of earlier lines
   are exact pieces that end at or before s, so their glyphs are untouched (frame property followed through fillUntil,
   processBreakOption, both loops and postProcessLine for an arbitrary store predicate closed under such trims). *)
Theorem advance_is_sum_all_lines : forall n w cfg attrs runs widths w' res,
  wf_runs (w_st w) runs n = true -> zlen attrs - 1 = n -> 1 <= n ->
  zlen runs <= o_src (c_truncator cfg) ->
  run_calls (prepare w cfg attrs runs 0 0) widths = Ok (w', res) ->
  Forall (line_adv_ok (w_st w') (o_src (c_truncator cfg))) res.
Proof. exact advance_all_lines_calls. Qed.
Print Assumptions advance_is_sum_all_lines.

(* non-vacuity: the paragraph of advance_paragraph_example below through the iterative API with widths 2, 1, 2 and two
   more calls after done: five results, three lines, two nil lines *)
Example advance_all_lines_example :
  let st := [[mkGlyph 0 1 1 80 64 0 16 0; mkGlyph 1 1 1 80 0 0 16 0; mkGlyph 2 1 1 80 64 0 16 0]; [mkGlyph 3 1 1 80 64 0 16 0]; []] in
  let runs := [mkOut 240 0 0 3 0 0 3 0; mkOut 80 0 3 1 1 0 1 0] in
  let cfg := mkCfg 0 0 (mkOut 0 0 0 0 2 0 0 0) false 2 false in
  wf_runs st runs 4 = true /\ zlen runs <= o_src (c_truncator cfg)
  /\ exists w' res, run_calls (prepare (w_zero st) cfg [4; 4; 5; 4; 7] runs 0 0) [2; 1; 2; 2; 2] = Ok (w', res)
       /\ map (fun x => (wl_next (fst x), snd x)) res = [(2, false); (3, false); (4, true); (4, true); (4, true)].
Proof.
  cbv zeta. split; [vm_compute; reflexivity|]. split; [vm_compute; discriminate|].
  vm_compute. eexists _, _. split; reflexivity.
Qed.

(* advance_is_sum_paragraph (FULL: the advance clause of the property for WrapParagraph): on well-formed input the lines
   WrapParagraph returns satisfy the oracle's own advance clause on the returned store - Spec/Wrap.v conservation_advance:
   Advance = sum of the glyph advances for every text run of every line (single-run fast path included). *)
Theorem advance_is_sum_paragraph : forall n w cfg attrs runs mw w' ls tr,
  wf_runs (w_st w) runs n = true -> zlen attrs - 1 = n -> 1 <= n ->
  zlen runs <= o_src (c_truncator cfg) ->
  wrap_paragraph w cfg mw attrs runs = Ok (w', ls, tr) ->
  conservation_advance (w_st w') (o_src (c_truncator cfg)) ls = true.
Proof. exact advance_all_lines_paragraph. Qed.
Print Assumptions advance_is_sum_paragraph.

(* non-vacuity: "a SP b" (the space has zero Width, every glyph start letter spacing 16) + "c" at maxWidth 2 under policy
   Always: three lines come back; the stores edits of the three calls (trims at line starts, zeroed trailing space) are
   all visible in the final store and every line still has Advance = sum *)
Example advance_paragraph_example :
  let st := [[mkGlyph 0 1 1 80 64 0 16 0; mkGlyph 1 1 1 80 0 0 16 0; mkGlyph 2 1 1 80 64 0 16 0]; [mkGlyph 3 1 1 80 64 0 16 0]; []] in
  let runs := [mkOut 240 0 0 3 0 0 3 0; mkOut 80 0 3 1 1 0 1 0] in
  let cfg := mkCfg 0 0 (mkOut 0 0 0 0 2 0 0 0) false 2 false in
  wf_runs st runs 4 = true /\ zlen runs <= o_src (c_truncator cfg)
  /\ exists w' ls, wrap_paragraph (w_zero st) cfg 2 [4; 4; 5; 4; 7] runs = Ok (w', ls, 0) /\ zlen ls = 3
       /\ w_st w' <> st /\ conservation_advance (w_st w') 2 ls = true.
Proof.
  cbv zeta. split; [vm_compute; reflexivity|]. split; [vm_compute; discriminate|].
  vm_compute. eexists _, _. split; [reflexivity|]. split; [reflexivity|]. split; [discriminate|reflexivity].
Qed.
