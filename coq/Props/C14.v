(* C14 — Font resolution is total, cache-transparent and follows the documented priority.  Property theorems only.
   In all statements the external functions are universally quantified: hash (maphash of the query families under
   the seed of the current Clear epoch; ARBITRARY, collisions allowed), norm (NormalizeFamily), is_generic,
   subst (family substitution crible), script_lang (ScriptToLang), empty_fam. *)
From TV Require Import Model.FontMap Spec.Resolve Proofs.FontMap Proofs.FontMapOrder Proofs.FontMapTotal Proofs.FontMapCache.
From Coq Require Import Permutation.

(* Cache transparency and priority order.  For every sequence of AddFace/AddFont, SetQuery, SetScript,
   SetRuneCacheSize (any size) and ResolveFace operations on a new FontMap that runs without panic, the faces
   answered by the ResolveFace calls are exactly those of the specification: for each call the first footprint in
   withoutFallback ++ withFallback ++ manual ++ scriptMap[script]  (computed from the fonts added so far, the
   current query and the current script only) whose coverage contains the rune, else the first face added. *)
Theorem resolve_refines_spec :
  forall (hash : Z -> list Z -> Z) (norm : Z -> Z) (is_generic : Z -> bool)
         (subst : list Z -> Z -> list (Z * (Z * bool))) (script_lang : Z -> Z) (empty_fam : Z)
         (ops : list op) (fm : fontmap) (answers : list (option Z)),
    run hash norm is_generic subst script_lang empty_fam new_fontmap ops = Ok (fm, answers) ->
    spec_run norm is_generic subst script_lang empty_fam a_init ops = Ok answers.
Proof. exact resolve_refines_spec_lemma. Qed.
Print Assumptions resolve_refines_spec.

(* Totality.  With cache sizes >= 0, Style in {unset, normal, italic} and non-negative weight/stretch in the
   descriptions given to AddFace, and query styles in {unset, normal, italic}: no operation sequence panics, and
   ResolveFace answers a non-nil face whenever at least one font has been added. *)
Theorem resolve_total :
  forall (hash : Z -> list Z -> Z) (norm : Z -> Z) (is_generic : Z -> bool)
         (subst : list Z -> Z -> list (Z * (Z * bool))) (script_lang : Z -> Z) (empty_fam : Z) (ops : list op),
    Forall valid_op ops ->
    exists fm answers,
      run hash norm is_generic subst script_lang empty_fam new_fontmap ops = Ok (fm, answers) /\
      nonnil_ok ops false answers.
Proof. exact resolve_total_lemma. Qed.
Print Assumptions resolve_total.

(* The rune cache: Put leaves at most maxSize entries in the map; a ResolveFace call never leaves more entries
   than max(maxSize, entries before the call) (the size is only enforced by Put, i.e. on a miss). *)
Theorem lru_size_bounded :
  (forall l k q v l', lru_put l k q v = Ok l' -> zlen (l_map l') <= l_max l) /\
  (forall hash norm is_generic subst script_lang fm r fm' x,
     resolve_face hash norm is_generic subst script_lang fm r = Ok (fm', x) ->
     zlen (l_map (fm_lru fm')) <= Z.max (l_max (fm_lru fm)) (zlen (l_map (fm_lru fm)))).
Proof. split; [exact lru_put_bound|exact resolve_face_bound]. Qed.
Print Assumptions lru_size_bounded.

(* scoredFootprints.Less is a strict weak order (irreflexive, transitive, transitive incomparability) *)
Theorem less_strict_weak_order : forall script,
  (forall a, sf_less script a a = false) /\
  (forall a b c, sf_less script a b = true -> sf_less script b c = true -> sf_less script a c = true) /\
  (forall a b c, incomparable script a b -> incomparable script b c -> incomparable script a c).
Proof. exact less_swo. Qed.
Print Assumptions less_strict_weak_order.

(* hence sorting by Less with a stable sort has exactly one possible result, the one the model computes: the
   model's sort is a permutation, sorted, stable, and any sorted stable arrangement equals it *)
Theorem stable_sort_unique_result : forall script (l : list scored),
  let lt := sf_less script in
  Permutation (stable_sort lt l) l /\ sorted lt (stable_sort lt l) /\
  (forall x, filter (equivb lt x) (stable_sort lt l) = filter (equivb lt x) l) /\
  (forall l', sorted lt l' -> (forall x, filter (equivb lt x) l' = filter (equivb lt x) l) -> l' = stable_sort lt l).
Proof.
  intros script l lt. destruct (less_swo script) as (I & T & N).
  assert (N' : forall a b c, lt a b = false -> lt b a = false -> lt b c = false -> lt c b = false ->
                             lt a c = false /\ lt c a = false).
  { intros a b c H1 H2 H3 H4. exact (N a b c (conj H1 H2) (conj H3 H4)). }
  split; [apply sort_perm|]. split; [apply sort_sorted; assumption|]. split; [intros x; apply sort_stable; assumption|].
  intros l'. apply stable_sort_unique; assumption.
Qed.
Print Assumptions stable_sort_unique_result.

(* Cache transparency, stated without the specification.  Two operation sequences on new FontMaps that differ only
   in their SetRuneCacheSize calls (how many, where, which sizes: not_cache_op filters them out) and in the hash
   function of the cache keys (another seed, i.e. another Clear epoch; any collisions) answer every ResolveFace
   call identically, whenever both run without panic. *)
Theorem answers_independent_of_cache :
  forall (hash hash' : Z -> list Z -> Z) (norm : Z -> Z) (is_generic : Z -> bool)
         (subst : list Z -> Z -> list (Z * (Z * bool))) (script_lang : Z -> Z) (empty_fam : Z)
         (ops ops' : list op) (fm fm' : fontmap) (ans ans' : list (option Z)),
    filter not_cache_op ops = filter not_cache_op ops' ->
    run hash norm is_generic subst script_lang empty_fam new_fontmap ops = Ok (fm, ans) ->
    run hash' norm is_generic subst script_lang empty_fam new_fontmap ops' = Ok (fm', ans') ->
    ans = ans'.
Proof. exact answers_independent_of_cache_lemma. Qed.
Print Assumptions answers_independent_of_cache.

(* No lookup history: the answer of a ResolveFace call is the same after two histories that agree on their
   configuring operations (AddFace/AddFont, SetQuery, SetScript: config_op), whatever ResolveFace and
   SetRuneCacheSize calls were interleaved before it in either history and whatever the hash functions. *)
Theorem last_answer_history_free :
  forall (hash hash' : Z -> list Z -> Z) (norm : Z -> Z) (is_generic : Z -> bool)
         (subst : list Z -> Z -> list (Z * (Z * bool))) (script_lang : Z -> Z) (empty_fam : Z)
         (pre pre' : list op) (r : Z) (fm fm' : fontmap) (ans ans' : list (option Z)),
    filter config_op pre = filter config_op pre' ->
    run hash norm is_generic subst script_lang empty_fam new_fontmap (pre ++ [OpResolve r]) = Ok (fm, ans) ->
    run hash' norm is_generic subst script_lang empty_fam new_fontmap (pre' ++ [OpResolve r]) = Ok (fm', ans') ->
    exists x, last ans None = x /\ last ans' None = x /\ ans <> [] /\ ans' <> [].
Proof. exact last_answer_history_free_lemma. Qed.
Print Assumptions last_answer_history_free.

(* ---- non-vacuity ---- *)
Definition ex_face (face loc fam : Z) (runes scripts : list Z) : added :=
  mkAdded face loc fam (mkAspect 0 0 0) runes scripts false true.
Definition ex_ops : list op :=
  [OpCacheSize 1; OpAdd [ex_face 0 0 5 [97] [10]]; OpAdd [ex_face 1 1 6 [97; 98] [10; 20]];
   OpSetQuery (mkQuery [6] (mkAspect 2 700 8)); OpResolve 97; OpResolve 98; OpSetScript 20; OpResolve 97;
   OpSetQuery (mkQuery [7] (mkAspect 0 0 0)); OpResolve 98; OpResolve 99; OpResolve 98].

(* an operation sequence that runs, under a constant hash (every key collides), with non-trivial answers *)
Example run_example :
  exists fm, run (fun _ _ => 0) (fun z => z) (fun _ => false) (fun _ _ => []) (fun _ => 0) 0 new_fontmap ex_ops
             = Ok (fm, [Some 1; Some 1; Some 1; Some 1; Some 0; Some 1]).
Proof. eexists. vm_compute. reflexivity. Qed.

Example valid_example : Forall valid_op ex_ops.
Proof.
  assert (V : forall f l fam r s, valid_added (ex_face f l fam r s))
    by (intros; unfold valid_added, valid_style, ex_face; cbn; repeat split; auto; lia).
  unfold ex_ops.
  repeat match goal with
  | |- Forall _ [] => constructor
  | |- Forall _ (_ :: _) => constructor
  | |- valid_op (OpAdd _) => intros x [<-|[]]; apply V
  | |- valid_op (OpSetQuery _) => unfold valid_op, valid_style; cbn; auto
  | |- valid_op (OpCacheSize _) => cbn; lia
  | |- valid_op _ => exact I
  end.
Qed.

(* Less distinguishes and orders: a strong family match sorts before a script-only match *)
Example less_example :
  let fp := mkFp 0 1 [] [10] (mkAspect 1 400 8) true false true in
  sf_less 10 (mkScored 0 3 true fp) (mkScored 1 max_int false fp) = true /\
  stable_sort (sf_less 10) [mkScored 1 max_int false fp; mkScored 0 3 true fp] = [mkScored 0 3 true fp; mkScored 1 max_int false fp].
Proof. split; reflexivity. Qed.

(* the two independence theorems have satisfiable premises with different cache operations, different hashes and
   different lookup histories: ex_ops against the same configuration with no cache (size 0 set late), a hash that
   never collides on these keys, and a single lookup *)
Definition ex_ops' : list op :=
  [OpAdd [ex_face 0 0 5 [97] [10]]; OpAdd [ex_face 1 1 6 [97; 98] [10; 20]];
   OpSetQuery (mkQuery [6] (mkAspect 2 700 8)); OpResolve 97; OpCacheSize 0; OpResolve 98; OpSetScript 20; OpResolve 97;
   OpSetQuery (mkQuery [7] (mkAspect 0 0 0)); OpCacheSize 3; OpResolve 98; OpResolve 99; OpResolve 98].
Example independence_example :
  filter not_cache_op ex_ops = filter not_cache_op ex_ops' /\
  (exists fm, run (fun s l => s + fold_left (fun a x => 31 * a + x) l 7) (fun z => z) (fun _ => false) (fun _ _ => [])
                  (fun _ => 0) 0 new_fontmap ex_ops' = Ok (fm, [Some 1; Some 1; Some 1; Some 1; Some 0; Some 1])) /\
  filter config_op (removelast ex_ops) = filter config_op (removelast (removelast (removelast ex_ops'))) /\
  ex_ops = removelast ex_ops ++ [OpResolve 98].
Proof. split; [reflexivity|]. split; [eexists; vm_compute; reflexivity|]. split; reflexivity. Qed.
