(* C15 — Style matching follows the CSS font matching algorithm.  Property theorems only.
   Numbers: a stretch or weight v is the integer 8*v (Model/Match.v); the theorems hold for ALL positive
   integers, not only for the values of the property's grid. *)
From TV Require Import Model.Match Spec.Css Proofs.Match Proofs.CssTrial.

(* Main theorem.  For every database fs, every non-empty candidate list (any length, repeats allowed) whose
   members are indices of fs with positive stretch and weight and a style in {Normal, Italic}, and every
   request q (zero fields = unset, style 0/Normal/Italic): retainsBestMatches does not panic, returns a
   non-empty subsequence of the candidates, which is exactly the CSS 5.2 narrowing computed stepwise
   (stretch, then style on the survivors, then weight on the survivors), i.e. the candidates having the
   three chosen values; all members share that stretch, style and weight. *)
Theorem retains_best_matches_css : forall fs cands q,
  cands_ok fs cands = true -> valid_query q = true ->
  exists r, retains_best_matches_list fs cands q = Ok r
    /\ r <> []
    /\ subseq r cands
    /\ r = css_narrow (asp_of fs) cands q
    /\ exists s t w,
         css_choices (asp_of fs) cands q = (Some s, Some t, Some w)
         /\ r = filter (fun i => (a_stretch (asp_of fs i) =? s) && (a_style (asp_of fs i) =? t)
                                 && (a_weight (asp_of fs i) =? w)) cands
         /\ Forall (fun i => a_stretch (asp_of fs i) = s /\ a_style (asp_of fs i) = t /\ a_weight (asp_of fs i) = w) r.
Proof. exact retains_list_lemma. Qed.
Print Assumptions retains_best_matches_css.

(* The same on a Go slice with spare capacity, with the memory effect of the in-place filters: the result
   is a prefix of the same backing array, whose length is unchanged and which is untouched beyond the
   original length of the slice. *)
Theorem retains_best_matches_in_place : forall fs s q,
  (sl_len s <= length (sl_arr s))%nat ->
  cands_ok fs (sl_elems s) = true -> valid_query q = true ->
  exists s', retains_best_matches fs s q = Ok s'
    /\ sl_elems s' = css_narrow (asp_of fs) (sl_elems s) q
    /\ sl_elems s' <> []
    /\ (sl_len s' <= sl_len s)%nat
    /\ length (sl_arr s') = length (sl_arr s)
    /\ skipn (sl_len s) (sl_arr s') = skipn (sl_len s) (sl_arr s).
Proof. exact retains_slice_lemma. Qed.
Print Assumptions retains_best_matches_in_place.

(* matchStretch / matchWeight return the CSS choice over the set of candidate values, for ANY request
   value (also negative or unset) and any candidate list, the empty one included (result 0). *)
Theorem match_stretch_is_css : forall fs cands q,
  Forall (fun i => in_range fs i = true) cands ->
  Forall (fun i => 0 < a_stretch (asp_of fs i)) cands ->
  match_stretch fs cands q
  = Ok (match css_stretch (map (fun i => a_stretch (asp_of fs i)) cands) q with Some v => v | None => 0 end).
Proof. exact match_stretch_css. Qed.
Print Assumptions match_stretch_is_css.

Theorem match_weight_is_css : forall fs cands q,
  Forall (fun i => in_range fs i = true) cands ->
  Forall (fun i => 0 < a_weight (asp_of fs i)) cands ->
  match_weight fs cands q
  = Ok (match css_weight (map (fun i => a_weight (asp_of fs i)) cands) q with Some v => v | None => 0 end).
Proof. exact match_weight_css. Qed.
Print Assumptions match_weight_is_css.

(* matchStyle returns the CSS choice, which is the style of some candidate *)
Theorem match_style_is_css : forall fs cands q,
  cands <> [] ->
  Forall (fun i => in_range fs i = true) cands ->
  Forall (fun i => valid_style (a_style (asp_of fs i)) = true) cands ->
  valid_style q = true ->
  exists t, match_style fs cands q = Ok t
    /\ css_style (map (fun i => a_style (asp_of fs i)) cands) q = Some t
    /\ In t (map (fun i => a_style (asp_of fs i)) cands).
Proof. exact match_style_css. Qed.
Print Assumptions match_style_is_css.

(* Precondition under which neither the crible[...] index nor panic("should not happen") is reachable:
   candidates inside the database, candidate styles in 0..2 (unset allowed), request Normal or Italic.
   Findings/Match.v shows that each hypothesis is needed. *)
Theorem match_style_total : forall fs cands q,
  Forall (fun i => in_range fs i = true) cands ->
  Forall (fun i => 0 <= a_style (asp_of fs i) <= 2) cands ->
  q = StyleNormal \/ q = StyleItalic ->
  exists t, match_style fs cands q = Ok t /\ (t = StyleNormal \/ t = StyleItalic).
Proof. exact match_style_total_lemma. Qed.
Print Assumptions match_style_total.

(* the in-place filter loop (writes candidates[n] while ranging over candidates) is List.filter, and only
   rearranges the first len elements of the backing array *)
Theorem filter_in_place_is_filter : forall fs keep s,
  (sl_len s <= length (sl_arr s))%nat ->
  Forall (fun i => in_range fs i = true) (sl_elems s) ->
  exists s', filter_in_place fs keep s = Ok s'
    /\ sl_elems s' = filter (fun j => keep (asp_of fs j)) (sl_elems s)
    /\ (sl_len s' <= sl_len s)%nat
    /\ length (sl_arr s') = length (sl_arr s)
    /\ skipn (sl_len s) (sl_arr s') = skipn (sl_len s) (sl_arr s).
Proof. exact filter_in_place_spec. Qed.
Print Assumptions filter_in_place_is_filter.

(* the specification itself is well defined: on a non-empty set the CSS choice exists and is available *)
Theorem css_choice_available : forall S q, S <> [] ->
  (exists v, css_stretch S q = Some v /\ In v S) /\ (exists v, css_weight S q = Some v /\ In v S).
Proof. exact css_choice_lemma. Qed.
Print Assumptions css_choice_available.

(* cross-check of Spec/Css.v against a second formulation of the CSS text (an order of trial given by a
   lexicographic rank): the chosen value is available and no available value comes earlier in the order *)
Theorem css_stretch_first_in_trial_order : forall S q v,
  css_stretch S q = Some v ->
  In v S /\ forall x, In x S -> lex_le (stretch_rank q v) (stretch_rank q x).
Proof. exact css_stretch_first. Qed.
Print Assumptions css_stretch_first_in_trial_order.

Theorem css_weight_first_in_trial_order : forall W q v,
  css_weight W q = Some v ->
  In v W /\ forall x, In x W -> lex_le (weight_rank q v) (weight_rank q x).
Proof. exact css_weight_first. Qed.
Print Assumptions css_weight_first_in_trial_order.

(* non-vacuity: a database of five faces, candidates given out of order with a repeat; request
   "weight 450, stretch 1.0, style unset": 400..500 regime, 500 is preferred to 400 and to 600 *)
Definition ex_fs : fontset :=
  [mkAspect 1 3200 8; mkAspect 2 4000 8; mkAspect 1 4000 8; mkAspect 1 4800 8; mkAspect 1 4000 10].
Example ex_hyps : cands_ok ex_fs [3; 2; 0; 4; 2; 1] = true /\ valid_query (mkAspect 0 3600 8) = true.
Proof. split; reflexivity. Qed.
Example ex_result : retains_best_matches_list ex_fs [3; 2; 0; 4; 2; 1] (mkAspect 0 3600 8) = Ok [2; 2].
Proof. reflexivity. Qed.
Example ex_style_total :
  Forall (fun i => in_range ex_fs i = true) [0; 1] /\ Forall (fun i => 0 <= a_style (asp_of ex_fs i) <= 2) [0; 1].
Proof. split; apply Forall_forall; intros i [<-|[<-|[]]]; vm_compute; intuition discriminate. Qed.
Definition ex_sl : islice := mkSlice [3; 2; 0; 7; 7] 3.
Example ex_slice : (sl_len ex_sl <= length (sl_arr ex_sl))%nat /\ cands_ok ex_fs (sl_elems ex_sl) = true.
Proof. split; [cbn; lia | reflexivity]. Qed.
Example ex_trial : css_weight [3200; 4000; 4800] 3600 = Some 4000 /\ css_stretch [6; 10] 8 = Some 6.
Proof. split; reflexivity. Qed.
