(* C10 — Decoded glyph metrics and outlines match independent decoders (thin partial).
   The independent decoder is Model/Outline.v, fed with raw table bytes and tied to the Go code by the correspondence
   check of every run.  The theorems below are what makes it a specification: they hold for ALL inputs.  Property
   theorems only. *)
From TV Require Import Model.Outline Spec.Outline Proofs.Outline Proofs.OutlineBox.
Open Scope Z_scope.

(* buildSegments, any number of contours, any coordinates: each contour is decoded independently of the previous ones, and
   its path is closed (MoveTo s, then only LineTo/QuadTo, the last one ending on s) and visits — up to the choice of the
   starting point — exactly the contour's points, each once and in order, with the implied on-curve midpoint inserted between
   every two (cyclically) consecutive off-curve points.  Covers contours that start off-curve and all-off-curve contours. *)
Theorem segments_closed : forall cs : list (list cpt),
  Forall (fun c => good_contour c = true) cs ->
  build_segments (concat (map mark cs)) = concat (map (fun c => build_segments (mark c)) cs)
  /\ Forall (fun c => contour_spec c (build_segments (mark c))) cs.
Proof. exact segments_closed_lemma. Qed.
Print Assumptions segments_closed.

(* the boolean checker the oracle runs on the implementation's segments is exactly that specification ... *)
Theorem contour_checker_exact : forall c out, contour_specb c out = true <-> contour_spec c out.
Proof. exact contour_specb_iff. Qed.
Print Assumptions contour_checker_exact.

(* ... and it accepts the decoder's output on every point list whose contours are ones the rule applies to *)
Theorem outline_checker_accepts_decoder : forall pts,
  good_points pts = true -> outline_specb pts (build_segments pts) = true.
Proof. exact outline_spec_lemma. Qed.
Print Assumptions outline_checker_accepts_decoder.

(* the point-based extents (extentsFromPoints) enclose every point, and every side of the box is attained *)
Theorem extents_enclose_points : forall pts p, In p pts -> in_box (extents_from_points pts) (cp_x p) (cp_y p).
Proof. exact extents_enclose_lemma. Qed.
Print Assumptions extents_enclose_points.

Theorem extents_tight : forall pts, pts <> [] ->
  let '(xb, yb, w, h) := extents_from_points pts in
  (exists p, In p pts /\ cp_x p = xb) /\ (exists p, In p pts /\ cp_x p = xb + w)
  /\ (exists p, In p pts /\ cp_y p = yb) /\ (exists p, In p pts /\ cp_y p = yb + h).
Proof. exact extents_tight_lemma. Qed.
Print Assumptions extents_tight.

(* ... hence the box of the points encloses the whole decoded outline: every MoveTo/LineTo/QuadTo argument, implied
   midpoints included (coordinates of the trace are in half units) *)
Theorem extents_enclose_outline : forall cs : list (list cpt),
  Forall (fun c => good_contour c = true) cs ->
  forall q, In q (trace (build_segments (concat (map mark cs)))) ->
  in_box2 (extents_from_points (concat (map mark cs))) (fst q).
Proof. exact extents_enclose_outline_lemma. Qed.
Print Assumptions extents_enclose_outline.

(* the header-based extents of a non-variable face (getGlyphExtents) are the point-based extents of the outline the
   library returns (points shifted by lsb - xMin), whenever the glyf header states the exact box of the glyph's points *)
Theorem header_extents_are_point_extents : forall h lsb pts,
  header_exact h lsb pts = true ->
  extents_from_header h lsb = extents_from_points (map (translate_x (- sint16 (h_xmin h - lsb))) pts).
Proof. exact header_extents_lemma. Qed.
Print Assumptions header_extents_are_point_extents.

(* hmtx: with well-formed tables every glyph id below numGlyphs has an advance and a side bearing: glyphs below
   numberOfHMetrics read their own long record, all others the advance of the LAST long record and their own short entry *)
Theorem advance_rule_total : forall hhea hmtx n_long num_glyphs upem gid,
  hhea_num_long hhea = Ok n_long -> wf_hmtx hmtx n_long num_glyphs -> 0 <= gid < num_glyphs ->
  exists t, load_hmtx hhea hmtx num_glyphs = Ok t
            /\ horizontal_advance upem t gid = Ok (advance_spec hmtx n_long gid)
            /\ side_bearing t gid = lsb_spec hmtx n_long gid.
Proof. exact advance_rule_lemma. Qed.
Print Assumptions advance_rule_total.

(* simple glyph: the repeat-flag expansion yields exactly numPoints = last end point + 1 points, or an error *)
Theorem flags_decode_length : forall src end_pts pts,
  nonneg src -> nonneg end_pts -> end_pts <> [] ->
  parse_points src end_pts = Ok pts -> zlen pts = last_z end_pts + 1.
Proof. exact flags_decode_length_lemma. Qed.
Print Assumptions flags_decode_length.

(* decoding one glyf record never indexes out of range: the coordinate byte counts computed in the flag loop are exactly
   what the coordinate reader consumes *)
Theorem glyph_decode_total : forall src, nonneg src -> total (parse_glyph src).
Proof. exact parse_glyph_total_lemma. Qed.
Print Assumptions glyph_decode_total.

(* ---- non-vacuity ---- *)
(* a contour starting with two off-curve points, and a second all-off-curve contour *)
Example contours_example :
  let cs := [[((0, 0), false); ((10, 0), false); ((10, 10), true)]; [((1, 1), false); ((3, 1), false); ((2, 5), false)]] in
  Forall (fun c => good_contour c = true) cs
  /\ build_segments (concat (map mark cs)) =
     [MoveTo (10, 0); QuadTo (20, 0) (20, 20); QuadTo (0, 0) (10, 0);
      MoveTo (4, 2); QuadTo (6, 2) (5, 6); QuadTo (4, 10) (3, 6); QuadTo (2, 2) (4, 2)].
Proof. cbv zeta. split; [repeat constructor|reflexivity]. Qed.

Example checker_example :
  good_points [mkCP 0 0 false false; mkCP 10 0 false false; mkCP 10 10 true true] = true
  /\ outline_specb [mkCP 0 0 false false; mkCP 10 0 false false; mkCP 10 10 true true]
       [MoveTo (10, 0); QuadTo (20, 0) (20, 20); QuadTo (0, 0) (10, 0)] = true
  /\ outline_specb [mkCP 0 0 false false; mkCP 10 0 false false; mkCP 10 10 true true]
       [MoveTo (10, 0); QuadTo (20, 0) (20, 20)] = false.
Proof. repeat split; reflexivity. Qed.

Example header_example :
  header_exact (mkHdr 1 5 (-3) 40 20) 7 [mkCP 5 20 true false; mkCP 40 (-3) true true] = true.
Proof. reflexivity. Qed.

(* 3 glyphs, 2 long metrics: glyph 2 takes the advance of record 1 and the first short side bearing *)
Example hmtx_example :
  let hmtx := [1; 244; 0; 10; 2; 88; 0; 20; 255; 251] in
  wf_hmtx hmtx 2 3 /\ advance_spec hmtx 2 2 = 600 /\ lsb_spec hmtx 2 2 = -5.
Proof. cbv zeta. split; [|split; reflexivity]. unfold wf_hmtx. cbn. lia. Qed.

(* flags: on-curve, short positive x, 16-bit y, repeated twice more; then one flag with 16-bit x and y: 4 points from 3 flag bytes *)
Example flags_example :
  parse_points [27; 2; 1; 5; 6; 7; 0; 1; 0; 2; 0; 3; 0; 4; 0; 9] [3]
  = Ok [(27, 5, 2); (27, 11, 5); (27, 18, 9); (1, 19, 18)].
Proof. reflexivity. Qed.
