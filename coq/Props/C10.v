(* C10 — Decoded glyph metrics and outlines match independent decoders (thin partial).
   The independent decoder is Model/Outline.v, fed with raw table bytes and tied to the Go code by the correspondence
   check of every run.  The theorems below are what makes it a specification: they hold for ALL inputs.  Property
   theorems only. *)
From TV Require Import Model.VarNorm Model.VarStore Model.GvarDeltas Proofs.VarNorm Proofs.VarStore Proofs.GvarDeltas.
From TV Require Import Model.Outline Spec.Outline Proofs.Outline Proofs.OutlineBox.
From TV Require Import Model.Composite Spec.Composite Proofs.Composite.
From TV Require Import Model.Charstring Proofs.Charstring Proofs.CharstringBounds.
From TV Require Import Model.GvarScalar Proofs.GvarScalar.
From TV Require Import Model.VMetrics Spec.VMetrics Proofs.VMetrics.
Open Scope Z_scope.

(* buildSegments, any number of contours, any coordinates: each contour is decoded independently of the previous ones, and
   its path is closed (MoveTo s, then only LineTo/QuadTo, the last one ending on s) and visits — up to the choice of the
   starting point — exactly the contour's points, each once and in order, with the implied on-curve midpoint inserted between
   every two (cyclically) consecutive off-curve points.  Covers contours that start off-curve and all-off-curve contours. *)
Theorem segments_closed : forall cs : list (list cpt),
  Forall (fun c => good_contour c = true) cs ->
  build_segments (concat (map mark cs)) = concat (map (fun c => build_segments (mark c)) cs)
  /\ Forall (fun c => contour_spec c (build_segments (mark c))) cs.
Proof. exact segments_closed_lemma. Qed.
Print Assumptions segments_closed.

(* the boolean checker the oracle runs on the implementation's segments is exactly that specification ... *)
Theorem contour_checker_exact : forall c out, contour_specb c out = true <-> contour_spec c out.
Proof. exact contour_specb_iff. Qed.
Print Assumptions contour_checker_exact.

(* ... and it accepts the decoder's output on every point list whose contours are ones the rule applies to *)
Theorem outline_checker_accepts_decoder : forall pts,
  good_points pts = true -> outline_specb pts (build_segments pts) = true.
Proof. exact outline_spec_lemma. Qed.
Print Assumptions outline_checker_accepts_decoder.

(* the point-based extents (extentsFromPoints) enclose every point, and every side of the box is attained *)
Theorem extents_enclose_points : forall pts p, In p pts -> in_box (extents_from_points pts) (cp_x p) (cp_y p).
Proof. exact extents_enclose_lemma. Qed.
Print Assumptions extents_enclose_points.

Theorem extents_tight : forall pts, pts <> [] ->
  let '(xb, yb, w, h) := extents_from_points pts in
  (exists p, In p pts /\ cp_x p = xb) /\ (exists p, In p pts /\ cp_x p = xb + w)
  /\ (exists p, In p pts /\ cp_y p = yb) /\ (exists p, In p pts /\ cp_y p = yb + h).
Proof. exact extents_tight_lemma. Qed.
Print Assumptions extents_tight.

(* ... hence the box of the points encloses the whole decoded outline: every MoveTo/LineTo/QuadTo argument, implied
   midpoints included (coordinates of the trace are in half units) *)
Theorem extents_enclose_outline : forall cs : list (list cpt),
  Forall (fun c => good_contour c = true) cs ->
  forall q, In q (trace (build_segments (concat (map mark cs)))) ->
  in_box2 (extents_from_points (concat (map mark cs))) (fst q).
Proof. exact extents_enclose_outline_lemma. Qed.
Print Assumptions extents_enclose_outline.

(* the header-based extents of a non-variable face (getGlyphExtents) are the point-based extents of the outline the
   library returns (points shifted by lsb - xMin), whenever the glyf header states the exact box of the glyph's points *)
Theorem header_extents_are_point_extents : forall h lsb pts,
  header_exact h lsb pts = true ->
  extents_from_header h lsb = extents_from_points (map (translate_x (- sint16 (h_xmin h - lsb))) pts).
Proof. exact header_extents_lemma. Qed.
Print Assumptions header_extents_are_point_extents.

(* hmtx: with well-formed tables every glyph id below numGlyphs has an advance and a side bearing: glyphs below
   numberOfHMetrics read their own long record, all others the advance of the LAST long record and their own short entry *)
Theorem advance_rule_total : forall hhea hmtx n_long num_glyphs upem gid,
  hhea_num_long hhea = Ok n_long -> wf_hmtx hmtx n_long num_glyphs -> 0 <= gid < num_glyphs ->
  exists t, load_hmtx hhea hmtx num_glyphs = Ok t
            /\ horizontal_advance upem t gid = Ok (advance_spec hmtx n_long gid)
            /\ side_bearing t gid = lsb_spec hmtx n_long gid.
Proof. exact advance_rule_lemma. Qed.
Print Assumptions advance_rule_total.

(* simple glyph: the repeat-flag expansion yields exactly numPoints = last end point + 1 points, or an error *)
Theorem flags_decode_length : forall src end_pts pts,
  nonneg src -> nonneg end_pts -> end_pts <> [] ->
  parse_points src end_pts = Ok pts -> zlen pts = last_z end_pts + 1.
Proof. exact flags_decode_length_lemma. Qed.
Print Assumptions flags_decode_length.

(* decoding one glyf record never indexes out of range: the coordinate byte counts computed in the flag loop are exactly
   what the coordinate reader consumes *)
Theorem glyph_decode_total : forall src, nonneg src -> total (parse_glyph src).
Proof. exact parse_glyph_total_lemma. Qed.
Print Assumptions glyph_decode_total.

(* ---------------------------------------------------------------------------------------------------------------- *)
(* composite glyphs (Model/Composite.v: exact binary32 arithmetic on the raw glyf records)                              *)

(* the component record parser terminates on every byte string (its fuel, the number of bytes, is never exhausted) and
   never indexes out of range *)
Theorem composite_parse_total : forall src, total (parse_composite src).
Proof. exact parse_composite_total_lemma. Qed.
Print Assumptions composite_parse_total.

(* getPointsForGlyph on ANY set of glyf records (cyclic and self-referencing composites included): no panic, and the
   23 levels of fuel of the model are never exhausted - the nesting limit of 20 stops every recursion (glyf_all_points itself takes no fuel) *)
Theorem glyf_points_total : forall e gid, recs_nonneg e -> total (glyf_all_points e gid).
Proof. exact glyf_all_points_total_lemma. Qed.
Print Assumptions glyf_points_total.

(* the points of a composite glyph are assembled from its components' own decodings one level down, in component
   order: skipped when the component yields fewer than 4 points (out of range / too deep), otherwise the image of the
   component's points (phantoms removed) under its placement map; then the phantom points; at depth 0 everything is
   shifted by minus the left phantom point *)
Theorem composite_is_placed_components : forall e gid depth ec k raw h parts all ec',
  lookup_rec (e_recs e) gid = Some raw -> gid < e_nglyf e -> depth <= 20 -> ec <= 1024 ->
  parse_glyph_full raw = Ok (h, BComposite parts) ->
  points_for_glyph (S k) e gid depth ec = Ok (all, ec') ->
  exists all' ph',
    assembled (fun g c => points_for_glyph k e g (depth + 1) c) parts [] (phantoms_of e h gid) (ec + 1) all' ph' ec'
    /\ all = top_shift depth (all' ++ ph').
Proof. exact composite_points_lemma. Qed.
Print Assumptions composite_is_placed_components.

(* ... so the collected points are exactly the concatenation of the placed component point lists, each component being a
   component record of the glyph, decoded by the recursive call (at some value of the visit counter) *)
Theorem assembled_is_concatenation : forall rc parts all ph ec all' ph' ec',
  assembled rc parts all ph ec all' ph' ec' ->
  exists contribs : list (cpart * list cpoint * (cpoint -> cpoint)),
    all' = all ++ concat (map (fun t => map (snd t) (drop_last4 (snd (fst t)))) contribs)
    /\ Forall (fun t => In (fst (fst t)) parts /\ (exists c c', rc (p_gid (fst (fst t))) c = Ok (snd (fst t), c')) /\ 4 <= zlen (snd (fst t))) contribs.
Proof. exact assembled_concat. Qed.
Print Assumptions assembled_is_concatenation.

(* the budget (maxCompositeEdges): the visit counter shared by the whole recursion only grows and, started at most at 1025,
   never exceeds 1025 - one glyph resolves at most 1025 glyph records whatever the component graph is; a call made when
   more than 1024 glyphs have been visited contributes nothing *)
Theorem composite_budget : forall e fuel gid depth ec pts ec',
  points_for_glyph fuel e gid depth ec = Ok (pts, ec') -> ec <= ec' /\ (ec <= 1025 -> ec' <= 1025).
Proof. exact points_for_glyph_edges. Qed.
Print Assumptions composite_budget.

Theorem over_budget_contributes_nothing : forall fuel e gid depth ec,
  1024 < ec -> points_for_glyph (S fuel) e gid depth ec = Ok ([], ec).
Proof. exact over_budget_lemma. Qed.
Print Assumptions over_budget_contributes_nothing.

(* placement maps move points but keep the on-curve and end-of-contour marks: the contour structure of a component is
   the contour structure of its image *)
Theorem placement_keeps_marks : forall p all comp T, placement p all comp T -> keeps_marks T.
Proof. exact placement_marks. Qed.
Print Assumptions placement_keeps_marks.

(* a simple glyph contributes its decoded integer points *)
Theorem simple_glyph_points : forall e gid depth ec k raw h end_pts pts all ec',
  lookup_rec (e_recs e) gid = Some raw -> gid < e_nglyf e -> depth <= 20 -> ec <= 1024 ->
  parse_glyph_full raw = Ok (h, BSimple end_pts pts) ->
  points_for_glyph (S k) e gid depth ec = Ok (all, ec') ->
  all = top_shift depth (map fp_of_int_point (contour_points_from 0 end_pts pts) ++ phantoms_of e h gid) /\ ec' = ec + 1.
Proof. exact simple_points_lemma. Qed.
Print Assumptions simple_glyph_points.

(* outline level, float32 midpoints: after complete contours, the segments of further good contours do not depend on
   what came before - the outline of a composite is the concatenation of the outlines of its placed components *)
Theorem composite_outline_concat : forall a (cs : list (list cpt)),
  complete a -> Forall (fun c => good_contour c = true) cs ->
  build_segments_f (a ++ concat (map mark cs)) = build_segments_f a ++ build_segments_f (concat (map mark cs)).
Proof. exact build_segments_f_concat_lemma. Qed.
Print Assumptions composite_outline_concat.

(* float32 extents: the corners enclose every point and are attained; width and height are the ROUNDED differences
   (so XBearing + Width may differ from the largest x by one rounding) *)
Theorem extents_f_enclose_attained : forall pts, pts <> [] ->
  exists minx miny maxx maxy,
    extents_from_points_f pts = (minx, maxy, f32_sub maxx minx, f32_sub miny maxy)
    /\ (forall p, In p pts -> minx <= cp_x p <= maxx /\ miny <= cp_y p <= maxy)
    /\ (exists p, In p pts /\ cp_x p = minx) /\ (exists p, In p pts /\ cp_x p = maxx)
    /\ (exists p, In p pts /\ cp_y p = miny) /\ (exists p, In p pts /\ cp_y p = maxy).
Proof. exact extents_f_lemma. Qed.
Print Assumptions extents_f_enclose_attained.

(* ---------------------------------------------------------------------------------------------------------------- *)
(* CFF: the Type 2 charstring interpreter (Model/Charstring.v)                                                          *)

(* for ALL byte strings and subroutine lists: the interpreter never indexes outside the argument stack, the call stack or
   the instruction stream (the result is Ok, an error, or - with too little fuel - OutOfFuel; never a panic) *)
Theorem charstring_no_panic : forall fuel cs lsubrs gsubrs, no_panic (load_glyph fuel cs lsubrs gsubrs).
Proof. exact load_glyph_no_panic_lemma. Qed.
Print Assumptions charstring_no_panic.

(* in every state the run goes through, the argument stack holds at most 513 values and at most 10 subroutine calls are
   pending *)
Theorem charstring_stack_bounds : forall lsubrs gsubrs cs m r,
  reaches lsubrs gsubrs (mkM cs [] []) rd_init m r ->
  Z.of_nat (length (m_args m)) <= 513 /\ Z.of_nat (length (m_calls m)) <= 10.
Proof. exact stack_bounds_lemma. Qed.
Print Assumptions charstring_stack_bounds.

(* the returned path: cut at its MoveTo segments, every contour except the last ends on the point it started from (the
   segments before the first MoveTo start at the origin, as the code's firstPoint does) ... *)
Theorem charstring_path_wellformed : forall fuel cs lsubrs gsubrs segs b,
  load_glyph fuel cs lsubrs gsubrs = Ok (segs, b) -> exists f c, wf_rev (rev segs) = Some (f, c).
Proof. exact load_glyph_path_lemma. Qed.
Print Assumptions charstring_path_wellformed.

(* ... and endchar closes the last one too *)
Theorem endchar_closes_path : forall r, path_inv r -> all_closed (r_segs (close_path r)).
Proof. exact close_path_closed. Qed.
Print Assumptions endchar_closes_path.

(* the path bounds returned with the segments enclose every point of every LineTo and CubeTo segment - end points, control
   points and the closing lines added by the interpreter (MoveTo points that nothing is drawn from are not counted, as in
   the code) *)
Theorem charstring_bounds_enclose : forall fuel cs lsubrs gsubrs segs b,
  load_glyph fuel cs lsubrs gsubrs = Ok (segs, b) -> forall p, In p (drawn_all segs) -> in_b b p.
Proof. exact load_glyph_bounds_lemma. Qed.
Print Assumptions charstring_bounds_enclose.

(* CFF2 charstrings at the default coordinates (cff2CharstringHandler: no return / endchar, vsindex, blend dropping its
   deltas; a subroutine ends with its bytes): the same three facts, for all byte strings, subroutine lists and variation
   store shapes *)
Theorem cff2_charstring_no_panic : forall fuel cs lsubrs gsubrs vs default_vs,
  no_panic (load_glyph2 fuel cs lsubrs gsubrs vs default_vs).
Proof. exact load_glyph2_no_panic_lemma. Qed.
Print Assumptions cff2_charstring_no_panic.

Theorem cff2_path_wellformed : forall fuel cs lsubrs gsubrs vs default_vs segs b,
  load_glyph2 fuel cs lsubrs gsubrs vs default_vs = Ok (segs, b) -> exists f c, wf_rev (rev segs) = Some (f, c).
Proof. exact load_glyph2_path_lemma. Qed.
Print Assumptions cff2_path_wellformed.

Theorem cff2_bounds_enclose : forall fuel cs lsubrs gsubrs vs default_vs segs b,
  load_glyph2 fuel cs lsubrs gsubrs vs default_vs = Ok (segs, b) -> forall p, In p (drawn_all segs) -> in_b b p.
Proof. exact load_glyph2_bounds_lemma. Qed.
Print Assumptions cff2_bounds_enclose.

(* ---------------------------------------------------------------------------------------------------------------- *)
(* gvar: the scalar of a tuple variation (Model/GvarScalar.v)                                                           *)

(* calculateScalar - with the single-active-axis cache newGvar builds for shared tuples - is the product over ALL axes of
   the per-axis factors, for every coordinate vector, every shared-tuple list and every header whose peak tuple has one
   entry per axis *)
Theorem gvar_scalar_is_product : forall (coords : list Z) (shared : list (list Z)) (embedded : bool) (index : Z)
    (peak0 start end_ : list Z) (hi : bool),
  let peak := if embedded then peak0 else nth (Z.to_nat index) shared [] in
  (embedded = false -> 0 <= index < Z.of_nat (length shared)) ->
  length peak = length coords ->
  scalar_go coords shared embedded index peak0 start end_ hi = scalar_full hi coords peak start end_.
Proof. exact scalar_go_is_full. Qed.
Print Assumptions gvar_scalar_is_product.

(* ... and that product is 0 as soon as one axis factor is 0 (the coordinate lies outside the tuple's region on that axis) *)
Theorem gvar_scalar_zero_factor : forall hi coords peak start end_ l acc,
  In (Some 0) l -> l = map (term_at hi coords peak start end_) (seq 0 (length coords)) -> fold_left mul_term l acc = 0.
Proof. intros hi coords peak start end_ l acc H _. exact (product_zero l acc H). Qed.
Print Assumptions gvar_scalar_zero_factor.

(* ---------------------------------------------------------------------------------------------------------------- *)
(* vertical metrics at default coordinates (Model/VMetrics.v)                                                           *)

(* vmtx, the analogue of advance_rule_total: with well-formed vhea/vmtx every glyph below numGlyphs has vertical metrics:
   Face.VerticalAdvance is minus its own long record's advance, or minus the advance of the LAST long record for the glyphs
   beyond numOfLongVerMetrics, which read their own short top side bearing *)
Theorem vertical_advance_rule_total : forall vhea vmtx n_long num_glyphs upem gid,
  hhea_num_long vhea = Ok n_long -> wf_hmtx vmtx n_long num_glyphs -> 0 <= gid < num_glyphs ->
  exists t, load_hmtx vhea vmtx num_glyphs = Ok t
            /\ hmtx_is_empty t = false
            /\ vertical_advance upem t gid = - advance_spec vmtx n_long gid
            /\ side_bearing t gid = lsb_spec vmtx n_long gid.
Proof. exact vertical_advance_rule_lemma. Qed.
Print Assumptions vertical_advance_rule_total.

(* VORG: on entries sorted by glyph index the binary search returns the glyph's own entry, the default when it has none *)
Theorem vorg_lookup_exact : forall t gid, sorted_entries (vo_entries t) -> vorg_y_origin t gid = vorg_spec t gid.
Proof. exact vorg_y_origin_lemma. Qed.
Print Assumptions vorg_lookup_exact.

(* origin rule, with VORG: GlyphVOrigin's y is the VORG value of the glyph, found = true *)
Theorem v_origin_from_vorg : forall f th tv gid hdr vt,
  parse_vorg (vf_vorg f) = Some vt -> sorted_entries (vo_entries vt) ->
  snd (fst (glyph_v_origin f th tv gid hdr)) = vorg_spec vt gid /\ snd (glyph_v_origin f th tv gid hdr) = true.
Proof. exact v_origin_vorg_lemma. Qed.
Print Assumptions v_origin_from_vorg.

(* origin rule, without VORG and with well-formed hmtx and vmtx: x is half the horizontal advance (truncated), y the top
   of the glyph's glyf box plus its top side bearing *)
Theorem v_origin_from_vmtx : forall f gid hdr nlh nlv,
  parse_vorg (vf_vorg f) = None ->
  hhea_num_long (vf_hhea f) = Ok nlh -> wf_hmtx (vf_hmtx f) nlh (vf_nglyphs f) ->
  hhea_num_long (vf_vhea f) = Ok nlv -> wf_hmtx (vf_vmtx f) nlv (vf_nglyphs f) ->
  0 <= gid < vf_nglyphs f -> gid < vf_nglyf f ->
  exists th tv, load_hmtx (vf_hhea f) (vf_hmtx f) (vf_nglyphs f) = Ok th /\ load_hmtx (vf_vhea f) (vf_vmtx f) (vf_nglyphs f) = Ok tv
    /\ glyph_v_origin f th tv gid hdr
       = (Z.quot (advance_spec (vf_hmtx f) nlh gid) 2,
          match hdr with [] => 0 | _ => Z.max (i16_at 4 hdr) (i16_at 8 hdr) end + lsb_spec (vf_vmtx f) nlv gid, true).
Proof. exact v_origin_vmtx_lemma. Qed.
Print Assumptions v_origin_from_vmtx.

(* ---------------------------------------------------------------------------------------------------------------- *)
(* variable fonts: coordinate normalisation (Model/VarNorm.v: fvar.normalizeCoordinates, Font.NormalizeVariations)        *)

(* NormalizeVariations on ARBITRARY axis records, segment maps and finite coordinates: the documented panic (fewer
   coordinates than axes) is the only one, there is no loop to run out of fuel, and a result has one value per
   coordinate (Err = a float division by zero on an ill-formed axis, whose converted value Go leaves to the platform) *)
Theorem normalize_total : forall axes maps coords,
  match normalize axes maps coords with
  | Panic _ => (length coords < length axes)%nat
  | OutOfFuel => False
  | Ok r => length r = length coords
  | Err _ => True
  end.
Proof. exact normalize_total_lemma. Qed.
Print Assumptions normalize_total.

(* fvar stage: the default position of a well-formed axis (minimum <= default <= maximum as float32) is mapped to 0 *)
Theorem norm_default_is_zero : forall a, wf_axis a -> norm_axis a (ax_def a) = Ok 0.
Proof. exact norm_axis_default_lemma. Qed.
Print Assumptions norm_default_is_zero.

(* avar stage, every well-formed segment map (entries -1 -> -1, 0 -> 0, 1 -> 1, fromCoordinates increasing, toCoordinates
   non-decreasing, all within [-1, 1]) and every coordinate of [-1, 1] (2.14 integers): the result stays in [-1, 1] *)
Theorem avar_in_range : forall m v, wf_map m = true -> -16384 <= v <= 16384 -> -16384 <= avar_map m v <= 16384.
Proof. exact avar_in_range_lemma. Qed.
Print Assumptions avar_in_range.

(* every entry of the table is honoured exactly: fromCoordinate |-> toCoordinate ... *)
Theorem avar_honours_entries : forall m x y, wf_map m = true -> In (x, y) m -> avar_map m x = y.
Proof. exact avar_knots_lemma. Qed.
Print Assumptions avar_honours_entries.

(* ... in particular min |-> -1, default |-> 0, max |-> 1 survive the avar stage *)
Theorem avar_fixes_anchors : forall m, wf_map m = true ->
  avar_map m (-16384) = -16384 /\ avar_map m 0 = 0 /\ avar_map m 16384 = 16384.
Proof. exact avar_anchors_lemma. Qed.
Print Assumptions avar_fixes_anchors.

(* and the map is monotone in the coordinate, roundings included *)
Theorem avar_monotone : forall m v w, wf_map m = true -> -16384 <= v -> v <= w -> w <= 16384 -> avar_map m v <= avar_map m w.
Proof. exact avar_monotone_lemma. Qed.
Print Assumptions avar_monotone.

(* ---------------------------------------------------------------------------------------------------------------- *)
(* variable fonts: ItemVariationStore (Model/VarStore.v: evaluate, Evaluate, GetDelta, HVAR/VVAR advances, MVAR)          *)

(* the per-axis scalar: 1 at the peak, 1 for a neutral (peak 0) or invalid axis record (start > peak, peak > end,
   start < 0 < end: ignored as the OpenType algorithm demands), 0 outside ]start, end[ *)
Theorem region_axis_rules : forall r c,
  axis_eval r (ra_peak r) = f32_one
  /\ (ra_peak r = 0 -> axis_eval r c = f32_one)
  /\ (ra_peak r < ra_start r \/ ra_end r < ra_peak r \/ (ra_start r < 0 < ra_end r) -> axis_eval r c = f32_one)
  /\ (active_axis r -> c <= ra_start r \/ ra_end r <= c -> c <> ra_peak r -> axis_eval r c = 0).
Proof.
  intros r c. exact (conj (axis_eval_at_peak r) (conj (axis_eval_neutral r c) (conj (axis_eval_invalid r c) (axis_eval_outside r c)))).
Qed.
Print Assumptions region_axis_rules.

(* the region scalar is the (float32, left to right) product of the axis scalars over ALL axes of the region, a missing
   coordinate counting as 0 *)
Theorem region_scalar_is_product : forall ra cs acc,
  region_eval_from ra cs acc
  = fold_left f32_mul (map (fun i => axis_eval (nth i ra (mkRA 0 0 0)) (nth i cs 0)) (seq 0 (length ra))) acc.
Proof. exact region_eval_is_fold. Qed.
Print Assumptions region_scalar_is_product.

(* a store whose regions all have an active axis (non-zero peak, valid record) yields the delta 0 at the default position:
   for every delta-set index, with all coordinates 0 - or with no coordinates at all *)
Theorem store_delta_zero_at_default : forall s o i cs,
  Forall (fun c => c = 0) cs -> Forall (Exists active_axis) (ivs_regions s) -> store_indices_ok s -> 0 <= o ->
  get_delta s o i cs = 0.
Proof. exact get_delta_default. Qed.
Print Assumptions store_delta_zero_at_default.

(* hence Face.HorizontalAdvance of a variable face at the default position is the static advance float32(base) - the
   value advance_rule_total describes - for every glyph, with or without an advance width mapping *)
Theorem advance_at_default_is_static : forall base h gid cs n,
  Z.abs base < 2 ^ 24 -> Forall (fun c => c = 0) cs -> Forall (Exists active_axis) (ivs_regions (fst h)) ->
  store_indices_ok (fst h) -> 0 <= gid -> Forall (fun oi => 0 <= fst oi) (snd h) ->
  h_advance_var base h gid cs n = f32_of_int base.
Proof. exact h_advance_default. Qed.
Print Assumptions advance_at_default_is_static.

(* ---------------------------------------------------------------------------------------------------------------- *)
(* variable fonts: gvar (Model/GvarDeltas.v: unpackDeltas, parsePointNumbers, inferDelta, applyDeltasToPoints)             *)

(* unpackDeltas on ARBITRARY data and any declared count: an error or exactly that many deltas; never a panic *)
Theorem unpack_deltas_total : forall data total, 0 <= total ->
  match unpack_deltas data total with
  | Ok l => zlen l = total
  | Err _ => True
  | _ => False
  end.
Proof. exact unpack_deltas_total_lemma. Qed.
Print Assumptions unpack_deltas_total.

(* parsePointNumbers on ARBITRARY bytes: an error, "all points", or the declared count of point numbers plus less than
   one run (the last run is not cut: at most 127 numbers more); never a panic *)
Theorem point_numbers_total : forall data, bytes_ok data ->
  match parse_point_numbers data with
  | Ok (None, _) => True
  | Ok (Some l, _) => exists count, 0 <= count /\ count <= zlen l < count + 128
  | Err _ => True
  | _ => False
  end.
Proof. exact parse_point_numbers_total_lemma. Qed.
Print Assumptions point_numbers_total.

(* inferDelta, the OpenType rule outside the span of the two touched neighbours (t = coordinate of the untouched point,
   p / n = coordinates of the previous / next touched point, pd / nd their deltas; all float32):
   coincident neighbours -> their common delta, or 0 when the deltas differ;
   at or below the smaller coordinate -> the delta of the neighbour that has it; at or above the larger -> likewise *)
Theorem inferred_delta_rule : forall t p n pd nd,
  infer_delta t p p pd nd = (if pd =? nd then pd else 0)
  /\ (p <> n -> t <= Z.min p n -> infer_delta t p n pd nd = if p <? n then pd else nd)
  /\ (p <> n -> Z.min p n < t -> Z.max p n <= t -> infer_delta t p n pd nd = if n <? p then pd else nd).
Proof. intros t p n pd nd. exact (conj (infer_same_neighbours t p pd nd) (conj (infer_below t p n pd nd) (infer_above t p n pd nd))). Qed.
Print Assumptions inferred_delta_rule.

(* the point-by-point rule the oracle applies to the library's output never touches a touched point's delta *)
Theorem iup_keeps_touched_points : forall o c, Forall2 (fun d' d => d_exp d = true -> d' = d) (iup_contour o c) c.
Proof. exact iup_contour_touched. Qed.
Print Assumptions iup_keeps_touched_points.

(* a glyph all of whose tuples have scalar 0 - which is the case at the default position - keeps its static points *)
Theorem zero_scalars_leave_outline : forall orig ends coords shared ts pts,
  Forall (fun ht => tuple_scalar coords shared (fst ht) = 0) ts -> apply_tuples orig ends coords shared ts pts = Ok pts.
Proof. exact apply_tuples_zero. Qed.
Print Assumptions zero_scalars_leave_outline.

(* a symmetric table with slope 1/2 next to -1 and 1: -1 + 2^-14 lands on an exact half and is rounded away from zero, as
   is its opposite (fix 55c09bc); a store with one region (peak 1): half way the delta 10 counts half; without coordinates
   it does not count (fix e59fef9); an invalid axis record is ignored (fix 53238c5); packed deltas: a run of two
   bytes, a run of one zero, one word; point numbers 1, 3 *)
Example variable_font_example :
  let m := [(-16384, -16384); (-8192, -12288); (0, 0); (8192, 12288); (16384, 16384)] in
  wf_map m = true /\ avar_map m (-16383) = -16384 /\ avar_map m 16383 = 16384 /\ avar_map m (-4096) = -6144
  /\ wf_axis (mkAxis 0 (f1616 0) (f1616 26214400) (f1616 58982400))
  /\ norm_axis (mkAxis 0 (f1616 0) (f1616 26214400) (f1616 58982400)) (f1616 42598400) = Ok 8192
  /\ normalize [mkAxis 0 0 0 f32_one] [] [] = Panic 1
  /\ (let s := mkIVS 1 1 [[mkRA 0 16384 16384]] [mkIVD [0] [[10]]] in
      active_axis (mkRA 0 16384 16384) /\ get_delta s 0 0 [8192] = 5 * f32_one /\ get_delta s 0 0 [] = 0
      /\ get_delta s 0 0 [16384] = 10 * f32_one)
  /\ axis_eval (mkRA (-16384) 8192 16384) 0 = f32_one
  /\ unpack_deltas [1; 5; 251; 128; 64; 1; 0] 4 = Ok [5; -5; 0; 256]
  /\ parse_point_numbers [2; 1; 1; 2; 9] = Ok (Some [1; 3], [9])
  /\ infer_delta (15 * f32_one) (10 * f32_one) (20 * f32_one) 0 (8 * f32_one) = 4 * f32_one.
Proof.
  cbv zeta. repeat split; try (vm_compute; reflexivity); try (vm_compute; discriminate); try (cbn; lia).
Qed.

(* ---- non-vacuity ---- *)
(* a contour starting with two off-curve points, and a second all-off-curve contour *)
Example contours_example :
  let cs := [[((0, 0), false); ((10, 0), false); ((10, 10), true)]; [((1, 1), false); ((3, 1), false); ((2, 5), false)]] in
  Forall (fun c => good_contour c = true) cs
  /\ build_segments (concat (map mark cs)) =
     [MoveTo (10, 0); QuadTo (20, 0) (20, 20); QuadTo (0, 0) (10, 0);
      MoveTo (4, 2); QuadTo (6, 2) (5, 6); QuadTo (4, 10) (3, 6); QuadTo (2, 2) (4, 2)].
Proof. cbv zeta. split; [repeat constructor|reflexivity]. Qed.

Example checker_example :
  good_points [mkCP 0 0 false false; mkCP 10 0 false false; mkCP 10 10 true true] = true
  /\ outline_specb [mkCP 0 0 false false; mkCP 10 0 false false; mkCP 10 10 true true]
       [MoveTo (10, 0); QuadTo (20, 0) (20, 20); QuadTo (0, 0) (10, 0)] = true
  /\ outline_specb [mkCP 0 0 false false; mkCP 10 0 false false; mkCP 10 10 true true]
       [MoveTo (10, 0); QuadTo (20, 0) (20, 20)] = false.
Proof. repeat split; reflexivity. Qed.

Example header_example :
  header_exact (mkHdr 1 5 (-3) 40 20) 7 [mkCP 5 20 true false; mkCP 40 (-3) true true] = true.
Proof. reflexivity. Qed.

(* 3 glyphs, 2 long metrics: glyph 2 takes the advance of record 1 and the first short side bearing *)
Example hmtx_example :
  let hmtx := [1; 244; 0; 10; 2; 88; 0; 20; 255; 251] in
  wf_hmtx hmtx 2 3 /\ advance_spec hmtx 2 2 = 600 /\ lsb_spec hmtx 2 2 = -5.
Proof. cbv zeta. split; [|split; reflexivity]. unfold wf_hmtx. cbn. lia. Qed.

(* flags: on-curve, short positive x, 16-bit y, repeated twice more; then one flag with 16-bit x and y: 4 points from 3 flag bytes *)
Example flags_example :
  parse_points [27; 2; 1; 5; 6; 7; 0; 1; 0; 2; 0; 3; 0; 4; 0; 9] [3]
  = Ok [(27, 5, 2); (27, 11, 5); (27, 18, 9); (1, 19, 18)].
Proof. reflexivity. Qed.

(* composite glyph 2 = glyph 1 (a triangle) moved by (10, 20), then glyph 1 scaled by 0.5 and moved by (-5, 0) *)
Definition ex_env := mkEnv 3
  [(1, [0;1; 0;0; 0;0; 0;100; 0;100;  0;2; 0;0; 1;1;1; 0;0; 0;100; 255;156; 0;0; 0;0; 0;100]);
   (2, [255;255; 0;0; 0;0; 0;110; 0;120;  0;34; 0;1; 10;20;   0;11; 0;1; 255;251; 0;0; 32;0])]
  (mkHmtx [(500,0);(500,0);(600,0)] []) hmtx_empty_tab 1000.
Definition FI (x y : Z) : pt := (f32_of_int x, f32_of_int y).
Example composite_example :
  recs_nonneg ex_env
  /\ glyf_outline_f ex_env 2 = Ok [MoveTo (FI 10 20); LineTo (FI 110 20); LineTo (FI 10 120); LineTo (FI 10 20);
                                   MoveTo (FI (-5) 0); LineTo (FI 45 0); LineTo (FI (-5) 50); LineTo (FI (-5) 0)]
  /\ (exists ps, parse_glyph_full [255;255; 0;0; 0;0; 0;110; 0;120;  0;34; 0;1; 10;20;   0;11; 0;1; 255;251; 0;0; 32;0]
                 = Ok (mkHdr (-1) 0 0 110 120, BComposite ps) /\ length ps = 2%nat).
Proof.
  split; [|split].
  - unfold recs_nonneg, ex_env. cbn. repeat constructor; lia.
  - vm_compute. reflexivity.
  - eexists. split; [vm_compute; reflexivity|reflexivity].
Qed.

(* a self-referencing composite is cut by the depth limit: levels 0..20 of the glyph each add the triangle found one level down, the one at level 21 is dropped: 20 copies *)
Example composite_depth_example :
  let e := mkEnv 3 [(1, [0;1; 0;0; 0;0; 0;100; 0;100;  0;2; 0;0; 1;1;1; 0;0; 0;100; 255;156; 0;0; 0;0; 0;100]);
                    (2, [255;255; 0;0; 0;0; 0;0; 0;0;  0;34; 0;1; 1;0;   0;2; 0;2; 0;3])]
                  hmtx_empty_tab hmtx_empty_tab 1000 in
  match glyf_all_points e 2 with Ok all => zlen all = 20 * 3 + 4 | _ => False end.
Proof. vm_compute. reflexivity. Qed.

Example extents_f_example :
  extents_from_points_f [mkCP (f32_of_int 3) (f32_of_int 4) true false; mkCP (f32_of_int (-1)) (f32_of_int 9) true true]
  = (f32_of_int (-1), f32_of_int 9, f32_of_int 4, f32_of_int (-5)).
Proof. vm_compute. reflexivity. Qed.

(* 100 200 rmoveto 50 0 rlineto 0 50 rlineto endchar: the triangle is closed by the interpreter *)
Example charstring_example :
  load_glyph 100 [239; 247; 92; 21; 189; 139; 5; 139; 189; 5; 14] [] []
  = Ok ([CMove (100 * FX, 200 * FX); CLine (150 * FX, 200 * FX); CLine (150 * FX, 250 * FX); CLine (100 * FX, 200 * FX)],
        (100 * FX, 200 * FX, 150 * FX, 250 * FX))
  /\ wf_rev (rev [CMove (100 * FX, 200 * FX); CLine (150 * FX, 200 * FX); CLine (150 * FX, 250 * FX); CLine (100 * FX, 200 * FX)])
     = Some ((100 * FX, 200 * FX), (100 * FX, 200 * FX))
  /\ wf_rev (rev [CMove (0, 0); CLine (5, 5); CMove (7, 7)]) = None.
Proof. repeat split; vm_compute; reflexivity. Qed.

(* a subroutine call (bias 107: operand -107 calls subroutine 0) and the 10-level limit on a self-calling subroutine *)
Example charstring_subr_example :
  load_glyph 100 [32; 10; 14] [[239; 239; 21; 11]] [] = Ok ([CMove (100 * FX, 100 * FX)], (0, 0, 0, 0))
  /\ load_glyph 100 [32; 10; 14] [[32; 10]] [] = Err 3.
Proof. split; vm_compute; reflexivity. Qed.

Example charstring_bounds_example :
  in_b (100 * FX, 200 * FX, 150 * FX, 250 * FX) (150 * FX, 250 * FX)
  /\ drawn_all [CMove (100 * FX, 200 * FX); CLine (150 * FX, 200 * FX); CLine (150 * FX, 250 * FX)]
     = [(150 * FX, 200 * FX); (150 * FX, 250 * FX)].
Proof. split; [unfold in_b, FX; cbn; lia|reflexivity]. Qed.

(* half way to a single-axis peak: 1/2; a shared tuple with three peaks (axes 0,1,2) while only axis 2 is moved: the
   factor of axis 0 is 0, so the scalar is 0 - the cache must not treat that tuple as a one-axis tuple *)
Example gvar_scalar_example :
  scalar_go [8192; 0] [[16384; 0]] false 0 [] [] [] false = f32_half f32_one
  /\ active_idx [16384; 0] = 0 /\ active_idx [16384; 16384; 16384; 0] = -1
  /\ scalar_go [0; 0; 7000; 0] [[16384; 16384; 16384; 0]] false 0 [] [] [] false = 0
  /\ In (Some 0) (map (term_at false [0; 0; 7000; 0] [16384; 16384; 16384; 0] [] []) (seq 0 4)).
Proof. repeat split; try (vm_compute; reflexivity). left. vm_compute. reflexivity. Qed.

(* glyph 2 refers to itself twice and to the triangle once: without the budget 2^21 - 1 visits; with it the counter stops
   at 1025 *)
Example composite_budget_example :
  let e := mkEnv 3 [(1, [0;1; 0;0; 0;0; 0;100; 0;100;  0;2; 0;0; 1;1;1; 0;0; 0;100; 255;156; 0;0; 0;0; 0;100]);
                    (2, [255;255; 0;0; 0;0; 0;0; 0;0;  0;34; 0;2; 0;0;   0;34; 0;2; 0;0;   0;2; 0;1; 0;0])]
                  hmtx_empty_tab hmtx_empty_tab 1000 in
  match points_for_glyph comp_fuel e 2 0 0 with Ok (_, n) => n = 1025 | _ => False end.
Proof. vm_compute. reflexivity. Qed.

(* 3 glyphs, 2 long vertical metrics: glyph 2 advances by minus the last long advance; VORG with entries for glyphs 1 and 4 *)
Example vmetrics_example :
  let vmtx := [3; 232; 0; 10; 3; 132; 0; 20; 255; 251] in
  wf_hmtx vmtx 2 3 /\ - advance_spec vmtx 2 2 = -900 /\ lsb_spec vmtx 2 2 = -5
  /\ parse_vorg [0;1; 0;0; 3;112; 0;2;  0;1; 3;32;  0;4; 2;188] = Some (mkVorg 880 [(1, 800); (4, 700)])
  /\ sorted_entries [(1, 800); (4, 700)]
  /\ vorg_y_origin (mkVorg 880 [(1, 800); (4, 700)]) 4 = 700 /\ vorg_y_origin (mkVorg 880 [(1, 800); (4, 700)]) 3 = 880.
Proof.
  cbv zeta. split; [unfold wf_hmtx; cbn; lia|]. repeat split; try reflexivity.
  apply sorted_strict_entries. reflexivity.
Qed.

(* a subroutine without return operator (the only kind CFF2 has): the caller resumes after it.  Subroutine 0 moves to
   (100, 100); the charstring then draws a line.  With two regions per operand, "1 2 3 1 blend" leaves the operand 1 *)
Example cff2_example :
  load_glyph2 100 [32; 10; 189; 139; 5] [[239; 239; 21]] [] [] 0
  = Ok ([CMove (100 * FX, 100 * FX); CLine (150 * FX, 100 * FX)], (100 * FX, 100 * FX, 150 * FX, 100 * FX))
  /\ load_glyph2 100 [140; 141; 142; 140; 16; 22] [] [] [(2, true)] 0 = Ok ([CMove (1 * FX, 0)], (0, 0, 0, 0))
  /\ load_glyph2 100 [239; 239; 21; 14] [] [] [] 0 = Err 8.
Proof. repeat split; vm_compute; reflexivity. Qed.
