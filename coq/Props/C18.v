(* C18 — Glyphs not flagged unsafe-to-break are safe cut points (partial: flag algebra of the buffer).
   Property theorems only.  The statement about re-shaping the pieces depends on which windows GSUB/GPOS/kern inspect
   and is explored by the cut-and-reshape sweep (go/cmd/c18sweep), not proved. *)
From TV Require Import Model.Buffer Spec.Buffer Proofs.Buffer Proofs.BufferOps Proofs.BufferAll.

(* propagateFlags on ANY buffer whose cluster values are monotone (levels other than Characters): it returns normally
   (no OutOfFuel), keeps clusters, cursor and out-buffer, and — when a flag was recorded (bsfHasGlyphFlags) — afterwards
   glyphs of one cluster carry the same unsafe-to-break / unsafe-to-concat / safe-to-insert-tatweel flags. *)
Theorem flags_uniform_per_cluster : forall b,
  negb (level b =? 2) = true -> monotone (cls (info b)) = true ->
  exists b', propagate_flags b = Ok b'
    /\ cls (info b') = cls (info b) /\ out b' = out b /\ idx b' = idx b /\ have_out b' = have_out b
    /\ (has_gf b = true -> uniformP (info b') /\ flags_uniform (info b') = true)
    /\ (has_gf b = false -> b' = b).
Proof. exact propagate_flags_uniform. Qed.
Print Assumptions flags_uniform_per_cluster.

(* every flag write through setGlyphFlags (unsafeToBreak*, unsafeToConcat*, safeToInsertTatweel) records
   bsfHasGlyphFlags, so propagateFlags is never skipped after a write *)
Theorem flag_writes_are_recorded : forall b m s e interior from_out b',
  set_glyph_flags b m s e interior from_out = Ok b' -> b' = b \/ has_gf b' = true.
Proof. exact set_glyph_flags_records. Qed.
Print Assumptions flag_writes_are_recorded.

(* unsafeToBreak(s, e) on ANY buffer whose Info clusters are monotone (either direction; clusters are Go ints): it returns
   normally and flags exactly the glyphs of [s, min(e, len)) whose cluster differs from the minimal cluster of that
   window (marks_interior); every other glyph, the out-buffer and the cursor are unchanged, and the write is recorded.
   Hence every cluster boundary strictly inside the inspected window is flagged on its later side. *)
Theorem unsafe_marks_interior : forall b s e,
  (level b =? 2) = false -> 0 <= s ->
  monotone (cls (info b)) = true -> Forall (fun g => cl g <= max_int) (info b) ->
  exists b', unsafe_to_break b s e = Ok b'
    /\ info b' = marks_interior m_break s e (info b)
    /\ out b' = out b /\ idx b' = idx b /\ have_out b' = have_out b /\ level b' = level b
    /\ (b' = b \/ has_gf b' = true).
Proof. exact unsafe_marks_interior_lemma. Qed.
Print Assumptions unsafe_marks_interior.

(* the same for the two other interior setters: unsafeToConcat (a no-op unless ProduceUnsafeToConcat is set) and
   safeToInsertTatweel (which degrades to unsafeToBreak unless ProduceSafeToInsertTatweel is set) *)
Theorem unsafe_concat_marks_interior : forall b s e,
  (level b =? 2) = false -> 0 <= s ->
  monotone (cls (info b)) = true -> Forall (fun g => cl g <= max_int) (info b) ->
  exists b', unsafe_to_concat b s e = Ok b'
    /\ info b' = (if fl_concat b then marks_interior m_concat s e (info b) else info b)
    /\ out b' = out b /\ idx b' = idx b /\ have_out b' = have_out b /\ level b' = level b
    /\ (b' = b \/ has_gf b' = true).
Proof. exact unsafe_concat_marks_interior_lemma. Qed.
Print Assumptions unsafe_concat_marks_interior.

Theorem tatweel_marks_interior : forall b s e,
  (level b =? 2) = false -> 0 <= s ->
  monotone (cls (info b)) = true -> Forall (fun g => cl g <= max_int) (info b) ->
  exists b', safe_to_insert_tatweel b s e = Ok b'
    /\ info b' = marks_interior (if fl_tatweel b then m_tatweel else m_break) s e (info b)
    /\ out b' = out b /\ idx b' = idx b /\ have_out b' = have_out b /\ level b' = level b
    /\ (b' = b \/ has_gf b' = true).
Proof. exact tatweel_marks_interior_lemma. Qed.
Print Assumptions tatweel_marks_interior.

(* unsafeToBreakFromOutbuffer(s, e) with output in progress (what GSUB calls while it rewrites the buffer), on ANY buffer
   whose glyph sequence  out ++ unread input  is monotone, under upstream's assertions s <= len(out), idx <= e: the
   inspected window is out[s:] followed by Info[idx:min(e, len)]; it returns normally and flags exactly the glyphs of that
   window outside the window's minimal cluster c (cond_flag c), nothing else, and records the write *)
Theorem unsafe_from_outbuffer_marks_interior : forall b s e,
  (level b =? 2) = false -> have_out b = true ->
  0 <= s -> s <= zlen (out b) -> 0 <= idx b -> idx b <= zlen (info b) -> idx b <= e ->
  monotone (cls (bseq b)) = true -> Forall (fun g => cl g <= max_int) (bseq b) ->
  let e' := Z.min e (zlen (info b)) in
  let c := lmin (cls (slice s (zlen (out b)) (out b) ++ slice (idx b) e' (info b))) in
  exists b', unsafe_to_break_from_outbuffer b s e = Ok b'
    /\ out b' = map_range (cond_flag c m_break) s (zlen (out b)) (out b)
    /\ info b' = map_range (cond_flag c m_break) (idx b) e' (info b)
    /\ idx b' = idx b /\ have_out b' = true /\ level b' = level b /\ has_gf b' = true.
Proof. exact unsafe_break_out_lemma. Qed.
Print Assumptions unsafe_from_outbuffer_marks_interior.

(* setCluster(c, mask) REPLACES the three glyph flags of a glyph whose cluster changes (mask = 0 from mergeClusters, the
   deleted glyph's Mask from deleteGlyph).  What that means for unsafe-to-break, read off the code and proved:

   mergeClusters(s, e) (any buffer, clusters monotone or not): glyph by glyph, in Info and in the out-buffer, a glyph is
   either untouched or moved to c = the minimum cluster of [s, e) with its glyph flags cleared (mrel c fl0); in particular
   no glyph that already carries c loses a flag; bsfHasGlyphFlags is kept. *)
Theorem merge_flag_transfer : forall b s e,
  (level b =? 2) = false -> 0 <= idx b -> 0 <= s -> s + 2 <= e -> e <= zlen (info b) ->
  exists b', merge_clusters b s e = Ok b'
    /\ Forall2 (mrel (lmin (cls (slice s e (info b)))) fl0) (info b) (info b')
    /\ Forall2 (mrel (lmin (cls (slice s e (info b)))) fl0) (out b) (out b')
    /\ has_gf b' = has_gf b.
Proof. exact BufferOps.merge_flag_transfer. Qed.
Print Assumptions merge_flag_transfer.

(* merge_preserves_unsafe, in the form that is TRUE: on ANY well-formed buffer without output in progress on which a
   flag was recorded, mergeClusters(s, e) followed by propagateFlags returns normally, and the cluster c that survives
   the merge (the minimum of the range = the start of the merged cluster in the text) keeps an unsafe-to-break flag that
   any of its glyphs carried: afterwards EVERY glyph of cluster c is flagged.  The flags of the absorbed clusters are
   dropped on purpose — their starts are no longer cluster boundaries — so the stronger reading "no flag of any merged
   glyph is lost" is false (Findings/BufferFlags.v merge_keeps_every_unsafe_refuted), as is the analogue for deleteGlyph
   when the deleted glyph's cluster survives in a neighbour (delete_keeps_cluster_unsafe_refuted). *)
Theorem merge_preserves_unsafe : forall lo hi b s e,
  (level b =? 2) = false -> WF lo hi b = true -> have_out b = false -> has_gf b = true ->
  0 <= s -> s + 2 <= e -> e <= zlen (info b) ->
  exists b1 b2, merge_clusters b s e = Ok b1 /\ propagate_flags b1 = Ok b2
    /\ Forall2 (mrel (lmin (cls (slice s e (info b)))) fl0) (info b) (info b1)
    /\ cls (info b2) = cls (info b1)
    /\ (forall g, In g (info b) -> cl g = lmin (cls (slice s e (info b))) -> utb (gf g) = true ->
        forall h, In h (info b2) -> cl h = cl g -> utb (gf h) = true).
Proof. exact merge_preserves_unsafe_lemma. Qed.
Print Assumptions merge_preserves_unsafe.

(* propagateFlags itself never drops an unsafe-to-break flag: the whole cluster of a flagged glyph ends up flagged *)
Theorem propagate_keeps_unsafe : forall b b',
  (level b =? 2) = false -> monotone (cls (info b)) = true -> has_gf b = true -> propagate_flags b = Ok b' ->
  forall g, In g (info b) -> utb (gf g) = true -> forall h, In h (info b') -> cl h = cl g -> utb (gf h) = true.
Proof. exact BufferOps.propagate_keeps_unsafe. Qed.
Print Assumptions propagate_keeps_unsafe.

(* deleteGlyph (any buffer with the cursor on a glyph): glyph by glyph, an out-buffer glyph is either untouched or takes
   over the cluster of the deleted glyph TOGETHER WITH the deleted glyph's flags (backward merge); Info glyphs are
   untouched or merged forward with cleared flags (only when the out-buffer is empty, i.e. at the start of the text) *)
Theorem delete_flag_transfer : forall b,
  (level b =? 2) = false -> 0 <= idx b -> idx b < zlen (info b) ->
  exists b' c', delete_glyph b = Ok b'
    /\ Forall2 (mrel (cl (nth (Z.to_nat (idx b)) (info b) g0)) (gf (nth (Z.to_nat (idx b)) (info b) g0))) (out b) (out b')
    /\ Forall2 (mrel c' fl0) (info b) (info b')
    /\ has_gf b' = has_gf b /\ idx b' = idx b + 1.
Proof. exact BufferOps.delete_flag_transfer. Qed.
Print Assumptions delete_flag_transfer.

(* non-vacuity: RTL buffer 2 1 1 0 with cluster 1 flagged on one glyph; merging [0, 2) gives 1 1 1 0 and after
   propagateFlags all three glyphs of cluster 1 are flagged (the flag of the absorbed cluster 2 would have been dropped) *)
Example merge_unsafe_example :
  let u := mkFl true true false in
  let b := mkB [mkG 2 fl0 0 65 1; mkG 1 u 0 66 2; mkG 1 fl0 0 67 3; mkG 0 fl0 0 68 4] [] 0 false 4 4 0 true false true in
  WF 0 3 b = true
  /\ exists b1 b2, merge_clusters b 0 2 = Ok b1 /\ propagate_flags b1 = Ok b2
       /\ cls (info b2) = [1; 1; 1; 0] /\ map gf (info b2) = [u; u; u; fl0].
Proof. cbv zeta. split; [reflexivity|]. eexists. eexists. repeat split; vm_compute; reflexivity. Qed.

(* non-vacuity: RTL, out-buffer [3 3], deleting the flagged glyph of cluster 2: both out glyphs take cluster 2 and the flag *)
Example delete_unsafe_example :
  let u := mkFl true true false in
  let b := mkB [mkG 3 fl0 0 65 1; mkG 3 fl0 0 66 2; mkG 2 u 0 67 3; mkG 0 fl0 0 68 4] [mkG 3 fl0 0 65 1; mkG 3 fl0 0 66 2] 2 true 4 4 0 true false true in
  exists b', delete_glyph b = Ok b' /\ cls (out b') = [2; 2] /\ map gf (out b') = [u; u].
Proof. cbv zeta. eexists. repeat split; vm_compute; reflexivity. Qed.

(* non-vacuity: window [0, 3) of an LTR buffer with clusters 0 1 1 3: the two glyphs of cluster 1 get flagged *)
Example unsafe_example :
  let b := mkB [mkG 0 fl0 0 65 1; mkG 1 fl0 0 66 2; mkG 1 fl0 0 67 3; mkG 3 fl0 0 68 4] [] 0 false 4 4 0 false false false in
  monotone (cls (info b)) = true
  /\ exists b', unsafe_to_break b 0 3 = Ok b' /\ map gf (info b') = [fl0; m_break; m_break; fl0] /\ has_gf b' = true.
Proof. cbv zeta. split; [reflexivity|]. eexists. repeat split; vm_compute; reflexivity. Qed.

(* non-vacuity: an RTL buffer with a two-glyph cluster, one glyph flagged *)
Example flags_example :
  let b := mkB [mkG 4 fl0 0 65 1; mkG 2 (mkFl true true false) 8 66 2; mkG 2 fl0 0 67 3; mkG 0 fl0 0 68 4] [] 0 false 4 4 0 true false true in
  monotone (cls (info b)) = true /\ has_gf b = true
  /\ exists b', propagate_flags b = Ok b' /\ map gf (info b') = [fl0; mkFl true true false; mkFl true true false; fl0].
Proof. cbv zeta. split; [reflexivity|]. split; [reflexivity|]. eexists. split; vm_compute; reflexivity. Qed.

(* non-vacuity: unsafeToConcat / safeToInsertTatweel with the producing buffer flags set, window [0, 3) of 0 1 1 3 *)
Example concat_tatweel_example :
  let b := mkB [mkG 0 fl0 0 65 1; mkG 1 fl0 0 66 2; mkG 1 fl0 0 67 3; mkG 3 fl0 0 68 4] [] 0 false 4 4 0 true true false in
  (exists b', unsafe_to_concat b 0 3 = Ok b' /\ map gf (info b') = [fl0; m_concat; m_concat; fl0] /\ has_gf b' = true)
  /\ (exists b', safe_to_insert_tatweel b 0 3 = Ok b' /\ map gf (info b') = [fl0; m_tatweel; m_tatweel; fl0]).
Proof. cbv zeta. split; eexists; repeat split; vm_compute; reflexivity. Qed.

(* non-vacuity: out-buffer 0 1, unread input 1 3 (cursor 2): window out[1:] ++ Info[2:4] = clusters 1 1 3, only 3 is flagged *)
Example from_outbuffer_example :
  let b := mkB [mkG 0 fl0 0 65 1; mkG 1 fl0 0 66 2; mkG 1 fl0 0 67 3; mkG 3 fl0 0 68 4] [mkG 0 fl0 0 65 1; mkG 1 fl0 0 66 2] 2 true 4 4 0 false false false in
  monotone (cls (bseq b)) = true
  /\ exists b', unsafe_to_break_from_outbuffer b 1 4 = Ok b' /\ map gf (out b') = [fl0; fl0] /\ map gf (info b') = [fl0; fl0; fl0; m_break].
Proof. cbv zeta. split; [reflexivity|]. eexists. repeat split; vm_compute; reflexivity. Qed.
