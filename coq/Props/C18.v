(* C18 — Glyphs not flagged unsafe-to-break are safe cut points (partial: flag algebra of the buffer).
   Property theorems only.  The statement about re-shaping the pieces depends on which windows GSUB/GPOS/kern inspect
   and is explored by the cut-and-reshape sweep, not proved. *)
From TV Require Import Model.Buffer Spec.Buffer Proofs.Buffer.

(* propagateFlags on ANY buffer whose cluster values are monotone (levels other than Characters): it returns normally
   (no OutOfFuel), keeps clusters, cursor and out-buffer, and — when a flag was recorded (bsfHasGlyphFlags) — afterwards
   glyphs of one cluster carry the same unsafe-to-break / unsafe-to-concat / safe-to-insert-tatweel flags. *)
Theorem flags_uniform_per_cluster : forall b,
  negb (level b =? 2) = true -> monotone (cls (info b)) = true ->
  exists b', propagate_flags b = Ok b'
    /\ cls (info b') = cls (info b) /\ out b' = out b /\ idx b' = idx b /\ have_out b' = have_out b
    /\ (has_gf b = true -> uniformP (info b') /\ flags_uniform (info b') = true)
    /\ (has_gf b = false -> b' = b).
Proof. exact propagate_flags_uniform. Qed.
Print Assumptions flags_uniform_per_cluster.

(* every flag write through setGlyphFlags (unsafeToBreak*, unsafeToConcat*, safeToInsertTatweel) records
   bsfHasGlyphFlags, so propagateFlags is never skipped after a write *)
Theorem flag_writes_are_recorded : forall b m s e interior from_out b',
  set_glyph_flags b m s e interior from_out = Ok b' -> b' = b \/ has_gf b' = true.
Proof. exact set_glyph_flags_records. Qed.
Print Assumptions flag_writes_are_recorded.

(* unsafeToBreak(s, e) on ANY buffer whose Info clusters are monotone (either direction; clusters are Go ints): it returns
   normally and flags exactly the glyphs of [s, min(e, len)) whose cluster differs from the minimal cluster of that
   window (marks_interior); every other glyph, the out-buffer and the cursor are unchanged, and the write is recorded.
   Hence every cluster boundary strictly inside the inspected window is flagged on its later side. *)
Theorem unsafe_marks_interior : forall b s e,
  (level b =? 2) = false -> 0 <= s ->
  monotone (cls (info b)) = true -> Forall (fun g => cl g <= max_int) (info b) ->
  exists b', unsafe_to_break b s e = Ok b'
    /\ info b' = marks_interior m_break s e (info b)
    /\ out b' = out b /\ idx b' = idx b /\ have_out b' = have_out b /\ level b' = level b
    /\ (b' = b \/ has_gf b' = true).
Proof. exact unsafe_marks_interior_lemma. Qed.
Print Assumptions unsafe_marks_interior.

(* non-vacuity: window [0, 3) of an LTR buffer with clusters 0 1 1 3: the two glyphs of cluster 1 get flagged *)
Example unsafe_example :
  let b := mkB [mkG 0 fl0 0 65 1; mkG 1 fl0 0 66 2; mkG 1 fl0 0 67 3; mkG 3 fl0 0 68 4] [] 0 false 4 4 0 false false false in
  monotone (cls (info b)) = true
  /\ exists b', unsafe_to_break b 0 3 = Ok b' /\ map gf (info b') = [fl0; m_break; m_break; fl0] /\ has_gf b' = true.
Proof. cbv zeta. split; [reflexivity|]. eexists. repeat split; vm_compute; reflexivity. Qed.

(* non-vacuity: an RTL buffer with a two-glyph cluster, one glyph flagged *)
Example flags_example :
  let b := mkB [mkG 4 fl0 0 65 1; mkG 2 (mkFl true true false) 8 66 2; mkG 2 fl0 0 67 3; mkG 0 fl0 0 68 4] [] 0 false 4 4 0 true false true in
  monotone (cls (info b)) = true /\ has_gf b = true
  /\ exists b', propagate_flags b = Ok b' /\ map gf (info b') = [fl0; mkFl true true false; mkFl true true false; fl0].
Proof. cbv zeta. split; [reflexivity|]. split; [reflexivity|]. eexists. split; vm_compute; reflexivity. Qed.
