(* C18 — Glyphs not flagged unsafe-to-break are safe cut points (partial: flag algebra of the buffer).
   Property theorems only.  The statement about re-shaping the pieces depends on which windows GSUB/GPOS/kern inspect
   and is explored by the cut-and-reshape sweep (go/cmd/c18sweep), not proved. *)
From TV Require Import Model.Buffer Spec.Buffer Proofs.Buffer Proofs.BufferOps Proofs.BufferAll.

(* propagateFlags on ANY buffer whose cluster values are monotone (levels other than Characters): it returns normally
   (no OutOfFuel), keeps clusters, cursor and out-buffer, and — when a flag was recorded (bsfHasGlyphFlags) — afterwards
   glyphs of one cluster carry the same unsafe-to-break / unsafe-to-concat / safe-to-insert-tatweel flags. *)
Theorem flags_uniform_per_cluster : forall b,
  negb (level b =? 2) = true -> monotone (cls (info b)) = true ->
  exists b', propagate_flags b = Ok b'
    /\ cls (info b') = cls (info b) /\ out b' = out b /\ idx b' = idx b /\ have_out b' = have_out b
    /\ (has_gf b = true -> uniformP (info b') /\ flags_uniform (info b') = true)
    /\ (has_gf b = false -> b' = b).
Proof. exact propagate_flags_uniform. Qed.
Print Assumptions flags_uniform_per_cluster.

(* every flag write through setGlyphFlags (unsafeToBreak*, unsafeToConcat*, safeToInsertTatweel) records
   bsfHasGlyphFlags, so propagateFlags is never skipped after a write *)
Theorem flag_writes_are_recorded : forall b m s e interior from_out b',
  set_glyph_flags b m s e interior from_out = Ok b' -> b' = b \/ has_gf b' = true.
Proof. exact set_glyph_flags_records. Qed.
Print Assumptions flag_writes_are_recorded.

(* unsafeToBreak(s, e) on ANY buffer whose Info clusters are monotone (either direction; clusters are Go ints): it returns
   normally and flags exactly the glyphs of [s, min(e, len)) whose cluster differs from the minimal cluster of that
   window (marks_interior); every other glyph, the out-buffer and the cursor are unchanged, and the write is recorded.
   Hence every cluster boundary strictly inside the inspected window is flagged on its later side. *)
Theorem unsafe_marks_interior : forall b s e,
  (level b =? 2) = false -> 0 <= s ->
  monotone (cls (info b)) = true -> Forall (fun g => cl g <= max_int) (info b) ->
  exists b', unsafe_to_break b s e = Ok b'
    /\ info b' = marks_interior m_break s e (info b)
    /\ out b' = out b /\ idx b' = idx b /\ have_out b' = have_out b /\ level b' = level b
    /\ (b' = b \/ has_gf b' = true).
Proof. exact unsafe_marks_interior_lemma. Qed.
Print Assumptions unsafe_marks_interior.

(* the same for the two other interior setters: unsafeToConcat (a no-op unless ProduceUnsafeToConcat is set) and
   safeToInsertTatweel (which degrades to unsafeToBreak unless ProduceSafeToInsertTatweel is set) *)
Theorem unsafe_concat_marks_interior : forall b s e,
  (level b =? 2) = false -> 0 <= s ->
  monotone (cls (info b)) = true -> Forall (fun g => cl g <= max_int) (info b) ->
  exists b', unsafe_to_concat b s e = Ok b'
    /\ info b' = (if fl_concat b then marks_interior m_concat s e (info b) else info b)
    /\ out b' = out b /\ idx b' = idx b /\ have_out b' = have_out b /\ level b' = level b
    /\ (b' = b \/ has_gf b' = true).
Proof. exact unsafe_concat_marks_interior_lemma. Qed.
Print Assumptions unsafe_concat_marks_interior.

Theorem tatweel_marks_interior : forall b s e,
  (level b =? 2) = false -> 0 <= s ->
  monotone (cls (info b)) = true -> Forall (fun g => cl g <= max_int) (info b) ->
  exists b', safe_to_insert_tatweel b s e = Ok b'
    /\ info b' = marks_interior (if fl_tatweel b then m_tatweel else m_break) s e (info b)
    /\ out b' = out b /\ idx b' = idx b /\ have_out b' = have_out b /\ level b' = level b
    /\ (b' = b \/ has_gf b' = true).
Proof. exact tatweel_marks_interior_lemma. Qed.
Print Assumptions tatweel_marks_interior.

(* unsafeToBreakFromOutbuffer(s, e) with output in progress (what GSUB calls while it rewrites the buffer), on ANY buffer
   whose glyph sequence  out ++ unread input  is monotone, under upstream's assertions s <= len(out), idx <= e: the
   inspected window is out[s:] followed by Info[idx:min(e, len)]; it returns normally and flags exactly the glyphs of that
   window outside the window's minimal cluster c (cond_flag c), nothing else, and records the write *)
Theorem unsafe_from_outbuffer_marks_interior : forall b s e,
  (level b =? 2) = false -> have_out b = true ->
  0 <= s -> s <= zlen (out b) -> 0 <= idx b -> idx b <= zlen (info b) -> idx b <= e ->
  monotone (cls (bseq b)) = true -> Forall (fun g => cl g <= max_int) (bseq b) ->
  let e' := Z.min e (zlen (info b)) in
  let c := lmin (cls (slice s (zlen (out b)) (out b) ++ slice (idx b) e' (info b))) in
  exists b', unsafe_to_break_from_outbuffer b s e = Ok b'
    /\ out b' = map_range (cond_flag c m_break) s (zlen (out b)) (out b)
    /\ info b' = map_range (cond_flag c m_break) (idx b) e' (info b)
    /\ idx b' = idx b /\ have_out b' = true /\ level b' = level b /\ has_gf b' = true.
Proof. exact unsafe_break_out_lemma. Qed.
Print Assumptions unsafe_from_outbuffer_marks_interior.

(* setCluster(c, mask) REPLACES the three glyph flags of a glyph whose cluster changes (mask = 0 from mergeClusters, the
   deleted glyph's Mask from deleteGlyph).  What that means for unsafe-to-break, read off the code and proved:

   mergeClusters(s, e) (any buffer, clusters monotone or not): glyph by glyph, in Info and in the out-buffer, a glyph is
   either untouched or moved to c = the minimum cluster of [s, e) with its glyph flags cleared (mrel c fl0); in particular
   no glyph that already carries c loses a flag; bsfHasGlyphFlags is kept. *)
Theorem merge_flag_transfer : forall b s e,
  (level b =? 2) = false -> 0 <= idx b -> 0 <= s -> s + 2 <= e -> e <= zlen (info b) ->
  exists b', merge_clusters b s e = Ok b'
    /\ Forall2 (mrel (lmin (cls (slice s e (info b)))) fl0) (info b) (info b')
    /\ Forall2 (mrel (lmin (cls (slice s e (info b)))) fl0) (out b) (out b')
    /\ has_gf b' = has_gf b.
Proof. exact BufferOps.merge_flag_transfer. Qed.
Print Assumptions merge_flag_transfer.

(* merge_preserves_unsafe, in the form that is TRUE: on ANY well-formed buffer without output in progress on which a
   flag was recorded, mergeClusters(s, e) followed by propagateFlags returns normally, and the cluster c that survives
   the merge (the minimum of the range = the start of the merged cluster in the text) keeps an unsafe-to-break flag that
   any of its glyphs carried: afterwards EVERY glyph of cluster c is flagged.  The flags of the absorbed clusters are
   dropped on purpose — their starts are no longer cluster boundaries — so the stronger reading "no flag of any merged
   glyph is lost" is false (Findings/BufferFlags.v merge_keeps_every_unsafe_refuted), as is the analogue for deleteGlyph
   when the deleted glyph's cluster survives in a neighbour (delete_keeps_cluster_unsafe_refuted). *)
Theorem merge_preserves_unsafe : forall lo hi b s e,
  (level b =? 2) = false -> WF lo hi b = true -> have_out b = false -> has_gf b = true ->
  0 <= s -> s + 2 <= e -> e <= zlen (info b) ->
  exists b1 b2, merge_clusters b s e = Ok b1 /\ propagate_flags b1 = Ok b2
    /\ Forall2 (mrel (lmin (cls (slice s e (info b)))) fl0) (info b) (info b1)
    /\ cls (info b2) = cls (info b1)
    /\ (forall g, In g (info b) -> cl g = lmin (cls (slice s e (info b))) -> utb (gf g) = true ->
        forall h, In h (info b2) -> cl h = cl g -> utb (gf h) = true).
Proof. exact merge_preserves_unsafe_lemma. Qed.
Print Assumptions merge_preserves_unsafe.

(* propagateFlags itself never drops an unsafe-to-break flag: the whole cluster of a flagged glyph ends up flagged *)
Theorem propagate_keeps_unsafe : forall b b',
  (level b =? 2) = false -> monotone (cls (info b)) = true -> has_gf b = true -> propagate_flags b = Ok b' ->
  forall g, In g (info b) -> utb (gf g) = true -> forall h, In h (info b') -> cl h = cl g -> utb (gf h) = true.
Proof. exact BufferOps.propagate_keeps_unsafe. Qed.
Print Assumptions propagate_keeps_unsafe.

(* deleteGlyph (any buffer with the cursor on a glyph): glyph by glyph, an out-buffer glyph is either untouched or takes
   over the cluster of the deleted glyph TOGETHER WITH the deleted glyph's flags (backward merge); Info glyphs are
   untouched or merged forward with cleared flags (only when the out-buffer is empty, i.e. at the start of the text) *)
Theorem delete_flag_transfer : forall b,
  (level b =? 2) = false -> 0 <= idx b -> idx b < zlen (info b) ->
  exists b' c', delete_glyph b = Ok b'
    /\ Forall2 (mrel (cl (nth (Z.to_nat (idx b)) (info b) g0)) (gf (nth (Z.to_nat (idx b)) (info b) g0))) (out b) (out b')
    /\ Forall2 (mrel c' fl0) (info b) (info b')
    /\ has_gf b' = has_gf b /\ idx b' = idx b + 1.
Proof. exact BufferOps.delete_flag_transfer. Qed.
Print Assumptions delete_flag_transfer.

(* non-vacuity: RTL buffer 2 1 1 0 with cluster 1 flagged on one glyph; merging [0, 2) gives 1 1 1 0 and after
   propagateFlags all three glyphs of cluster 1 are flagged (the flag of the absorbed cluster 2 would have been dropped) *)
Example merge_unsafe_example :
  let u := mkFl true true false in
  let b := mkB [mkG 2 fl0 0 65 1; mkG 1 u 0 66 2; mkG 1 fl0 0 67 3; mkG 0 fl0 0 68 4] [] 0 false 4 4 0 true false true in
  WF 0 3 b = true
  /\ exists b1 b2, merge_clusters b 0 2 = Ok b1 /\ propagate_flags b1 = Ok b2
       /\ cls (info b2) = [1; 1; 1; 0] /\ map gf (info b2) = [u; u; u; fl0].
Proof. cbv zeta. split; [reflexivity|]. eexists. eexists. repeat split; vm_compute; reflexivity. Qed.

(* non-vacuity: RTL, out-buffer [3 3], deleting the flagged glyph of cluster 2: both out glyphs take cluster 2 and the flag *)
Example delete_unsafe_example :
  let u := mkFl true true false in
  let b := mkB [mkG 3 fl0 0 65 1; mkG 3 fl0 0 66 2; mkG 2 u 0 67 3; mkG 0 fl0 0 68 4] [mkG 3 fl0 0 65 1; mkG 3 fl0 0 66 2] 2 true 4 4 0 true false true in
  exists b', delete_glyph b = Ok b' /\ cls (out b') = [2; 2] /\ map gf (out b') = [u; u].
Proof. cbv zeta. eexists. repeat split; vm_compute; reflexivity. Qed.

(* non-vacuity: window [0, 3) of an LTR buffer with clusters 0 1 1 3: the two glyphs of cluster 1 get flagged *)
Example unsafe_example :
  let b := mkB [mkG 0 fl0 0 65 1; mkG 1 fl0 0 66 2; mkG 1 fl0 0 67 3; mkG 3 fl0 0 68 4] [] 0 false 4 4 0 false false false in
  monotone (cls (info b)) = true
  /\ exists b', unsafe_to_break b 0 3 = Ok b' /\ map gf (info b') = [fl0; m_break; m_break; fl0] /\ has_gf b' = true.
Proof. cbv zeta. split; [reflexivity|]. eexists. repeat split; vm_compute; reflexivity. Qed.

(* non-vacuity: an RTL buffer with a two-glyph cluster, one glyph flagged *)
Example flags_example :
  let b := mkB [mkG 4 fl0 0 65 1; mkG 2 (mkFl true true false) 8 66 2; mkG 2 fl0 0 67 3; mkG 0 fl0 0 68 4] [] 0 false 4 4 0 true false true in
  monotone (cls (info b)) = true /\ has_gf b = true
  /\ exists b', propagate_flags b = Ok b' /\ map gf (info b') = [fl0; mkFl true true false; mkFl true true false; fl0].
Proof. cbv zeta. split; [reflexivity|]. split; [reflexivity|]. eexists. split; vm_compute; reflexivity. Qed.

(* non-vacuity: unsafeToConcat / safeToInsertTatweel with the producing buffer flags set, window [0, 3) of 0 1 1 3 *)
Example concat_tatweel_example :
  let b := mkB [mkG 0 fl0 0 65 1; mkG 1 fl0 0 66 2; mkG 1 fl0 0 67 3; mkG 3 fl0 0 68 4] [] 0 false 4 4 0 true true false in
  (exists b', unsafe_to_concat b 0 3 = Ok b' /\ map gf (info b') = [fl0; m_concat; m_concat; fl0] /\ has_gf b' = true)
  /\ (exists b', safe_to_insert_tatweel b 0 3 = Ok b' /\ map gf (info b') = [fl0; m_tatweel; m_tatweel; fl0]).
Proof. cbv zeta. split; eexists; repeat split; vm_compute; reflexivity. Qed.

(* non-vacuity: out-buffer 0 1, unread input 1 3 (cursor 2): window out[1:] ++ Info[2:4] = clusters 1 1 3, only 3 is flagged *)
Example from_outbuffer_example :
  let b := mkB [mkG 0 fl0 0 65 1; mkG 1 fl0 0 66 2; mkG 1 fl0 0 67 3; mkG 3 fl0 0 68 4] [mkG 0 fl0 0 65 1; mkG 1 fl0 0 66 2] 2 true 4 4 0 false false false in
  monotone (cls (bseq b)) = true
  /\ exists b', unsafe_to_break_from_outbuffer b 1 4 = Ok b' /\ map gf (out b') = [fl0; fl0] /\ map gf (info b') = [fl0; fl0; fl0; m_break].
Proof. cbv zeta. split; [reflexivity|]. eexists. repeat split; vm_compute; reflexivity. Qed.

(* ====================================================================================================================
   The property itself, for window-local rule engines (Model/Spec/Proofs LocalEngine.v) and for the modelled pieces of the
   real engine (Model/KernMachine.v, MarkBase.v, GsubLig.v), which are tied to the Go code by the driver c18engine.
   ==================================================================================================================== *)
From TV Require Import Model.LocalEngine Spec.LocalEngine Proofs.LocalEngine.
From TV Require Import Model.EngineItem Model.KernMachine Model.MarkBase Model.GsubLig.
From TV Require Import Proofs.EngineItem Proofs.KernMachine Proofs.MarkBase Proofs.GsubLig Proofs.EnginePieces.
From TV Require Proofs.ContextPass.

(* THE CUT THEOREM.  For ANY item type, ANY direction convention `side`, ANY invariant Inv and ANY engine (list of passes,
   any number) whose passes meet the contract step_ok (progress, invariant, clusters only merged, flags persist, and the
   two locality + flagging obligations so_fwd / so_bwd) and do not disturb what later passes read of the context
   (wf_engine): for every run pre ++ suf cut along a cluster value c, with any outer contexts L and R, if after all passes
   cluster c is present and carries no unsafe-to-break flag (fog = false), then shaping the whole run equals shaping pre
   with suf (its original text) as post-context, shaping suf with pre as pre-context, and concatenating — every field of
   every glyph (ids, positions, clusters, flags). *)
Theorem local_engine_cut_safe :
  forall (A C : Type) (icl : A -> Z) (iutb : A -> bool) (side : Z -> Z -> bool) (Inv : list A -> Prop) (ps : list (@pass A C)),
  wf_engine icl iutb side Inv ps ->
  forall L R pre suf c,
    Inv (pre ++ suf) -> Inv pre -> Inv suf -> cutv icl side c pre suf = true ->
    fog icl iutb c (erun ps L R (pre ++ suf)) = false ->
    erun ps L R (pre ++ suf) = erun ps L (suf ++ R) pre ++ erun ps (L ++ pre) R suf.
Proof. intros A C icl iutb side Inv ps W. exact (wf_engine_cut_safe icl iutb side Inv ps W). Qed.
Print Assumptions local_engine_cut_safe.

(* the legacy kerning (uniform pass) meets the contract on every buffer with non-decreasing clusters *)
Theorem kern_meets_contract : forall P, step_ok icl iutb sideL sorted (kern_pass P).
Proof. exact kern_step_ok. Qed.
Print Assumptions kern_meets_contract.

(* kern() as the code runs it (cursor jumping to the second glyph of a pair, ProduceUnsafeToConcat off) IS one run of
   that pass, on every buffer in which no glyph the kern iterator skips (mark, default ignorable) is the left glyph of a
   non-zero pair of the table (left_okb, executable; without it the statement is false: Findings/KernLeft.v, F61) *)
Theorem kern_code_is_the_pass : forall P L R l rec,
  left_okb P l = true -> fst (kern_f P false l rec) = prun (kern_pass P) L R l.
Proof. intros P L R l rec H. apply kern_f_is_pass. apply left_okb_lok. exact H. Qed.
Print Assumptions kern_code_is_the_pass.

(* hence the cut statement for the model of otApplyFallbackKern, forward buffers ... *)
Theorem fallback_kern_cut_safe : forall P pre suf c rec,
  sorted (pre ++ suf) -> cutv icl sideL c pre suf = true -> left_okb P (pre ++ suf) = true ->
  let W := fst (fallback_kern_f P false false (pre ++ suf) rec) in
  fog icl iutb c W = false ->
  W = fst (fallback_kern_f P false false pre rec) ++ fst (fallback_kern_f P false false suf rec).
Proof. exact Proofs.EnginePieces.fallback_kern_cut_safe. Qed.
Print Assumptions fallback_kern_cut_safe.

(* ... and backward buffers (right-to-left runs: the buffer hi ++ lo holds the later text first; kern reverses it) *)
Theorem fallback_kern_cut_safe_backward : forall P hi lo c rec,
  sorted (rev (hi ++ lo)) -> cutv icl sideL c (rev lo) (rev hi) = true -> left_okb P (rev (hi ++ lo)) = true ->
  let W := fst (fallback_kern_f P false true (hi ++ lo) rec) in
  fog icl iutb c W = false ->
  W = fst (fallback_kern_f P false true hi rec) ++ fst (fallback_kern_f P false true lo rec).
Proof. exact Proofs.EnginePieces.fallback_kern_cut_safe_backward. Qed.
Print Assumptions fallback_kern_cut_safe_backward.

(* GPOS mark-to-base attachment meets the contract on every buffer with non-decreasing clusters in which no glyph carries
   the `multiplied` bit (no MultipleSubst output) *)
Theorem markbase_meets_contract : forall P, step_ok icl iutb sideL inv_mb (mb_pass P).
Proof. exact mb_step_ok. Qed.
Print Assumptions markbase_meets_contract.

(* GSUB single substitution and ligature substitution (matchInput with the skipping iterator, ligateInput: cluster merge of
   the window, flags of the components taken over) meet the contract on the same buffers *)
Theorem gsub_meets_contract : forall P, step_ok icl iutb sideL inv_mb (gs_pass P).
Proof. exact Proofs.GsubLig.gs_step_ok. Qed.
Print Assumptions gsub_meets_contract.

(* every engine built from the modelled pieces — any number of GSUB single / ligature lookups, mark-to-base lookups and
   kern passes with any tables, in any order — is cut-safe *)
Theorem engine_pieces_cut_safe : forall (ps : list piece) L R pre suf c,
  inv_mb (pre ++ suf) -> inv_mb pre -> inv_mb suf -> cutv icl sideL c pre suf = true ->
  fog icl iutb c (erun (map piece_pass ps) L R (pre ++ suf)) = false ->
  erun (map piece_pass ps) L R (pre ++ suf)
  = erun (map piece_pass ps) L (suf ++ R) pre ++ erun (map piece_pass ps) (L ++ pre) R suf.
Proof. exact pieces_cut_safe. Qed.
Print Assumptions engine_pieces_cut_safe.

(* "the following glyph is not flagged after propagateFlags" gives the premise fog = false: W the engine's output, in a
   buffer on which a flag write was recorded *)
Theorem unflagged_after_propagate : forall W lv c pl pc fc ft, (lv =? 2) = false -> sorted W ->
  forall b', propagate_flags (mkB (map ig W) [] 0 false pl pc lv fc ft true) = Ok b' ->
  (exists h, In h (info b') /\ cl h = c /\ utb (gf h) = false) ->
  fog icl iutb c W = false.
Proof. exact Proofs.EnginePieces.unflagged_after_propagate. Qed.
Print Assumptions unflagged_after_propagate.

(* the window flagging of the piece models IS unsafeToBreak(len a, len a + len w) of Model/Buffer.v *)
Theorem flag_window_is_unsafe_to_break : forall lv a w b0 pl pc fc ft hg, (lv =? 2) = false -> sorted (a ++ w ++ b0) ->
  Forall (fun x => icl x <= max_int) (a ++ w ++ b0) ->
  exists b', unsafe_to_break (mkB (map ig (a ++ w ++ b0)) [] 0 false pl pc lv fc ft hg) (zlen a) (zlen a + zlen w) = Ok b'
    /\ info b' = map ig (a ++ flag_window w ++ b0).
Proof. exact Proofs.EnginePieces.flag_window_is_unsafe_to_break. Qed.
Print Assumptions flag_window_is_unsafe_to_break.

(* the context half of the contract is satisfiable by a rule that really reads the neighbouring piece: the forward half
   of a joining rule (a joiner followed by a joiner — in the run or, at its end, in the post-context — takes its joined
   form; design-level instance, not a model of applyArabicJoining) is a well-formed engine, hence cut-safe with the
   pieces given each other's text as context *)
Theorem context_reading_pass_cut_safe : forall L R pre suf c,
  sorted (pre ++ suf) -> sorted pre -> sorted suf -> cutv icl sideL c pre suf = true ->
  fog icl iutb c (erun [Proofs.ContextPass.join_pass] L R (pre ++ suf)) = false ->
  erun [Proofs.ContextPass.join_pass] L R (pre ++ suf)
  = erun [Proofs.ContextPass.join_pass] L (suf ++ R) pre ++ erun [Proofs.ContextPass.join_pass] (L ++ pre) R suf.
Proof. exact (wf_engine_cut_safe icl iutb sideL sorted [Proofs.ContextPass.join_pass] Proofs.ContextPass.join_engine_wf). Qed.
Print Assumptions context_reading_pass_cut_safe.

(* ---- non-vacuity ---- *)
Definition ex_it (c g u q : Z) : item := mkI (mkGX c fl0 1 0 g u q) 0 (mkP 500 0 0 0 0 0).
Definition ex_kp : kparams := mkKP [(1, 2, -101)] 1 true.

(* A V | B with the pair (A, V): the pair is kerned (the run changes), the cut before B is not flagged, and the theorem's
   conclusion holds with both pieces non-empty; the cut inside the pair IS flagged *)
Example kern_cut_example :
  let pre := [ex_it 0 1 7 2; ex_it 1 2 7 2] in
  let suf := [ex_it 2 3 7 2] in
  let W := erun [kern_pass ex_kp] [] [] (pre ++ suf) in
  wf_engine icl iutb sideL sorted [kern_pass ex_kp]
  /\ W <> pre ++ suf /\ fog icl iutb 2 W = false /\ fog icl iutb 1 W = true
  /\ W = erun [kern_pass ex_kp] [] (suf ++ []) pre ++ erun [kern_pass ex_kp] ([] ++ pre) [] suf
  /\ map (fun x => xa (ip x)) W = [449; 450; 500].
Proof.
  cbv zeta. split; [apply wf_engine_unit; constructor; [apply kern_step_ok|constructor]|].
  repeat split; try (vm_compute; reflexivity). vm_compute. discriminate.
Qed.

(* the pair seen across a ZWNJ that starts its own cluster: window [A, ZWNJ, V] flagged, both cuts unsafe (seed m1) *)
Example kern_skip_example :
  let l := [ex_it 0 1 7 2; ex_it 1 30 545 0; ex_it 2 2 7 2] in
  left_okb ex_kp l = true
  /\ map (fun x => utb (gf (ig x))) (fst (fallback_kern_f ex_kp false false l false)) = [false; true; true].
Proof. cbv zeta. split; vm_compute; reflexivity. Qed.

(* mark attached across a ZWNJ: window [base, ZWNJ, mark] flagged (seed m2) *)
Definition ex_mb : mbparams := mkMB 0 1 [(20, 0, 10, 20)] [(1, [(true, 300, 600)])].
Example markbase_example :
  let l := [ex_it 0 1 7 2; ex_it 1 30 545 0; ex_it 2 20 140 8] in
  inv_mb l
  /\ map (fun x => (utb (gf (ig x)), xo (ip x), yo (ip x), ach (ip x))) (fst (mb_run false [ex_mb] l false))
     = [(false, 0, 0, 0); (true, 0, 0, 0); (true, 290, 580, -2)].
Proof.
  cbv zeta. split; [|vm_compute; reflexivity]. split.
  - cbn. repeat split; intros y H; cbn in H; intuition lia.
  - repeat constructor.
Qed.

(* an engine of four passes over a text with an unflagged cut: a ligature lookup (3 + 3 -> 1, across a skipped ZWJ),
   kerning, attachment, kerning again *)
Definition ex_gs : gsparams := mkGS 0 1 true [] [([3; 3], 1)].
Example gsub_example :
  let l := [ex_it 0 3 7 2; ex_it 1 31 289 0; ex_it 2 3 7 2; ex_it 3 2 7 2] in
  map (fun x => (icl x, igid x)) (gs_run [ex_gs] l) = [(0, 1); (0, 31); (3, 2)].
Proof. vm_compute. reflexivity. Qed.

Example pieces_example :
  let ps := [PGsub ex_gs; PKern ex_kp; PMark ex_mb; PKern ex_kp] in
  let pre := [ex_it 0 3 7 2; ex_it 0 31 289 0; ex_it 0 3 7 2; ex_it 0 20 140 8; ex_it 1 2 7 2] in
  let suf := [ex_it 2 1 7 2; ex_it 3 3 7 2] in
  let W := erun (map piece_pass ps) [] [] (pre ++ suf) in
  W <> pre ++ suf /\ fog icl iutb 2 W = false
  /\ W = erun (map piece_pass ps) [] (suf ++ []) pre ++ erun (map piece_pass ps) ([] ++ pre) [] suf.
Proof. cbv zeta. repeat split; try (vm_compute; reflexivity). vm_compute. discriminate. Qed.

(* propagateFlags on the output of kern_cut_example: the glyph of cluster 2 is unflagged *)
Example propagate_example :
  let W := erun [kern_pass ex_kp] [] [] [ex_it 0 1 7 2; ex_it 1 2 7 2; ex_it 2 3 7 2] in
  exists b', propagate_flags (mkB (map ig W) [] 0 false 3 3 0 false false true) = Ok b'
    /\ map (fun h => (cl h, utb (gf h))) (info b') = [(0, false); (1, true); (2, false)].
Proof. cbv zeta. eexists. split; vm_compute; reflexivity. Qed.

Example flag_window_example :
  let a := [ex_it 0 1 7 2] in let w := [ex_it 1 1 7 2; ex_it 1 20 140 8; ex_it 2 2 7 2] in let b0 := [ex_it 3 3 7 2] in
  exists b', unsafe_to_break (mkB (map ig (a ++ w ++ b0)) [] 0 false 5 5 0 false false false) 1 4 = Ok b'
    /\ map (fun g => utb (gf g)) (info b') = [false; false; false; true; false]
    /\ info b' = map ig (a ++ flag_window w ++ b0).
Proof. cbv zeta. eexists. repeat split; vm_compute; reflexivity. Qed.

(* the context is really read: the same one-glyph run, with and without a joiner as post-context; and a run whose last
   glyph joins the outer post-context while the cut inside it is safe *)
Example context_example :
  let J := Proofs.ContextPass.join_pass in
  map igid (erun [J] [] [ex_it 9 5 7 2] [ex_it 0 1 7 2]) = [101]
  /\ map igid (erun [J] [] [] [ex_it 0 1 7 2]) = [1]
  /\ let pre := [ex_it 0 1 7 2; ex_it 1 2 7 2] in let suf := [ex_it 2 4 7 2; ex_it 3 3 7 2] in let R := [ex_it 9 5 7 2] in
     fog icl iutb 2 (erun [J] [] R (pre ++ suf)) = false
     /\ map igid (erun [J] [] R (pre ++ suf)) = [1; 2; 4; 103]
     /\ erun [J] [] R (pre ++ suf) = erun [J] [] (suf ++ R) pre ++ erun [J] ([] ++ pre) R suf.
Proof. cbv zeta. repeat split; vm_compute; reflexivity. Qed.
