(* C18 — Glyphs not flagged unsafe-to-break are safe cut points (partial: flag algebra of the buffer).
   Property theorems only.  The statement about re-shaping the pieces depends on which windows GSUB/GPOS/kern inspect
   and is explored by the cut-and-reshape sweep (go/cmd/c18sweep), not proved. *)
From TV Require Import Model.Buffer Spec.Buffer Proofs.Buffer Proofs.BufferOps Proofs.BufferAll.

(* propagateFlags on ANY buffer whose cluster values are monotone (levels other than Characters): it returns normally
   (no OutOfFuel), keeps clusters, cursor and out-buffer, and — when a flag was recorded (bsfHasGlyphFlags) — afterwards
   glyphs of one cluster carry the same unsafe-to-break / unsafe-to-concat / safe-to-insert-tatweel flags. *)
Theorem flags_uniform_per_cluster : forall b,
  negb (level b =? 2) = true -> monotone (cls (info b)) = true ->
  exists b', propagate_flags b = Ok b'
    /\ cls (info b') = cls (info b) /\ out b' = out b /\ idx b' = idx b /\ have_out b' = have_out b
    /\ (has_gf b = true -> uniformP (info b') /\ flags_uniform (info b') = true)
    /\ (has_gf b = false -> b' = b).
Proof. exact propagate_flags_uniform. Qed.
Print Assumptions flags_uniform_per_cluster.

(* every flag write through setGlyphFlags (unsafeToBreak*, unsafeToConcat*, safeToInsertTatweel) records
   bsfHasGlyphFlags, so propagateFlags is never skipped after a write *)
Theorem flag_writes_are_recorded : forall b m s e interior from_out b',
  set_glyph_flags b m s e interior from_out = Ok b' -> b' = b \/ has_gf b' = true.
Proof. exact set_glyph_flags_records. Qed.
Print Assumptions flag_writes_are_recorded.

(* unsafeToBreak(s, e) on ANY buffer whose Info clusters are monotone (either direction; clusters are Go ints): it returns
   normally and flags exactly the glyphs of [s, min(e, len)) whose cluster differs from the minimal cluster of that
   window (marks_interior); every other glyph, the out-buffer and the cursor are unchanged, and the write is recorded.
   Hence every cluster boundary strictly inside the inspected window is flagged on its later side. *)
Theorem unsafe_marks_interior : forall b s e,
  (level b =? 2) = false -> 0 <= s ->
  monotone (cls (info b)) = true -> Forall (fun g => cl g <= max_int) (info b) ->
  exists b', unsafe_to_break b s e = Ok b'
    /\ info b' = marks_interior m_break s e (info b)
    /\ out b' = out b /\ idx b' = idx b /\ have_out b' = have_out b /\ level b' = level b
    /\ (b' = b \/ has_gf b' = true).
Proof. exact unsafe_marks_interior_lemma. Qed.
Print Assumptions unsafe_marks_interior.

(* the same for the two other interior setters: unsafeToConcat (a no-op unless ProduceUnsafeToConcat is set) and
   safeToInsertTatweel (which degrades to unsafeToBreak unless ProduceSafeToInsertTatweel is set) *)
Theorem unsafe_concat_marks_interior : forall b s e,
  (level b =? 2) = false -> 0 <= s ->
  monotone (cls (info b)) = true -> Forall (fun g => cl g <= max_int) (info b) ->
  exists b', unsafe_to_concat b s e = Ok b'
    /\ info b' = (if fl_concat b then marks_interior m_concat s e (info b) else info b)
    /\ out b' = out b /\ idx b' = idx b /\ have_out b' = have_out b /\ level b' = level b
    /\ (b' = b \/ has_gf b' = true).
Proof. exact unsafe_concat_marks_interior_lemma. Qed.
Print Assumptions unsafe_concat_marks_interior.

Theorem tatweel_marks_interior : forall b s e,
  (level b =? 2) = false -> 0 <= s ->
  monotone (cls (info b)) = true -> Forall (fun g => cl g <= max_int) (info b) ->
  exists b', safe_to_insert_tatweel b s e = Ok b'
    /\ info b' = marks_interior (if fl_tatweel b then m_tatweel else m_break) s e (info b)
    /\ out b' = out b /\ idx b' = idx b /\ have_out b' = have_out b /\ level b' = level b
    /\ (b' = b \/ has_gf b' = true).
Proof. exact tatweel_marks_interior_lemma. Qed.
Print Assumptions tatweel_marks_interior.

(* unsafeToBreakFromOutbuffer(s, e) with output in progress (what GSUB calls while it rewrites the buffer), on ANY buffer
   whose glyph sequence  out ++ unread input  is monotone, under upstream's assertions s <= len(out), idx <= e: the
   inspected window is out[s:] followed by Info[idx:min(e, len)]; it returns normally and flags exactly the glyphs of that
   window outside the window's minimal cluster c (cond_flag c), nothing else, and records the write *)
Theorem unsafe_from_outbuffer_marks_interior : forall b s e,
  (level b =? 2) = false -> have_out b = true ->
  0 <= s -> s <= zlen (out b) -> 0 <= idx b -> idx b <= zlen (info b) -> idx b <= e ->
  monotone (cls (bseq b)) = true -> Forall (fun g => cl g <= max_int) (bseq b) ->
  let e' := Z.min e (zlen (info b)) in
  let c := lmin (cls (slice s (zlen (out b)) (out b) ++ slice (idx b) e' (info b))) in
  exists b', unsafe_to_break_from_outbuffer b s e = Ok b'
    /\ out b' = map_range (cond_flag c m_break) s (zlen (out b)) (out b)
    /\ info b' = map_range (cond_flag c m_break) (idx b) e' (info b)
    /\ idx b' = idx b /\ have_out b' = true /\ level b' = level b /\ has_gf b' = true.
Proof. exact unsafe_break_out_lemma. Qed.
Print Assumptions unsafe_from_outbuffer_marks_interior.

(* setCluster(c, mask) REPLACES the three glyph flags of a glyph whose cluster changes (mask = 0 from mergeClusters, the
   deleted glyph's Mask from deleteGlyph).  What that means for unsafe-to-break, read off the code and proved:

   mergeClusters(s, e) (any buffer, clusters monotone or not): glyph by glyph, in Info and in the out-buffer, a glyph is
   either untouched or moved to c = the minimum cluster of [s, e) with its glyph flags cleared (mrel c fl0); in particular
   no glyph that already carries c loses a flag; bsfHasGlyphFlags is kept. *)
Theorem merge_flag_transfer : forall b s e,
  (level b =? 2) = false -> 0 <= idx b -> 0 <= s -> s + 2 <= e -> e <= zlen (info b) ->
  exists b', merge_clusters b s e = Ok b'
    /\ Forall2 (mrel (lmin (cls (slice s e (info b)))) fl0) (info b) (info b')
    /\ Forall2 (mrel (lmin (cls (slice s e (info b)))) fl0) (out b) (out b')
    /\ has_gf b' = has_gf b.
Proof. exact BufferOps.merge_flag_transfer. Qed.
Print Assumptions merge_flag_transfer.

(* merge_preserves_unsafe, in the form that is TRUE: on ANY well-formed buffer without output in progress on which a
   flag was recorded, mergeClusters(s, e) followed by propagateFlags returns normally, and the cluster c that survives
   the merge (the minimum of the range = the start of the merged cluster in the text) keeps an unsafe-to-break flag that
   any of its glyphs carried: afterwards EVERY glyph of cluster c is flagged.  The flags of the absorbed clusters are
   dropped on purpose — their starts are no longer cluster boundaries — so the stronger reading "no flag of any merged
   glyph is lost" is false (Findings/BufferFlags.v merge_keeps_every_unsafe_refuted), as is the analogue for deleteGlyph
   when the deleted glyph's cluster survives in a neighbour (delete_keeps_cluster_unsafe_refuted). *)
Theorem merge_preserves_unsafe : forall lo hi b s e,
  (level b =? 2) = false -> WF lo hi b = true -> have_out b = false -> has_gf b = true ->
  0 <= s -> s + 2 <= e -> e <= zlen (info b) ->
  exists b1 b2, merge_clusters b s e = Ok b1 /\ propagate_flags b1 = Ok b2
    /\ Forall2 (mrel (lmin (cls (slice s e (info b)))) fl0) (info b) (info b1)
    /\ cls (info b2) = cls (info b1)
    /\ (forall g, In g (info b) -> cl g = lmin (cls (slice s e (info b))) -> utb (gf g) = true ->
        forall h, In h (info b2) -> cl h = cl g -> utb (gf h) = true).
Proof. exact merge_preserves_unsafe_lemma. Qed.
Print Assumptions merge_preserves_unsafe.

(* propagateFlags itself never drops an unsafe-to-break flag: the whole cluster of a flagged glyph ends up flagged *)
Theorem propagate_keeps_unsafe : forall b b',
  (level b =? 2) = false -> monotone (cls (info b)) = true -> has_gf b = true -> propagate_flags b = Ok b' ->
  forall g, In g (info b) -> utb (gf g) = true -> forall h, In h (info b') -> cl h = cl g -> utb (gf h) = true.
Proof. exact BufferOps.propagate_keeps_unsafe. Qed.
Print Assumptions propagate_keeps_unsafe.

(* deleteGlyph (any buffer with the cursor on a glyph): glyph by glyph, an out-buffer glyph is either untouched or takes
   over the cluster of the deleted glyph TOGETHER WITH the deleted glyph's flags (backward merge); Info glyphs are
   untouched or merged forward with cleared flags (only when the out-buffer is empty, i.e. at the start of the text) *)
Theorem delete_flag_transfer : forall b,
  (level b =? 2) = false -> 0 <= idx b -> idx b < zlen (info b) ->
  exists b' c', delete_glyph b = Ok b'
    /\ Forall2 (mrel (cl (nth (Z.to_nat (idx b)) (info b) g0)) (gf (nth (Z.to_nat (idx b)) (info b) g0))) (out b) (out b')
    /\ Forall2 (mrel c' fl0) (info b) (info b')
    /\ has_gf b' = has_gf b /\ idx b' = idx b + 1.
Proof. exact BufferOps.delete_flag_transfer. Qed.
Print Assumptions delete_flag_transfer.

(* non-vacuity: RTL buffer 2 1 1 0 with cluster 1 flagged on one glyph; merging [0, 2) gives 1 1 1 0 and after
   propagateFlags all three glyphs of cluster 1 are flagged (the flag of the absorbed cluster 2 would have been dropped) *)
Example merge_unsafe_example :
  let u := mkFl true true false in
  let b := mkB [mkG 2 fl0 0 65 1; mkG 1 u 0 66 2; mkG 1 fl0 0 67 3; mkG 0 fl0 0 68 4] [] 0 false 4 4 0 true false true in
  WF 0 3 b = true
  /\ exists b1 b2, merge_clusters b 0 2 = Ok b1 /\ propagate_flags b1 = Ok b2
       /\ cls (info b2) = [1; 1; 1; 0] /\ map gf (info b2) = [u; u; u; fl0].
Proof. cbv zeta. split; [reflexivity|]. eexists. eexists. repeat split; vm_compute; reflexivity. Qed.

(* non-vacuity: RTL, out-buffer [3 3], deleting the flagged glyph of cluster 2: both out glyphs take cluster 2 and the flag *)
Example delete_unsafe_example :
  let u := mkFl true true false in
  let b := mkB [mkG 3 fl0 0 65 1; mkG 3 fl0 0 66 2; mkG 2 u 0 67 3; mkG 0 fl0 0 68 4] [mkG 3 fl0 0 65 1; mkG 3 fl0 0 66 2] 2 true 4 4 0 true false true in
  exists b', delete_glyph b = Ok b' /\ cls (out b') = [2; 2] /\ map gf (out b') = [u; u].
Proof. cbv zeta. eexists. repeat split; vm_compute; reflexivity. Qed.

(* non-vacuity: window [0, 3) of an LTR buffer with clusters 0 1 1 3: the two glyphs of cluster 1 get flagged *)
Example unsafe_example :
  let b := mkB [mkG 0 fl0 0 65 1; mkG 1 fl0 0 66 2; mkG 1 fl0 0 67 3; mkG 3 fl0 0 68 4] [] 0 false 4 4 0 false false false in
  monotone (cls (info b)) = true
  /\ exists b', unsafe_to_break b 0 3 = Ok b' /\ map gf (info b') = [fl0; m_break; m_break; fl0] /\ has_gf b' = true.
Proof. cbv zeta. split; [reflexivity|]. eexists. repeat split; vm_compute; reflexivity. Qed.

(* non-vacuity: an RTL buffer with a two-glyph cluster, one glyph flagged *)
Example flags_example :
  let b := mkB [mkG 4 fl0 0 65 1; mkG 2 (mkFl true true false) 8 66 2; mkG 2 fl0 0 67 3; mkG 0 fl0 0 68 4] [] 0 false 4 4 0 true false true in
  monotone (cls (info b)) = true /\ has_gf b = true
  /\ exists b', propagate_flags b = Ok b' /\ map gf (info b') = [fl0; mkFl true true false; mkFl true true false; fl0].
Proof. cbv zeta. split; [reflexivity|]. split; [reflexivity|]. eexists. split; vm_compute; reflexivity. Qed.

(* non-vacuity: unsafeToConcat / safeToInsertTatweel with the producing buffer flags set, window [0, 3) of 0 1 1 3 *)
Example concat_tatweel_example :
  let b := mkB [mkG 0 fl0 0 65 1; mkG 1 fl0 0 66 2; mkG 1 fl0 0 67 3; mkG 3 fl0 0 68 4] [] 0 false 4 4 0 true true false in
  (exists b', unsafe_to_concat b 0 3 = Ok b' /\ map gf (info b') = [fl0; m_concat; m_concat; fl0] /\ has_gf b' = true)
  /\ (exists b', safe_to_insert_tatweel b 0 3 = Ok b' /\ map gf (info b') = [fl0; m_tatweel; m_tatweel; fl0]).
Proof. cbv zeta. split; eexists; repeat split; vm_compute; reflexivity. Qed.

(* non-vacuity: out-buffer 0 1, unread input 1 3 (cursor 2): window out[1:] ++ Info[2:4] = clusters 1 1 3, only 3 is flagged *)
Example from_outbuffer_example :
  let b := mkB [mkG 0 fl0 0 65 1; mkG 1 fl0 0 66 2; mkG 1 fl0 0 67 3; mkG 3 fl0 0 68 4] [mkG 0 fl0 0 65 1; mkG 1 fl0 0 66 2] 2 true 4 4 0 false false false in
  monotone (cls (bseq b)) = true
  /\ exists b', unsafe_to_break_from_outbuffer b 1 4 = Ok b' /\ map gf (out b') = [fl0; fl0] /\ map gf (info b') = [fl0; fl0; fl0; m_break].
Proof. cbv zeta. split; [reflexivity|]. eexists. repeat split; vm_compute; reflexivity. Qed.

(* ====================================================================================================================
   The property itself, for window-local rule engines (Model/Spec/Proofs LocalEngine.v) and for the modelled pieces of the
   real engine (Model/KernMachine.v, MarkBase.v, GsubLig.v), which are tied to the Go code by the driver c18engine.
   ==================================================================================================================== *)
From TV Require Import Model.LocalEngine Spec.LocalEngine Proofs.LocalEngine.
From TV Require Import Model.EngineItem Model.KernMachine Model.MarkBase Model.GsubLig.
From TV Require Import Proofs.EngineItem Proofs.KernMachine Proofs.MarkBase Proofs.GsubLig Proofs.EnginePieces.
From TV Require Import Model.ArabicJoin Proofs.ArabicJoin.
From TV Require Import Model.PairPos Model.MarkMark Proofs.ForwardRule Proofs.BackwardRule Proofs.PairPos Proofs.MarkMark Proofs.EnginePieces2.
From TV Require Import Proofs.Direction Proofs.MarkBaseDir Proofs.GsubSingleDir Proofs.GsubLigBackward Proofs.EnginePiecesBackward.

(* THE CUT THEOREM.  For ANY item type, ANY direction convention `side`, ANY invariant Inv and ANY engine (list of passes,
   any number) whose passes meet the contract step_ok (progress, invariant, clusters only merged, flags persist, and the
   two locality + flagging obligations so_fwd / so_bwd) and do not disturb what later passes read of the context
   (wf_engine): for every run pre ++ suf cut along a cluster value c, with any outer contexts L and R, if after all passes
   cluster c is present and carries no unsafe-to-break flag (fog = false), then shaping the whole run equals shaping pre
   with suf (its original text) as post-context, shaping suf with pre as pre-context, and concatenating — every field of
   every glyph (ids, positions, clusters, flags). *)
Theorem local_engine_cut_safe :
  forall (A C : Type) (icl : A -> Z) (iutb : A -> bool) (side : Z -> Z -> bool) (Inv : list A -> Prop) (ps : list (@pass A C)),
  wf_engine icl iutb side Inv ps ->
  forall L R pre suf c,
    Inv (pre ++ suf) -> Inv pre -> Inv suf -> cutv icl side c pre suf = true ->
    fog icl iutb c (erun ps L R (pre ++ suf)) = false ->
    erun ps L R (pre ++ suf) = erun ps L (suf ++ R) pre ++ erun ps (L ++ pre) R suf.
Proof. intros A C icl iutb side Inv ps W. exact (wf_engine_cut_safe icl iutb side Inv ps W). Qed.
Print Assumptions local_engine_cut_safe.

(* the legacy kerning (uniform pass) meets the contract on every buffer with non-decreasing clusters *)
Theorem kern_meets_contract : forall P, step_ok icl iutb sideL sorted (kern_pass P).
Proof. exact kern_step_ok. Qed.
Print Assumptions kern_meets_contract.

(* kern() as the code runs it (cursor jumping to the second glyph of a pair, ProduceUnsafeToConcat off) IS one run of
   that pass, on every buffer in which no glyph the kern iterator skips (mark, default ignorable) is the left glyph of a
   non-zero pair of the table (left_okb, executable; without it the statement is false: Findings/KernLeft.v, F61) *)
Theorem kern_code_is_the_pass : forall P L R l rec,
  left_okb P l = true -> fst (kern_f P false l rec) = prun (kern_pass P) L R l.
Proof. intros P L R l rec H. apply kern_f_is_pass. apply left_okb_lok. exact H. Qed.
Print Assumptions kern_code_is_the_pass.

(* hence the cut statement for the model of otApplyFallbackKern, forward buffers ... *)
Theorem fallback_kern_cut_safe : forall P pre suf c rec,
  sorted (pre ++ suf) -> cutv icl sideL c pre suf = true -> left_okb P (pre ++ suf) = true ->
  let W := fst (fallback_kern_f P false false (pre ++ suf) rec) in
  fog icl iutb c W = false ->
  W = fst (fallback_kern_f P false false pre rec) ++ fst (fallback_kern_f P false false suf rec).
Proof. exact Proofs.EnginePieces.fallback_kern_cut_safe. Qed.
Print Assumptions fallback_kern_cut_safe.

(* ... and backward buffers (right-to-left runs: the buffer hi ++ lo holds the later text first; kern reverses it) *)
Theorem fallback_kern_cut_safe_backward : forall P hi lo c rec,
  sorted (rev (hi ++ lo)) -> cutv icl sideL c (rev lo) (rev hi) = true -> left_okb P (rev (hi ++ lo)) = true ->
  let W := fst (fallback_kern_f P false true (hi ++ lo) rec) in
  fog icl iutb c W = false ->
  W = fst (fallback_kern_f P false true hi rec) ++ fst (fallback_kern_f P false true lo rec).
Proof. exact Proofs.EnginePieces.fallback_kern_cut_safe_backward. Qed.
Print Assumptions fallback_kern_cut_safe_backward.

(* GPOS mark-to-base attachment meets the contract on every buffer with non-decreasing clusters in which no glyph carries
   the `multiplied` bit (no MultipleSubst output) *)
Theorem markbase_meets_contract : forall P, step_ok icl iutb sideL inv_mb (mb_pass P).
Proof. exact mb_step_ok. Qed.
Print Assumptions markbase_meets_contract.

(* GSUB single substitution and ligature substitution (matchInput with the skipping iterator, ligateInput: cluster merge of
   the window, flags of the components taken over) meet the contract on the same buffers *)
Theorem gsub_meets_contract : forall P, step_ok icl iutb sideL inv_mb (gs_pass P).
Proof. exact Proofs.GsubLig.gs_step_ok. Qed.
Print Assumptions gsub_meets_contract.

(* every engine built from the modelled pieces — any number of GSUB single / ligature lookups, mark-to-base lookups and
   kern passes with any tables, in any order — is cut-safe *)
Theorem engine_pieces_cut_safe : forall (ps : list piece) L R pre suf c,
  inv_mb (pre ++ suf) -> inv_mb pre -> inv_mb suf -> cutv icl sideL c pre suf = true ->
  fog icl iutb c (erun (map piece_pass ps) L R (pre ++ suf)) = false ->
  erun (map piece_pass ps) L R (pre ++ suf)
  = erun (map piece_pass ps) L (suf ++ R) pre ++ erun (map piece_pass ps) (L ++ pre) R suf.
Proof. exact pieces_cut_safe. Qed.
Print Assumptions engine_pieces_cut_safe.

(* "the following glyph is not flagged after propagateFlags" gives the premise fog = false: W the engine's output, in a
   buffer on which a flag write was recorded *)
Theorem unflagged_after_propagate : forall W lv c pl pc fc ft, (lv =? 2) = false -> sorted W ->
  forall b', propagate_flags (mkB (map ig W) [] 0 false pl pc lv fc ft true) = Ok b' ->
  (exists h, In h (info b') /\ cl h = c /\ utb (gf h) = false) ->
  fog icl iutb c W = false.
Proof. exact Proofs.EnginePieces.unflagged_after_propagate. Qed.
Print Assumptions unflagged_after_propagate.

(* the window flagging of the piece models IS unsafeToBreak(len a, len a + len w) of Model/Buffer.v *)
Theorem flag_window_is_unsafe_to_break : forall lv a w b0 pl pc fc ft hg, (lv =? 2) = false -> sorted (a ++ w ++ b0) ->
  Forall (fun x => icl x <= max_int) (a ++ w ++ b0) ->
  exists b', unsafe_to_break (mkB (map ig (a ++ w ++ b0)) [] 0 false pl pc lv fc ft hg) (zlen a) (zlen a + zlen w) = Ok b'
    /\ info b' = map ig (a ++ flag_window w ++ b0).
Proof. exact Proofs.EnginePieces.flag_window_is_unsafe_to_break. Qed.
Print Assumptions flag_window_is_unsafe_to_break.

(* ---- Arabic joining (Model/ArabicJoin.v: applyArabicJoining) — the pass that READS THE CONTEXT; replaces the design-level
   joining rule of Proofs/ContextPass.v ---- *)
(* applyArabicJoining (ot_arabic.go), modelled as the look-ahead pass arab_pass of Model/ArabicJoin.v (tied to the Go
   function by the correspondence check of driver c18arab; ProduceSafeToInsertTatweel off, so that safeToInsertTatweel is
   unsafeToBreak), meets the contract of Spec/LocalEngine.v on every buffer in logical order (non-decreasing clusters),
   for every pre- and post-context: it reads the text on its left only through the joining type of the last letter
   (non-transparent code point) and the text on its right through the joining type of the first letter, and its steps
   do not change what it sees of a neighbouring piece *)
Theorem arabic_joining_meets_contract :
  step_ok icl iutb sideL sorted arab_pass /\ stable sorted arab_pass arab_pass.
Proof. exact Proofs.ArabicJoin.arab_meets_contract. Qed.
Print Assumptions arabic_joining_meets_contract.

(* why a piece may start from state 0 + the last letter of its pre-context although the state machine has run over all
   the text before: for EVERY text L ++ d on the left and every joining type ty of the next letter, the state reached by
   the whole run and the state the piece computes give the same currAction and nextState (they may differ in prevAction,
   the form of a letter on the other side of the cut, whose window was flagged when the form was given) *)
Theorem arabic_state_at_cut : forall L d ty,
  e_curr (a_entry (st_at L d) ty) = e_curr (a_entry (st_init (L ++ d)) ty)
  /\ e_next (a_entry (st_at L d) ty) = e_next (a_entry (st_init (L ++ d)) ty).
Proof. exact Proofs.ArabicJoin.arab_state_at_cut. Qed.
Print Assumptions arabic_state_at_cut.

(* THE CUT STATEMENT for Arabic joining: a run pre ++ suf in logical order with contexts L, R, cut along cluster value c.
   If after the pass cluster c is neither flagged unsafe-to-break nor gone, joining the whole run equals joining the two
   pieces, each with the other piece's text in its context, and concatenating (shaping actions, clusters, all flags) *)
Theorem arabic_joining_cut_safe : forall L R pre suf c,
  sorted (pre ++ suf) -> sorted pre -> sorted suf -> cutv icl sideL c pre suf = true ->
  fog icl iutb c (erun [arab_pass] L R (pre ++ suf)) = false ->
  erun [arab_pass] L R (pre ++ suf)
  = erun [arab_pass] L (suf ++ R) pre ++ erun [arab_pass] (L ++ pre) R suf.
Proof. exact Proofs.ArabicJoin.arab_cut_safe. Qed.
Print Assumptions arabic_joining_cut_safe.

(* THE LOOP AS WRITTEN IS THE PASS: with ProduceUnsafeToConcat / ProduceSafeToInsertTatweel off, the Info computed by the
   model of the Go loop as written (arab_code: cursor i, prev, state; the previous letter gets its form, and the window
   [prev, i+1) is flagged, when the next letter is reached; post-context loop at the end) equals the output of the
   look-ahead pass, for every run, every context and every cluster assignment *)
Theorem arabic_joining_code_is_the_pass : forall L R l rec,
  fst (arab_code false false L R l rec) = prun arab_pass L R l.
Proof. exact Proofs.ArabicJoin.arab_code_is_the_pass. Qed.
Print Assumptions arabic_joining_code_is_the_pass.

(* hence the cut statement holds of the loop as written *)
Theorem arabic_joining_code_cut_safe : forall L R pre suf c rec,
  sorted (pre ++ suf) -> sorted pre -> sorted suf -> cutv icl sideL c pre suf = true ->
  fog icl iutb c (fst (arab_code false false L R (pre ++ suf) rec)) = false ->
  fst (arab_code false false L R (pre ++ suf) rec)
  = fst (arab_code false false L (suf ++ R) pre rec) ++ fst (arab_code false false (L ++ pre) R suf rec).
Proof. exact Proofs.ArabicJoin.arab_code_cut_safe. Qed.
Print Assumptions arabic_joining_code_cut_safe.

(* ---- GPOS pair positioning (Model/PairPos.v: applyGPOS case PairPos, applyGPOSPair1 / applyGPOSPair2,
   applyGPOSValueRecord) ---- *)

(* every FORWARD WINDOW RULE meets the contract: a rule that at the glyph x under the cursor inspects x :: firstn m rest,
   rewrites it into W (same clusters, flags only added, glyphProps kept), flags W as unsafeToBreak does and moves the cursor
   1 <= n <= m + 1 glyphs, provided its decision is local (a window that fits into the piece before a cut is found on the
   piece alone with the same result; a rule that does not fire on the whole text does not fire on the piece) *)
Theorem forward_window_rule_meets_contract : forall plan : item -> list item -> option (nat * list item * nat),
  (forall x rest m W n, plan x rest = Some (m, W, n) ->
     (1 <= m <= length rest)%nat /\ Forall2 keeps (x :: firstn m rest) W /\ (1 <= n <= S m)%nat) ->
  (forall x r1 t2 m W n, plan x (r1 ++ t2) = Some (m, W, n) -> (m <= length r1)%nat -> plan x r1 = Some (m, W, n)) ->
  (forall x r1 t2, plan x (r1 ++ t2) = None -> plan x r1 = None) ->
  step_ok icl iutb sideL sorted (fr_pass plan).
Proof. exact fr_step_ok. Qed.
Print Assumptions forward_window_rule_meets_contract.

(* pair positioning (formats 1 and 2, value records with placements, advances and an X-advance device table, any lookup
   flag / mask, the window [i, j+1) flagged when a record had an effect — a device delta alone counts — and [i, j+2)
   when there is a second value record) meets the contract on every buffer with non-decreasing clusters *)
Theorem pairpos_meets_contract : forall P, step_ok icl iutb sideL sorted (pp_pass P).
Proof. exact pp_step_ok. Qed.
Print Assumptions pairpos_meets_contract.

(* one PairPos lookup as the code runs it (cursor jumping to the second glyph of a pair without second value record) IS
   one run of that pass, on every buffer in which no glyph the pair iterator skips passes the first-glyph tests of the
   lookup (pp_left_okb, executable; without it the statement is false: Findings/PairLeft.v, C18-F97) *)
Theorem pairpos_code_is_the_pass : forall P L R l rec, (pp_mask P =? 0) = false ->
  pp_left_okb P l = true -> fst (pp_lookup (l, rec) P) = prun (pp_pass P) L R l.
Proof. intros P L R l rec M H. apply pp_lookup_is_pass; [exact M|]. apply pp_left_okb_plok. exact H. Qed.
Print Assumptions pairpos_code_is_the_pass.

(* hence the cut statement for the model of the lookup itself *)
Theorem pairpos_lookup_cut_safe : forall P pre suf c rec, (pp_mask P =? 0) = false ->
  sorted (pre ++ suf) -> cutv icl sideL c pre suf = true -> pp_left_okb P (pre ++ suf) = true ->
  let W := fst (pp_lookup (pre ++ suf, rec) P) in
  fog icl iutb c W = false ->
  W = fst (pp_lookup (pre, rec) P) ++ fst (pp_lookup (suf, rec) P).
Proof. exact Proofs.EnginePieces2.pairpos_lookup_cut_safe. Qed.
Print Assumptions pairpos_lookup_cut_safe.

(* ---- GPOS mark-to-mark attachment (Model/MarkMark.v: applyGPOSMarkToMark, applyGPOSMarks) ---- *)

(* every BACKWARD WINDOW RULE meets the contract, in either buffer direction: a rule that at the glyph x under the cursor
   picks a glyph already passed (index b), rewrites x (same cluster, flags only added, glyphProps kept), flags the window
   [b, cursor] and advances by one, provided its decision is local (what it finds on the piece that starts at a cut it
   finds at the same place on the whole text; what it does not find there it does not find on the whole text either, or
   finds before the cut) *)
Theorem backward_window_rule_meets_contract : forall plan : list item -> item -> option (nat * item),
  (forall d x b x', plan d x = Some (b, x') -> (b < length d)%nat /\ keeps x x') ->
  (forall d1 d2 x,
     match plan d2 x with
     | Some (b, x') => plan (d1 ++ d2) x = Some ((length d1 + b)%nat, x')
     | None => plan (d1 ++ d2) x = None \/ exists b x', plan (d1 ++ d2) x = Some (b, x') /\ (b < length d1)%nat
     end) ->
  forall side srt, dir_ok side srt -> step_ok icl iutb side srt (br_pass plan).
Proof. exact br_step_ok_dir. Qed.
Print Assumptions backward_window_rule_meets_contract.

(* mark-to-mark attachment (the nearest preceding glyph the iterator does not skip must be a mark whose ligature id /
   component agree with those of the current mark and that is covered; the window [j, idx+1) is flagged) meets the
   contract for every table, in either buffer direction; the ligProps the rule reads are modelled *)
Theorem markmark_meets_contract : forall side srt, dir_ok side srt -> forall P, step_ok icl iutb side srt (mm_pass P).
Proof. exact mm_step_ok_dir. Qed.
Print Assumptions markmark_meets_contract.

(* one MarkMarkPos lookup as the code runs it IS one run of that pass *)
Theorem markmark_code_is_the_pass : forall P L R l rec, (mb_mask P =? 0) = false ->
  fst (mm_lookup (l, rec) P) = prun (mm_pass P) L R l.
Proof. exact mm_lookup_is_pass. Qed.
Print Assumptions markmark_code_is_the_pass.

(* every engine built from the pieces above AND pair positioning / mark-to-mark lookups, in any number and order, is
   cut-safe *)
Theorem engine_pieces_with_pairpos_cut_safe : forall (ps : list xpiece) L R pre suf c,
  inv_mb (pre ++ suf) -> inv_mb pre -> inv_mb suf -> cutv icl sideL c pre suf = true ->
  fog icl iutb c (erun (map xpiece_pass ps) L R (pre ++ suf)) = false ->
  erun (map xpiece_pass ps) L R (pre ++ suf)
  = erun (map xpiece_pass ps) L (suf ++ R) pre ++ erun (map xpiece_pass ps) (L ++ pre) R suf.
Proof. exact xpieces_cut_safe. Qed.
Print Assumptions engine_pieces_with_pairpos_cut_safe.

(* ---- buffers of right-to-left runs: visual order, non-increasing clusters (sideR, rsorted); the lookups run forward
   over them ---- *)

(* what the instance proofs use of a buffer direction holds of both: the invariant depends on the cluster values only,
   and a flagged window that crosses a cut flags the cut *)
Theorem both_directions_ok : dir_ok sideL sorted /\ dir_ok sideR rsorted.
Proof. exact (conj dirL dirR). Qed.
Print Assumptions both_directions_ok.

(* forward window rules, hence pair positioning, meet the contract in either direction *)
Theorem pairpos_meets_contract_backward : forall P, step_ok icl iutb sideR rsorted (pp_pass P).
Proof. exact (pp_step_ok_dir sideR rsorted dirR). Qed.
Print Assumptions pairpos_meets_contract_backward.

Theorem markbase_meets_contract_backward : forall P, step_ok icl iutb sideR inv_r (mb_pass P).
Proof. exact (mb_step_ok_dir sideR rsorted dirR). Qed.
Print Assumptions markbase_meets_contract_backward.

(* GSUB single and ligature substitution: in this direction the minimal cluster of a ligature window is its LAST one and
   mergeClusters extends the merge BACKWARD into the out-buffer (over the glyphs already passed that share the cluster of
   the first component) *)
Theorem gsub_meets_contract_backward : forall P, step_ok icl iutb sideR inv_r (gs_pass P).
Proof. exact gs_step_ok_R. Qed.
Print Assumptions gsub_meets_contract_backward.

(* a rule that rewrites the glyph under the cursor alone meets the contract in any direction *)
Theorem gsub_single_meets_contract_any_direction : forall side srt, dir_ok side srt ->
  forall P, gs_lig P = false -> step_ok icl iutb side (fun l => srt l /\ nomult l) (gs_pass P).
Proof. exact gs_single_step_ok_dir. Qed.
Print Assumptions gsub_single_meets_contract_any_direction.

(* every engine built from pair positioning, mark-to-base and GSUB single / ligature lookups over the buffer hi ++ lo of a
   right-to-left run (hi holds the later text) is cut-safe *)
Theorem engine_pieces_cut_safe_backward : forall (ps : list rpiece) L R hi lo c,
  inv_r (hi ++ lo) -> inv_r hi -> inv_r lo -> cutv icl sideR c hi lo = true ->
  fog icl iutb c (erun (map rpiece_pass ps) L R (hi ++ lo)) = false ->
  erun (map rpiece_pass ps) L R (hi ++ lo)
  = erun (map rpiece_pass ps) L (lo ++ R) hi ++ erun (map rpiece_pass ps) (L ++ hi) R lo.
Proof. exact rpieces_cut_safe. Qed.
Print Assumptions engine_pieces_cut_safe_backward.

(* ---- non-vacuity ---- *)
Definition ex_it (c g u q : Z) : item := mkI (mkGX c fl0 1 0 g u q) 0 (mkP 500 0 0 0 0 0).
Definition ex_kp : kparams := mkKP [(1, 2, -101)] 1 true.

(* A V | B with the pair (A, V): the pair is kerned (the run changes), the cut before B is not flagged, and the theorem's
   conclusion holds with both pieces non-empty; the cut inside the pair IS flagged *)
Example kern_cut_example :
  let pre := [ex_it 0 1 7 2; ex_it 1 2 7 2] in
  let suf := [ex_it 2 3 7 2] in
  let W := erun [kern_pass ex_kp] [] [] (pre ++ suf) in
  wf_engine icl iutb sideL sorted [kern_pass ex_kp]
  /\ W <> pre ++ suf /\ fog icl iutb 2 W = false /\ fog icl iutb 1 W = true
  /\ W = erun [kern_pass ex_kp] [] (suf ++ []) pre ++ erun [kern_pass ex_kp] ([] ++ pre) [] suf
  /\ map (fun x => xa (ip x)) W = [449; 450; 500].
Proof.
  cbv zeta. split; [apply wf_engine_unit; constructor; [apply kern_step_ok|constructor]|].
  repeat split; try (vm_compute; reflexivity). vm_compute. discriminate.
Qed.

(* the pair seen across a ZWNJ that starts its own cluster: window [A, ZWNJ, V] flagged, both cuts unsafe (seed m1) *)
Example kern_skip_example :
  let l := [ex_it 0 1 7 2; ex_it 1 30 545 0; ex_it 2 2 7 2] in
  left_okb ex_kp l = true
  /\ map (fun x => utb (gf (ig x))) (fst (fallback_kern_f ex_kp false false l false)) = [false; true; true].
Proof. cbv zeta. split; vm_compute; reflexivity. Qed.

(* mark attached across a ZWNJ: window [base, ZWNJ, mark] flagged (seed m2) *)
Definition ex_mb : mbparams := mkMB 0 1 [(20, 0, 10, 20)] [(1, [(true, 300, 600)])].
Example markbase_example :
  let l := [ex_it 0 1 7 2; ex_it 1 30 545 0; ex_it 2 20 140 8] in
  inv_mb l
  /\ map (fun x => (utb (gf (ig x)), xo (ip x), yo (ip x), ach (ip x))) (fst (mb_run false [ex_mb] l false))
     = [(false, 0, 0, 0); (true, 0, 0, 0); (true, 290, 580, -2)].
Proof.
  cbv zeta. split; [|vm_compute; reflexivity]. split.
  - cbn. repeat split; intros y H; cbn in H; intuition lia.
  - repeat constructor.
Qed.

(* an engine of four passes over a text with an unflagged cut: a ligature lookup (3 + 3 -> 1, across a skipped ZWJ),
   kerning, attachment, kerning again *)
Definition ex_gs : gsparams := mkGS 0 1 true [] [([3; 3], 1)].
Example gsub_example :
  let l := [ex_it 0 3 7 2; ex_it 1 31 289 0; ex_it 2 3 7 2; ex_it 3 2 7 2] in
  map (fun x => (icl x, igid x)) (gs_run [ex_gs] l) = [(0, 1); (0, 31); (3, 2)].
Proof. vm_compute. reflexivity. Qed.

Example pieces_example :
  let ps := [PGsub ex_gs; PKern ex_kp; PMark ex_mb; PKern ex_kp] in
  let pre := [ex_it 0 3 7 2; ex_it 0 31 289 0; ex_it 0 3 7 2; ex_it 0 20 140 8; ex_it 1 2 7 2] in
  let suf := [ex_it 2 1 7 2; ex_it 3 3 7 2] in
  let W := erun (map piece_pass ps) [] [] (pre ++ suf) in
  W <> pre ++ suf /\ fog icl iutb 2 W = false
  /\ W = erun (map piece_pass ps) [] (suf ++ []) pre ++ erun (map piece_pass ps) ([] ++ pre) [] suf.
Proof. cbv zeta. repeat split; try (vm_compute; reflexivity). vm_compute. discriminate. Qed.

(* propagateFlags on the output of kern_cut_example: the glyph of cluster 2 is unflagged *)
Example propagate_example :
  let W := erun [kern_pass ex_kp] [] [] [ex_it 0 1 7 2; ex_it 1 2 7 2; ex_it 2 3 7 2] in
  exists b', propagate_flags (mkB (map ig W) [] 0 false 3 3 0 false false true) = Ok b'
    /\ map (fun h => (cl h, utb (gf h))) (info b') = [(0, false); (1, true); (2, false)].
Proof. cbv zeta. eexists. split; vm_compute; reflexivity. Qed.

Example flag_window_example :
  let a := [ex_it 0 1 7 2] in let w := [ex_it 1 1 7 2; ex_it 1 20 140 8; ex_it 2 2 7 2] in let b0 := [ex_it 3 3 7 2] in
  exists b', unsafe_to_break (mkB (map ig (a ++ w ++ b0)) [] 0 false 5 5 0 false false false) 1 4 = Ok b'
    /\ map (fun g => utb (gf g)) (info b') = [false; false; false; true; false]
    /\ info b' = map ig (a ++ flag_window w ++ b0).
Proof. cbv zeta. eexists. repeat split; vm_compute; reflexivity. Qed.


(* pair positioning: A V | B with the class pair (A, V) whose only value is a device delta on the first glyph: the pair is
   adjusted and FLAGGED (seed C18-r5m2), the cut before B is safe and the pieces reproduce the whole; with a second value
   record the glyph after the pair is flagged too *)
Definition ex_dev : vrec := mkVR 0 0 0 0 true (-192).
Definition ex_pp : ppparams := mkPP 0 1 true true true 68 0 [(0, 1, ex_dev, vr0)] [1] [] [(2, 1)].
Definition ex_pp2 : ppparams := mkPP 0 1 true false false 4 1 [(1, 2, mkVR 0 0 (-40) 0 false 0, mkVR 15 0 0 0 false 0)] [] [] [].
Example pairpos_example :
  let pre := [ex_it 0 1 7 2; ex_it 1 2 7 2] in
  let suf := [ex_it 2 3 7 2] in
  let W := fst (pp_lookup (pre ++ suf, false) ex_pp) in
  pp_left_okb ex_pp (pre ++ suf) = true
  /\ map (fun x => (xa (ip x), iutb x)) W = [(308, false); (500, true); (500, false)]
  /\ fog icl iutb 2 W = false /\ fog icl iutb 1 W = true
  /\ W = fst (pp_lookup (pre, false) ex_pp) ++ fst (pp_lookup (suf, false) ex_pp)
  /\ W = prun (pp_pass ex_pp) [] [] (pre ++ suf)
  /\ map (fun x => (xa (ip x), xo (ip x), iutb x)) (fst (pp_lookup (pre ++ suf, false) ex_pp2))
     = [(460, 0, false); (500, 15, true); (500, 0, true)].
Proof. cbv zeta. repeat split; vm_compute; reflexivity. Qed.

(* a forward window rule that is not PairPos: "a glyph 7 followed by a glyph 8 flags the pair" *)
Example forward_rule_example :
  let plan := fun (x : item) (rest : list item) =>
    match rest with y :: _ => if (igid x =? 7) && (igid y =? 8) then Some (1%nat, [x; y], 1%nat) else None | [] => None end in
  map iutb (prun (fr_pass plan) [] [] [ex_it 0 7 7 2; ex_it 1 8 7 2; ex_it 2 7 7 2]) = [false; true; false].
Proof. vm_compute. reflexivity. Qed.

Example pieces_pairpos_example :
  let ps := [XBase (PGsub ex_gs); XPair ex_pp2; XBase (PMark ex_mb)] in
  let pre := [ex_it 0 3 7 2; ex_it 0 31 289 0; ex_it 0 3 7 2; ex_it 0 20 140 8; ex_it 1 2 7 2] in
  let suf := [ex_it 2 5 7 2; ex_it 3 3 7 2] in
  let W := erun (map xpiece_pass ps) [] [] (pre ++ suf) in
  W <> pre ++ suf /\ fog icl iutb 2 W = false
  /\ W = erun (map xpiece_pass ps) [] (suf ++ []) pre ++ erun (map xpiece_pass ps) ([] ++ pre) [] suf.
Proof. cbv zeta. repeat split; try (vm_compute; reflexivity). vm_compute. discriminate. Qed.

(* a right-to-left buffer (clusters 3 2 1 1 0): a single substitution, a kerned pair (glyphs 2 1, clusters 2 1: the
   cluster value 2 — the later text of the pair — is flagged) and a mark attached to its base inside cluster 1; the cut
   between clusters 3 and 2 (cluster value 3, hi = the glyph of cluster 3) is unflagged and safe *)
Definition ex_ppr : ppparams := mkPP 0 1 true false false 4 0 [(2, 1, mkVR 0 0 (-30) 0 false 0, vr0)] [] [] [].
Example backward_example :
  let ps := [RGsub (mkGS 0 1 false [(5, 6)] []); RPair ex_ppr; RMark ex_mb] in
  let hi := [ex_it 3 5 7 2] in
  let lo := [ex_it 2 2 7 2; ex_it 1 1 7 2; ex_it 1 20 140 8; ex_it 0 3 7 2] in
  let W := erun (map rpiece_pass ps) [] [] (hi ++ lo) in
  cutv icl sideR 3 hi lo = true
  /\ map (fun x => (icl x, igid x, xa (ip x), iutb x)) W
     = [(3, 6, 500, false); (2, 2, 470, true); (1, 1, 500, false); (1, 20, 500, false); (0, 3, 500, false)]
  /\ fog icl iutb 3 W = false /\ fog icl iutb 2 W = true
  /\ W = erun (map rpiece_pass ps) [] (lo ++ []) hi ++ erun (map rpiece_pass ps) ([] ++ hi) [] lo.
Proof. cbv zeta. repeat split; vm_compute; reflexivity. Qed.

(* a ligature in a right-to-left buffer: clusters 3 2 2 1 0, the ligature 4 + 1 -> 9 over the glyphs of clusters 2 and 1
   (the second glyph of cluster 2 is its first component): the merge takes cluster 1 and reaches BACK to the first glyph
   of cluster 2, already in the out-buffer; cluster 2 is gone, the cuts at 3 and at 1 (hi ends with the ligature) stay
   safe *)
Example backward_ligature_example :
  let ps := [RGsub (mkGS 0 1 true [] [([4; 1], 9)])] in
  let l := [ex_it 3 5 7 2; ex_it 2 6 7 2; ex_it 2 4 7 2; ex_it 1 1 7 2; ex_it 0 3 7 2] in
  let W := erun (map rpiece_pass ps) [] [] l in
  map (fun x => (icl x, igid x)) W = [(3, 5); (1, 6); (1, 9); (0, 3)]
  /\ fog icl iutb 2 W = true /\ fog icl iutb 3 W = false /\ fog icl iutb 1 W = false
  /\ W = erun (map rpiece_pass ps) [] (skipn 1 l) (firstn 1 l) ++ erun (map rpiece_pass ps) (firstn 1 l) [] (skipn 1 l)
  /\ W = erun (map rpiece_pass ps) [] (skipn 4 l) (firstn 4 l) ++ erun (map rpiece_pass ps) (firstn 4 l) [] (skipn 4 l).
Proof. cbv zeta. repeat split; vm_compute; reflexivity. Qed.

(* ---- Arabic joining ---- *)
(* cluster, joining type (0 U, 1 L, 2 R, 3 D, 4 ALAPH, 5 DALATH RISH, 7 T); no action yet (7 = none) *)
Definition ex_aj (c ty : Z) : item := mkI (mkGX c fl0 1 ty 0 0 0) 7 p0.
Definition ex_acts (l : list item) : list Z := map ilig l.
Definition ex_utbs (l : list item) : list bool := map iutb l.

(* BEH BEH: init + fina, the cut inside the pair is flagged *)
Example arabic_joined_pair_flagged :
  let W := erun [arab_pass] [] [] [ex_aj 0 3; ex_aj 1 3] in
  ex_acts W = [6; 1] /\ ex_utbs W = [false; true] /\ fog icl iutb 1 W = true.
Proof. vm_compute. repeat split; reflexivity. Qed.

(* the form at the end of a run depends on the post-context (through a transparent mark), the form at its start on the
   pre-context: BEH alone is isol; before FATHA BEH it is init; after BEH it is fina; between them medi *)
Example arabic_context_forms :
  ex_acts (erun [arab_pass] [] [] [ex_aj 0 3]) = [0]
  /\ ex_acts (erun [arab_pass] [] [ex_aj 9 7; ex_aj 9 3] [ex_aj 0 3]) = [6]
  /\ ex_acts (erun [arab_pass] [ex_aj 9 3] [] [ex_aj 0 3]) = [1]
  /\ ex_acts (erun [arab_pass] [ex_aj 9 3] [ex_aj 9 3] [ex_aj 0 3; ex_aj 1 7]) = [4; 7].
Proof. vm_compute. repeat split; reflexivity. Qed.

(* BEH ALEF | BEH BEH: ALEF does not join forward, the cut after it is not flagged, and the conclusion of the theorem
   holds with both pieces non-empty and changed; the state of the whole run at the second pair is not the one the piece
   starts from *)
Example arabic_safe_cut_example :
  let pre := [ex_aj 0 3; ex_aj 1 2] in
  let suf := [ex_aj 2 3; ex_aj 3 7; ex_aj 4 3] in
  let W := erun [arab_pass] [] [] (pre ++ suf) in
  sorted (pre ++ suf) /\ cutv icl sideL 2 pre suf = true
  /\ fog icl iutb 2 W = false /\ fog icl iutb 1 W = true /\ fog icl iutb 4 W = true
  /\ ex_acts W = [6; 1; 6; 7; 1]
  /\ W = erun [arab_pass] [] (suf ++ []) pre ++ erun [arab_pass] ([] ++ pre) [] suf.
Proof. cbv zeta. split; [cbn; intuition lia|]. vm_compute. repeat split; reflexivity. Qed.

(* the states differ across a cut: after BEH BEH the whole run is in state 3, a piece starting there in state 2 *)
Example arabic_states_differ :
  st_at [] [ex_aj 0 3; ex_aj 1 3] = 3%nat /\ st_init ([] ++ [ex_aj 0 3; ex_aj 1 3]) = 2%nat.
Proof. vm_compute. split; reflexivity. Qed.

(* the loop as written on LAM FATHA ALEF | BEH with post-context BEH: lam init, alef fina, beh init; the window of the
   first pair covers the mark; the write is recorded (bsfHasGlyphFlags) *)
Example arabic_code_example :
  let l := [ex_aj 0 3; ex_aj 1 7; ex_aj 2 2; ex_aj 3 3] in
  let W := arab_code false false [] [ex_aj 9 3] l false in
  ex_acts (fst W) = [6; 7; 1; 6] /\ ex_utbs (fst W) = [false; true; true; false] /\ snd W = true
  /\ fst W = prun arab_pass [] [ex_aj 9 3] l.
Proof. vm_compute. repeat split; reflexivity. Qed.

(* ====================================================================================================================
   GSUB multiple substitution (Model/GsubMulti.v) and contextual lookups of format 3 (Model/Context3.v)
   ==================================================================================================================== *)
(* C18 fragment (to be pasted into Props/C18.v): GSUB multiple substitution and the contextual lookups of format 3 as
   window-local rules.  Property theorems only. *)
From TV Require Import Model.GsubMulti Model.Context3 Spec.LocalEngine.
From TV Require Import Model.KernMachine.
From TV Require Import Proofs.LocalEngine Proofs.EngineItem Proofs.KernMachine Proofs.GsubMulti Proofs.Context3 Proofs.EngineMulti.

(* GSUB multiple substitution (applySubsSequence: in-place replacement, multiplication, deletion with deleteGlyph and the
   hand-over of the glyph flags) meets the contract of a window-local pass, for EVERY table, on buffers in logical order
   whose first cluster is not flagged (inv_gm = sorted /\ head_clear; no cut lies before the first cluster, and
   deleteGlyph at the start of the buffer clears its flags: Findings/GsubMultiHead.v) *)
Theorem gsub_multiple_meets_contract : forall P, step_ok icl iutb sideL inv_gm (gm_pass P).
Proof. exact gm_step_ok. Qed.
Print Assumptions gsub_multiple_meets_contract.

(* the lookup loop of the model that the correspondence check compares with the implementation IS the pass *)
Theorem gsub_multiple_code_is_the_pass : forall P L R l, (gm_mask P =? 0) = false -> gm_lookup l P = prun (gm_pass P) L R l.
Proof. exact gm_lookup_is_pass. Qed.
Print Assumptions gsub_multiple_code_is_the_pass.

(* any number of multiple-substitution lookups, any tables: an unflagged surviving cluster boundary is a safe cut *)
Theorem gsub_multiple_engine_cut_safe : forall (Ps : list gmparams) L R pre suf c,
  inv_gm (pre ++ suf) -> inv_gm pre -> inv_gm suf -> cutv icl sideL c pre suf = true ->
  fog icl iutb c (erun (map gm_pass Ps) L R (pre ++ suf)) = false ->
  erun (map gm_pass Ps) L R (pre ++ suf)
  = erun (map gm_pass Ps) L (suf ++ R) pre ++ erun (map gm_pass Ps) (L ++ pre) R suf.
Proof. exact gm_engine_cut_safe. Qed.
Print Assumptions gsub_multiple_engine_cut_safe.

(* the contextual lookups of format 3 (ChainedContextualSubs3, and ContextualSubs3 as the case without backtrack and
   lookahead; nested single substitutions) meet the contract on buffers in logical order, for EVERY table *)
Theorem gsub_context3_meets_contract : forall P, step_ok icl iutb sideL sorted (cx_pass P).
Proof. exact cx_step_ok. Qed.
Print Assumptions gsub_context3_meets_contract.

Theorem gsub_context3_code_is_the_pass : forall P L R l, (cx_mask P =? 0) = false -> cx_lookup l P = prun (cx_pass P) L R l.
Proof. exact cx_lookup_is_pass. Qed.
Print Assumptions gsub_context3_code_is_the_pass.

Theorem gsub_context3_engine_cut_safe : forall (Ps : list cxparams) L R pre suf c,
  sorted (pre ++ suf) -> sorted pre -> sorted suf -> cutv icl sideL c pre suf = true ->
  fog icl iutb c (erun (map cx_pass Ps) L R (pre ++ suf)) = false ->
  erun (map cx_pass Ps) L R (pre ++ suf)
  = erun (map cx_pass Ps) L (suf ++ R) pre ++ erun (map cx_pass Ps) (L ++ pre) R suf.
Proof. exact cx_engine_cut_safe. Qed.
Print Assumptions gsub_context3_engine_cut_safe.

(* the legacy kerning, the contextual lookups and GSUB single / ligature substitution (here without the `nomult` side
   condition) keep the first cluster of a buffer in logical order unflagged, so they meet the contract under the invariant
   of the multiple substitution too *)
Theorem kern_gsub_context3_meet_contract_first_cluster_clear : forall p, step_ok icl iutb sideL inv_gm (mpiece_pass p).
Proof. exact mpiece_step_ok. Qed.
Print Assumptions kern_gsub_context3_meet_contract_first_cluster_clear.

(* every engine built from multiple-substitution lookups, single / ligature lookups, contextual lookups of format 3 and
   kern passes - any number,
   any tables, any order: if the run is in logical order and its first cluster is not flagged (the hypotheses about the
   two pieces follow), a cluster boundary that is neither flagged nor merged away after all passes is a safe cut *)
Theorem multi_gsub_context_kern_engine_cut_safe : forall (ps : list mpiece) L R pre suf c,
  sorted (pre ++ suf) -> head_clear (pre ++ suf) -> pre <> [] -> cutv icl sideL c pre suf = true ->
  fog icl iutb c (erun (map mpiece_pass ps) L R (pre ++ suf)) = false ->
  erun (map mpiece_pass ps) L R (pre ++ suf)
  = erun (map mpiece_pass ps) L (suf ++ R) pre ++ erun (map mpiece_pass ps) (L ++ pre) R suf.
Proof. exact mpieces_cut_safe_whole. Qed.
Print Assumptions multi_gsub_context_kern_engine_cut_safe.

(* ---- non-vacuity ---- *)
Definition mx_it (c g q : Z) (f : fl) : item := mkI (mkGX c f 1 0 g 7 q) 0 p0.

(* a 1 -> 2 substitution of a ligature glyph: both outputs inherit cluster and flags, become base glyphs with the
   substituted and multiplied bits (2 + 16 + 64) and carry the component numbers 0, 1 *)
Definition mx_P2 : gmparams := mkGM 0 1 [(2, [5; 6])].
Example multiple_example :
  let l := [mx_it 0 1 2 fl0; mx_it 1 2 4 m_concat; mx_it 2 3 2 fl0] in
  map (fun x => (icl x, igid x, gp (ig x), ilig x, utc (gf (ig x)))) (gm_run [mx_P2] l)
  = [(0, 1, 2, 0, false); (1, 5, 82, 0, true); (1, 6, 82, 1, true); (2, 3, 2, 0, false)].
Proof. vm_compute. reflexivity. Qed.

(* a deletion: the deleted glyph carries the unsafe-to-break flag and shares its cluster with the LAST glyph of the
   buffer, which takes the flag over; the cut before that cluster stays flagged, the cut before cluster 1 is safe and
   the conclusion of the engine theorem holds there with both pieces non-empty *)
Definition mx_P0 : gmparams := mkGM 0 1 [(2, [])].
Example deletion_hands_flag_over_example :
  let pre := [mx_it 0 1 2 fl0] in
  let suf := [mx_it 1 4 2 fl0; mx_it 2 2 2 m_break; mx_it 2 3 2 fl0] in
  let W := erun [gm_pass mx_P0] [] [] (pre ++ suf) in
  inv_gm (pre ++ suf) /\ inv_gm pre /\ inv_gm suf
  /\ map (fun x => (icl x, igid x, iutb x)) W = [(0, 1, false); (1, 4, false); (2, 3, true)]
  /\ fog icl iutb 2 W = true /\ fog icl iutb 1 W = false
  /\ W = erun [gm_pass mx_P0] [] (suf ++ []) pre ++ erun [gm_pass mx_P0] ([] ++ pre) [] suf.
Proof.
  cbv zeta. repeat split; try (vm_compute; reflexivity);
    try (cbn; intuition (subst; try reflexivity; cbn in *; try lia; try discriminate)).
Qed.

(* a chained context: backtrack {1}, input {2} {3}, lookahead {4}, glyph 3 replaced by 9 at input position 1: the window
   [backtrack, lookahead) = clusters 1..4 is flagged outside its first cluster, the cut before cluster 5 (outside the
   window) is not flagged and is safe *)
Definition mx_CX : cxparams := mkCX 0 1 [[1]] [[2]; [3]] [[4]] [(1%nat, [(3, 9)])].
Example chained_context_example :
  let pre := [mx_it 0 5 2 fl0; mx_it 1 1 2 fl0; mx_it 2 2 2 fl0; mx_it 3 3 2 fl0; mx_it 4 4 2 fl0] in
  let suf := [mx_it 5 5 2 fl0] in
  let W := erun [cx_pass mx_CX] [] [] (pre ++ suf) in
  map (fun x => (icl x, igid x, iutb x)) W
  = [(0, 5, false); (1, 1, false); (2, 2, true); (3, 9, true); (4, 4, true); (5, 5, false)]
  /\ fog icl iutb 2 W = true /\ fog icl iutb 4 W = true /\ fog icl iutb 5 W = false
  /\ W = erun [cx_pass mx_CX] [] (suf ++ []) pre ++ erun [cx_pass mx_CX] ([] ++ pre) [] suf
  (* cutting inside the window changes the result: the flag is needed *)
  /\ W <> erun [cx_pass mx_CX] [] [] (firstn 3 (pre ++ suf)) ++ erun [cx_pass mx_CX] [] [] (skipn 3 (pre ++ suf)).
Proof. cbv zeta. repeat split; try (vm_compute; reflexivity). vm_compute. discriminate. Qed.

(* an engine of four passes: a ligature lookup (5 + 1 -> 6), the chained context marks glyph 3 (-> 9) behind the ligature
   (backtrack {6}), a multiple substitution expands 9 into 7 8 and
   deletes glyph 4 (alone in its cluster: the cluster disappears), then the pair (8, 5) is kerned, which flags cluster 5;
   the cuts inside the context window and before cluster 5 are flagged (or gone), the cut before cluster 6 is not
   flagged and is safe *)
Definition mx_P3 : gmparams := mkGM 0 1 [(9, [7; 8]); (4, [])].
Definition mx_kp : kparams := mkKP [(8, 5, -60)] 1 true.
Definition mx_gs : gsparams := mkGS 0 1 true [] [([5; 1], 6)].
Definition mx_CX2 : cxparams := mkCX 0 1 [[6]] [[2]; [3]] [[4]] [(1%nat, [(3, 9)])].
Example mixed_engine_example :
  let ps := [MGsub mx_gs; MCtx mx_CX2; MMulti mx_P3; MKern mx_kp] in
  let pre := [mx_it 0 5 2 fl0; mx_it 1 1 2 fl0; mx_it 2 2 2 fl0; mx_it 3 3 2 fl0; mx_it 4 4 2 fl0] in
  let suf := [mx_it 5 5 2 fl0; mx_it 6 6 2 fl0] in
  let W := erun (map mpiece_pass ps) [] [] (pre ++ suf) in
  map (fun x => (icl x, igid x, iutb x)) W
  = [(0, 6, false); (2, 2, true); (3, 7, true); (3, 8, true); (5, 5, true); (6, 6, false)]
  /\ fog icl iutb 1 W = true /\ fog icl iutb 4 W = true /\ fog icl iutb 5 W = true /\ fog icl iutb 6 W = false
  /\ W = erun (map mpiece_pass ps) [] ([mx_it 6 6 2 fl0] ++ []) (pre ++ [mx_it 5 5 2 fl0])
         ++ erun (map mpiece_pass ps) ([] ++ pre ++ [mx_it 5 5 2 fl0]) [] [mx_it 6 6 2 fl0].
Proof. cbv zeta. repeat split; vm_compute; reflexivity. Qed.

(* ====================================================================================================================
   The pieces together
   ==================================================================================================================== *)
From TV Require Import Proofs.PointRule Proofs.EngineAll Proofs.ArabicThenPieces.

(* a pass that rewrites the glyph under the cursor alone, as a function of that glyph only (same cluster, flag kept),
   meets the contract in either buffer direction *)
Theorem point_rule_meets_contract : forall f : item -> item,
  (forall x, icl (f x) = icl x /\ (iutb x = true -> iutb (f x) = true)) ->
  forall side srt, dir_ok side srt -> step_ok icl iutb side srt (pt_pass f).
Proof. exact pt_step_ok. Qed.
Print Assumptions point_rule_meets_contract.

(* pair positioning never flags the first cluster of a buffer in logical order: it meets the contract under
   inv_gm = sorted /\ head_clear as well, and joins the engine of multiple substitution, contextual format 3, single /
   ligature substitution and kerning.  Every engine built from these FIVE kinds of passes, in any number and order, is
   cut-safe; of the whole run only logical order and an unflagged first cluster are asked *)
Theorem all_substitution_and_pair_passes_engine_cut_safe : forall (ps : list apiece) L R pre suf c,
  sorted (pre ++ suf) -> head_clear (pre ++ suf) -> pre <> [] -> cutv icl sideL c pre suf = true ->
  fog icl iutb c (erun (map apiece_pass ps) L R (pre ++ suf)) = false ->
  erun (map apiece_pass ps) L R (pre ++ suf)
  = erun (map apiece_pass ps) L (suf ++ R) pre ++ erun (map apiece_pass ps) (L ++ pre) R suf.
Proof. exact apieces_cut_safe_whole. Qed.
Print Assumptions all_substitution_and_pair_passes_engine_cut_safe.

(* THE ORDER OF THE SHAPER: Arabic joining first (it reads the REAL neighbouring text through psumL / psumR), then any
   engine of kerning, GSUB single / ligature, mark-to-base and pair positioning passes (lifted: they do not read the
   context).  The engine is well formed — a later pass cannot disturb what the joining pass has read — hence cut-safe *)
Theorem arabic_joining_then_pieces_cut_safe : forall (ps : list xpiece) L R pre suf c,
  inv_mb (pre ++ suf) -> inv_mb pre -> inv_mb suf -> cutv icl sideL c pre suf = true ->
  fog icl iutb c (erun (arab_engine ps) L R (pre ++ suf)) = false ->
  erun (arab_engine ps) L R (pre ++ suf)
  = erun (arab_engine ps) L (suf ++ R) pre ++ erun (arab_engine ps) (L ++ pre) R suf.
Proof. exact arab_then_pieces_cut_safe. Qed.
Print Assumptions arabic_joining_then_pieces_cut_safe.

(* the five kinds of passes in one engine: the mixed engine above followed by a pair positioning lookup on the ligature
   glyph 6 and the glyph 2 after it *)
Definition mx_pp : ppparams := mkPP 0 1 true false false 4 0 [(6, 2, mkVR 0 0 (-25) 0 false 0, vr0)] [] [] [].
Example all_passes_example :
  let ps := [AGsub mx_gs; ACtx mx_CX2; AMulti mx_P3; AKern mx_kp; APair mx_pp] in
  let pre := [mx_it 0 5 2 fl0; mx_it 1 1 2 fl0; mx_it 2 2 2 fl0; mx_it 3 3 2 fl0; mx_it 4 4 2 fl0; mx_it 5 5 2 fl0] in
  let suf := [mx_it 6 6 2 fl0] in
  let W := erun (map apiece_pass ps) [] [] (pre ++ suf) in
  map (fun x => (icl x, igid x, iutb x)) W
  = [(0, 6, false); (2, 2, true); (3, 7, true); (3, 8, true); (5, 5, true); (6, 6, false)]
  /\ W <> erun (map mpiece_pass [MGsub mx_gs; MCtx mx_CX2; MMulti mx_P3; MKern mx_kp]) [] [] (pre ++ suf)
  /\ fog icl iutb 6 W = false
  /\ W = erun (map apiece_pass ps) [] (suf ++ []) pre ++ erun (map apiece_pass ps) ([] ++ pre) [] suf.
Proof. cbv zeta. repeat split; try (vm_compute; reflexivity). vm_compute. discriminate. Qed.

(* joining, then a ligature lookup and a kerning pass: LAM ALEF | BEH with a transparent mark; the joining pass gives the
   forms from the text (the cut after ALEF is safe: ALEF does not join forward), the later passes rewrite the glyphs *)
Example arabic_then_pieces_example :
  let ps := [XBase (PKern ex_kp)] in
  let pre := [ex_aj 0 3; ex_aj 1 2] in
  let suf := [ex_aj 2 3; ex_aj 3 7] in
  let R := [ex_aj 9 3] in
  let W := erun (arab_engine ps) [] R (pre ++ suf) in
  ex_acts W = [6; 1; 6; 7] /\ fog icl iutb 2 W = false /\ fog icl iutb 1 W = true
  /\ W = erun (arab_engine ps) [] (suf ++ R) pre ++ erun (arab_engine ps) ([] ++ pre) R suf
  (* the context is really read: without it the last letter is isolated *)
  /\ ex_acts (erun (arab_engine ps) [] [] (pre ++ suf)) = [6; 1; 0; 7].
Proof. cbv zeta. repeat split; vm_compute; reflexivity. Qed.

(* mark-to-mark: base, mark, ZWNJ (its own cluster), mark: the second mark attaches to the first across the skipped ZWNJ,
   the window [first mark, second mark] is flagged outside its first cluster; a mark that belongs to another ligature
   component does not attach *)
Definition ex_mm : mbparams := mkMB 0 1 [(21, 0, 5, 10)] [(20, [(true, 100, 400)])].
Example markmark_example :
  let l := [ex_it 0 1 7 2; ex_it 0 20 140 8; ex_it 1 30 545 0; ex_it 2 21 140 8] in
  let W := fst (mm_lookup (l, false) ex_mm) in
  map (fun x => (iutb x, xo (ip x), yo (ip x), ach (ip x))) W
  = [(false, 0, 0, 0); (false, 0, 0, 0); (true, 0, 0, 0); (true, 95, 390, -2)]
  /\ W = prun (mm_pass ex_mm) [] [] l
  /\ let l2 := [ex_it 0 1 7 2; with_lig (ex_it 0 20 140 8) 33; ex_it 1 30 545 0; with_lig (ex_it 2 21 140 8) 34] in
     fst (mm_lookup (l2, false) ex_mm) = l2.
Proof. cbv zeta. repeat split; vm_compute; reflexivity. Qed.
