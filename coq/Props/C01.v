(* C01 — Shaping is total and accounts for every input rune (partial: glue, buffer core (all modelled operations), the
   cluster bookkeeping of the pre-GSUB pipeline of ot_shaper.go, recursion budget).
   Property theorems only. *)
From TV Require Import Model.ShapeGlue Spec.ShapeGlue Proofs.ShapeGlue.
From TV Require Import Model.Buffer Spec.Buffer Proofs.Buffer Proofs.BufferOps Proofs.BufferNewOps Proofs.BufferAll Model.Recurse Proofs.Recurse.
From TV Require Import Model.Engine Proofs.Engine.

(* --- part 1: rune accounting of shaping.Shape / countClusters --- *)

(* countClusters, for EVERY glyph list whose clusters are monotone in the run direction (rtl = TowardTopLeft) and lie in
   [s, e) with 0 <= s: the cluster values are kept; GlyphCount is the multiplicity of the glyph's cluster, RuneCount the
   distance to the next cluster value (or e); hence both are uniform per cluster; the per-cluster RuneCounts sum to
   e - (smallest cluster), i.e. to the run length e - s exactly when the smallest cluster is s. *)
Theorem count_clusters_correct : forall rtl s e cls,
  0 <= s -> mono rtl cls = true -> in_range s e cls = true ->
  let out := count_clusters cls e rtl in
  map cg_cl out = cls
  /\ (forall g, In g out -> cg_gc g = mult (cg_cl g) cls /\ cg_rc g = next_above e (cg_cl g) cls - cg_cl g)
  /\ uniform_counts out
  /\ (cls <> [] -> sum_rune_counts out = e - lmin cls)
  /\ (cls <> [] -> (sum_rune_counts out = e - s <-> lmin cls = s)).
Proof. exact count_clusters_correct_lemma. Qed.
Print Assumptions count_clusters_correct.

(* the executable oracle used on the implementation's outputs accepts exactly that *)
Theorem count_clusters_passes_oracle : forall rtl s e cls,
  0 <= s -> mono rtl cls = true -> in_range s e cls = true ->
  accounting_ok rtl s e (count_clusters cls e rtl) = true.
Proof. exact count_clusters_accounting. Qed.
Print Assumptions count_clusters_passes_oracle.

(* Shape's own slice expression (AddRunes after swap + clamp) never panics, for ANY bounds and any engine, and the
   output reports Runes.Offset = RunStart, Runes.Count = RunEnd - RunStart (negative for swapped bounds, see Findings) *)
Theorem shape_reports_requested_range : forall engine n rs re rtl, 0 <= n ->
  exists o, shape_glue engine n rs re rtl = Ok o /\ so_offset o = rs /\ so_count o = re - rs.
Proof. exact shape_glue_total. Qed.
Print Assumptions shape_reports_requested_range.

(* run bounds within the text: the engine receives exactly the runes [rs, re); whenever its output clusters are monotone
   in the run direction and inside [rs, re), the Output passes the accounting oracle, and if it keeps the smallest
   cluster rs (what the buffer theorems below are about) the rune counts sum to the run length *)
Theorem shape_accounts_for_every_rune : forall engine n rs re rtl, 0 <= rs -> rs <= re -> re <= n ->
  exists inp o, add_runes_clusters n rs (re - rs) = Ok inp /\ zlen inp = re - rs
    /\ shape_glue engine n rs re rtl = Ok o
    /\ so_offset o = rs /\ so_count o = re - rs
    /\ map cg_cl (so_glyphs o) = engine inp
    /\ (mono rtl (engine inp) = true -> in_range rs re (engine inp) = true ->
        accounting_ok rtl rs re (so_glyphs o) = true
        /\ (engine inp <> [] -> lmin (engine inp) = rs -> sum_rune_counts (so_glyphs o) = re - rs)).
Proof. exact shape_glue_accounts. Qed.
Print Assumptions shape_accounts_for_every_rune.

(* non-vacuity: an RTL glyph list with a two-glyph cluster, run [2, 7) *)
Example count_clusters_example :
  let cls := [6; 4; 4; 2] in
  mono true cls = true /\ in_range 2 7 cls = true
  /\ count_clusters cls 7 true = [mkCG 6 1 1; mkCG 4 2 2; mkCG 4 2 2; mkCG 2 2 1]
  /\ sum_rune_counts (count_clusters cls 7 true) = 5.
Proof. vm_compute. repeat split. Qed.

(* --- part 2: cluster discipline of harfbuzz.Buffer (levels other than Characters) --- *)

(* EVERY modelled operation of harfbuzz/buffer.go (the 30 constructors of Model/Buffer.v `op`: nextGlyph, nextGlyphs,
   skipGlyph, copyGlyph, replaceGlyphIndex, replaceGlyphs (= replaceGlyph, outputRune, outputGlyphIndex), deleteGlyph,
   deleteGlyphsInplace, mergeClusters, mergeOutClusters, moveTo, shiftForward, swapBuffers, clearOutput, removeOutput,
   clearPositions, reverseRange, Reverse, reverseClusters, setGlyphFlags, unsafeToBreak, unsafeToConcat,
   safeToInsertTatweel, unsafeToBreakFromOutbuffer, unsafeToConcatFromOutbuffer, propagateFlags, and since the extension
   round AddRune, AddRunes, sort (the insertion sort of the normalizer with its cluster merging; comparison =
   compareCombiningClass) and reverseGraphemes = reverseGroups on grapheme continuations with and without cluster merging),
   applied to ANY well-formed buffer under the precondition upstream asserts (Spec/Buffer.v `pre`), with the cluster values
   an AddRune / AddRunes brings in lying in [lo, hi) (`op_rng`, trivially true of all other operations), returns normally
   and preserves WF: cursor inside the buffer, clusters of  out ++ unread input  monotone (in one of the two directions: the
   reversals flip it) and inside [lo, hi). *)
Theorem buffer_op_preserves_wf : forall lo hi o b,
  (level b =? 2) = false -> WF lo hi b = true -> pre o b = true -> op_rng lo hi o = true ->
  exists b', run_op o b = Ok b' /\ WF lo hi b' = true /\ (level b' =? 2) = false.
Proof. exact op_step. Qed.
Print Assumptions buffer_op_preserves_wf.

(* fold_left lift: EVERY sequence of operations, of any length, whose preconditions hold along the run *)
Theorem buffer_ops_preserve_wf : forall lo hi os b,
  (level b =? 2) = false -> WF lo hi b = true -> pres_hold os b -> ops_rng lo hi os ->
  exists b', run_ops os b = Ok b' /\ WF lo hi b' = true.
Proof. exact buffer_ops_preserve_wf_lemma. Qed.
Print Assumptions buffer_ops_preserve_wf.

(* no Panic, no OutOfFuel: for one operation and for every operation sequence *)
Theorem buffer_ops_no_panic : forall lo hi o b,
  (level b =? 2) = false -> WF lo hi b = true -> pre o b = true -> op_rng lo hi o = true -> total (run_op o b).
Proof. exact buffer_ops_no_panic_lemma. Qed.
Print Assumptions buffer_ops_no_panic.

Theorem buffer_run_no_panic : forall lo hi os b,
  (level b =? 2) = false -> WF lo hi b = true -> pres_hold os b -> ops_rng lo hi os -> total (run_ops os b).
Proof. exact buffer_run_no_panic_lemma. Qed.
Print Assumptions buffer_run_no_panic.

(* sort(s, e, compar) for ANY comparison function, on any well-formed buffer without output: it returns normally, keeps
   the length and WF (every glyph it moves over is first merged into one cluster with the moved glyph) *)
Theorem sort_preserves_wf : forall lo hi (cmp : glyph -> glyph -> Z) b s e,
  (level b =? 2) = false -> WF lo hi b = true -> have_out b = false -> 0 <= s -> e <= zlen (info b) ->
  exists b', sort_range cmp b s e = Ok b' /\ WF lo hi b' = true /\ have_out b' = false /\ level b' = level b
    /\ zlen (info b') = zlen (info b).
Proof. exact sort_range_stable. Qed.
Print Assumptions sort_preserves_wf.

(* reverseGroups(groupFunc, mergeClusters = true) for ANY grouping function *)
Theorem reverse_groups_merging_preserves_wf : forall lo hi (grp : glyph -> glyph -> bool) b,
  (level b =? 2) = false -> WF lo hi b = true -> have_out b = false ->
  exists b', reverse_groups grp true b = Ok b' /\ WF lo hi b' = true /\ level b' = level b.
Proof. exact reverse_groups_merge_wf. Qed.
Print Assumptions reverse_groups_merging_preserves_wf.

(* non-vacuity: the client fills an empty buffer with AddRunes (item [2, 6) of a 7-rune text: base, two marks out of
   canonical order with ccc 230 and 220, base), the marks are sorted (their clusters merge), and the graphemes are reversed *)
Example new_ops_example :
  let e := mkB [] [] 0 false 0 0 0 false false false in
  let text := [97; 98; 99; 769; 803; 100; 101] in
  exists b1, run_ops [OAddRunes text 2 4 8] e = Ok b1 /\ cls (info b1) = [2; 3; 4; 5] /\ WF 2 6 b1 = true
   /\ pre (OAddRunes text 2 4 8) e = true /\ op_rng 2 6 (OAddRunes text 2 4 8) = true
   /\ let b2 := with_info b1 (map (fun g => set_up g (if cp g =? 769 then 230 * 256 + 128 + 12 else if cp g =? 803 then 220 * 256 + 128 + 12 else 5)) (info b1)) in
      pres_hold [OSort 1 3; ORevGraphemes true] b2
      /\ exists b3, run_ops [OSort 1 3; ORevGraphemes true] b2 = Ok b3 /\ map cp (info b3) = [100; 99; 803; 769] /\ cls (info b3) = [5; 2; 2; 2]
           /\ WF 2 6 b3 = true.
Proof.
  cbv zeta. eexists. split; [vm_compute; reflexivity|]. split; [reflexivity|]. split; [reflexivity|]. split; [reflexivity|].
  split; [reflexivity|]. split; [apply pres_ok_sound; vm_compute; reflexivity|].
  eexists. split; [vm_compute; reflexivity|]. repeat split.
Qed.

(* mergeClusters(s, e) on any buffer (any contents, monotone or not): it returns normally and all glyphs of a range
   [s', e') that contains [s, e) carry the smallest cluster value of [s, e); nothing outside [s', e') changes in Info *)
Theorem merge_clusters_min : forall b s e,
  (level b =? 2) = false -> 0 <= idx b -> 0 <= s -> s + 2 <= e -> e <= zlen (info b) ->
  exists b' s' e', merge_clusters b s e = Ok b' /\ 0 <= s' /\ s' <= s /\ e <= e' /\ e' <= zlen (info b)
    /\ zlen (info b') = zlen (info b)
    /\ Forall (fun g => cl g = lmin (cls (slice s e (info b)))) (slice s' e' (info b'))
    /\ zfirstn s' (info b') = zfirstn s' (info b) /\ zskipn e' (info b') = zskipn e' (info b).
Proof. exact merge_clusters_min_lemma. Qed.
Print Assumptions merge_clusters_min.

(* deleteGlyph on ANY buffer with output in progress and the cursor on a glyph (no monotonicity needed): it returns
   normally, advances the cursor, and while a glyph remains in  out ++ unread input  the smallest cluster value is kept:
   a deleted rune stays accounted for by a neighbouring cluster *)
Theorem delete_keeps_min_cluster : forall b,
  (level b =? 2) = false -> have_out b = true -> 0 <= idx b -> idx b < zlen (info b) ->
  exists b', delete_glyph b = Ok b' /\ idx b' = idx b + 1 /\ have_out b' = true
    /\ (cls (bseq b') <> [] -> lmin (cls (bseq b')) = lmin (cls (bseq b))).
Proof. exact delete_keeps_min_lemma. Qed.
Print Assumptions delete_keeps_min_cluster.

(* non-vacuity: deleting the first glyph (cluster 0, empty out-buffer) merges its cluster forward *)
Example delete_example :
  let b := mkB [mkG 0 fl0 0 65 1; mkG 1 fl0 0 66 2; mkG 1 fl0 0 67 3] [] 0 true 3 3 0 false false false in
  exists b', delete_glyph b = Ok b' /\ cls (bseq b') = [0; 0].
Proof. eexists. split; vm_compute; reflexivity. Qed.

(* non-vacuity: a buffer with output in progress that satisfies WF and the precondition of mergeClusters(1, 3) *)
Example wf_example :
  let b := mkB [mkG 0 fl0 0 65 1; mkG 1 fl0 0 66 2; mkG 1 fl0 0 67 3; mkG 3 fl0 0 68 4] [mkG 0 fl0 0 65 1] 1 true 4 4 0 false false false in
  WF 0 4 b = true /\ pre (OMerge 1 3) b = true /\ pres_hold [ONext; OMerge 2 4; OSwap] b
  /\ exists b', run_ops [ONext; OMerge 2 4; OSwap] b = Ok b' /\ cls (info b') = [0; 1; 1; 1].
Proof.
  cbv zeta. split; [reflexivity|]. split; [reflexivity|]. split.
  - split; [reflexivity|]. intros b1 E1. vm_compute in E1. inversion E1; subst b1. clear E1.
    split; [reflexivity|]. intros b2 E2. vm_compute in E2. inversion E2; subst b2. clear E2.
    split; [reflexivity|]. intros b3 _. exact I.
  - eexists. split; vm_compute; reflexivity.
Qed.

(* non-vacuity for the newly covered operations: a substitution pass (replaceGlyphs 2 -> 1, deleteGlyph, outputGlyphIndex,
   rewinding moveTo, mergeOutClusters), the swap, in-place deletion, and the two reversals on an LTR buffer *)
Example wf_example_all_ops :
  let b := mkB [mkG 0 fl0 0 65 1; mkG 1 fl0 0 66 2; mkG 2 fl0 0 67 3; mkG 3 fl0 0 68 4; mkG 4 fl0 0 69 5] [] 0 true 5 5 0 true false false in
  let os := [OReplace 2 None (Some [9]); ODelete; OReplace 0 None (Some [7]); ONext; OMoveTo 1; ONextN 2; OMergeOut 0 2;
             OUnsafeBreakOut 1 4; OSwap; ODeleteInplace 5; ORevClusters; OReverse; ORevRange 0 3; OPropagate] in
  WF 0 5 b = true /\ pres_hold os b
  /\ exists b', run_ops os b = Ok b' /\ cls (info b') = [4; 0; 0] /\ WF 0 5 b' = true.
Proof.
  cbv zeta. split; [reflexivity|]. split; [apply pres_ok_sound; vm_compute; reflexivity|].
  eexists. split; [vm_compute; reflexivity|]. split; reflexivity.
Qed.

(* --- part 4: the cluster bookkeeping glue of shaperOpentype.shape (Model/Engine.v), for EVERY buffer and EVERY Unicode
   data / cmap / shaper (the Section variables of the model are universally quantified) --- *)

(* EWF lo hi e: the buffer of e satisfies WF lo hi, its cluster level is not Characters, no output is in progress *)

(* setUnicodeProps changes no cluster value, no length, no cursor (it only writes GlyphInfo.unicode and the scratch flags) *)
Theorem set_unicode_props_keeps_clusters : forall ugc udi umcc uextpict e,
  let e' := set_unicode_props ugc udi umcc uextpict e in
  cls (info (eb e')) = cls (info (eb e)) /\ out (eb e') = out (eb e) /\ idx (eb e') = idx (eb e)
  /\ have_out (eb e') = have_out (eb e) /\ level (eb e') = level (eb e) /\ dir e' = dir e.
Proof. exact set_unicode_props_spec. Qed.
Print Assumptions set_unicode_props_keeps_clusters.

(* insertDottedCircle: returns normally; the circle takes the cluster of the mark it precedes *)
Theorem insert_dotted_circle_preserves_wf : forall ugc udi umcc nominal lo hi e, EWF lo hi e -> idx (eb e) = 0 ->
  exists e', insert_dotted_circle ugc udi umcc nominal e = Ok e' /\ EWF lo hi e' /\ idx (eb e') = 0 /\ dir e' = dir e
    /\ level (eb e') = level (eb e).
Proof. exact insert_dotted_circle_wf. Qed.
Print Assumptions insert_dotted_circle_preserves_wf.

(* formClusters (grapheme merging at MonotoneGraphemes, unsafe-to-break flagging otherwise): returns normally (no
   OutOfFuel: the grapheme iteration ends), preserves WF, the cursor and the direction *)
Theorem form_clusters_preserves_wf : forall lo hi e, EWF lo hi e ->
  exists e', form_clusters e = Ok e' /\ EWF lo hi e' /\ idx (eb e') = idx (eb e) /\ dir e' = dir e /\ level (eb e') = level (eb e).
Proof. exact form_clusters_wf. Qed.
Print Assumptions form_clusters_preserves_wf.

(* ensureNativeDirection (reverseGraphemes, with cluster merging at MonotoneCharacters), for every script direction and
   buffer direction: at MonotoneCharacters unconditionally; otherwise when every continuation glyph carries the cluster of
   the glyph before it *)
Theorem ensure_native_direction_preserves_wf : forall lo hi horiz e, EWF lo hi e ->
  (level (eb e) =? 1) || groups_uniform (info (eb e)) = true ->
  exists e', ensure_native_direction horiz e = Ok e' /\ EWF lo hi e' /\ level (eb e') = level (eb e) /\ idx (eb e') = idx (eb e).
Proof. exact ensure_native_direction_wf. Qed.
Print Assumptions ensure_native_direction_preserves_wf.

(* ensureMonotoneClusters (the safety net after substitution) on a well-formed buffer: returns normally, keeps WF and the
   length (it is a sequence of mergeClusters calls inside the buffer) *)
Theorem ensure_monotone_clusters_preserves_wf : forall lo hi asc b,
  (level b =? 2) = false -> WF lo hi b = true -> have_out b = false ->
  exists b', ensure_monotone_clusters asc b = Ok b' /\ WF lo hi b' = true /\ have_out b' = false /\ level b' = level b
    /\ zlen (info b') = zlen (info b).
Proof. exact ensure_monotone_clusters_wf. Qed.
Print Assumptions ensure_monotone_clusters_preserves_wf.

(* non-vacuity: on a well-formed buffer nothing is out of order and nothing changes; on [0; 2; 1; 3] (ascending wanted) the two
   clusters out of order are merged *)
Example ensure_monotone_clusters_example :
  let mk := fun l => mkB (map (fun c => mkG c fl0 0 65 1) l) [] 0 false 0 0 0 false false false in
  WF 0 4 (mk [0; 1; 1; 3]) = true
  /\ (exists b', ensure_monotone_clusters true (mk [0; 1; 1; 3]) = Ok b' /\ cls (info b') = [0; 1; 1; 3])
  /\ (exists b', ensure_monotone_clusters true (mk [0; 2; 1; 3]) = Ok b' /\ cls (info b') = [0; 1; 1; 3]).
Proof. cbv zeta. split; [reflexivity|]. split; eexists; (split; [vm_compute; reflexivity|reflexivity]). Qed.

(* the stages of shape() before normalisation composed: setUnicodeProps; insertDottedCircle; formClusters;
   ensureNativeDirection, for every text, direction, script direction, flags, font and Unicode data.
   PARTIAL: full at cluster level MonotoneCharacters; at MonotoneGraphemes under the hypothesis that formClusters leaves
   every continuation glyph in the cluster of its base (checked by the oracle of c01eng on every case, not proved);
   otShapeNormalize itself (decompose / recompose rounds) is tied by correspondence and the oracle only, its reorder
   round is covered by sort_preserves_wf *)
Theorem pre_normalize_preserves_wf_partial : forall ugc udi umcc uextpict nominal lo hi horiz e, EWF lo hi e -> idx (eb e) = 0 ->
  (level (eb e) = 1 \/ forall e2 e3, level (eb e2) = level (eb e) -> form_clusters e2 = Ok e3 -> groups_uniform (info (eb e3)) = true) ->
  exists e', pre_normalize ugc udi umcc uextpict nominal horiz e = Ok e' /\ EWF lo hi e' /\ idx (eb e') = 0 /\ level (eb e') = level (eb e).
Proof. exact pre_normalize_wf. Qed.
Print Assumptions pre_normalize_preserves_wf_partial.

(* non-vacuity: "mark, base, mark" added by AddRunes at MonotoneCharacters, Bot set, a font with U+25CC, RTL in a
   natively LTR script: the dotted circle is inserted with cluster 0 and the graphemes are reversed with their clusters merged *)
Example pre_normalize_example :
  let ugc := fun r => if (r =? 769) || (r =? 803) then 12 else 7 in
  let udi := fun _ : Z => false in
  let umcc := fun r => if r =? 769 then 230 else if r =? 803 then 220 else 0 in
  let nominal := fun r : Z => (r, true) in
  let e0 := mkE (mkB [] [] 0 false 0 0 1 false false false) [] [] false false false false true false false false 5 0 0 in
  exists e1 e2, e_add_runes e0 [769; 97; 803] 0 3 4 = Ok e1 /\ EWF 0 3 e1 /\ idx (eb e1) = 0 /\ level (eb e1) = 1
    /\ pre_normalize ugc udi umcc (fun _ => false) nominal 4 e1 = Ok e2
    /\ map cp (info (eb e2)) = [97; 803; 9676; 769] /\ cls (info (eb e2)) = [1; 1; 0; 0] /\ dir e2 = 4 /\ EWF 0 3 e2.
Proof.
  cbv zeta. eexists. eexists. split; [vm_compute; reflexivity|]. split; [repeat split|]. split; [reflexivity|]. split; [reflexivity|].
  split; [vm_compute; reflexivity|]. repeat split.
Qed.

(* --- part 3: the recursion budget of the OpenType layout engine (after the F1 fix) --- *)

(* For EVERY lookup body (which may re-enter recurse arbitrarily), every lookup index and every initial maxOps, a
   top-level recurse with 7 = maxNestingLevel + 1 units of fuel terminates (no OutOfFuel), restores nestingLevelLeft,
   never nests recurseFunc deeper than maxNestingLevel = 6, and enters it at most max(0, maxOps) times. *)
Theorem recursion_bounded : forall body sub maxops,
  exists st' r, recurse body 7 (mkR max_nesting_level maxops 0 0 0) sub = Ok (st', r)
    /\ nest st' = max_nesting_level
    /\ maxdepth st' <= max_nesting_level
    /\ 0 <= entries st' <= Z.max 0 maxops
    /\ ops st' <= maxops.
Proof. exact recursion_bounded_lemma. Qed.
Print Assumptions recursion_bounded.

(* non-vacuity: the self-referencing lookup of F1 reaches depth 6 and stops *)
Example recursion_example :
  exists st, recurse (fun _ _ _ => [0]) 7 (mkR max_nesting_level 16384 0 0 0) 0 = Ok (st, true)
    /\ maxdepth st = 6 /\ entries st = 6 /\ ops st = 16378.
Proof. eexists. vm_compute. repeat split. Qed.
