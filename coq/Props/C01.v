(* C01 — Shaping is total and accounts for every input rune (partial: glue, buffer core (all modelled operations), recursion budget).
   Property theorems only. *)
From TV Require Import Model.ShapeGlue Spec.ShapeGlue Proofs.ShapeGlue.
From TV Require Import Model.Buffer Spec.Buffer Proofs.Buffer Proofs.BufferOps Model.Recurse Proofs.Recurse.

(* --- part 1: rune accounting of shaping.Shape / countClusters --- *)

(* countClusters, for EVERY glyph list whose clusters are monotone in the run direction (rtl = TowardTopLeft) and lie in
   [s, e) with 0 <= s: the cluster values are kept; GlyphCount is the multiplicity of the glyph's cluster, RuneCount the
   distance to the next cluster value (or e); hence both are uniform per cluster; the per-cluster RuneCounts sum to
   e - (smallest cluster), i.e. to the run length e - s exactly when the smallest cluster is s. *)
Theorem count_clusters_correct : forall rtl s e cls,
  0 <= s -> mono rtl cls = true -> in_range s e cls = true ->
  let out := count_clusters cls e rtl in
  map cg_cl out = cls
  /\ (forall g, In g out -> cg_gc g = mult (cg_cl g) cls /\ cg_rc g = next_above e (cg_cl g) cls - cg_cl g)
  /\ uniform_counts out
  /\ (cls <> [] -> sum_rune_counts out = e - lmin cls)
  /\ (cls <> [] -> (sum_rune_counts out = e - s <-> lmin cls = s)).
Proof. exact count_clusters_correct_lemma. Qed.
Print Assumptions count_clusters_correct.

(* the executable oracle used on the implementation's outputs accepts exactly that *)
Theorem count_clusters_passes_oracle : forall rtl s e cls,
  0 <= s -> mono rtl cls = true -> in_range s e cls = true ->
  accounting_ok rtl s e (count_clusters cls e rtl) = true.
Proof. exact count_clusters_accounting. Qed.
Print Assumptions count_clusters_passes_oracle.

(* Shape's own slice expression (AddRunes after swap + clamp) never panics, for ANY bounds and any engine, and the
   output reports Runes.Offset = RunStart, Runes.Count = RunEnd - RunStart (negative for swapped bounds, see Findings) *)
Theorem shape_reports_requested_range : forall engine n rs re rtl, 0 <= n ->
  exists o, shape_glue engine n rs re rtl = Ok o /\ so_offset o = rs /\ so_count o = re - rs.
Proof. exact shape_glue_total. Qed.
Print Assumptions shape_reports_requested_range.

(* run bounds within the text: the engine receives exactly the runes [rs, re); whenever its output clusters are monotone
   in the run direction and inside [rs, re), the Output passes the accounting oracle, and if it keeps the smallest
   cluster rs (what the buffer theorems below are about) the rune counts sum to the run length *)
Theorem shape_accounts_for_every_rune : forall engine n rs re rtl, 0 <= rs -> rs <= re -> re <= n ->
  exists inp o, add_runes_clusters n rs (re - rs) = Ok inp /\ zlen inp = re - rs
    /\ shape_glue engine n rs re rtl = Ok o
    /\ so_offset o = rs /\ so_count o = re - rs
    /\ map cg_cl (so_glyphs o) = engine inp
    /\ (mono rtl (engine inp) = true -> in_range rs re (engine inp) = true ->
        accounting_ok rtl rs re (so_glyphs o) = true
        /\ (engine inp <> [] -> lmin (engine inp) = rs -> sum_rune_counts (so_glyphs o) = re - rs)).
Proof. exact shape_glue_accounts. Qed.
Print Assumptions shape_accounts_for_every_rune.

(* non-vacuity: an RTL glyph list with a two-glyph cluster, run [2, 7) *)
Example count_clusters_example :
  let cls := [6; 4; 4; 2] in
  mono true cls = true /\ in_range 2 7 cls = true
  /\ count_clusters cls 7 true = [mkCG 6 1 1; mkCG 4 2 2; mkCG 4 2 2; mkCG 2 2 1]
  /\ sum_rune_counts (count_clusters cls 7 true) = 5.
Proof. vm_compute. repeat split. Qed.

(* --- part 2: cluster discipline of harfbuzz.Buffer (levels other than Characters) --- *)

(* EVERY modelled operation of harfbuzz/buffer.go (the 26 constructors of Model/Buffer.v `op`: nextGlyph, nextGlyphs,
   skipGlyph, copyGlyph, replaceGlyphIndex, replaceGlyphs (= replaceGlyph, outputRune, outputGlyphIndex), deleteGlyph,
   deleteGlyphsInplace, mergeClusters, mergeOutClusters, moveTo, shiftForward, swapBuffers, clearOutput, removeOutput,
   clearPositions, reverseRange, Reverse, reverseClusters, setGlyphFlags, unsafeToBreak, unsafeToConcat,
   safeToInsertTatweel, unsafeToBreakFromOutbuffer, unsafeToConcatFromOutbuffer, propagateFlags), applied to ANY
   well-formed buffer under the precondition upstream asserts (Spec/Buffer.v `pre`), returns normally and preserves WF:
   cursor inside the buffer, clusters of  out ++ unread input  monotone (in one of the two directions: the reversals flip
   it) and inside [lo, hi). *)
Theorem buffer_op_preserves_wf : forall lo hi o b,
  (level b =? 2) = false -> WF lo hi b = true -> pre o b = true ->
  exists b', run_op o b = Ok b' /\ WF lo hi b' = true /\ (level b' =? 2) = false.
Proof. exact op_step. Qed.
Print Assumptions buffer_op_preserves_wf.

(* fold_left lift: EVERY sequence of operations, of any length, whose preconditions hold along the run *)
Theorem buffer_ops_preserve_wf : forall lo hi os b,
  (level b =? 2) = false -> WF lo hi b = true -> pres_hold os b ->
  exists b', run_ops os b = Ok b' /\ WF lo hi b' = true.
Proof. exact buffer_ops_preserve_wf_lemma. Qed.
Print Assumptions buffer_ops_preserve_wf.

(* no Panic, no OutOfFuel: for one operation and for every operation sequence *)
Theorem buffer_ops_no_panic : forall lo hi o b,
  (level b =? 2) = false -> WF lo hi b = true -> pre o b = true -> total (run_op o b).
Proof. exact buffer_ops_no_panic_lemma. Qed.
Print Assumptions buffer_ops_no_panic.

Theorem buffer_run_no_panic : forall lo hi os b,
  (level b =? 2) = false -> WF lo hi b = true -> pres_hold os b -> total (run_ops os b).
Proof. exact buffer_run_no_panic_lemma. Qed.
Print Assumptions buffer_run_no_panic.

(* mergeClusters(s, e) on any buffer (any contents, monotone or not): it returns normally and all glyphs of a range
   [s', e') that contains [s, e) carry the smallest cluster value of [s, e); nothing outside [s', e') changes in Info *)
Theorem merge_clusters_min : forall b s e,
  (level b =? 2) = false -> 0 <= idx b -> 0 <= s -> s + 2 <= e -> e <= zlen (info b) ->
  exists b' s' e', merge_clusters b s e = Ok b' /\ 0 <= s' /\ s' <= s /\ e <= e' /\ e' <= zlen (info b)
    /\ zlen (info b') = zlen (info b)
    /\ Forall (fun g => cl g = lmin (cls (slice s e (info b)))) (slice s' e' (info b'))
    /\ zfirstn s' (info b') = zfirstn s' (info b) /\ zskipn e' (info b') = zskipn e' (info b).
Proof. exact merge_clusters_min_lemma. Qed.
Print Assumptions merge_clusters_min.

(* deleteGlyph on ANY buffer with output in progress and the cursor on a glyph (no monotonicity needed): it returns
   normally, advances the cursor, and while a glyph remains in  out ++ unread input  the smallest cluster value is kept:
   a deleted rune stays accounted for by a neighbouring cluster *)
Theorem delete_keeps_min_cluster : forall b,
  (level b =? 2) = false -> have_out b = true -> 0 <= idx b -> idx b < zlen (info b) ->
  exists b', delete_glyph b = Ok b' /\ idx b' = idx b + 1 /\ have_out b' = true
    /\ (cls (bseq b') <> [] -> lmin (cls (bseq b')) = lmin (cls (bseq b))).
Proof. exact delete_keeps_min_lemma. Qed.
Print Assumptions delete_keeps_min_cluster.

(* non-vacuity: deleting the first glyph (cluster 0, empty out-buffer) merges its cluster forward *)
Example delete_example :
  let b := mkB [mkG 0 fl0 0 65 1; mkG 1 fl0 0 66 2; mkG 1 fl0 0 67 3] [] 0 true 3 3 0 false false false in
  exists b', delete_glyph b = Ok b' /\ cls (bseq b') = [0; 0].
Proof. eexists. split; vm_compute; reflexivity. Qed.

(* non-vacuity: a buffer with output in progress that satisfies WF and the precondition of mergeClusters(1, 3) *)
Example wf_example :
  let b := mkB [mkG 0 fl0 0 65 1; mkG 1 fl0 0 66 2; mkG 1 fl0 0 67 3; mkG 3 fl0 0 68 4] [mkG 0 fl0 0 65 1] 1 true 4 4 0 false false false in
  WF 0 4 b = true /\ pre (OMerge 1 3) b = true /\ pres_hold [ONext; OMerge 2 4; OSwap] b
  /\ exists b', run_ops [ONext; OMerge 2 4; OSwap] b = Ok b' /\ cls (info b') = [0; 1; 1; 1].
Proof.
  cbv zeta. split; [reflexivity|]. split; [reflexivity|]. split.
  - split; [reflexivity|]. intros b1 E1. vm_compute in E1. inversion E1; subst b1. clear E1.
    split; [reflexivity|]. intros b2 E2. vm_compute in E2. inversion E2; subst b2. clear E2.
    split; [reflexivity|]. intros b3 _. exact I.
  - eexists. split; vm_compute; reflexivity.
Qed.

(* non-vacuity for the newly covered operations: a substitution pass (replaceGlyphs 2 -> 1, deleteGlyph, outputGlyphIndex,
   rewinding moveTo, mergeOutClusters), the swap, in-place deletion, and the two reversals on an LTR buffer *)
Example wf_example_all_ops :
  let b := mkB [mkG 0 fl0 0 65 1; mkG 1 fl0 0 66 2; mkG 2 fl0 0 67 3; mkG 3 fl0 0 68 4; mkG 4 fl0 0 69 5] [] 0 true 5 5 0 true false false in
  let os := [OReplace 2 None (Some [9]); ODelete; OReplace 0 None (Some [7]); ONext; OMoveTo 1; ONextN 2; OMergeOut 0 2;
             OUnsafeBreakOut 1 4; OSwap; ODeleteInplace 5; ORevClusters; OReverse; ORevRange 0 3; OPropagate] in
  WF 0 5 b = true /\ pres_hold os b
  /\ exists b', run_ops os b = Ok b' /\ cls (info b') = [4; 0; 0] /\ WF 0 5 b' = true.
Proof.
  cbv zeta. split; [reflexivity|]. split; [apply pres_ok_sound; vm_compute; reflexivity|].
  eexists. split; [vm_compute; reflexivity|]. split; reflexivity.
Qed.

(* --- part 3: the recursion budget of the OpenType layout engine (after the F1 fix) --- *)

(* For EVERY lookup body (which may re-enter recurse arbitrarily), every lookup index and every initial maxOps, a
   top-level recurse with 7 = maxNestingLevel + 1 units of fuel terminates (no OutOfFuel), restores nestingLevelLeft,
   never nests recurseFunc deeper than maxNestingLevel = 6, and enters it at most max(0, maxOps) times. *)
Theorem recursion_bounded : forall body sub maxops,
  exists st' r, recurse body 7 (mkR max_nesting_level maxops 0 0 0) sub = Ok (st', r)
    /\ nest st' = max_nesting_level
    /\ maxdepth st' <= max_nesting_level
    /\ 0 <= entries st' <= Z.max 0 maxops
    /\ ops st' <= maxops.
Proof. exact recursion_bounded_lemma. Qed.
Print Assumptions recursion_bounded.

(* non-vacuity: the self-referencing lookup of F1 reaches depth 6 and stops *)
Example recursion_example :
  exists st, recurse (fun _ _ _ => [0]) 7 (mkR max_nesting_level 16384 0 0 0) 0 = Ok (st, true)
    /\ maxdepth st = 6 /\ entries st = 6 /\ ops st = 16378.
Proof. eexists. vm_compute. repeat split. Qed.
