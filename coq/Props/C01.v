(* C01 — Shaping is total and accounts for every input rune (partial: glue, buffer core (all modelled operations), the
   cluster bookkeeping of the pre-GSUB pipeline of ot_shaper.go, recursion budget).
   Property theorems only. *)
From TV Require Import Model.ShapeGlue Spec.ShapeGlue Proofs.ShapeGlue.
From TV Require Import Model.Buffer Spec.Buffer Proofs.Buffer Proofs.BufferOps Proofs.BufferNewOps Proofs.BufferAll Model.Recurse Proofs.Recurse.
From TV Require Import Model.Engine Proofs.Engine Proofs.EngineForm Proofs.EngineProps Proofs.EnginePre.
From TV Require Import Proofs.EngineReorder Proofs.EngineRound2 Proofs.EngineRecompose Proofs.EngineDecompose Proofs.EngineNormalize Proofs.EngineHide Proofs.EnginePipeline.
From TV Require Import Proofs.EngineKeep Proofs.EngineEmc Proofs.EngineKeepMerge Proofs.EngineKeepDecompose Proofs.EngineKeepRecompose Proofs.EngineKeepStages Proofs.EngineAccount Proofs.EngineKeepOps Proofs.EnginePipelineAccount.

(* --- part 1: rune accounting of shaping.Shape / countClusters --- *)

(* countClusters, for EVERY glyph list whose clusters are monotone in the run direction (rtl = TowardTopLeft) and lie in
   [s, e) with 0 <= s: the cluster values are kept; GlyphCount is the multiplicity of the glyph's cluster, RuneCount the
   distance to the next cluster value (or e); hence both are uniform per cluster; the per-cluster RuneCounts sum to
   e - (smallest cluster), i.e. to the run length e - s exactly when the smallest cluster is s. *)
Theorem count_clusters_correct : forall rtl s e cls,
  0 <= s -> mono rtl cls = true -> in_range s e cls = true ->
  let out := count_clusters cls e rtl in
  map cg_cl out = cls
  /\ (forall g, In g out -> cg_gc g = mult (cg_cl g) cls /\ cg_rc g = next_above e (cg_cl g) cls - cg_cl g)
  /\ uniform_counts out
  /\ (cls <> [] -> sum_rune_counts out = e - lmin cls)
  /\ (cls <> [] -> (sum_rune_counts out = e - s <-> lmin cls = s)).
Proof. exact count_clusters_correct_lemma. Qed.
Print Assumptions count_clusters_correct.

(* the executable oracle used on the implementation's outputs accepts exactly that *)
Theorem count_clusters_passes_oracle : forall rtl s e cls,
  0 <= s -> mono rtl cls = true -> in_range s e cls = true ->
  accounting_ok rtl s e (count_clusters cls e rtl) = true.
Proof. exact count_clusters_accounting. Qed.
Print Assumptions count_clusters_passes_oracle.

(* Shape's own slice expression (AddRunes after swap + clamp) never panics, for ANY bounds and any engine, and the
   output reports Runes.Offset = RunStart, Runes.Count = RunEnd - RunStart (negative for swapped bounds, see Findings) *)
Theorem shape_reports_requested_range : forall engine n rs re rtl, 0 <= n ->
  exists o, shape_glue engine n rs re rtl = Ok o /\ so_offset o = rs /\ so_count o = re - rs.
Proof. exact shape_glue_total. Qed.
Print Assumptions shape_reports_requested_range.

(* run bounds within the text: the engine receives exactly the runes [rs, re); whenever its output clusters are monotone
   in the run direction and inside [rs, re), the Output passes the accounting oracle, and if it keeps the smallest
   cluster rs (what the buffer theorems below are about) the rune counts sum to the run length *)
Theorem shape_accounts_for_every_rune : forall engine n rs re rtl, 0 <= rs -> rs <= re -> re <= n ->
  exists inp o, add_runes_clusters n rs (re - rs) = Ok inp /\ zlen inp = re - rs
    /\ shape_glue engine n rs re rtl = Ok o
    /\ so_offset o = rs /\ so_count o = re - rs
    /\ map cg_cl (so_glyphs o) = engine inp
    /\ (mono rtl (engine inp) = true -> in_range rs re (engine inp) = true ->
        accounting_ok rtl rs re (so_glyphs o) = true
        /\ (engine inp <> [] -> lmin (engine inp) = rs -> sum_rune_counts (so_glyphs o) = re - rs)).
Proof. exact shape_glue_accounts. Qed.
Print Assumptions shape_accounts_for_every_rune.

(* non-vacuity: an RTL glyph list with a two-glyph cluster, run [2, 7) *)
Example count_clusters_example :
  let cls := [6; 4; 4; 2] in
  mono true cls = true /\ in_range 2 7 cls = true
  /\ count_clusters cls 7 true = [mkCG 6 1 1; mkCG 4 2 2; mkCG 4 2 2; mkCG 2 2 1]
  /\ sum_rune_counts (count_clusters cls 7 true) = 5.
Proof. vm_compute. repeat split. Qed.

(* --- part 2: cluster discipline of harfbuzz.Buffer (levels other than Characters) --- *)

(* EVERY modelled operation of harfbuzz/buffer.go (the 30 constructors of Model/Buffer.v `op`: nextGlyph, nextGlyphs,
   skipGlyph, copyGlyph, replaceGlyphIndex, replaceGlyphs (= replaceGlyph, outputRune, outputGlyphIndex), deleteGlyph,
   deleteGlyphsInplace, mergeClusters, mergeOutClusters, moveTo, shiftForward, swapBuffers, clearOutput, removeOutput,
   clearPositions, reverseRange, Reverse, reverseClusters, setGlyphFlags, unsafeToBreak, unsafeToConcat,
   safeToInsertTatweel, unsafeToBreakFromOutbuffer, unsafeToConcatFromOutbuffer, propagateFlags, and since the extension
   round AddRune, AddRunes, sort (the insertion sort of the normalizer with its cluster merging; comparison =
   compareCombiningClass) and reverseGraphemes = reverseGroups on grapheme continuations with and without cluster merging),
   applied to ANY well-formed buffer under the precondition upstream asserts (Spec/Buffer.v `pre`), with the cluster values
   an AddRune / AddRunes brings in lying in [lo, hi) (`op_rng`, trivially true of all other operations), returns normally
   and preserves WF: cursor inside the buffer, clusters of  out ++ unread input  monotone (in one of the two directions: the
   reversals flip it) and inside [lo, hi). *)
Theorem buffer_op_preserves_wf : forall lo hi o b,
  (level b =? 2) = false -> WF lo hi b = true -> pre o b = true -> op_rng lo hi o = true ->
  exists b', run_op o b = Ok b' /\ WF lo hi b' = true /\ (level b' =? 2) = false.
Proof. exact op_step. Qed.
Print Assumptions buffer_op_preserves_wf.

(* fold_left lift: EVERY sequence of operations, of any length, whose preconditions hold along the run *)
Theorem buffer_ops_preserve_wf : forall lo hi os b,
  (level b =? 2) = false -> WF lo hi b = true -> pres_hold os b -> ops_rng lo hi os ->
  exists b', run_ops os b = Ok b' /\ WF lo hi b' = true.
Proof. exact buffer_ops_preserve_wf_lemma. Qed.
Print Assumptions buffer_ops_preserve_wf.

(* no Panic, no OutOfFuel: for one operation and for every operation sequence *)
Theorem buffer_ops_no_panic : forall lo hi o b,
  (level b =? 2) = false -> WF lo hi b = true -> pre o b = true -> op_rng lo hi o = true -> total (run_op o b).
Proof. exact buffer_ops_no_panic_lemma. Qed.
Print Assumptions buffer_ops_no_panic.

Theorem buffer_run_no_panic : forall lo hi os b,
  (level b =? 2) = false -> WF lo hi b = true -> pres_hold os b -> ops_rng lo hi os -> total (run_ops os b).
Proof. exact buffer_run_no_panic_lemma. Qed.
Print Assumptions buffer_run_no_panic.

(* sort(s, e, compar) for ANY comparison function, on any well-formed buffer without output: it returns normally, keeps
   the length and WF (every glyph it moves over is first merged into one cluster with the moved glyph) *)
Theorem sort_preserves_wf : forall lo hi (cmp : glyph -> glyph -> Z) b s e,
  (level b =? 2) = false -> WF lo hi b = true -> have_out b = false -> 0 <= s -> e <= zlen (info b) ->
  exists b', sort_range cmp b s e = Ok b' /\ WF lo hi b' = true /\ have_out b' = false /\ level b' = level b
    /\ zlen (info b') = zlen (info b).
Proof. exact sort_range_stable. Qed.
Print Assumptions sort_preserves_wf.

(* reverseGroups(groupFunc, mergeClusters = true) for ANY grouping function *)
Theorem reverse_groups_merging_preserves_wf : forall lo hi (grp : glyph -> glyph -> bool) b,
  (level b =? 2) = false -> WF lo hi b = true -> have_out b = false ->
  exists b', reverse_groups grp true b = Ok b' /\ WF lo hi b' = true /\ level b' = level b.
Proof. exact reverse_groups_merge_wf. Qed.
Print Assumptions reverse_groups_merging_preserves_wf.

(* non-vacuity: the client fills an empty buffer with AddRunes (item [2, 6) of a 7-rune text: base, two marks out of
   canonical order with ccc 230 and 220, base), the marks are sorted (their clusters merge), and the graphemes are reversed *)
Example new_ops_example :
  let e := mkB [] [] 0 false 0 0 0 false false false in
  let text := [97; 98; 99; 769; 803; 100; 101] in
  exists b1, run_ops [OAddRunes text 2 4 8] e = Ok b1 /\ cls (info b1) = [2; 3; 4; 5] /\ WF 2 6 b1 = true
   /\ pre (OAddRunes text 2 4 8) e = true /\ op_rng 2 6 (OAddRunes text 2 4 8) = true
   /\ let b2 := with_info b1 (map (fun g => set_up g (if cp g =? 769 then 230 * 256 + 128 + 12 else if cp g =? 803 then 220 * 256 + 128 + 12 else 5)) (info b1)) in
      pres_hold [OSort 1 3; ORevGraphemes true] b2
      /\ exists b3, run_ops [OSort 1 3; ORevGraphemes true] b2 = Ok b3 /\ map cp (info b3) = [100; 99; 803; 769] /\ cls (info b3) = [5; 2; 2; 2]
           /\ WF 2 6 b3 = true.
Proof.
  cbv zeta. eexists. split; [vm_compute; reflexivity|]. split; [reflexivity|]. split; [reflexivity|]. split; [reflexivity|].
  split; [reflexivity|]. split; [apply pres_ok_sound; vm_compute; reflexivity|].
  eexists. split; [vm_compute; reflexivity|]. repeat split.
Qed.

(* mergeClusters(s, e) on any buffer (any contents, monotone or not): it returns normally and all glyphs of a range
   [s', e') that contains [s, e) carry the smallest cluster value of [s, e); nothing outside [s', e') changes in Info *)
Theorem merge_clusters_min : forall b s e,
  (level b =? 2) = false -> 0 <= idx b -> 0 <= s -> s + 2 <= e -> e <= zlen (info b) ->
  exists b' s' e', merge_clusters b s e = Ok b' /\ 0 <= s' /\ s' <= s /\ e <= e' /\ e' <= zlen (info b)
    /\ zlen (info b') = zlen (info b)
    /\ Forall (fun g => cl g = lmin (cls (slice s e (info b)))) (slice s' e' (info b'))
    /\ zfirstn s' (info b') = zfirstn s' (info b) /\ zskipn e' (info b') = zskipn e' (info b).
Proof. exact merge_clusters_min_lemma. Qed.
Print Assumptions merge_clusters_min.

(* deleteGlyph on ANY buffer with output in progress and the cursor on a glyph (no monotonicity needed): it returns
   normally, advances the cursor, and while a glyph remains in  out ++ unread input  the smallest cluster value is kept:
   a deleted rune stays accounted for by a neighbouring cluster *)
Theorem delete_keeps_min_cluster : forall b,
  (level b =? 2) = false -> have_out b = true -> 0 <= idx b -> idx b < zlen (info b) ->
  exists b', delete_glyph b = Ok b' /\ idx b' = idx b + 1 /\ have_out b' = true
    /\ (cls (bseq b') <> [] -> lmin (cls (bseq b')) = lmin (cls (bseq b))).
Proof. exact delete_keeps_min_lemma. Qed.
Print Assumptions delete_keeps_min_cluster.

(* non-vacuity: deleting the first glyph (cluster 0, empty out-buffer) merges its cluster forward *)
Example delete_example :
  let b := mkB [mkG 0 fl0 0 65 1; mkG 1 fl0 0 66 2; mkG 1 fl0 0 67 3] [] 0 true 3 3 0 false false false in
  exists b', delete_glyph b = Ok b' /\ cls (bseq b') = [0; 0].
Proof. eexists. split; vm_compute; reflexivity. Qed.

(* non-vacuity: a buffer with output in progress that satisfies WF and the precondition of mergeClusters(1, 3) *)
Example wf_example :
  let b := mkB [mkG 0 fl0 0 65 1; mkG 1 fl0 0 66 2; mkG 1 fl0 0 67 3; mkG 3 fl0 0 68 4] [mkG 0 fl0 0 65 1] 1 true 4 4 0 false false false in
  WF 0 4 b = true /\ pre (OMerge 1 3) b = true /\ pres_hold [ONext; OMerge 2 4; OSwap] b
  /\ exists b', run_ops [ONext; OMerge 2 4; OSwap] b = Ok b' /\ cls (info b') = [0; 1; 1; 1].
Proof.
  cbv zeta. split; [reflexivity|]. split; [reflexivity|]. split.
  - split; [reflexivity|]. intros b1 E1. vm_compute in E1. inversion E1; subst b1. clear E1.
    split; [reflexivity|]. intros b2 E2. vm_compute in E2. inversion E2; subst b2. clear E2.
    split; [reflexivity|]. intros b3 _. exact I.
  - eexists. split; vm_compute; reflexivity.
Qed.

(* non-vacuity for the newly covered operations: a substitution pass (replaceGlyphs 2 -> 1, deleteGlyph, outputGlyphIndex,
   rewinding moveTo, mergeOutClusters), the swap, in-place deletion, and the two reversals on an LTR buffer *)
Example wf_example_all_ops :
  let b := mkB [mkG 0 fl0 0 65 1; mkG 1 fl0 0 66 2; mkG 2 fl0 0 67 3; mkG 3 fl0 0 68 4; mkG 4 fl0 0 69 5] [] 0 true 5 5 0 true false false in
  let os := [OReplace 2 None (Some [9]); ODelete; OReplace 0 None (Some [7]); ONext; OMoveTo 1; ONextN 2; OMergeOut 0 2;
             OUnsafeBreakOut 1 4; OSwap; ODeleteInplace 5; ORevClusters; OReverse; ORevRange 0 3; OPropagate] in
  WF 0 5 b = true /\ pres_hold os b
  /\ exists b', run_ops os b = Ok b' /\ cls (info b') = [4; 0; 0] /\ WF 0 5 b' = true.
Proof.
  cbv zeta. split; [reflexivity|]. split; [apply pres_ok_sound; vm_compute; reflexivity|].
  eexists. split; [vm_compute; reflexivity|]. split; reflexivity.
Qed.

(* --- part 4: the cluster bookkeeping glue of shaperOpentype.shape (Model/Engine.v), for EVERY buffer and EVERY Unicode
   data / cmap / shaper (the Section variables of the model are universally quantified) --- *)

(* EWF lo hi e: the buffer of e satisfies WF lo hi, its cluster level is not Characters, no output is in progress *)

(* setUnicodeProps changes no cluster value, no length, no cursor (it only writes GlyphInfo.unicode and the scratch flags) *)
Theorem set_unicode_props_keeps_clusters : forall ugc udi umcc uextpict e,
  let e' := set_unicode_props ugc udi umcc uextpict e in
  cls (info (eb e')) = cls (info (eb e)) /\ out (eb e') = out (eb e) /\ idx (eb e') = idx (eb e)
  /\ have_out (eb e') = have_out (eb e) /\ level (eb e') = level (eb e) /\ dir e' = dir e.
Proof. exact set_unicode_props_spec. Qed.
Print Assumptions set_unicode_props_keeps_clusters.

(* insertDottedCircle: returns normally; the circle takes the cluster of the mark it precedes *)
Theorem insert_dotted_circle_preserves_wf : forall ugc udi umcc nominal lo hi e, EWF lo hi e -> idx (eb e) = 0 ->
  exists e', insert_dotted_circle ugc udi umcc nominal e = Ok e' /\ EWF lo hi e' /\ idx (eb e') = 0 /\ dir e' = dir e
    /\ level (eb e') = level (eb e).
Proof. exact insert_dotted_circle_wf. Qed.
Print Assumptions insert_dotted_circle_preserves_wf.

(* formClusters (grapheme merging at MonotoneGraphemes, unsafe-to-break flagging otherwise): returns normally (no
   OutOfFuel: the grapheme iteration ends), preserves WF, the cursor and the direction *)
Theorem form_clusters_preserves_wf : forall lo hi e, EWF lo hi e ->
  exists e', form_clusters e = Ok e' /\ EWF lo hi e' /\ idx (eb e') = idx (eb e) /\ dir e' = dir e /\ level (eb e') = level (eb e).
Proof. exact form_clusters_wf. Qed.
Print Assumptions form_clusters_preserves_wf.

(* ensureNativeDirection (reverseGraphemes, with cluster merging at MonotoneCharacters), for every script direction and
   buffer direction: at MonotoneCharacters unconditionally; otherwise when every continuation glyph carries the cluster of
   the glyph before it *)
Theorem ensure_native_direction_preserves_wf : forall lo hi horiz e, EWF lo hi e ->
  (level (eb e) =? 1) || groups_uniform (info (eb e)) = true ->
  exists e', ensure_native_direction horiz e = Ok e' /\ EWF lo hi e' /\ level (eb e') = level (eb e) /\ idx (eb e') = idx (eb e).
Proof. exact ensure_native_direction_wf. Qed.
Print Assumptions ensure_native_direction_preserves_wf.

(* ensureMonotoneClusters (the safety net after substitution) on a well-formed buffer: returns normally, keeps WF and the
   length (it is a sequence of mergeClusters calls inside the buffer) *)
Theorem ensure_monotone_clusters_preserves_wf : forall lo hi asc b,
  (level b =? 2) = false -> WF lo hi b = true -> have_out b = false ->
  exists b', ensure_monotone_clusters asc b = Ok b' /\ WF lo hi b' = true /\ have_out b' = false /\ level b' = level b
    /\ zlen (info b') = zlen (info b).
Proof. exact ensure_monotone_clusters_wf. Qed.
Print Assumptions ensure_monotone_clusters_preserves_wf.

(* non-vacuity: on a well-formed buffer nothing is out of order and nothing changes; on [0; 2; 1; 3] (ascending wanted) the two
   clusters out of order are merged *)
Example ensure_monotone_clusters_example :
  let mk := fun l => mkB (map (fun c => mkG c fl0 0 65 1) l) [] 0 false 0 0 0 false false false in
  WF 0 4 (mk [0; 1; 1; 3]) = true
  /\ (exists b', ensure_monotone_clusters true (mk [0; 1; 1; 3]) = Ok b' /\ cls (info b') = [0; 1; 1; 3])
  /\ (exists b', ensure_monotone_clusters true (mk [0; 2; 1; 3]) = Ok b' /\ cls (info b') = [0; 1; 1; 3]).
Proof. cbv zeta. split; [reflexivity|]. split; eexists; (split; [vm_compute; reflexivity|reflexivity]). Qed.

(* formClusters at MonotoneGraphemes, for EVERY buffer with the cursor at 0 and bsfHasNonASCII set: no glyph's unicode
   props change and every continuation glyph ends in the cluster of the glyph before it (induction over the grapheme
   iteration; mergeClusters keeps the equalities between neighbours and makes the merged range uniform) *)
Theorem form_clusters_groups_uniform : forall e e', level (eb e) = 0 -> idx (eb e) = 0 -> sf_nonascii e = true ->
  form_clusters e = Ok e' -> groups_uniform (info (eb e')) = true /\ map up (info (eb e')) = map up (info (eb e)).
Proof. exact form_clusters_uniform. Qed.
Print Assumptions form_clusters_groups_uniform.

(* setUnicodeProps raises bsfHasNonASCII whenever it leaves a continuation glyph in the buffer (so formClusters may be
   skipped when the flag is clear), for every buffer and all Unicode data whose general categories are numbers below 32
   (generalCategory is a uint8 enumeration of 30 values in the Go code) *)
Theorem set_unicode_props_flags_continuations : forall ugc udi umcc uextpict e, (forall u, 0 <= ugc u < 32) ->
  sf_nonascii (set_unicode_props ugc udi umcc uextpict e) = false ->
  Forall (fun g => is_cont g = false) (info (eb (set_unicode_props ugc udi umcc uextpict e))).
Proof. exact set_unicode_props_nonascii. Qed.
Print Assumptions set_unicode_props_flags_continuations.

(* non-vacuity: base, mark, ZWJ, pictograph, base at MonotoneGraphemes: the three continuations join cluster 0 *)
Example form_clusters_example :
  let mk := fun c u p => mkGX c fl0 0 u 0 p 0 in
  let e := mkE (mkB [mk 0 97 7; mk 1 769 (12 + 128 + 230 * 256); mk 2 8205 (1 + 32 + 256 + 128); mk 3 128512 (26 + 128); mk 4 98 7]
                    [] 0 false 5 5 0 false false false) [] [] true false false false false false false false 4 0 0 in
  exists e', form_clusters e = Ok e' /\ cls (info (eb e')) = [0; 0; 0; 0; 4] /\ groups_uniform (info (eb e')) = true.
Proof. cbv zeta. eexists. split; [vm_compute; reflexivity|]. split; reflexivity. Qed.

(* the stages of shape() before normalisation composed: setUnicodeProps; insertDottedCircle; formClusters;
   ensureNativeDirection, for every text, direction, script direction, flags, font and Unicode data (general categories
   below 32), at BOTH monotone cluster levels (FULL since the second extension round: the fact about formClusters that was a
   hypothesis is form_clusters_groups_uniform, and a buffer on which formClusters is skipped has no continuation glyph) *)
Theorem pre_normalize_preserves_wf : forall ugc udi umcc uextpict nominal lo hi horiz e, (forall u, 0 <= ugc u < 32) ->
  EWF lo hi e -> idx (eb e) = 0 -> level (eb e) = 0 \/ level (eb e) = 1 ->
  exists e', pre_normalize ugc udi umcc uextpict nominal horiz e = Ok e' /\ EWF lo hi e' /\ idx (eb e') = 0 /\ level (eb e') = level (eb e).
Proof. exact pre_normalize_full. Qed.
Print Assumptions pre_normalize_preserves_wf.

(* non-vacuity: "mark, base, mark" added by AddRunes at MonotoneCharacters, Bot set, a font with U+25CC, RTL in a
   natively LTR script: the dotted circle is inserted with cluster 0 and the graphemes are reversed with their clusters merged *)
Example pre_normalize_example :
  let ugc := fun r => if (r =? 769) || (r =? 803) then 12 else 7 in
  let udi := fun _ : Z => false in
  let umcc := fun r => if r =? 769 then 230 else if r =? 803 then 220 else 0 in
  let nominal := fun r : Z => (r, true) in
  let e0 := mkE (mkB [] [] 0 false 0 0 1 false false false) [] [] false false false false true false false false 5 0 0 in
  exists e1 e2, e_add_runes e0 [769; 97; 803] 0 3 4 = Ok e1 /\ EWF 0 3 e1 /\ idx (eb e1) = 0 /\ level (eb e1) = 1
    /\ pre_normalize ugc udi umcc (fun _ => false) nominal 4 e1 = Ok e2
    /\ map cp (info (eb e2)) = [97; 803; 9676; 769] /\ cls (info (eb e2)) = [1; 1; 0; 0] /\ dir e2 = 4 /\ EWF 0 3 e2.
Proof.
  cbv zeta. eexists. eexists. split; [vm_compute; reflexivity|]. split; [repeat split|]. split; [reflexivity|]. split; [reflexivity|].
  split; [vm_compute; reflexivity|]. repeat split.
Qed.

(* --- part 5: otShapeNormalize, hideDefaultIgnorables and the whole default pipeline (second extension round) ---
   okf r P: r is OutOfFuel or Ok x with P x (never Panic).  OutOfFuel can only come from the recursion budget dfuel of
   decompose (the Go recursion has no bound; a cyclic decomposition table would not terminate); it is excluded by the data
   obligation decomp_wf sdecomp dfuel: some rank strictly decreases from ab to the first component of sdecomp ab and stays
   below dfuel.  All loop fuels of the model (dcc_loop, vs_skip, vs_cluster, round1, round2, round3) are proved sufficient. *)

(* first round (decompose: decomposeCurrentCharacter, handleVariationSelectorCluster, decomposeMultiCharCluster, the
   short-circuit scan), for EVERY buffer with output in progress and the cursor on a glyph, every decomposition function,
   cmap, variation-sequence table and mode flags: WF, the level, the length of Info and the direction are kept, the cursor
   ends at the end of Info, the output is not empty; no index check and no explicit Panic is reachable *)
Theorem normalize_decompose_round_preserves_wf :
  forall ugc udi umcc uspace nominal variation sdecomp dfuel lo hi fuel count might always simple e,
  (level (eb e) =? 2) = false -> WF lo hi (eb e) = true -> have_out (eb e) = true ->
  count = zlen (info (eb e)) -> 0 <= idx (eb e) -> idx (eb e) < count -> (Z.to_nat (count - idx (eb e)) <= fuel)%nat ->
  okf (round1 ugc udi umcc uspace nominal variation sdecomp dfuel fuel count might always simple e)
      (fun r => WF lo hi (eb (fst r)) = true /\ level (eb (fst r)) = level (eb e) /\ have_out (eb (fst r)) = true
                /\ zlen (info (eb (fst r))) = zlen (info (eb e)) /\ idx (eb (fst r)) = zlen (info (eb (fst r)))
                /\ dir (fst r) = dir e /\ 0 < zlen (out (eb (fst r)))).
Proof. exact round1_ok. Qed.
Print Assumptions normalize_decompose_round_preserves_wf.

(* reorderMarks of the Arabic and Hebrew shapers (and the default no-op), for every range inside a buffer without output:
   WF, level, length and cursor kept; the explicit Panic branch (start <= i <= j) and the index checks are unreachable *)
Theorem reorder_marks_preserves_wf : forall sreorder is_mcm lo hi b s en,
  (level b =? 2) = false -> WF lo hi b = true -> have_out b = false -> 0 <= s -> s <= en -> en <= zlen (info b) ->
  exists b', reorder_marks sreorder is_mcm b s en = Ok b'
    /\ (WF lo hi b' = true /\ have_out b' = false /\ level b' = level b /\ zlen (info b') = zlen (info b)) /\ idx b' = idx b.
Proof. exact reorder_marks_stable. Qed.
Print Assumptions reorder_marks_preserves_wf.

(* second round (the sort of every run of marks by modified combining class, at most 32 long, then reorderMarks) from any
   position, and the CGJ pass *)
Theorem normalize_reorder_round_preserves_wf : forall sreorder is_mcm lo hi fuel count b i,
  (level b =? 2) = false -> WF lo hi b = true -> have_out b = false -> count = zlen (info b) -> 0 <= i ->
  (Z.to_nat (count - i) <= fuel)%nat ->
  exists b', round2 sreorder is_mcm fuel count b i = Ok b'
    /\ (WF lo hi b' = true /\ have_out b' = false /\ level b' = level b /\ zlen (info b') = zlen (info b)) /\ idx b' = idx b.
Proof. exact round2_ok. Qed.
Print Assumptions normalize_reorder_round_preserves_wf.

Theorem normalize_cgj_pass_preserves_wf : forall lo hi b,
  (level b =? 2) = false -> WF lo hi b = true -> have_out b = false ->
  exists b', cgj_pass b = Ok b'
    /\ (WF lo hi b' = true /\ have_out b' = false /\ level b' = level b /\ zlen (info b') = zlen (info b)) /\ idx b' = idx b.
Proof. exact cgj_pass_ok. Qed.
Print Assumptions normalize_cgj_pass_preserves_wf.

(* third round (recompose: nextGlyph, mergeOutClusters(starter, len(outInfo)), dropping the composed mark), for every
   composition function and cmap, from every state with 0 <= starter < len(outInfo) *)
Theorem normalize_recompose_round_preserves_wf : forall ugc udi umcc nominal scomp lo hi fuel count starter e,
  (level (eb e) =? 2) = false -> WF lo hi (eb e) = true -> have_out (eb e) = true ->
  count = zlen (info (eb e)) -> 0 <= starter -> starter < zlen (out (eb e)) ->
  (Z.to_nat (count - idx (eb e)) <= fuel)%nat ->
  exists e', round3 ugc udi umcc nominal scomp fuel count starter e = Ok e'
    /\ WF lo hi (eb e') = true /\ level (eb e') = level (eb e) /\ have_out (eb e') = true
    /\ zlen (info (eb e')) = zlen (info (eb e)) /\ idx (eb e') = Z.max (idx (eb e)) count /\ dir e' = dir e.
Proof. exact round3_ok. Qed.
Print Assumptions normalize_recompose_round_preserves_wf.

(* otShapeNormalize as a whole never panics: for EVERY engine buffer satisfying EWF, every data and mode, the result is
   OutOfFuel (decompose recursion budget only) or Ok with EWF, the level, cursor 0 and the direction *)
Theorem ot_shape_normalize_no_panic :
  forall ugc udi umcc uspace nominal variation sdecomp scomp smode sreorder is_mcm dfuel lo hi e, EWF lo hi e ->
  okf (normalize ugc udi umcc uspace nominal variation sdecomp scomp smode sreorder is_mcm dfuel e)
      (fun e' => EWF lo hi e' /\ level (eb e') = level (eb e) /\ idx (eb e') = 0 /\ dir e' = dir e).
Proof. exact normalize_ok. Qed.
Print Assumptions ot_shape_normalize_no_panic.

(* ... and with a well-founded decomposition function it returns normally *)
Theorem ot_shape_normalize_preserves_wf :
  forall ugc udi umcc uspace nominal variation sdecomp scomp smode sreorder is_mcm dfuel lo hi e,
  decomp_wf sdecomp dfuel -> EWF lo hi e ->
  exists e', normalize ugc udi umcc uspace nominal variation sdecomp scomp smode sreorder is_mcm dfuel e = Ok e'
    /\ (EWF lo hi e' /\ level (eb e') = level (eb e) /\ idx (eb e') = 0 /\ dir e' = dir e).
Proof. exact normalize_total. Qed.
Print Assumptions ot_shape_normalize_preserves_wf.

(* non-vacuity: "a U+0301 (ccc 230) U+0323 (ccc 220) b", composed-diacritics mode, a font with every glyph: the two marks
   are sorted by combining class (their clusters 1 and 2 are merged), U+0323 does not compose with a, U+0301 is not blocked
   by it (220 < 230) and composes: U+00E1 U+0323 b with the clusters 0..2 merged.  The decomposing direction (decomposed
   mode, no glyph for U+00E1): b U+00E1 U+0323 -> b a U+0323 U+0301, the three glyphs in cluster 1 *)
Example normalize_example :
  let ugc := fun r => if (r =? 769) || (r =? 803) then 12 else 7 in
  let udi := fun _ : Z => false in
  let umcc := fun r => if r =? 769 then 230 else if r =? 803 then 220 else 0 in
  let sdecomp := fun r => if r =? 225 then Some (97, 769) else None in
  let scomp := fun a b => if (a =? 97) && (b =? 769) then Some 225 else None in
  let mk := fun c u p => mkGX c fl0 0 u 0 p 0 in
  let mark := fun c => 12 + 128 + c * 256 in
  let e := fun l => mkE (mkB l [] 0 false 4 4 0 false false false) [] [] true false false false false false false false 4 0 0 in
  decomp_wf sdecomp 40
  /\ EWF 0 4 (e [mk 0 97 7; mk 1 769 (mark 230); mk 2 803 (mark 220); mk 3 98 7])
  /\ (exists e', normalize ugc udi umcc (fun _ => 0) (fun r => (r, true)) (fun _ _ => (0, false)) sdecomp scomp 2 0 (fun _ => false) 40
                   (e [mk 0 97 7; mk 1 769 (mark 230); mk 2 803 (mark 220); mk 3 98 7]) = Ok e'
        /\ map cp (info (eb e')) = [225; 803; 98] /\ cls (info (eb e')) = [0; 0; 3])
  /\ (exists e', normalize ugc udi umcc (fun _ => 0) (fun r => (r, negb (r =? 225))) (fun _ _ => (0, false)) sdecomp scomp 1 0 (fun _ => false) 40
                   (e [mk 0 98 7; mk 1 225 7; mk 2 803 (mark 220)]) = Ok e'
        /\ map cp (info (eb e')) = [98; 97; 803; 769] /\ cls (info (eb e')) = [0; 1; 1; 1]).
Proof.
  cbv zeta. split.
  { exists (fun u => if u =? 225 then 1%nat else 0%nat). split.
    - intros ab a b H. destruct (Z.eqb_spec ab 225) as [->|N]; [|discriminate]. inversion H; subst. cbn. lia.
    - intros u. destruct (u =? 225); lia. }
  split; [repeat split|].
  split; eexists; (split; [vm_compute; reflexivity|split; reflexivity]).
Qed.

(* otLayoutDeleteGlyphsInplace, for EVERY filter and every buffer between passes: returns normally, keeps WF, and the
   cluster sequence of the result is a stutter-subsequence of the input's (every value that remains is a value of the input,
   in order: a deleted glyph's cluster is merged into a neighbour, never invented) *)
Theorem ot_delete_glyphs_inplace_preserves_wf : forall lo hi filt b,
  (level b =? 2) = false -> WF lo hi b = true -> have_out b = false -> idx b = 0 ->
  exists b', ot_delete_glyphs_inplace filt b = Ok b' /\ WF lo hi b' = true /\ level b' = level b /\ have_out b' = false /\ idx b' = 0
    /\ ss (cls (info b)) (cls (info b')).
Proof. exact ot_delete_glyphs_inplace_wf. Qed.
Print Assumptions ot_delete_glyphs_inplace_preserves_wf.

(* ... and while a glyph remains the smallest cluster value is kept (the rune accounting of countClusters relies on it) *)
Theorem ot_delete_glyphs_inplace_keeps_min : forall filt b b',
  (level b =? 2) = false -> have_out b = false -> idx b = 0 ->
  ot_delete_glyphs_inplace filt b = Ok b' -> info b' <> [] -> lmin (cls (info b')) = lmin (cls (info b)).
Proof. exact ot_delete_glyphs_inplace_min. Qed.
Print Assumptions ot_delete_glyphs_inplace_keeps_min.

(* hideDefaultIgnorables (both branches: the invisible glyph / deletion), for every font and flags *)
Theorem hide_default_ignorables_preserves_wf : forall nominal lo hi e, EWF lo hi e -> idx (eb e) = 0 ->
  exists e', hide_default_ignorables nominal e = Ok e' /\ EWF lo hi e' /\ level (eb e') = level (eb e) /\ idx (eb e') = 0 /\ dir e' = dir e.
Proof. exact hide_default_ignorables_wf. Qed.
Print Assumptions hide_default_ignorables_preserves_wf.

Theorem hide_default_ignorables_keeps_clusters : forall nominal e e',
  (level (eb e) =? 2) = false -> have_out (eb e) = false -> idx (eb e) = 0 ->
  hide_default_ignorables nominal e = Ok e' ->
  ss (cls (info (eb e))) (cls (info (eb e')))
  /\ (info (eb e') <> [] -> lmin (cls (info (eb e'))) = lmin (cls (info (eb e)))).
Proof. exact hide_default_ignorables_ss. Qed.
Print Assumptions hide_default_ignorables_keeps_clusters.

(* non-vacuity: ZWNJ (ignorable, cluster 0) before "a b", no space glyph in the font: the ZWNJ is deleted and its cluster is
   merged forward (cluster 0 survives on "a") *)
Example hide_default_ignorables_example :
  let mk := fun c u p => mkGX c fl0 0 u 0 p 0 in
  let e := mkE (mkB [mk 0 8204 (1 + 32 + 512); mk 1 97 7; mk 2 98 7] [] 0 false 3 3 0 false false false)
               [] [] true true false false false false false false 4 0 0 in
  EWF 0 3 e /\ exists e', hide_default_ignorables (fun _ => (0, false)) e = Ok e'
    /\ map cp (info (eb e')) = [97; 98] /\ cls (info (eb e')) = [0; 2] /\ EWF 0 3 e'.
Proof. cbv zeta. split; [repeat split|]. eexists. split; [vm_compute; reflexivity|]. repeat split. Qed.

(* ensureMonotoneClusters is a safety net: for ANY buffer (clusters in arbitrary order, no well-formedness assumed, cluster
   level other than Characters) it returns normally and leaves the clusters monotone in the order asked for (ascending
   = non-decreasing), keeps the length, the cursor and the level, invents no cluster value and keeps the smallest one *)
Theorem ensure_monotone_clusters_makes_monotone : forall asc b, (level b =? 2) = false -> 0 <= idx b ->
  exists b', ensure_monotone_clusters asc b = Ok b'
    /\ mono (negb asc) (cls (info b')) = true /\ zlen (info b') = zlen (info b)
    /\ have_out b' = have_out b /\ idx b' = idx b /\ level b' = level b
    /\ ((forall x, In x (cls (info b')) -> In x (cls (info b))) /\ (cls (info b') <> [] -> lmin (cls (info b')) = lmin (cls (info b)))).
Proof. exact ensure_monotone_clusters_monotone_keeps. Qed.
Print Assumptions ensure_monotone_clusters_makes_monotone.

(* non-vacuity: a buffer out of order in both senses, both requests *)
Example ensure_monotone_clusters_any_example :
  let mk := fun l => mkB (map (fun c => mkG c fl0 0 65 1) l) [] 0 false 0 0 0 false false false in
  (exists b', ensure_monotone_clusters true (mk [3; 1; 4; 1; 5; 2]) = Ok b' /\ cls (info b') = [1; 1; 1; 1; 2; 2])
  /\ (exists b', ensure_monotone_clusters false (mk [3; 1; 4; 1; 5; 2]) = Ok b' /\ cls (info b') = [1; 1; 1; 1; 1; 1]).
Proof. cbv zeta. split; eexists; (split; [vm_compute; reflexivity|reflexivity]). Qed.

(* THE WHOLE DEFAULT PIPELINE, as far as clusters are concerned:
     AddRunes -> setUnicodeProps -> insertDottedCircle -> formClusters -> ensureNativeDirection -> otShapeNormalize
     -> any sequence os of the 30 modelled Buffer operations (standing for the application of GSUB / GPOS / morx lookups)
        used under their preconditions and leaving the buffer between passes (ops_ok: pres_hold, ops_rng, at the end no
        output in progress and the cursor at 0)
     -> hideDefaultIgnorables -> ensureMonotoneClusters (emc = Some ascending when the shaper asks for it)
   returns normally and preserves the C01 invariant EWF (cursor bounds, clusters monotone in one direction and inside
   [lo, hi), no output in progress), for EVERY text, item offset / length, direction, script direction, buffer flags,
   cluster level MonotoneGraphemes / MonotoneCharacters, Unicode data with general categories below 32, cmap, variation
   sequences, well-founded decomposition, composition function, normalization mode and reorderMarks variant *)
Theorem default_pipeline_preserves_wf :
  forall ugc udi umcc uextpict uspace nominal variation sdecomp scomp smode sreorder is_mcm dfuel
         lo hi horiz text off len0 newcap os emc e0,
  (forall u, 0 <= ugc u < 32) -> decomp_wf sdecomp dfuel ->
  EWF lo hi e0 -> idx (eb e0) = 0 -> level (eb e0) = 0 \/ level (eb e0) = 1 ->
  pre (OAddRunes text off len0 newcap) (eb e0) = true -> op_rng lo hi (OAddRunes text off len0 newcap) = true ->
  (forall e1 e2, e_add_runes e0 text off len0 newcap = Ok e1 ->
     pre_gsub ugc udi umcc uextpict uspace nominal variation sdecomp scomp smode sreorder is_mcm dfuel horiz e1 = Ok e2 ->
     ops_ok lo hi os (eb e2)) ->
  exists e', default_pipeline ugc udi umcc uextpict uspace nominal variation sdecomp scomp smode sreorder is_mcm dfuel
               horiz text off len0 newcap os emc e0 = Ok e' /\ EWF lo hi e'.
Proof. exact default_pipeline_wf. Qed.
Print Assumptions default_pipeline_preserves_wf.

(* non-vacuity: "a U+0301 ZWNJ b" at MonotoneGraphemes, RTL requested in a natively LTR script, composed-diacritics mode,
   a font with U+00E1 and no space glyph; the lookups are stood for by a pass that copies every glyph (clearOutput,
   nextGlyphs, swapBuffers); the shaper asks for ensureMonotoneClusters (descending) *)
Example default_pipeline_example :
  let ugc := fun r => if r =? 769 then 12 else if r =? 8204 then 1 else 7 in
  let udi := fun r => r =? 8204 in
  let umcc := fun r => if r =? 769 then 230 else 0 in
  let sdecomp := fun r => if r =? 225 then Some (97, 769) else None in
  let scomp := fun a b => if (a =? 97) && (b =? 769) then Some 225 else None in
  let nominal := fun r : Z => (r, negb (r =? 32)) in
  let e0 := mkE (mkB [] [] 0 false 0 0 0 false false false) [] [] false false false false false false false false 5 0 0 in
  let os := [OClearOut; ONextN 3; OSwap] in
  let run := default_pipeline ugc udi umcc (fun _ => false) (fun _ => 0) nominal (fun _ _ => (0, false)) sdecomp scomp 2 0
               (fun _ => false) 40 4 [97; 769; 8204; 98] 0 4 4 os (Some false) e0 in
  (forall u, 0 <= ugc u < 32) /\ decomp_wf sdecomp 40 /\ EWF 0 4 e0
  /\ pre (OAddRunes [97; 769; 8204; 98] 0 4 4) (eb e0) = true /\ op_rng 0 4 (OAddRunes [97; 769; 8204; 98] 0 4 4) = true
  /\ (forall e1 e2, e_add_runes e0 [97; 769; 8204; 98] 0 4 4 = Ok e1 ->
        pre_gsub ugc udi umcc (fun _ => false) (fun _ => 0) nominal (fun _ _ => (0, false)) sdecomp scomp 2 0 (fun _ => false) 40 4 e1 = Ok e2 ->
        ops_ok 0 4 os (eb e2))
  /\ exists e', run = Ok e' /\ map cp (info (eb e')) = [98; 225] /\ cls (info (eb e')) = [2; 0] /\ dir e' = 4 /\ EWF 0 4 e'.
Proof.
  cbv zeta. split.
  { intros u. destruct (u =? 769); [lia|]. destruct (u =? 8204); lia. }
  split.
  { exists (fun u => if u =? 225 then 1%nat else 0%nat). split.
    - intros ab a b H. destruct (Z.eqb_spec ab 225) as [->|N]; [|discriminate]. inversion H; subst. cbn. lia.
    - intros u. destruct (u =? 225); lia. }
  split; [repeat split|]. split; [reflexivity|]. split; [reflexivity|]. split.
  { intros e1 e2 E1 E2. vm_compute in E1. injection E1 as <-. vm_compute in E2. injection E2 as <-.
    split; [apply pres_ok_sound; vm_compute; reflexivity|]. split; [apply ops_rng_b; reflexivity|].
    intros b' E. vm_compute in E. injection E as <-. split; reflexivity. }
  eexists. split; [vm_compute; reflexivity|]. repeat split.
Qed.

(* --- part 6: cluster accounting ("nothing lost, nothing invented") of the stages around the lookups ---
   bkeeps b b' (Proofs/EngineKeep.v): every cluster value of the glyph sequence of b' (output so far ++ unread input) is a
   cluster value of the glyph sequence of b, and while b' holds a glyph its smallest cluster value is the smallest one of b *)

(* decompose round: the output clusters are the input clusters with their multiplicity changed *)
Theorem normalize_decompose_round_keeps_clusters :
  forall ugc udi umcc uspace nominal variation sdecomp dfuel lo hi fuel count might always simple e r,
  ((level (eb e) =? 2) = false /\ WF lo hi (eb e) = true /\ have_out (eb e) = true) ->
  count = zlen (info (eb e)) -> idx (eb e) < count -> (Z.to_nat (count - idx (eb e)) <= fuel)%nat ->
  round1 ugc udi umcc uspace nominal variation sdecomp dfuel fuel count might always simple e = Ok r ->
  bkeeps (eb e) (eb (fst r)).
Proof. exact round1_keeps. Qed.
Print Assumptions normalize_decompose_round_keeps_clusters.

(* reorder round (sort merging the clusters of what it moves over, reorderMarks) and CGJ pass *)
Theorem normalize_reorder_round_keeps_clusters : forall sreorder is_mcm lo hi fuel count b i b',
  (level b =? 2) = false -> WF lo hi b = true -> have_out b = false -> count = zlen (info b) -> 0 <= i ->
  round2 sreorder is_mcm fuel count b i = Ok b' -> bkeeps b b'.
Proof. exact round2_keeps. Qed.
Print Assumptions normalize_reorder_round_keeps_clusters.

(* recompose round: mergeOutClusters over starter .. composed mark, then the mark is dropped; its cluster stays on the starter *)
Theorem normalize_recompose_round_keeps_clusters : forall ugc udi umcc nominal scomp lo hi fuel count starter e e',
  (level (eb e) =? 2) = false -> WF lo hi (eb e) = true -> have_out (eb e) = true ->
  count = zlen (info (eb e)) -> 0 <= starter -> starter < zlen (out (eb e)) ->
  (Z.to_nat (count - idx (eb e)) <= fuel)%nat ->
  round3 ugc udi umcc nominal scomp fuel count starter e = Ok e' -> bkeeps (eb e) (eb e').
Proof. exact round3_keeps. Qed.
Print Assumptions normalize_recompose_round_keeps_clusters.

(* otShapeNormalize as a whole *)
Theorem ot_shape_normalize_keeps_clusters :
  forall ugc udi umcc uspace nominal variation sdecomp scomp smode sreorder is_mcm dfuel lo hi e e', EWF lo hi e ->
  normalize ugc udi umcc uspace nominal variation sdecomp scomp smode sreorder is_mcm dfuel e = Ok e' -> bkeeps (eb e) (eb e').
Proof. exact normalize_keeps. Qed.
Print Assumptions ot_shape_normalize_keeps_clusters.

(* setUnicodeProps .. otShapeNormalize *)
Theorem pre_gsub_keeps_clusters :
  forall ugc udi umcc uextpict uspace nominal variation sdecomp scomp smode sreorder is_mcm dfuel lo hi horiz e e',
  (forall u, 0 <= ugc u < 32) -> EWF lo hi e -> idx (eb e) = 0 -> level (eb e) = 0 \/ level (eb e) = 1 ->
  pre_gsub ugc udi umcc uextpict uspace nominal variation sdecomp scomp smode sreorder is_mcm dfuel horiz e = Ok e' ->
  bkeeps (eb e) (eb e').
Proof. exact pre_gsub_keeps. Qed.
Print Assumptions pre_gsub_keeps_clusters.

(* hence, for EVERY text and item (offset, length; -1 = to the end) added to an empty buffer, after everything that precedes
   the lookups every cluster is a rune index of the item and, whenever a glyph is there, the smallest cluster is the first
   rune of the item: with count_clusters_correct, the per-cluster rune counts then sum to the item length *)
Theorem pre_gsub_accounts_for_the_item :
  forall ugc udi umcc uextpict uspace nominal variation sdecomp scomp smode sreorder is_mcm dfuel horiz e0 text off len0 newcap e1 e2,
  let len := add_runes_len text off len0 in
  (forall u, 0 <= ugc u < 32) ->
  info (eb e0) = [] -> EWF off (off + len) e0 -> idx (eb e0) = 0 -> level (eb e0) = 0 \/ level (eb e0) = 1 ->
  pre (OAddRunes text off len0 newcap) (eb e0) = true ->
  e_add_runes e0 text off len0 newcap = Ok e1 ->
  pre_gsub ugc udi umcc uextpict uspace nominal variation sdecomp scomp smode sreorder is_mcm dfuel horiz e1 = Ok e2 ->
  (forall c, In c (cls (info (eb e2))) -> off <= c < off + len)
  /\ (info (eb e2) <> [] -> lmin (cls (info (eb e2))) = off).
Proof. exact pre_gsub_accounts. Qed.
Print Assumptions pre_gsub_accounts_for_the_item.

(* the stages after the lookups *)
Theorem hide_default_ignorables_bkeeps : forall nominal e e',
  (level (eb e) =? 2) = false -> have_out (eb e) = false -> idx (eb e) = 0 ->
  hide_default_ignorables nominal e = Ok e' -> bkeeps (eb e) (eb e').
Proof. exact hide_default_ignorables_keeps. Qed.
Print Assumptions hide_default_ignorables_bkeeps.

(* non-vacuity: the item "U+00E1 U+0323 ZWNJ" at offset 1 of "x U+00E1 U+0323 ZWNJ y" (no glyph for U+00E1: it is decomposed and
   the marks are reordered), RTL in a natively LTR script: clusters 3 1 1 1, the smallest is the item offset *)
Example pre_gsub_accounts_example :
  let ugc := fun r => if (r =? 769) || (r =? 803) then 12 else if r =? 8204 then 1 else 7 in
  let udi := fun r => r =? 8204 in
  let umcc := fun r => if r =? 769 then 230 else if r =? 803 then 220 else 0 in
  let sdecomp := fun r => if r =? 225 then Some (97, 769) else None in
  let nominal := fun r : Z => (r, negb (r =? 225)) in
  let e0 := mkE (mkB [] [] 0 false 0 0 0 false false false) [] [] false false false false false false false false 5 0 0 in
  EWF 1 4 e0 /\ pre (OAddRunes [120; 225; 803; 8204; 121] 1 3 3) (eb e0) = true
  /\ exists e1 e2, e_add_runes e0 [120; 225; 803; 8204; 121] 1 3 3 = Ok e1
       /\ pre_gsub ugc udi umcc (fun _ => false) (fun _ => 0) nominal (fun _ _ => (0, false)) sdecomp (fun _ _ => None) 2 0 (fun _ => false) 40 4 e1 = Ok e2
       /\ map cp (info (eb e2)) = [8204; 97; 803; 769] /\ cls (info (eb e2)) = [3; 1; 1; 1] /\ ctx_pre e2 = [120] /\ ctx_post e2 = [121].
Proof.
  cbv zeta. split; [repeat split|]. split; [reflexivity|].
  eexists. eexists. split; [vm_compute; reflexivity|]. split; [vm_compute; reflexivity|]. repeat split.
Qed.

(* the buffer operations themselves: every modelled operation keeps the relation under its precondition, except the four
   that cannot (op_safe excludes skipGlyph with output in progress, removeOutput(true), AddRune(s), and replaceGlyphs with
   an EMPTY replacement; each has a vm_compute counterexample in Proofs/EngineKeepOps.v) *)
Theorem buffer_op_keeps_clusters : forall lo hi o b b',
  (level b =? 2) = false -> WF lo hi b = true -> pre o b = true -> op_safe o = true -> run_op o b = Ok b' -> bkeeps b b'.
Proof. exact op_keeps. Qed.
Print Assumptions buffer_op_keeps_clusters.

Theorem buffer_ops_keep_clusters : forall lo hi os b b',
  (level b =? 2) = false -> WF lo hi b = true -> pres_hold os b -> ops_rng lo hi os ->
  Forall (fun o => op_safe o = true) os -> run_ops os b = Ok b' -> bkeeps b b'.
Proof. exact run_ops_keeps. Qed.
Print Assumptions buffer_ops_keep_clusters.

(* THE WHOLE DEFAULT PIPELINE ACCOUNTS FOR EVERY RUNE OF THE ITEM when the lookups are stood for by accounting-safe
   operations: the result satisfies the invariant, every cluster is a rune index of the item and, whenever at least one
   glyph is produced, the smallest cluster is the first rune of the item (so, by count_clusters_correct, the per-cluster rune
   counts sum to the item length) *)
Theorem default_pipeline_accounts_for_the_item :
  forall ugc udi umcc uextpict uspace nominal variation sdecomp scomp smode sreorder is_mcm dfuel
         horiz e0 text off len0 newcap os emc e',
  let len := add_runes_len text off len0 in
  (forall u, 0 <= ugc u < 32) ->
  info (eb e0) = [] -> EWF off (off + len) e0 -> idx (eb e0) = 0 -> level (eb e0) = 0 \/ level (eb e0) = 1 ->
  pre (OAddRunes text off len0 newcap) (eb e0) = true ->
  (forall e1 e2, e_add_runes e0 text off len0 newcap = Ok e1 ->
     pre_gsub ugc udi umcc uextpict uspace nominal variation sdecomp scomp smode sreorder is_mcm dfuel horiz e1 = Ok e2 ->
     ops_ok off (off + len) os (eb e2)) ->
  Forall (fun o => op_safe o = true) os ->
  default_pipeline ugc udi umcc uextpict uspace nominal variation sdecomp scomp smode sreorder is_mcm dfuel
    horiz text off len0 newcap os emc e0 = Ok e' ->
  EWF off (off + len) e'
  /\ (forall c, In c (cls (info (eb e'))) -> off <= c < off + len)
  /\ (info (eb e') <> [] -> lmin (cls (info (eb e'))) = off).
Proof. exact default_pipeline_accounts. Qed.
Print Assumptions default_pipeline_accounts_for_the_item.

(* non-vacuity: the operations of default_pipeline_example are accounting-safe (and a pass with a ligature substitution
   2 -> 1, a deletion and a multiple substitution 1 -> 2 is too, under its preconditions) *)
Example accounting_safe_example :
  Forall (fun o => op_safe o = true) [OClearOut; ONextN 3; OSwap]
  /\ let b := mkB [mkG 0 fl0 0 65 1; mkG 1 fl0 0 66 2; mkG 2 fl0 0 67 3; mkG 3 fl0 0 68 4] [] 0 false 4 4 0 false false false in
     let os := [OClearOut; OReplace 2 None (Some [9]); ODelete; OReplace 1 None (Some [7; 8]); OSwap] in
     Forall (fun o => op_safe o = true) os /\ WF 0 4 b = true /\ pres_hold os b
     /\ exists b', run_ops os b = Ok b' /\ cls (info b') = [0; 3; 3] /\ bkeeps b b'.
Proof.
  split; [repeat constructor|]. cbv zeta.
  split; [repeat constructor|]. split; [reflexivity|]. split; [apply pres_ok_sound; vm_compute; reflexivity|].
  eexists. split; [vm_compute; reflexivity|]. split; [reflexivity|].
  eapply (run_ops_keeps 0 4 [OClearOut; OReplace 2 None (Some [9]); ODelete; OReplace 1 None (Some [7; 8]); OSwap]);
    [reflexivity|reflexivity|apply pres_ok_sound; vm_compute; reflexivity|apply ops_rng_b; reflexivity|repeat constructor|vm_compute; reflexivity].
Qed.

(* --- part 3: the recursion budget of the OpenType layout engine (after the F1 fix) --- *)

(* For EVERY lookup body (which may re-enter recurse arbitrarily), every lookup index and every initial maxOps, a
   top-level recurse with 7 = maxNestingLevel + 1 units of fuel terminates (no OutOfFuel), restores nestingLevelLeft,
   never nests recurseFunc deeper than maxNestingLevel = 6, and enters it at most max(0, maxOps) times. *)
Theorem recursion_bounded : forall body sub maxops,
  exists st' r, recurse body 7 (mkR max_nesting_level maxops 0 0 0) sub = Ok (st', r)
    /\ nest st' = max_nesting_level
    /\ maxdepth st' <= max_nesting_level
    /\ 0 <= entries st' <= Z.max 0 maxops
    /\ ops st' <= maxops.
Proof. exact recursion_bounded_lemma. Qed.
Print Assumptions recursion_bounded.

(* non-vacuity: the self-referencing lookup of F1 reaches depth 6 and stops *)
Example recursion_example :
  exists st, recurse (fun _ _ _ => [0]) 7 (mkR max_nesting_level 16384 0 0 0) 0 = Ok (st, true)
    /\ maxdepth st = 6 /\ entries st = 6 /\ ops st = 16378.
Proof. eexists. vm_compute. repeat split. Qed.
