(* C12 — Shaped output geometry is self-consistent.  Property theorems only. *)
From TV Require Import Lib.GoNum Lib.Res Model.Output Spec.Geometry Proofs.Output.
From TV Require Import Model.ShapeConv Spec.ShapeConv Proofs.ShapeConv.

(* the run advance is the sum of the glyph advances along the run's axis after each of the methods that maintain it,
   for every run (any glyph list, any direction bits) *)
Theorem advance_is_axis_sum : forall o,
  advance_ok (recompute_advance o) = true
  /\ advance_ok (recalculate_all o) = true
  /\ (forall text s o', add_word_spacing o text s = Ok o' -> advance_ok o' = true)
  /\ (forall s st en o', add_letter_spacing o s st en = Ok o' -> advance_ok o' = true)
  /\ advance_ok (recalculate_all (sideways o)) = true.
Proof. exact advance_lemma. Qed.
Print Assumptions advance_is_axis_sum.

(* RecalculateAll: GlyphBounds enclose the baseline (Ascent >= 0 >= Descent), have no Gap and enclose the ink box of
   every glyph on the cross axis, for all runs whose glyph extents have the usual orientation (Width >= 0, Height <= 0);
   and they are tight: each bound is 0 or attained by a glyph *)
Theorem glyph_bounds_enclose : forall o, forallb extents_oriented (o_glyphs o) = true ->
  bounds_enclose (recalculate_all o) = true.
Proof. exact bounds_enclose_lemma. Qed.
Print Assumptions glyph_bounds_enclose.

Theorem glyph_bounds_tight : forall o,
  let v := is_vertical (o_dir o) in
  let b := o_gbounds (recalculate_all o) in
  (b_ascent b = 0 \/ exists g, In g (o_glyphs o) /\ b_ascent b = (if v then g_xoff g + g_xbearing g + g_width g else g_ybearing g + g_yoff g))
  /\ (b_descent b = 0 \/ exists g, In g (o_glyphs o) /\ b_descent b = (if v then g_xoff g + g_xbearing g else g_ybearing g + g_yoff g + g_height g)).
Proof. exact bounds_tight_lemma. Qed.
Print Assumptions glyph_bounds_tight.

(* sideways: every glyph of the result is the 90 degree clockwise rotation, around the dot, of the horizontal glyph
   (ink box corners and advance vector mapped by (x, y) -> (y, -x), text mapping kept); the run advance changes sign,
   the glyph bounds are carried over unchanged and the direction becomes vertical-sideways with the same progression.
   All horizontal runs whose cross-axis advances are zero (what the engine produces). *)
Theorem sideways_is_rotation : forall h, is_vertical (o_dir h) = false -> cross_zero h = true ->
  sideways_ok (recalculate_all h) (recalculate_all (sideways h)) = true.
Proof. exact sideways_lemma. Qed.
Print Assumptions sideways_is_rotation.

(* word spacing: whenever AddWordSpacing returns, exactly the eligible glyphs (a word separator shaped one rune to
   one glyph) grow by s along the axis, nothing else changes in advances, shapes, cluster data or letter spacing
   bookkeeping, Advance = old sum + s * number of eligible glyphs = new sum; and it returns whenever the cluster
   indices lie inside the text *)
Theorem word_spacing_exact : forall o text s,
  (forall o', add_word_spacing o text s = Ok o' -> word_spacing_ok text s o o' = true)
  /\ (Forall (fun g => 0 <= g_cluster g < zlen text) (o_glyphs o) -> exists o', add_word_spacing o text s = Ok o').
Proof. intros o text s. split; [intros o'; apply word_spacing_lemma | apply word_spacing_total]. Qed.
Print Assumptions word_spacing_exact.

(* trimStartLetterSpacing removes from the first glyph exactly the recorded start spacing (advance and bookkeeping),
   touches nothing else and leaves Advance to the caller *)
Theorem trim_start_exact : forall o, trim_start_ok o (trim_start_letter_spacing o) = true
  /\ o_adv (trim_start_letter_spacing o) = o_adv o /\ o_dir (trim_start_letter_spacing o) = o_dir o.
Proof. exact trim_start_lemma. Qed.
Print Assumptions trim_start_exact.

(* letter spacing: for every run whose glyphs are the concatenation of clusters (each cluster: non-empty, one
   ClusterIndex, GlyphCount = its size, neighbouring clusters with different ClusterIndex), any spacing value (odd,
   negative, zero) and any run position flags, AddLetterSpacing terminates without panic and its result satisfies
   Spec.letter_spacing_ok: per glyph, the advance grows by exactly the growth of its start/endLetterSpacing
   bookkeeping; the start share s/2 is added exactly at the first glyph of every cluster except at the start of the
   text, the end share s - s/2 exactly at the last glyph of every cluster except at the end of the text (so every
   boundary between two clusters, also across adjacent runs, receives exactly s); shapes, cross-axis advances and
   cluster data are unchanged; Advance = old sum + s*(clusters-1) + outer shares = new sum. *)
Theorem letter_spacing_exact : forall o s is_start is_end cs,
  o_glyphs o = concat cs -> wf_clusters None cs ->
  exists o', add_letter_spacing o s is_start is_end = Ok o' /\ letter_spacing_ok s is_start is_end o o' = true.
Proof. exact letter_spacing_lemma. Qed.
Print Assumptions letter_spacing_exact.

(* ---- non-vacuity ---------------------------------------------------------------------------- *)
Definition exg (w h xa cl rc gc : Z) : glyph := mkGlyph w h 0 (- h) xa 0 0 0 cl rc gc 0 0.
(* three clusters (one of two glyphs), odd spacing 3/64 px inside a text (no adjacent run): the two inner boundaries
   receive 2+1 = 3 each, the outer sides nothing *)
Example letter_example :
  let cs := [[exg 10 (-20) 12 0 1 1]; [exg 10 (-20) 12 1 2 2; exg 4 (-20) 0 1 2 2]; [exg 10 (-20) 12 3 1 1]] in
  let o := mkOut 36 (concat cs) (mkBounds 20 0 0) 0 in
  wf_clusters None cs
  /\ (forall o', add_letter_spacing o 3 true true = Ok o' ->
        map g_xadv (o_glyphs o') = [14; 13; 2; 13] /\ o_adv o' = 42 /\ map g_endls (o_glyphs o') = [2; 0; 2; 0]
        /\ map g_startls (o_glyphs o') = [0; 1; 0; 1]).
Proof.
  cbv zeta. split.
  - cbn. unfold head_ok, cidx. cbn. repeat split; try discriminate; repeat constructor; lia.
  - vm_compute. intros o' H. inversion H. repeat split; reflexivity.
Qed.
(* word spacing on a real-looking run; sideways; bounds *)
Example geometry_example :
  let o := mkOut 0 [exg 10 (-20) 12 0 1 1; exg 0 0 5 1 1 1; exg 8 (-15) 9 2 1 1] (mkBounds 0 0 0) 0 in
  (exists o', add_word_spacing o [97; 32; 98] 7 = Ok o' /\ map g_xadv (o_glyphs o') = [12; 12; 9] /\ o_adv o' = 33)
  /\ forallb extents_oriented (o_glyphs o) = true /\ cross_zero o = true /\ is_vertical (o_dir o) = false
  /\ o_adv (recalculate_all (sideways o)) = -26 /\ o_gbounds (recalculate_all (sideways o)) = mkBounds 20 0 0.
Proof. cbv zeta. split; [eexists; vm_compute; repeat split; reflexivity|vm_compute; repeat split; reflexivity]. Qed.

(* ==== the conversion part of HarfbuzzShaper.Shape (Model/ShapeConv.v) ==========================================
   eng   : font scale -> harfbuzz direction -> buffer contents (Info/Pos) after Buffer.Shape      (the engine)
   ext   : font scale -> glyph id -> harfbuzz.Font.GlyphExtents                                   (None = not ok)
   fext  : font scale -> harfbuzz direction -> harfbuzz.Font.ExtentsForDirection (float32 fields)
   are universally quantified: the theorems hold for every engine result, every extents function, every font. *)

(* The fixed point conversions of Shape.
   (1,2) `fixed.I(int(v)) >> scaleShift` returns v exactly when -2^25 <= v < 2^25, and for no other v (outside, the
         int32 behind fixed.Int26_6 wraps);
   (3)   for 0 <= Size <= 2^31-64 (26.6) the font scale is the size rounded UP to whole pixels, times 64: the engine
         works in 1/64 of the pixel grid of ceil(Size), so a fractional size is shaped like the next whole pixel size;
   (4)   whole pixel sizes below 2^25 px are taken over exactly;
   (5)   hence every engine value smaller in magnitude than n em (n * font scale) converts exactly as long as
         n * ceil(Size px) <= 2^19: up to 128 em at Size <= 4096 px, 8 em at 65536 px. *)
Theorem scale_roundtrip :
  (forall x, - 2 ^ 25 <= x < 2 ^ 25 -> fix_conv x = x)
  /\ (forall x, fix_conv x = x -> - 2 ^ 25 <= x < 2 ^ 25)
  /\ (forall size, 0 <= size <= 2 ^ 31 - 64 ->
        font_scale size = 64 * ((size + 63) / 64) /\ size <= font_scale size < size + 64)
  /\ (forall px, 0 <= px < 2 ^ 25 -> font_scale (64 * px) = 64 * px)
  /\ (forall size n x, 0 <= size <= 2 ^ 31 - 64 -> 0 <= n -> n * ((size + 63) / 64) <= 2 ^ 19 ->
        Z.abs x < n * font_scale size -> fix_conv x = x).
Proof. exact scale_roundtrip_lemma. Qed.
Print Assumptions scale_roundtrip.

(* For every engine, extents function, font, size, direction byte and run bounds: the Output of Shape satisfies
   Advance = sum of its glyph advances along the run's axis, and this sum is the sum over the engine's glyphs (those
   the font has extents for; Shape zeroes the others) of the converted axis advance: x_advance for horizontal runs,
   y_advance for upright vertical runs, MINUS x_advance for sideways runs (the engine was asked horizontally, at
   scale font_scale Size and direction co_hbdir). *)
Theorem shape_conv_advance_is_axis_sum : forall eng ext fext size dir run_start run_end,
  let r := shape_conv eng ext fext size dir run_start run_end in
  advance_ok (co_out r) = true
  /\ o_adv (co_out r) = hb_axis_sum ext (co_scale r) dir (eng (co_scale r) (co_hbdir r))
  /\ co_scale r = font_scale size
  /\ co_hbdir r = harfbuzz_dir (if is_sideways dir then horizontal_of dir else dir).
Proof.
  intros eng ext fext size dir rs re. cbv zeta.
  pose proof (conv_advance_lemma eng ext fext size dir rs re) as [A B].
  pose proof (conv_asks eng ext fext size dir rs re) as [C [D _]]. repeat split; assumption.
Qed.
Print Assumptions shape_conv_advance_is_axis_sum.

(* If the engine returns zero cross-axis advances for the axis it is asked (y_advance = 0 when asked horizontally:
   horizontal and sideways runs; x_advance = 0 when asked vertically: upright vertical runs), every glyph of the Output
   has a zero cross-axis advance.  Every engine result (all glyph lists). *)
Theorem shape_conv_cross_axis_zero : forall eng ext fext size dir run_start run_end,
  let r := shape_conv eng ext fext size dir run_start run_end in
  hb_cross_zero (engine_vertical dir) (eng (co_scale r) (co_hbdir r)) = true ->
  cross_zero (co_out r) = true.
Proof. exact conv_cross_lemma. Qed.
Print Assumptions shape_conv_cross_axis_zero.

(* The glue commutes with rotation: for a sideways direction byte, the Output is the rotation by 90 degrees clockwise
   (Spec.sideways_ok: every ink box corner and advance vector mapped by (x, y) -> (y, -x), cluster data kept, Advance
   negated, GlyphBounds carried over, direction = horizontal direction | vertical | sideways) of the Output computed for
   the same run treated as horizontal (vertical bits cleared) — the engine being asked exactly the same question
   (same scale, same harfbuzz direction), glyph ids, masks, Runes and Size identical, and LineBounds read from the
   font's vertical resp. horizontal extents.  Hypothesis: the engine's horizontal result has y_advance = 0. *)
Theorem shape_conv_sideways_is_rotation : forall eng ext fext size dir run_start run_end,
  is_sideways dir = true ->
  let v := shape_conv eng ext fext size dir run_start run_end in
  let h := shape_conv eng ext fext size (horizontal_of dir) run_start run_end in
  hb_cross_zero false (eng (co_scale h) (co_hbdir h)) = true ->
  sideways_ok (co_out h) (co_out v) = true
  /\ co_hbdir v = co_hbdir h /\ co_scale v = co_scale h /\ co_ids v = co_ids h
  /\ co_off v = co_off h /\ co_count v = co_count h /\ co_size v = co_size h
  /\ co_line v = line_of (fext (co_scale v) (harfbuzz_dir dir))
  /\ co_line h = line_of (fext (co_scale h) (harfbuzz_dir (horizontal_of dir))).
Proof. exact conv_sideways_lemma. Qed.
Print Assumptions shape_conv_sideways_is_rotation.

(* LineBounds are the font's extents for the direction of the run as requested (vertical extents for upright AND
   sideways vertical runs, although a sideways run is shaped horizontally), read at the scale co_scale r = font_scale
   Size that the engine and the glyph extents use, truncated towards zero (int(float32)) and converted by the same
   `fixed.I(..) >> scaleShift` as the glyph advances; exactly the truncated extents when these lie in [-2^25, 2^25). *)
Theorem shape_conv_line_bounds : forall eng ext fext size dir run_start run_end,
  let r := shape_conv eng ext fext size dir run_start run_end in
  let fe := fext (co_scale r) (harfbuzz_dir dir) in
  co_line r = line_of fe
  /\ co_scale r = font_scale size
  /\ harfbuzz_dir dir = (if is_vertical dir then (if toward dir then 7 else 6) else (if toward dir then 5 else 4))
  /\ harfbuzz_dir (o_dir (co_out r)) = harfbuzz_dir dir
  /\ (exact_range (f_trunc (fe_asc fe)) -> exact_range (f_trunc (fe_desc fe)) -> exact_range (f_trunc (fe_gap fe)) ->
      co_line r = mkBounds (f_trunc (fe_asc fe)) (f_trunc (fe_desc fe)) (f_trunc (fe_gap fe))).
Proof.
  intros eng ext fext size dir rs re. cbv zeta.
  pose proof (conv_line_lemma eng ext fext size dir rs re) as [A [B C]]. cbv zeta in A.
  pose proof (conv_asks eng ext fext size dir rs re) as [D _].
  repeat split; try assumption. intros X Y Z. rewrite A. apply line_of_exact; assumption.
Qed.
Print Assumptions shape_conv_line_bounds.

(* ---- non-vacuity ---------------------------------------------------------------------------- *)
(* the conversion wraps at 2^25; fractional sizes are rounded up; Size = 2^31-63 wraps to a negative scale *)
Example scale_example :
  fix_conv (2 ^ 25 - 1) = 2 ^ 25 - 1 /\ fix_conv (- 2 ^ 25) = - 2 ^ 25 /\ fix_conv (2 ^ 25) = - 2 ^ 25
  /\ font_scale (12 * 64 + 1) = 13 * 64 /\ font_scale (4096 * 64) = 2 ^ 18 /\ font_scale (2 ^ 31 - 63) = - 2 ^ 31.
Proof. vm_compute. repeat split; reflexivity. Qed.

(* an engine result of three glyphs (the second has no extents in the font) at 16 px, shaped LTR, sideways TTB and
   upright TTB (there the engine answers with y advances) *)
Definition ex_eng (scale hbdir : Z) : list hbglyph :=
  if hbdir <? 6 then [mkHB 5 0 0 600 0 0 0; mkHB 99 0 1 500 0 0 0; mkHB 7 0 2 300 0 10 (-20)]
  else [mkHB 5 0 0 0 (-1100) (-300) 0; mkHB 99 0 1 0 (-1000) 0 0; mkHB 7 0 2 0 (-900) (-150) 0].
Definition ex_ext (scale gid : Z) : option hbext := if gid =? 99 then None else Some (mkExt 20 700 500 (-710)).
Definition ex_fext (scale hbdir : Z) : fextents :=
  if hbdir <? 6 then mkFE (mkF 950 0) (mkF (-250) 0) (mkF 0 0) else mkFE (mkF 1 9) (mkF (-1) 9) (mkF 0 0).
Example conv_example :
  let h := shape_conv ex_eng ex_ext ex_fext 1024 0 0 3 in
  let v := shape_conv ex_eng ex_ext ex_fext 1024 14 0 3 in
  let u := shape_conv ex_eng ex_ext ex_fext 1024 6 0 3 in
  is_sideways 14 = true /\ horizontal_of 14 = 0
  /\ hb_cross_zero false (ex_eng 1024 4) = true /\ hb_cross_zero (engine_vertical 6) (ex_eng 1024 6) = true
  /\ co_scale h = 1024 /\ o_adv (co_out h) = 900 /\ o_adv (co_out v) = -900 /\ o_adv (co_out u) = -2000
  /\ map g_xadv (o_glyphs (co_out h)) = [600; 0; 300] /\ map g_yadv (o_glyphs (co_out v)) = [-600; 0; -300]
  /\ map g_yoff (o_glyphs (co_out v)) = [-520; 0; -530] /\ map g_xoff (o_glyphs (co_out v)) = [0; 0; -20]
  /\ co_line h = mkBounds 950 (-250) 0 /\ co_line v = mkBounds 512 (-512) 0 /\ co_line u = mkBounds 512 (-512) 0
  /\ o_gbounds (co_out v) = o_gbounds (co_out h) /\ o_dir (co_out v) = 14 /\ co_hbdir v = 4 /\ co_hbdir u = 6.
Proof. vm_compute. repeat split; reflexivity. Qed.
