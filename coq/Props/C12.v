(* C12 — Shaped output geometry is self-consistent.  Property theorems only. *)
From TV Require Import Lib.GoNum Lib.Res Model.Output Spec.Geometry Proofs.Output.
From TV Require Import Model.ShapeConv Spec.ShapeConv Proofs.ShapeConv.

(* the run advance is the sum of the glyph advances along the run's axis after each of the methods that maintain it,
   for every run (any glyph list, any direction bits) *)
Theorem advance_is_axis_sum : forall o,
  advance_ok (recompute_advance o) = true
  /\ advance_ok (recalculate_all o) = true
  /\ (forall text s o', add_word_spacing o text s = Ok o' -> advance_ok o' = true)
  /\ (forall s st en o', add_letter_spacing o s st en = Ok o' -> advance_ok o' = true)
  /\ advance_ok (recalculate_all (sideways o)) = true.
Proof. exact advance_lemma. Qed.
Print Assumptions advance_is_axis_sum.

(* RecalculateAll: GlyphBounds enclose the baseline (Ascent >= 0 >= Descent), have no Gap and enclose the ink box of
   every glyph on the cross axis, for all runs whose glyph extents have the usual orientation (Width >= 0, Height <= 0);
   and they are tight: each bound is 0 or attained by a glyph *)
Theorem glyph_bounds_enclose : forall o, forallb extents_oriented (o_glyphs o) = true ->
  bounds_enclose (recalculate_all o) = true.
Proof. exact bounds_enclose_lemma. Qed.
Print Assumptions glyph_bounds_enclose.

Theorem glyph_bounds_tight : forall o,
  let v := is_vertical (o_dir o) in
  let b := o_gbounds (recalculate_all o) in
  (b_ascent b = 0 \/ exists g, In g (o_glyphs o) /\ b_ascent b = (if v then g_xoff g + g_xbearing g + g_width g else g_ybearing g + g_yoff g))
  /\ (b_descent b = 0 \/ exists g, In g (o_glyphs o) /\ b_descent b = (if v then g_xoff g + g_xbearing g else g_ybearing g + g_yoff g + g_height g)).
Proof. exact bounds_tight_lemma. Qed.
Print Assumptions glyph_bounds_tight.

(* sideways: every glyph of the result is the 90 degree clockwise rotation, around the dot, of the horizontal glyph
   (ink box corners and advance vector mapped by (x, y) -> (y, -x), text mapping kept); the run advance changes sign,
   the glyph bounds are carried over unchanged and the direction becomes vertical-sideways with the same progression.
   All horizontal runs whose cross-axis advances are zero (what the engine produces). *)
Theorem sideways_is_rotation : forall h, is_vertical (o_dir h) = false -> cross_zero h = true ->
  sideways_ok (recalculate_all h) (recalculate_all (sideways h)) = true.
Proof. exact sideways_lemma. Qed.
Print Assumptions sideways_is_rotation.

(* word spacing: whenever AddWordSpacing returns, exactly the eligible glyphs (a word separator shaped one rune to
   one glyph) grow by s along the axis, nothing else changes in advances, shapes, cluster data or letter spacing
   bookkeeping, Advance = old sum + s * number of eligible glyphs = new sum; and it returns whenever the cluster
   indices lie inside the text *)
Theorem word_spacing_exact : forall o text s,
  (forall o', add_word_spacing o text s = Ok o' -> word_spacing_ok text s o o' = true)
  /\ (Forall (fun g => 0 <= g_cluster g < zlen text) (o_glyphs o) -> exists o', add_word_spacing o text s = Ok o').
Proof. intros o text s. split; [intros o'; apply word_spacing_lemma | apply word_spacing_total]. Qed.
Print Assumptions word_spacing_exact.

(* trimStartLetterSpacing removes from the first glyph exactly the recorded start spacing (advance and bookkeeping),
   touches nothing else and leaves Advance to the caller *)
Theorem trim_start_exact : forall o, trim_start_ok o (trim_start_letter_spacing o) = true
  /\ o_adv (trim_start_letter_spacing o) = o_adv o /\ o_dir (trim_start_letter_spacing o) = o_dir o.
Proof. exact trim_start_lemma. Qed.
Print Assumptions trim_start_exact.

(* letter spacing: for every run whose glyphs are the concatenation of clusters (each cluster: non-empty, one
   ClusterIndex, GlyphCount = its size, neighbouring clusters with different ClusterIndex), any spacing value (odd,
   negative, zero) and any run position flags, AddLetterSpacing terminates without panic and its result satisfies
   Spec.letter_spacing_ok: per glyph, the advance grows by exactly the growth of its start/endLetterSpacing
   bookkeeping; the start share s/2 is added exactly at the first glyph of every cluster except at the start of the
   text, the end share s - s/2 exactly at the last glyph of every cluster except at the end of the text (so every
   boundary between two clusters, also across adjacent runs, receives exactly s); shapes, cross-axis advances and
   cluster data are unchanged; Advance = old sum + s*(clusters-1) + outer shares = new sum. *)
Theorem letter_spacing_exact : forall o s is_start is_end cs,
  o_glyphs o = concat cs -> wf_clusters None cs ->
  exists o', add_letter_spacing o s is_start is_end = Ok o' /\ letter_spacing_ok s is_start is_end o o' = true.
Proof. exact letter_spacing_lemma. Qed.
Print Assumptions letter_spacing_exact.

(* ---- non-vacuity ---------------------------------------------------------------------------- *)
Definition exg (w h xa cl rc gc : Z) : glyph := mkGlyph w h 0 (- h) xa 0 0 0 cl rc gc 0 0.
(* three clusters (one of two glyphs), odd spacing 3/64 px inside a text (no adjacent run): the two inner boundaries
   receive 2+1 = 3 each, the outer sides nothing *)
Example letter_example :
  let cs := [[exg 10 (-20) 12 0 1 1]; [exg 10 (-20) 12 1 2 2; exg 4 (-20) 0 1 2 2]; [exg 10 (-20) 12 3 1 1]] in
  let o := mkOut 36 (concat cs) (mkBounds 20 0 0) 0 in
  wf_clusters None cs
  /\ (forall o', add_letter_spacing o 3 true true = Ok o' ->
        map g_xadv (o_glyphs o') = [14; 13; 2; 13] /\ o_adv o' = 42 /\ map g_endls (o_glyphs o') = [2; 0; 2; 0]
        /\ map g_startls (o_glyphs o') = [0; 1; 0; 1]).
Proof.
  cbv zeta. split.
  - cbn. unfold head_ok, cidx. cbn. repeat split; try discriminate; repeat constructor; lia.
  - vm_compute. intros o' H. inversion H. repeat split; reflexivity.
Qed.
(* word spacing on a real-looking run; sideways; bounds *)
Example geometry_example :
  let o := mkOut 0 [exg 10 (-20) 12 0 1 1; exg 0 0 5 1 1 1; exg 8 (-15) 9 2 1 1] (mkBounds 0 0 0) 0 in
  (exists o', add_word_spacing o [97; 32; 98] 7 = Ok o' /\ map g_xadv (o_glyphs o') = [12; 12; 9] /\ o_adv o' = 33)
  /\ forallb extents_oriented (o_glyphs o) = true /\ cross_zero o = true /\ is_vertical (o_dir o) = false
  /\ o_adv (recalculate_all (sideways o)) = -26 /\ o_gbounds (recalculate_all (sideways o)) = mkBounds 20 0 0.
Proof. cbv zeta. split; [eexists; vm_compute; repeat split; reflexivity|vm_compute; repeat split; reflexivity]. Qed.

(* ==== the conversion part of HarfbuzzShaper.Shape (Model/ShapeConv.v) ==========================================
   eng   : font scale -> harfbuzz direction -> buffer contents (Info/Pos) after Buffer.Shape      (the engine)
   ext   : font scale -> glyph id -> harfbuzz.Font.GlyphExtents                                   (None = not ok)
   fext  : font scale -> harfbuzz direction -> harfbuzz.Font.ExtentsForDirection (float32 fields)
   are universally quantified: the theorems hold for every engine result, every extents function, every font. *)

(* The fixed point conversions of Shape.
   (1,2) `fixed.I(int(v)) >> scaleShift` returns v exactly when -2^25 <= v < 2^25, and for no other v (outside, the
         int32 behind fixed.Int26_6 wraps);
   (3)   for 0 <= Size <= 2^31-64 (26.6) the font scale is the size rounded UP to whole pixels, times 64: the engine
         works in 1/64 of the pixel grid of ceil(Size), so a fractional size is shaped like the next whole pixel size;
   (4)   whole pixel sizes below 2^25 px are taken over exactly;
   (5)   hence every engine value smaller in magnitude than n em (n * font scale) converts exactly as long as
         n * ceil(Size px) <= 2^19: up to 128 em at Size <= 4096 px, 8 em at 65536 px. *)
Theorem scale_roundtrip :
  (forall x, - 2 ^ 25 <= x < 2 ^ 25 -> fix_conv x = x)
  /\ (forall x, fix_conv x = x -> - 2 ^ 25 <= x < 2 ^ 25)
  /\ (forall size, 0 <= size <= 2 ^ 31 - 64 ->
        font_scale size = 64 * ((size + 63) / 64) /\ size <= font_scale size < size + 64)
  /\ (forall px, 0 <= px < 2 ^ 25 -> font_scale (64 * px) = 64 * px)
  /\ (forall size n x, 0 <= size <= 2 ^ 31 - 64 -> 0 <= n -> n * ((size + 63) / 64) <= 2 ^ 19 ->
        Z.abs x < n * font_scale size -> fix_conv x = x).
Proof. exact scale_roundtrip_lemma. Qed.
Print Assumptions scale_roundtrip.

(* For every engine, extents function, font, size, direction byte and run bounds: the Output of Shape satisfies
   Advance = sum of its glyph advances along the run's axis, and this sum is the sum over the engine's glyphs (those
   the font has extents for; Shape zeroes the others) of the converted axis advance: x_advance for horizontal runs,
   y_advance for upright vertical runs, MINUS x_advance for sideways runs (the engine was asked horizontally, at
   scale font_scale Size and direction co_hbdir). *)
Theorem shape_conv_advance_is_axis_sum : forall eng ext fext size dir run_start run_end,
  let r := shape_conv eng ext fext size dir run_start run_end in
  advance_ok (co_out r) = true
  /\ o_adv (co_out r) = hb_axis_sum ext (co_scale r) dir (eng (co_scale r) (co_hbdir r))
  /\ co_scale r = font_scale size
  /\ co_hbdir r = harfbuzz_dir (if is_sideways dir then horizontal_of dir else dir).
Proof.
  intros eng ext fext size dir rs re. cbv zeta.
  pose proof (conv_advance_lemma eng ext fext size dir rs re) as [A B].
  pose proof (conv_asks eng ext fext size dir rs re) as [C [D _]]. repeat split; assumption.
Qed.
Print Assumptions shape_conv_advance_is_axis_sum.

(* If the engine returns zero cross-axis advances for the axis it is asked (y_advance = 0 when asked horizontally:
   horizontal and sideways runs; x_advance = 0 when asked vertically: upright vertical runs), every glyph of the Output
   has a zero cross-axis advance.  Every engine result (all glyph lists). *)
Theorem shape_conv_cross_axis_zero : forall eng ext fext size dir run_start run_end,
  let r := shape_conv eng ext fext size dir run_start run_end in
  hb_cross_zero (engine_vertical dir) (eng (co_scale r) (co_hbdir r)) = true ->
  cross_zero (co_out r) = true.
Proof. exact conv_cross_lemma. Qed.
Print Assumptions shape_conv_cross_axis_zero.

(* The glue commutes with rotation: for a sideways direction byte, the Output is the rotation by 90 degrees clockwise
   (Spec.sideways_ok: every ink box corner and advance vector mapped by (x, y) -> (y, -x), cluster data kept, Advance
   negated, GlyphBounds carried over, direction = horizontal direction | vertical | sideways) of the Output computed for
   the same run treated as horizontal (vertical bits cleared) — the engine being asked exactly the same question
   (same scale, same harfbuzz direction), glyph ids, masks, Runes and Size identical, and LineBounds read from the
   font's vertical resp. horizontal extents.  Hypothesis: the engine's horizontal result has y_advance = 0. *)
Theorem shape_conv_sideways_is_rotation : forall eng ext fext size dir run_start run_end,
  is_sideways dir = true ->
  let v := shape_conv eng ext fext size dir run_start run_end in
  let h := shape_conv eng ext fext size (horizontal_of dir) run_start run_end in
  hb_cross_zero false (eng (co_scale h) (co_hbdir h)) = true ->
  sideways_ok (co_out h) (co_out v) = true
  /\ co_hbdir v = co_hbdir h /\ co_scale v = co_scale h /\ co_ids v = co_ids h
  /\ co_off v = co_off h /\ co_count v = co_count h /\ co_size v = co_size h
  /\ co_line v = line_of (fext (co_scale v) (harfbuzz_dir dir))
  /\ co_line h = line_of (fext (co_scale h) (harfbuzz_dir (horizontal_of dir))).
Proof. exact conv_sideways_lemma. Qed.
Print Assumptions shape_conv_sideways_is_rotation.

(* LineBounds are the font's extents for the direction of the run as requested (vertical extents for upright AND
   sideways vertical runs, although a sideways run is shaped horizontally), read at the scale co_scale r = font_scale
   Size that the engine and the glyph extents use, truncated towards zero (int(float32)) and converted by the same
   `fixed.I(..) >> scaleShift` as the glyph advances; exactly the truncated extents when these lie in [-2^25, 2^25). *)
Theorem shape_conv_line_bounds : forall eng ext fext size dir run_start run_end,
  let r := shape_conv eng ext fext size dir run_start run_end in
  let fe := fext (co_scale r) (harfbuzz_dir dir) in
  co_line r = line_of fe
  /\ co_scale r = font_scale size
  /\ harfbuzz_dir dir = (if is_vertical dir then (if toward dir then 7 else 6) else (if toward dir then 5 else 4))
  /\ harfbuzz_dir (o_dir (co_out r)) = harfbuzz_dir dir
  /\ (exact_range (f_trunc (fe_asc fe)) -> exact_range (f_trunc (fe_desc fe)) -> exact_range (f_trunc (fe_gap fe)) ->
      co_line r = mkBounds (f_trunc (fe_asc fe)) (f_trunc (fe_desc fe)) (f_trunc (fe_gap fe))).
Proof.
  intros eng ext fext size dir rs re. cbv zeta.
  pose proof (conv_line_lemma eng ext fext size dir rs re) as [A [B C]]. cbv zeta in A.
  pose proof (conv_asks eng ext fext size dir rs re) as [D _].
  repeat split; try assumption. intros X Y Z. rewrite A. apply line_of_exact; assumption.
Qed.
Print Assumptions shape_conv_line_bounds.

(* ---- non-vacuity ---------------------------------------------------------------------------- *)
(* the conversion wraps at 2^25; fractional sizes are rounded up; Size = 2^31-63 wraps to a negative scale *)
Example scale_example :
  fix_conv (2 ^ 25 - 1) = 2 ^ 25 - 1 /\ fix_conv (- 2 ^ 25) = - 2 ^ 25 /\ fix_conv (2 ^ 25) = - 2 ^ 25
  /\ font_scale (12 * 64 + 1) = 13 * 64 /\ font_scale (4096 * 64) = 2 ^ 18 /\ font_scale (2 ^ 31 - 63) = - 2 ^ 31.
Proof. vm_compute. repeat split; reflexivity. Qed.

(* an engine result of three glyphs (the second has no extents in the font) at 16 px, shaped LTR, sideways TTB and
   upright TTB (there the engine answers with y advances) *)
Definition ex_eng (scale hbdir : Z) : list hbglyph :=
  if hbdir <? 6 then [mkHB 5 0 0 600 0 0 0; mkHB 99 0 1 500 0 0 0; mkHB 7 0 2 300 0 10 (-20)]
  else [mkHB 5 0 0 0 (-1100) (-300) 0; mkHB 99 0 1 0 (-1000) 0 0; mkHB 7 0 2 0 (-900) (-150) 0].
Definition ex_ext (scale gid : Z) : option hbext := if gid =? 99 then None else Some (mkExt 20 700 500 (-710)).
Definition ex_fext (scale hbdir : Z) : fextents :=
  if hbdir <? 6 then mkFE (mkF 950 0) (mkF (-250) 0) (mkF 0 0) else mkFE (mkF 1 9) (mkF (-1) 9) (mkF 0 0).
Example conv_example :
  let h := shape_conv ex_eng ex_ext ex_fext 1024 0 0 3 in
  let v := shape_conv ex_eng ex_ext ex_fext 1024 14 0 3 in
  let u := shape_conv ex_eng ex_ext ex_fext 1024 6 0 3 in
  is_sideways 14 = true /\ horizontal_of 14 = 0
  /\ hb_cross_zero false (ex_eng 1024 4) = true /\ hb_cross_zero (engine_vertical 6) (ex_eng 1024 6) = true
  /\ co_scale h = 1024 /\ o_adv (co_out h) = 900 /\ o_adv (co_out v) = -900 /\ o_adv (co_out u) = -2000
  /\ map g_xadv (o_glyphs (co_out h)) = [600; 0; 300] /\ map g_yadv (o_glyphs (co_out v)) = [-600; 0; -300]
  /\ map g_yoff (o_glyphs (co_out v)) = [-520; 0; -530] /\ map g_xoff (o_glyphs (co_out v)) = [0; 0; -20]
  /\ co_line h = mkBounds 950 (-250) 0 /\ co_line v = mkBounds 512 (-512) 0 /\ co_line u = mkBounds 512 (-512) 0
  /\ o_gbounds (co_out v) = o_gbounds (co_out h) /\ o_dir (co_out v) = 14 /\ co_hbdir v = 4 /\ co_hbdir u = 6.
Proof. vm_compute. repeat split; reflexivity. Qed.

(* ==== harfbuzz/fonts.go (Model/HbFont.v) =======================================================================
   float32 values are counted in units of 2^-149 (v * 2^149 is the float32 holding the integer v); the face is a record
   of what font.Face answers; hbfont = (faceUpem, XScale, YScale).  All statements are for every face, font, glyph. *)
From TV Require Import Model.F32 Model.HbFont Model.HbPos Spec.HbFont Proofs.HbFont Proofs.HbPos Proofs.HbConv.

(* emScalef(v, scale, upem) = v * scale / upem rounded to the nearest integer, halves away from zero (math.Round),
   for every integer v, scale, upem inside Spec.scale_exact: 0 < upem < 2^24, |v| < 2^24, scale a binary32 value, and
   |v * scale| < 2^22 (any upem)  or  upem a power of two and v * scale a binary32 value (|v| * px < 2^24 at scale 64 px).
   Outside, the two binary32 roundings (product, quotient) can move the result: see em_scalef_range. *)
Theorem em_scalef_exact : forall v s u, scale_exact v s u = true -> em_scalef (v * 2 ^ 149) s u = scale_spec v s u.
Proof. exact em_scalef_exact_lemma. Qed.
Print Assumptions em_scalef_exact.

(* the range of the property text (|v| <= 32767 font units, scale = 64 * px for 1 <= px <= 4096, 16 <= upem <= 65535):
   the result r is within 1/2 + |v*s/u| * (2^-23 + 2^-48) of v*s/u, and |r| <= 2^29 + 65: no int32 overflow (the
   float -> int32 conversion of roundf is inside its defined range) *)
Theorem em_scalef_range : forall v s u, in_range v s u = true ->
  let r := em_scalef (v * 2 ^ 149) s u in
  scale_err_ok v s u r = true /\ Z.abs r <= 2 ^ 29 + 65.
Proof. exact em_scalef_range_lemma. Qed.
Print Assumptions em_scalef_range.

(* scaling is odd (every float32 v, every scale and upem, upem = 0 included), unless the result is the value the
   float -> int32 conversion gives outside int32; so are emFscale and (after the fix of emScaleX/Y) emScale *)
Theorem scaling_is_odd : forall v s u,
  (em_scalef v s u <> - 2147483648 -> em_scalef (- v) s u = - em_scalef v s u)
  /\ (em_scale v s u <> - 2147483648 -> em_scale (- v) s u = - em_scale v s u)
  /\ (Z.abs v < 2 ^ 24 -> em_fscale (- v) s u = - em_fscale v s u).
Proof.
  intros v s u. split; [apply em_scalef_odd_lemma|]. split; [apply em_scale_odd_lemma|].
  intros H. apply em_fscale_odd_lemma. apply small_repr_ok. exact H.
Qed.
Print Assumptions scaling_is_odd.

(* monotone where exact.  PARTIAL: for values outside scale_exact, monotonicity of the two binary32 roundings across
   binades is not proved (Proofs/HbFont.rnd_core_mono covers one binade). *)
Theorem scaling_monotone_partial : forall v v' s u, 0 <= s -> v <= v' ->
  scale_exact v s u = true -> scale_exact v' s u = true ->
  em_scalef (v * 2 ^ 149) s u <= em_scalef (v' * 2 ^ 149) s u.
Proof. exact em_scalef_mono_exact. Qed.
Print Assumptions scaling_monotone_partial.

(* "under the same scale": for the font Shape configures (NewFont, then XScale = YScale = s), X and Y scaling are the
   same function, GlyphHAdvance / getGlyphVAdvance are emScalef(face advance, s, upem), and every field of
   ExtentsForDirection (when the face has extents for the axis) is float32(emScalef(face value, s, upem)): the scaled
   advance of v equals the scaled extent of v for every v *)
Theorem same_scale_for_advances_and_extents : forall fc u s g,
  let ft := set_scale (new_font u) s in
  ft_upem ft = u /\ ft_xscale ft = s /\ ft_yscale ft = s
  /\ (forall v, em_scalef_x ft v = em_scalef_y ft v) /\ (forall v, em_scale_x ft v = em_scale_y ft v)
  /\ (forall v, em_fscale_x ft v = em_fscale_y ft v)
  /\ glyph_h_advance fc ft g = em_scalef (fc_hadv fc g) s u
  /\ (fc_vmetrics fc = true -> glyph_v_advance fc ft g = em_scalef (fc_vadv fc g) s u)
  /\ (forall d e, (if hb_is_horizontal d then fc_hext fc else fc_vext fc) = (e, true) ->
        extents_for_direction fc ft d = mkF3 (f32_of_int (em_scalef (x_asc e) s u)) (f32_of_int (em_scalef (x_desc e) s u))
                                             (f32_of_int (em_scalef (x_gap e) s u))).
Proof. exact same_scale_lemma. Qed.
Print Assumptions same_scale_for_advances_and_extents.

(* ExtentsForDirection, every font (XScale and YScale may differ) and direction value: horizontal directions take the
   face's horizontal extents under YScale, all other values the vertical extents under XScale; without face extents
   0.8 em / -0.2 em resp. +-0.5 em computed in float32 (Proofs.HbFont.fext_spec) *)
Theorem extents_for_direction_scaled : forall fc ft d, extents_for_direction fc ft d = fext_spec fc ft d.
Proof. exact extents_for_direction_spec. Qed.
Print Assumptions extents_for_direction_scaled.

(* END TO END: the conversion part of Shape with harfbuzz.Font.ExtentsForDirection replaced by its model (hb_fext: the
   font NewFont(face) with XScale = YScale = the scale Shape sets).  For every engine and glyph extents function, every
   face whose extents for the axis of the run are the integers a, d, g, every size and direction byte inside the
   exactness conditions, with scaled values below 2^24:  LineBounds = (a, d, g) * font_scale(Size) / upem, rounded
   half away from zero, i.e. the face's extents under the very scale function and scale of the glyph advances. *)
Theorem shape_conv_line_bounds_scaled : forall eng ext fc upem size dir run_start run_end a d g,
  let r := shape_conv eng ext (hb_fext fc upem) size dir run_start run_end in
  let s := font_scale size in
  (if is_vertical dir then fc_vext fc else fc_hext fc) = (mkF3 (a * 2 ^ 149) (d * 2 ^ 149) (g * 2 ^ 149), true) ->
  scale_exact a s upem = true -> scale_exact d s upem = true -> scale_exact g s upem = true ->
  Z.abs (scale_spec a s upem) < 2 ^ 24 -> Z.abs (scale_spec d s upem) < 2 ^ 24 -> Z.abs (scale_spec g s upem) < 2 ^ 24 ->
  co_line r = mkBounds (scale_spec a s upem) (scale_spec d s upem) (scale_spec g s upem)
  /\ co_scale r = s.
Proof. exact conv_line_scaled_lemma. Qed.
Print Assumptions shape_conv_line_bounds_scaled.

(* ==== default positioning, harfbuzz/ot_shaper.go (Model/HbPos.v) ================================================ *)
(* positionDefault, every face, font, direction value, buffer: every glyph has a zero cross-axis advance; every glyph
   that fallbackSpaces does not touch has the font's advance for the axis (GlyphHAdvance horizontally, getGlyphVAdvance
   otherwise: emScalef of the hmtx / vmtx advance, see same_scale_for_advances_and_extents) and offsets equal to minus
   its origin for the axis; one position per glyph *)
Theorem position_default_exact : forall fc ft dir space_fallback sc infos,
  Forall2 (default_ok fc ft (hb_is_horizontal dir) space_fallback) infos (position_default fc ft dir space_fallback sc infos)
  /\ length (position_default fc ft dir space_fallback sc infos) = length infos.
Proof. exact position_default_lemma. Qed.
Print Assumptions position_default_exact.

(* adding then subtracting (or subtracting then adding) a glyph's horizontal origin is the identity on int32 points,
   whatever the origin (int32 wrap included); over a buffer: positionComplex's last loop undoes its first *)
Theorem origin_add_sub_identity : forall fc ft,
  (forall g p, pos32 p -> subtract_glyph_h_origin fc ft g (add_glyph_h_origin fc ft g p) = p
                          /\ add_glyph_h_origin fc ft g (subtract_glyph_h_origin fc ft g p) = p)
  /\ (forall infos ps, Forall (off32) ps -> length infos = length ps ->
        map2 (sub_h_origin fc ft) infos (map2 (add_h_origin fc ft) infos ps) = ps).
Proof. intros fc ft. split; [apply origin_add_sub_lemma|apply map2_sub_add]. Qed.
Print Assumptions origin_add_sub_identity.

(* position(): for every plan.position (GPOS, kern, kerx, trak) and fallbackMarkPosition that keep zero cross-axis
   advances zero, every glyph of the result has a zero cross-axis advance; backward directions return the reversal
   (Info and Pos) of the forward computation.  This discharges, for the default positioning, the hypothesis `the engine
   returns zero cross-axis advances` of shape_conv_cross_axis_zero. *)
Theorem position_cross_axis_zero : forall fc ft gpos fbmarks, keeps_cross_zero gpos -> keeps_cross_zero fbmarks ->
  forall dir sf sc pl fl infos,
  let ps := position_complex fc ft gpos fbmarks dir pl fl infos (position_default fc ft dir sf sc infos) in
  all_cross_zero (hb_is_horizontal dir) (snd (position fc ft gpos fbmarks dir sf sc pl fl infos)) = true
  /\ position fc ft gpos fbmarks dir sf sc pl fl infos = (if hb_is_backward dir then (rev infos, rev ps) else (infos, ps)).
Proof. intros fc ft gpos fbmarks G F dir sf sc pl fl infos. exact (position_lemma fc ft gpos fbmarks G F dir sf sc pl fl infos). Qed.
Print Assumptions position_cross_axis_zero.

(* a plan that applies nothing, on a buffer without marks and default ignorables: positionComplex is the identity
   (the origin shift cancels), so the result of position() is the default positioning *)
Theorem position_noop_plan_identity : forall fc ft dir pl fl infos ps,
  Forall (off32) ps -> length infos = length ps ->
  existsb pi_mark infos = false -> fl_has_di fl = false -> pl_fallback_marks pl = false ->
  position_complex fc ft (fun _ q => q) (fun _ q => q) dir pl fl infos ps = ps.
Proof. exact position_complex_identity. Qed.
Print Assumptions position_noop_plan_identity.

(* ---- non-vacuity ---------------------------------------------------------------------------- *)
(* Roboto-like numbers: upem 2048, ascender 1900, 16 px (scale 1024): 950; upem 1000, 950 units at 12 px: 729.6 -> 730;
   the largest values of the stated range; the input on which emScaleX wrapped before the fix *)
Example scale_example2 :
  scale_exact 1900 1024 2048 = true /\ em_scalef (1900 * 2 ^ 149) 1024 2048 = 950
  /\ scale_exact 950 768 1000 = true /\ em_scalef (950 * 2 ^ 149) 768 1000 = 730 /\ em_scalef (- 950 * 2 ^ 149) 768 1000 = - 730
  /\ in_range 32767 (4096 * 64) 16 = true /\ em_scalef (32767 * 2 ^ 149) (4096 * 64) 16 = 536854528
  /\ em_scale 20043 165824 2000 = 1661805
  /\ scale_exact 32767 (4096 * 64) 1000 = false.
Proof. vm_compute. repeat split; reflexivity. Qed.

(* outside scale_exact the result can differ from the exact rounding (binary32 double rounding): 2489 units at
   826 px with upem 1000 is 131578.4998..., the binary32 quotient is 131578.5 and math.Round gives 131579.  This happens
   only for scaled values above 2^17 (2048 px) and stays inside the error bound; HarfBuzz computes in float as well. *)
Example scale_inexact_example :
  let v := 2489 in let s := 826 * 64 in let u := 1000 in
  in_range v s u = true /\ scale_exact v s u = false
  /\ em_scalef (v * 2 ^ 149) s u = 131579 /\ scale_spec v s u = 131578
  /\ scale_err_ok v s u (em_scalef (v * 2 ^ 149) s u) = true.
Proof. vm_compute. repeat split; reflexivity. Qed.

Definition ex_face : face :=
  mkFace (mkF3 (1900 * 2 ^ 149) (- 500 * 2 ^ 149) 0, true) (mkF3 0 0 0, false) false
         (fun g => (600 + g) * 2 ^ 149) (fun _ => 0) (fun _ => (0, 0, true)) (fun g => (300, 1900, true)) (fun _ => None).
Example font_example :
  let ft := set_scale (new_font 2048) 1024 in
  extents_for_direction ex_face ft 4 = mkF3 (950 * 2 ^ 149) (- 250 * 2 ^ 149) 0
  /\ x_asc (extents_for_direction ex_face ft 6) = 512 * 2 ^ 149 /\ x_desc (extents_for_direction ex_face ft 6) = - 512 * 2 ^ 149
  /\ glyph_h_advance ex_face ft 8 = 304 /\ glyph_v_advance ex_face ft 8 = - 1200
  /\ glyph_v_origin ex_face ft 8 = (150, 950)
  /\ position_default ex_face ft 4 false (mkSC 0 [] None) [mkPI 8 false false false 0; mkPI 40 true false false 0]
     = [mkPP 304 0 0 0; mkPP 320 0 0 0]
  /\ position_default ex_face ft 6 false (mkSC 0 [] None) [mkPI 8 false false false 0]
     = [mkPP 0 (- 1200) (- 150) (- 950)]
  /\ position ex_face ft (fun _ q => q) (fun _ q => q) 5 false (mkSC 0 [] None) (mkPlan true 2 true false) (mkFl false false false)
       [mkPI 8 false false false 0; mkPI 40 true false false 0]
     = ([mkPI 40 true false false 0; mkPI 8 false false false 0], [mkPP 0 0 0 0; mkPP 304 0 0 0]).
Proof. vm_compute. repeat split; reflexivity. Qed.

Example conv_scaled_example :
  let r := shape_conv ex_eng ex_ext (hb_fext ex_face 2048) 1024 0 0 3 in
  co_line r = mkBounds 950 (- 250) 0 /\ co_scale r = 1024.
Proof. vm_compute. split; reflexivity. Qed.
