(* C12 — Shaped output geometry is self-consistent.  Property theorems only. *)
From TV Require Import Lib.GoNum Lib.Res Model.Output Spec.Geometry Proofs.Output.

(* the run advance is the sum of the glyph advances along the run's axis after each of the methods that maintain it,
   for every run (any glyph list, any direction bits) *)
Theorem advance_is_axis_sum : forall o,
  advance_ok (recompute_advance o) = true
  /\ advance_ok (recalculate_all o) = true
  /\ (forall text s o', add_word_spacing o text s = Ok o' -> advance_ok o' = true)
  /\ (forall s st en o', add_letter_spacing o s st en = Ok o' -> advance_ok o' = true)
  /\ advance_ok (recalculate_all (sideways o)) = true.
Proof. exact advance_lemma. Qed.
Print Assumptions advance_is_axis_sum.

(* RecalculateAll: GlyphBounds enclose the baseline (Ascent >= 0 >= Descent), have no Gap and enclose the ink box of
   every glyph on the cross axis, for all runs whose glyph extents have the usual orientation (Width >= 0, Height <= 0);
   and they are tight: each bound is 0 or attained by a glyph *)
Theorem glyph_bounds_enclose : forall o, forallb extents_oriented (o_glyphs o) = true ->
  bounds_enclose (recalculate_all o) = true.
Proof. exact bounds_enclose_lemma. Qed.
Print Assumptions glyph_bounds_enclose.

Theorem glyph_bounds_tight : forall o,
  let v := is_vertical (o_dir o) in
  let b := o_gbounds (recalculate_all o) in
  (b_ascent b = 0 \/ exists g, In g (o_glyphs o) /\ b_ascent b = (if v then g_xoff g + g_xbearing g + g_width g else g_ybearing g + g_yoff g))
  /\ (b_descent b = 0 \/ exists g, In g (o_glyphs o) /\ b_descent b = (if v then g_xoff g + g_xbearing g else g_ybearing g + g_yoff g + g_height g)).
Proof. exact bounds_tight_lemma. Qed.
Print Assumptions glyph_bounds_tight.

(* sideways: every glyph of the result is the 90 degree clockwise rotation, around the dot, of the horizontal glyph
   (ink box corners and advance vector mapped by (x, y) -> (y, -x), text mapping kept); the run advance changes sign,
   the glyph bounds are carried over unchanged and the direction becomes vertical-sideways with the same progression.
   All horizontal runs whose cross-axis advances are zero (what the engine produces). *)
Theorem sideways_is_rotation : forall h, is_vertical (o_dir h) = false -> cross_zero h = true ->
  sideways_ok (recalculate_all h) (recalculate_all (sideways h)) = true.
Proof. exact sideways_lemma. Qed.
Print Assumptions sideways_is_rotation.

(* word spacing: whenever AddWordSpacing returns, exactly the eligible glyphs (a word separator shaped one rune to
   one glyph) grow by s along the axis, nothing else changes in advances, shapes, cluster data or letter spacing
   bookkeeping, Advance = old sum + s * number of eligible glyphs = new sum; and it returns whenever the cluster
   indices lie inside the text *)
Theorem word_spacing_exact : forall o text s,
  (forall o', add_word_spacing o text s = Ok o' -> word_spacing_ok text s o o' = true)
  /\ (Forall (fun g => 0 <= g_cluster g < zlen text) (o_glyphs o) -> exists o', add_word_spacing o text s = Ok o').
Proof. intros o text s. split; [intros o'; apply word_spacing_lemma | apply word_spacing_total]. Qed.
Print Assumptions word_spacing_exact.

(* trimStartLetterSpacing removes from the first glyph exactly the recorded start spacing (advance and bookkeeping),
   touches nothing else and leaves Advance to the caller *)
Theorem trim_start_exact : forall o, trim_start_ok o (trim_start_letter_spacing o) = true
  /\ o_adv (trim_start_letter_spacing o) = o_adv o /\ o_dir (trim_start_letter_spacing o) = o_dir o.
Proof. exact trim_start_lemma. Qed.
Print Assumptions trim_start_exact.

(* letter spacing: for every run whose glyphs are the concatenation of clusters (each cluster: non-empty, one
   ClusterIndex, GlyphCount = its size, neighbouring clusters with different ClusterIndex), any spacing value (odd,
   negative, zero) and any run position flags, AddLetterSpacing terminates without panic and its result satisfies
   Spec.letter_spacing_ok: per glyph, the advance grows by exactly the growth of its start/endLetterSpacing
   bookkeeping; the start share s/2 is added exactly at the first glyph of every cluster except at the start of the
   text, the end share s - s/2 exactly at the last glyph of every cluster except at the end of the text (so every
   boundary between two clusters, also across adjacent runs, receives exactly s); shapes, cross-axis advances and
   cluster data are unchanged; Advance = old sum + s*(clusters-1) + outer shares = new sum. *)
Theorem letter_spacing_exact : forall o s is_start is_end cs,
  o_glyphs o = concat cs -> wf_clusters None cs ->
  exists o', add_letter_spacing o s is_start is_end = Ok o' /\ letter_spacing_ok s is_start is_end o o' = true.
Proof. exact letter_spacing_lemma. Qed.
Print Assumptions letter_spacing_exact.

(* ---- non-vacuity ---------------------------------------------------------------------------- *)
Definition exg (w h xa cl rc gc : Z) : glyph := mkGlyph w h 0 (- h) xa 0 0 0 cl rc gc 0 0.
(* three clusters (one of two glyphs), odd spacing 3/64 px inside a text (no adjacent run): the two inner boundaries
   receive 2+1 = 3 each, the outer sides nothing *)
Example letter_example :
  let cs := [[exg 10 (-20) 12 0 1 1]; [exg 10 (-20) 12 1 2 2; exg 4 (-20) 0 1 2 2]; [exg 10 (-20) 12 3 1 1]] in
  let o := mkOut 36 (concat cs) (mkBounds 20 0 0) 0 in
  wf_clusters None cs
  /\ (forall o', add_letter_spacing o 3 true true = Ok o' ->
        map g_xadv (o_glyphs o') = [14; 13; 2; 13] /\ o_adv o' = 42 /\ map g_endls (o_glyphs o') = [2; 0; 2; 0]
        /\ map g_startls (o_glyphs o') = [0; 1; 0; 1]).
Proof.
  cbv zeta. split.
  - cbn. unfold head_ok, cidx. cbn. repeat split; try discriminate; repeat constructor; lia.
  - vm_compute. intros o' H. inversion H. repeat split; reflexivity.
Qed.
(* word spacing on a real-looking run; sideways; bounds *)
Example geometry_example :
  let o := mkOut 0 [exg 10 (-20) 12 0 1 1; exg 0 0 5 1 1 1; exg 8 (-15) 9 2 1 1] (mkBounds 0 0 0) 0 in
  (exists o', add_word_spacing o [97; 32; 98] 7 = Ok o' /\ map g_xadv (o_glyphs o') = [12; 12; 9] /\ o_adv o' = 33)
  /\ forallb extents_oriented (o_glyphs o) = true /\ cross_zero o = true /\ is_vertical (o_dir o) = false
  /\ o_adv (recalculate_all (sideways o)) = -26 /\ o_gbounds (recalculate_all (sideways o)) = mkBounds 20 0 0.
Proof. cbv zeta. split; [eexists; vm_compute; repeat split; reflexivity|vm_compute; repeat split; reflexivity]. Qed.
