(* C16 — The system font index survives persistence, corruption and incremental refresh.  Property theorems only. *)
From TV Require Import Model.Index Spec.Index Proofs.Index Model.Scan Proofs.Scan.

(* ---- persistence ---------------------------------------------------------------------------------------- *)
(* writing an index and reading it back yields an identical index, for every index within the limits of the
   wire format (wf_index: strings <= 65535 bytes, <= 255 scripts, <= 65535 pages, entry sizes and count < 2^32,
   field values in the range of their Go types, aspects that a scan can produce) *)
Theorem index_roundtrip : forall ix, wf_index ix = true -> deserialize_index (serialize_index ix) = Ok ix.
Proof. exact index_roundtrip_lemma. Qed.
Print Assumptions index_roundtrip.

(* the same through the cache file, for ANY compressor pair with gunzip (gzip x) = Ok x *)
Theorem file_roundtrip : forall (gzip : list Z -> list Z) (gunzip : list Z -> res (list Z)),
  (forall x, gunzip (gzip x) = Ok x) ->
  forall ix, wf_index ix = true -> deserialize_file gunzip (serialize_file gzip ix) = Ok ix.
Proof. exact file_roundtrip_lemma. Qed.
Print Assumptions file_roundtrip.

(* hence the wire format is injective on well-formed indexes: two different indexes never share a payload (nothing
   of an index is lost or conflated by writing it), also through the cache file for any sound compressor *)
Theorem serialize_injective : forall ix ix', wf_index ix = true -> wf_index ix' = true ->
  serialize_index ix = serialize_index ix' -> ix = ix'.
Proof.
  intros ix ix' W W' E. pose proof (index_roundtrip ix W) as R. rewrite E, (index_roundtrip ix' W') in R.
  inversion R. reflexivity.
Qed.
Print Assumptions serialize_injective.

Theorem file_serialize_injective : forall (gzip : list Z -> list Z) (gunzip : list Z -> res (list Z)),
  (forall x, gunzip (gzip x) = Ok x) ->
  forall ix ix', wf_index ix = true -> wf_index ix' = true ->
  serialize_file gzip ix = serialize_file gzip ix' -> ix = ix'.
Proof.
  intros gzip gunzip G ix ix' W W' E. pose proof (file_roundtrip gzip gunzip G ix W) as R.
  rewrite E, (file_roundtrip gzip gunzip G ix' W') in R. inversion R. reflexivity.
Qed.
Print Assumptions file_serialize_injective.

(* ---- corruption ------------------------------------------------------------------------------------------ *)
(* reading ANY byte string never panics and never runs out of fuel *)
Theorem decode_total : forall bytes, bytes_okb bytes = true -> total (deserialize_index bytes).
Proof. exact decode_total_lemma. Qed.
Print Assumptions decode_total.

(* whatever index a (corrupted) byte string decodes to is well-formed: an error or a well-formed index *)
Theorem decode_corrupt_wf : forall bytes, bytes_okb bytes = true ->
  match deserialize_index bytes with
  | Ok ix => wf_index ix = true | Err _ => True | Panic _ => False | OutOfFuel => False
  end.
Proof. exact index_robust_lemma. Qed.
Print Assumptions decode_corrupt_wf.

(* in particular every accepted footprint has a style in {normal, italic} and weight/stretch in the scanned ranges
   (the precondition of the matching functions: F20) *)
Theorem decode_aspects_valid : forall bytes ix ff fp, bytes_okb bytes = true -> deserialize_index bytes = Ok ix ->
  In ff ix -> In fp (ff_fps ff) -> aspect_valid (fp_aspect fp) = true.
Proof. exact decode_aspects_lemma. Qed.
Print Assumptions decode_aspects_valid.

(* an accepted index is a fixed point of the cache: written back and read again it is unchanged *)
Theorem decode_then_roundtrip : forall bytes ix, bytes_okb bytes = true -> deserialize_index bytes = Ok ix ->
  deserialize_index (serialize_index ix) = Ok ix.
Proof. exact decode_reencode_lemma. Qed.
Print Assumptions decode_then_roundtrip.

(* a crash during writing: every STRICT prefix of a written payload is rejected with an error *)
Theorem decode_prefix_safe : forall ix n, wf_index ix = true -> 0 <= n < zlen (serialize_index ix) ->
  exists e, deserialize_index (zfirstn n (serialize_index ix)) = Err e.
Proof. exact index_prefix_lemma. Qed.
Print Assumptions decode_prefix_safe.

(* ---- incremental refresh ----------------------------------------------------------------------------------- *)
(* for every footprint type and parse function, every history of directory states (any change between two
   refreshes: add, remove, replace, touch, rename, of font and non-font files, directories, symbolic links),
   with a refresh after each step starting without a cache: if a path whose content changed also changed its
   modification time (with respect to the tree of the last successful refresh), every refresh returns exactly
   what a scan from scratch of the current tree returns (the same index, or the same error) *)
Theorem incremental_eq_scratch : forall (FP : Type) (parse : Z -> list Z -> list FP) (hist : list walk),
  honest_history FP parse [] hist = true ->
  refresh_all FP parse [] hist = map (scratch FP parse) hist.
Proof. exact incremental_eq_scratch_lemma. Qed.
Print Assumptions incremental_eq_scratch.

(* the same from any cache that was computed from some earlier tree *)
Theorem incremental_eq_scratch_from : forall (FP : Type) (parse : Z -> list Z -> list FP) (hist : list walk) last cache,
  scratch FP parse last = Ok cache -> honest_history FP parse last hist = true ->
  refresh_all FP parse cache hist = map (scratch FP parse) hist.
Proof. exact refresh_all_honest. Qed.
Print Assumptions incremental_eq_scratch_from.

(* a scan is total, whatever the previous index (e.g. one decoded from a corrupted cache) *)
Theorem scan_never_panics : forall (FP : Type) (parse : Z -> list Z -> list FP) prev ws, total (scan FP parse prev ws).
Proof. exact scan_total. Qed.
Print Assumptions scan_never_panics.

(* entries of removed files are dropped, whatever the previous index *)
Theorem scan_drops_removed : forall (FP : Type) (parse : Z -> list Z -> list FP) prev ws out,
  scan FP parse prev ws = Ok out ->
  forall e, In e out -> exists w, In w ws /\ w_isdir w = false /\ en_path e = w_path w.
Proof. exact scan_paths_in_walk. Qed.
Print Assumptions scan_drops_removed.

(* every path occurs at most once in a scan result, whatever the previous index and however the scanned directories overlap *)
Theorem scan_paths_unique : forall (FP : Type) (parse : Z -> list Z -> list FP) prev ws out,
  scan FP parse prev ws = Ok out -> NoDup (map en_path out).
Proof. exact Proofs.Scan.scan_paths_unique. Qed.
Print Assumptions scan_paths_unique.

(* ---- non-vacuity ------------------------------------------------------------------------------------------- *)
Definition ex_fp : footprint :=
  mkFP [47;97] 1 0 [97;114;105;97;108] [mkPage 0 [1;2;3;4;5;6;7;4294967295]] [1281455214] [3;0;0;0;0;0;0;9223372036854775808]
       (mkAspect 2 1137180672 1065353216).
Definition ex_index : index := [mkFF [47;97] (-5) [ex_fp; ex_fp]; mkFF [] 1700000000000000000 []].
Example wf_example : wf_index ex_index = true.
Proof. vm_compute. reflexivity. Qed.
Example roundtrip_example : deserialize_index (serialize_index ex_index) = Ok ex_index /\ zlen (serialize_index ex_index) = 294.
Proof. vm_compute. split; reflexivity. Qed.
Example prefix_example : deserialize_index (zfirstn 293 (serialize_index ex_index)) = Err e_stream.
Proof. vm_compute. reflexivity. Qed.
(* a flipped style byte (offset 142 of the payload is the style of the first footprint) is rejected *)
Example corrupt_style_example :
  let p := serialize_index ex_index in
  znth 0 p 142 = 2 /\ deserialize_index (zfirstn 142 p ++ [7] ++ zskipn 143 p) = Err e_aspect_value.
Proof. vm_compute. split; reflexivity. Qed.

(* a history with add, touch, replace (new mtime), remove, rename, a hidden file, a directory, a dangling link *)
Definition f (p : list Z) (mt cid : Z) : wfile := mkW p false true p mt cid.
Definition ex_hist : list walk :=
  [ [mkW [100] true true [100] 1 0; f [97] 10 1];                       (* dir d, file a *)
    [mkW [100] true true [100] 1 0; f [97] 10 1; f [98] 11 2];          (* add b *)
    [f [97] 12 1; f [98] 11 2];                                         (* touch a *)
    [f [97] 13 3; f [98] 11 2; f [46;104] 5 9];                         (* replace a (new mtime), add hidden .h *)
    [f [98] 11 2; mkW [108] false false [108] 0 0];                     (* remove a, dangling link l: scan fails *)
    [f [99] 11 2];                                                      (* rename b -> c, link removed *)
    [f [97] 10 7; f [99] 11 2] ].                                       (* a re-created with an OLD mtime, other content *)
Example honest_example : honest_history Z (fun cid _ => [cid]) [] ex_hist = true.
Proof. vm_compute. reflexivity. Qed.
Example history_example :
  refresh_all Z (fun cid _ => [cid]) [] ex_hist
  = [ Ok [mkEntry [97] 10 [1]]; Ok [mkEntry [97] 10 [1]; mkEntry [98] 11 [2]]; Ok [mkEntry [97] 12 [1]; mkEntry [98] 11 [2]];
      Ok [mkEntry [97] 13 [3]; mkEntry [98] 11 [2]]; Err e_stat; Ok [mkEntry [99] 11 [2]];
      Ok [mkEntry [97] 10 [7]; mkEntry [99] 11 [2]] ].
Proof. vm_compute. reflexivity. Qed.
