(* C08 — Visual order of the runs of a line follows the Unicode Bidi Algorithm (rule L2).  Property theorems only. *)
From Coq Require Import Permutation.
From TV Require Import Lib.GoNum Model.BidiOrder Spec.L2 Proofs.BidiOrder Proofs.L2Levels Proofs.BidiOrderIdem.

(* swapVisualOrder reverses the visual indices of the subline (any length) *)
Theorem swap_visual_order_reverses : forall v, swap_visual_order v = rev v.
Proof. exact swap_visual_order_rev. Qed.
Print Assumptions swap_visual_order_reverses.

(* ALL lines, any length, any Direction values, any paragraph direction, any stale VisualIndex values:
   after computeBidiOrdering the visual indices are a permutation of 0..n-1 *)
Theorem visual_index_permutation : forall pdir line,
  Permutation (map r_vis (compute_bidi_ordering pdir line)) (ziota (length line)).
Proof. exact permutation_lemma. Qed.
Print Assumptions visual_index_permutation.

(* the order depends on the directions only, not on the VisualIndex values left in the runs *)
Theorem ordering_ignores_stale_indices : forall pdir line line',
  map r_dir line = map r_dir line' ->
  map r_vis (compute_bidi_ordering pdir line) = map r_vis (compute_bidi_ordering pdir line').
Proof. exact cbo_vis_dirs. Qed.
Print Assumptions ordering_ignores_stale_indices.

(* computeBidiOrdering never touches the directions, so ordering a line that is already ordered changes nothing
   (the wrapper may order the same runs again after trimming or truncation without effect) *)
Theorem ordering_keeps_directions : forall pdir line, map r_dir (compute_bidi_ordering pdir line) = map r_dir line.
Proof. exact cbo_keeps_dirs. Qed.
Print Assumptions ordering_keeps_directions.

Theorem ordering_idempotent : forall pdir line,
  map r_vis (compute_bidi_ordering pdir (compute_bidi_ordering pdir line)) = map r_vis (compute_bidi_ordering pdir line).
Proof. exact cbo_idempotent_vis. Qed.
Print Assumptions ordering_idempotent.

(* no two runs of a line share a visual position *)
Theorem visual_indices_distinct : forall pdir line, NoDup (map r_vis (compute_bidi_ordering pdir line)).
Proof. exact cbo_vis_nodup. Qed.
Print Assumptions visual_indices_distinct.

(* rule L2 when the line nests at most one level above the paragraph level p (p = 0 LTR/TTB, p = 1 RTL/BTT),
   every run's progression being the parity of its level (any orientation bits): the runs put in the order
   L2 prescribes carry the visual indices 0, 1, ..., n-1.  All n. *)
Theorem l2_one_nesting : forall (p : nat) (pdir : Z) (levels : list nat) (line : list run),
  (p <= 1)%nat -> toward pdir = Nat.odd p ->
  Forall2 (fun r l => toward (r_dir r) = Nat.odd l) line levels ->
  Forall (fun l => l = p \/ l = S p) levels ->
  l2_reorder levels (map r_vis (compute_bidi_ordering pdir line)) = ziota (length line).
Proof. exact l2_lemma. Qed.
Print Assumptions l2_one_nesting.

(* postProcessLine, truncation on or off, truncator appended or not: the returned line's visual indices are a
   permutation of 0..n-1 and are those computeBidiOrdering gives for the returned line itself
   (so l2_one_nesting applies to the line with its truncator) *)
Theorem truncator_keeps_permutation : forall w line done,
  let r := post_process_line w line done in
  Permutation (map r_vis (pp_line r)) (ziota (length (pp_line r)))
  /\ map r_vis (pp_line r) = map r_vis (compute_bidi_ordering (w_dir w) (pp_line r)).
Proof. exact truncator_lemma. Qed.
Print Assumptions truncator_keeps_permutation.

Theorem truncated_line_follows_l2 : forall w line done (p : nat) (levels : list nat),
  let out := pp_line (post_process_line w line done) in
  (p <= 1)%nat -> toward (w_dir w) = Nat.odd p ->
  Forall2 (fun r l => toward (r_dir r) = Nat.odd l) out levels ->
  Forall (fun l => l = p \/ l = S p) levels ->
  l2_reorder levels (map r_vis out) = ziota (length out).
Proof.
  intros w line done p levels out Hp Hd Hf Hl. unfold out in *.
  destruct (truncator_lemma w line done) as [_ E]. cbv zeta in E. rewrite E.
  apply l2_lemma with (p := p); assumption.
Qed.
Print Assumptions truncated_line_follows_l2.

(* trailing white space: the run edited by postProcessLine is the one whose visual index is the last in paragraph
   direction (n-1, the maximum, for LTR/TTB paragraphs; 0, the minimum, otherwise); only that run changes, in it only
   the last (resp. first) glyph, whose advance along the run's axis becomes 0 iff its extent on that axis is 0,
   and the run's Advance is the sum of its glyph advances afterwards *)
Theorem trim_target_visually_last : forall pdir line, line <> [] ->
  let l0 := compute_bidi_ordering pdir line in
  let t := trim_target pdir l0 in
  let r := znth dummy_run l0 t in
  0 <= t < zlen line
  /\ r_vis r = goal_index pdir (zlen line)
  /\ Forall (fun x => 0 <= r_vis x <= zlen line - 1) l0
  /\ order_and_trim pdir false line = set_nth l0 t (trim_run pdir r)
  /\ (r_glyphs r = [] -> trim_run pdir r = r)
  /\ (r_glyphs r <> [] ->
      let i := if toward pdir then 0 else zlen (r_glyphs r) - 1 in
      let g := znth (mkGlyph 0 0 0 0) (r_glyphs r) i in
      r_glyphs (trim_run pdir r) = set_nth (r_glyphs r) i (trim_glyph (is_vertical (r_dir r)) g)
      /\ r_adv (trim_run pdir r) = sum_adv (is_vertical (r_dir r)) (r_glyphs (trim_run pdir r))
      /\ r_dir (trim_run pdir r) = r_dir r /\ r_vis (trim_run pdir r) = r_vis r
      /\ r_off (trim_run pdir r) = r_off r /\ r_cnt (trim_run pdir r) = r_cnt r).
Proof. exact trim_lemma. Qed.
Print Assumptions trim_target_visually_last.

(* the glyphs and advances postProcessLine returns are those of order_and_trim, followed by the truncator's if appended *)
Theorem post_process_glyphs : forall w line done,
  let r := post_process_line w line done in
  exists tail, map (fun x => (r_adv x, r_glyphs x)) (pp_line r)
               = map (fun x => (r_adv x, r_glyphs x)) (order_and_trim (w_dir w) (w_disable_trim w) line) ++ tail
               /\ (tail = [] \/ tail = [(r_adv (w_truncator w), r_glyphs (w_truncator w))]).
Proof. exact pp_glyphs_lemma. Qed.
Print Assumptions post_process_glyphs.

(* why l2_one_nesting cannot be extended to deeper nesting by ANY repair confined to computeBidiOrdering (finding F5):
   the function sees the paragraph direction and each run's Direction, i.e. the parities of the levels; whatever it
   computes from them (`order`), some line of five runs with levels 0..2 in a left-to-right paragraph is not ordered as
   L2 prescribes.  The levels themselves are not available upstream either: golang.org/x/text/unicode/bidi, used by
   splitByBidi, returns runs with a direction only. *)
Theorem l2_needs_levels : forall order : bool -> list bool -> list Z,
  exists levels, levels_valid 0 levels = true /\ length levels = 5%nat /\ Forall (fun l => (l <= 2)%nat) levels
    /\ follows_l2 levels (order false (map Nat.odd levels)) = false.
Proof. exact l2_needs_levels_lemma. Qed.
Print Assumptions l2_needs_levels.

(* ---- non-vacuity ---------------------------------------------------------------------------- *)
Definition ex_run (d : Z) (gs : list glyph) : run := mkRun d 7 0 0 1 gs.
(* RTL paragraph, levels 1 2 2 1: hypotheses of l2_one_nesting hold and the order is not the trivial one *)
Example l2_example :
  let line := [ex_run 1 []; ex_run 0 []; ex_run 0 []; ex_run 1 []] in
  let levels := [1; 2; 2; 1]%nat in
  toward 1 = Nat.odd 1
  /\ Forall2 (fun r l => toward (r_dir r) = Nat.odd l) line levels
  /\ Forall (fun l => l = 1 \/ l = 2)%nat levels
  /\ map r_vis (compute_bidi_ordering 1 line) = [3; 1; 2; 0].
Proof.
  cbv zeta. split; [reflexivity|]. split; [repeat constructor|]. split; [|vm_compute; reflexivity].
  repeat (apply Forall_cons; [lia|]). constructor.
Qed.
(* a truncated last line: LTR paragraph, an RTL run, the truncator appended; trailing space of the visually last text run zeroed *)
Example truncator_example :
  let w := mkW 0 false 1 true false (ex_run 0 [mkGlyph 5 5 9 0]) 10 0 true in
  let line := [mkRun 0 0 20 0 2 [mkGlyph 6 6 10 0; mkGlyph 6 6 10 0]; mkRun 1 0 17 2 2 [mkGlyph 6 6 10 0; mkGlyph 0 0 7 0]] in
  let r := post_process_line w line false in
  map r_vis (pp_line r) = [0; 1; 2] /\ map r_adv (pp_line r) = [20; 10; 0] /\ pp_truncated r = 6 /\ pp_done r = true.
Proof. vm_compute. repeat split; reflexivity. Qed.
(* the two lines behind l2_needs_levels: same directions, different L2 orders *)
Example l2_needs_levels_example :
  map Nat.odd [0; 1; 2; 1; 0]%nat = map Nat.odd [0; 1; 0; 1; 0]%nat
  /\ follows_l2 [0; 1; 2; 1; 0]%nat [0; 3; 2; 1; 4] = true /\ follows_l2 [0; 1; 0; 1; 0]%nat [0; 1; 2; 3; 4] = true.
Proof. vm_compute. repeat split; reflexivity. Qed.
