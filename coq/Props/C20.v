(* C20 — Unicode and language lookups are coherent total functions.  Property theorems only.
   "Every code point" is every Z (or every int32 where the Go arithmetic is on runes); the tables are the
   ones regenerated into Gen/ on every run, and the side conditions on them (sortedness, disjointness,
   symmetry ...) are computed by the kernel inside the proofs, so a changed table either still satisfies
   them or breaks the corresponding theorem. *)
From Coq Require Import Sorting.Permutation.
From TV Require Import Model.Unicode Model.Lang Spec.Unicode Proofs.Unicode Proofs.Decomp Proofs.Lang.

(* language.LookupScript (bisection, no fuel exhaustion) returns what a linear scan of ScriptRanges returns *)
Theorem lookup_script_eq_linear_scan : forall r : Z, lookup_script r = Ok (script_scan ScriptRanges r).
Proof. exact lookup_script_eq_linear_scan_lemma. Qed.
Print Assumptions lookup_script_eq_linear_scan.

(* the standard library's unicode.Is (linear / binary search, Latin-1 and R16/R32 dispatch, uint16/uint32
   conversions) is membership in the range list, for every table passing the computed side conditions *)
Theorem unicode_is_eq_membership : forall t r, table_ok t = true -> is_rune r -> unicode_is t r = Ok (mem t r).
Proof. exact unicode_is_mem. Qed.
Print Assumptions unicode_is_eq_membership.

(* classes_partition, per family: the lookup returns the class found by a linear scan of the class list with
   linear membership; a code point lies in at most one class; any other scan order gives the same answer *)
Theorem classes_partition_general_category :
  (forall r, is_rune r -> lookup_type r = Ok (scan_classes categories_order r))
  /\ partition_statement categories_order.
Proof. split; [exact lookup_type_scan|exact (partition_of_family _ categories_family_ok)]. Qed.
Print Assumptions classes_partition_general_category.

Theorem classes_partition_combining_class :
  (forall r, is_rune r -> lookup_combining_class r
     = Ok (match scan_classes combiningClasses_order r with Some i => Z.of_nat i | None => 0 end))
  /\ partition_statement combiningClasses_order.
Proof. split; [exact lookup_combining_class_scan|exact (partition_of_family _ combining_family_ok)]. Qed.
Print Assumptions classes_partition_combining_class.

Theorem classes_partition_line_break :
  (forall r, is_rune r -> lookup_line_break r
     = Ok (match scan_classes lineBreaks_order r with Some i => i | None => lineBreaks_default end))
  /\ partition_statement lineBreaks_order.
Proof. split; [exact lookup_line_break_scan|exact (partition_of_family _ lineBreaks_family_ok)]. Qed.
Print Assumptions classes_partition_line_break.

(* the prefilter graphemeBreakAll does not change the answer *)
Theorem classes_partition_grapheme_break :
  (forall r, is_rune r -> lookup_grapheme_break r = Ok (scan_classes graphemeBreaks_order r))
  /\ partition_statement graphemeBreaks_order.
Proof. split; [exact lookup_grapheme_break_scan|exact (partition_of_family _ graphemeBreaks_family_ok)]. Qed.
Print Assumptions classes_partition_grapheme_break.

Theorem classes_partition_word_break :
  (forall r, is_rune r -> lookup_word_break r = Ok (scan_classes wordBreaks_order r))
  /\ partition_statement wordBreaks_order.
Proof. split; [exact lookup_word_break_scan|exact (partition_of_family _ wordBreaks_family_ok)]. Qed.
Print Assumptions classes_partition_word_break.

(* the prefilter tables are exactly the union of the classes of their family *)
Theorem prefilter_is_union : forall r : Z,
  (mem gb_All r = true <-> exists p, In p graphemeBreaks_order /\ mem (snd p) r = true)
  /\ (mem wb_All r = true <-> exists p, In p wordBreaks_order /\ mem (snd p) r = true).
Proof. exact prefilter_is_union_lemma. Qed.
Print Assumptions prefilter_is_union.

(* LookupMirrorChar is an involution on every integer, and maps mirrored characters to mirrored characters *)
Theorem mirror_involution : forall c : Z,
  fst (lookup_mirror (fst (lookup_mirror c))) = c
  /\ (snd (lookup_mirror c) = true -> lookup_mirror (fst (lookup_mirror c)) = (c, true)).
Proof. exact mirror_involution_lemma. Qed.
Print Assumptions mirror_involution.

(* algorithmic Hangul: decomposeHangul and composeHangul are mutual inverses (int32 wrap-around included) *)
Theorem hangul_roundtrip :
  (forall c a b, is_rune c -> decompose_hangul c = (a, b, true) -> compose_hangul a b = (c, true))
  /\ (forall a b c, compose_hangul a b = (c, true) -> decompose_hangul c = (a, b, true)).
Proof. split; [exact hangul_decompose_compose|exact hangul_compose_decompose]. Qed.
Print Assumptions hangul_roundtrip.

(* Decompose / Compose: whatever composes decomposes back to the same pair (every a, b); whatever decomposes
   recomposes unless it is a composition exclusion of the tables; no Hangul syllable is excluded *)
Theorem compose_decompose_inverse :
  (forall a b c, compose a b = (c, true) -> decompose c = (a, b, true))
  /\ (forall c a b, is_rune c -> decompose c = (a, b, true) -> excluded c = false -> compose a b = (c, true))
  /\ (forall c, is_rune c -> snd (decompose_hangul c) = true -> excluded c = false).
Proof. split; [exact compose_then_decompose|split; [exact decompose_then_compose|exact hangul_not_excluded]]. Qed.
Print Assumptions compose_decompose_inverse.

(* NewLanguage is idempotent on every byte string (any list of integers), and its result is canonical *)
Theorem new_language_idempotent : forall s : list Z,
  new_language (new_language s) = new_language s /\ canonical (new_language s) = true.
Proof. intro s. split; [apply new_language_idempotent_lemma|apply new_language_canonical_lemma]. Qed.
Print Assumptions new_language_idempotent.

(* every identifier of the language table round-trips through its tag (finite domain: the table) *)
Theorem langid_roundtrip : forall id, 0 <= id < zlen languagesInfos -> new_lang_id (lang_of_id id) = Ok (id, true).
Proof. exact langid_roundtrip_lemma. Qed.
Print Assumptions langid_roundtrip.

(* Direction: for each of the 256 byte values, each setter changes exactly its own aspect (see direction_ok) *)
Theorem direction_setters_independent : forall d, 0 <= d < 256 -> direction_ok d = true.
Proof. exact direction_ok_all. Qed.
Print Assumptions direction_setters_independent.

(* ---- non-vacuity ---- *)
Example script_example : lookup_script 65 = Ok 1281455214 /\ lookup_script 1114112 = Ok script_Unknown.
Proof. split; vm_compute; reflexivity. Qed.
Example table_ok_example : table_ok lb_AL = true /\ is_rune 65 /\ unicode_is lb_AL 65 = Ok true /\ unicode_is lb_AL (-1) = Ok false.
Proof. unfold is_rune. repeat split; try lia; vm_compute; reflexivity. Qed.
Example lookup_examples :
  lookup_type 65 = Ok (Some 8%nat) /\ lookup_combining_class 769 = Ok 230 /\ lookup_line_break 32 = Ok 4%nat
  /\ lookup_grapheme_break 13 = Ok (Some 0%nat) /\ lookup_word_break 65 = Ok (Some 0%nat) /\ lookup_word_break 33 = Ok None.
Proof. repeat split; vm_compute; reflexivity. Qed.
Example prefilter_example : mem gb_All 13 = true /\ mem wb_All 33 = false.
Proof. split; vm_compute; reflexivity. Qed.
Example mirror_example : lookup_mirror 40 = (41, true) /\ lookup_mirror 65 = (65, false).
Proof. split; vm_compute; reflexivity. Qed.
Example hangul_example : decompose_hangul 44033 = (44032, 4520, true) /\ decompose_hangul 44032 = (4352, 4449, true).
Proof. split; vm_compute; reflexivity. Qed.
Example decompose_example :
  decompose 192 = (65, 768, true) /\ excluded 192 = false /\ compose 65 768 = (192, true)
  /\ decompose 2392 = (2325, 2364, true) /\ excluded 2392 = true /\ compose 2325 2364 = (0, false)
  /\ length composition_exclusions = 1120%nat.
Proof. repeat split; vm_compute; reflexivity. Qed.
Example language_example :
  new_language [69; 78; 95; 117; 115; 195; 169; 33] = [101; 110; 45; 117; 115]
  /\ new_lang_id [109; 108; 45; 105; 110] = Ok (288, true) /\ 0 <= 288 < zlen languagesInfos
  /\ new_lang_id [102; 114; 45; 98; 101] = Ok (71, true) /\ lang_of_id 71 = [102; 114].
Proof. repeat split; try (vm_compute; reflexivity); vm_compute; congruence. Qed.
Example direction_example :
  dir_set_sideways 1 true = 15 /\ dir_is_sideways 15 = true /\ dir_progression 15 = true /\ dir_set_progression 15 false = 14.
Proof. repeat split. Qed.
