(* C20 — Unicode and language lookups are coherent total functions.  Property theorems only.
   "Every code point" is every Z (or every int32 where the Go arithmetic is on runes); the tables are the
   ones regenerated into Gen/ on every run, and the side conditions on them (sortedness, disjointness,
   symmetry ...) are computed by the kernel inside the proofs, so a changed table either still satisfies
   them or breaks the corresponding theorem. *)
From Coq Require Import Sorting.Permutation.
From TV Require Import Lib.Bytes Model.Unicode Model.Lang Spec.Unicode Proofs.Unicode Proofs.Decomp Proofs.Lang.
From TV Require Import Model.UnicodeShape Spec.UnicodeShape Proofs.UnicodeShape Proofs.UnicodeShape2 Proofs.HangulCode Proofs.DecompOrder.

(* language.LookupScript (bisection, no fuel exhaustion) returns what a linear scan of ScriptRanges returns *)
Theorem lookup_script_eq_linear_scan : forall r : Z, lookup_script r = Ok (script_scan ScriptRanges r).
Proof. exact lookup_script_eq_linear_scan_lemma. Qed.
Print Assumptions lookup_script_eq_linear_scan.

(* the standard library's unicode.Is (linear / binary search, Latin-1 and R16/R32 dispatch, uint16/uint32
   conversions) is membership in the range list, for every table passing the computed side conditions *)
Theorem unicode_is_eq_membership : forall t r, table_ok t = true -> is_rune r -> unicode_is t r = Ok (mem t r).
Proof. exact unicode_is_mem. Qed.
Print Assumptions unicode_is_eq_membership.

(* classes_partition, per family: the lookup returns the class found by a linear scan of the class list with
   linear membership; a code point lies in at most one class; any other scan order gives the same answer *)
Theorem classes_partition_general_category :
  (forall r, is_rune r -> lookup_type r = Ok (scan_classes categories_order r))
  /\ partition_statement categories_order.
Proof. split; [exact lookup_type_scan|exact (partition_of_family _ categories_family_ok)]. Qed.
Print Assumptions classes_partition_general_category.

Theorem classes_partition_combining_class :
  (forall r, is_rune r -> lookup_combining_class r
     = Ok (match scan_classes combiningClasses_order r with Some i => Z.of_nat i | None => 0 end))
  /\ partition_statement combiningClasses_order.
Proof. split; [exact lookup_combining_class_scan|exact (partition_of_family _ combining_family_ok)]. Qed.
Print Assumptions classes_partition_combining_class.

Theorem classes_partition_line_break :
  (forall r, is_rune r -> lookup_line_break r
     = Ok (match scan_classes lineBreaks_order r with Some i => i | None => lineBreaks_default end))
  /\ partition_statement lineBreaks_order.
Proof. split; [exact lookup_line_break_scan|exact (partition_of_family _ lineBreaks_family_ok)]. Qed.
Print Assumptions classes_partition_line_break.

(* the prefilter graphemeBreakAll does not change the answer *)
Theorem classes_partition_grapheme_break :
  (forall r, is_rune r -> lookup_grapheme_break r = Ok (scan_classes graphemeBreaks_order r))
  /\ partition_statement graphemeBreaks_order.
Proof. split; [exact lookup_grapheme_break_scan|exact (partition_of_family _ graphemeBreaks_family_ok)]. Qed.
Print Assumptions classes_partition_grapheme_break.

Theorem classes_partition_word_break :
  (forall r, is_rune r -> lookup_word_break r = Ok (scan_classes wordBreaks_order r))
  /\ partition_statement wordBreaks_order.
Proof. split; [exact lookup_word_break_scan|exact (partition_of_family _ wordBreaks_family_ok)]. Qed.
Print Assumptions classes_partition_word_break.

(* the prefilter tables are exactly the union of the classes of their family *)
Theorem prefilter_is_union : forall r : Z,
  (mem gb_All r = true <-> exists p, In p graphemeBreaks_order /\ mem (snd p) r = true)
  /\ (mem wb_All r = true <-> exists p, In p wordBreaks_order /\ mem (snd p) r = true).
Proof. exact prefilter_is_union_lemma. Qed.
Print Assumptions prefilter_is_union.

(* LookupMirrorChar is an involution on every integer, and maps mirrored characters to mirrored characters *)
Theorem mirror_involution : forall c : Z,
  fst (lookup_mirror (fst (lookup_mirror c))) = c
  /\ (snd (lookup_mirror c) = true -> lookup_mirror (fst (lookup_mirror c)) = (c, true)).
Proof. exact mirror_involution_lemma. Qed.
Print Assumptions mirror_involution.

(* algorithmic Hangul: decomposeHangul and composeHangul are mutual inverses (int32 wrap-around included) *)
Theorem hangul_roundtrip :
  (forall c a b, is_rune c -> decompose_hangul c = (a, b, true) -> compose_hangul a b = (c, true))
  /\ (forall a b c, compose_hangul a b = (c, true) -> decompose_hangul c = (a, b, true)).
Proof. split; [exact hangul_decompose_compose|exact hangul_compose_decompose]. Qed.
Print Assumptions hangul_roundtrip.

(* Decompose / Compose: whatever composes decomposes back to the same pair (every a, b); whatever decomposes
   recomposes unless it is a composition exclusion of the tables; no Hangul syllable is excluded *)
Theorem compose_decompose_inverse :
  (forall a b c, compose a b = (c, true) -> decompose c = (a, b, true))
  /\ (forall c a b, is_rune c -> decompose c = (a, b, true) -> excluded c = false -> compose a b = (c, true))
  /\ (forall c, is_rune c -> snd (decompose_hangul c) = true -> excluded c = false).
Proof. split; [exact compose_then_decompose|split; [exact decompose_then_compose|exact hangul_not_excluded]]. Qed.
Print Assumptions compose_decompose_inverse.

(* NewLanguage is idempotent on every byte string (any list of integers), and its result is canonical *)
Theorem new_language_idempotent : forall s : list Z,
  new_language (new_language s) = new_language s /\ canonical (new_language s) = true.
Proof. intro s. split; [apply new_language_idempotent_lemma|apply new_language_canonical_lemma]. Qed.
Print Assumptions new_language_idempotent.

(* the canonical form, for EVERY byte string (any list of integers, NUL and bytes above 0x7F included): every byte of
   NewLanguage(s) is one of a-z, 0-9, '-' - nothing else survives, in particular no NUL byte, whose canonMap entry 0
   is the "strip" marker - and a string made of such bytes only is returned unchanged *)
Theorem new_language_canonical :
  (forall (s : list Z) (b : Z), In b (new_language s) -> 97 <= b <= 122 \/ 48 <= b <= 57 \/ b = 45)
  /\ (forall l : list Z, canonical l = true -> new_language l = l).
Proof. split; [exact new_language_bytes_lemma|exact new_language_fixes_canonical_lemma]. Qed.
Print Assumptions new_language_canonical.

(* every identifier of the language table round-trips through its tag (finite domain: the table) *)
Theorem langid_roundtrip : forall id, 0 <= id < zlen languagesInfos -> new_lang_id (lang_of_id id) = Ok (id, true).
Proof. exact langid_roundtrip_lemma. Qed.
Print Assumptions langid_roundtrip.

(* Direction: for each of the 256 byte values, each setter changes exactly its own aspect (see direction_ok) *)
Theorem direction_setters_independent : forall d, 0 <= d < 256 -> direction_ok d = true.
Proof. exact direction_ok_all. Qed.
Print Assumptions direction_setters_independent.

(* ---------------------------------------------------------------------------------------------- *)
(* second part: script tags, vertical orientation, the shaper's lookups *)

(* language.ParseScript / Script.String.  Every uint32 in the capitalisation the code enforces (bit 0x20 clear in
   the first byte, set in the other three: every tag "Xxxx" of letters) round-trips, so does every Script constant
   of scripts_table.go; ParseScript is total on every byte string (error exactly below four bytes) and its result
   is a fixed point of String-then-ParseScript (the normalisation is idempotent). *)
Theorem script_tag_roundtrip :
  (forall s, is_u32 s -> script_normal s = true -> parse_script (script_string s) = Ok s)
  /\ (forall s, is_script_const s = true -> parse_script (script_string s) = Ok s)
  /\ (forall str, (zlen str < 4 -> parse_script str = Err 1) /\ (4 <= zlen str -> exists v, parse_script str = Ok v))
  /\ (forall str v, Forall (fun b => 0 <= b) str -> parse_script str = Ok v ->
        is_u32 v /\ script_normal v = true /\ parse_script (script_string v) = Ok v).
Proof.
  split; [exact script_roundtrip_lemma|]. split; [exact script_const_roundtrip|].
  split; [exact parse_script_total_lemma|exact parse_script_canonical].
Qed.
Print Assumptions script_tag_roundtrip.

(* LookupScript returns, for every integer, a Script constant of scripts_table.go (Unknown included), which
   round-trips through its tag *)
Theorem lookup_script_in_table : forall r : Z,
  exists s, lookup_script r = Ok s /\ is_script_const s = true /\ parse_script (script_string s) = Ok s.
Proof. exact lookup_script_is_const. Qed.
Print Assumptions lookup_script_in_table.

(* LookupVerticalOrientation / Orientation: a script has at most one entry, so the scan order is irrelevant; an
   unlisted script is sideways everywhere; Orientation is the main orientation flipped exactly on the members of
   the exception table (linear membership); and the exceptions of a script are code points of that script *)
Theorem vertical_orientation_lookup :
  (forall s, (exists e, In e vo_table /\ vo_script e = s /\ lookup_vo s = e)
             \/ ((forall e, In e vo_table -> vo_script e <> s) /\ lookup_vo s = (s, true, None)))
  /\ (forall t' s, Permutation vo_table t' -> lookup_vo_in t' s = lookup_vo s)
  /\ (forall s r, is_rune r -> vo_orientation (lookup_vo s) r = Ok (vo_sideways_spec s r))
  /\ (forall e r, In e vo_table -> mem_opt (vo_exc e) r = true -> script_scan ScriptRanges r = vo_script e).
Proof.
  split; [exact vo_lookup_cases|]. split; [exact vo_lookup_order_independent|].
  split; [exact vo_orientation_spec|exact vo_exception_script].
Qed.
Print Assumptions vertical_orientation_lookup.

(* harfbuzz's uni.generalCategory over the tables of unicodedata/general_category.go *)
Theorem classes_partition_shaper_general_category :
  (forall r, is_rune r -> hb_general_category r = Ok (hb_gc_scan r))
  /\ partition_statement hb_generalCategories_order.
Proof. split; [exact hb_general_category_scan|exact (partition_of_family _ hb_gc_family_ok)]. Qed.
Print Assumptions classes_partition_shaper_general_category.

(* the script table and the general category tables describe the same set of assigned code points (UAX #24:
   script Unknown = unassigned, private use or surrogate), for every integer *)
Theorem script_general_category_coherent : forall r : Z,
  script_scan ScriptRanges r <> script_Unknown <-> gc_is_unassigned_like (hb_gc_scan r) = false.
Proof. exact script_gc_coherent_lemma. Qed.
Print Assumptions script_general_category_coherent.

(* the other range tables consulted through unicode.Is (Extended_Pictographic, LargeEastAsian, Word, STerm,
   IndicVirama, IndicVowel_Dependent): lookup = linear membership *)
Theorem auxiliary_tables_membership :
  (forall t r, In t aux_tables -> is_rune r -> unicode_is t r = Ok (mem t r))
  /\ (forall r, is_rune r -> hb_is_extended_pictographic r = Ok (mem ut_Extended_Pictographic r)).
Proof. split; [exact aux_table_is_mem|exact hb_is_extended_pictographic_mem]. Qed.
Print Assumptions auxiliary_tables_membership.

(* getJoiningType: the table value found by a linear scan, mapped by the switch, else the general category
   fallback (T for Mn/Me/Cf, else U) for every uint8 category; a code point has at most one entry and the scan
   order is irrelevant; the result is a column of the state table or joiningTypeT *)
Theorem arabic_joining_eq_linear_scan :
  (forall u gc, 0 <= gc < 256 -> get_joining_type u gc = joining_spec arabic_joinings u gc)
  /\ (forall u, is_rune u -> arabic_joining_type u = Ok (joining_spec arabic_joinings u (hb_gc_scan u)))
  /\ (forall tab' u gc, Permutation arabic_joinings tab' -> get_joining_type_in tab' u gc = get_joining_type u gc)
  /\ (forall u, (length (joining_entries arabic_joinings u) <= 1)%nat)
  /\ (forall u gc, joining_value_ok (get_joining_type u gc) = true).
Proof.
  split; [exact get_joining_type_spec|]. split; [exact arabic_joining_type_spec|].
  split; [exact joining_order_independent|]. split; [exact joining_entries_le1|exact get_joining_type_value_ok].
Qed.
Print Assumptions arabic_joining_eq_linear_scan.

(* indicGetCategories: for every integer the page dispatch `switch u >> 12` returns what one linear scan over the
   clauses of all pages returns, without index panic; two clauses covering a code point are the same clause
   (exactly one value), so the scan order is irrelevant *)
Theorem indic_categories_eq_linear_scan :
  (forall u : Z, indic_get_categories u = Ok (indic_scan u))
  /\ (forall c1 c2 u, In c1 (all_clauses indic_pages) -> In c2 (all_clauses indic_pages) ->
        clause_covers c1 u = true -> clause_covers c2 u = true -> c1 = c2)
  /\ (forall cls' u, Permutation (all_clauses indic_pages) cls' ->
        flat_lookup indic_table cls' indic_default u = indic_scan u).
Proof.
  split; [exact (paged_lookup_flat _ _ _ indic_default indic_paged_ok)|].
  split; [exact (clause_unique _ _ _ indic_paged_ok)|exact (flat_lookup_order_independent _ _ _ indic_default indic_paged_ok)].
Qed.
Print Assumptions indic_categories_eq_linear_scan.

(* getUSECategory: the same statement *)
Theorem use_category_eq_linear_scan :
  (forall u : Z, get_use_category u = Ok (use_scan u))
  /\ (forall c1 c2 u, In c1 (all_clauses use_pages) -> In c2 (all_clauses use_pages) ->
        clause_covers c1 u = true -> clause_covers c2 u = true -> c1 = c2)
  /\ (forall cls' u, Permutation (all_clauses use_pages) cls' ->
        flat_lookup use_table cls' use_default u = use_scan u).
Proof.
  split; [exact (paged_lookup_flat _ _ _ use_default use_paged_ok)|].
  split; [exact (clause_unique _ _ _ use_paged_ok)|exact (flat_lookup_order_independent _ _ _ use_default use_paged_ok)].
Qed.
Print Assumptions use_category_eq_linear_scan.

(* the range clauses of the two dispatch functions tile their tables: every entry of indicTable / useTable is read
   for some code point, and for one only (no dead or doubly used table entry, offsets and bounds agree) *)
Theorem indic_use_tables_tiled :
  (forall i, 0 <= i < zlen indic_table ->
     exists c u, In c (all_clauses indic_pages) /\ is_range c = true /\ c_lo c <= u <= c_hi c /\ u - c_sub c + c_off c = i)
  /\ (forall c1 c2 u1 u2, In c1 (all_clauses indic_pages) -> In c2 (all_clauses indic_pages) ->
        is_range c1 = true -> is_range c2 = true -> c_lo c1 <= u1 <= c_hi c1 -> c_lo c2 <= u2 <= c_hi c2 ->
        u1 - c_sub c1 + c_off c1 = u2 - c_sub c2 + c_off c2 -> c1 = c2 /\ u1 = u2)
  /\ (forall i, 0 <= i < zlen use_table ->
     exists c u, In c (all_clauses use_pages) /\ is_range c = true /\ c_lo c <= u <= c_hi c /\ u - c_sub c + c_off c = i)
  /\ (forall c1 c2 u1 u2, In c1 (all_clauses use_pages) -> In c2 (all_clauses use_pages) ->
        is_range c1 = true -> is_range c2 = true -> c_lo c1 <= u1 <= c_hi c1 -> c_lo c2 <= u2 <= c_hi c2 ->
        u1 - c_sub c1 + c_off c1 = u2 - c_sub c2 + c_off c2 -> c1 = c2 /\ u1 = u2).
Proof.
  split; [exact (table_index_surjective _ _ indic_tiled_ok)|]. split; [exact (table_index_injective _ _ indic_tiled_ok)|].
  split; [exact (table_index_surjective _ _ use_tiled_ok)|exact (table_index_injective _ _ use_tiled_ok)].
Qed.
Print Assumptions indic_use_tables_tiled.

(* uni.modifiedCombiningClass keeps starters starters and non-starters non-starters, and stays a uint8 *)
Theorem modified_combining_class_keeps_starters : forall r, is_rune r ->
  exists c m, lookup_combining_class r = Ok c /\ modified_combining_class r = Ok m
              /\ 0 <= c < 256 /\ 0 <= m < 256 /\ (m = 0 <-> c = 0).
Proof. exact modified_ccc_lemma. Qed.
Print Assumptions modified_combining_class_keeps_starters.

(* decomposeHangul / composeHangul as translated from unicodedata/unicode.go on this run (Gen/HangulCode.v, int32
   wrap-around on every operation) are the hand-written models on every rune, so hangul_roundtrip and
   compose_decompose_inverse are statements about the bounds the code has; restated on the translated functions:
   whatever composes decomposes back to the same pair, for ALL pairs of runes, and conversely outside the exclusions *)
Theorem hangul_model_follows_code :
  (forall ab, is_rune ab -> decompose_hangul_src ab = decompose_hangul ab)
  /\ (forall a b, is_rune a -> is_rune b -> compose_hangul_src a b = compose_hangul a b)
  /\ (forall a b c, is_rune a -> is_rune b -> is_rune c ->
        compose_hangul_src a b = (c, true) -> decompose_hangul_src c = (a, b, true))
  /\ (forall c a b, is_rune c -> is_rune a -> is_rune b ->
        decompose_hangul_src c = (a, b, true) -> compose_hangul_src a b = (c, true))
  /\ (forall a b c, is_rune a -> is_rune b -> is_rune c -> compose_code a b = (c, true) -> decompose_code c = (a, b, true))
  /\ (forall c a b, is_rune c -> is_rune a -> is_rune b ->
        decompose_code c = (a, b, true) -> excluded c = false -> compose_code a b = (c, true)).
Proof.
  split; [exact decompose_hangul_src_eq|]. split; [exact compose_hangul_src_eq|].
  split; [exact hangul_src_compose_decompose|]. split; [exact hangul_src_decompose_compose|].
  split; [exact compose_code_then_decompose_code|exact decompose_code_then_compose_code].
Qed.
Print Assumptions hangul_model_follows_code.

(* a sideways Direction is vertical, for every value (IsSideways = "vertical with a sideways orientation") *)
Theorem direction_sideways_is_vertical : forall d : Z, dobs_coherent (observe d) = true.
Proof.
  intro d. unfold dobs_coherent, observe, dir_is_sideways. cbn [o_sideways o_vertical].
  destruct (dir_is_vertical d); [apply Bool.implb_true_r|reflexivity].
Qed.
Print Assumptions direction_sideways_is_vertical.

(* canonical decompositions are in canonical order: for every rune that decomposes into two parts, the parts are
   never an out-of-order pair of combining marks (ccc(a) > ccc(b) > 0), and the first part of a code point that
   recomposes (not a composition exclusion) is a starter; Hangul parts are starters (no combining class table
   meets the jamo and syllable blocks) *)
Theorem decomposition_canonical_order : forall c a b, is_rune c -> decompose c = (a, b, true) -> b <> 0 ->
  exists ca cb, lookup_combining_class a = Ok ca /\ lookup_combining_class b = Ok cb
                /\ ~ (cb < ca /\ 0 < cb) /\ (excluded c = false -> ca = 0).
Proof. exact decomposition_order_lemma. Qed.
Print Assumptions decomposition_canonical_order.

(* ---- non-vacuity ---- *)
Example script_example : lookup_script 65 = Ok 1281455214 /\ lookup_script 1114112 = Ok script_Unknown.
Proof. split; vm_compute; reflexivity. Qed.
Example table_ok_example : table_ok lb_AL = true /\ is_rune 65 /\ unicode_is lb_AL 65 = Ok true /\ unicode_is lb_AL (-1) = Ok false.
Proof. unfold is_rune. repeat split; try lia; vm_compute; reflexivity. Qed.
Example lookup_examples :
  lookup_type 65 = Ok (Some 8%nat) /\ lookup_combining_class 769 = Ok 230 /\ lookup_line_break 32 = Ok 4%nat
  /\ lookup_grapheme_break 13 = Ok (Some 0%nat) /\ lookup_word_break 65 = Ok (Some 0%nat) /\ lookup_word_break 33 = Ok None.
Proof. repeat split; vm_compute; reflexivity. Qed.
Example prefilter_example : mem gb_All 13 = true /\ mem wb_All 33 = false.
Proof. split; vm_compute; reflexivity. Qed.
Example mirror_example : lookup_mirror 40 = (41, true) /\ lookup_mirror 65 = (65, false).
Proof. split; vm_compute; reflexivity. Qed.
Example hangul_example : decompose_hangul 44033 = (44032, 4520, true) /\ decompose_hangul 44032 = (4352, 4449, true).
Proof. split; vm_compute; reflexivity. Qed.
Example decompose_example :
  decompose 192 = (65, 768, true) /\ excluded 192 = false /\ compose 65 768 = (192, true)
  /\ decompose 2392 = (2325, 2364, true) /\ excluded 2392 = true /\ compose 2325 2364 = (0, false)
  /\ length composition_exclusions = 1120%nat.
Proof. repeat split; vm_compute; reflexivity. Qed.
Example language_example :
  new_language [69; 78; 95; 117; 115; 195; 169; 33] = [101; 110; 45; 117; 115]
  /\ new_lang_id [109; 108; 45; 105; 110] = Ok (288, true) /\ 0 <= 288 < zlen languagesInfos
  /\ new_lang_id [102; 114; 45; 98; 101] = Ok (71, true) /\ lang_of_id 71 = [102; 114].
Proof. repeat split; try (vm_compute; reflexivity); vm_compute; congruence. Qed.
Example language_canonical_example :   (* "EN\000_us@1" with a NUL byte and "fr\000": the NUL is stripped *)
  new_language [69; 78; 0; 95; 117; 115; 64; 49] = [101; 110; 45; 117; 115; 45; 49]
  /\ new_language [102; 114; 0] = [102; 114] /\ new_language [0] = []
  /\ canonical [102; 114; 45; 98; 101] = true /\ new_language [102; 114; 45; 98; 101] = [102; 114; 45; 98; 101]
  /\ canonical [102; 114; 0] = false.
Proof. repeat split; vm_compute; reflexivity. Qed.
Example direction_example :
  dir_set_sideways 1 true = 15 /\ dir_is_sideways 15 = true /\ dir_progression 15 = true /\ dir_set_progression 15 false = 14.
Proof. repeat split. Qed.
Example script_tag_example :
  parse_script [108; 97; 116; 110] = Ok 1281455214 /\ script_string 1281455214 = [76; 97; 116; 110]
  /\ is_script_const 1281455214 = true /\ script_normal 1281455214 = true /\ is_u32 1281455214
  /\ parse_script [76; 97; 116] = Err 1 /\ parse_script [255; 0; 1; 127; 9] = Ok 3743424895.
Proof. unfold is_u32. repeat split; try lia; vm_compute; reflexivity. Qed.
Example vertical_orientation_example :
  lookup_vo 1281455214 = (1281455214, true, Some [(8544, 8584, 1); (65313, 65338, 1); (65345, 65370, 1)])
  /\ vo_orientation (lookup_vo 1281455214) 65 = Ok true /\ vo_orientation (lookup_vo 1281455214) 8544 = Ok false
  /\ lookup_vo 1198679403 = (1198679403, true, None) /\ mem_opt (vo_exc (lookup_vo 1281455214)) 8544 = true.
Proof. repeat split; vm_compute; reflexivity. Qed.
Example shaper_gc_example :
  hb_general_category 65 = Ok 9 /\ hb_general_category 19969 = Ok 7 /\ hb_general_category 57345 = Ok 3
  /\ hb_general_category 888 = Ok hb_gc_unassigned /\ script_scan ScriptRanges 19969 = 1214344809
  /\ gc_is_unassigned_like (hb_gc_scan 19969) = false /\ gc_is_unassigned_like (hb_gc_scan 888) = true.
Proof. repeat split; vm_compute; reflexivity. Qed.
Example aux_tables_example : In ut_Extended_Pictographic aux_tables /\ hb_is_extended_pictographic 128512 = Ok true.
Proof. split; [left; reflexivity|vm_compute; reflexivity]. Qed.
Example arabic_joining_example :
  arabic_joining_type 1576 = Ok hb_joiningTypeD /\ arabic_joining_type 1611 = Ok hb_joiningTypeT
  /\ arabic_joining_type 65 = Ok hb_joiningTypeU /\ get_joining_type 1600 0 = hb_joiningTypeC
  /\ joining_entries arabic_joinings 1576 = [68].
Proof. repeat split; vm_compute; reflexivity. Qed.
Example indic_use_example :
  indic_get_categories 2325 = Ok 1025 /\ indic_get_categories 160 = Ok 1034 /\ indic_get_categories 65 = Ok indic_default
  /\ get_use_category 2325 = Ok 1 /\ get_use_category 69807 = Ok (znth 0 use_table (69807 - 69424 + 4472))
  /\ get_use_category (-1) = Ok use_default.
Proof. repeat split; vm_compute; reflexivity. Qed.
Example modified_ccc_example :
  modified_combining_class 1617 = Ok 27 /\ lookup_combining_class 1617 = Ok 33 /\ modified_combining_class 65 = Ok 0
  /\ modified_combining_class 6752 = Ok 254.
Proof. repeat split; vm_compute; reflexivity. Qed.
Example tiled_example : zlen indic_table = 1728 /\ zlen use_table = 13480 /\ is_range (1, 2304, 3455, 2304, 64) = true.
Proof. repeat split. Qed.
Example hangul_code_example :
  compose_hangul_src 4352 4449 = (44032, true) /\ compose_hangul_src 4352 4470 = (0, false)
  /\ decompose_hangul_src 44033 = (44032, 4520, true) /\ compose_code 65 768 = (192, true) /\ decompose_code 192 = (65, 768, true)
  /\ is_rune 4352 /\ is_rune 4449 /\ is_rune 44032.
Proof. unfold is_rune. repeat split; try lia; vm_compute; reflexivity. Qed.
Example direction_coherent_example : dir_is_sideways 10 = true /\ dir_is_sideways 8 = false /\ dir_is_vertical 8 = false.
Proof. repeat split. Qed.
Example decomposition_order_example :
  decompose 3955 = (3953, 3954, true) /\ lookup_combining_class 3953 = Ok 129 /\ lookup_combining_class 3954 = Ok 130
  /\ excluded 3955 = true /\ decompose 192 = (65, 768, true) /\ lookup_combining_class 65 = Ok 0 /\ lookup_combining_class 768 = Ok 230.
Proof. repeat split; vm_compute; reflexivity. Qed.
