(* C09 — Font loading and querying are total on arbitrary bytes (thin partial).  Property theorems only.
   Under theorem: the hand-written places where numbers taken from the file become indices or sizes:
   opentype.NewLoaders (magic dispatch, parseTTCHeader, parseDfont, parseOneFont, parseOTF, parseWOFF),
   Loader.RawTable / findTableBuffer, tables.ParseLoca + tables.ParseGlyf (slicing), font.newCmap4;
   second batch (Model/TableIndex.v): tables.ParseName + Name.decodeRecord + decodeUtf16, font.loadHVtmx +
   tables.ParseHmtx + Hmtx.Advance + font.getSideBearing, tables.ParseCmapSubtable6/10/12/13 + newCmap6/10/12/13
   (sanitizeCmapGroups) + their Lookup; Model/AatLookup.v: the Class methods of the AAT lookup formats 0, 2, 4, 6, 8, 10.
   Everything else of NewFont and of the Face queries is only explored by the fault-injection sweep. *)
From TV Require Import Model.Container Model.Glyf Model.CmapBuild Spec.Container Spec.Glyf Proofs.Container Proofs.Glyf.
From TV Require Import Model.TableIndex Proofs.TableIndex Model.AatLookup Proofs.AatLookup.
From TV Require Import Model.KernFd Proofs.KernFd.

(* opening ANY byte string as a font or collection returns loaders or an error: no panic, no fuel exhaustion
   (the model has no fuelled loop: every loop is bounded by a count read from the file) *)
Theorem container_total : forall file : list Z, total (result (new_loaders file)).
Proof. exact container_total_lemma. Qed.
Print Assumptions container_total.

(* a successful open returns between 1 and maxNumFonts = 2048 loaders *)
Theorem loaders_bounded : forall file lds, bytes_ok file ->
  result (new_loaders file) = Ok lds -> 1 <= zlen lds <= max_faces.
Proof. exact loaders_bounded_lemma. Qed.
Print Assumptions loaders_bounded.

(* memory requested while opening is bounded by a linear function of the input size, on success and on failure *)
Theorem alloc_bounded : forall file, bytes_ok file ->
  0 <= allocated (new_loaders file) <= 6144 * zlen file + 4000000.
Proof. exact alloc_bounded_lemma. Qed.
Print Assumptions alloc_bounded.

(* reading a table never panics, whatever the loader's directory says *)
Theorem raw_table_total : forall file ld tag, total (result (raw_table_m file ld tag)).
Proof. exact raw_table_total_lemma. Qed.
Print Assumptions raw_table_total.

(* reading any table through any loader returned for a file allocates at most 1032 * |file| bytes
   (the table itself; for a compressed WOFF table at most the deflate expansion of its section) *)
Theorem table_alloc_bounded : forall file lds ld tag, bytes_ok file ->
  result (new_loaders file) = Ok lds -> In ld lds ->
  total (result (raw_table_m file ld tag)) /\ 0 <= allocated (raw_table_m file ld tag) <= 1032 * zlen file.
Proof. exact table_alloc_bounded_lemma. Qed.
Print Assumptions table_alloc_bounded.

(* loca + glyf as loaded by NewFont: for every loca and glyf byte string, glyph count and format, and every total
   per-glyph parser, no slice expression is out of range *)
Theorem glyf_slicing_total : forall (G : Type) (parse_glyph : list Z -> res G),
  (forall b, total (parse_glyph b)) ->
  forall glyf_src loca_src num_glyphs is_long, bytes_ok loca_src -> 0 <= num_glyphs ->
  total (load_glyf parse_glyph glyf_src loca_src num_glyphs is_long).
Proof. exact glyf_slicing_total_lemma. Qed.
Print Assumptions glyf_slicing_total.

(* an accepted loca/glyf pair only ever handed in-range, ordered slices to the glyph parser, one glyph per pair *)
Theorem glyf_accepts_in_range : forall (G : Type) (parse_glyph : list Z -> res G) src loca gs,
  parse_glyf parse_glyph src loca = Ok gs -> loca_in_range (zlen src) loca = true /\ zlen gs + 1 = zlen loca.
Proof. exact glyf_accepts_in_range_lemma. Qed.
Print Assumptions glyf_accepts_in_range.

(* building a format 4 cmap never indexes out of range, for all segment arrays of equal length (as the generated
   parser produces them) and every glyph id array *)
Theorem cmap4_build_total : forall end_code start_code id_delta id_range_offsets glyph_id_array,
  zlen start_code = zlen end_code -> zlen id_delta = zlen end_code -> zlen id_range_offsets = zlen end_code ->
  total (new_cmap4 end_code start_code id_delta id_range_offsets glyph_id_array).
Proof. exact cmap4_build_total_lemma. Qed.
Print Assumptions cmap4_build_total.

(* an accepted format 4 cmap holds at most 2^16 resolved glyph indexes, however its segments overlap *)
Theorem cmap4_alloc_bounded : forall end_code start_code id_delta id_range_offsets glyph_id_array es,
  new_cmap4 end_code start_code id_delta id_range_offsets glyph_id_array = Ok es -> 0 <= resolved_count es <= 65536.
Proof. exact cmap4_alloc_bounded_lemma. Qed.
Print Assumptions cmap4_alloc_bounded.

(* 'name': for every byte string, parsing the table then decoding EVERY record (slicing of the string storage by the
   offset and length of the record, choice of the decoder, UTF-16 unit reads) never slices or indexes out of range *)
Theorem name_total : forall src, bytes_ok src -> total (name_load_and_decode src).
Proof. exact name_total_lemma. Qed.
Print Assumptions name_total.

(* an accepted 'name' table allocated 12 bytes per record, no more than the table itself, and no decoded value has more
   units than the table has bytes *)
Theorem name_alloc_bounded : forall src t, bytes_ok src -> parse_name src = Ok t ->
  12 * zlen (n_records t) <= zlen src /\
  forall r us, In r (n_records t) -> name_record_units t r = Ok us -> zlen us <= zlen src.
Proof. exact name_alloc_bounded_lemma. Qed.
Print Assumptions name_alloc_bounded.

(* hhea/hmtx (and vhea/vmtx): for every pair of byte strings, every glyph count (even negative) and every glyph id,
   loading the metrics then asking the advance and the side bearing of the glyph never indexes out of range and never
   calls make() with a negative size *)
Theorem hmtx_total : forall hhea src num_glyphs gid, bytes_ok hhea -> 0 <= gid ->
  total (hmtx_query hhea src num_glyphs gid).
Proof. exact hmtx_total_lemma. Qed.
Print Assumptions hmtx_total.

(* the metrics built from an accepted table are no larger than the table: 4 bytes per long metric, 2 per side bearing *)
Theorem hmtx_alloc_bounded : forall hhea src num_glyphs h, bytes_ok hhea ->
  load_hvmtx hhea src num_glyphs = Ok h -> 4 * zlen (hm_metrics h) + 2 * zlen (hm_lsb h) <= zlen src.
Proof. exact hmtx_alloc_bounded_lemma. Qed.
Print Assumptions hmtx_alloc_bounded.

(* cmap subtables of format 6, 10, 12 and 13: for every byte string and every rune (any integer), parsing the subtable,
   building the Cmap (with sanitizeCmapGroups) and looking the rune up never indexes out of range, and the binary
   search of formats 12/13 terminates within its fuel (len + 1 iterations) *)
Theorem cmap_sub_lookup_total : forall src r, bytes_ok src -> total (cmap_sub_lookup src r).
Proof. exact cmap_sub_lookup_total_lemma. Qed.
Print Assumptions cmap_sub_lookup_total.

(* what these subtables allocate is bounded by their length: 2 bytes per entry (6, 10), 12 per group (12, 13) *)
Theorem cmap_sub_alloc_bounded : forall src, bytes_ok src ->
  (forall c, parse_cmap6 src = Ok c -> 10 + 2 * zlen (c6_entries c) <= zlen src) /\
  (forall c, parse_cmap10 src = Ok c -> 20 + 2 * zlen (c6_entries c) <= zlen src) /\
  (forall gs, parse_cmap_groups src = Ok gs ->
     16 + 12 * zlen gs <= zlen src /\ zlen (sanitize_groups gs) <= zlen gs).
Proof. exact cmap_alloc_bounded_lemma. Qed.
Print Assumptions cmap_sub_alloc_bounded.

(* AAT lookup tables (morx, kerx, ankr, ... classes), formats 0, 2, 4, 6, 8, 10: for EVERY lookup value (any segments,
   in any order, with value arrays of any length; only the 16-bit range of the first glyph of formats 8/10 is assumed,
   it is a uint16 field) and every 16-bit glyph id, Class never indexes out of range and its searches (sort.Search,
   the two hand-written binary searches) end within len + 1 iterations *)
Theorem aat_class_total : forall l g, lookup_wf l -> 0 <= g < 65536 -> total (aat_class l g).
Proof. exact aat_class_total_lemma. Qed.
Print Assumptions aat_class_total.

(* kerning pairs, 'kern' / 'kerx' format 0 (font.kernPair): for EVERY list of records (sorted or not) and every pair of
   glyph ids (any integers: GID is uint32), the binary search never indexes out of range and ends within len + 1
   iterations *)
Theorem kern0_pair_total : forall recs l r, total (kern0_pair recs l r).
Proof. exact kern0_pair_total_lemma. Qed.
Print Assumptions kern0_pair_total.

(* ... and it answers 0 or the value of a record with exactly that key *)
Theorem kern0_pair_sound : forall recs l r v, kern0_pair recs l r = Ok v ->
  v = 0 \/ exists e, In e recs /\ k_value e = v /\ record_key e = pair_key l r.
Proof. exact kern0_pair_sound_lemma. Qed.
Print Assumptions kern0_pair_sound.

(* format 2 (Kern2.KernPair, after the repair C09-F85): for EVERY pair of class tables (absent, or any AAT lookup
   value), every kerning start offset >= 0 (an unsigned field), every subtable content and every pair of glyph ids, the
   two class look-ups and the 16-bit read at Left + Right never index out of range *)
Theorem kern2_pair_total : forall k l r,
  match k2_left k with Some L => lookup_wf L | None => True end ->
  match k2_right k with Some R => lookup_wf R | None => True end ->
  0 <= k2_start k -> total (kern2_pair k l r).
Proof. exact kern2_pair_total_lemma. Qed.
Print Assumptions kern2_pair_total.

(* format 3: for EVERY value the generated parser can return (array lengths = the header counts, elements bytes:
   kern3_shape) and every pair of glyph ids >= 0, sanitizing (KernData3.parseEnd) then querying (Kern3.KernPair, which
   indexes four arrays without a check, "sanitized during parsing") never indexes out of range *)
Theorem kern3_query_total : forall k l r, kern3_shape k = true -> 0 <= l -> 0 <= r -> total (kern3_query k l r).
Proof. exact kern3_query_total_lemma. Qed.
Print Assumptions kern3_query_total.

(* 'kerx' format 6: the read at row + column is guarded for all class values *)
Theorem kern6_pair_total : forall ks l r, 0 <= l -> 0 <= r -> total (kern6_pair ks l r).
Proof. exact kern6_pair_total_lemma. Qed.
Print Assumptions kern6_pair_total.

(* CFF / CFF2 FDSelect format 3 and 4 (fdSelect3.fontDictIndex, fdSelect4.fontDictIndex32): for EVERY list of ranges
   (unsorted, overlapping, empty), every sentinel and every glyph id, the bisection never indexes out of range and ends
   within len + 1 iterations -- the ranges are not validated when the table is parsed *)
Theorem fdselect3_total : forall ranges sentinel x, total (fdselect3 ranges sentinel x).
Proof. exact fdselect3_total_lemma. Qed.
Print Assumptions fdselect3_total.

(* the font dict index it returns is below extent(), which the parser compares with the number of Font DICTs: LoadGlyph
   indexes localSubrs / fonts with it *)
Theorem fdselect3_in_extent : forall ranges sentinel x v n,
  fd3_extent ranges <= n -> fdselect3 ranges sentinel x = Ok (Some v) -> v < n.
Proof. exact fdselect3_in_extent_lemma. Qed.
Print Assumptions fdselect3_in_extent.

Theorem fdselect0_total : forall fds g, 0 <= g -> total (fdselect0 fds g).
Proof. exact fdselect0_total_lemma. Qed.
Print Assumptions fdselect0_total.

(* ---- non-vacuity ---- *)
Definition ex_bytes_okb (l : list Z) : bool := forallb (fun b => (0 <=? b) && (b <? 256)) l.
Lemma ex_bytes_ok l : ex_bytes_okb l = true -> bytes_ok l.
Proof.
  unfold ex_bytes_okb, bytes_ok. rewrite forallb_forall, Forall_forall. intros H x Hx. specialize (H x Hx).
  unfold byte_ok. apply andb_true_iff in H as [A B]. apply Z.leb_le in A. apply Z.ltb_lt in B. split; assumption.
Qed.

(* a collection of two fonts sharing one directory with one 4-byte table "head" *)
Definition ex_ttc : list Z :=
  [116;116;99;102; 0;1;0;0; 0;0;0;2; 0;0;0;20; 0;0;0;20;
   0;1;0;0; 0;1; 0;0;0;0;0;0; 104;101;97;100; 0;0;0;0; 0;0;0;48; 0;0;0;4; 1;2;3;4].
Example ex_ttc_loads : bytes_ok ex_ttc /\ exists l1 l2, result (new_loaders ex_ttc) = Ok [l1; l2]
  /\ result (raw_table_m ex_ttc l1 1751474532) = Ok (RawBytes [1;2;3;4]).
Proof. split; [apply ex_bytes_ok; reflexivity|]. eexists; eexists; split; vm_compute; reflexivity. Qed.

(* two glyphs without contours, short loca [0; 12; 12; 24] *)
Example ex_glyf_loads :
  (forall b, total (parse_glyph_mini b)) /\
  exists g1 g2, load_glyf parse_glyph_mini (repeat 0 24) [0;0; 0;6; 0;6; 0;12] 3 false = Ok [Some g1; None; Some g2].
Proof.
  split.
  - intros b. unfold parse_glyph_mini. destruct (_ <? 10); [exact I|]. destruct (_ =? 0); [|exact I].
    destruct (_ <? 12); [exact I|]. destruct (_ <? _); exact I.
  - eexists; eexists; vm_compute; reflexivity.
Qed.

(* one segment 'A'..'B' resolved through the glyph id array *)
Example ex_cmap4_builds : exists ix,
  new_cmap4 [66; 65535] [65; 65535] [0; 1] [4; 0] [0;7; 0;9] = Ok [mkEntry16 66 65 0 (Some ix); mkEntry16 65535 65535 1 None]
  /\ ix = [7; 9] /\ resolved_count [mkEntry16 66 65 0 (Some ix); mkEntry16 65535 65535 1 None] = 2.
Proof. eexists; repeat split; vm_compute; reflexivity. Qed.

(* a 'name' table with one Microsoft/Unicode record "Hi" (UTF-16) and one custom-platform record "ab" *)
Definition ex_name : list Z :=
  [0;0; 0;2; 0;30;  0;3; 0;1; 4;9; 0;1; 0;4; 0;0;   0;4; 0;0; 0;0; 0;2; 0;2; 0;4;   0;72; 0;105; 97;98].
Example ex_name_loads : bytes_ok ex_name /\ exists t, name_load_and_decode ex_name = Ok (t, [[72; 105]; [97; 98]])
  /\ zlen (n_records t) = 2.
Proof. split; [apply ex_bytes_ok; reflexivity|]. eexists; split; vm_compute; reflexivity. Qed.

(* hhea with 2 long metrics, 3 glyphs: glyph 2 repeats the last advance and has its own side bearing *)
Definition ex_hhea : list Z := repeat 0 34 ++ [0; 2].
Example ex_hmtx_loads : bytes_ok ex_hhea /\
  hmtx_query ex_hhea [1;244; 0;10;  2;88; 0;20;  255;251] 3 2 = Ok (600, -5)
  /\ hmtx_query ex_hhea [1;244; 0;10;  2;88; 0;20;  255;251] 3 0 = Ok (500, 10)
  /\ hmtx_query ex_hhea [1;244; 0;10;  2;88; 0;20;  255;251] 3 3 = Ok (0, 0).
Proof. split; [apply ex_bytes_ok; reflexivity|]. repeat split; vm_compute; reflexivity. Qed.

(* format 12: one group U+1F600..U+1F602 -> glyphs 7..9; format 6: 'A','B' -> 5, 6 *)
Definition ex_cmap12 : list Z := [0;12; 0;0; 0;0;0;28; 0;0;0;0; 0;0;0;1;  0;1;246;0; 0;1;246;2; 0;0;0;7].
Definition ex_cmap6 : list Z := [0;6; 0;14; 0;0; 0;65; 0;2; 0;5; 0;6].
Example ex_cmap_lookups : bytes_ok ex_cmap12 /\ bytes_ok ex_cmap6 /\
  cmap_sub_lookup ex_cmap12 128513 = Ok (Some 8) /\ cmap_sub_lookup ex_cmap12 128515 = Ok None
  /\ cmap_sub_lookup ex_cmap6 66 = Ok (Some 6) /\ cmap_sub_lookup ex_cmap6 67 = Ok None
  /\ exists gs, parse_cmap_groups ex_cmap12 = Ok gs /\ zlen gs = 1.
Proof.
  split; [apply ex_bytes_ok; reflexivity|]. split; [apply ex_bytes_ok; reflexivity|].
  repeat split; try (vm_compute; reflexivity). eexists; split; vm_compute; reflexivity.
Qed.

(* format 4: segments 3..5 -> [10;11;12] and 9..9 without values (null offset); format 2 and format 8 with a wrapping end *)
Example ex_aat_classes :
  lookup_wf (L8 65534 [7; 8; 9]) /\
  aat_class (L4 [mkSeg4 5 3 [10; 11; 12]; mkSeg4 9 9 []]) 4 = Ok (Some 11)
  /\ aat_class (L4 [mkSeg4 5 3 [10; 11; 12]; mkSeg4 9 9 []]) 9 = Ok None
  /\ aat_class (L2 [mkSeg2 5 3 1; mkSeg2 9 7 2]) 8 = Ok (Some 2)
  /\ aat_class (L2 [mkSeg2 5 3 1; mkSeg2 9 7 2]) 6 = Ok None
  /\ aat_class (L8 65534 [7; 8; 9]) 65535 = Ok None
  /\ aat_class (L8 3 [7; 8; 9]) 5 = Ok (Some 9).
Proof. split; [cbn; lia|]. repeat split; vm_compute; reflexivity. Qed.

(* kerning: a pair found, a pair not found; format 2 with a null right class table; format 3 accepted and queried, and
   rejected when an index equals kernValueCount; FDSelect 3 with a sentinel below the glyph (errGlyph, no hang) *)
Example ex_kern_lookups :
  kern0_pair [mkKrec 1 2 (-50); mkKrec 1 5 30; mkKrec 4 0 7] 1 5 = Ok 30
  /\ kern0_pair [mkKrec 1 2 (-50); mkKrec 1 5 30; mkKrec 4 0 7] 1 3 = Ok 0
  /\ kern2_pair (mkKern2 (Some (L8 3 [4; 6])) None 4 [0;0;0;0; 255;206; 0;9]) 3 3 = Ok 0
  /\ kern2_pair (mkKern2 (Some (L8 3 [4; 6])) (Some (L8 3 [0; 0])) 4 [0;0;0;0; 255;206; 0;9]) 3 3 = Ok (-50)
  /\ kern3_shape (mkKern3 1 1 1 [ -50 ] [0; 0; 0; 0] [0; 0; 0; 0] [0]) = true
  /\ kern3_query (mkKern3 1 1 1 [ -50 ] [0; 0; 0; 0] [0; 0; 0; 0] [0]) 1 2 = Ok (Some (-50))
  /\ kern3_query (mkKern3 1 1 1 [ -50 ] [0; 0; 0; 0] [0; 0; 0; 0] [1]) 1 2 = Ok None
  /\ kern6_pair [1; 2; 3] 1 1 = Ok 3 /\ kern6_pair [1; 2; 3] 2 1 = Ok 0
  /\ fdselect3 [mkRange3 0 1; mkRange3 4 0] 9 5 = Ok (Some 0)
  /\ fdselect3 [mkRange3 0 1; mkRange3 4 0] 1 5 = Ok None
  /\ fd3_extent [mkRange3 0 1; mkRange3 4 0] = 2
  /\ fdselect0 [0; 1; 1] 2 = Ok (Some 1) /\ fdselect0 [0; 1; 1] 3 = Ok None.
Proof. vm_compute. repeat split. Qed.
