(* C09 — Font loading and querying are total on arbitrary bytes (thin partial).  Property theorems only.
   Under theorem: the hand-written places where numbers taken from the file become indices or sizes:
   opentype.NewLoaders (magic dispatch, parseTTCHeader, parseDfont, parseOneFont, parseOTF, parseWOFF),
   Loader.RawTable / findTableBuffer, tables.ParseLoca + tables.ParseGlyf (slicing), font.newCmap4.
   Everything else of NewFont and of the Face queries is only explored by the fault-injection sweep. *)
From TV Require Import Model.Container Model.Glyf Model.CmapBuild Spec.Container Spec.Glyf Proofs.Container Proofs.Glyf.

(* opening ANY byte string as a font or collection returns loaders or an error: no panic, no fuel exhaustion
   (the model has no fuelled loop: every loop is bounded by a count read from the file) *)
Theorem container_total : forall file : list Z, total (result (new_loaders file)).
Proof. exact container_total_lemma. Qed.
Print Assumptions container_total.

(* a successful open returns between 1 and maxNumFonts = 2048 loaders *)
Theorem loaders_bounded : forall file lds, bytes_ok file ->
  result (new_loaders file) = Ok lds -> 1 <= zlen lds <= max_faces.
Proof. exact loaders_bounded_lemma. Qed.
Print Assumptions loaders_bounded.

(* memory requested while opening is bounded by a linear function of the input size, on success and on failure *)
Theorem alloc_bounded : forall file, bytes_ok file ->
  0 <= allocated (new_loaders file) <= 6144 * zlen file + 4000000.
Proof. exact alloc_bounded_lemma. Qed.
Print Assumptions alloc_bounded.

(* reading a table never panics, whatever the loader's directory says *)
Theorem raw_table_total : forall file ld tag, total (result (raw_table_m file ld tag)).
Proof. exact raw_table_total_lemma. Qed.
Print Assumptions raw_table_total.

(* reading any table through any loader returned for a file allocates at most 1032 * |file| bytes
   (the table itself; for a compressed WOFF table at most the deflate expansion of its section) *)
Theorem table_alloc_bounded : forall file lds ld tag, bytes_ok file ->
  result (new_loaders file) = Ok lds -> In ld lds ->
  total (result (raw_table_m file ld tag)) /\ 0 <= allocated (raw_table_m file ld tag) <= 1032 * zlen file.
Proof. exact table_alloc_bounded_lemma. Qed.
Print Assumptions table_alloc_bounded.

(* loca + glyf as loaded by NewFont: for every loca and glyf byte string, glyph count and format, and every total
   per-glyph parser, no slice expression is out of range *)
Theorem glyf_slicing_total : forall (G : Type) (parse_glyph : list Z -> res G),
  (forall b, total (parse_glyph b)) ->
  forall glyf_src loca_src num_glyphs is_long, bytes_ok loca_src -> 0 <= num_glyphs ->
  total (load_glyf parse_glyph glyf_src loca_src num_glyphs is_long).
Proof. exact glyf_slicing_total_lemma. Qed.
Print Assumptions glyf_slicing_total.

(* an accepted loca/glyf pair only ever handed in-range, ordered slices to the glyph parser, one glyph per pair *)
Theorem glyf_accepts_in_range : forall (G : Type) (parse_glyph : list Z -> res G) src loca gs,
  parse_glyf parse_glyph src loca = Ok gs -> loca_in_range (zlen src) loca = true /\ zlen gs + 1 = zlen loca.
Proof. exact glyf_accepts_in_range_lemma. Qed.
Print Assumptions glyf_accepts_in_range.

(* building a format 4 cmap never indexes out of range, for all segment arrays of equal length (as the generated
   parser produces them) and every glyph id array *)
Theorem cmap4_build_total : forall end_code start_code id_delta id_range_offsets glyph_id_array,
  zlen start_code = zlen end_code -> zlen id_delta = zlen end_code -> zlen id_range_offsets = zlen end_code ->
  total (new_cmap4 end_code start_code id_delta id_range_offsets glyph_id_array).
Proof. exact cmap4_build_total_lemma. Qed.
Print Assumptions cmap4_build_total.

(* an accepted format 4 cmap holds at most 2^16 resolved glyph indexes, however its segments overlap *)
Theorem cmap4_alloc_bounded : forall end_code start_code id_delta id_range_offsets glyph_id_array es,
  new_cmap4 end_code start_code id_delta id_range_offsets glyph_id_array = Ok es -> 0 <= resolved_count es <= 65536.
Proof. exact cmap4_alloc_bounded_lemma. Qed.
Print Assumptions cmap4_alloc_bounded.

(* ---- non-vacuity ---- *)
Definition ex_bytes_okb (l : list Z) : bool := forallb (fun b => (0 <=? b) && (b <? 256)) l.
Lemma ex_bytes_ok l : ex_bytes_okb l = true -> bytes_ok l.
Proof.
  unfold ex_bytes_okb, bytes_ok. rewrite forallb_forall, Forall_forall. intros H x Hx. specialize (H x Hx).
  unfold byte_ok. apply andb_true_iff in H as [A B]. apply Z.leb_le in A. apply Z.ltb_lt in B. split; assumption.
Qed.

(* a collection of two fonts sharing one directory with one 4-byte table "head" *)
Definition ex_ttc : list Z :=
  [116;116;99;102; 0;1;0;0; 0;0;0;2; 0;0;0;20; 0;0;0;20;
   0;1;0;0; 0;1; 0;0;0;0;0;0; 104;101;97;100; 0;0;0;0; 0;0;0;48; 0;0;0;4; 1;2;3;4].
Example ex_ttc_loads : bytes_ok ex_ttc /\ exists l1 l2, result (new_loaders ex_ttc) = Ok [l1; l2]
  /\ result (raw_table_m ex_ttc l1 1751474532) = Ok (RawBytes [1;2;3;4]).
Proof. split; [apply ex_bytes_ok; reflexivity|]. eexists; eexists; split; vm_compute; reflexivity. Qed.

(* two glyphs without contours, short loca [0; 12; 12; 24] *)
Example ex_glyf_loads :
  (forall b, total (parse_glyph_mini b)) /\
  exists g1 g2, load_glyf parse_glyph_mini (repeat 0 24) [0;0; 0;6; 0;6; 0;12] 3 false = Ok [Some g1; None; Some g2].
Proof.
  split.
  - intros b. unfold parse_glyph_mini. destruct (_ <? 10); [exact I|]. destruct (_ =? 0); [|exact I].
    destruct (_ <? 12); [exact I|]. destruct (_ <? _); exact I.
  - eexists; eexists; vm_compute; reflexivity.
Qed.

(* one segment 'A'..'B' resolved through the glyph id array *)
Example ex_cmap4_builds : exists ix,
  new_cmap4 [66; 65535] [65; 65535] [0; 1] [4; 0] [0;7; 0;9] = Ok [mkEntry16 66 65 0 (Some ix); mkEntry16 65535 65535 1 None]
  /\ ix = [7; 9] /\ resolved_count [mkEntry16 66 65 0 (Some ix); mkEntry16 65535 65535 1 None] = 2.
Proof. eexists; repeat split; vm_compute; reflexivity. Qed.
