(* C04 — Lines fit the width, are greedily filled, and truncation is honoured.  Property theorems only.
   Proved for every input: soundness of the fit classification, the truncation bookkeeping of postProcessLine,
   truncation_lines (TruncateAfterLines = k >= 1: at most k lines over any number of WrapNextLine calls with any widths, and
   from WrapParagraph), width_bound (Proofs/WrapWidth.v + Proofs/WrapValid.v) and greedy (Proofs/WrapGreedyAll.v) for EVERY
   break policy, truncation_exactly_when (Proofs/WrapTruncWhen.v).
   width_bound (FULL: the width clause of the property): for every WrapNextLine call from a state reached by Prepare + any
   calls, whose entry store has non-negative advances / letter spacing (the property's sign hypothesis; nothing is assumed
   of the input runs' own Advance fields), the returned line measured by Spec/Wrap.v line_measure ON THE RETURNED STORE is
   within maxWidth, or is a single unbreakable unit exactly as the oracle evaluates it (Spec/Wrap.v single_unit with the
   call's policy: no position strictly inside is a UAX #14 opportunity - or, for policies other than Never, a grapheme
   boundary - at a cluster boundary of every run); when the truncator was appended the text is empty or within
   maxWidth - ceil(truncator advance).
   Three hypotheses / weakenings of earlier versions are gone with library repairs that the model follows:
   * the iterator hypothesis WI (the UAX #14 iterator has not consumed a valid line boundary beyond the line start) - it
     was broken by the dropped candidate of finding F37; with the fix "the grapheme fallback uses the UAX #14 option when it
     finds no grapheme boundary" (word_fallback) it is an invariant of every call sequence (Proofs/WrapValid.v);
   * the weaker exception "no valid UAX #14 opportunity strictly inside" for policies WhenNecessary / Always - the gap was
     the grapheme iterator's skipping rule (finding F7: every grapheme option up to previousWordBreak is skipped, and
     previousWordBreak advanced over UAX #14 candidates rejected as intra-cluster); with the fix "a rejected UAX #14 option
     is discarded" (discard_word) what is skipped lies before the line start, the grapheme iterator never hands out a valid
     grapheme boundary beyond the line start without it being tried (GI, an invariant of every call sequence:
     Proofs/WrapValid.v), and an over-wide line holds no valid grapheme boundary either;
   * the guard adv_consistent on the call's entry store (finding F6: input runs edited through aliases by an earlier call
     kept a stale Advance, which a run placed whole carried onto the line) - with the fix "a run placed whole has its
     advance recomputed from its glyphs" (fillUntil, single-run fast path) the wrapper never reads the input Advance.
   greedy (FULL, every break policy; Proofs/WrapGreedyAll.v) states the greedy clause over positions and widths: a line
   returned with the wrapper still live ends at a mandatory boundary, or the next valid UAX #14 opportunity after it could not
   be taken - and, under Always or when WhenNecessary split the line inside a word, the next valid candidate of either kind
   (UAX #14 opportunity or grapheme boundary) could not be taken - without measuring more than maxWidth (Spec/Wrap.v
   line_measure of the exact pieces on the call's entry store, i.e. before the start letter spacing of the first glyph is
   trimmed).  greedy_partial is the earlier statement for BreakPolicy Never over the breaker registers, kept. *)
From TV Require Import Model.Wrap Spec.Wrap Spec.WrapGreedy Spec.WrapGreedyAll Proofs.Wrap Proofs.WrapLines Proofs.WrapTrunc Proofs.WrapWidth
  Proofs.WrapGreedy Proofs.WrapValid Proofs.WrapGreedyAll Proofs.WrapTruncWhen.

(* Whenever processBreakOption classifies a candidate, the classification agrees with the measured width
   (advanceSpaceAware of the candidate + advance of the runs already on the line, rounded up): fits / endLine
   candidates are within maxWidth (and within the truncated width on the truncating line), cannotFit /
   newLineBeforeBreak candidates exceed it.  All states, options and line configurations. *)
Theorem candidate_classification_sound_partial : forall w opt lc w' r cand,
  process_break_option w opt lc = Ok (w', r, cand) ->
  (r = Fits -> cand_width w' cand <= lc_max lc /\ (lc_truncating lc = true -> cand_width w' cand <= lc_tmax lc))
  /\ (r = EndLine -> cand_width w' cand <= lc_max lc)
  /\ (r = Truncated -> cand_width w' cand <= lc_max lc /\ lc_truncating lc = true /\ lc_tmax lc < cand_width w' cand)
  /\ ((r = CannotFit \/ r = NewLineBeforeBreak) -> lc_max lc < cand_width w' cand).
Proof. exact process_fits_width. Qed.
Print Assumptions candidate_classification_sound_partial.

(* truncation bookkeeping of postProcessLine, every state / line / done flag: NextLine is the new line start; a
   truncator is appended only as the last run, with Runes = (NextLine, Truncated), Truncated = n - NextLine, and the
   whole line then covers [lineStart, n); without it the line ends at NextLine *)
Theorem truncation_reports_cut_range_partial : forall n w line done w' wl d',
  b_n (w_br w) = n ->
  (forall l, line = Some l -> exists e, chain (w_start w) l e) ->
  post_process w line done = (w', wl, d') ->
  line_result n (w_start w) w' wl.
Proof. exact post_process_chain. Qed.
Print Assumptions truncation_reports_cut_range_partial.

Example classification_example :
  let st := [[mkGlyph 0 1 1 64 64 0 0 0; mkGlyph 1 1 1 64 64 0 0 0]; []] in
  let w := prepare (w_zero st) cfg_zero [4; 4; 7] [mkOut 128 0 0 2 0 0 2 0] 0 0 in
  exists w' c, process_break_option w (1, false) (mkLC false 1 0) = Ok (w', CannotFit, c) /\ cand_width w' c = 2.
Proof. vm_compute. eexists _, _. split; reflexivity. Qed.

(* truncation_lines: Prepare with TruncateAfterLines = k >= 1 on any contiguous run list covering [0,n), n >= 1, followed
   by ANY number of WrapNextLine calls with ANY widths: at most k of the calls return a (non-nil) line.  (nlines counts
   the results whose line is not nil; since the repair of finding F37 no call returns a nil line while live:
   Props/C03.v mandatory_break_ends_line.) *)
Theorem truncation_lines : forall n w cfg attrs runs widths w' rs,
  runs_ok runs n -> zlen attrs - 1 = n -> 1 <= n -> 1 <= c_trunc cfg ->
  run_calls (prepare w cfg attrs runs 0 0) widths = Ok (w', rs) ->
  nlines rs <= c_trunc cfg.
Proof. exact truncation_lines_calls. Qed.
Print Assumptions truncation_lines.

(* ... and WrapParagraph returns at most k lines *)
Theorem truncation_lines_paragraph : forall n w cfg attrs runs mw w' ls tr,
  runs_ok runs n -> zlen attrs - 1 = n -> 1 <= n -> 1 <= c_trunc cfg ->
  wrap_paragraph w cfg mw attrs runs = Ok (w', ls, tr) -> zlen ls <= c_trunc cfg.
Proof. exact truncation_lines_par. Qed.
Print Assumptions truncation_lines_paragraph.

(* non-vacuity: "a a b" at width 1 would take three lines; with TruncateAfterLines = 2 two lines come back, Truncated = 1 *)
Example truncation_lines_example :
  let st := [[mkGlyph 0 1 1 64 64 0 0 0; mkGlyph 1 1 1 64 64 0 0 0]; [mkGlyph 2 1 1 64 64 0 0 0]; []] in
  let runs := [mkOut 128 0 0 2 0 0 2 0; mkOut 64 0 2 1 1 0 1 0] in
  let cfg := mkCfg 0 2 (mkOut 0 0 0 0 2 0 0 0) false 0 false in
  runs_ok runs 3 /\ 1 <= c_trunc cfg
  /\ exists w' ls, wrap_paragraph (w_zero st) cfg 1 [4; 5; 5; 7] runs = Ok (w', ls, 1) /\ zlen ls = 2.
Proof. split; [split; [reflexivity|repeat constructor]|]. split; [cbn; lia|]. vm_compute. eexists _, _. split; reflexivity. Qed.

(* ---- width_bound (Proofs/WrapWidth.v) ----------------------------------------------------------------------------- *)

(* width_bound (full): Prepare on well-formed runs with ANY policy, ANY sequence of WrapNextLine calls with any widths
   reaching a live state wk, then one more call with maxWidth mw that returns a non-nil line.  Hypotheses on the entry
   state of that call: the truncator's glyph array lies after the runs' arrays; nonneg_adv (sign hypothesis of the
   property).  No iterator hypothesis (WI and GI are invariants since the repairs of F37 and F7) and no hypothesis on the
   input runs' Advance (never read since the repair of F6).  Conclusion
   (width_bound_stmt), with m = ceil(line_measure on the RETURNED store), s = line start, e = NextLine:
   * truncator appended:  s = e (no text)  or  m <= mw - ceil(truncator advance): text + truncator fit maxWidth (the
     F8 exception of earlier versions is gone with the library fix 5102a36);
   * otherwise:  m <= mw  or  single_unit attrs (entry store) runs n policy s e = true, the property's "single
     unbreakable unit" exactly as the oracle width_ok evaluates it: no position strictly inside (s, e) is a UAX #14
     opportunity - or, for policies other than Never, a grapheme boundary - at a cluster boundary of every run. *)
Theorem width_bound : forall n w cfg attrs runs widths wk rs mw w' wl d line,
  wf_runs (w_st w) runs n = true -> zlen attrs - 1 = n -> 1 <= n ->
  run_calls (prepare w cfg attrs runs 0 0) widths = Ok (wk, rs) -> w_more wk = true ->
  zlen runs <= o_src (c_truncator (w_cfg wk)) ->
  nonneg_adv (w_st wk) = true ->
  wrap_next_line wk mw = Ok (w', wl, d) -> wl_line wl = Some line ->
  width_bound_stmt attrs n runs (w_st wk) (w_st w') (o_src (c_truncator (w_cfg wk))) (c_dir (w_cfg wk))
                   (o_adv (c_truncator (w_cfg wk))) (c_policy (w_cfg wk)) (w_start wk) (wl_next wl) mw line.
Proof. exact width_bound_calls_all. Qed.
Print Assumptions width_bound.

(* the width measured for a candidate bounds the declarative measure of the candidate line on the same store, whenever
   the recorded advance of the collected runs bounds the sum of their glyph advances (WA, kept by processBreakOption:
   Proofs/WrapWidth.v pbo_W) *)
Theorem candidate_width_bounds_measure : forall w cand,
  WA w -> o_adv cand = sum_adv (out_glyphs (w_st w) cand) ->
  ceil26 (lmeas (w_st w) (c_dir (w_cfg w)) (s_alt (w_sc w) ++ [cand])) <= cand_width w cand.
Proof. exact cand_meas. Qed.
Print Assumptions candidate_width_bounds_measure.

(* the exception disjunct of width_bound_stmt, single_unit as the oracle evaluates it (Spec/Wrap.v single_unit used by
   check_width_truncation), read as a statement about positions, for every policy: it holds as soon as no position strictly
   inside is a UAX #14 opportunity - or a grapheme boundary when the policy is not Never - at a cluster boundary of every run *)
Theorem width_exception_is_single_unit : forall attrs st rs n policy s e, e <= n ->
  (forall p, s < p < e -> (line_boundary attrs p = true \/ (policy <> 1 /\ grapheme_boundary attrs p = true)) ->
             cluster_boundary st rs p = true -> False) ->
  single_unit attrs st rs n policy s e = true.
Proof. exact any_single_unit. Qed.
Print Assumptions width_exception_is_single_unit.

(* non-vacuity: "a SP b" + "c" (the space has zero Width): every hypothesis holds on the first call; at maxWidth 1 the line
   [0,2) = "a SP" is returned and measures 1 (the trailing space is not counted); at maxWidth 0 the line [0,1) measures
   1 > 0 and is the exception (nothing breakable strictly inside) *)
Example width_bound_example :
  let st := [[mkGlyph 0 1 1 64 64 0 0 0; mkGlyph 1 1 1 64 0 0 0 0; mkGlyph 2 1 1 64 64 0 0 0]; [mkGlyph 3 1 1 64 64 0 0 0]; []] in
  let runs := [mkOut 192 0 0 3 0 0 3 0; mkOut 64 0 3 1 1 0 1 0] in
  let cfg := mkCfg 0 0 (mkOut 0 0 0 0 2 0 0 0) false 0 false in
  let attrs := [4; 4; 5; 4; 7] in
  let wk := prepare (w_zero st) cfg attrs runs 0 0 in
  wf_runs st runs 4 = true /\ nonneg_adv st = true /\ adv_consistent st runs = true /\ zlen runs <= 2
  /\ run_calls wk [] = Ok (wk, []) /\ w_more wk = true
  /\ (exists w' l, wrap_next_line wk 1 = Ok (w', mkWrapped (Some l) 0 2, false) /\ has_truncator 2 l = false
         /\ ceil26 (line_measure (w_st w') 2 0 l) = 1)
  /\ (exists w' l, wrap_next_line wk 0 = Ok (w', mkWrapped (Some l) 0 1, false) /\ has_truncator 2 l = false
         /\ ceil26 (line_measure (w_st w') 2 0 l) = 1).
Proof.
  cbv zeta. split; [vm_compute; reflexivity|]. split; [vm_compute; reflexivity|]. split; [vm_compute; reflexivity|].
  split; [vm_compute; discriminate|]. split; [reflexivity|]. split; [reflexivity|].
  split; vm_compute; eexists _, _; repeat split; reflexivity.
Qed.

(* regression of finding F7 on the model, policy WhenNecessary: runes a b c d SP e f, clusters a, b, c, "d SP e", f, maxWidth 2:
   the calls return [0,2) "a b", [2,6) "c" + the cluster (2 px), [6,7) "f" (before the repair the first line was [0,6), 4 px);
   at maxWidth 0 the first line [0,1) measures 1 > 0 and is
   a single unit under policy WhenNecessary (no line or grapheme boundary at a cluster boundary strictly inside) *)
Example width_bound_f7_example :
  let st := [[mkGlyph 0 1 1 64 64 0 0 0; mkGlyph 1 1 1 64 64 0 0 0; mkGlyph 2 1 1 64 64 0 0 0; mkGlyph 3 3 1 64 64 0 0 0;
              mkGlyph 6 1 1 64 64 0 0 0]; []] in
  let runs := [mkOut 320 0 0 7 0 0 5 0] in
  let cfg := mkCfg 0 0 (mkOut 0 0 0 0 1 0 0 0) false 0 false in
  let attrs := [4; 4; 4; 4; 4; 5; 4; 7] in
  let wk := prepare (w_zero st) cfg attrs runs 0 0 in
  wf_runs st runs 7 = true /\ nonneg_adv st = true /\ adv_consistent st runs = true
  /\ (exists w' rs, run_calls wk [2; 2; 2] = Ok (w', rs)
        /\ map (fun x => (wl_next (fst x), snd x)) rs = [(2, false); (6, false); (7, true)])
  /\ (exists w' l, wrap_next_line wk 0 = Ok (w', mkWrapped (Some l) 0 1, false)
        /\ ceil26 (line_measure (w_st w') 1 0 l) = 1 /\ single_unit attrs st runs 7 0 0 1 = true).
Proof.
  cbv zeta. split; [vm_compute; reflexivity|]. split; [vm_compute; reflexivity|]. split; [vm_compute; reflexivity|].
  split; vm_compute; eexists _, _; repeat split; reflexivity.
Qed.

(* ---- BreakPolicy Never (Proofs/WrapGreedy.v) ------------------------------------------------------------------------ *)

(* width_bound for BreakPolicy Never, without the iterator hypothesis: Prepare on well-formed runs with policy Never, ANY
   sequence of WrapNextLine calls with any widths reaching a live state wk, one more call with maxWidth mw returning a
   non-nil line.  Hypotheses on the entry store of that call: nonneg_adv (the property's sign hypothesis) and the
   truncator's glyph array after the runs' arrays.  With
   m = ceil(line_measure on the RETURNED store): truncator appended -> no text or m <= mw - ceil(truncator advance);
   otherwise m <= mw or the line is a single unbreakable unit exactly as the oracle evaluates it (Spec/Wrap.v single_unit
   with policy 1).  The special case of width_bound for policy Never, kept from earlier versions. *)
Theorem width_bound_never : forall n w cfg attrs runs widths wk rs mw w' wl d line,
  wf_runs (w_st w) runs n = true -> zlen attrs - 1 = n -> 1 <= n -> c_policy cfg = 1 ->
  run_calls (prepare w cfg attrs runs 0 0) widths = Ok (wk, rs) -> w_more wk = true ->
  zlen runs <= o_src (c_truncator (w_cfg wk)) ->
  nonneg_adv (w_st wk) = true ->
  wrap_next_line wk mw = Ok (w', wl, d) -> wl_line wl = Some line ->
  let tsrc := o_src (c_truncator (w_cfg wk)) in
  let m := ceil26 (line_measure (w_st w') tsrc (c_dir (w_cfg wk)) line) in
  (has_truncator tsrc line = true -> w_start wk = wl_next wl \/ m <= mw - ceil26 (o_adv (c_truncator (w_cfg wk))))
  /\ (has_truncator tsrc line = false -> m <= mw \/ single_unit attrs (w_st wk) runs n 1 (w_start wk) (wl_next wl) = true).
Proof. exact width_bound_never_calls. Qed.
Print Assumptions width_bound_never.

(* greedy (partial: BreakPolicy Never; measure on the entry store).  Same quantification: Prepare with policy Never on
   well-formed runs, ANY calls with any widths to a live state wk, one more call with maxWidth mw that leaves the wrapper
   live (done = false).  Then the call returned a non-nil line [s, e) = [lineStart, NextLine) and
   (Spec/WrapGreedy.v greedy_never_stmt), with q = the position after the last option the line iterator read:
   * no option is pending for the next line: e = q, and that option was required (a mandatory break ended the line) or no
     valid UAX #14 opportunity lies strictly inside the line (the single unit that cannot fit);
   * an option is pending (it was tried and rejected): e < q, NO valid UAX #14 opportunity lies strictly between e and q
     - q is the next permitted break after the line end - and the line extended to q is too wide: the runes [s, q) placed
     as the exact pieces of the input runs (piece_ok) measure more than mw by Spec/Wrap.v line_measure on the call's
     entry store (extended_line_too_wide).
   A line returned with done = true ends the text or is the truncated line.  Missing for the full clause: policies
   WhenNecessary / Always (not proved; no longer refuted since the repair of F7), and the measure is taken before the
   wrapper trims the start letter spacing of the first glyph of the line (equal to the wrapper's own measure when no letter
   spacing is applied).  No hypothesis on the input runs' Advance (repair of F6). *)
Theorem greedy_partial : forall n w cfg attrs runs widths wk rs mw w' wl,
  wf_runs (w_st w) runs n = true -> zlen attrs - 1 = n -> 1 <= n -> c_policy cfg = 1 ->
  run_calls (prepare w cfg attrs runs 0 0) widths = Ok (wk, rs) -> w_more wk = true ->
  nonneg_adv (w_st wk) = true ->
  wrap_next_line wk mw = Ok (w', wl, false) ->
  (exists line, wl_line wl = Some line)
  /\ greedy_never_stmt attrs (w_st wk) runs (c_dir (w_cfg wk)) (w_start wk) (wl_next wl) mw
       (b_isUnusedW (w_br w')) (b_wpos (w_br w')) (snd (b_unusedW (w_br w'))).
Proof. exact greedy_never_calls. Qed.
Print Assumptions greedy_partial.

(* non-vacuity: "a SP b" + "c" under policy Never at maxWidth 1: the call returns [0,2) and stays live; the option before
   the text end (q = 4) was tried, rejected and is pending; at maxWidth 1000 the call is done (whole text on the line) *)
Example greedy_example :
  let st := [[mkGlyph 0 1 1 64 64 0 0 0; mkGlyph 1 1 1 64 0 0 0 0; mkGlyph 2 1 1 64 64 0 0 0]; [mkGlyph 3 1 1 64 64 0 0 0]; []] in
  let runs := [mkOut 192 0 0 3 0 0 3 0; mkOut 64 0 3 1 1 0 1 0] in
  let cfg := mkCfg 0 0 (mkOut 0 0 0 0 2 0 0 0) false 1 false in
  let attrs := [4; 4; 5; 4; 7] in
  let wk := prepare (w_zero st) cfg attrs runs 0 0 in
  wf_runs st runs 4 = true /\ nonneg_adv st = true /\ adv_consistent st runs = true /\ c_policy cfg = 1
  /\ run_calls wk [] = Ok (wk, []) /\ w_more wk = true
  /\ (exists w' wl, wrap_next_line wk 1 = Ok (w', wl, false) /\ wl_next wl = 2
         /\ b_isUnusedW (w_br w') = true /\ b_wpos (w_br w') = 4)
  /\ (exists w' wl, wrap_next_line wk 1000 = Ok (w', wl, true) /\ wl_next wl = 4).
Proof.
  cbv zeta. split; [vm_compute; reflexivity|]. split; [vm_compute; reflexivity|]. split; [vm_compute; reflexivity|].
  split; [reflexivity|]. split; [reflexivity|]. split; [reflexivity|].
  split; vm_compute; eexists _, _; repeat split; reflexivity.
Qed.

(* ---- the greedy clause for every break policy (Proofs/WrapGreedyAll.v) ------------------------------------------------- *)

(* greedy (FULL: the greedy clause of the property, every break policy).  Prepare on well-formed runs with ANY policy, ANY
   sequence of WrapNextLine calls with any widths reaching a live state wk, one more call with maxWidth mw that leaves the
   wrapper live (done = false; a line returned with done = true ends the text or is the truncated line).  Only hypothesis
   on the entry store of that call: nonneg_adv (the property's sign hypothesis).  Then the call returned a non-nil line
   [s, e) = [lineStart, NextLine) and (Spec/WrapGreedyAll.v greedy_stmt):
   * e is a mandatory boundary (a mandatory break ended the line), or
   * the next valid UAX #14 opportunity after e could not be taken: there is q >= e with NO valid UAX #14 opportunity
     strictly between e and q such that the runes [s, q), placed as the exact pieces of the input runs (piece_ok), measure
     more than mw by Spec/Wrap.v line_measure on the call's entry store (extended_line_too_wide); AND, when the policy is
     Always, or WhenNecessary and e is not a UAX #14 opportunity (the line was split inside a word), the same with "valid
     UAX #14 opportunity or valid grapheme boundary": the next candidate of either kind could not be taken.
   q = e is the line that is itself too wide (the unit that cannot fit, the exception of width_bound).  "Valid" = not
   strictly inside a shaped cluster of any run.  As in greedy_partial the measure is taken before the wrapper trims the
   start letter spacing of the first glyph of the line.  The statement is about positions and widths only - no breaker
   register occurs in it.  Proved from the invariants of Proofs/WrapValid.v (WI, GI) through both loops of wrapNextLine
   (Proofs/WrapGreedyAll.v inner_G, outer_G). *)
Theorem greedy : forall n w cfg attrs runs widths wk rs mw w' wl,
  wf_runs (w_st w) runs n = true -> zlen attrs - 1 = n -> 1 <= n ->
  run_calls (prepare w cfg attrs runs 0 0) widths = Ok (wk, rs) -> w_more wk = true ->
  nonneg_adv (w_st wk) = true ->
  wrap_next_line wk mw = Ok (w', wl, false) ->
  (exists line, wl_line wl = Some line)
  /\ greedy_stmt attrs (w_st wk) runs (c_dir (w_cfg wk)) (c_policy (w_cfg wk)) (w_start wk) (wl_next wl) mw.
Proof. exact greedy_all_calls. Qed.
Print Assumptions greedy.

(* non-vacuity, policies WhenNecessary and Always: the text of the F7 regression (runes a b c d SP e f, clusters a, b, c,
   "d SP e", f) at maxWidth 2.  The first call returns [0,2) and stays live; position 2 is no UAX #14 opportunity (the line is
   split inside the word), so the second half of the clause applies: the next candidate 3 is a valid grapheme boundary
   and [0,3) measures 3 > 2.  The second call returns [2,6): "c" + the fused cluster, again live. *)
Example greedy_all_example :
  let st := [[mkGlyph 0 1 1 64 64 0 0 0; mkGlyph 1 1 1 64 64 0 0 0; mkGlyph 2 1 1 64 64 0 0 0; mkGlyph 3 3 1 64 64 0 0 0;
              mkGlyph 6 1 1 64 64 0 0 0]; []] in
  let runs := [mkOut 320 0 0 7 0 0 5 0] in
  let attrs := [4; 4; 4; 4; 4; 5; 4; 7] in
  forall pol, pol = 0 \/ pol = 2 ->
  let cfg := mkCfg 0 0 (mkOut 0 0 0 0 1 0 0 0) false pol false in
  let wk := prepare (w_zero st) cfg attrs runs 0 0 in
  wf_runs st runs 7 = true /\ nonneg_adv st = true
  /\ run_calls wk [] = Ok (wk, []) /\ w_more wk = true
  /\ (exists w' wl, wrap_next_line wk 2 = Ok (w', wl, false) /\ wl_next wl = 2 /\ c_policy (w_cfg wk) = pol
        /\ line_boundary attrs 2 = false /\ mandatory_boundary attrs 2 = false
        /\ valid_grapheme_break attrs st runs 3)
  /\ (exists w' rs, run_calls wk [2; 2] = Ok (w', rs) /\ map (fun x => (wl_next (fst x), snd x)) rs = [(2, false); (6, false)]).
Proof.
  cbv zeta. intros pol [-> | ->]; (split; [vm_compute; reflexivity|]); (split; [vm_compute; reflexivity|]);
    (split; [reflexivity|]); (split; [reflexivity|]); split; vm_compute; eexists _, _; repeat split; reflexivity.
Qed.

(* ---- truncation "exactly when" (Proofs/WrapTruncWhen.v) ------------------------------------------------------------------ *)

(* truncation_exactly_when (FULL: the truncation clause of the property, with truncation_lines and width_bound).  Prepare with
   any configuration (TruncateAfterLines = k, any truncator whose glyph array lies after the runs' arrays, any
   TextContinues, policy, widths) on well-formed runs, ANY sequence of WrapNextLine calls reaching a live state after j calls,
   one more call.  Then every one of the j earlier calls returned a line (the call at hand returns line number j + 1), and
   (Spec/WrapGreedyAll.v trunc_when with what is left of the counter, k - j, or 0 when truncation is disabled):
   * k >= 1 and j + 1 = k - the call that returns the k-th line: it reports done, Truncated = n - NextLine, and the
     truncator is appended EXACTLY WHEN Truncated > 0 or TextContinues: if so the returned line ends with the truncator
     run, no other run of the line has the truncator's glyph array, and its Runes are (NextLine, Truncated) - the cut range;
     if not, the line holds no truncator;
   * every other call (an earlier line, or k <= 0): Truncated = 0 and the line holds no truncator.
   That the k-th line was filled against maxWidth - ceil(truncator advance) is width_bound above; that no further line
   follows is truncation_lines. *)
Theorem truncation_exactly_when : forall n w cfg attrs runs widths wk rs mw w' wl d,
  wf_runs (w_st w) runs n = true -> zlen attrs - 1 = n -> 1 <= n ->
  run_calls (prepare w cfg attrs runs 0 0) widths = Ok (wk, rs) -> w_more wk = true ->
  zlen runs <= o_src (c_truncator cfg) ->
  wrap_next_line wk mw = Ok (w', wl, d) ->
  forallb has_line rs = true
  /\ trunc_when n (o_src (c_truncator cfg)) (if 1 <=? c_trunc cfg then c_trunc cfg - zlen rs else 0) (c_cont cfg) wl d.
Proof. exact truncation_when_calls. Qed.
Print Assumptions truncation_exactly_when.

(* non-vacuity: "a a b" in two runs, TruncateAfterLines = 2, the truncator's array is number 2.
   At width 1 the second call is the truncating one: nothing fits beside the truncator, it returns the truncator alone
   with Runes (1,2), Truncated = 2;
   at width 1000 with TextContinues = false the first call returns the whole text, done, no truncator, Truncated = 0
   (k - j = 2: not the truncating call); with TruncateAfterLines = 1 and TextContinues = true the whole text fits and the
   truncator is appended with Runes (3,0). *)
Example truncation_when_example :
  let st := [[mkGlyph 0 1 1 64 64 0 0 0; mkGlyph 1 1 1 64 64 0 0 0]; [mkGlyph 2 1 1 64 64 0 0 0]; [mkGlyph 0 1 1 64 64 0 0 0]] in
  let runs := [mkOut 128 0 0 2 0 0 2 0; mkOut 64 0 2 1 1 0 1 0] in
  let tr := mkOut 64 0 0 1 2 0 1 0 in
  let attrs := [4; 5; 5; 7] in
  wf_runs st runs 3 = true /\ zlen runs <= o_src tr
  /\ (let wk := prepare (w_zero st) (mkCfg 0 2 tr false 0 false) attrs runs 0 0 in
      exists w' rs, run_calls wk [1; 1] = Ok (w', rs)
        /\ map (fun x => (wl_truncated (fst x), wl_next (fst x), snd x, option_map (map rng) (wl_line (fst x)))) rs
           = [(0, 1, false, Some [(0, 1, 0)]); (2, 1, true, Some [(1, 2, 2)])])
  /\ (let wk := prepare (w_zero st) (mkCfg 0 2 tr false 0 false) attrs runs 0 0 in
      exists w' l, wrap_next_line wk 1000 = Ok (w', mkWrapped (Some l) 0 3, true) /\ has_truncator 2 l = false)
  /\ (let wk := prepare (w_zero st) (mkCfg 0 1 tr true 0 false) attrs runs 0 0 in
      exists w' l, wrap_next_line wk 1000 = Ok (w', mkWrapped (Some l) 0 3, true) /\ map rng l = [(0, 2, 0); (2, 1, 1); (3, 0, 2)]).
Proof.
  cbv zeta. split; [vm_compute; reflexivity|]. split; [vm_compute; discriminate|].
  split; [vm_compute; eexists _, _; repeat split; reflexivity|].
  split; vm_compute; eexists _, _; repeat split; reflexivity.
Qed.
