(* C04 — Lines fit the width, are greedily filled, and truncation is honoured.  Property theorems only.
   Proved: soundness of the fit classification, the truncation bookkeeping of postProcessLine, and truncation_lines: with
   TruncateAfterLines = k >= 1 at most k lines are returned (any number of WrapNextLine calls with any widths, and
   WrapParagraph).  The greedy clause is FALSE of the faithful model (Findings/Wrap.v: f7_refuted) and the width clause is
   false on the truncated line (f8_width_refuted).
   NOT proved (oracle check_width_truncation only): the global width_bound.  What is missing: (1) an invariant through
   both loops recording, for the best line, the classification it was recorded under (fits / endLine: measured width <=
   maxWidth by candidate_classification_sound_partial; cannotFit: single unbreakable unit; truncated: finding F8), and
   (2) the relation between the width measured at candidate time (advanceSpaceAware + the Advance fields of the runs already
   collected) and Spec/Wrap.v line_measure on the returned store, which fails through aliasing (F6: stale Advance of whole
   runs, glyphs trimmed by later candidates) and through F7/F37 (fallback skipping options). *)
From TV Require Import Model.Wrap Spec.Wrap Proofs.Wrap Proofs.WrapLines Proofs.WrapTrunc.

(* Whenever processBreakOption classifies a candidate, the classification agrees with the measured width
   (advanceSpaceAware of the candidate + advance of the runs already on the line, rounded up): fits / endLine
   candidates are within maxWidth (and within the truncated width on the truncating line), cannotFit /
   newLineBeforeBreak candidates exceed it.  All states, options and line configurations. *)
Theorem candidate_classification_sound_partial : forall w opt lc w' r cand,
  process_break_option w opt lc = Ok (w', r, cand) ->
  (r = Fits -> cand_width w' cand <= lc_max lc /\ (lc_truncating lc = true -> cand_width w' cand <= lc_tmax lc))
  /\ (r = EndLine -> cand_width w' cand <= lc_max lc)
  /\ (r = Truncated -> cand_width w' cand <= lc_max lc /\ lc_truncating lc = true /\ lc_tmax lc < cand_width w' cand)
  /\ ((r = CannotFit \/ r = NewLineBeforeBreak) -> lc_max lc < cand_width w' cand).
Proof. exact process_fits_width. Qed.
Print Assumptions candidate_classification_sound_partial.

(* truncation bookkeeping of postProcessLine, every state / line / done flag: NextLine is the new line start; a
   truncator is appended only as the last run, with Runes = (NextLine, Truncated), Truncated = n - NextLine, and the
   whole line then covers [lineStart, n); without it the line ends at NextLine *)
Theorem truncation_reports_cut_range_partial : forall n w line done w' wl d',
  b_n (w_br w) = n ->
  (forall l, line = Some l -> exists e, chain (w_start w) l e) ->
  post_process w line done = (w', wl, d') ->
  line_result n (w_start w) w' wl.
Proof. exact post_process_chain. Qed.
Print Assumptions truncation_reports_cut_range_partial.

Example classification_example :
  let st := [[mkGlyph 0 1 1 64 64 0 0 0; mkGlyph 1 1 1 64 64 0 0 0]; []] in
  let w := prepare (w_zero st) cfg_zero [4; 4; 7] [mkOut 128 0 0 2 0 0 2 0] 0 0 in
  exists w' c, process_break_option w (1, false) (mkLC false 1 0) = Ok (w', CannotFit, c) /\ cand_width w' c = 2.
Proof. vm_compute. eexists _, _. split; reflexivity. Qed.

(* truncation_lines: Prepare with TruncateAfterLines = k >= 1 on any contiguous run list covering [0,n), n >= 1, followed
   by ANY number of WrapNextLine calls with ANY widths: at most k of the calls return a (non-nil) line.  (nlines counts
   the results whose line is not nil; nil lines returned while live — finding F37 — still consume the counter.) *)
Theorem truncation_lines : forall n w cfg attrs runs widths w' rs,
  runs_ok runs n -> zlen attrs - 1 = n -> 1 <= n -> 1 <= c_trunc cfg ->
  run_calls (prepare w cfg attrs runs 0 0) widths = Ok (w', rs) ->
  nlines rs <= c_trunc cfg.
Proof. exact truncation_lines_calls. Qed.
Print Assumptions truncation_lines.

(* ... and WrapParagraph returns at most k lines *)
Theorem truncation_lines_paragraph : forall n w cfg attrs runs mw w' ls tr,
  runs_ok runs n -> zlen attrs - 1 = n -> 1 <= n -> 1 <= c_trunc cfg ->
  wrap_paragraph w cfg mw attrs runs = Ok (w', ls, tr) -> zlen ls <= c_trunc cfg.
Proof. exact truncation_lines_par. Qed.
Print Assumptions truncation_lines_paragraph.

(* non-vacuity: "a a b" at width 1 would take three lines; with TruncateAfterLines = 2 two lines come back, Truncated = 1 *)
Example truncation_lines_example :
  let st := [[mkGlyph 0 1 1 64 64 0 0 0; mkGlyph 1 1 1 64 64 0 0 0]; [mkGlyph 2 1 1 64 64 0 0 0]; []] in
  let runs := [mkOut 128 0 0 2 0 0 2 0; mkOut 64 0 2 1 1 0 1 0] in
  let cfg := mkCfg 0 2 (mkOut 0 0 0 0 2 0 0 0) false 0 false in
  runs_ok runs 3 /\ 1 <= c_trunc cfg
  /\ exists w' ls, wrap_paragraph (w_zero st) cfg 1 [4; 5; 5; 7] runs = Ok (w', ls, 1) /\ zlen ls = 2.
Proof. split; [split; [reflexivity|repeat constructor]|]. split; [cbn; lia|]. vm_compute. eexists _, _. split; reflexivity. Qed.
