(* C04 — Lines fit the width, are greedily filled, and truncation is honoured.  Property theorems only.
   Proved for every input: soundness of the fit classification, the truncation bookkeeping of postProcessLine,
   truncation_lines (TruncateAfterLines = k >= 1: at most k lines over any number of WrapNextLine calls with any widths, and
   from WrapParagraph), width_bound_partial (Proofs/WrapWidth.v) and, for BreakPolicy Never, width_bound_never_partial and
   greedy_partial (Proofs/WrapGreedy.v).
   width_bound_partial: for every WrapNextLine call from a state reached by Prepare + any calls, whose entry store has
   non-negative advances / letter spacing (the property's sign hypothesis) and input runs with Advance = sum of their glyph
   advances (excludes F6), the returned line measured by Spec/Wrap.v line_measure ON THE RETURNED STORE is within maxWidth,
   or holds no UAX #14 opportunity at a cluster boundary strictly inside (recorded under cannotFit); when the truncator was
   appended the text is empty or within maxWidth - ceil(truncator advance) - the former exception "whole-run prefix on the
   truncated line" (finding F8) is gone since the library fix 5102a36, which the model follows.
   What keeps width_bound "_partial": (1) hypothesis adv_consistent on the call's entry store (F6; same guard as Check/C04.v);
   (2) for policies other than Never, hypothesis WI (the UAX #14 iterator has not consumed a valid line boundary beyond the
   line start: true after Prepare, broken exactly by the dropped candidate of F37) and the exception proved is "no valid
   UAX #14 opportunity strictly inside the line", weaker than the property's "single grapheme cluster" (the gap is the
   grapheme iterator's skipping rule, F7).
   Under BreakPolicy Never the grapheme fallback is never entered: WI is an invariant of every call (run_calls_never), so
   width_bound_never_partial has no iterator hypothesis and its exception is exactly the property's single unbreakable
   unit (Spec/Wrap.v single_unit), and greedy_partial states the greedy clause: a line returned with the wrapper still
   live ends at a mandatory break / at the first option of a unit that cannot fit, or the next valid UAX #14 opportunity
   after it was tried and the line extended to it measures more than maxWidth (Spec/Wrap.v line_measure of the exact pieces
   on the call's entry store, i.e. before the start letter spacing of the first glyph is trimmed).
   The greedy clause for policies WhenNecessary / Always is FALSE of the faithful model (Findings/Wrap.v: greedy_refuted,
   F7) and stays with the oracle greedy_ok. *)
From TV Require Import Model.Wrap Spec.Wrap Spec.WrapGreedy Proofs.Wrap Proofs.WrapLines Proofs.WrapTrunc Proofs.WrapWidth Proofs.WrapGreedy.

(* Whenever processBreakOption classifies a candidate, the classification agrees with the measured width
   (advanceSpaceAware of the candidate + advance of the runs already on the line, rounded up): fits / endLine
   candidates are within maxWidth (and within the truncated width on the truncating line), cannotFit /
   newLineBeforeBreak candidates exceed it.  All states, options and line configurations. *)
Theorem candidate_classification_sound_partial : forall w opt lc w' r cand,
  process_break_option w opt lc = Ok (w', r, cand) ->
  (r = Fits -> cand_width w' cand <= lc_max lc /\ (lc_truncating lc = true -> cand_width w' cand <= lc_tmax lc))
  /\ (r = EndLine -> cand_width w' cand <= lc_max lc)
  /\ (r = Truncated -> cand_width w' cand <= lc_max lc /\ lc_truncating lc = true /\ lc_tmax lc < cand_width w' cand)
  /\ ((r = CannotFit \/ r = NewLineBeforeBreak) -> lc_max lc < cand_width w' cand).
Proof. exact process_fits_width. Qed.
Print Assumptions candidate_classification_sound_partial.

(* truncation bookkeeping of postProcessLine, every state / line / done flag: NextLine is the new line start; a
   truncator is appended only as the last run, with Runes = (NextLine, Truncated), Truncated = n - NextLine, and the
   whole line then covers [lineStart, n); without it the line ends at NextLine *)
Theorem truncation_reports_cut_range_partial : forall n w line done w' wl d',
  b_n (w_br w) = n ->
  (forall l, line = Some l -> exists e, chain (w_start w) l e) ->
  post_process w line done = (w', wl, d') ->
  line_result n (w_start w) w' wl.
Proof. exact post_process_chain. Qed.
Print Assumptions truncation_reports_cut_range_partial.

Example classification_example :
  let st := [[mkGlyph 0 1 1 64 64 0 0 0; mkGlyph 1 1 1 64 64 0 0 0]; []] in
  let w := prepare (w_zero st) cfg_zero [4; 4; 7] [mkOut 128 0 0 2 0 0 2 0] 0 0 in
  exists w' c, process_break_option w (1, false) (mkLC false 1 0) = Ok (w', CannotFit, c) /\ cand_width w' c = 2.
Proof. vm_compute. eexists _, _. split; reflexivity. Qed.

(* truncation_lines: Prepare with TruncateAfterLines = k >= 1 on any contiguous run list covering [0,n), n >= 1, followed
   by ANY number of WrapNextLine calls with ANY widths: at most k of the calls return a (non-nil) line.  (nlines counts
   the results whose line is not nil; nil lines returned while live — finding F37 — still consume the counter.) *)
Theorem truncation_lines : forall n w cfg attrs runs widths w' rs,
  runs_ok runs n -> zlen attrs - 1 = n -> 1 <= n -> 1 <= c_trunc cfg ->
  run_calls (prepare w cfg attrs runs 0 0) widths = Ok (w', rs) ->
  nlines rs <= c_trunc cfg.
Proof. exact truncation_lines_calls. Qed.
Print Assumptions truncation_lines.

(* ... and WrapParagraph returns at most k lines *)
Theorem truncation_lines_paragraph : forall n w cfg attrs runs mw w' ls tr,
  runs_ok runs n -> zlen attrs - 1 = n -> 1 <= n -> 1 <= c_trunc cfg ->
  wrap_paragraph w cfg mw attrs runs = Ok (w', ls, tr) -> zlen ls <= c_trunc cfg.
Proof. exact truncation_lines_par. Qed.
Print Assumptions truncation_lines_paragraph.

(* non-vacuity: "a a b" at width 1 would take three lines; with TruncateAfterLines = 2 two lines come back, Truncated = 1 *)
Example truncation_lines_example :
  let st := [[mkGlyph 0 1 1 64 64 0 0 0; mkGlyph 1 1 1 64 64 0 0 0]; [mkGlyph 2 1 1 64 64 0 0 0]; []] in
  let runs := [mkOut 128 0 0 2 0 0 2 0; mkOut 64 0 2 1 1 0 1 0] in
  let cfg := mkCfg 0 2 (mkOut 0 0 0 0 2 0 0 0) false 0 false in
  runs_ok runs 3 /\ 1 <= c_trunc cfg
  /\ exists w' ls, wrap_paragraph (w_zero st) cfg 1 [4; 5; 5; 7] runs = Ok (w', ls, 1) /\ zlen ls = 2.
Proof. split; [split; [reflexivity|repeat constructor]|]. split; [cbn; lia|]. vm_compute. eexists _, _. split; reflexivity. Qed.

(* ---- width_bound (Proofs/WrapWidth.v) ----------------------------------------------------------------------------- *)

(* width_bound (partial): Prepare on well-formed runs, ANY sequence of WrapNextLine calls with any widths reaching a live
   state wk, then one more call with maxWidth mw that returns a non-nil line.  Hypotheses on the entry state of that call:
   the truncator's glyph array lies after the runs' arrays; nonneg_adv (sign hypothesis of the property); adv_consistent
   (input runs still carry Advance = sum: excludes the aliasing of F6, as the oracle does); WI (no valid UAX #14 boundary
   beyond the line start was consumed: holds after Prepare, broken by the nil line of F37).  Conclusion
   (width_bound_stmt), with m = ceil(line_measure on the RETURNED store), s = line start, e = NextLine:
   * truncator appended:  s = e (no text)  or  m <= mw - ceil(truncator advance): text + truncator fit maxWidth (the
     F8 exception of earlier versions is gone with the library fix 5102a36);
   * otherwise:  m <= mw  or  no position strictly inside (s, e) is a UAX #14 opportunity at a cluster boundary of every
     run (under policy Never this is exactly "single unbreakable unit": Spec/Wrap.v single_unit). *)
Theorem width_bound_partial : forall n w cfg attrs runs widths wk rs mw w' wl d line,
  wf_runs (w_st w) runs n = true -> zlen attrs - 1 = n -> 1 <= n ->
  run_calls (prepare w cfg attrs runs 0 0) widths = Ok (wk, rs) -> w_more wk = true ->
  zlen runs <= o_src (c_truncator (w_cfg wk)) ->
  nonneg_adv (w_st wk) = true -> adv_consistent (w_st wk) runs = true -> WI attrs wk ->
  wrap_next_line wk mw = Ok (w', wl, d) -> wl_line wl = Some line ->
  width_bound_stmt attrs n runs (w_st wk) (w_st w') (o_src (c_truncator (w_cfg wk))) (c_dir (w_cfg wk))
                   (o_adv (c_truncator (w_cfg wk))) (w_start wk) (wl_next wl) mw line.
Proof. exact width_bound_calls. Qed.
Print Assumptions width_bound_partial.

(* the width measured for a candidate bounds the declarative measure of the candidate line on the same store, whenever
   the recorded advance of the collected runs bounds the sum of their glyph advances (WA, kept by processBreakOption:
   Proofs/WrapWidth.v pbo_W) *)
Theorem candidate_width_bounds_measure : forall w cand,
  WA w -> o_adv cand = sum_adv (out_glyphs (w_st w) cand) ->
  ceil26 (lmeas (w_st w) (c_dir (w_cfg w)) (s_alt (w_sc w) ++ [cand])) <= cand_width w cand.
Proof. exact cand_meas. Qed.
Print Assumptions candidate_width_bounds_measure.

(* under BreakPolicy Never (policy 1) the exception disjunct of width_bound_stmt is exactly the property's "single unbreakable
   unit" as the oracle evaluates it (Spec/Wrap.v single_unit used by check_width_truncation) *)
Theorem width_exception_is_single_unit_never : forall attrs st rs n s e, e <= n ->
  (forall p, s < p < e -> line_boundary attrs p = true -> cluster_boundary st rs p = true -> False) ->
  single_unit attrs st rs n 1 s e = true.
Proof. exact never_single_unit. Qed.
Print Assumptions width_exception_is_single_unit_never.

(* non-vacuity: "a SP b" + "c" (the space has zero Width): every hypothesis holds on the first call; at maxWidth 1 the line
   [0,2) = "a SP" is returned and measures 1 (the trailing space is not counted); at maxWidth 0 the line [0,1) measures
   1 > 0 and is the exception (nothing breakable strictly inside) *)
Example width_bound_example :
  let st := [[mkGlyph 0 1 1 64 64 0 0 0; mkGlyph 1 1 1 64 0 0 0 0; mkGlyph 2 1 1 64 64 0 0 0]; [mkGlyph 3 1 1 64 64 0 0 0]; []] in
  let runs := [mkOut 192 0 0 3 0 0 3 0; mkOut 64 0 3 1 1 0 1 0] in
  let cfg := mkCfg 0 0 (mkOut 0 0 0 0 2 0 0 0) false 0 false in
  let attrs := [4; 4; 5; 4; 7] in
  let wk := prepare (w_zero st) cfg attrs runs 0 0 in
  wf_runs st runs 4 = true /\ nonneg_adv st = true /\ adv_consistent st runs = true /\ zlen runs <= 2 /\ WI attrs wk
  /\ run_calls wk [] = Ok (wk, []) /\ w_more wk = true
  /\ (exists w' l, wrap_next_line wk 1 = Ok (w', mkWrapped (Some l) 0 2, false) /\ has_truncator 2 l = false
         /\ ceil26 (line_measure (w_st w') 2 0 l) = 1)
  /\ (exists w' l, wrap_next_line wk 0 = Ok (w', mkWrapped (Some l) 0 1, false) /\ has_truncator 2 l = false
         /\ ceil26 (line_measure (w_st w') 2 0 l) = 1).
Proof.
  cbv zeta. split; [vm_compute; reflexivity|]. split; [vm_compute; reflexivity|]. split; [vm_compute; reflexivity|].
  split; [vm_compute; discriminate|]. split; [apply WI_prepare|]. split; [reflexivity|]. split; [reflexivity|].
  split; vm_compute; eexists _, _; repeat split; reflexivity.
Qed.

(* ---- BreakPolicy Never (Proofs/WrapGreedy.v) ------------------------------------------------------------------------ *)

(* width_bound for BreakPolicy Never, without the iterator hypothesis: Prepare on well-formed runs with policy Never, ANY
   sequence of WrapNextLine calls with any widths reaching a live state wk, one more call with maxWidth mw returning a
   non-nil line.  Hypotheses on the entry store of that call: nonneg_adv (the property's sign hypothesis), adv_consistent
   (excludes the aliasing of F6, as the oracle does) and the truncator's glyph array after the runs' arrays.  With
   m = ceil(line_measure on the RETURNED store): truncator appended -> no text or m <= mw - ceil(truncator advance);
   otherwise m <= mw or the line is a single unbreakable unit exactly as the oracle evaluates it (Spec/Wrap.v single_unit
   with policy 1).  "_partial" only because of the adv_consistent guard (F6). *)
Theorem width_bound_never_partial : forall n w cfg attrs runs widths wk rs mw w' wl d line,
  wf_runs (w_st w) runs n = true -> zlen attrs - 1 = n -> 1 <= n -> c_policy cfg = 1 ->
  run_calls (prepare w cfg attrs runs 0 0) widths = Ok (wk, rs) -> w_more wk = true ->
  zlen runs <= o_src (c_truncator (w_cfg wk)) ->
  nonneg_adv (w_st wk) = true -> adv_consistent (w_st wk) runs = true ->
  wrap_next_line wk mw = Ok (w', wl, d) -> wl_line wl = Some line ->
  let tsrc := o_src (c_truncator (w_cfg wk)) in
  let m := ceil26 (line_measure (w_st w') tsrc (c_dir (w_cfg wk)) line) in
  (has_truncator tsrc line = true -> w_start wk = wl_next wl \/ m <= mw - ceil26 (o_adv (c_truncator (w_cfg wk))))
  /\ (has_truncator tsrc line = false -> m <= mw \/ single_unit attrs (w_st wk) runs n 1 (w_start wk) (wl_next wl) = true).
Proof. exact width_bound_never_calls. Qed.
Print Assumptions width_bound_never_partial.

(* greedy (partial: BreakPolicy Never; measure on the entry store).  Same quantification: Prepare with policy Never on
   well-formed runs, ANY calls with any widths to a live state wk, one more call with maxWidth mw that leaves the wrapper
   live (done = false).  Then the call returned a non-nil line [s, e) = [lineStart, NextLine) and
   (Spec/WrapGreedy.v greedy_never_stmt), with q = the position after the last option the line iterator read:
   * no option is pending for the next line: e = q, and that option was required (a mandatory break ended the line) or no
     valid UAX #14 opportunity lies strictly inside the line (the single unit that cannot fit);
   * an option is pending (it was tried and rejected): e < q, NO valid UAX #14 opportunity lies strictly between e and q
     - q is the next permitted break after the line end - and the line extended to q is too wide: the runes [s, q) placed
     as the exact pieces of the input runs (piece_ok) measure more than mw by Spec/Wrap.v line_measure on the call's
     entry store (extended_line_too_wide).
   A line returned with done = true ends the text or is the truncated line.  Missing for the full clause: policies
   WhenNecessary / Always (refuted in general: F7), and the measure is taken before the wrapper trims the start letter
   spacing of the first glyph of the line (equal to the wrapper's own measure when no letter spacing is applied). *)
Theorem greedy_partial : forall n w cfg attrs runs widths wk rs mw w' wl,
  wf_runs (w_st w) runs n = true -> zlen attrs - 1 = n -> 1 <= n -> c_policy cfg = 1 ->
  run_calls (prepare w cfg attrs runs 0 0) widths = Ok (wk, rs) -> w_more wk = true ->
  nonneg_adv (w_st wk) = true -> adv_consistent (w_st wk) runs = true ->
  wrap_next_line wk mw = Ok (w', wl, false) ->
  (exists line, wl_line wl = Some line)
  /\ greedy_never_stmt attrs (w_st wk) runs (c_dir (w_cfg wk)) (w_start wk) (wl_next wl) mw
       (b_isUnusedW (w_br w')) (b_wpos (w_br w')) (snd (b_unusedW (w_br w'))).
Proof. exact greedy_never_calls. Qed.
Print Assumptions greedy_partial.

(* non-vacuity: "a SP b" + "c" under policy Never at maxWidth 1: the call returns [0,2) and stays live; the option before
   the text end (q = 4) was tried, rejected and is pending; at maxWidth 1000 the call is done (whole text on the line) *)
Example greedy_example :
  let st := [[mkGlyph 0 1 1 64 64 0 0 0; mkGlyph 1 1 1 64 0 0 0 0; mkGlyph 2 1 1 64 64 0 0 0]; [mkGlyph 3 1 1 64 64 0 0 0]; []] in
  let runs := [mkOut 192 0 0 3 0 0 3 0; mkOut 64 0 3 1 1 0 1 0] in
  let cfg := mkCfg 0 0 (mkOut 0 0 0 0 2 0 0 0) false 1 false in
  let attrs := [4; 4; 5; 4; 7] in
  let wk := prepare (w_zero st) cfg attrs runs 0 0 in
  wf_runs st runs 4 = true /\ nonneg_adv st = true /\ adv_consistent st runs = true /\ c_policy cfg = 1
  /\ run_calls wk [] = Ok (wk, []) /\ w_more wk = true
  /\ (exists w' wl, wrap_next_line wk 1 = Ok (w', wl, false) /\ wl_next wl = 2
         /\ b_isUnusedW (w_br w') = true /\ b_wpos (w_br w') = 4)
  /\ (exists w' wl, wrap_next_line wk 1000 = Ok (w', wl, true) /\ wl_next wl = 4).
Proof.
  cbv zeta. split; [vm_compute; reflexivity|]. split; [vm_compute; reflexivity|]. split; [vm_compute; reflexivity|].
  split; [reflexivity|]. split; [reflexivity|]. split; [reflexivity|].
  split; vm_compute; eexists _, _; repeat split; reflexivity.
Qed.
