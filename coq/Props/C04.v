(* C04 — Lines fit the width, are greedily filled, and truncation is honoured.  Property theorems only.
   Proved: soundness of the fit classification and the truncation bookkeeping of postProcessLine.  The greedy clause is
   FALSE of the faithful model (Findings/Wrap.v: f7_refuted) and the width clause is false on the truncated line
   (f8_width_refuted); the global width_bound needs the breaker ordering invariant and is covered by the oracle only. *)
From TV Require Import Model.Wrap Spec.Wrap Proofs.Wrap.

(* Whenever processBreakOption classifies a candidate, the classification agrees with the measured width
   (advanceSpaceAware of the candidate + advance of the runs already on the line, rounded up): fits / endLine
   candidates are within maxWidth (and within the truncated width on the truncating line), cannotFit /
   newLineBeforeBreak candidates exceed it.  All states, options and line configurations. *)
Theorem candidate_classification_sound_partial : forall w opt lc w' r cand,
  process_break_option w opt lc = Ok (w', r, cand) ->
  (r = Fits -> cand_width w' cand <= lc_max lc /\ (lc_truncating lc = true -> cand_width w' cand <= lc_tmax lc))
  /\ (r = EndLine -> cand_width w' cand <= lc_max lc)
  /\ (r = Truncated -> cand_width w' cand <= lc_max lc /\ lc_truncating lc = true /\ lc_tmax lc < cand_width w' cand)
  /\ ((r = CannotFit \/ r = NewLineBeforeBreak) -> lc_max lc < cand_width w' cand).
Proof. exact process_fits_width. Qed.
Print Assumptions candidate_classification_sound_partial.

(* truncation bookkeeping of postProcessLine, every state / line / done flag: NextLine is the new line start; a
   truncator is appended only as the last run, with Runes = (NextLine, Truncated), Truncated = n - NextLine, and the
   whole line then covers [lineStart, n); without it the line ends at NextLine *)
Theorem truncation_reports_cut_range_partial : forall n w line done w' wl d',
  b_n (w_br w) = n ->
  (forall l, line = Some l -> exists e, chain (w_start w) l e) ->
  post_process w line done = (w', wl, d') ->
  line_result n (w_start w) w' wl.
Proof. exact post_process_chain. Qed.
Print Assumptions truncation_reports_cut_range_partial.

Example classification_example :
  let st := [[mkGlyph 0 1 1 64 64 0 0 0; mkGlyph 1 1 1 64 64 0 0 0]; []] in
  let w := prepare (w_zero st) cfg_zero [4; 4; 7] [mkOut 128 0 0 2 0 0 2 0] 0 0 in
  exists w' c, process_break_option w (1, false) (mkLC false 1 0) = Ok (w', CannotFit, c) /\ cand_width w' c = 2.
Proof. vm_compute. eexists _, _. split; reflexivity. Qed.
