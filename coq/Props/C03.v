(* C03 — Lines break only where breaking is allowed.  Property theorems only.
   Proved: the candidates come from the segmenter's flags (all attribute lists).  The full line_end_allowed is FALSE of the
   faithful model on the truncated line (Findings/Wrap.v: f8_refuted); the non-truncated statement needs the same breaker
   ordering invariant as C02 and is covered by the oracle check_break_positions only. *)
From TV Require Import Model.Wrap Spec.Wrap Proofs.Wrap.

(* every UAX #14 candidate the breaker produces is the rune before a line boundary of the segmenter, candidates come
   in increasing order without skipping a boundary, and a candidate is required only at a mandatory boundary *)
Theorem word_option_is_line_boundary : forall b b' o,
  0 <= b_wpos b -> next_word_raw b = (b', Some o) ->
  line_boundary (b_attrs b) (fst o + 1) = true /\ b_wpos b <= fst o < b_n b
  /\ b_wpos b' = fst o + 1 /\ b_attrs b' = b_attrs b /\ b_n b' = b_n b
  /\ (snd o = true -> mandatory_boundary (b_attrs b) (fst o + 1) = true)
  /\ (forall r, b_wpos b < r < fst o + 1 -> line_boundary (b_attrs b) r = false).
Proof. exact next_word_raw_spec. Qed.
Print Assumptions word_option_is_line_boundary.

Theorem grapheme_option_is_boundary : forall b b' o,
  0 <= b_gpos b -> next_grapheme_raw b = (b', Some o) ->
  grapheme_boundary (b_attrs b) (fst o + 1) = true /\ b_gpos b <= fst o < b_n b
  /\ b_gpos b' = fst o + 1 /\ snd o = false.
Proof. exact next_grapheme_raw_spec. Qed.
Print Assumptions grapheme_option_is_boundary.

(* a line never extends past the break option of its last candidate: the chain recorded for a non-rejected candidate
   ends at most one past the option (so a line ends at an option of the breaker or earlier inside the cursor run) *)
Theorem line_end_at_most_option_partial : forall n w opt lc w' r cand,
  Inv n w -> process_break_option w opt lc = Ok (w', r, cand) -> r <> BreakInvalid ->
  exists e, chain (w_start w') (s_alt (w_sc w') ++ [cand]) e /\ e <= fst opt + 1.
Proof. intros n w opt lc w' r cand HI H N. destruct (pbo_ok n w opt lc w' r cand HI H) as (_ & _ & X). auto. Qed.
Print Assumptions line_end_at_most_option_partial.

Example word_option_example :
  fst (snd (next_word_raw (new_breaker [4; 4; 5; 4; 7])), fst (next_word_raw (new_breaker [4; 4; 5; 4; 7]))) = Some (1, false).
Proof. reflexivity. Qed.
