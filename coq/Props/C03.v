(* C03 — Lines break only where breaking is allowed.  Property theorems only.
   Proved: the candidates come from the segmenter's flags (all attribute lists); a candidate line that is not rejected ends
   exactly one past its break option; a required option that fits ends the line at once; the required flag of EVERY option
   the breaker hands out (read from the segmenter or re-issued from unusedWordBreak) is exactly "mandatory boundary and not
   the text end" (required_iff_mandatory, with the breaker invariant BW kept by both loops and by every WrapNextLine call
   from Prepare on: required_flag_invariant), hence a valid mandatory boundary that fits ends the line at once
   (mandatory_boundary_ends_line_partial).  That every accepted option ends at a cluster boundary of every run is C02
   (wrapped_pieces_exact, through is_valid_sound).
   Proved over RETURNED lines (mandatory_break_ends_line, Proofs/WrapMand2.v + Proofs/WrapValid.v), for EVERY break policy
   and with no hypothesis beyond the property text: after Prepare on well-formed runs and any sequence of WrapNextLine
   calls with any widths, no call returns a nil line while the wrapper stays live and no returned line spans a mandatory
   boundary that is a cluster boundary of every run.  The proof uses the converse of is_valid_sound (a cluster boundary is
   always accepted by isValid: is_valid_spec2) and two invariants over the line iterator threaded through both loops,
   postProcessLine and every call (valid mandatory boundaries: WrapMand2; all valid boundaries, and "the UAX #14 option
   handed to the grapheme loop was accepted, so the fallback at the end of that loop cannot be rejected": WrapValid).
   The former hypothesis no_live_nil (finding F37: a nil line returned while live, the pending option dropped) is gone with
   the library fix "the grapheme fallback uses the UAX #14 option when it finds no grapheme boundary", which the model
   follows (word_fallback).  mandatory_break_ends_line_never is the earlier special case for BreakPolicy Never.
   The former counter-example to line_end_allowed on the truncated line (finding F8: the line ended at a boundary between
   two input runs) is repaired in the library (fix 5102a36, followed by the model).
   when_necessary_split_only_if_needed (Proofs/WrapGreedyAll.v): with policy WhenNecessary a line returned with the wrapper
   live (not the truncated line) that does not end at a UAX #14 opportunity starts inside or at the start of the word it
   splits (no valid UAX #14 opportunity strictly inside the line) and that word cannot fit: the runes from the line start to
   the next valid UAX #14 opportunity are too wide.
   line_end_allowed (Proofs/WrapLineEnd.v): every line returned while the wrapper stays live ends at a UAX #14 opportunity or,
   for a policy other than Never, at a grapheme cluster boundary (that it is a cluster boundary of every run is C02
   wrapped_pieces_exact).  NOT proved (oracle check_break_positions only): the same for the line that reports done (the
   text end, or the truncated line, which may end where the text that fits beside the truncator ends). *)
From TV Require Import Model.Wrap Spec.Wrap Spec.WrapGreedy Spec.WrapGreedyAll Proofs.Wrap Proofs.WrapLines Proofs.WrapMand Proofs.WrapMand2
  Proofs.WrapGreedy Proofs.WrapValid Proofs.WrapGreedyAll Proofs.WrapLineEnd.

(* every UAX #14 candidate the breaker produces is the rune before a line boundary of the segmenter, candidates come
   in increasing order without skipping a boundary, and a candidate is required only at a mandatory boundary *)
Theorem word_option_is_line_boundary : forall b b' o,
  0 <= b_wpos b -> next_word_raw b = (b', Some o) ->
  line_boundary (b_attrs b) (fst o + 1) = true /\ b_wpos b <= fst o < b_n b
  /\ b_wpos b' = fst o + 1 /\ b_attrs b' = b_attrs b /\ b_n b' = b_n b
  /\ (snd o = true -> mandatory_boundary (b_attrs b) (fst o + 1) = true)
  /\ (forall r, b_wpos b < r < fst o + 1 -> line_boundary (b_attrs b) r = false).
Proof. exact next_word_raw_spec. Qed.
Print Assumptions word_option_is_line_boundary.

Theorem grapheme_option_is_boundary : forall b b' o,
  0 <= b_gpos b -> next_grapheme_raw b = (b', Some o) ->
  grapheme_boundary (b_attrs b) (fst o + 1) = true /\ b_gpos b <= fst o < b_n b
  /\ b_gpos b' = fst o + 1 /\ snd o = false.
Proof. exact next_grapheme_raw_spec. Qed.
Print Assumptions grapheme_option_is_boundary.

(* a line never extends past the break option of its last candidate: the chain recorded for a non-rejected candidate
   ends at most one past the option (so a line ends at an option of the breaker or earlier inside the cursor run) *)
Theorem line_end_at_most_option_partial : forall n w opt lc w' r cand,
  Inv n w -> process_break_option w opt lc = Ok (w', r, cand) -> r <> BreakInvalid ->
  exists e, chain (w_start w') (s_alt (w_sc w') ++ [cand]) e /\ e <= fst opt + 1.
Proof. intros n w opt lc w' r cand HI H N. destruct (pbo_ok n w opt lc w' r cand HI H) as (_ & _ & X). auto. Qed.
Print Assumptions line_end_at_most_option_partial.

(* a candidate that processBreakOption does not reject, from a state whose candidate prefix ends at or before the option
   (the ordering the loops maintain: Proofs/WrapLines.v OrdO/OrdI), is non-empty and the candidate line ends EXACTLY one
   past the option: a line recorded through markCandidateBest(cand) ends right after an option of the breaker *)
Theorem candidate_line_ends_after_option : forall n w opt lc w' r cand,
  Inv n w -> fst opt < n ->
  (s_alt (w_sc w) <> [] -> lend (w_start w) (s_alt (w_sc w)) <= fst opt) ->
  process_break_option w opt lc = Ok (w', r, cand) -> r <> BreakInvalid ->
  w_start w <= fst opt /\ 0 < o_cnt cand /\ chain (w_start w') (s_alt (w_sc w') ++ [cand]) (fst opt + 1).
Proof.
  intros n w opt lc w' r cand HI Ho Hord H Hr.
  destruct (pbo_strong n w opt lc w' r cand HI Ho Hord H) as (_ & _ & X & _). auto.
Qed.
Print Assumptions candidate_line_ends_after_option.

(* required_option_ends_line (partial; one loop iteration of mandatory_break_ends_line): at the top of the UAX #14 loop of wrapNextLine (state satisfying the loop invariant
   JT and the ordering OrdO), when the breaker hands out a required option and processBreakOption answers "fits" (the option
   is valid, i.e. not fused into a cluster, and within the width), the call leaves the loop at once, not done, with the line
   alt ++ [cand] whose last piece is non-empty and which ends exactly one past the required option.
   The flag of a re-issued option is covered by required_iff_mandatory, the global form over returned lines by
   mandatory_break_ends_line_partial at the end of this file. *)
Theorem required_option_ends_line_partial : forall n fuel w lc b1 opt w3 cand,
  JT n w -> OrdO w ->
  next_word_break (w_br w) = (b1, Some opt) -> snd opt = true ->
  process_break_option (set_br (checkpoint w) b1) opt lc = Ok (w3, Fits, cand) ->
  outer_loop (S fuel) w lc = Ok (mark_best w3 [cand], false)
  /\ s_best (w_sc (mark_best w3 [cand])) = Some (s_alt (w_sc w3) ++ [cand])
  /\ 0 < o_cnt cand /\ chain (w_start w) (s_alt (w_sc w3) ++ [cand]) (fst opt + 1)
  /\ best_end (mark_best w3 [cand]) = fst opt + 1.
Proof. exact required_fits_ends_line. Qed.
Print Assumptions required_option_ends_line_partial.

(* non-vacuity: "a LF b": the option after the line feed is required, fits at width 100, and the first call returns [0,2) *)
Example mandatory_break_example :
  let st := [[mkGlyph 0 1 1 64 64 0 0 0; mkGlyph 1 1 1 0 0 0 0 0; mkGlyph 2 1 1 64 64 0 0 0]; []] in
  let w := prepare (w_zero st) cfg_zero [4; 4; 7; 7] [mkOut 128 0 0 3 0 0 3 0] 0 0 in
  snd (next_word_break (w_br w)) = Some (1, true)
  /\ exists w' l d, wrap_next_line w 100 = Ok (w', mkWrapped (Some l) 0 2, d) /\ d = false.
Proof. vm_compute. split; [reflexivity|]. eexists _, _, _. split; reflexivity. Qed.

Example word_option_example :
  fst (snd (next_word_raw (new_breaker [4; 4; 5; 4; 7])), fst (next_word_raw (new_breaker [4; 4; 5; 4; 7]))) = Some (1, false).
Proof. reflexivity. Qed.

(* ---- the required flag (Proofs/WrapMand.v) ----------------------------------------------------------------------- *)

(* required_iff_mandatory: from any breaker state satisfying BW, every option nextWordBreak hands out — a raw read or the
   re-issued unusedWordBreak — lies right before a line boundary of the segmenter, and it is flagged required exactly when
   that boundary is mandatory and is not the end of the text; BW holds again afterwards *)
Theorem required_iff_mandatory : forall b b' o,
  BW b -> next_word_break b = (b', Some o) ->
  BW b' /\ line_boundary (b_attrs b) (fst o + 1) = true
  /\ (snd o = true <-> (mandatory_boundary (b_attrs b) (fst o + 1) = true /\ fst o <> b_n b - 1)).
Proof.
  intros b b' o HB H. destruct (nwb_canon b b' (Some o) HB H) as (HB' & _ & _ & HC). destruct (HC o eq_refl) as [C _].
  split; [exact HB'|]. split; [exact (proj1 C)|exact (canonical_required _ _ _ C)].
Qed.
Print Assumptions required_iff_mandatory.

(* required_flag_invariant: BW (an option pending re-issue is canonical - the register may hold an older option while the
   flag is clear, after discardWordOption) holds for the breaker Prepare creates and is kept by the grapheme loop (entered
   with the canonical option nextWordBreak just handed out in unusedWordBreak), the UAX #14 loop, WrapNextLine and any
   sequence of WrapNextLine calls — for every state, fuel, width; no hypothesis on the runs *)
Theorem required_flag_invariant :
  (forall attrs, BW (new_breaker attrs))
  /\ (forall fuel w lc w' d, BW (w_br w) -> outer_loop fuel w lc = Ok (w', d) -> BW (w_br w'))
  /\ (forall fuel w wopt lc w' d, BW (w_br w) -> 1 <= b_wpos (w_br w) <= b_n (w_br w) ->
        canonical (b_attrs (w_br w)) (b_n (w_br w)) (b_unusedW (w_br w)) -> inner_loop fuel w wopt lc = Ok (w', d) -> BW (w_br w'))
  /\ (forall w mw w' wl d, BW (w_br w) -> wrap_next_line w mw = Ok (w', wl, d) -> BW (w_br w'))
  /\ (forall widths w w' rs, BW (w_br w) -> run_calls w widths = Ok (w', rs) -> BW (w_br w')).
Proof. split; [exact BW_new|]. split; [exact outer_BW|]. split; [exact inner_BW|]. split; [exact wnl_BW|exact run_calls_BW]. Qed.
Print Assumptions required_flag_invariant.

(* mandatory_boundary_ends_line (partial): required_option_ends_line_partial with the flag replaced by the segmenter's fact:
   at the top of the UAX #14 loop (JT, OrdO, BW), when the next option lies before a mandatory boundary other than the
   text end and processBreakOption answers "fits" (valid — not fused into a cluster — and within the width), the call
   returns at once, not done, with a line ending exactly at that mandatory boundary.
   The global form over returned lines is mandatory_break_ends_line_partial below. *)
Theorem mandatory_boundary_ends_line_partial : forall n fuel w lc b1 opt w3 cand,
  JT n w -> OrdO w -> BW (w_br w) ->
  next_word_break (w_br w) = (b1, Some opt) ->
  mandatory_boundary (b_attrs (w_br w)) (fst opt + 1) = true -> fst opt <> n - 1 ->
  process_break_option (set_br (checkpoint w) b1) opt lc = Ok (w3, Fits, cand) ->
  outer_loop (S fuel) w lc = Ok (mark_best w3 [cand], false)
  /\ s_best (w_sc (mark_best w3 [cand])) = Some (s_alt (w_sc w3) ++ [cand])
  /\ 0 < o_cnt cand /\ chain (w_start w) (s_alt (w_sc w3) ++ [cand]) (fst opt + 1)
  /\ best_end (mark_best w3 [cand]) = fst opt + 1.
Proof. exact mandatory_fits_ends_line. Qed.
Print Assumptions mandatory_boundary_ends_line_partial.

(* non-vacuity: "a LF b": BW holds after Prepare; the first option (after the line feed) is mandatory, not the text end, and
   is handed out flagged required; after a call that re-arms unusedWordBreak the re-issued option carries the same flag *)
Example required_flag_example :
  let attrs := [4; 4; 7; 7] in
  BW (new_breaker attrs)
  /\ snd (next_word_break (new_breaker attrs)) = Some (1, true)
  /\ mandatory_boundary attrs 2 = true
  /\ snd (next_word_break (mark_word_unused (fst (next_word_break (new_breaker attrs))))) = Some (1, true).
Proof. split; [apply BW_new|]. vm_compute. repeat split; reflexivity. Qed.

(* ---- mandatory breaks and RETURNED lines (Proofs/WrapMand2.v) --------------------------------------------------- *)

(* mandatory_break_ends_line over returned lines.  Prepare on well-formed runs (wf_runs on the store on entry, one break
   attribute per rune + 1, at least one rune), then ANY number of WrapNextLine calls with ANY widths (run_calls records
   every call's result (wrapped, done)).  Reading the results in order from rune 0, the text of a call's line covers the
   runes [pos, NextLine) where pos is the NextLine of the previous call (mand_ok): no position p strictly inside it is a
   valid mandatory break, i.e. line_boundary attrs p, mandatory_boundary attrs p (Spec/Wrap.v) and cluster_boundary of every
   run on the entry store (valid_mandatory; p < NextLine <= n, so p is never the text end; the cluster fields are never
   changed by a call).  This holds for every recorded call (for a nil line the range is empty), every break policy, and
   no_live_nil rs is part of the CONCLUSION: no call returns a nil line with done = false (before the repair of finding
   F37 this was a hypothesis, and the theorem was named _partial). *)
Theorem mandatory_break_ends_line : forall n w cfg attrs runs widths w' rs,
  wf_runs (w_st w) runs n = true -> zlen attrs - 1 = n -> 1 <= n ->
  run_calls (prepare w cfg attrs runs 0 0) widths = Ok (w', rs) ->
  no_live_nil rs = true /\ mand_ok (valid_mandatory attrs (w_st w) runs) 0 rs.
Proof. exact mandatory_lines_full. Qed.
Print Assumptions mandatory_break_ends_line.

(* non-vacuity: "a LF b SP c" (5 runes, one left-to-right run of 1:1 glyphs), width 1000 >= the whole paragraph (256):
   position 2 is a valid mandatory break strictly inside the text, the hypotheses hold, no call returns a live nil line,
   and the calls return [0,2) (ending exactly at the mandatory break, not done), [2,5) (done), then the nil line *)
Example mandatory_lines_example :
  let st := [[mkGlyph 0 1 1 64 64 0 0 0; mkGlyph 1 1 1 0 0 0 0 0; mkGlyph 2 1 1 64 64 0 0 0;
              mkGlyph 3 1 1 64 0 0 0 0; mkGlyph 4 1 1 64 64 0 0 0]; []] in
  let attrs := [4; 4; 7; 4; 5; 7] in
  let runs := [mkOut 256 0 0 5 0 0 5 0] in
  wf_runs st runs 5 = true /\ zlen attrs - 1 = 5
  /\ valid_mandatory attrs st runs 2
  /\ exists w' rs, run_calls (prepare (w_zero st) cfg_zero attrs runs 0 0) [1000; 1000; 1000] = Ok (w', rs)
       /\ no_live_nil rs = true
       /\ map (fun x => (wl_next (fst x), snd x)) rs = [(2, false); (5, true); (5, true)]
       /\ map (fun x => match wl_line (fst x) with Some l => map (fun o => (o_off o, o_cnt o)) l | None => [] end) rs
          = [[(0, 2)]; [(2, 3)]; []].
Proof.
  cbv zeta. split; [vm_compute; reflexivity|]. split; [vm_compute; reflexivity|].
  split; [unfold valid_mandatory; vm_compute; repeat split; reflexivity|].
  eexists _, _. split; [vm_compute; reflexivity|]. vm_compute. repeat split; reflexivity.
Qed.

(* regression of finding F37 on the model: runes a SP U+0301 b b, clusters "a SP" (one glyph, 3 px), U+0301, b, b; width 2,
   policy WhenNecessary.  Position 2 (after the space) is a UAX #14 opportunity but not a grapheme boundary; the option does
   not fit and no grapheme boundary before it is usable: the first call returns "a SP" = [0,2) (before the repair: a nil line,
   not done), the second "U+0301 b b" = [2,5) *)
Example live_calls_return_lines_example :
  let st := [[mkGlyph 0 2 1 192 192 0 0 0; mkGlyph 2 1 1 0 64 0 0 0; mkGlyph 3 1 1 64 64 0 0 0; mkGlyph 4 1 1 64 64 0 0 0]; []] in
  let attrs := [4; 4; 1; 4; 4; 7] in
  let runs := [mkOut 320 0 0 5 0 0 4 0] in
  wf_runs st runs 5 = true /\ zlen attrs - 1 = 5
  /\ exists w' rs, run_calls (prepare (w_zero st) cfg_zero attrs runs 0 0) [2; 2; 2] = Ok (w', rs)
       /\ no_live_nil rs = true
       /\ map (fun x => (wl_next (fst x), snd x)) rs = [(2, false); (5, true); (5, true)].
Proof.
  cbv zeta. split; [vm_compute; reflexivity|]. split; [vm_compute; reflexivity|].
  eexists _, _. split; [vm_compute; reflexivity|]. vm_compute. repeat split; reflexivity.
Qed.

(* mandatory_break_ends_line for BreakPolicy Never (the earlier special case, kept): Prepare with policy Never on
   well-formed runs, ANY number of WrapNextLine calls with ANY widths: no call returns a nil line while the wrapper stays
   live, and no returned line has a valid mandatory break strictly inside it. *)
Theorem mandatory_break_ends_line_never : forall n w cfg attrs runs widths w' rs,
  wf_runs (w_st w) runs n = true -> zlen attrs - 1 = n -> 1 <= n -> c_policy cfg = 1 ->
  run_calls (prepare w cfg attrs runs 0 0) widths = Ok (w', rs) ->
  no_live_nil rs = true /\ mand_ok (valid_mandatory attrs (w_st w) runs) 0 rs.
Proof. exact mandatory_lines_never. Qed.
Print Assumptions mandatory_break_ends_line_never.

(* non-vacuity: the paragraph of mandatory_lines_example under policy Never at width 1 (narrower than every word): the
   calls return [0,2) "a LF" (the mandatory break ends the line), [2,4) "b SP", [4,5) "c" *)
Example mandatory_never_example :
  let st := [[mkGlyph 0 1 1 64 64 0 0 0; mkGlyph 1 1 1 0 0 0 0 0; mkGlyph 2 1 1 64 64 0 0 0;
              mkGlyph 3 1 1 64 0 0 0 0; mkGlyph 4 1 1 64 64 0 0 0]; []] in
  let attrs := [4; 4; 7; 4; 5; 7] in
  let runs := [mkOut 256 0 0 5 0 0 5 0] in
  let cfg := mkCfg 0 0 out_zero false 1 false in
  wf_runs st runs 5 = true /\ c_policy cfg = 1 /\ valid_mandatory attrs st runs 2
  /\ exists w' rs, run_calls (prepare (w_zero st) cfg attrs runs 0 0) [1; 1; 1] = Ok (w', rs)
       /\ map (fun x => (wl_next (fst x), snd x)) rs = [(2, false); (4, false); (5, true)].
Proof.
  cbv zeta. split; [vm_compute; reflexivity|]. split; [reflexivity|].
  split; [unfold valid_mandatory; vm_compute; repeat split; reflexivity|].
  eexists _, _. split; [vm_compute; reflexivity|]. vm_compute. reflexivity.
Qed.

(* ---- policy WhenNecessary: a word is split only when it cannot fit on a line by itself (Proofs/WrapGreedyAll.v) ------------- *)

(* when_necessary_split_only_if_needed: Prepare with policy WhenNecessary on well-formed runs, ANY sequence of WrapNextLine
   calls with any widths reaching a live state wk, one more call with maxWidth mw that leaves the wrapper live (done =
   false: the line is not the truncated one and does not end the text), sign hypothesis nonneg_adv on the entry store.
   If the returned line [s, e) = [lineStart, NextLine) does not end at a UAX #14 opportunity (the line was split inside a
   word), then
   * no valid UAX #14 opportunity lies strictly inside the line: the line holds nothing but a part of that word - the
     word was not preceded on its line by text that could have been kept and the word moved down;
   * the word cannot fit on a line by itself: there is q >= e with no valid UAX #14 opportunity strictly between e and q
     such that the runes [s, q), placed as the exact pieces of the input runs, measure more than mw (Spec/WrapGreedyAll.v
     next_too_wide, Spec/WrapGreedy.v extended_line_too_wide, line_measure on the call's entry store).
   The exception of the property text "or to fill the final line before truncation" is the truncated line (done = true),
   outside this statement. *)
Theorem when_necessary_split_only_if_needed : forall n w cfg attrs runs widths wk rs mw w' wl,
  wf_runs (w_st w) runs n = true -> zlen attrs - 1 = n -> 1 <= n ->
  run_calls (prepare w cfg attrs runs 0 0) widths = Ok (wk, rs) -> w_more wk = true ->
  nonneg_adv (w_st wk) = true -> c_policy (w_cfg wk) = 0 ->
  wrap_next_line wk mw = Ok (w', wl, false) ->
  line_boundary attrs (wl_next wl) = false ->
  (forall p, w_start wk < p < wl_next wl -> valid_line_break attrs (w_st wk) runs p -> False)
  /\ next_too_wide (word_candidate attrs (w_st wk) runs) (w_st wk) runs (c_dir (w_cfg wk)) (w_start wk) (wl_next wl) mw.
Proof. exact wn_split_calls. Qed.
Print Assumptions when_necessary_split_only_if_needed.

(* non-vacuity: "abcdef" in one run (one UAX #14 segment), policy WhenNecessary, maxWidth 4: the word cannot fit, the
   first call returns [0,4), live, and 4 is no UAX #14 opportunity *)
Example when_necessary_example :
  let st := [[mkGlyph 0 1 1 64 64 0 0 0; mkGlyph 1 1 1 64 64 0 0 0; mkGlyph 2 1 1 64 64 0 0 0; mkGlyph 3 1 1 64 64 0 0 0;
              mkGlyph 4 1 1 64 64 0 0 0; mkGlyph 5 1 1 64 64 0 0 0]; []] in
  let runs := [mkOut 384 0 0 6 0 0 6 0] in
  let attrs := [4; 4; 4; 4; 4; 4; 7] in
  let wk := prepare (w_zero st) (mkCfg 0 0 (mkOut 0 0 0 0 1 0 0 0) false 0 false) attrs runs 0 0 in
  wf_runs st runs 6 = true /\ nonneg_adv st = true /\ c_policy (w_cfg wk) = 0 /\ w_more wk = true
  /\ exists w' wl, wrap_next_line wk 4 = Ok (w', wl, false) /\ wl_next wl = 4 /\ line_boundary attrs 4 = false.
Proof.
  cbv zeta. split; [vm_compute; reflexivity|]. split; [vm_compute; reflexivity|]. split; [reflexivity|]. split; [reflexivity|].
  vm_compute. eexists _, _. repeat split; reflexivity.
Qed.

(* ---- every live line ends at a permitted position (Proofs/WrapLineEnd.v) ------------------------------------------------- *)

(* line_end_allowed: Prepare on well-formed runs with ANY policy, ANY sequence of WrapNextLine calls with any widths reaching a
   live state wk, one more call that leaves the wrapper live (the line neither ends the text nor is the truncated one).
   Its line ends at e = NextLine where the segmenter flags a UAX #14 line-break opportunity, or - only when the policy is
   not Never - a UAX #29 grapheme cluster boundary.  No hypothesis on the store beyond well-formedness.  Two invariants:
   a grapheme option pending re-issue was read from the segmenter's grapheme flags (BG, the counterpart of
   required_flag_invariant's BW for the grapheme iterator, kept by every call), and the best line ends at a flagged
   position through both loops of wrapNextLine (the UAX #14 loop records lines at UAX #14 options only; the grapheme loop
   is entered under a policy other than Never only and records lines at grapheme options or at its UAX #14 option). *)
Theorem line_end_allowed : forall n w cfg attrs runs widths wk rs mw w' wl,
  wf_runs (w_st w) runs n = true -> zlen attrs - 1 = n -> 1 <= n ->
  run_calls (prepare w cfg attrs runs 0 0) widths = Ok (wk, rs) -> w_more wk = true ->
  wrap_next_line wk mw = Ok (w', wl, false) ->
  line_boundary attrs (wl_next wl) = true \/ (c_policy (w_cfg wk) <> 1 /\ grapheme_boundary attrs (wl_next wl) = true).
Proof. exact line_end_calls. Qed.
Print Assumptions line_end_allowed.

(* non-vacuity: "abcdef" (one UAX #14 segment) at maxWidth 4: under WhenNecessary the first line ends at 4, a grapheme
   boundary that is no UAX #14 opportunity; under Never the whole word is returned (done) *)
Example line_end_example :
  let st := [[mkGlyph 0 1 1 64 64 0 0 0; mkGlyph 1 1 1 64 64 0 0 0; mkGlyph 2 1 1 64 64 0 0 0; mkGlyph 3 1 1 64 64 0 0 0;
              mkGlyph 4 1 1 64 64 0 0 0; mkGlyph 5 1 1 64 64 0 0 0]; []] in
  let runs := [mkOut 384 0 0 6 0 0 6 0] in
  let attrs := [4; 4; 4; 4; 4; 4; 7] in
  let wk := prepare (w_zero st) (mkCfg 0 0 (mkOut 0 0 0 0 1 0 0 0) false 0 false) attrs runs 0 0 in
  wf_runs st runs 6 = true /\ w_more wk = true
  /\ (exists w' wl, wrap_next_line wk 4 = Ok (w', wl, false) /\ wl_next wl = 4
        /\ line_boundary attrs 4 = false /\ grapheme_boundary attrs 4 = true)
  /\ (let wn := prepare (w_zero st) (mkCfg 0 0 (mkOut 0 0 0 0 1 0 0 0) false 1 false) attrs runs 0 0 in
      exists w' wl, wrap_next_line wn 4 = Ok (w', wl, true) /\ wl_next wl = 6).
Proof.
  cbv zeta. split; [vm_compute; reflexivity|]. split; [reflexivity|].
  split; vm_compute; eexists _, _; repeat split; reflexivity.
Qed.
