(* C03 — Lines break only where breaking is allowed.  Property theorems only.
   Proved: the candidates come from the segmenter's flags (all attribute lists); a candidate line that is not rejected ends
   exactly one past its break option; a required option that fits ends the line at once; the required flag of EVERY option
   the breaker hands out (read from the segmenter or re-issued from unusedWordBreak) is exactly "mandatory boundary and not
   the text end" (required_iff_mandatory, with the breaker invariant BW kept by both loops and by every WrapNextLine call
   from Prepare on: required_flag_invariant), hence a valid mandatory boundary that fits ends the line at once
   (mandatory_boundary_ends_line_partial).  That every accepted option ends at a cluster boundary of every run is C02
   (wrapped_pieces_exact, through is_valid_sound).
   The full line_end_allowed is FALSE of the faithful model on the truncated line (Findings/Wrap.v: f8_refuted).
   NOT proved (oracle check_break_positions only): the global statements over RETURNED lines, "every returned line end is a
   permitted position" for non-truncated lines and "no returned line spans a mandatory boundary that is a cluster boundary".
   Missing: an invariant over both iterators saying that every option between the line start and the last option read was
   processed on this line (finding F37 shows an option can be dropped when the grapheme fallback returns a nil line, so
   the invariant has to exclude, or account for, that path), and the converse of is_valid_sound (a cluster boundary is
   always accepted by isValid). *)
From TV Require Import Model.Wrap Spec.Wrap Proofs.Wrap Proofs.WrapLines Proofs.WrapMand.

(* every UAX #14 candidate the breaker produces is the rune before a line boundary of the segmenter, candidates come
   in increasing order without skipping a boundary, and a candidate is required only at a mandatory boundary *)
Theorem word_option_is_line_boundary : forall b b' o,
  0 <= b_wpos b -> next_word_raw b = (b', Some o) ->
  line_boundary (b_attrs b) (fst o + 1) = true /\ b_wpos b <= fst o < b_n b
  /\ b_wpos b' = fst o + 1 /\ b_attrs b' = b_attrs b /\ b_n b' = b_n b
  /\ (snd o = true -> mandatory_boundary (b_attrs b) (fst o + 1) = true)
  /\ (forall r, b_wpos b < r < fst o + 1 -> line_boundary (b_attrs b) r = false).
Proof. exact next_word_raw_spec. Qed.
Print Assumptions word_option_is_line_boundary.

Theorem grapheme_option_is_boundary : forall b b' o,
  0 <= b_gpos b -> next_grapheme_raw b = (b', Some o) ->
  grapheme_boundary (b_attrs b) (fst o + 1) = true /\ b_gpos b <= fst o < b_n b
  /\ b_gpos b' = fst o + 1 /\ snd o = false.
Proof. exact next_grapheme_raw_spec. Qed.
Print Assumptions grapheme_option_is_boundary.

(* a line never extends past the break option of its last candidate: the chain recorded for a non-rejected candidate
   ends at most one past the option (so a line ends at an option of the breaker or earlier inside the cursor run) *)
Theorem line_end_at_most_option_partial : forall n w opt lc w' r cand,
  Inv n w -> process_break_option w opt lc = Ok (w', r, cand) -> r <> BreakInvalid ->
  exists e, chain (w_start w') (s_alt (w_sc w') ++ [cand]) e /\ e <= fst opt + 1.
Proof. intros n w opt lc w' r cand HI H N. destruct (pbo_ok n w opt lc w' r cand HI H) as (_ & _ & X). auto. Qed.
Print Assumptions line_end_at_most_option_partial.

(* a candidate that processBreakOption does not reject, from a state whose candidate prefix ends at or before the option
   (the ordering the loops maintain: Proofs/WrapLines.v OrdO/OrdI), is non-empty and the candidate line ends EXACTLY one
   past the option: a line recorded through markCandidateBest(cand) ends right after an option of the breaker *)
Theorem candidate_line_ends_after_option : forall n w opt lc w' r cand,
  Inv n w -> fst opt < n ->
  (s_alt (w_sc w) <> [] -> lend (w_start w) (s_alt (w_sc w)) <= fst opt) ->
  process_break_option w opt lc = Ok (w', r, cand) -> r <> BreakInvalid ->
  w_start w <= fst opt /\ 0 < o_cnt cand /\ chain (w_start w') (s_alt (w_sc w') ++ [cand]) (fst opt + 1).
Proof.
  intros n w opt lc w' r cand HI Ho Hord H Hr.
  destruct (pbo_strong n w opt lc w' r cand HI Ho Hord H) as (_ & _ & X & _). auto.
Qed.
Print Assumptions candidate_line_ends_after_option.

(* mandatory_break_ends_line (partial): at the top of the UAX #14 loop of wrapNextLine (state satisfying the loop invariant
   JT and the ordering OrdO), when the breaker hands out a required option and processBreakOption answers "fits" (the option
   is valid, i.e. not fused into a cluster, and within the width), the call leaves the loop at once, not done, with the line
   alt ++ [cand] whose last piece is non-empty and which ends exactly one past the required option.
   Missing for the full statement: that the required flag of an option re-issued from unusedWordBreak is the flag of a
   mandatory boundary, and the global form over returned lines (no line spans a valid mandatory break). *)
Theorem mandatory_break_ends_line_partial : forall n fuel w lc b1 opt w3 cand,
  JT n w -> OrdO w ->
  next_word_break (w_br w) = (b1, Some opt) -> snd opt = true ->
  process_break_option (set_br (checkpoint w) b1) opt lc = Ok (w3, Fits, cand) ->
  outer_loop (S fuel) w lc = Ok (mark_best w3 [cand], false)
  /\ s_best (w_sc (mark_best w3 [cand])) = Some (s_alt (w_sc w3) ++ [cand])
  /\ 0 < o_cnt cand /\ chain (w_start w) (s_alt (w_sc w3) ++ [cand]) (fst opt + 1)
  /\ best_end (mark_best w3 [cand]) = fst opt + 1.
Proof. exact required_fits_ends_line. Qed.
Print Assumptions mandatory_break_ends_line_partial.

(* non-vacuity: "a LF b": the option after the line feed is required, fits at width 100, and the first call returns [0,2) *)
Example mandatory_break_example :
  let st := [[mkGlyph 0 1 1 64 64 0 0 0; mkGlyph 1 1 1 0 0 0 0 0; mkGlyph 2 1 1 64 64 0 0 0]; []] in
  let w := prepare (w_zero st) cfg_zero [4; 4; 7; 7] [mkOut 128 0 0 3 0 0 3 0] 0 0 in
  snd (next_word_break (w_br w)) = Some (1, true)
  /\ exists w' l d, wrap_next_line w 100 = Ok (w', mkWrapped (Some l) 0 2, d) /\ d = false.
Proof. vm_compute. split; [reflexivity|]. eexists _, _, _. split; reflexivity. Qed.

Example word_option_example :
  fst (snd (next_word_raw (new_breaker [4; 4; 5; 4; 7])), fst (next_word_raw (new_breaker [4; 4; 5; 4; 7]))) = Some (1, false).
Proof. reflexivity. Qed.

(* ---- the required flag (Proofs/WrapMand.v) ----------------------------------------------------------------------- *)

(* required_iff_mandatory: from any breaker state satisfying BW, every option nextWordBreak hands out — a raw read or the
   re-issued unusedWordBreak — lies right before a line boundary of the segmenter, and it is flagged required exactly when
   that boundary is mandatory and is not the end of the text; BW holds again afterwards *)
Theorem required_iff_mandatory : forall b b' o,
  BW b -> next_word_break b = (b', Some o) ->
  BW b' /\ line_boundary (b_attrs b) (fst o + 1) = true
  /\ (snd o = true <-> (mandatory_boundary (b_attrs b) (fst o + 1) = true /\ fst o <> b_n b - 1)).
Proof.
  intros b b' o HB H. destruct (nwb_canon b b' (Some o) HB H) as (HB' & _ & _ & HC). destruct (HC o eq_refl) as [C _].
  split; [exact HB'|]. split; [exact (proj1 C)|exact (canonical_required _ _ _ C)].
Qed.
Print Assumptions required_iff_mandatory.

(* required_flag_invariant: BW holds for the breaker Prepare creates and is kept by the grapheme loop, the UAX #14 loop,
   WrapNextLine and any sequence of WrapNextLine calls — for every state, fuel, width; no hypothesis on the runs *)
Theorem required_flag_invariant :
  (forall attrs, BW (new_breaker attrs))
  /\ (forall fuel w lc w' d, BW (w_br w) -> outer_loop fuel w lc = Ok (w', d) -> BW (w_br w'))
  /\ (forall fuel w lc w' d, BW (w_br w) -> 1 <= b_wpos (w_br w) <= b_n (w_br w) -> inner_loop fuel w lc = Ok (w', d) -> BW (w_br w'))
  /\ (forall w mw w' wl d, BW (w_br w) -> wrap_next_line w mw = Ok (w', wl, d) -> BW (w_br w'))
  /\ (forall widths w w' rs, BW (w_br w) -> run_calls w widths = Ok (w', rs) -> BW (w_br w')).
Proof. split; [exact BW_new|]. split; [exact outer_BW|]. split; [exact inner_BW|]. split; [exact wnl_BW|exact run_calls_BW]. Qed.
Print Assumptions required_flag_invariant.

(* mandatory_boundary_ends_line (partial): mandatory_break_ends_line_partial with the flag replaced by the segmenter's fact:
   at the top of the UAX #14 loop (JT, OrdO, BW), when the next option lies before a mandatory boundary other than the
   text end and processBreakOption answers "fits" (valid — not fused into a cluster — and within the width), the call
   returns at once, not done, with a line ending exactly at that mandatory boundary.
   Missing for the full statement: the global form over returned lines (no returned line spans a valid mandatory break). *)
Theorem mandatory_boundary_ends_line_partial : forall n fuel w lc b1 opt w3 cand,
  JT n w -> OrdO w -> BW (w_br w) ->
  next_word_break (w_br w) = (b1, Some opt) ->
  mandatory_boundary (b_attrs (w_br w)) (fst opt + 1) = true -> fst opt <> n - 1 ->
  process_break_option (set_br (checkpoint w) b1) opt lc = Ok (w3, Fits, cand) ->
  outer_loop (S fuel) w lc = Ok (mark_best w3 [cand], false)
  /\ s_best (w_sc (mark_best w3 [cand])) = Some (s_alt (w_sc w3) ++ [cand])
  /\ 0 < o_cnt cand /\ chain (w_start w) (s_alt (w_sc w3) ++ [cand]) (fst opt + 1)
  /\ best_end (mark_best w3 [cand]) = fst opt + 1.
Proof. exact mandatory_fits_ends_line. Qed.
Print Assumptions mandatory_boundary_ends_line_partial.

(* non-vacuity: "a LF b": BW holds after Prepare; the first option (after the line feed) is mandatory, not the text end, and
   is handed out flagged required; after a call that re-arms unusedWordBreak the re-issued option carries the same flag *)
Example required_flag_example :
  let attrs := [4; 4; 7; 7] in
  BW (new_breaker attrs)
  /\ snd (next_word_break (new_breaker attrs)) = Some (1, true)
  /\ mandatory_boundary attrs 2 = true
  /\ snd (next_word_break (mark_word_unused (fst (next_word_break (new_breaker attrs))))) = Some (1, true).
Proof. split; [apply BW_new|]. vm_compute. repeat split; reflexivity. Qed.
