(* C11 — Character map lookup, enumeration and coverage agree.  Property theorems only. *)
From TV Require Import Lib.GoNum Lib.Res Model.RuneSet Model.Cmap Spec.RuneSet Spec.Cmap Proofs.RuneSet Proofs.Cmap.
From TV Require Import Proofs.RuneSetIncl Proofs.RuneSetSer Proofs.RuneSetRange Proofs.C11Compose.

(* ---- the rune-set container is a mathematical set ---- *)

(* for EVERY history of Add/Delete from the empty set: no operation fails, the pages stay strictly sorted and
   well-formed (inv), and Contains answers exactly as the mathematical set built by the same history *)
Theorem runeset_is_set : forall ops, ops_ok ops ->
  exists rs, rs_run ops = Ok rs /\ inv rs /\ forall x, rune_ok x -> rsContains rs x = Ok (s_run ops x).
Proof. exact runeset_refines_set. Qed.
Print Assumptions runeset_is_set.

(* the single steps, on any well-formed set (not only reachable ones) *)
Theorem runeset_add : forall rs r, inv rs ->
  exists rs', rsAdd rs r = Ok rs' /\ inv rs' /\ forall x, rune_ok x -> rune_ok r -> mem rs' x = (x =? r) || mem rs x.
Proof. exact add_spec. Qed.
Print Assumptions runeset_add.
Theorem runeset_delete : forall rs r, inv rs ->
  exists rs', rsDelete rs r = Ok rs' /\ inv rs' /\ forall x, rune_ok x -> rune_ok r -> mem rs' x = negb (x =? r) && mem rs x.
Proof. exact delete_spec. Qed.
Print Assumptions runeset_delete.
Theorem runeset_contains : forall rs x, inv rs -> rsContains rs x = Ok (mem rs x).
Proof. exact contains_spec. Qed.
Print Assumptions runeset_contains.

(* inclusion: the merge loop never fails and is sound on all well-formed sets; it is complete when the included set
   carries no all-zero page.  The unrestricted equivalence is false of the code: Findings/RuneSet.v
   (includes_after_delete_refuted, known finding F23). *)
Theorem runeset_includes_sound : forall a b, inv a -> inv b ->
  exists v, rsIncludes a b = Ok v /\ (v = true -> forall x, rune_ok x -> mem b x = true -> mem a x = true).
Proof. exact includes_total_sound. Qed.
Print Assumptions runeset_includes_sound.
Theorem runeset_includes_iff_partial : forall a b, inv a -> inv b -> Forall page_nonempty b ->
  (rsIncludes a b = Ok true <-> forall x, rune_ok x -> mem b x = true -> mem a x = true).
Proof. exact includes_iff_nonempty. Qed.
Print Assumptions runeset_includes_iff_partial.

(* Len is the number of members: there is a duplicate-free list of exactly the members whose length is Len *)
Theorem runeset_len_is_cardinality : forall rs, inv rs ->
  exists l, NoDup l /\ (forall x, rune_ok x -> (In x l <-> mem rs x = true)) /\ rsLen rs = zlen l.
Proof. exact len_is_cardinality. Qed.
Print Assumptions runeset_len_is_cardinality.

(* serialization: reading back what was written returns the same pages and consumes exactly the bytes written,
   whatever follows them; the reader never panics on arbitrary bytes *)
Theorem serialize_roundtrip : forall rs tail, inv rs -> zlen rs <= 65535 ->
  deserializeFrom (serialize rs ++ tail) = Ok (rs, 2 + 34 * zlen rs).
Proof. exact Proofs.RuneSetSer.serialize_roundtrip. Qed.
Print Assumptions serialize_roundtrip.
Theorem deserialize_total : forall data, deserializeFrom data <> OutOfFuel /\ (forall c, deserializeFrom data <> Panic c).
Proof. exact Proofs.RuneSetSer.deserialize_total. Qed.
Print Assumptions deserialize_total.

(* ---- coverage recorded for font matching ---- *)

(* addRangeToPage(page, s, e) sets exactly the bits s..e (uint32 masks with wrap, all 8 words) *)
Theorem add_range_to_page_spec : forall page s e,
  length page = 8%nat -> Forall word_ok page -> 0 <= s -> s <= e -> e < 256 ->
  let out := addRangeToPage page s e in
  length out = 8%nat /\ Forall word_ok out /\
  forall b, 0 <= b < 256 -> page_bit out b = page_bit page b || ((s <=? b) && (b <=? e)).
Proof. exact Proofs.RuneSetRange.add_range_to_page_spec. Qed.
Print Assumptions add_range_to_page_spec.

(* newCoveragesFromCmapRange on sorted non-overlapping inclusive ranges: never fails, yields a well-formed set
   that contains a rune iff some range does *)
Theorem coverage_from_ranges_exact : forall ranges, ranges_ok ranges = true ->
  exists rs, coverage_from_ranges ranges = Ok rs /\ inv rs /\
             forall x, rune_ok x -> rsContains rs x = Ok (in_ranges ranges x).
Proof. exact Proofs.RuneSetRange.coverage_from_ranges_exact. Qed.
Print Assumptions coverage_from_ranges_exact.

(* the property's "iff": the coverage built from a well-formed subtable contains a rune exactly when Lookup maps it *)
Theorem coverage_exact_cmap4 : forall s, wf_cmap4 s = true ->
  exists rs, coverage_from_ranges (rune_ranges4 s) = Ok rs /\ inv rs /\
             forall x, rune_ok x -> exists b, rsContains rs x = Ok b /\ (b = true <-> exists g, lookup4 s x = Ok (g, true)).
Proof. exact Proofs.C11Compose.coverage_exact_cmap4. Qed.
Print Assumptions coverage_exact_cmap4.
Theorem coverage_exact_cmap12 : forall s, wf_cmap12 s = true -> Forall (fun e => g_end e < 16777216) s ->
  exists rs, coverage_from_ranges (rune_ranges12 s) = Ok rs /\ inv rs /\
             forall x, rune_ok x -> exists b, rsContains rs x = Ok b /\ (b = true <-> exists g, lookup12 s x = Ok (g, true)).
Proof. exact Proofs.C11Compose.coverage_exact_cmap12. Qed.
Print Assumptions coverage_exact_cmap12.

(* ---- enumeration = lookup, per format, under the boolean well-formedness ---- *)
Theorem iter_eq_lookup_cmap4 : forall s, wf_cmap4 s = true -> exists l, iter4 s = Ok l /\ iter_agrees l (lookup4 s).
Proof. exact iter4_eq_lookup4. Qed.
Print Assumptions iter_eq_lookup_cmap4.
Theorem iter_eq_lookup_cmap12 : forall s, wf_cmap12 s = true -> iter_agrees (iter12 s) (lookup12 s).
Proof. exact iter12_eq_lookup12. Qed.
Print Assumptions iter_eq_lookup_cmap12.
Theorem iter_eq_lookup_cmap13 : forall s, wf_cmap13 s = true -> iter_agrees (iter13 s) (lookup13 s).
Proof. exact iter13_eq_lookup13. Qed.
Print Assumptions iter_eq_lookup_cmap13.
Theorem iter_eq_lookup_cmap6or10 : forall s, wf_cmap6 s = true -> iter_agrees (iter6 s) (lookup6 s).
Proof. exact iter6_eq_lookup6. Qed.
Print Assumptions iter_eq_lookup_cmap6or10.

Theorem rune_ranges_eq_domain_cmap4 : forall s, wf_cmap4 s = true -> ranges_are_domain (rune_ranges4 s) (lookup4 s).
Proof. exact rune_ranges4_eq_domain. Qed.
Print Assumptions rune_ranges_eq_domain_cmap4.
Theorem rune_ranges_eq_domain_cmap12 : forall s, wf_cmap12 s = true -> ranges_are_domain (rune_ranges12 s) (lookup12 s).
Proof. exact rune_ranges12_eq_domain. Qed.
Print Assumptions rune_ranges_eq_domain_cmap12.
Theorem rune_ranges_eq_domain_cmap13 : forall s, wf_cmap13 s = true -> ranges_are_domain (rune_ranges12 s) (lookup13 s).
Proof. exact rune_ranges13_eq_domain. Qed.
Print Assumptions rune_ranges_eq_domain_cmap13.
Theorem rune_ranges_eq_domain_cmap6or10 : forall s, wf_cmap6 s = true -> c6_entries s <> [] ->
  ranges_are_domain (rune_ranges6 s) (lookup6 s).
Proof. exact rune_ranges6_eq_domain. Qed.
Print Assumptions rune_ranges_eq_domain_cmap6or10.

(* ---- non-vacuity ---- *)
Example history_example : ops_ok [(0, 65); (0, 1114111); (1, 65); (0, 16777215)].
Proof. repeat constructor; cbn; lia. Qed.
Example inv_example : exists rs, rs_run [(0, 65); (0, 300); (1, 65)] = Ok rs /\ rs <> [] /\ inv rs.
Proof.
  destruct (runeset_refines_set [(0, 65); (0, 300); (1, 65)]) as [rs [E [I _]]]; [repeat constructor; cbn; lia|].
  exists rs. split; auto. split; auto. intros ->. vm_compute in E. discriminate.
Qed.
Example nonempty_example : exists rs, rs_run [(0, 65); (0, 300)] = Ok rs /\ Forall page_nonempty rs.
Proof.
  eexists. split; [vm_compute; reflexivity|].
  repeat constructor; [exists 65|exists 300]; (split; [cbv; intuition congruence|split; reflexivity]).
Qed.
Example wf_cmap4_example :
  wf_cmap4 [mkSeg4 32 126 65507 None; mkSeg4 160 162 7 (Some [5; 9; 65535]); mkSeg4 65535 65535 1 None] = true.
Proof. reflexivity. Qed.
Example wf_cmap12_example : wf_cmap12 [mkGrp 32 126 3; mkGrp 127 127 4294967295; mkGrp 65536 1114111 100] = true.
Proof. reflexivity. Qed.
Example ranges_ok_example : ranges_ok [(32, 126); (127, 127); (250, 1300); (65536, 1114111)] = true.
Proof. reflexivity. Qed.
Example page_example : length full_set = 8%nat /\ Forall word_ok full_set.
Proof. split; [reflexivity|]. repeat constructor; cbv; intuition congruence. Qed.
Example wf_cmap12_small_example :
  let s := [mkGrp 32 126 3; mkGrp 65536 1114111 100] in wf_cmap12 s = true /\ Forall (fun e => g_end e < 16777216) s.
Proof. split; [reflexivity|repeat constructor; cbn; lia]. Qed.
Example wf_cmap13_example : wf_cmap13 [mkGrp 0 1114111 7] = true.
Proof. reflexivity. Qed.
Example wf_cmap6_example : wf_cmap6 (mkCmap6 48 [1; 0; 3]) = true /\ c6_entries (mkCmap6 48 [1; 0; 3]) <> [].
Proof. split; [reflexivity|discriminate]. Qed.
