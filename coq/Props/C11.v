(* C11 — Character map lookup, enumeration and coverage agree.  Property theorems only. *)
From TV Require Import Lib.GoNum Lib.Res Model.RuneSet Model.Cmap Spec.RuneSet Spec.Cmap Proofs.RuneSet Proofs.Cmap.
From TV Require Import Proofs.RuneSetIncl Proofs.RuneSetSer Proofs.RuneSetRange Proofs.C11Compose.
From TV Require Import Model.CmapSel Model.LangSet Model.Scripts Spec.CmapRemap Spec.CmapSel Spec.LangSet Spec.Scripts.
From TV Require Import Proofs.CmapSan Proofs.CmapSel Proofs.LangSet Proofs.Scripts Proofs.C11Compose2.
From TV Require Import Gen.C11Tables Gen.ScriptTable.

(* ---- the rune-set container is a mathematical set ---- *)

(* for EVERY history of Add/Delete from the empty set: no operation fails, the pages stay strictly sorted and
   well-formed (inv), and Contains answers exactly as the mathematical set built by the same history *)
Theorem runeset_is_set : forall ops, ops_ok ops ->
  exists rs, rs_run ops = Ok rs /\ inv rs /\ forall x, rune_ok x -> rsContains rs x = Ok (s_run ops x).
Proof. exact runeset_refines_set. Qed.
Print Assumptions runeset_is_set.

(* the single steps, on any well-formed set (not only reachable ones) *)
Theorem runeset_add : forall rs r, inv rs ->
  exists rs', rsAdd rs r = Ok rs' /\ inv rs' /\ forall x, rune_ok x -> rune_ok r -> mem rs' x = (x =? r) || mem rs x.
Proof. exact add_spec. Qed.
Print Assumptions runeset_add.
Theorem runeset_delete : forall rs r, inv rs ->
  exists rs', rsDelete rs r = Ok rs' /\ inv rs' /\ forall x, rune_ok x -> rune_ok r -> mem rs' x = negb (x =? r) && mem rs x.
Proof. exact delete_spec. Qed.
Print Assumptions runeset_delete.
Theorem runeset_contains : forall rs x, inv rs -> rsContains rs x = Ok (mem rs x).
Proof. exact contains_spec. Qed.
Print Assumptions runeset_contains.

(* inclusion: the merge loop never fails and decides inclusion of the sets of members, for ALL well-formed sets
   (after the repair of includes, which ignores the all-zero pages Delete leaves behind; the former
   runeset_includes_iff_partial needed `Forall page_nonempty b`) *)
Theorem runeset_includes_sound : forall a b, inv a -> inv b ->
  exists v, rsIncludes a b = Ok v /\ (v = true -> forall x, rune_ok x -> mem b x = true -> mem a x = true).
Proof. exact includes_total_sound. Qed.
Print Assumptions runeset_includes_sound.
Theorem runeset_includes_iff : forall a b, inv a -> inv b ->
  (rsIncludes a b = Ok true <-> forall x, rune_ok x -> mem b x = true -> mem a x = true).
Proof. exact includes_iff. Qed.
Print Assumptions runeset_includes_iff.
Theorem runeset_includes_total : forall a b, inv a -> inv b -> exists v, rsIncludes a b = Ok v.
Proof. exact includes_total. Qed.
Print Assumptions runeset_includes_total.

(* Len is the number of members: there is a duplicate-free list of exactly the members whose length is Len *)
Theorem runeset_len_is_cardinality : forall rs, inv rs ->
  exists l, NoDup l /\ (forall x, rune_ok x -> (In x l <-> mem rs x = true)) /\ rsLen rs = zlen l.
Proof. exact len_is_cardinality. Qed.
Print Assumptions runeset_len_is_cardinality.

(* serialization: reading back what was written returns the same pages and consumes exactly the bytes written,
   whatever follows them; the reader never panics on arbitrary bytes *)
Theorem serialize_roundtrip : forall rs tail, inv rs -> zlen rs <= 65535 ->
  deserializeFrom (serialize rs ++ tail) = Ok (rs, 2 + 34 * zlen rs).
Proof. exact Proofs.RuneSetSer.serialize_roundtrip. Qed.
Print Assumptions serialize_roundtrip.
Theorem deserialize_total : forall data, deserializeFrom data <> OutOfFuel /\ (forall c, deserializeFrom data <> Panic c).
Proof. exact Proofs.RuneSetSer.deserialize_total. Qed.
Print Assumptions deserialize_total.

(* ---- coverage recorded for font matching ---- *)

(* addRangeToPage(page, s, e) sets exactly the bits s..e (uint32 masks with wrap, all 8 words) *)
Theorem add_range_to_page_spec : forall page s e,
  length page = 8%nat -> Forall word_ok page -> 0 <= s -> s <= e -> e < 256 ->
  let out := addRangeToPage page s e in
  length out = 8%nat /\ Forall word_ok out /\
  forall b, 0 <= b < 256 -> page_bit out b = page_bit page b || ((s <=? b) && (b <=? e)).
Proof. exact Proofs.RuneSetRange.add_range_to_page_spec. Qed.
Print Assumptions add_range_to_page_spec.

(* newCoveragesFromCmapRange on sorted non-overlapping inclusive ranges: never fails, yields a well-formed set
   that contains a rune iff some range does *)
Theorem coverage_from_ranges_exact : forall ranges, ranges_ok ranges = true ->
  exists rs, coverage_from_ranges ranges = Ok rs /\ inv rs /\
             forall x, rune_ok x -> rsContains rs x = Ok (in_ranges ranges x).
Proof. exact Proofs.RuneSetRange.coverage_from_ranges_exact. Qed.
Print Assumptions coverage_from_ranges_exact.

(* the property's "iff": the coverage built from a well-formed subtable contains a rune exactly when Lookup maps it *)
Theorem coverage_exact_cmap4 : forall s, wf_cmap4 s = true ->
  exists rs, coverage_from_ranges (rune_ranges4 s) = Ok rs /\ inv rs /\
             forall x, rune_ok x -> exists b, rsContains rs x = Ok b /\ (b = true <-> exists g, lookup4 s x = Ok (g, true)).
Proof. exact Proofs.C11Compose.coverage_exact_cmap4. Qed.
Print Assumptions coverage_exact_cmap4.
Theorem coverage_exact_cmap12 : forall s, wf_cmap12 s = true -> Forall (fun e => g_end e < 16777216) s ->
  exists rs, coverage_from_ranges (rune_ranges12 s) = Ok rs /\ inv rs /\
             forall x, rune_ok x -> exists b, rsContains rs x = Ok b /\ (b = true <-> exists g, lookup12 s x = Ok (g, true)).
Proof. exact Proofs.C11Compose.coverage_exact_cmap12. Qed.
Print Assumptions coverage_exact_cmap12.

(* ---- enumeration = lookup, per format, under the boolean well-formedness ---- *)
Theorem iter_eq_lookup_cmap4 : forall s, wf_cmap4 s = true -> exists l, iter4 s = Ok l /\ iter_agrees l (lookup4 s).
Proof. exact iter4_eq_lookup4. Qed.
Print Assumptions iter_eq_lookup_cmap4.
Theorem iter_eq_lookup_cmap12 : forall s, wf_cmap12 s = true -> iter_agrees (iter12 s) (lookup12 s).
Proof. exact iter12_eq_lookup12. Qed.
Print Assumptions iter_eq_lookup_cmap12.
Theorem iter_eq_lookup_cmap13 : forall s, wf_cmap13 s = true -> iter_agrees (iter13 s) (lookup13 s).
Proof. exact iter13_eq_lookup13. Qed.
Print Assumptions iter_eq_lookup_cmap13.
Theorem iter_eq_lookup_cmap6or10 : forall s, wf_cmap6 s = true -> iter_agrees (iter6 s) (lookup6 s).
Proof. exact iter6_eq_lookup6. Qed.
Print Assumptions iter_eq_lookup_cmap6or10.

Theorem rune_ranges_eq_domain_cmap4 : forall s, wf_cmap4 s = true -> ranges_are_domain (rune_ranges4 s) (lookup4 s).
Proof. exact rune_ranges4_eq_domain. Qed.
Print Assumptions rune_ranges_eq_domain_cmap4.
Theorem rune_ranges_eq_domain_cmap12 : forall s, wf_cmap12 s = true -> ranges_are_domain (rune_ranges12 s) (lookup12 s).
Proof. exact rune_ranges12_eq_domain. Qed.
Print Assumptions rune_ranges_eq_domain_cmap12.
Theorem rune_ranges_eq_domain_cmap13 : forall s, wf_cmap13 s = true -> ranges_are_domain (rune_ranges12 s) (lookup13 s).
Proof. exact rune_ranges13_eq_domain. Qed.
Print Assumptions rune_ranges_eq_domain_cmap13.
Theorem rune_ranges_eq_domain_cmap6or10 : forall s, wf_cmap6 s = true -> c6_entries s <> [] ->
  ranges_are_domain (rune_ranges6 s) (lookup6 s).
Proof. exact rune_ranges6_eq_domain. Qed.
Print Assumptions rune_ranges_eq_domain_cmap6or10.

(* ---- the tables as the library builds them: no well-formedness hypothesis left, only the Go types ---- *)

(* sanitizeCmap4 / sanitizeCmapGroups turn ANY typed table into a well-formed one, and leave a well-formed one unchanged *)
Theorem sanitize_cmap4_wf : forall s, forallb ty_seg4 s = true -> wf_cmap4 (sanitize4 s) = true.
Proof. exact sanitize4_wf. Qed.
Print Assumptions sanitize_cmap4_wf.
Theorem sanitize_cmap4_id : forall s, wf_cmap4 s = true -> sanitize4 s = s.
Proof. exact sanitize4_id. Qed.
Print Assumptions sanitize_cmap4_id.
Theorem sanitize_cmap12_wf : forall is13 s, forallb ty_grp s = true ->
  wf_cmap12_from is13 0 (sanitize12 s) = true /\ Forall (fun e => g_end e < 16777216) (sanitize12 s).
Proof. exact sanitize12_wf. Qed.
Print Assumptions sanitize_cmap12_wf.
Theorem sanitize_cmap12_id : forall is13 s, wf_cmap12_from is13 0 s = true -> Forall (fun e => g_end e <= 1114111) s ->
  sanitize12 s = s.
Proof. exact sanitize12_id. Qed.
Print Assumptions sanitize_cmap12_id.

(* format 4 from the raw arrays (every uint16 quadruple list, every byte string): whenever newCmap4 accepts the table,
   Iter = Lookup and coverage = Lookup domain on the sanitized segments *)
Theorem iter_eq_lookup_cmap4_built : forall qs ga s, typed_quads qs -> typed_bytes ga -> new_cmap4 qs ga = Ok s ->
  exists l, iter4 (sanitize4 s) = Ok l /\ iter_agrees l (lookup4 (sanitize4 s)).
Proof. exact Proofs.C11Compose2.iter_eq_lookup_cmap4_built. Qed.
Print Assumptions iter_eq_lookup_cmap4_built.
Theorem coverage_exact_cmap4_built : forall qs ga s, typed_quads qs -> typed_bytes ga -> new_cmap4 qs ga = Ok s ->
  exists rs, coverage_from_ranges (rune_ranges4 (sanitize4 s)) = Ok rs /\ inv rs /\
             forall x, rune_ok x -> exists b, rsContains rs x = Ok b /\ (b = true <-> exists g, lookup4 (sanitize4 s) x = Ok (g, true)).
Proof. exact Proofs.C11Compose2.coverage_exact_cmap4_built. Qed.
Print Assumptions coverage_exact_cmap4_built.
(* formats 12 / 13 from the raw groups (every list of uint32 triples) *)
Theorem iter_eq_lookup_cmap12_built : forall gs, forallb ty_grp gs = true ->
  iter_agrees (iter12 (sanitize12 gs)) (lookup12 (sanitize12 gs)).
Proof. exact Proofs.C11Compose2.iter_eq_lookup_cmap12_built. Qed.
Print Assumptions iter_eq_lookup_cmap12_built.
Theorem iter_eq_lookup_cmap13_built : forall gs, forallb ty_grp gs = true ->
  iter_agrees (iter13 (sanitize12 gs)) (lookup13 (sanitize12 gs)).
Proof. exact Proofs.C11Compose2.iter_eq_lookup_cmap13_built. Qed.
Print Assumptions iter_eq_lookup_cmap13_built.
Theorem coverage_exact_cmap12_built : forall gs, forallb ty_grp gs = true ->
  exists rs, coverage_from_ranges (rune_ranges12 (sanitize12 gs)) = Ok rs /\ inv rs /\
             forall x, rune_ok x -> exists b, rsContains rs x = Ok b /\ (b = true <-> exists g, lookup12 (sanitize12 gs) x = Ok (g, true)).
Proof. exact Proofs.C11Compose2.coverage_exact_cmap12_built. Qed.
Print Assumptions coverage_exact_cmap12_built.

(* format 0: for every decoding table and glyph array, Iter = Lookup; the last byte (>= 1) decoding to a rune wins *)
Theorem iter_eq_lookup_cmap0 : forall decode ga, iter_agrees (iter0 (new_cmap0 decode ga)) (lookup0 (new_cmap0 decode ga)).
Proof. exact iter0_eq_lookup0. Qed.
Print Assumptions iter_eq_lookup_cmap0.
Theorem cmap0_last_byte_wins : forall decode ga r g, length ga = 256%nat ->
  (lookup0 (new_cmap0 decode ga) r = Ok (g, true) <->
   exists b, 1 <= b < 256 /\ znth 0 decode b = r /\ znth 0 ga b = g /\ forall b', b < b' < 256 -> znth 0 decode b' <> r).
Proof. exact new_cmap0_spec. Qed.
Print Assumptions cmap0_last_byte_wins.

(* the legacy remapers: for ANY wrapped cmap that enumerates what it looks up, the remaper enumerates what it looks up
   (non-negative runes); symbol and legacy arabic instances *)
Theorem remaper_iter_eq_lookup : forall wrapped remaper inner last,
  total_lookup wrapped -> total_lookup remaper -> iter_agrees_nn inner wrapped ->
  (forall r g, wrapped r = Ok (g, true) -> remaper r = Ok (g, true)) ->
  (forall r g, rune_nn r -> remaper r = Ok (g, true) -> (exists g', wrapped r = Ok (g', true)) \/ 0 <= r <= last) ->
  0 <= last < 2147483648 ->
  exists l, remap_iter inner wrapped remaper last = Ok l /\ iter_agrees_nn l remaper.
Proof. exact remap_iter_agrees. Qed.
Print Assumptions remaper_iter_eq_lookup.
Theorem symbol_remaper_iter_eq_lookup : forall inner_lookup inner, total_lookup inner_lookup -> iter_agrees_nn inner inner_lookup ->
  exists l, remap_iter inner inner_lookup (remap_symbol inner_lookup) 255 = Ok l /\ iter_agrees_nn l (remap_symbol inner_lookup).
Proof. exact remap_symbol_iter_agrees. Qed.
Print Assumptions symbol_remaper_iter_eq_lookup.
Theorem arabic_remaper_iter_eq_lookup : forall pua inner_lookup inner last,
  total_lookup inner_lookup -> iter_agrees_nn inner inner_lookup -> 0 <= last < 2147483648 ->
  (forall r, pua r <> 0 -> 0 <= r <= last /\ 0 < pua r < 2147483648 /\ pua (pua r) = 0) ->
  exists l, remap_iter inner inner_lookup (remap_pua_fuel 2 pua inner_lookup) last = Ok l
            /\ iter_agrees_nn l (remap_pua_fuel 2 pua inner_lookup).
Proof. exact remap_pua_iter_agrees. Qed.
Print Assumptions arabic_remaper_iter_eq_lookup.

(* format 14: on a table ordered as the OpenType specification requires, GetGlyphVariant is the default / non-default /
   not-found classification *)
Theorem uvs_lookup_exact : forall t r sel, wf_uvs t = true -> get_glyph_variant t r sel = Ok (uvs_spec t r sel).
Proof. exact uvs_lookup_spec. Qed.
Print Assumptions uvs_lookup_exact.

(* ---- ProcessCmap: for EVERY list of encoding records ---- *)
(* the candidates are exactly the records of the supported formats (0, 4, 6, 10, 12, 13), in order *)
Theorem process_cmap_candidates : forall decode recs cands uv, collect decode recs [] [] = Ok (cands, uv) ->
  map cand_id cands = map rec_id (filter (fun r => is_candidate (snd r)) recs).
Proof. exact collect_ids. Qed.
Print Assumptions process_cmap_candidates.
(* the chosen subtable is the first candidate carrying the first identifier of the documented preference order
   (symbol; 32-bit; 16-bit) that is present, wrapped by the legacy remaper for the symbol identifier; the very first
   candidate when none is present; an error exactly when there is no candidate *)
Theorem process_cmap_choice : forall decode recs fp cands uv, collect decode recs [] [] = Ok (cands, uv) ->
  (cands = [] /\ process_cmap decode recs fp = Err 3) \/
  (exists res, process_cmap decode recs fp = Ok (res, uv) /\ right_choice cands fp res).
Proof. exact Proofs.CmapSel.process_cmap_choice. Qed.
Print Assumptions process_cmap_choice.
Theorem process_cmap_error : forall decode recs fp e, collect decode recs [] [] = Err e -> process_cmap decode recs fp = Err e.
Proof. exact process_cmap_err. Qed.
Print Assumptions process_cmap_error.
(* whatever ProcessCmap returns for typed subtables enumerates exactly what it looks up, each rune once (with the
   Macintosh and legacy arabic tables regenerated from the library) *)
Theorem process_cmap_iter_eq_lookup : forall recs fp cm uv,
  Forall (fun r => typed_sub (snd r)) recs -> process_cmap macintosh_decode recs fp = Ok (cm, uv) ->
  exists l, miter arabicPUASimp arabicPUATrad cm = Ok l /\ iter_agrees_nn l (mlookup arabicPUASimp arabicPUATrad cm).
Proof. exact process_cmap_iter_agrees_table. Qed.
Print Assumptions process_cmap_iter_eq_lookup.

(* ---- language sets ---- *)
Theorem langset_add_contains : forall ls l x, ls_ok ls -> 0 <= l -> 0 <= x ->
  ls_ok (ls_add ls l) /\ ls_contains (ls_add ls l) x = ((x mod 512 =? l mod 512) || ls_contains ls x).
Proof. exact ls_add_spec. Qed.
Print Assumptions langset_add_contains.
(* for every table of at most 512 well-formed rune sets and every coverage: language id is in the set iff the coverage
   contains every rune of the table entry *)
Theorem langset_exact : forall tab rs, inv rs -> Forall inv tab -> zlen tab <= 512 ->
  exists ls, new_langset tab rs = Ok ls /\ ls_ok ls /\
    (forall id, 0 <= id < zlen tab -> (ls_contains ls id = true <-> subset_of rs (nth (Z.to_nat id) tab []))) /\
    (forall id, zlen tab <= id < 512 -> ls_contains ls id = false).
Proof. exact Proofs.LangSet.langset_exact. Qed.
Print Assumptions langset_exact.
(* ... and at the library's languagesRunes (regenerated on every run) *)
Theorem langset_exact_library : forall rs, inv rs ->
  exists ls, new_langset lang_table rs = Ok ls /\ ls_ok ls /\
    (forall id, 0 <= id < zlen lang_table -> (ls_contains ls id = true <-> subset_of rs (nth (Z.to_nat id) lang_table []))) /\
    (forall id, zlen lang_table <= id < 512 -> ls_contains ls id = false).
Proof. exact langset_exact_table. Qed.
Print Assumptions langset_exact_library.

(* ---- script sets ---- *)
Theorem scriptset_insert : forall ss s, ss_sorted ss ->
  exists ss', ss_insert ss s = Ok ss' /\ ss_sorted ss' /\ forall x, In x ss' <-> x = s \/ In x ss.
Proof. exact ss_insert_spec. Qed.
Print Assumptions scriptset_insert.
Theorem scriptset_contains : forall ss s, ss_sorted ss -> (ss_contains ss s = true <-> In s ss).
Proof. exact ss_contains_spec. Qed.
Print Assumptions scriptset_contains.
(* scriptsFromRanges on sorted disjoint ranges and any increasing disjoint script table starting at rune 0: the result
   is exactly the set of scripts of the runes in the ranges (Unknown for runes in no table entry) *)
Theorem scripts_from_ranges_exact : forall SR unknown ranges, sr_ok SR = true -> ranges_ok ranges = true ->
  exists ss, scripts_from_ranges SR unknown ranges = Ok ss /\ ss_sorted ss /\
             forall s, In s ss <-> exists x, in_ranges ranges x = true /\ script_of SR unknown x = s.
Proof. exact Proofs.Scripts.scripts_from_ranges_exact. Qed.
Print Assumptions scripts_from_ranges_exact.
Theorem scripts_from_ranges_exact_library : forall ranges, ranges_ok ranges = true ->
  exists ss, scripts_from_ranges ScriptRanges script_Unknown ranges = Ok ss /\ ss_sorted ss /\
             forall s, In s ss <-> exists x, in_ranges ranges x = true /\ script_of ScriptRanges script_Unknown x = s.
Proof. exact scripts_from_ranges_exact_table. Qed.
Print Assumptions scripts_from_ranges_exact_library.
(* the rune-by-rune path of newCoveragesFromCmap *)
Theorem scripts_from_runes_exact : forall SR unknown runes,
  exists ss, scripts_from_runes SR unknown runes [] = Ok ss /\ ss_sorted ss /\
             forall s, In s ss <-> exists x, In x runes /\ script_of SR unknown x = s.
Proof. exact Proofs.Scripts.scripts_from_runes_exact. Qed.
Print Assumptions scripts_from_runes_exact.

(* ---- non-vacuity ---- *)
Example history_example : ops_ok [(0, 65); (0, 1114111); (1, 65); (0, 16777215)].
Proof. repeat constructor; cbn; lia. Qed.
Example inv_example : exists rs, rs_run [(0, 65); (0, 300); (1, 65)] = Ok rs /\ rs <> [] /\ inv rs.
Proof.
  destruct (runeset_refines_set [(0, 65); (0, 300); (1, 65)]) as [rs [E [I _]]]; [repeat constructor; cbn; lia|].
  exists rs. split; auto. split; auto. intros ->. vm_compute in E. discriminate.
Qed.
Example nonempty_example : exists rs, rs_run [(0, 65); (0, 300)] = Ok rs /\ Forall page_nonempty rs.
Proof.
  eexists. split; [vm_compute; reflexivity|].
  repeat constructor; [exists 65|exists 300]; (split; [cbv; intuition congruence|split; reflexivity]).
Qed.
Example wf_cmap4_example :
  wf_cmap4 [mkSeg4 32 126 65507 None; mkSeg4 160 162 7 (Some [5; 9; 65535]); mkSeg4 65535 65535 1 None] = true.
Proof. reflexivity. Qed.
Example wf_cmap12_example : wf_cmap12 [mkGrp 32 126 3; mkGrp 127 127 4294967295; mkGrp 65536 1114111 100] = true.
Proof. reflexivity. Qed.
Example ranges_ok_example : ranges_ok [(32, 126); (127, 127); (250, 1300); (65536, 1114111)] = true.
Proof. reflexivity. Qed.
Example page_example : length full_set = 8%nat /\ Forall word_ok full_set.
Proof. split; [reflexivity|]. repeat constructor; cbv; intuition congruence. Qed.
Example wf_cmap12_small_example :
  let s := [mkGrp 32 126 3; mkGrp 65536 1114111 100] in wf_cmap12 s = true /\ Forall (fun e => g_end e < 16777216) s.
Proof. split; [reflexivity|repeat constructor; cbn; lia]. Qed.
Example wf_cmap13_example : wf_cmap13 [mkGrp 0 1114111 7] = true.
Proof. reflexivity. Qed.
Example wf_cmap6_example : wf_cmap6 (mkCmap6 48 [1; 0; 3]) = true /\ c6_entries (mkCmap6 48 [1; 0; 3]) <> [].
Proof. split; [reflexivity|discriminate]. Qed.
Example typed_cmap4_example : exists s,
  let qs := [(126, 32, 65507, 0); (162, 160, 7, 6); (100, 90, 0, 0); (65535, 65535, 1, 0)] in
  typed_quads qs /\ typed_bytes [0; 5; 0; 0; 0; 9] /\ new_cmap4 qs [0; 5; 0; 0; 0; 9] = Ok s /\
  sanitize4 s <> s /\ sanitize4 s <> [].
Proof.
  eexists. split; [repeat constructor|]. split; [repeat constructor; lia|]. split; [vm_compute; reflexivity|].
  vm_compute. split; discriminate.
Qed.
Example ty_grp_example : forallb ty_grp [mkGrp 10 20 1; mkGrp 15 25 100; mkGrp 4294967295 0 7] = true
                         /\ sanitize12 [mkGrp 10 20 1; mkGrp 15 25 100; mkGrp 4294967295 0 7] = [mkGrp 10 20 1].
Proof. split; reflexivity. Qed.
Example wf_uvs_example : wf_uvs [mkVarsel 65024 [(48, 9); (100, 0)] [(65, 7); (66, 8)]; mkVarsel 917760 [] [(65, 9)]] = true
  /\ uvs_spec [mkVarsel 65024 [(48, 9); (100, 0)] [(65, 7); (66, 8)]; mkVarsel 917760 [] [(65, 9)]] 66 65024 = (8, VariantFound)
  /\ uvs_spec [mkVarsel 65024 [(48, 9); (100, 0)] [(65, 7); (66, 8)]; mkVarsel 917760 [] [(65, 9)]] 57 65024 = (0, VariantUseDefault).
Proof. repeat split; reflexivity. Qed.
(* a table listing its records unsorted: the (3,10) format 12 subtable is chosen, not the BMP-only (3,1) format 4 one *)
Example process_cmap_example :
  let recs := [(3, 10, S12 [mkGrp 65 90 1; mkGrp 65536 65540 100]); (3, 1, S4 [(90, 65, 0, 0); (65535, 65535, 1, 0)] [])] in
  Forall (fun r => typed_sub (snd r)) recs /\
  process_cmap macintosh_decode recs 0 = Ok (M12 [mkGrp 65 90 1; mkGrp 65536 65540 100], []).
Proof. split; [repeat constructor|vm_compute; reflexivity]. Qed.
Example process_cmap_symbol_example :
  process_cmap macintosh_decode [(3, 0, S4 [(61474, 61472, 7, 0)] [])] 0 = Ok (MSym (M4 [mkSeg4 61472 61474 7 None]), []).
Proof. vm_compute. reflexivity. Qed.
Example lang_table_example : 200 < zlen lang_table /\ exists rs id, inv rs /\ 0 <= id < zlen lang_table /\
  new_langset lang_table rs <> Ok ls_empty.
Proof.
  split; [vm_compute; reflexivity|].
  exists (nth 3 lang_table []), 3. split; [apply invb_inv; vm_compute; reflexivity|]. split; [vm_compute; split; [discriminate|reflexivity]|].
  vm_compute. discriminate.
Qed.
Example scripts_example : sr_ok ScriptRanges = true /\
  scripts_from_ranges ScriptRanges script_Unknown [(65, 90); (888, 889); (1024, 1030)]
  = Ok [1132032620; 1281455214; 1517976186].
Proof. split; vm_compute; reflexivity. Qed.
Example ss_sorted_example : ss_sorted [1132032620; 1281455214; 1517976186].
Proof. cbn. lia. Qed.
