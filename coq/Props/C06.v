(* C06 — Grapheme, word and line boundaries follow UAX #29 / UAX #14 for every string.
   Property theorems only.  Model: Model/Segmenter.v (tied to segmenter/*.go by the correspondence check);
   specifications: Spec/UAX29.v, Spec/UAX14.v. *)
From TV Require Import Model.Segmenter Spec.UAX29 Spec.UAX14 Proofs.SegCommon Proofs.SegG Proofs.SegL Proofs.SegW Proofs.SegWords Proofs.SegIter.
(* table theorems (second half of this file): the observation of a rune computed from the regenerated tables *)
From TV Require Import Model.ObsOfRune Spec.Unicode Proofs.ObsTables.
Open Scope Z_scope.

(* Init is total: for every rune string the attribute computation neither panics (the write-back index of
   WB6/WB7b/WB12 is always inside the array) nor runs out of fuel, and yields len(text)+1 attributes *)
Theorem compute_attrs_total : forall text,
  exists attrs, compute_attrs text = Ok attrs /\ length attrs = S (length text).
Proof. exact compute_attrs_total_lemma. Qed.
Print Assumptions compute_attrs_total.

(* grapheme cluster boundaries are exactly those of UAX #29 (GB1–GB999), for every string over the library's
   character classes (obs_wf_g: pictographic runes have no grapheme class; CR/LF are their classes) *)
Theorem grapheme_attrs_eq_spec : forall text,
  forallb obs_wf_g text = true ->
  exists attrs, compute_attrs text = Ok attrs /\ map a_grapheme attrs = gb_spec text.
Proof. exact grapheme_lemma. Qed.
Print Assumptions grapheme_attrs_eq_spec.

(* line break opportunities and mandatory breaks are exactly those of UAX #14 (LB1–LB31 with the LB25 tailoring of
   Example 7), for every string over the library's classes (since the repair of F3 no pattern is excluded) *)
Theorem line_attrs_eq_spec : forall text,
  forallb obs_wf_l text = true ->
  exists attrs, compute_attrs text = Ok attrs /\
                map (fun a => (a_line a, a_mandatory a)) attrs = map flags_of (lb_spec text).
Proof. exact line_lemma. Qed.
Print Assumptions line_attrs_eq_spec.

(* word boundaries are exactly those of UAX #29 (WB1–WB999 over the library's merged classes), for every string:
   the single left-to-right pass with its write-back (WB6, WB7b, WB12 amend the boundary before the previous
   significant rune) equals the rule table that looks ahead past Extend|Format|ZWJ *)
Theorem word_attrs_eq_spec : forall text,
  forallb obs_wf_w text = true ->
  exists attrs, compute_attrs text = Ok attrs /\ map a_word attrs = wb_spec text.
Proof. exact word_lemma. Qed.
Print Assumptions word_attrs_eq_spec.

(* results do not depend on what the Segmenter object processed before *)
Theorem init_history_independent : forall s paragraph, seg_init s paragraph = seg_init seg_zero paragraph.
Proof. exact seg_init_fresh. Qed.
Print Assumptions init_history_independent.

(* iterating yields consecutive non-empty segments that cover the input, each ending at a flagged position
   (line and grapheme iterators; any flag) *)
Theorem iterators_partition : forall s0 text s f,
  seg_init s0 text = Ok s -> chain f s 0 (segments f s (S (length (sg_text s))) 0).
Proof. exact iterators_lemma. Qed.
Print Assumptions iterators_partition.

(* the WordIterator yields exactly the UAX #29 word segments whose first rune is in the library's Word table
   (the repaired iterator: adjacent words are all reported) *)
Theorem word_iterator_eq_spec : forall s0 text s,
  forallb obs_wf_w text = true -> seg_init s0 text = Ok s -> word_segments s = uax29_words text.
Proof. exact word_iterator_lemma. Qed.
Print Assumptions word_iterator_eq_spec.

(* non-vacuity: a pictographic ZWJ sequence with a regional-indicator pair meets the hypotheses *)
Example wf_example :
  let pic := mkObs LB_ID false false true true false GB_None WB_None false false false false false in
  let zwj := mkObs LB_ZWJ false false false false true GB_ZWJ WB_ExtendFormat false false true false false in
  let ri := mkObs LB_RI false false false false false GB_RI WB_RI false false false false false in
  forallb obs_wf_g [pic; zwj; pic; ri; ri] = true /\ gb_spec [pic; zwj; pic; ri; ri] = [true; false; false; true; false; true].
Proof. split; reflexivity. Qed.

Example word_example :
  let al := mkObs LB_AL false false false false false GB_None WB_ALetter false false false false true in
  let colon := mkObs LB_IS false false false false false GB_None WB_MidLetter false false false false false in
  let cm := mkObs LB_CM true false false false false GB_Extend WB_ExtendFormat false false false false false in
  let sp := mkObs LB_SP false false false false false GB_None WB_WSegSpace false false false false false in
  let t := [al; colon; cm; al; sp; colon; al] in
  forallb obs_wf_w t = true /\ wb_spec t = [true; false; false; false; true; true; true; true].
Proof. split; reflexivity. Qed.

Example line_example :
  let al := mkObs LB_AL false false false false false GB_None WB_ALetter false false false false true in
  let sp := mkObs LB_SP false false false false false GB_None WB_WSegSpace false false false false false in
  let cm := mkObs LB_CM true false false false false GB_Extend WB_ExtendFormat false false false false false in
  let lf := mkObs LB_LF false false false false false GB_LF WB_NewlineCRLF true false false false false in
  let t := [al; cm; sp; cm; al; lf; al] in
  forallb obs_wf_l t = true
  /\ lb_spec t = [Prohibited; Prohibited; Prohibited; Allowed; Prohibited; Prohibited; Mandatory; Mandatory].
Proof. repeat split; reflexivity. Qed.


(* ================================================================================================================ *)
(* TABLE THEOREMS.  The hypotheses obs_wf_g / obs_wf_l / obs_wf_w above are facts about the library's Unicode tables.
   `obs_of_rune` (Model/ObsOfRune.v) computes the observation of a rune from the tables REGENERATED on every run
   (Gen/UnicodeTables.v) through the lookup models of C20, as the Go driver computes it from the library (tied by the
   correspondence check on every rune of every case).  `is_rune r` is -2^31 <= r < 2^31 (every Go rune, hence every code
   point 0..0x10FFFF).  Proved by kernel computation on the RANGE tables (disjointness after sorting all ranges,
   expanded intervals of the one-rune classes, class positions), lifted to all runes by lemmas; no enumeration of
   code points. *)

(* no lookup of the observation fails (unicode.Is' bisection never runs out of fuel): the default of obs_of_rune is never read *)
Theorem obs_of_rune_total : forall r, is_rune r -> obs_of_rune_res r = Ok (obs_of_rune r).
Proof. exact obs_of_rune_total_lemma. Qed.
Print Assumptions obs_of_rune_total.

(* Extended_Pictographic is disjoint from every grapheme break class; the CR and LF grapheme classes are exactly
   U+000D and U+000A *)
Theorem obs_of_rune_wf_g : forall r, is_rune r -> obs_wf_g (obs_of_rune r) = true.
Proof. exact obs_of_rune_wf_g_lemma. Qed.
Print Assumptions obs_of_rune_wf_g.

(* the runes of the table BreakZWJ are exactly those whose line class is ZWJ; the line class LF is exactly U+000A *)
Theorem obs_of_rune_wf_l : forall r, is_rune r -> obs_wf_l (obs_of_rune r) = true.
Proof. exact obs_of_rune_wf_l_lemma. Qed.
Print Assumptions obs_of_rune_wf_l.

(* U+000D and U+000A are in the word class NewlineCRLF, U+200D in ExtendFormat *)
Theorem obs_of_rune_wf_w : forall r, is_rune r -> obs_wf_w (obs_of_rune r) = true.
Proof. exact obs_of_rune_wf_w_lemma. Qed.
Print Assumptions obs_of_rune_wf_w.

(* the two sentinels of the segmenter loop (cursor.r = 0 before the text, U+2029 after it) observe as the model assumes *)
Theorem obs_of_rune_sentinels : obs_of_rune 0 = obs_nul /\ obs_of_rune 0x2029 = obs_psep.
Proof. exact obs_of_rune_sentinels_lemma. Qed.
Print Assumptions obs_of_rune_sentinels.

(* what the flags of an observation mean: memberships (Spec/Unicode.v `mem`: linear scan with strides) in the
   regenerated tables; BreakZWJ holds U+200D only; `unassigned` = in no general category table *)
Theorem obs_of_rune_flags : forall r, is_rune r ->
  o_pic (obs_of_rune r) = mem ut_Extended_Pictographic r /\
  o_wide (obs_of_rune r) = mem ut_LargeEastAsian r /\
  o_word (obs_of_rune r) = mem ut_Word r /\
  o_zwjtab (obs_of_rune r) = (r =? 0x200D) /\
  o_mnmc (obs_of_rune r) = (mem gc_Mn r || mem gc_Mc r) /\
  (o_cn (obs_of_rune r) = true <-> forall p : nat * rtab, In p categories_order -> mem (snd p) r = false).
Proof. exact obs_of_rune_flags_lemma. Qed.
Print Assumptions obs_of_rune_flags.

(* the segmenter theorems over RUNE strings, with no table hypothesis left *)
Theorem grapheme_attrs_eq_spec_runes : forall runes, Forall is_rune runes ->
  exists attrs, compute_attrs (map obs_of_rune runes) = Ok attrs /\
                map a_grapheme attrs = gb_spec (map obs_of_rune runes).
Proof. exact grapheme_runes_lemma. Qed.
Print Assumptions grapheme_attrs_eq_spec_runes.

Theorem word_attrs_eq_spec_runes : forall runes, Forall is_rune runes ->
  exists attrs, compute_attrs (map obs_of_rune runes) = Ok attrs /\
                map a_word attrs = wb_spec (map obs_of_rune runes).
Proof. exact word_runes_lemma. Qed.
Print Assumptions word_attrs_eq_spec_runes.

Theorem line_attrs_eq_spec_runes : forall runes, Forall is_rune runes ->
  exists attrs, compute_attrs (map obs_of_rune runes) = Ok attrs /\
                map (fun a => (a_line a, a_mandatory a)) attrs = map flags_of (lb_spec (map obs_of_rune runes)).
Proof. exact line_runes_lemma. Qed.
Print Assumptions line_attrs_eq_spec_runes.

(* non-vacuity: an emoji ZWJ sequence followed by CR LF, as code points *)
Example runes_example :
  let t := [0x1F468; 0x200D; 0x1F469; 0x0D; 0x0A; 0x61; 0x301] in
  Forall is_rune t
  /\ gb_spec (map obs_of_rune t) = [true; false; false; true; false; true; false; true]
  /\ wb_spec (map obs_of_rune t) = [true; false; false; true; false; true; false; true]
  /\ lb_spec (map obs_of_rune t) = [Prohibited; Prohibited; Prohibited; Prohibited; Prohibited; Mandatory; Prohibited; Mandatory].
Proof. split; [repeat constructor; unfold is_rune; lia|]. vm_compute. repeat split; reflexivity. Qed.
