(* C06 — Grapheme, word and line boundaries follow UAX #29 / UAX #14 for every string.
   Property theorems only.  Model: Model/Segmenter.v (tied to segmenter/*.go by the correspondence check);
   specifications: Spec/UAX29.v, Spec/UAX14.v. *)
From TV Require Import Model.Segmenter Spec.UAX29 Spec.UAX14 Proofs.SegCommon Proofs.SegG Proofs.SegIter.
Open Scope Z_scope.

(* Init is total: for every rune string the attribute computation neither panics (the write-back index of
   WB6/WB7b/WB12 is always inside the array) nor runs out of fuel, and yields len(text)+1 attributes *)
Theorem compute_attrs_total : forall text,
  exists attrs, compute_attrs text = Ok attrs /\ length attrs = S (length text).
Proof. exact compute_attrs_total_lemma. Qed.
Print Assumptions compute_attrs_total.

(* grapheme cluster boundaries are exactly those of UAX #29 (GB1–GB999), for every string over the library's
   character classes (obs_wf_g: pictographic runes have no grapheme class; CR/LF are their classes) *)
Theorem grapheme_attrs_eq_spec : forall text,
  forallb obs_wf_g text = true ->
  exists attrs, compute_attrs text = Ok attrs /\ map a_grapheme attrs = gb_spec text.
Proof. exact grapheme_lemma. Qed.
Print Assumptions grapheme_attrs_eq_spec.

(* results do not depend on what the Segmenter object processed before *)
Theorem init_history_independent : forall s paragraph, seg_init s paragraph = seg_init seg_zero paragraph.
Proof. exact seg_init_fresh. Qed.
Print Assumptions init_history_independent.

(* iterating yields consecutive non-empty segments that cover the input, each ending at a flagged position
   (line and grapheme iterators; any flag) *)
Theorem iterators_partition : forall s0 text s f,
  seg_init s0 text = Ok s -> chain f s 0 (segments f s (S (length (sg_text s))) 0).
Proof. exact iterators_lemma. Qed.
Print Assumptions iterators_partition.

(* non-vacuity: a pictographic ZWJ sequence with a regional-indicator pair meets the hypotheses *)
Example wf_example :
  let pic := mkObs LB_ID false false true true false GB_None WB_None false false false false false in
  let zwj := mkObs LB_ZWJ false false false false true GB_ZWJ WB_ExtendFormat false false true false false in
  let ri := mkObs LB_RI false false false false false GB_RI WB_RI false false false false false in
  forallb obs_wf_g [pic; zwj; pic; ri; ri] = true /\ gb_spec [pic; zwj; pic; ri; ri] = [true; false; false; true; false; true].
Proof. split; reflexivity. Qed.
