(* C19 — Written font files read back unchanged.  Property theorems only. *)
From TV Require Import Model.Sfnt Spec.Sfnt Proofs.Sfnt Proofs.SfntRewrite.

(* per-table checksums: the writer's checksum is the OpenType checksum of the zero-padded data *)
Theorem checksum_correct : forall l, checksum l = checksum_spec l.
Proof. exact checksum_eq_spec. Qed.
Print Assumptions checksum_correct.

(* the written file is a structurally valid sfnt: header search fields, directory order, per-table
   checksums, offsets, lengths and bodies (Spec.valid_sfnt), for every table list within the format's limits *)
Theorem write_structurally_valid : forall ts, wf_tables ts -> valid_sfnt (write_ttf ts) (pairs_of ts) = true.
Proof. exact write_valid_lemma. Qed.
Print Assumptions write_structurally_valid.

(* the loader returns the tables of ANY structurally valid file (not only of files we wrote) *)
Theorem reader_returns_tables_of_valid_file : forall file ps,
  valid_sfnt file ps = true -> ssorted (map fst ps) -> zlen ps < 65536 ->
  exists ld, new_loader file = Ok ld /\ ld_type ld = 65536 /\ loader_tables ld = map fst ps
             /\ forall tag content, In (tag, content) ps -> raw_table file ld tag = Ok content.
Proof. exact reader_on_valid. Qed.
Print Assumptions reader_returns_tables_of_valid_file.

(* loading what was written returns exactly the same tags and byte contents *)
Theorem write_read_roundtrip : forall ts,
  wf_tables ts -> ssorted (map t_tag ts) ->
  exists ld, new_loader (write_ttf ts) = Ok ld /\ ld_type ld = 65536 /\ loader_tables ld = map t_tag ts
             /\ forall t, In t ts -> raw_table (write_ttf ts) ld (t_tag t) = Ok (t_content t).
Proof. exact roundtrip_lemma. Qed.
Print Assumptions write_read_roundtrip.

(* writing does not modify the caller's buffers (backing arrays with their spare capacity).  True by
   construction of the memory view of the repaired writer; what ties it to the code is the
   correspondence check, which observes the bytes behind every input slice after the call. *)
Theorem write_preserves_inputs : forall ts, snd (write_ttf_mem ts) = map snd ts.
Proof. exact write_mem_preserves. Qed.
Print Assumptions write_preserves_inputs.

(* what a client reads back (every directory tag with its RawTable bytes: reread) is the table list it wrote,
   whole and in order - the round trip as one equation on the table list *)
Theorem reread_is_identity : forall ts,
  wf_tables ts -> ssorted (map t_tag ts) ->
  exists ld, new_loader (write_ttf ts) = Ok ld /\ reread (write_ttf ts) ld = ts.
Proof. exact reread_written. Qed.
Print Assumptions reread_is_identity.

(* hence writing what was read back reproduces the file byte for byte: write . read . write = write *)
Theorem rewrite_is_byte_identical : forall ts,
  wf_tables ts -> ssorted (map t_tag ts) ->
  exists ld, new_loader (write_ttf ts) = Ok ld /\ write_ttf (reread (write_ttf ts) ld) = write_ttf ts.
Proof. exact rewrite_identical. Qed.
Print Assumptions rewrite_is_byte_identical.

(* and the writer is injective: two different (well-formed, sorted) table lists never produce the same file *)
Theorem write_injective : forall ts ts',
  wf_tables ts -> ssorted (map t_tag ts) -> wf_tables ts' -> ssorted (map t_tag ts') ->
  write_ttf ts = write_ttf ts' -> ts = ts'.
Proof.
  intros ts ts' W S W' S' E.
  destruct (reread_is_identity ts W S) as (ld & L & R). destruct (reread_is_identity ts' W' S') as (ld' & L' & R').
  rewrite <- E in L', R'. rewrite L in L'. inversion L'; subst ld'. rewrite <- R, <- R'. reflexivity.
Qed.
Print Assumptions write_injective.

(* non-vacuity: a table list with lengths 5 and 0 meets the hypotheses *)
Example wf_example :
  let ts := [mkTable 1633837924 [1; 2; 3; 4; 5]; mkTable 1633837925 []] in
  wf_tables ts /\ ssorted (map t_tag ts).
Proof.
  cbv zeta. split; [|cbn; lia].
  unfold wf_tables. split; [|split].
  - repeat constructor; cbn; lia.
  - cbn; lia.
  - cbn; lia.
Qed.

(* the read-back list of a concrete written file, computed: two tables, one of them empty *)
Example reread_example :
  let ts := [mkTable 1633837924 [1; 2; 3; 4; 5]; mkTable 1633837925 []] in
  match new_loader (write_ttf ts) with Ok ld => reread (write_ttf ts) ld = ts | _ => False end.
Proof. vm_compute. reflexivity. Qed.
