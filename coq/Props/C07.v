(* C07 — Itemization partitions the text into uniform runs.  Property theorems only.
   e : env  = the text as observation records (script, paired-delimiter index, ignoreFaceChange, orientation per script,
              resolved face per hint key), the x/text bidi result for the range, the language tables;
   s        = ANY state of the Segmenter (buffers, delimiter stack) the call starts from;
   x        = the Input (range, direction, face, language ...).
   pre e x  = 0 <= RunStart < RunEnd <= len(Text), and the bidi run ends are strictly increasing up to the range length. *)
From TV Require Import Lib.Bytes Model.Itemize Spec.Itemize Proofs.Itemize Model.ItemizeBidi Spec.ItemizeBidi Proofs.ItemizeBidi.

(* runs are consecutive, non-empty, cover [RunStart, RunEnd) exactly; Text, Size, FontFeatures untouched; no panic *)
Theorem split_partition : forall e s x, pre e x ->
  exists runs, split_runs e s x = Ok runs /\ partition_ok x runs = true.
Proof. exact partition_lemma. Qed.
Print Assumptions split_partition.

(* the result does not depend on the state left by earlier uses: for every reuse history, and in fact every state *)
Theorem split_history_independent : forall h e x s,
  run_history h seg_zero = Ok s -> split_runs e s x = split_runs e seg_zero x.
Proof. exact split_history_lemma. Qed.
Print Assumptions split_history_independent.

Theorem split_state_independent : forall e s x, split_runs e s x = split_runs e seg_zero x.
Proof. exact state_independent_lemma. Qed.
Print Assumptions split_state_independent.

(* a history of valid calls never fails *)
Theorem history_total : forall h,
  (forall e x, In (e, x) h -> pre e x \/ i_end x <= i_start x) -> exists s, run_history h seg_zero = Ok s.
Proof. exact history_total_lemma. Qed.
Print Assumptions history_total.

(* every run lies inside one run of the bidi result and reports that run's direction *)
Theorem bidi_uniform : forall e s x, pre e x ->
  exists runs, split_runs e s x = Ok runs /\ bidi_ok (e_bidi e) x runs = true.
Proof. exact bidi_lemma. Qed.
Print Assumptions bidi_uniform.

(* (a) every rune with a script of its own (neither Common nor Inherited; Unknown included) has the script of its run;
   (b) a closing paired delimiter matched by the stack discipline of UAX #24 (over the whole range: the stack survives
       from one bidi run to the next) has the script of its opening delimiter's run when both lie in the same bidi run,
       and the script of the first run of its own bidi run when the pair spans bidi runs;
   (c) a run whose script differs from the script of the rune before it starts a bidi run, or starts at a strong rune,
       or starts at a MATCHED closing delimiter: neutral characters never open a script run. *)
Theorem script_uniform : forall e s x, pre e x ->
  exists runs, split_runs e s x = Ok runs /\ script_ok (e_text e) (e_bidi e) x runs = true.
Proof. exact script_lemma. Qed.
Print Assumptions script_uniform.

(* vertical text without a fixed orientation: every run is vertical with an orientation that all its runes share
   (under the run's script); otherwise the axis and orientation bits are the caller's *)
Theorem orientation_uniform : forall e s x, pre e x ->
  exists runs, split_runs e s x = Ok runs /\ orient_ok (e_text e) x runs = true.
Proof. exact orient_lemma. Qed.
Print Assumptions orientation_uniform.

(* every rune with ignoreFaceChange = false (resolving to a non-nil face) resolves to the face of its run, under the run's
   script as hint; a run has a nil face only if one of its runes resolves to nil *)
Theorem face_uniform : forall e s x, pre e x ->
  exists runs, split_runs e s x = Ok runs /\ face_ok (e_text e) (e_hint e) runs = true.
Proof. exact face_lemma. Qed.
Print Assumptions face_uniform.

(* language: untouched when unknown to the library; otherwise the input language if it uses the run's script, else
   ScriptToLang[script] if present, else the input language *)
Theorem language_compatible : forall e s x, pre e x ->
  exists runs, split_runs e s x = Ok runs /\ lang_ok (e_langid e) (e_use e) (e_stl e) x runs = true.
Proof. exact lang_lemma. Qed.
Print Assumptions language_compatible.

(* all of the above for the same result: the whole specification that the oracle evaluates on the implementation *)
Theorem itemization_sound : forall e s x, pre e x ->
  exists runs, split_runs e s x = Ok runs /\ check_itemization e x runs = true.
Proof. exact all_lemma. Qed.
Print Assumptions itemization_sound.

(* outside "non-empty runs": the empty (or reversed) range returns the input as one run, Script = Common, language enforced *)
Theorem split_empty_range : forall e s x, i_end x <= i_start x ->
  exists runs, split_runs e s x = Ok runs /\ empty_ok e x runs = true.
Proof. exact empty_range_lemma. Qed.
Print Assumptions split_empty_range.

(* non-vacuity: "a(א) " in an LTR paragraph, fontmap Latin -> 1, Hebrew -> 3, language "en" (id 59) *)
Definition ex_latn := 1281455214.
Definition ex_hebr := 1214603890.
Definition ex_env : env :=
  mkEnv [mkObs ex_latn (-1) false [] [(-1, 1)]; mkObs SC_COMMON 0 false [] [(-1, 1)]; mkObs ex_hebr (-1) false [] [(-1, 3)];
         mkObs SC_COMMON 1 false [] [(-1, 1)]; mkObs SC_COMMON (-1) true [] [(-1, 1)]]
        (Some [(1, false); (2, true); (4, false)]) (Some 59)
        (fun s => negb (s =? ex_hebr)) (fun s => if s =? ex_hebr then 85 else 0) false.
Definition ex_in : input := mkIn 1 0 5 (mkDir false false false false) 0 1 640 0 (-1).

Example ex_pre : pre ex_env ex_in.
Proof. split; reflexivity. Qed.
Example ex_runs :
  exists r1 r2 r3, split_runs ex_env seg_zero ex_in = Ok [r1; r2; r3]
    /\ (i_end r1, i_script r1, i_face r1, i_lang r1) = (2, ex_latn, 1, 59)
    /\ (i_end r2, i_script r2, i_face r2, i_lang r2, d_prog (i_dir r2)) = (3, ex_hebr, 3, 85, true)
    (* the closing bracket is in a later bidi run than its opening bracket: the stack entry was re-attributed to Hebrew *)
    /\ (i_end r3, i_script r3, d_prog (i_dir r3)) = (5, ex_hebr, false)
    /\ check_itemization ex_env ex_in [r1; r2; r3] = true.
Proof. do 3 eexists. split; [vm_compute; reflexivity|]. repeat split; vm_compute; reflexivity. Qed.
(* the pair found by the specification's stack in that text: closing bracket 3, opening bracket 1 (another bidi run) *)
Example ex_matches : delim_matches (e_text ex_env) ex_in = [(3, 1)].
Proof. vm_compute. reflexivity. Qed.
(* "a(א)b" as one bidi run: the matched closing bracket returns to the script of its opening bracket's run (Latin) and
   is the only reason for the third run to start there (statements (b) and (c) of script_ok are not vacuous) *)
Definition ex_env2 : env :=
  mkEnv [mkObs ex_latn (-1) false [] [(-1, 1)]; mkObs SC_COMMON 0 false [] [(-1, 1)]; mkObs ex_hebr (-1) false [] [(-1, 1)];
         mkObs SC_COMMON 1 false [] [(-1, 1)]; mkObs ex_latn (-1) false [] [(-1, 1)]]
        None None (fun _ => true) (fun _ => 0) false.
Example ex_runs2 :
  exists r1 r2 r3, split_runs ex_env2 seg_zero ex_in = Ok [r1; r2; r3]
    /\ (i_end r1, i_script r1) = (2, ex_latn) /\ (i_end r2, i_script r2) = (3, ex_hebr) /\ (i_end r3, i_script r3) = (5, ex_latn)
    /\ delim_matches (e_text ex_env2) ex_in = [(3, 1)]
    /\ script_ok (e_text ex_env2) None ex_in [r1; r2; r3] = true
    (* without the pair, the third run would have no admissible reason to start at the bracket *)
    /\ neutrals_ok (e_text ex_env2) (intervals_of None ex_in) [] [r1; r2; r3] = false.
Proof. do 3 eexists. split; [vm_compute; reflexivity|]. repeat split; vm_compute; reflexivity. Qed.
Example ex_empty : i_end (set_end ex_in 0) <= i_start (set_end ex_in 0).
Proof. cbn. lia. Qed.

(* ======================================================================================================================
   From the raw text: splitByBidi itself (paragraph loop, isParagraphSeparator, splitParagraphByBidi, appendBidiRun) is
   part of the model (Model/ItemizeBidi.v).  te : tenv = the runes of Input.Text, golang.org/x/text/unicode/bidi as ANY
   function xbidi from (string of one paragraph, default direction) to its run list, and the observation records.
   tpre te x = 0 <= RunStart < RunEnd <= len(Text) = number of observation records, and xbidi_wf: on each paragraph of
   the range the x/text runs (if any) have strictly increasing ends, the last one at the last rune of the paragraph
   (evaluated against the real x/text on every case of the run). *)

(* the paragraphs of the range, exactly: they follow each other from RunStart to RunEnd, none is empty, none has a
   paragraph separator (bidi class B: LF CR FS GS RS NEL PS) before its last rune, and each ends at RunEnd or with a
   separator - so CR LF is two paragraphs, the second one the LF alone, and a separator ending the range opens no
   further paragraph *)
Theorem paragraph_boundaries : forall rn x, i_start x <= i_end x ->
  pchain (i_start x) (i_end x) (paragraphs_of rn x) /\ Forall (para_shape rn (i_end x)) (paragraphs_of rn x).
Proof. exact paragraph_boundaries_lemma. Qed.
Print Assumptions paragraph_boundaries.

(* ... and which pairs are paragraphs: [a, b) is one iff a is RunStart or the position behind a separator, and b is where
   the scan `for RunEnd < text.RunEnd && !isParagraphSeparator(Text[RunEnd-1])` started at a + 1 stops *)
Theorem paragraph_membership : forall rn x a b, i_start x <= i_end x ->
  (In (a, b) (paragraphs_of rn x) <->
   i_start x <= a < i_end x /\ (a = i_start x \/ is_para_sep (znth 0 rn (a - 1)) = true) /\ b = para_end rn a (i_end x)).
Proof. exact paragraph_membership_lemma. Qed.
Print Assumptions paragraph_membership.

(* splitByBidi never panics nor runs out of fuel; its runs are consecutive, non-empty and cover the range; the run list
   it defines satisfies bidi_wf - the hypothesis `pre` of the theorems above is discharged *)
Theorem bidi_runs_wf : forall te x, tpre te x ->
  exists b, split_by_bidi_text (t_xbidi te) (t_runes te) x = Ok b /\ chainb (i_start x) (i_end x) b = true
            /\ text_bidi (t_xbidi te) (t_runes te) x = Some (flat_of x b)
            /\ bidi_wf (i_end x - i_start x) (Some (flat_of x b)) = true.
Proof. exact bidi_runs_wf_lemma. Qed.
Print Assumptions bidi_runs_wf.

(* appendBidiRun: neighbouring runs of splitByBidi never have the same direction, also across paragraphs *)
Theorem bidi_runs_alternate : forall te x, tpre te x ->
  exists b, split_by_bidi_text (t_xbidi te) (t_runes te) x = Ok b /\ alternating b = true.
Proof. exact bidi_alternate_lemma. Qed.
Print Assumptions bidi_runs_alternate.

(* Split from the text is Split of Model/Itemize.v on the run list splitByBidi computes, and that list is well formed *)
Theorem split_text_refines : forall te s x, tpre te x ->
  pre (env_of_text te x) x /\ split_text te s x = split (env_of_text te x) s x.
Proof. exact split_text_refines_lemma. Qed.
Print Assumptions split_text_refines.

(* END TO END, from the runes and the paragraph direction: the whole specification (partition, bidi, script,
   orientation, face, language) holds of the runs Split returns, and every rune of every paragraph lies in a run
   reporting the direction x/text gave to that rune within its own paragraph *)
Theorem itemization_sound_text : forall te s x, tpre te x ->
  exists runs, split_text_runs te s x = Ok runs /\ check_itemization (env_of_text te x) x runs = true
               /\ parity_text_ok (t_xbidi te) (t_runes te) x runs = true.
Proof. exact sound_text_lemma. Qed.
Print Assumptions itemization_sound_text.

(* paragraphs are analysed independently (defect F26 and its repair): when two calls - any two texts, ranges,
   Segmenter states, fontmaps, languages; the same x/text and paragraph direction - both contain a paragraph with the
   same string, the runes of that paragraph are reported with the same directions in both results, whatever the other
   paragraphs contain and wherever the paragraph lies *)
Theorem paragraphs_independent : forall xb e1 e2 rn1 rn2 s1 s2 x1 x2 out1 out2 a1 b1 a2 b2 j,
  tpre (mkTenv xb rn1 e1) x1 -> tpre (mkTenv xb rn2 e2) x2 -> d_prog (i_dir x1) = d_prog (i_dir x2) ->
  split_text_runs (mkTenv xb rn1 e1) s1 x1 = Ok out1 -> split_text_runs (mkTenv xb rn2 e2) s2 x2 = Ok out2 ->
  In (a1, b1) (paragraphs_of rn1 x1) -> In (a2, b2) (paragraphs_of rn2 x2) ->
  para_string rn1 a1 b1 = para_string rn2 a2 b2 ->
  0 <= j < b1 - a1 -> 0 <= j < b2 - a2 ->
  dir_at out1 (a1 + j) = dir_at out2 (a2 + j) /\ dir_at out1 (a1 + j) <> None.
Proof. exact paragraphs_independent_lemma. Qed.
Print Assumptions paragraphs_independent.

(* the result does not depend on the Segmenter's state or history (no hypothesis: also for panicking calls) *)
Theorem split_text_state_independent : forall te s x, split_text_runs te s x = split_text_runs te seg_zero x.
Proof. exact text_state_independent_lemma. Qed.
Print Assumptions split_text_state_independent.

Theorem split_text_history_independent : forall h te x s,
  run_history_text h seg_zero = Ok s -> split_text_runs te s x = split_text_runs te seg_zero x.
Proof. exact text_history_lemma. Qed.
Print Assumptions split_text_history_independent.

Theorem text_history_total : forall h,
  (forall te x, In (te, x) h -> tpre te x \/ i_end x <= i_start x) -> exists s, run_history_text h seg_zero = Ok s.
Proof. exact text_history_total_lemma. Qed.
Print Assumptions text_history_total.

Theorem split_text_empty_range : forall te s x, i_end x <= i_start x ->
  exists runs, split_text_runs te s x = Ok runs /\ empty_ok (t_env te) x runs = true.
Proof. exact text_empty_range_lemma. Qed.
Print Assumptions split_text_empty_range.

(* non-vacuity: the F26 witness "a\nא", and "א\r\nא" with its lone LF *)
Definition ex_xb (p : list Z) (def : bool) : option (list (Z * bool)) :=
  if list_Z_eqb p [97; 10] then Some [(1, false)]
  else if list_Z_eqb p [1488] then Some [(0, true)]
  else if list_Z_eqb p [1488; 13] then Some [(1, true)]
  else None.                                  (* "\n" alone: no run *)
Definition ex_o (sc : Z) : obs := mkObs sc (-1) false [] [(-1, 1)].
Definition ex_te1 : tenv :=
  mkTenv ex_xb [97; 10; 1488] (mkEnv [ex_o ex_latn; ex_o SC_COMMON; ex_o ex_hebr] None None (fun _ => true) (fun _ => 0) false).
Definition ex_te2 : tenv :=
  mkTenv ex_xb [1488; 13; 10; 1488]
         (mkEnv [ex_o ex_hebr; ex_o SC_COMMON; ex_o SC_COMMON; ex_o ex_hebr] None None (fun _ => true) (fun _ => 0) false).
Definition ex_in3 : input := mkIn 1 0 3 (mkDir false false false false) 0 1 640 0 (-1).
Definition ex_in4 : input := mkIn 1 0 4 (mkDir false false false false) 0 1 640 0 (-1).
Example ex_tpre1 : tpre ex_te1 ex_in3. Proof. split; reflexivity. Qed.
Example ex_tpre2 : tpre ex_te2 ex_in4. Proof. split; reflexivity. Qed.
Example ex_paragraphs : paragraphs_of (t_runes ex_te1) ex_in3 = [(0, 2); (2, 3)]
  /\ paragraphs_of (t_runes ex_te2) ex_in4 = [(0, 2); (2, 3); (3, 4)].
Proof. split; reflexivity. Qed.
(* "a\nא": two runs, the letter alef right-to-left; "א\r\nא": RTL, the LF alone left-to-right (no run from x/text: the
   caller's direction), RTL *)
Example ex_bidi_runs :
  text_bidi ex_xb (t_runes ex_te1) ex_in3 = Some [(1, false); (2, true)]
  /\ text_bidi ex_xb (t_runes ex_te2) ex_in4 = Some [(1, true); (2, false); (3, true)].
Proof. split; reflexivity. Qed.
Example ex_text_runs :
  exists r1 r2, split_text_runs ex_te1 seg_zero ex_in3 = Ok [r1; r2]
    /\ (i_end r1, d_prog (i_dir r1), i_end r2, d_prog (i_dir r2)) = (2, false, 3, true)
    /\ parity_text_ok ex_xb (t_runes ex_te1) ex_in3 [r1; r2] = true.
Proof. do 2 eexists. split; [vm_compute; reflexivity|]. split; vm_compute; reflexivity. Qed.
(* the paragraph "א" is the second of the first text and the third of the second *)
Example ex_independent :
  In (2, 3) (paragraphs_of (t_runes ex_te1) ex_in3) /\ In (3, 4) (paragraphs_of (t_runes ex_te2) ex_in4)
  /\ para_string (t_runes ex_te1) 2 3 = para_string (t_runes ex_te2) 3 4
  /\ exists o1 o2, split_text_runs ex_te1 seg_zero ex_in3 = Ok o1 /\ split_text_runs ex_te2 seg_zero ex_in4 = Ok o2
       /\ dir_at o1 2 = Some true /\ dir_at o2 3 = Some true.
Proof.
  split; [vm_compute; tauto|]. split; [vm_compute; tauto|]. split; [reflexivity|].
  do 2 eexists. split; [vm_compute; reflexivity|]. split; [vm_compute; reflexivity|]. split; vm_compute; reflexivity.
Qed.
Example ex_text_history : exists s, run_history_text [(ex_te1, ex_in3); (ex_te2, ex_in4)] seg_zero = Ok s.
Proof. eexists. vm_compute. reflexivity. Qed.
Example ex_text_empty : i_end (set_end ex_in3 0) <= i_start (set_end ex_in3 0).
Proof. cbn. lia. Qed.
