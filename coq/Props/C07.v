(* C07 — Itemization partitions the text into uniform runs.  Property theorems only.
   e : env  = the text as observation records (script, paired-delimiter index, ignoreFaceChange, orientation per script,
              resolved face per hint key), the x/text bidi result for the range, the language tables;
   s        = ANY state of the Segmenter (buffers, delimiter stack) the call starts from;
   x        = the Input (range, direction, face, language ...).
   pre e x  = 0 <= RunStart < RunEnd <= len(Text), and the bidi run ends are strictly increasing up to the range length. *)
From TV Require Import Model.Itemize Spec.Itemize Proofs.Itemize.

(* runs are consecutive, non-empty, cover [RunStart, RunEnd) exactly; Text, Size, FontFeatures untouched; no panic *)
Theorem split_partition : forall e s x, pre e x ->
  exists runs, split_runs e s x = Ok runs /\ partition_ok x runs = true.
Proof. exact partition_lemma. Qed.
Print Assumptions split_partition.

(* the result does not depend on the state left by earlier uses: for every reuse history, and in fact every state *)
Theorem split_history_independent : forall h e x s,
  run_history h seg_zero = Ok s -> split_runs e s x = split_runs e seg_zero x.
Proof. exact split_history_lemma. Qed.
Print Assumptions split_history_independent.

Theorem split_state_independent : forall e s x, split_runs e s x = split_runs e seg_zero x.
Proof. exact state_independent_lemma. Qed.
Print Assumptions split_state_independent.

(* a history of valid calls never fails *)
Theorem history_total : forall h,
  (forall e x, In (e, x) h -> pre e x \/ i_end x <= i_start x) -> exists s, run_history h seg_zero = Ok s.
Proof. exact history_total_lemma. Qed.
Print Assumptions history_total.

(* every run lies inside one run of the bidi result and reports that run's direction *)
Theorem bidi_uniform : forall e s x, pre e x ->
  exists runs, split_runs e s x = Ok runs /\ bidi_ok (e_bidi e) x runs = true.
Proof. exact bidi_lemma. Qed.
Print Assumptions bidi_uniform.

(* (a) every rune with a script of its own (neither Common nor Inherited; Unknown included) has the script of its run;
   (b) a closing paired delimiter matched by the stack discipline of UAX #24 (over the whole range: the stack survives
       from one bidi run to the next) has the script of its opening delimiter's run when both lie in the same bidi run,
       and the script of the first run of its own bidi run when the pair spans bidi runs;
   (c) a run whose script differs from the script of the rune before it starts a bidi run, or starts at a strong rune,
       or starts at a MATCHED closing delimiter: neutral characters never open a script run. *)
Theorem script_uniform : forall e s x, pre e x ->
  exists runs, split_runs e s x = Ok runs /\ script_ok (e_text e) (e_bidi e) x runs = true.
Proof. exact script_lemma. Qed.
Print Assumptions script_uniform.

(* vertical text without a fixed orientation: every run is vertical with an orientation that all its runes share
   (under the run's script); otherwise the axis and orientation bits are the caller's *)
Theorem orientation_uniform : forall e s x, pre e x ->
  exists runs, split_runs e s x = Ok runs /\ orient_ok (e_text e) x runs = true.
Proof. exact orient_lemma. Qed.
Print Assumptions orientation_uniform.

(* every rune with ignoreFaceChange = false (resolving to a non-nil face) resolves to the face of its run, under the run's
   script as hint; a run has a nil face only if one of its runes resolves to nil *)
Theorem face_uniform : forall e s x, pre e x ->
  exists runs, split_runs e s x = Ok runs /\ face_ok (e_text e) (e_hint e) runs = true.
Proof. exact face_lemma. Qed.
Print Assumptions face_uniform.

(* language: untouched when unknown to the library; otherwise the input language if it uses the run's script, else
   ScriptToLang[script] if present, else the input language *)
Theorem language_compatible : forall e s x, pre e x ->
  exists runs, split_runs e s x = Ok runs /\ lang_ok (e_langid e) (e_use e) (e_stl e) x runs = true.
Proof. exact lang_lemma. Qed.
Print Assumptions language_compatible.

(* all of the above for the same result: the whole specification that the oracle evaluates on the implementation *)
Theorem itemization_sound : forall e s x, pre e x ->
  exists runs, split_runs e s x = Ok runs /\ check_itemization e x runs = true.
Proof. exact all_lemma. Qed.
Print Assumptions itemization_sound.

(* outside "non-empty runs": the empty (or reversed) range returns the input as one run, Script = Common, language enforced *)
Theorem split_empty_range : forall e s x, i_end x <= i_start x ->
  exists runs, split_runs e s x = Ok runs /\ empty_ok e x runs = true.
Proof. exact empty_range_lemma. Qed.
Print Assumptions split_empty_range.

(* non-vacuity: "a(א) " in an LTR paragraph, fontmap Latin -> 1, Hebrew -> 3, language "en" (id 59) *)
Definition ex_latn := 1281455214.
Definition ex_hebr := 1214603890.
Definition ex_env : env :=
  mkEnv [mkObs ex_latn (-1) false [] [(-1, 1)]; mkObs SC_COMMON 0 false [] [(-1, 1)]; mkObs ex_hebr (-1) false [] [(-1, 3)];
         mkObs SC_COMMON 1 false [] [(-1, 1)]; mkObs SC_COMMON (-1) true [] [(-1, 1)]]
        (Some [(1, false); (2, true); (4, false)]) (Some 59)
        (fun s => negb (s =? ex_hebr)) (fun s => if s =? ex_hebr then 85 else 0) false.
Definition ex_in : input := mkIn 1 0 5 (mkDir false false false false) 0 1 640 0 (-1).

Example ex_pre : pre ex_env ex_in.
Proof. split; reflexivity. Qed.
Example ex_runs :
  exists r1 r2 r3, split_runs ex_env seg_zero ex_in = Ok [r1; r2; r3]
    /\ (i_end r1, i_script r1, i_face r1, i_lang r1) = (2, ex_latn, 1, 59)
    /\ (i_end r2, i_script r2, i_face r2, i_lang r2, d_prog (i_dir r2)) = (3, ex_hebr, 3, 85, true)
    (* the closing bracket is in a later bidi run than its opening bracket: the stack entry was re-attributed to Hebrew *)
    /\ (i_end r3, i_script r3, d_prog (i_dir r3)) = (5, ex_hebr, false)
    /\ check_itemization ex_env ex_in [r1; r2; r3] = true.
Proof. do 3 eexists. split; [vm_compute; reflexivity|]. repeat split; vm_compute; reflexivity. Qed.
(* the pair found by the specification's stack in that text: closing bracket 3, opening bracket 1 (another bidi run) *)
Example ex_matches : delim_matches (e_text ex_env) ex_in = [(3, 1)].
Proof. vm_compute. reflexivity. Qed.
(* "a(א)b" as one bidi run: the matched closing bracket returns to the script of its opening bracket's run (Latin) and
   is the only reason for the third run to start there (statements (b) and (c) of script_ok are not vacuous) *)
Definition ex_env2 : env :=
  mkEnv [mkObs ex_latn (-1) false [] [(-1, 1)]; mkObs SC_COMMON 0 false [] [(-1, 1)]; mkObs ex_hebr (-1) false [] [(-1, 1)];
         mkObs SC_COMMON 1 false [] [(-1, 1)]; mkObs ex_latn (-1) false [] [(-1, 1)]]
        None None (fun _ => true) (fun _ => 0) false.
Example ex_runs2 :
  exists r1 r2 r3, split_runs ex_env2 seg_zero ex_in = Ok [r1; r2; r3]
    /\ (i_end r1, i_script r1) = (2, ex_latn) /\ (i_end r2, i_script r2) = (3, ex_hebr) /\ (i_end r3, i_script r3) = (5, ex_latn)
    /\ delim_matches (e_text ex_env2) ex_in = [(3, 1)]
    /\ script_ok (e_text ex_env2) None ex_in [r1; r2; r3] = true
    (* without the pair, the third run would have no admissible reason to start at the bracket *)
    /\ neutrals_ok (e_text ex_env2) (intervals_of None ex_in) [] [r1; r2; r3] = false.
Proof. do 3 eexists. split; [vm_compute; reflexivity|]. repeat split; vm_compute; reflexivity. Qed.
Example ex_empty : i_end (set_end ex_in 0) <= i_start (set_end ex_in 0).
Proof. cbn. lia. Qed.
