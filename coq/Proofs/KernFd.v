(* Proofs for C09: the kerning pair look-ups (formats 0, 2, 3, 6) and the CFF FDSelect look-ups never index out of range
   and end within len + 1 iterations, for ALL table contents and ALL glyph ids. *)
From TV Require Import Model.Glyf Model.TableIndex Model.AatLookup Model.KernFd Proofs.Glyf Proofs.TableIndex Proofs.AatLookup.
From Coq Require Import ZifyBool.
Ltac Zify.zify_post_hook ::= Z.div_mod_to_equations.

(* ------------------------------------------------------------------------------------------------ *)
(* format 0 *)

Lemma np_kern0_loop recs key : forall fuel lo hi, 0 <= lo -> hi <= zlen recs -> hi - lo < Z.of_nat fuel ->
  no_panic (kern0_loop recs key lo hi fuel).
Proof.
  induction fuel as [|fuel IH]; intros lo hi Hlo Hhi Hf.
  - cbn [kern0_loop]. replace (negb (lo <? hi)) with true by lia. exact I.
  - cbn [kern0_loop]. destruct (negb (lo <? hi)) eqn:E; [exact I|].
    assert (Hm : lo <= lo + (hi - lo) / 2 < hi) by lia.
    rewrite index_checked_ok by lia. cbn [bind].
    destruct (key <? _); [apply IH; lia|]. destruct (_ <? key); [apply IH; lia|]. exact I.
Qed.
Lemma kern0_pair_total_lemma : forall recs l r, total (kern0_pair recs l r).
Proof. intros. apply no_panic_total. unfold kern0_pair. apply np_kern0_loop; unfold zlen; lia. Qed.

(* the value returned is 0 or the value of one of the records *)
Lemma kern0_loop_value recs key : forall fuel lo hi v, 0 <= lo -> hi <= zlen recs ->
  kern0_loop recs key lo hi fuel = Ok v -> v = 0 \/ exists e, In e recs /\ k_value e = v /\ record_key e = key.
Proof.
  induction fuel as [|fuel IH]; intros lo hi v Hlo Hhi H; cbn [kern0_loop] in H.
  - destruct (negb (lo <? hi)); [left; congruence|discriminate].
  - destruct (negb (lo <? hi)) eqn:E; [left; congruence|].
    assert (Hm : lo <= lo + (hi - lo) / 2 < hi) by lia.
    rewrite index_checked_ok in H by lia. cbn [bind] in H.
    destruct (key <? _) eqn:E1; [eapply IH; [| |exact H]; lia|].
    destruct (_ <? key) eqn:E2; [eapply IH; [| |exact H]; lia|].
    right. exists (znth dkrec recs (lo + (hi - lo) / 2)). split; [|split; [congruence|lia]].
    unfold znth. replace (_ <? 0) with false by lia. apply nth_In. unfold zlen in *. lia.
Qed.
Lemma kern0_pair_sound_lemma : forall recs l r v, kern0_pair recs l r = Ok v ->
  v = 0 \/ exists e, In e recs /\ k_value e = v /\ record_key e = pair_key l r.
Proof.
  intros recs l r v H. unfold kern0_pair in H.
  exact (kern0_loop_value recs (pair_key l r) _ 0 (zlen recs) v (Z.le_refl 0) (Z.le_refl _) H).
Qed.

(* ------------------------------------------------------------------------------------------------ *)
(* format 2 *)

Lemma wrap16_bounds x : 0 <= wrap16 x < 65536.
Proof. unfold wrap16. lia. Qed.

Lemma kern2_pair_total_lemma : forall k l r,
  match k2_left k with Some L => lookup_wf L | None => True end ->
  match k2_right k with Some R => lookup_wf R | None => True end ->
  0 <= k2_start k ->
  total (kern2_pair k l r).
Proof.
  intros k l r HL HR Hs. unfold kern2_pair, kern2_pair_gen.
  destruct (k2_left k) as [L|]; [|exact I]. destruct (k2_right k) as [R|]; [|exact I].
  pose proof (aat_class_total_lemma L (wrap16 l) HL (wrap16_bounds l)) as TL.
  pose proof (aat_class_total_lemma R (wrap16 r) HR (wrap16_bounds r)) as TR.
  destruct (aat_class L (wrap16 l)) as [a| | |]; cbn [bind total] in *; try tauto.
  destruct (aat_class R (wrap16 r)) as [b| | |]; cbn [bind total] in *; try tauto.
  destruct ((zlen (k2_data k) <? oz a + oz b + 2) || (oz a + oz b <? k2_start k)) eqn:E; [exact I|].
  rewrite index_checked_ok by lia. cbn [bind]. rewrite index_checked_ok by lia. exact I.
Qed.


(* ------------------------------------------------------------------------------------------------ *)
(* format 3 *)

Lemma forallb_znth (f : Z -> bool) l i : forallb f l = true -> 0 <= i < zlen l -> f (znth 0 l i) = true.
Proof.
  intros H Hi. rewrite forallb_forall in H. apply H. unfold znth. replace (i <? 0) with false by lia.
  apply nth_In. unfold zlen in Hi. lia.
Qed.

Lemma existsb_false_znth (f : Z -> bool) l i : existsb f l = false -> 0 <= i < zlen l -> f (znth 0 l i) = false.
Proof.
  intros H Hi. destruct (f (znth 0 l i)) eqn:E; [|reflexivity].
  assert (existsb f l = true); [|congruence]. apply existsb_exists. exists (znth 0 l i). split; [|exact E].
  unfold znth. replace (i <? 0) with false by lia. apply nth_In. unfold zlen in Hi. lia.
Qed.

(* kern3_classes_ok scans left from position i: if it answers true every class from i on is below its count *)
Lemma kern3_classes_ok_spec k : forall left i, 0 <= i -> i + zlen left <= zlen (k3_right k) ->
  kern3_classes_ok k left i = Ok true ->
  forall j, 0 <= j < zlen left -> znth 0 left j < k3_left_count k /\ znth 0 (k3_right k) (i + j) < k3_right_count k.
Proof.
  induction left as [|c rest IH]; intros i Hi Hlen H j Hj.
  - unfold zlen in Hj. cbn in Hj. lia.
  - cbn [kern3_classes_ok] in H. destruct (k3_left_count k <=? c) eqn:E1; [discriminate|].
    assert (Hz : zlen (c :: rest) = 1 + zlen rest) by (unfold zlen; cbn [length]; lia).
    rewrite index_checked_ok in H by lia. cbn [bind] in H.
    destruct (k3_right_count k <=? znth 0 (k3_right k) i) eqn:E2; [discriminate|].
    destruct (Z.eq_dec j 0) as [->|Hne].
    + replace (i + 0) with i by lia. unfold znth at 1. cbn. split; lia.
    + specialize (IH (i + 1) ltac:(lia) ltac:(lia) H (j - 1) ltac:(lia)).
      replace (i + 1 + (j - 1)) with (i + j) in IH by lia.
      replace (znth 0 (c :: rest) j) with (znth 0 rest (j - 1)); [exact IH|].
      unfold znth. replace (j <? 0) with false by lia. replace (j - 1 <? 0) with false by lia.
      replace (Z.to_nat j) with (S (Z.to_nat (j - 1))) by lia. reflexivity.
Qed.

Lemma np_kern3_classes_ok k : forall left i, 0 <= i -> i + zlen left <= zlen (k3_right k) -> no_panic (kern3_classes_ok k left i).
Proof.
  induction left as [|c rest IH]; intros i Hi Hlen; cbn [kern3_classes_ok]; [exact I|].
  assert (Hz : zlen (c :: rest) = 1 + zlen rest) by (unfold zlen; cbn [length]; lia).
  destruct (k3_left_count k <=? c); [exact I|]. rewrite index_checked_ok by (pose proof (zlen_nonneg rest); lia). cbn [bind].
  destruct (k3_right_count k <=? _); [exact I|]. apply IH; lia.
Qed.

Lemma kern3_pair_no_panic : forall k l r,
  kern3_shape k = true -> kern3_sanitize k = Ok true -> 0 <= l -> 0 <= r -> no_panic (kern3_pair k l r).
Proof.
  intros k l r Hshape Hsan Hl Hr. unfold kern3_shape in Hshape. unfold is_byte in Hshape at 1 2 3.
  repeat (apply andb_prop in Hshape; destruct Hshape as [Hshape ?]).
  unfold kern3_sanitize, kern3_sanitize_gen in Hsan.
  destruct (existsb _ (k3_index k)) eqn:Eix; [discriminate|].
  unfold kern3_pair. destruct ((zlen (k3_left k) <=? l) || (zlen (k3_right k) <=? r)) eqn:E; [exact I|].
  rewrite index_checked_ok by lia. cbn [bind]. rewrite index_checked_ok by lia. cbn [bind].
  pose proof (kern3_classes_ok_spec k (k3_left k) 0 ltac:(lia) ltac:(lia) Hsan) as Hcls.
  destruct (Hcls l ltac:(lia)) as [HL _]. destruct (Hcls r ltac:(lia)) as [_ HR]. replace (0 + r) with r in HR by lia.
  pose proof (forallb_znth is_byte (k3_left k) l ltac:(assumption) ltac:(lia)) as BL.
  pose proof (forallb_znth is_byte (k3_right k) r ltac:(assumption) ltac:(lia)) as BR.
  unfold is_byte in BL, BR.
  set (lc := znth 0 (k3_left k) l) in *. set (rc := znth 0 (k3_right k) r) in *.
  assert (Hidx : 0 <= lc * k3_right_count k + rc < zlen (k3_index k)) by nia.
  rewrite index_checked_ok by exact Hidx. cbn [bind].
  pose proof (existsb_false_znth _ (k3_index k) _ Eix Hidx) as Hv. cbn beta in Hv.
  pose proof (forallb_znth is_byte (k3_index k) _ ltac:(assumption) Hidx) as BI. unfold is_byte in BI.
  rewrite index_checked_ok by lia. exact I.
Qed.

Lemma kern3_query_total_lemma : forall k l r, kern3_shape k = true -> 0 <= l -> 0 <= r -> total (kern3_query k l r).
Proof.
  intros k l r Hshape Hl Hr. apply no_panic_total. unfold kern3_query.
  pose proof Hshape as Hs2. unfold kern3_shape in Hs2. repeat (apply andb_prop in Hs2; destruct Hs2 as [Hs2 ?]).
  assert (NP : no_panic (kern3_sanitize k)).
  { unfold kern3_sanitize, kern3_sanitize_gen. destruct (existsb _ _); [exact I|]. apply np_kern3_classes_ok; lia. }
  destruct (kern3_sanitize k) as [ok| | |] eqn:E; cbn [bind no_panic] in *; try tauto.
  destruct ok; [|exact I].
  pose proof (kern3_pair_no_panic k l r Hshape E Hl Hr) as NP2.
  destruct (kern3_pair k l r); cbn [bind no_panic] in *; tauto.
Qed.


(* ------------------------------------------------------------------------------------------------ *)
(* format 6 *)
Lemma kern6_pair_total_lemma : forall ks l r, 0 <= l -> 0 <= r -> total (kern6_pair ks l r).
Proof.
  intros. apply no_panic_total. unfold kern6_pair. destruct (zlen ks <=? l + r) eqn:E; [exact I|].
  rewrite index_checked_ok by lia. exact I.
Qed.

(* ------------------------------------------------------------------------------------------------ *)
(* FDSelect *)

Lemma fdselect0_total_lemma : forall fds g, 0 <= g -> total (fdselect0 fds g).
Proof.
  intros. apply no_panic_total. unfold fdselect0. destruct (zlen fds <=? g) eqn:E; [exact I|].
  rewrite index_checked_ok by lia. exact I.
Qed.

(* the bisection: no index out of range and the interval shrinks at each step, whatever the ranges and the sentinel
   (unsorted, overlapping, sentinel below the glyph ...) *)
Lemma np_fd3_loop ranges sentinel x : forall fuel lo hi, 0 <= lo -> hi <= zlen ranges -> hi - lo < Z.of_nat fuel ->
  no_panic (fd3_loop true ranges sentinel x lo hi fuel).
Proof.
  induction fuel as [|fuel IH]; intros lo hi Hlo Hhi Hf.
  - cbn [fd3_loop]. replace (negb (lo <? hi)) with true by lia. exact I.
  - cbn [fd3_loop]. destruct (negb (lo <? hi)) eqn:E; [exact I|].
    assert (Hm : lo <= (lo + hi) / 2 < hi) by lia.
    rewrite index_checked_ok by lia. cbn [bind].
    destruct (x <? _); [apply IH; lia|].
    destruct ((lo + hi) / 2 <? zlen ranges - 1) eqn:E2.
    + rewrite index_checked_ok by lia. cbn [bind]. destruct (_ <=? x); [apply IH; lia|exact I].
    + cbn [bind]. destruct (sentinel <=? x); [apply IH; lia|exact I].
Qed.
Lemma fdselect3_total_lemma : forall ranges sentinel x, total (fdselect3 ranges sentinel x).
Proof. intros. apply no_panic_total. unfold fdselect3. apply np_fd3_loop; unfold zlen; lia. Qed.

(* a font dict index which is returned belongs to one of the ranges, hence is below extent() *)
Lemma fd3_extent_bound ranges : forall r, In r ranges -> r3_fd r < fd3_extent ranges.
Proof.
  induction ranges as [|a rest IH]; intros r Hin; [destruct Hin|].
  unfold fd3_extent in *. cbn [fold_right]. cbv beta.
  destruct Hin as [Heq|Hin]; [subst a; apply Z.lt_le_trans with (r3_fd r + 1); [lia|apply Z.le_max_l]|].
  specialize (IH r Hin). eapply Z.lt_le_trans; [exact IH|apply Z.le_max_r].
Qed.
Lemma fd3_loop_value ranges sentinel x : forall fuel lo hi v, 0 <= lo -> hi <= zlen ranges ->
  fd3_loop true ranges sentinel x lo hi fuel = Ok (Some v) -> exists r, In r ranges /\ r3_fd r = v.
Proof.
  induction fuel as [|fuel IH]; intros lo hi v Hlo Hhi H; cbn [fd3_loop] in H.
  - destruct (negb (lo <? hi)); discriminate.
  - destruct (negb (lo <? hi)) eqn:E; [discriminate|].
    assert (Hm : lo <= (lo + hi) / 2 < hi) by lia.
    rewrite index_checked_ok in H by lia. cbn [bind] in H.
    destruct (x <? _); [eapply IH; [| |exact H]; lia|].
    assert (Hin : In (znth drange3 ranges ((lo + hi) / 2)) ranges).
    { unfold znth. replace (_ <? 0) with false by lia. apply nth_In. unfold zlen in *. lia. }
    destruct ((lo + hi) / 2 <? zlen ranges - 1) eqn:E2.
    + rewrite index_checked_ok in H by lia. cbn [bind] in H.
      destruct (_ <=? x); [eapply IH; [| |exact H]; lia|]. eexists; split; [exact Hin|congruence].
    + cbn [bind] in H. destruct (sentinel <=? x); [eapply IH; [| |exact H]; lia|]. eexists; split; [exact Hin|congruence].
Qed.
Lemma fdselect3_in_extent_lemma : forall ranges sentinel x v n,
  fd3_extent ranges <= n -> fdselect3 ranges sentinel x = Ok (Some v) -> v < n.
Proof.
  intros ranges sentinel x v n Hext H. unfold fdselect3 in H.
  destruct (fd3_loop_value ranges sentinel x (S (length ranges)) 0 (zlen ranges) v (Z.le_refl 0) (Z.le_refl _) H) as [r [Hin Hv]].
  pose proof (fd3_extent_bound ranges r Hin). lia.
Qed.

