(* Lemmas about the composite glyph model (Model/Composite.v). *)
From Coq Require Import Lia.
From TV Require Import Model.Composite Spec.Outline Spec.Composite Proofs.Outline.
Open Scope Z_scope.

(* ------------------------------------------------------------------------------------------------ *)
(* totality of the component record parser                                                              *)

Lemma total_bind {A B} (r : res A) (f : A -> res B) :
  total r -> (forall a, r = Ok a -> total (f a)) -> total (bind r f).
Proof. destruct r; simpl; auto. Qed.

Lemma zskipn_length {A} k (l : list A) : length (zskipn k l) = (length l - Z.to_nat k)%nat.
Proof. unfold zskipn. apply skipn_length. Qed.

Lemma zlen_ge {A} (l : list A) k : (zlen l <? k) = false -> 0 <= k -> (Z.to_nat k <= length l)%nat.
Proof. unfold zlen. intros H Hk. apply Z.ltb_ge in H. lia. Qed.

Ltac break_if :=
  match goal with
  | H : context [if ?c then _ else _] |- _ => destruct c eqn:?
  end.

Lemma parse_part_shrinks src p rest : parse_part src = Ok (p, rest) -> (length rest + 6 <= length src)%nat.
Proof.
  unfold parse_part. intros H.
  destruct (zlen src <? 4) eqn:E0; [discriminate|].
  destruct (has_bit (u16_at 0 src) 1) eqn:E1.
  - destruct (zlen src <? 8) eqn:E2; [discriminate|]. cbn [bind] in H.
    apply zlen_ge in E2; [|lia].
    repeat break_if; cbn [bind] in H; try discriminate; inversion H; subst;
      rewrite ?zskipn_length; lia.
  - destruct (zlen src <? 6) eqn:E2; [discriminate|]. cbn [bind] in H.
    apply zlen_ge in E2; [|lia].
    repeat break_if; cbn [bind] in H; try discriminate; inversion H; subst;
      rewrite ?zskipn_length; lia.
Qed.

Lemma parse_part_total src : total (parse_part src).
Proof.
  unfold parse_part.
  destruct (zlen src <? 4); [exact I|].
  destruct (has_bit (u16_at 0 src) 1).
  - destruct (zlen src <? 8); [exact I|]. cbn [bind].
    repeat match goal with |- context [if ?c then _ else _] => destruct c end; exact I.
  - destruct (zlen src <? 6); [exact I|]. cbn [bind].
    repeat match goal with |- context [if ?c then _ else _] => destruct c end; exact I.
Qed.

Lemma parse_parts_total fuel : forall src, (length src < fuel)%nat -> total (parse_parts fuel src).
Proof.
  induction fuel as [|k IH]; intros src Hl; [lia|].
  cbn [parse_parts]. apply total_bind; [apply parse_part_total|].
  intros [p rest] Hp. apply parse_part_shrinks in Hp.
  destruct (has_bit (p_flags p) 32).
  - apply total_bind; [apply IH; lia|]. intros; exact I.
  - repeat match goal with |- context [if ?c then _ else _] => destruct c end; exact I.
Qed.

Lemma parse_composite_total_lemma src : total (parse_composite src).
Proof. unfold parse_composite. apply parse_parts_total. lia. Qed.

Lemma parse_glyph_full_total src : nonneg src -> total (parse_glyph_full src).
Proof.
  intros Hn. unfold parse_glyph_full. destruct src as [|b src']; [exact I|].
  set (s := b :: src') in *.
  destruct (zlen s <? 10); [exact I|].
  destruct (0 <=? _).
  - apply total_bind; [apply parse_simple_total; apply nonneg_skipn; exact Hn|]. intros; exact I.
  - apply total_bind; [apply parse_composite_total_lemma|]. intros; exact I.
Qed.

(* ------------------------------------------------------------------------------------------------ *)
(* getPointsForGlyph: never panics, and 23 levels of fuel always suffice (depth limit 20)                *)

Definition recs_nonneg (e : cenv) : Prop := Forall (fun gr => nonneg (snd gr)) (e_recs e).

Lemma lookup_rec_nonneg recs : Forall (fun gr => nonneg (snd gr)) recs ->
  forall gid raw, lookup_rec recs gid = Some raw -> nonneg raw.
Proof.
  induction 1 as [|[g r] t Hr Ht IH]; intros gid raw; cbn [lookup_rec]; [discriminate|].
  destruct (g =? gid); [intros E; inversion E; subst; exact Hr|apply IH].
Qed.

Lemma components_total rc : (forall g c, total (rc g c)) ->
  forall parts all ph ec, total (components rc parts all ph ec).
Proof.
  intros Hrc. induction parts as [|p r IH]; intros all ph ec; cbn [components]; [exact I|].
  apply total_bind; [apply Hrc|]. intros [comp ec1] _.
  destruct (zlen comp <? 4); apply IH.
Qed.

Lemma points_for_glyph_total_gen e : recs_nonneg e ->
  forall fuel gid depth ec, 1 <= Z.of_nat fuel -> 22 - depth <= Z.of_nat fuel ->
  total (points_for_glyph fuel e gid depth ec).
Proof.
  intros Hr. induction fuel as [|k IH]; intros gid depth ec H1 H2; [lia|].
  cbn [points_for_glyph].
  destruct ((max_composite_nesting <? depth) || (max_composite_edges <? ec) || (e_nglyf e <=? gid)) eqn:E; [exact I|].
  apply Bool.orb_false_iff in E. destruct E as [E _]. apply Bool.orb_false_iff in E. destruct E as [E _].
  unfold max_composite_nesting in E. apply Z.ltb_ge in E.
  destruct (lookup_rec (e_recs e) gid) as [raw|] eqn:El; [|exact I].
  apply total_bind; [apply parse_glyph_full_total; eapply lookup_rec_nonneg; eauto|].
  intros [h body] _.
  apply total_bind.
  - destruct body; try exact I.
    apply total_bind; [|intros [[a b] c] _; exact I].
    apply components_total. intros g c. apply IH; lia.
  - intros [all ec'] _. destruct (depth =? 0); exact I.
Qed.

Lemma glyf_all_points_total_lemma e gid : recs_nonneg e -> total (glyf_all_points e gid).
Proof.
  intros Hr. unfold glyf_all_points, comp_fuel.
  apply total_bind; [apply points_for_glyph_total_gen; [exact Hr|lia|lia]|intros; exact I].
Qed.

(* the budget: the counter only grows, and never beyond 1025 (a call is entered only while it is at most 1024) *)
Lemma components_edges rc : (forall g c comp c', rc g c = Ok (comp, c') -> c <= c' /\ (c <= 1025 -> c' <= 1025)) ->
  forall parts all ph ec all' ph' ec', components rc parts all ph ec = Ok (all', ph', ec') ->
  ec <= ec' /\ (ec <= 1025 -> ec' <= 1025).
Proof.
  intros Hrc. induction parts as [|p r IH]; intros all ph ec all' ph' ec' H; cbn [components] in H.
  - inversion H; subst. lia.
  - destruct (rc (p_gid p) ec) as [[comp ec1]| | |] eqn:Er; cbn [bind] in H; try discriminate.
    destruct (Hrc _ _ _ _ Er) as [A B].
    destruct (zlen comp <? 4); apply IH in H; lia.
Qed.

Definition body_result (k : nat) (e : cenv) (gid depth ec : Z) (h : glyph_hdr) (body : glyph_body) : res (list cpoint * Z) :=
  match body with
  | BSimple end_pts pts0 => Ok (map fp_of_int_point (contour_points_from 0 end_pts pts0) ++ phantoms_of e h gid, ec + 1)
  | BNone => Ok (phantoms_of e h gid, ec + 1)
  | BComposite parts =>
      do r <- components (fun g' c => points_for_glyph k e g' (depth + 1) c) parts [] (phantoms_of e h gid) (ec + 1);
      let '(all', ph', ec'0) := r in Ok (all' ++ ph', ec'0)
  end.

Lemma points_for_glyph_edges e : forall fuel gid depth ec pts ec',
  points_for_glyph fuel e gid depth ec = Ok (pts, ec') -> ec <= ec' /\ (ec <= 1025 -> ec' <= 1025).
Proof.
  induction fuel as [|k IH]; intros gid depth ec pts ec' H; [discriminate|].
  cbn [points_for_glyph] in H.
  destruct ((max_composite_nesting <? depth) || (max_composite_edges <? ec) || (e_nglyf e <=? gid)) eqn:E.
  { inversion H; subst. lia. }
  apply Bool.orb_false_iff in E. destruct E as [E _]. apply Bool.orb_false_iff in E. destruct E as [_ E].
  unfold max_composite_edges in E. apply Z.ltb_ge in E.
  destruct (lookup_rec (e_recs e) gid) as [raw|]; [|discriminate].
  destruct (parse_glyph_full raw) as [[h body]| | |]; cbn [bind] in H; try discriminate.
  change (match body with
          | BNone => Ok (phantoms_of e h gid, ec + 1)
          | BSimple end_pts pts0 => Ok (map fp_of_int_point (contour_points_from 0 end_pts pts0) ++ phantoms_of e h gid, ec + 1)
          | BComposite parts =>
              do r <- components (fun g' c => points_for_glyph k e g' (depth + 1) c) parts [] (phantoms_of e h gid) (ec + 1);
              let '(all', ph', ec'0) := r in Ok (all' ++ ph', ec'0)
          end) with (body_result k e gid depth ec h body) in H.
  assert (Hb : forall all ec1, body_result k e gid depth ec h body = Ok (all, ec1) -> ec + 1 <= ec1 /\ ec1 <= 1025).
  { intros all ec1 Hb. unfold body_result in Hb. destruct body.
    - inversion Hb; subst. lia.
    - inversion Hb; subst. lia.
    - destruct (components _ parts [] (phantoms_of e h gid) (ec + 1)) as [[[a b] c]| | |] eqn:Ec; cbn [bind] in Hb; try discriminate.
      inversion Hb; subst.
      apply components_edges in Ec; [lia|]. intros g c0 comp c' Hc. eapply IH; exact Hc. }
  destruct (body_result k e gid depth ec h body) as [[all ec1]| | |] eqn:Eb; cbn [bind] in H; try discriminate.
  specialize (Hb _ _ eq_refl).
  destruct (depth =? 0); inversion H; subst; lia.
Qed.

(* ------------------------------------------------------------------------------------------------ *)
(* structure: a composite is the concatenation of the placed component outlines                        *)

Lemma map_drop_last4 (T : cpoint -> cpoint) l : drop_last4 (map T l) = map T (drop_last4 l).
Proof. unfold drop_last4. rewrite map_length, firstn_map. reflexivity. Qed.

Lemma place_component_spec p all comp :
  exists T, placement p all comp T /\ place_component p all comp = map T comp.
Proof.
  unfold place_component, placement.
  destruct (part_anchored p && (p_arg1 p <? zlen all) && (p_arg2 p <? zlen comp)).
  - eexists. split; [reflexivity|].
    rewrite !map_map. unfold base_map. reflexivity.
  - exists (base_map p). split; [reflexivity|]. rewrite map_map. reflexivity.
Qed.

Lemma components_assembled rc : forall parts all ph ec all' ph' ec',
  components rc parts all ph ec = Ok (all', ph', ec') -> assembled rc parts all ph ec all' ph' ec'.
Proof.
  induction parts as [|p r IH]; intros all ph ec all' ph' ec' H; cbn [components] in H.
  - inversion H; subst. constructor.
  - destruct (rc (p_gid p) ec) as [[comp ec1]| | |] eqn:Er; cbn [bind] in H; try discriminate.
    destruct (zlen comp <? 4) eqn:E4.
    + eapply as_skip; eauto. apply Z.ltb_lt; exact E4.
    + destruct (place_component_spec p all comp) as [T [HT Hpl]].
      rewrite Hpl, map_drop_last4 in H.
      eapply as_part; eauto. apply Z.ltb_ge; exact E4.
Qed.

(* the points contributed by the components, in order *)
Lemma assembled_concat rc parts : forall all ph ec all' ph' ec',
  assembled rc parts all ph ec all' ph' ec' ->
  exists contribs : list (cpart * list cpoint * (cpoint -> cpoint)),
    all' = all ++ concat (map (fun t => map (snd t) (drop_last4 (snd (fst t)))) contribs)
    /\ Forall (fun t => In (fst (fst t)) parts /\ (exists c c', rc (p_gid (fst (fst t))) c = Ok (snd (fst t), c')) /\ 4 <= zlen (snd (fst t))) contribs.
Proof.
  induction 1 as [all ph ec|p r all ph ec all' ph' ec' comp ec1 Hc Hs Ha IH|p r all ph ec all' ph' ec' comp ec1 T Hc Hs HT Ha IH].
  - exists []. cbn. rewrite app_nil_r. split; [reflexivity|constructor].
  - destruct IH as [cs [E F]]. exists cs. split; [exact E|].
    eapply Forall_impl; [|exact F]. intros t [Hin Hr]. split; [right; exact Hin|exact Hr].
  - destruct IH as [cs [E F]]. exists ((p, comp, T) :: cs). split.
    + cbn [map concat fst snd]. rewrite E, <- app_assoc. reflexivity.
    + constructor; [cbn; split; [left; reflexivity|split; [eexists; eexists; exact Hc|assumption]]|].
      eapply Forall_impl; [|exact F]. intros t [Hin Hr]. split; [right; exact Hin|exact Hr].
Qed.

Lemma fp_translate_marks tx ty : keeps_marks (fp_translate tx ty).
Proof. intros c. split; reflexivity. Qed.
Lemma fp_transform_marks m : keeps_marks (fp_transform m).
Proof. intros c. unfold fp_transform. destruct m as [[[m0 m1] m2] m3]. split; reflexivity. Qed.
Lemma part_transform_marks p : keeps_marks (part_transform p).
Proof.
  unfold part_transform.
  destruct (if part_anchored p then _ else _) as [tx ty].
  destruct ((tx =? 0) && (ty =? 0) && scale_is_identity (p_scale p)); [intros c; split; reflexivity|].
  destruct (part_scaled_offsets p); intros c.
  - destruct (fp_transform_marks (p_scale p) (fp_translate tx ty c)) as [A B]. split; [rewrite A|rewrite B]; reflexivity.
  - destruct (fp_transform_marks (p_scale p) c) as [A B]. split; cbn; [rewrite A|rewrite B]; reflexivity.
Qed.
Lemma placement_marks p all comp T : placement p all comp T -> keeps_marks T.
Proof.
  unfold placement, base_map.
  destruct (part_anchored p && (p_arg1 p <? zlen all) && (p_arg2 p <? zlen comp)); intros ->; intros c;
    destruct (part_transform_marks p c) as [A B]; split; cbn; assumption.
Qed.

(* ------------------------------------------------------------------------------------------------ *)
(* buildSegments (any midpoint function): contours are decoded independently                          *)

Section BSG.
  Variable mid : pt -> pt -> pt.

  (* states that agree on the validity flags and on every point whose flag is set *)
  Definition agree (s t : bstate) : Prop :=
    fonV s = fonV t /\ foffV s = foffV t /\ loffV s = loffV t
    /\ (fonV s = true -> fon s = fon t) /\ (foffV s = true -> foff s = foff t) /\ (loffV s = true -> loff s = loff t).

  Lemma agree_refl s : agree s s.
  Proof. repeat split; auto. Qed.

  Lemma bsg_point_agree s t c : agree s t ->
    agree (fst (bsg_point mid s c)) (fst (bsg_point mid t c)) /\ snd (bsg_point mid s c) = snd (bsg_point mid t c).
  Proof.
    intros (A & B & C & D & E & F). unfold bsg_point.
    rewrite <- A, <- B, <- C.
    destruct (fonV s) eqn:E1, (foffV s) eqn:E2, (loffV s) eqn:E3, (cp_on c) eqn:E4; cbn;
      rewrite ?D, ?E, ?F by reflexivity; unfold agree; cbn; rewrite <- ?A, <- ?B, <- ?C, ?E1, ?E2, ?E3;
      repeat split; auto; intros; try discriminate; try (rewrite ?D, ?E, ?F by reflexivity; reflexivity).
  Qed.

  (* closing is output-independent of stale points as soon as the first on-curve point is valid *)
  Lemma bsg_close_agree s t : agree s t -> fonV s = true ->
    clean (fst (bsg_close mid s)) /\ clean (fst (bsg_close mid t)) /\ snd (bsg_close mid s) = snd (bsg_close mid t).
  Proof.
    intros (A & B & C & D & E & F) Hv. unfold bsg_close, clean. cbn.
    rewrite <- B, <- C. rewrite D by exact Hv.
    destruct (foffV s) eqn:E2, (loffV s) eqn:E3; rewrite ?E, ?F by reflexivity; repeat split; reflexivity.
  Qed.

  Definition clean_agree s t : clean s -> clean t -> agree s t.
  Proof.
    intros (A & B & C) (A' & B' & C'). unfold agree. rewrite A, B, C, A', B', C'. repeat split; intros; discriminate.
  Qed.

  (* [safe s pts]: while running from s, every contour is closed with a valid first on-curve point *)
  Fixpoint safe (s : bstate) (pts : list cpoint) : Prop :=
    match pts with
    | [] => True
    | c :: r =>
        let s1 := fst (bsg_point mid s c) in
        (cp_end c = true -> fonV s1 = true) /\ safe (fst (bsg_step mid s c)) r
    end.

  Lemma bsg_step_agree s t c : agree s t -> (cp_end c = true -> fonV (fst (bsg_point mid s c)) = true) ->
    agree (fst (bsg_step mid s c)) (fst (bsg_step mid t c)) /\ snd (bsg_step mid s c) = snd (bsg_step mid t c).
  Proof.
    intros Ha Hs. unfold bsg_step.
    destruct (bsg_point_agree s t c Ha) as [Hp Ho].
    destruct (bsg_point mid s c) as [s1 o1], (bsg_point mid t c) as [t1 o1']. cbn [fst snd] in *. subst o1'.
    destruct (cp_end c).
    - destruct (bsg_close_agree s1 t1 Hp (Hs eq_refl)) as (C1 & C2 & Eo).
      destruct (bsg_close mid s1) as [s2 o2], (bsg_close mid t1) as [t2 o2']. cbn [fst snd] in *. subst o2'.
      split; [apply clean_agree; assumption|reflexivity].
    - split; [exact Hp|reflexivity].
  Qed.

  Lemma bsg_run_agree pts : forall s t, agree s t -> safe s pts ->
    snd (bsg_run mid s pts) = snd (bsg_run mid t pts) /\ agree (fst (bsg_run mid s pts)) (fst (bsg_run mid t pts)).
  Proof.
    induction pts as [|c r IH]; intros s t Ha Hs; cbn [bsg_run]; [split; [reflexivity|exact Ha]|].
    destruct Hs as [Hs1 Hs2].
    destruct (bsg_step_agree s t c Ha Hs1) as [Hst Ho].
    destruct (bsg_step mid s c) as [s1 o1], (bsg_step mid t c) as [t1 o1']. cbn [fst snd] in *. subst o1'.
    destruct (IH s1 t1 Hst Hs2) as [E1 E2].
    destruct (bsg_run mid s1 r) as [s2 o2], (bsg_run mid t1 r) as [t2 o2']. cbn [fst snd] in *. subst o2'.
    split; [reflexivity|exact E2].
  Qed.

  Lemma bsg_run_app a : forall s b,
    bsg_run mid s (a ++ b) =
    (fst (bsg_run mid (fst (bsg_run mid s a)) b), snd (bsg_run mid s a) ++ snd (bsg_run mid (fst (bsg_run mid s a)) b)).
  Proof.
    induction a as [|c r IH]; intros s b; cbn [app bsg_run fst snd].
    - destruct (bsg_run mid s b); reflexivity.
    - destruct (bsg_step mid s c) as [s1 o1]. rewrite IH.
      destruct (bsg_run mid s1 r) as [s2 o2]. cbn [fst snd].
      destruct (bsg_run mid s2 b) as [s3 o3]. cbn [fst snd]. rewrite app_assoc. reflexivity.
  Qed.

  (* after a complete point list the automaton is back in a clean state *)
  Lemma bsg_step_end_clean s c : cp_end c = true -> clean (fst (bsg_step mid s c)).
  Proof.
    intros He. unfold bsg_step. destruct (bsg_point mid s c) as [s1 o1]. rewrite He.
    unfold bsg_close. cbn. repeat split.
  Qed.

  Lemma bsg_run_complete_clean a : forall s, a <> [] -> cp_end (last a fp_zero) = true -> clean (fst (bsg_run mid s a)).
  Proof.
    induction a as [|c r IH]; intros s Hne He; [congruence|].
    cbn [bsg_run]. destruct (bsg_step mid s c) as [s1 o1] eqn:Es.
    destruct r as [|c' r'].
    - cbn [bsg_run fst]. cbn in He. replace s1 with (fst (bsg_step mid s c)) by (rewrite Es; reflexivity).
      apply bsg_step_end_clean; exact He.
    - specialize (IH s1 ltac:(discriminate) He).
      destruct (bsg_run mid s1 (c' :: r')) as [s2 o2]. exact IH.
  Qed.

  (* main: if a is made of complete contours and running b from the initial state is safe, the segments of a ++ b
     are the segments of a followed by the segments of b *)
  Lemma bsg_concat_lemma a b : complete a -> safe bs_init b ->
    snd (bsg_run mid bs_init (a ++ b)) = snd (bsg_run mid bs_init a) ++ snd (bsg_run mid bs_init b).
  Proof.
    intros Hc Hs. rewrite bsg_run_app. cbn [snd]. f_equal.
    destruct Hc as [->|He]; [reflexivity|].
    destruct a as [|c r]; [reflexivity|].
    assert (Hcl : clean (fst (bsg_run mid bs_init (c :: r)))) by (apply bsg_run_complete_clean; [discriminate|exact He]).
    symmetry. apply bsg_run_agree; [|exact Hs].
    apply clean_agree; [repeat split|exact Hcl].
  Qed.
End BSG.

(* a point list whose contours are all good is safe from a clean state: every contour other than a single off-curve
   point has a valid first on-curve point when it is closed *)
Lemma fonV_stays mid s c : fonV s = true -> fonV (fst (bsg_point mid s c)) = true.
Proof.
  intros H. unfold bsg_point. rewrite H. cbn.
  destruct (loffV s), (cp_on c); cbn; auto.
Qed.

(* ------------------------------------------------------------------------------------------------ *)
(* extents on float32                                                                                  *)

Lemma extents_f_corners pts :
  let '(xb, yb, w, h) := extents_from_points pts in
  extents_from_points_f pts = (xb, yb, f32_sub (xb + w) xb, f32_sub (yb + h) yb).
Proof.
  unfold extents_from_points, extents_from_points_f. destruct pts as [|p0 r]; [reflexivity|].
  destruct (bbox_acc (p0 :: r) (cp_x p0) (cp_y p0) (cp_x p0) (cp_y p0)) as [[[minx miny] maxx] maxy].
  f_equal; [f_equal|]; f_equal; lia.
Qed.

(* ------------------------------------------------------------------------------------------------ *)
(* good contours are safe                                                                              *)

Section Safe.
  Variable mid : pt -> pt -> pt.

  Lemma safe_app a : forall s b, safe mid s (a ++ b) <-> safe mid s a /\ safe mid (fst (bsg_run mid s a)) b.
  Proof.
    induction a as [|c r IH]; intros s b; cbn [app safe bsg_run fst].
    - tauto.
    - destruct (bsg_step mid s c) as [s1 o1] eqn:Es. cbn [fst]. rewrite IH.
      destruct (bsg_run mid s1 r) as [s2 o2]. cbn [fst]. tauto.
  Qed.

  Lemma bsg_step_not_end s c : cp_end c = false -> fst (bsg_step mid s c) = fst (bsg_point mid s c).
  Proof. intros H. unfold bsg_step. destruct (bsg_point mid s c). rewrite H. reflexivity. Qed.

  Lemma safe_mark_valid l : forall s, fonV s = true -> safe mid s (mark l).
  Proof.
    induction l as [|q r IH]; intros s Hv; [exact I|].
    destruct r as [|q' r'].
    - destruct q as [p on]. cbn [mark safe]. split; [intros _; apply fonV_stays; exact Hv|exact I].
    - rewrite mark_cons_cons. cbn [safe]. split; [intros _; apply fonV_stays; exact Hv|].
      rewrite bsg_step_not_end by reflexivity. apply IH. apply fonV_stays; exact Hv.
  Qed.

  Lemma safe_good_contour s c : clean s -> good_contour c = true -> safe mid s (mark c).
  Proof.
    intros (A & B & C) Hg.
    destruct c as [|[p on] r]; [discriminate|].
    destruct r as [|[p' on'] r'].
    - destruct on; [|discriminate]. cbn [mark safe]. split; [|exact I].
      intros _. unfold bsg_point. rewrite A. reflexivity.
    - rewrite mark_cons_cons. cbn [safe]. split; [discriminate|].
      rewrite bsg_step_not_end by reflexivity.
      destruct on.
      + apply safe_mark_valid. unfold bsg_point, cp_of. cbn. rewrite A. reflexivity.
      + (* starts off-curve: the second point validates the first on-curve point *)
        set (s1 := fst (bsg_point mid s (cp_of (p, false) false))).
        assert (H1 : fonV s1 = false /\ foffV s1 = true).
        { unfold s1, bsg_point, cp_of. cbn. rewrite A, B. cbn. auto. }
        destruct H1 as [H1 H2].
        assert (Hv : forall e, fonV (fst (bsg_point mid s1 (cp_of (p', on') e))) = true).
        { intros e. unfold bsg_point, cp_of. cbn. rewrite H1, H2. cbn. destruct on'; reflexivity. }
        destruct r' as [|q'' r''].
        * cbn [mark safe]. split; [intros _; apply Hv|exact I].
        * rewrite mark_cons_cons. cbn [safe]. split; [discriminate|].
          rewrite bsg_step_not_end by reflexivity. apply safe_mark_valid. apply Hv.
  Qed.

  Lemma mark_last_end c : c <> [] -> mark c <> [] /\ cp_end (last (mark c) fp_zero) = true.
  Proof.
    induction c as [|q r IH]; [congruence|]. intros _.
    destruct r as [|q' r'].
    - destruct q as [p on]. cbn. split; [discriminate|reflexivity].
    - rewrite mark_cons_cons. destruct (IH ltac:(discriminate)) as [Hn He].
      split; [discriminate|].
      destruct (mark (q' :: r')) eqn:Em; [congruence|]. exact He.
  Qed.

  Lemma safe_good_contours cs : Forall (fun c => good_contour c = true) cs ->
    forall s, clean s -> safe mid s (concat (map mark cs)).
  Proof.
    induction 1 as [|c r Hc Hr IH]; intros s Hs; cbn [map concat]; [exact I|].
    apply safe_app. split; [apply safe_good_contour; assumption|].
    apply IH. destruct c as [|q c']; [discriminate|].
    destruct (mark_last_end (q :: c') ltac:(discriminate)) as [Hn He].
    apply bsg_run_complete_clean; assumption.
  Qed.
End Safe.

Lemma build_segments_f_concat_lemma a (cs : list (list cpt)) :
  complete a -> Forall (fun c => good_contour c = true) cs ->
  build_segments_f (a ++ concat (map mark cs)) = build_segments_f a ++ build_segments_f (concat (map mark cs)).
Proof.
  intros Ha Hc. unfold build_segments_f. apply bsg_concat_lemma; [exact Ha|].
  apply safe_good_contours; [exact Hc|apply clean_init].
Qed.

(* ------------------------------------------------------------------------------------------------ *)
(* the composite glyph as a whole                                                                      *)

Definition top_shift (depth : Z) (all : list cpoint) : list cpoint :=
  if depth =? 0 then map (fp_translate (f32_neg (cp_x (nth 0 (last4 all) fp_zero))) 0) all else all.

Lemma budget_cond_false e gid depth ec : gid < e_nglyf e -> depth <= 20 -> ec <= 1024 ->
  (max_composite_nesting <? depth) || (max_composite_edges <? ec) || (e_nglyf e <=? gid) = false.
Proof.
  intros. apply Bool.orb_false_iff. unfold max_composite_nesting, max_composite_edges.
  split; [apply Bool.orb_false_iff; split; apply Z.ltb_ge; lia|apply Z.leb_gt; lia].
Qed.

Lemma composite_points_lemma e gid depth ec k raw h parts all ec' :
  lookup_rec (e_recs e) gid = Some raw -> gid < e_nglyf e -> depth <= 20 -> ec <= 1024 ->
  parse_glyph_full raw = Ok (h, BComposite parts) ->
  points_for_glyph (S k) e gid depth ec = Ok (all, ec') ->
  exists all' ph',
    assembled (fun g c => points_for_glyph k e g (depth + 1) c) parts [] (phantoms_of e h gid) (ec + 1) all' ph' ec'
    /\ all = top_shift depth (all' ++ ph').
Proof.
  intros Hl Hg Hd He Hp H. cbn [points_for_glyph] in H.
  rewrite (budget_cond_false e gid depth ec Hg Hd He) in H.
  rewrite Hl, Hp in H. cbn [bind] in H.
  destruct (components _ parts [] (phantoms_of e h gid) (ec + 1)) as [[[all' ph'] ec1]| | |] eqn:Ec; cbn [bind fst snd] in H; try discriminate.
  exists all', ph'. unfold top_shift.
  destruct (depth =? 0); inversion H; subst; (split; [apply components_assembled; exact Ec|reflexivity]).
Qed.

Lemma simple_points_lemma e gid depth ec k raw h end_pts pts all ec' :
  lookup_rec (e_recs e) gid = Some raw -> gid < e_nglyf e -> depth <= 20 -> ec <= 1024 ->
  parse_glyph_full raw = Ok (h, BSimple end_pts pts) ->
  points_for_glyph (S k) e gid depth ec = Ok (all, ec') ->
  all = top_shift depth (map fp_of_int_point (contour_points_from 0 end_pts pts) ++ phantoms_of e h gid) /\ ec' = ec + 1.
Proof.
  intros Hl Hg Hd He Hp H. cbn [points_for_glyph] in H.
  rewrite (budget_cond_false e gid depth ec Hg Hd He) in H.
  rewrite Hl, Hp in H. cbn [bind] in H.
  unfold top_shift. destruct (depth =? 0); inversion H; auto.
Qed.

(* past the budget a call contributes nothing and leaves the counter alone *)
Lemma over_budget_lemma fuel e gid depth ec : 1024 < ec -> points_for_glyph (S fuel) e gid depth ec = Ok ([], ec).
Proof.
  intros H. cbn [points_for_glyph].
  replace (max_composite_edges <? ec) with true by (symmetry; apply Z.ltb_lt; exact H).
  rewrite Bool.orb_true_r. reflexivity.
Qed.

(* the box of the float32 points encloses them and is attained; width and height are the rounded differences *)
Lemma extents_f_lemma pts : pts <> [] ->
  exists minx miny maxx maxy,
    extents_from_points_f pts = (minx, maxy, f32_sub maxx minx, f32_sub miny maxy)
    /\ (forall p, In p pts -> minx <= cp_x p <= maxx /\ miny <= cp_y p <= maxy)
    /\ (exists p, In p pts /\ cp_x p = minx) /\ (exists p, In p pts /\ cp_x p = maxx)
    /\ (exists p, In p pts /\ cp_y p = miny) /\ (exists p, In p pts /\ cp_y p = maxy).
Proof.
  intros Hne.
  pose proof (extents_f_corners pts) as Hc.
  pose proof (extents_tight_lemma pts Hne) as Ht.
  destruct (extents_from_points pts) as [[[xb yb] w] h] eqn:Ee.
  exists xb, (yb + h), (xb + w), yb. split; [exact Hc|]. split.
  - intros p Hin. pose proof (extents_enclose_lemma pts p Hin) as Hb. rewrite Ee in Hb. unfold in_box in Hb. lia.
  - destruct Ht as (A & B & C & D). repeat split; assumption.
Qed.
