(* Lemmas for C12, conversion part of Shape (Model/ShapeConv.v). *)
From TV Require Import Lib.GoNum Lib.Res Model.Output Model.ShapeGlue Model.ShapeConv Spec.Geometry Spec.ShapeConv Proofs.Output.

Ltac Zify.zify_post_hook ::= Z.div_mod_to_equations.

(* ---- 1. fixed point conversions ------------------------------------------------------------ *)
Lemma sint32_id y : - 2147483648 <= y < 2147483648 -> sint32 y = y.
Proof.
  intros H. unfold sint32, wrap32. cbv zeta.
  destruct (Z.ltb_spec (y mod 4294967296) 2147483648); lia.
Qed.
Lemma sint32_range y : - 2147483648 <= sint32 y < 2147483648.
Proof.
  unfold sint32, wrap32. cbv zeta.
  destruct (Z.ltb_spec (y mod 4294967296) 2147483648); lia.
Qed.

Lemma fix_conv_eq v : fix_conv v = sint32 (v * 64) / 64.
Proof.
  unfold fix_conv, fixed_I, scale_shift. rewrite Z.shiftr_div_pow2, Z.shiftl_mul_pow2 by lia. reflexivity.
Qed.

Lemma fix_conv_exact x : - 2 ^ 25 <= x < 2 ^ 25 -> fix_conv x = x.
Proof.
  intros H. change (2 ^ 25) with 33554432 in H. rewrite fix_conv_eq, sint32_id by lia. lia.
Qed.

Lemma fix_conv_range x : - 2 ^ 25 <= fix_conv x < 2 ^ 25.
Proof.
  rewrite fix_conv_eq. pose proof (sint32_range (x * 64)). change (2 ^ 25) with 33554432. lia.
Qed.

Lemma fix_conv_exact_only x : fix_conv x = x -> - 2 ^ 25 <= x < 2 ^ 25.
Proof. intros H. rewrite <- H. apply fix_conv_range. Qed.

Lemma fix_conv_0 : fix_conv 0 = 0.
Proof. reflexivity. Qed.

Lemma ceil26_6_eq size : - 2 ^ 31 <= size <= 2 ^ 31 - 64 -> ceil26_6 size = (size + 63) / 64.
Proof.
  intros H. change (2 ^ 31) with 2147483648 in H. unfold ceil26_6. rewrite Z.shiftr_div_pow2 by lia.
  rewrite sint32_id by lia. reflexivity.
Qed.

Lemma font_scale_eq size : 0 <= size <= 2 ^ 31 - 64 ->
  font_scale size = 64 * ((size + 63) / 64) /\ size <= font_scale size < size + 64.
Proof.
  intros H. change (2 ^ 31) with 2147483648 in H. unfold font_scale, scale_shift.
  rewrite ceil26_6_eq by (change (2 ^ 31) with 2147483648; lia).
  rewrite (sint32_id ((size + 63) / 64)) by lia.
  rewrite Z.shiftl_mul_pow2 by lia. change (2 ^ 6) with 64. rewrite sint32_id by lia. lia.
Qed.

Lemma font_scale_px px : 0 <= px < 2 ^ 25 -> font_scale (64 * px) = 64 * px.
Proof.
  intros H. change (2 ^ 25) with 33554432 in H.
  destruct (font_scale_eq (64 * px)) as [E _]; [change (2 ^ 31) with 2147483648; lia|]. rewrite E. lia.
Qed.

Lemma scale_bound_exact size n x : 0 <= size <= 2 ^ 31 - 64 -> 0 <= n -> n * ((size + 63) / 64) <= 2 ^ 19 ->
  Z.abs x < n * font_scale size -> fix_conv x = x.
Proof.
  intros Hs Hn Hb Hx. destruct (font_scale_eq size Hs) as [E _]. rewrite E in Hx.
  apply fix_conv_exact. change (2 ^ 19) with 524288 in Hb. change (2 ^ 25) with 33554432.
  assert (n * (64 * ((size + 63) / 64)) <= 33554432) by nia. lia.
Qed.

Lemma scale_roundtrip_lemma :
  (forall x, - 2 ^ 25 <= x < 2 ^ 25 -> fix_conv x = x)
  /\ (forall x, fix_conv x = x -> - 2 ^ 25 <= x < 2 ^ 25)
  /\ (forall size, 0 <= size <= 2 ^ 31 - 64 ->
        font_scale size = 64 * ((size + 63) / 64) /\ size <= font_scale size < size + 64)
  /\ (forall px, 0 <= px < 2 ^ 25 -> font_scale (64 * px) = 64 * px)
  /\ (forall size n x, 0 <= size <= 2 ^ 31 - 64 -> 0 <= n -> n * ((size + 63) / 64) <= 2 ^ 19 ->
        Z.abs x < n * font_scale size -> fix_conv x = x).
Proof.
  split; [exact fix_conv_exact|]. split; [exact fix_conv_exact_only|]. split; [exact font_scale_eq|].
  split; [exact font_scale_px|exact scale_bound_exact].
Qed.

(* ---- 2. direction bits --------------------------------------------------------------------- *)
Lemma toward_switch d : toward (switch_axis d) = toward d.
Proof. unfold toward, switch_axis. rewrite Z.lxor_spec. cbn. apply xorb_false_r. Qed.
Lemma vertical_switch d : is_vertical (switch_axis d) = negb (is_vertical d).
Proof. unfold is_vertical, switch_axis. rewrite Z.lxor_spec. cbn. apply xorb_true_r. Qed.
Lemma toward_sideways d : toward (set_sideways_true d) = toward d.
Proof. unfold toward, set_sideways_true. rewrite Z.lor_spec. cbn. apply orb_false_r. Qed.
Lemma toward_horizontal_of d : toward (horizontal_of d) = toward d.
Proof. unfold toward, horizontal_of. rewrite Z.ldiff_spec. cbn. apply andb_true_r. Qed.
Lemma vertical_horizontal_of d : is_vertical (horizontal_of d) = false.
Proof. unfold is_vertical, horizontal_of. rewrite Z.ldiff_spec. cbn. apply andb_false_r. Qed.
Lemma sideways_horizontal_of d : is_sideways (horizontal_of d) = false.
Proof. unfold is_sideways. rewrite vertical_horizontal_of. reflexivity. Qed.
Lemma sideways_vertical d : is_sideways d = true -> is_vertical d = true.
Proof. unfold is_sideways. intros H. apply andb_prop in H. tauto. Qed.

Lemma lor14_switch_horizontal d : Z.lor (switch_axis d) 14 = Z.lor (horizontal_of d) 14.
Proof.
  unfold switch_axis, horizontal_of. apply Z.bits_inj'. intros n Hn.
  rewrite !Z.lor_spec, Z.lxor_spec, Z.ldiff_spec.
  change 14 with (Z.lor 2 12). rewrite Z.lor_spec.
  destruct (Z.testbit d n), (Z.testbit 2 n), (Z.testbit 12 n); reflexivity.
Qed.

Lemma hbdir_eq a b : toward a = toward b -> is_vertical a = is_vertical b -> harfbuzz_dir a = harfbuzz_dir b.
Proof. unfold harfbuzz_dir. intros -> ->. reflexivity. Qed.

(* the direction the engine is asked for *)
Lemma hbdir_sideways d : is_sideways d = true -> harfbuzz_dir (switch_axis d) = harfbuzz_dir (horizontal_of d).
Proof.
  intros H. apply hbdir_eq.
  - rewrite toward_switch, toward_horizontal_of. reflexivity.
  - rewrite vertical_switch, vertical_horizontal_of, (sideways_vertical d H). reflexivity.
Qed.
(* the direction the line extents are asked for after out.sideways() *)
Lemma hbdir_after_sideways d : is_sideways d = true -> harfbuzz_dir (set_sideways_true (switch_axis d)) = harfbuzz_dir d.
Proof.
  intros H. apply hbdir_eq.
  - rewrite toward_sideways, toward_switch. reflexivity.
  - rewrite is_vertical_sideways, (sideways_vertical d H). reflexivity.
Qed.

(* ---- 3. the glyph list --------------------------------------------------------------------- *)
Section ConvProofs.
  Variable eng : Z -> Z -> list hbglyph.
  Variable ext : Z -> Z -> option hbext.
  Variable fext : Z -> Z -> fextents.

  Lemma cc_loop_length rtl tl : forall l cur runes glyphs prev, length (cc_loop rtl tl cur runes glyphs prev l) = length l.
  Proof.
    induction l as [|g r IH]; intros cur runes glyphs prev; [reflexivity|].
    cbn [cc_loop]. destruct (negb (g =? cur)).
    - destruct (count_run g r) as [n nx]. cbn [length]. rewrite IH. reflexivity.
    - cbn [length]. rewrite IH. reflexivity.
  Qed.
  Lemma count_clusters_length cls tl rtl : length (ShapeGlue.count_clusters cls tl rtl) = length cls.
  Proof. unfold ShapeGlue.count_clusters. apply cc_loop_length. Qed.

  Lemma axis_adv_counts v g rc gc : axis_adv v (with_counts g rc gc) = axis_adv v g.
  Proof. destruct v; reflexivity. Qed.
  Lemma cross_adv_counts v g rc gc : cross_adv v (with_counts g rc gc) = cross_adv v g.
  Proof. destruct v; reflexivity. Qed.

  Lemma annotate_axis_sum v : forall gs cs, length cs = length gs -> axis_sum v (annotate gs cs) = axis_sum v gs.
  Proof.
    induction gs as [|g gs IH]; intros [|c cs] H; try discriminate H; [reflexivity|].
    cbn [annotate]. rewrite !axis_sum_cons, axis_adv_counts, IH; [reflexivity|]. cbn [length] in H. lia.
  Qed.
  Lemma annotate_cross v : forall gs cs, length cs = length gs ->
    forallb (fun g => cross_adv v g =? 0) (annotate gs cs) = forallb (fun g => cross_adv v g =? 0) gs.
  Proof.
    induction gs as [|g gs IH]; intros [|c cs] H; try discriminate H; [reflexivity|].
    cbn [annotate forallb]. rewrite cross_adv_counts, IH; [reflexivity|]. cbn [length] in H. lia.
  Qed.

  Lemma conv_glyphs_axis_sum v scale re rtl hb :
    axis_sum v (conv_glyphs ext scale re rtl hb) = axis_sum v (map (conv_glyph ext scale) hb).
  Proof. unfold conv_glyphs. apply annotate_axis_sum. rewrite count_clusters_length, !map_length. reflexivity. Qed.
  Lemma conv_glyphs_cross v scale re rtl hb :
    forallb (fun g => cross_adv v g =? 0) (conv_glyphs ext scale re rtl hb)
    = forallb (fun g => cross_adv v g =? 0) (map (conv_glyph ext scale) hb).
  Proof. unfold conv_glyphs. apply annotate_cross. rewrite count_clusters_length, !map_length. reflexivity. Qed.

  (* the sum of the converted glyph advances, in terms of the engine result *)
  Lemma hb_axis_sum_upright scale dir hb : is_sideways dir = false ->
    axis_sum (is_vertical dir) (map (conv_glyph ext scale) hb) = hb_axis_sum ext scale dir hb.
  Proof.
    intros Hs. induction hb as [|h hb IH]; [reflexivity|].
    cbn [map hb_axis_sum fold_right]. rewrite axis_sum_cons, IH. unfold hb_axis_sum. f_equal.
    unfold conv_glyph, hb_axis_adv. rewrite Hs.
    destruct (ext scale (hb_gid h)), (is_vertical dir); reflexivity.
  Qed.
  Lemma hb_axis_sum_sideways scale dir hb : is_sideways dir = true ->
    - axis_sum false (map (conv_glyph ext scale) hb) = hb_axis_sum ext scale dir hb.
  Proof.
    intros Hs. induction hb as [|h hb IH]; [reflexivity|].
    cbn [map hb_axis_sum fold_right]. rewrite axis_sum_cons. unfold hb_axis_sum in IH |- *. rewrite <- IH.
    unfold conv_glyph, hb_axis_adv. rewrite Hs.
    destruct (ext scale (hb_gid h)); cbn [axis_adv g_xadv]; lia.
  Qed.

  Lemma conv_cross_zero v scale hb : hb_cross_zero v hb = true ->
    forallb (fun g => cross_adv v g =? 0) (map (conv_glyph ext scale) hb) = true.
  Proof.
    unfold hb_cross_zero. induction hb as [|h hb IH]; intros H; [reflexivity|].
    cbn [forallb] in H. apply andb_prop in H as [H1 H2]. cbn [map forallb]. rewrite (IH H2), andb_true_r.
    apply Z.eqb_eq in H1. apply Z.eqb_eq. unfold conv_glyph.
    destruct (ext scale (hb_gid h)), v; cbn [cross_adv g_xadv g_yadv]; try reflexivity; rewrite H1; reflexivity.
  Qed.
  Lemma sideways_cross_zero gs : forallb (fun g => cross_adv true g =? 0) (map sideways_glyph gs) = true.
  Proof. induction gs as [|g gs IH]; [reflexivity|]. cbn [map forallb]. rewrite IH. reflexivity. Qed.

  (* ---- 4. the theorems ----------------------------------------------------------------------- *)
  Notation conv := (shape_conv eng ext fext).

  (* what the engine and the extents are asked *)
  Lemma conv_asks size dir rs re :
    co_scale (conv size dir rs re) = font_scale size
    /\ co_hbdir (conv size dir rs re) = harfbuzz_dir (if is_sideways dir then horizontal_of dir else dir)
    /\ co_ids (conv size dir rs re) = map (fun h => (hb_gid h, hb_mask h)) (eng (font_scale size) (co_hbdir (conv size dir rs re)))
    /\ co_off (conv size dir rs re) = rs /\ co_count (conv size dir rs re) = re - rs /\ co_size (conv size dir rs re) = size.
  Proof.
    unfold shape_conv. cbn [co_scale co_hbdir co_ids co_off co_count co_size].
    repeat split. destruct (is_sideways dir) eqn:Hs; [apply hbdir_sideways; exact Hs|reflexivity].
  Qed.

  Lemma conv_advance_lemma size dir rs re :
    let r := conv size dir rs re in
    advance_ok (co_out r) = true
    /\ o_adv (co_out r) = hb_axis_sum ext (co_scale r) dir (eng (co_scale r) (co_hbdir r)).
  Proof.
    cbv zeta. split; [unfold shape_conv; cbn [co_out]; apply recalculate_all_advance_ok|].
    unfold shape_conv. cbn [co_out co_scale co_hbdir]. rewrite recalculate_all_eq. cbn [o_adv].
    destruct (is_sideways dir) eqn:Hs.
    - unfold sideways. cbn [o_dir o_glyphs]. rewrite is_vertical_sideways, sideways_sum, conv_glyphs_axis_sum.
      apply hb_axis_sum_sideways. exact Hs.
    - cbn [o_dir o_glyphs]. rewrite conv_glyphs_axis_sum. apply hb_axis_sum_upright. exact Hs.
  Qed.

  Lemma conv_cross_lemma size dir rs re :
    let r := conv size dir rs re in
    hb_cross_zero (engine_vertical dir) (eng (co_scale r) (co_hbdir r)) = true ->
    cross_zero (co_out r) = true.
  Proof.
    cbv zeta. unfold shape_conv, engine_vertical. cbn [co_out co_scale co_hbdir]. rewrite recalculate_all_eq.
    unfold cross_zero. cbn [o_dir o_glyphs].
    destruct (is_sideways dir) eqn:Hs; intros H.
    - unfold sideways. cbn [o_dir o_glyphs]. rewrite is_vertical_sideways. apply sideways_cross_zero.
    - cbn [o_dir o_glyphs negb] in *. rewrite andb_true_r in H. rewrite conv_glyphs_cross. apply conv_cross_zero. exact H.
  Qed.

  Lemma conv_line_lemma size dir rs re :
    let r := conv size dir rs re in
    co_line r = line_of (fext (co_scale r) (harfbuzz_dir dir))
    /\ harfbuzz_dir dir = (if is_vertical dir then (if toward dir then 7 else 6) else (if toward dir then 5 else 4))
    /\ harfbuzz_dir (o_dir (co_out r)) = harfbuzz_dir dir.
  Proof.
    cbv zeta. unfold shape_conv. cbn [co_line co_scale co_out]. rewrite recalculate_all_eq. cbn [o_dir].
    destruct (is_sideways dir) eqn:Hs.
    - unfold sideways. cbn [o_dir]. rewrite (hbdir_after_sideways dir Hs). split; [reflexivity|].
      split; [|reflexivity]. unfold harfbuzz_dir. destruct (toward dir), (is_vertical dir); reflexivity.
    - cbn [o_dir]. split; [reflexivity|]. split; [|reflexivity].
      unfold harfbuzz_dir. destruct (toward dir), (is_vertical dir); reflexivity.
  Qed.

  Lemma line_of_exact fe :
    exact_range (f_trunc (fe_asc fe)) -> exact_range (f_trunc (fe_desc fe)) -> exact_range (f_trunc (fe_gap fe)) ->
    line_of fe = mkBounds (f_trunc (fe_asc fe)) (f_trunc (fe_desc fe)) (f_trunc (fe_gap fe)).
  Proof. unfold exact_range, line_of. intros A B C. rewrite !fix_conv_exact by assumption. reflexivity. Qed.

  Lemma conv_sideways_lemma size dir rs re : is_sideways dir = true ->
    let v := conv size dir rs re in
    let h := conv size (horizontal_of dir) rs re in
    hb_cross_zero false (eng (co_scale h) (co_hbdir h)) = true ->
    sideways_ok (co_out h) (co_out v) = true
    /\ co_hbdir v = co_hbdir h /\ co_scale v = co_scale h /\ co_ids v = co_ids h
    /\ co_off v = co_off h /\ co_count v = co_count h /\ co_size v = co_size h
    /\ co_line v = line_of (fext (co_scale v) (harfbuzz_dir dir))
    /\ co_line h = line_of (fext (co_scale h) (harfbuzz_dir (horizontal_of dir))).
  Proof.
    intros Hs. cbv zeta. intros Hc.
    pose proof (conv_line_lemma size dir rs re) as Lv. pose proof (conv_line_lemma size (horizontal_of dir) rs re) as Lh.
    cbv zeta in Lv, Lh. destruct Lv as [Lv _]. destruct Lh as [Lh _].
    split; [|repeat split; try assumption; unfold shape_conv; cbn [co_hbdir co_ids];
             rewrite Hs, sideways_horizontal_of, (hbdir_sideways dir Hs); reflexivity].
    revert Hc. unfold shape_conv. cbn [co_out co_scale co_hbdir]. rewrite Hs, sideways_horizontal_of.
    rewrite (hbdir_sideways dir Hs), toward_switch, toward_horizontal_of. intros Hc.
    set (gs := conv_glyphs ext (font_scale size) re (toward dir) (eng (font_scale size) (harfbuzz_dir (horizontal_of dir)))).
    set (h0 := mkOut 0 gs (mkBounds 0 0 0) (horizontal_of dir)).
    replace (sideways (mkOut 0 gs (mkBounds 0 0 0) (switch_axis dir))) with (sideways h0).
    - apply sideways_lemma.
      + apply vertical_horizontal_of.
      + unfold cross_zero, h0. cbn [o_dir o_glyphs]. rewrite vertical_horizontal_of. unfold gs.
        rewrite conv_glyphs_cross. apply conv_cross_zero. exact Hc.
    - unfold sideways, h0. cbn [o_adv o_glyphs o_gbounds o_dir]. f_equal.
      unfold set_sideways_true. symmetry. apply lor14_switch_horizontal.
  Qed.
End ConvProofs.
