(* C02 "Advance = sum of the glyph advances" at RETURN time, for every text run of the line a WrapNextLine call returns,
   judged on the store as it is when the call returns - for stores that carry no start letter spacing (NS: g_sls = 0 for
   every glyph; the start-letter-spacing trim of cutRun is then the identity).
   The argument: (1) the two loops of wrapNextLine do not touch the store and every run they place (whole runs recomputed by
   fillUntil, pieces recomputed by cutRun) has Advance = sum on it; (2) postProcessLine zeroes the advance of at most one
   glyph, inside the glyph slice of the last visual run, and recomputes that run's Advance; the glyph lies in no other
   run of the line (the runs of a line are exact pieces of the input runs over disjoint rune ranges, and every cluster
   holds at least one rune), so every other run keeps Advance = sum. *)
From TV Require Import Model.Wrap Spec.Wrap Spec.WrapCut Proofs.Wrap Proofs.WrapCut Proofs.WrapLines Proofs.WrapTotal Proofs.WrapStore
  Proofs.WrapMand2 Proofs.WrapWidth Proofs.WrapGreedy.

Definition NS (st : store) : Prop := Forall (Forall (fun g => g_sls g = 0)) st.
Definition aok (st : store) (r : out) : Prop := o_adv r = sum_adv (out_glyphs st r).

Lemma list_set_same : forall {A} (l : list A) k x, (forall y, nth_error l k = Some y -> x = y) -> list_set l k x = l.
Proof.
  induction l as [|a l IH]; intros k x H; cbn; [reflexivity|]. destruct k; cbn.
  - f_equal. apply H. reflexivity.
  - f_equal. apply IH. intros y Hy. apply H. exact Hy.
Qed.

Lemma trim_id : forall g, g_sls g = 0 -> trim_glyph g = g.
Proof. intros [c rc gc a e o s l] H. cbn in H. subst s. unfold trim_glyph. cbn. f_equal; lia. Qed.

Lemma store_update_id : forall st src i f, (forall arr g, In arr st -> In g arr -> f g = g) -> store_update st src i f = st.
Proof.
  intros st src i f H. unfold store_update, src_array, zset.
  destruct (src <? 0) eqn:E1; [reflexivity|]. apply Z.ltb_ge in E1.
  apply list_set_same. intros arr Ha. rewrite (nth_error_znth [] st src arr E1 Ha).
  destruct (i <? 0) eqn:E2; [reflexivity|]. apply Z.ltb_ge in E2.
  apply list_set_same. intros g Hg. rewrite (nth_error_znth glyph_zero arr i g E2 Hg).
  apply (H arr g); eapply nth_error_In; eauto.
Qed.

Lemma NS_trim : forall st src i, NS st -> store_update st src i trim_glyph = st.
Proof.
  intros st src i H. apply store_update_id. intros arr g Ha Hg. apply trim_id.
  unfold NS in H. rewrite Forall_forall in H. specialize (H arr Ha). rewrite Forall_forall in H. exact (H g Hg).
Qed.

Lemma aok_recompute : forall st o, aok st (recompute_advance st o).
Proof. intros st o. unfold aok, recompute_advance. destruct o; reflexivity. Qed.

Lemma cut_run_NS : forall st run m s e t st' r, NS st -> cut_run st run m s e t = Ok (st', r) -> st' = st /\ aok st r.
Proof.
  intros st run m s e t st' r HN H. pose proof (cut_run_fields _ _ _ _ _ _ _ _ H) as (_ & _ & _ & _ & _ & A).
  assert (E : st' = st).
  { unfold cut_run in H. destruct (inclusive_glyph_range _ _ _ _ _) as [[gs gend]| | |]; cbn [bind] in H; try discriminate.
    cbv zeta in H. destruct (_ && _ && _); [|discriminate]. injection H as <- _.
    destruct (t && _); [apply NS_trim; exact HN|reflexivity]. }
  subst st'. split; [reflexivity|exact A].
Qed.

(* ---- the loops: the store is not touched, every run placed has Advance = sum -------------------------------------- *)

Definition AOK (st : store) (w : W) : Prop :=
  w_st w = st /\ Forall (aok st) (s_alt (w_sc w)) /\ Forall (aok st) (s_save (w_sc w))
  /\ (forall l, s_best (w_sc w) = Some l -> Forall (aok st) l).

Lemma AOK_ext : forall st w w', w_st w' = w_st w -> w_sc w' = w_sc w -> AOK st w -> AOK st w'.
Proof. intros st w w' A B H. unfold AOK in *. rewrite A, B. exact H. Qed.

Lemma AOK_append : forall st w r, AOK st w -> aok st r -> AOK st (cand_append w r).
Proof.
  intros st w r (A & B & C & D) Hr. unfold AOK. destruct w as [? ? ? ? ? ? ? ? ? [? ? ? ? ?] ?]; cbn in *.
  split; [exact A|]. split; [apply Forall_app; split; [exact B|constructor; [exact Hr|constructor]]|]. split; [exact C|exact D].
Qed.
Lemma AOK_checkpoint : forall st w, AOK st w -> AOK st (checkpoint w).
Proof. intros st w (A & B & C & D). unfold AOK. destruct w as [? ? ? ? ? ? ? ? ? [? ? ? ? ?] ?]; cbn in *. auto. Qed.
Lemma AOK_restore : forall st w, AOK st w -> AOK st (restore w).
Proof. intros st w (A & B & C & D). unfold AOK. destruct w as [? ? ? ? ? ? ? ? ? [? ? ? ? ?] ?]; cbn in *. auto. Qed.
Lemma AOK_mark : forall st w sfx, AOK st w -> Forall (aok st) sfx -> AOK st (mark_best w sfx).
Proof.
  intros st w sfx (A & B & C & D) Hs. unfold AOK. destruct w as [? ? ? ? ? ? ? ? ? [? ? ? ? ?] ?]; cbn in *.
  split; [exact A|]. split; [exact B|]. split; [exact C|]. intros l E. injection E as <-. apply Forall_app. auto.
Qed.
Lemma AOK_set_br : forall st w b, AOK st w -> AOK st (set_br w b).
Proof. intros st w b H. eapply AOK_ext; [| |exact H]; destruct w; reflexivity. Qed.
Lemma AOK_iter : forall st w, AOK st w -> AOK st (iter_advance w).
Proof. intros st w H. eapply AOK_ext; [| |exact H]; destruct w; reflexivity. Qed.
Lemma AOK_set_mp : forall st w mp, AOK st w -> AOK st (set_mp w mp).
Proof. intros st w b H. eapply AOK_ext; [| |exact H]; destruct w; reflexivity. Qed.

Lemma fill_until_A : forall st, NS st -> forall fuel w b w', AOK st w -> fill_until fuel w b = Ok w' -> AOK st w'.
Proof.
  intros st HN. induction fuel as [|fuel IH]; intros w b w' HA H; cbn [fill_until] in H; [discriminate|].
  destruct (peek w) as [[ci run] more].
  destruct (more && (o_cnt run + o_off run <=? b)); [|inversion H; subst; exact HA].
  destruct (o_off run + o_cnt run <=? w_start w).
  - apply (IH _ _ _ (AOK_iter _ _ HA) H).
  - destruct (o_off run <? w_start w).
    + destruct (map_run w ci run) as [w1| | |] eqn:MR; cbn [bind] in H; try discriminate.
      destruct (map_run_set _ _ _ _ MR) as [mp ->].
      destruct (cut_run _ run _ _ _ _) as [[st' rc]| | |] eqn:CR; cbn [bind fst snd] in H; try discriminate.
      pose proof (AOK_set_mp st w mp HA) as HA1.
      replace (w_st (set_mp w mp)) with st in CR by (destruct HA as [<- _]; destruct w; reflexivity).
      destruct (cut_run_NS _ _ _ _ _ _ _ _ HN CR) as [-> Hr].
      assert (A3 : AOK st (set_st (set_mp w mp) st)).
      { eapply AOK_ext; [| |exact HA1]; [destruct HA1 as [E _]; destruct w; cbn in *; congruence|destruct w; reflexivity]. }
      apply (IH _ _ _ (AOK_iter _ _ (AOK_append st _ rc A3 Hr)) H).
    + cbn [bind fst snd] in H.
      apply (IH _ _ _ (AOK_iter _ _ (AOK_append st w _ HA ltac:(destruct HA as [<- _]; apply aok_recompute))) H).
Qed.

Lemma pbo_A : forall st, NS st -> forall w opt lc w' r cand, AOK st w -> process_break_option w opt lc = Ok (w', r, cand) ->
  AOK st w' /\ (r <> BreakInvalid -> aok st cand).
Proof.
  intros st HN w opt lc w' r cand HA H. unfold process_break_option in H.
  destruct (fst opt <? w_start w); [inversion H; subst; split; [exact HA|congruence]|].
  destruct (fill_until _ w (fst opt)) as [w1| | |] eqn:FU; cbn [bind] in H; try discriminate.
  pose proof (fill_until_A st HN _ _ _ _ HA FU) as A1.
  destruct (peek w1) as [[ci run] mr].
  destruct (map_run w1 ci run) as [w2| | |] eqn:MR; cbn [bind] in H; try discriminate.
  destruct (map_run_set _ _ _ _ MR) as [mp ->].
  pose proof (AOK_set_mp st w1 mp A1) as A2.
  destruct (is_valid _ _ _ run) as [v| | |]; cbn [bind] in H; try discriminate.
  destruct v; cbn [negb] in H; [|inversion H; subst; split; [exact A2|congruence]].
  destruct (cut_run _ run _ _ _ _) as [[st' rc]| | |] eqn:CR; cbn [bind fst snd] in H; try discriminate.
  replace (w_st (set_mp w1 mp)) with st in CR by (destruct A2 as [<- _]; reflexivity).
  destruct (cut_run_NS _ _ _ _ _ _ _ _ HN CR) as [-> Hr].
  assert (A3 : AOK st (set_st (set_mp w1 mp) st)).
  { eapply AOK_ext; [| |exact A2]; [destruct A2 as [E _]; destruct w1; cbn in *; congruence|destruct w1; reflexivity]. }
  cbv zeta in H.
  repeat match type of H with context [if ?c then _ else _] => destruct c end; inversion H; subst; (split; [exact A3|intros _; exact Hr]).
Qed.

Lemma Forall1 : forall {A} (P : A -> Prop) x, P x -> Forall P [x].
Proof. intros. constructor; [assumption|constructor]. Qed.

Lemma word_fallback_A : forall st, NS st -> forall w wopt lc w' d, AOK st w -> word_fallback w wopt lc = Ok (w', d) -> AOK st w'.
Proof.
  intros st HN w wopt lc w' d HA H. unfold word_fallback in H.
  destruct (negb (lc_truncating lc) && negb (has_best w)); [|inversion H; subst; exact HA].
  destruct (process_break_option (restore w) wopt lc) as [[[w3 r] cand]| | |] eqn:PB; cbn [bind] in H; try discriminate.
  destruct (pbo_A st HN _ _ _ _ _ _ (AOK_restore _ _ HA) PB) as [A3 Hc].
  destruct r; inversion H; subst; first [apply AOK_restore; exact A3 | apply AOK_mark; [exact A3|apply Forall1; apply Hc; discriminate]].
Qed.

Lemma inner_A : forall st, NS st -> forall fuel w wopt lc w' d, AOK st w -> inner_loop fuel w wopt lc = Ok (w', d) -> AOK st w'.
Proof.
  intros st HN. induction fuel as [|fuel IH]; intros w wopt lc w' d HA H; cbn [inner_loop] in H; [discriminate|].
  destruct (next_grapheme_break _ _) as [[b1 ro]| | |]; cbn [bind fst snd] in H; try discriminate.
  pose proof (AOK_set_br st _ b1 (AOK_checkpoint st w HA)) as A2.
  destruct ro as [opt|]; [|exact (word_fallback_A st HN _ _ _ _ _ A2 H)].
  destruct (process_break_option _ opt lc) as [[[w3 r] cand]| | |] eqn:PB; cbn [bind] in H; try discriminate.
  destruct (pbo_A st HN _ _ _ _ _ _ A2 PB) as [A3 Hc].
  destruct r; cbv beta iota zeta in H.
  - apply (IH _ _ _ _ _ (AOK_restore _ _ A3) H).
  - inversion H; subst. apply AOK_mark; [exact A3|apply Forall1; apply Hc; discriminate].
  - inversion H; subst. destruct (has_best w3); [exact A3|apply AOK_mark; [apply AOK_restore; exact A3|constructor]].
  - inversion H; subst. apply AOK_set_br. apply AOK_restore. exact A3.
  - apply (IH _ _ _ _ _ (AOK_set_br _ _ _ (AOK_mark _ _ _ A3 (Forall1 _ _ (Hc ltac:(discriminate))))) H).
  - destruct (lc_truncating lc); inversion H; subst; [exact A3|].
    apply AOK_set_br. apply AOK_mark; [exact A3|apply Forall1; apply Hc; discriminate].
Qed.

Lemma outer_A : forall st, NS st -> forall fuel w lc w' d, AOK st w -> outer_loop fuel w lc = Ok (w', d) -> AOK st w'.
Proof.
  intros st HN. induction fuel as [|fuel IH]; intros w lc w' d HA H; cbn [outer_loop] in H; [discriminate|].
  destruct (next_word_break _) as [b1 ro].
  pose proof (AOK_set_br st _ b1 (AOK_checkpoint st w HA)) as A2.
  destruct ro as [opt|]; [|inversion H; subst; exact A2].
  destruct (process_break_option _ opt lc) as [[[w3 r] cand]| | |] eqn:PB; cbn [bind] in H; try discriminate.
  destruct (pbo_A st HN _ _ _ _ _ _ A2 PB) as [A3 Hc].
  assert (G : forall wx, AOK st wx -> inner_loop (br_fuel wx) (restore wx) opt lc = Ok (w', d) -> AOK st w').
  { intros wx Hx Hi. apply (inner_A st HN _ _ _ _ _ _ (AOK_restore _ _ Hx) Hi). }
  destruct r; cbv beta iota zeta in H.
  - apply (IH _ _ _ _ (AOK_set_br _ _ _ (AOK_restore _ _ A3)) H).
  - inversion H; subst. apply AOK_mark; [exact A3|apply Forall1; apply Hc; discriminate].
  - assert (A4 : AOK st (if has_best w3 then w3 else mark_best (restore w3) [])).
    { destruct (has_best w3); [exact A3|apply AOK_mark; [apply AOK_restore; exact A3|constructor]]. }
    destruct (policy_never _); [inversion H; subst; exact A4|exact (G _ A4 H)].
  - pose proof (AOK_set_br st _ (mark_word_unused (w_br (restore w3))) (AOK_restore _ _ A3)) as A4.
    destruct (_ || _); [inversion H; subst; exact A4|exact (G _ A4 H)].
  - pose proof (AOK_mark _ _ _ A3 (Forall1 _ _ (Hc ltac:(discriminate)))) as A4.
    destruct (snd opt); [inversion H; subst; exact A4|exact (IH _ _ _ _ A4 H)].
  - destruct (policy_never w3); [|exact (G _ A3 H)].
    destruct (lc_truncating lc); inversion H; subst; [exact A3|].
    apply AOK_mark; [exact A3|apply Forall1; apply Hc; discriminate].
Qed.

(* ---- postProcessLine ---------------------------------------------------------------------------------------------- *)

Definition ga (o : out) := (geo o, o_adv o).
Lemma aok_ga : forall st a b, ga a = ga b -> aok st a -> aok st b.
Proof.
  intros st a b H A. pose proof (f_equal fst H) as G. pose proof (f_equal snd H) as Ad. cbn in G, Ad. unfold aok in *. rewrite <- Ad.
  rewrite <- (out_glyphs_geo st a b G). exact A.
Qed.
Lemma Forall_aok_ga : forall st l l', map ga l' = map ga l -> Forall (aok st) l -> Forall (aok st) l'.
Proof.
  intros st l l'. revert l. induction l' as [|x l' IH]; intros l R F; destruct l as [|y l]; try discriminate; [constructor|].
  cbn [map] in R. pose proof (f_equal (hd (ga x)) R) as R1. pose proof (f_equal (@tl _) R) as R2. cbn in R1, R2.
  inversion F; subst. constructor; [eapply aok_ga; [symmetry; exact R1|assumption]|eapply IH; eauto].
Qed.
Lemma assign_vis_ga : forall l vs, map ga (assign_vis l vs) = map ga l.
Proof. induction l; intros vs; destruct vs; cbn [assign_vis map]; auto. f_equal. apply IHl. Qed.
Lemma bidi_go_ga : forall dir len l idx seg, map ga (bidi_go dir len idx seg l) = map ga (seg ++ l).
Proof.
  induction l as [|a l IH]; intros idx seg; cbn [bidi_go].
  - rewrite app_nil_r. apply assign_vis_ga.
  - destruct (o_dir a =? dir).
    + rewrite !map_app. cbn [map]. rewrite IH. cbn [app map]. unfold swap_visual_order. rewrite assign_vis_ga. reflexivity.
    + rewrite IH. rewrite <- app_assoc. cbn [app]. rewrite !map_app. reflexivity.
Qed.
Lemma bidi_ga : forall dir l, map ga (compute_bidi_ordering dir l) = map ga l.
Proof. intros. unfold compute_bidi_ordering. apply bidi_go_ga. Qed.

(* list surgery *)
Lemma list_set_nth_error_other : forall {A} (l : list A) k x j, j <> k -> nth_error (list_set l k x) j = nth_error l j.
Proof.
  induction l as [|a l IH]; intros k x j H; cbn; [reflexivity|]. destruct k; destruct j; cbn; try reflexivity; try congruence.
  apply IH. congruence.
Qed.
Lemma list_set_length : forall {A} (l : list A) k x, length (list_set l k x) = length l.
Proof. induction l as [|a l IH]; intros k x; cbn; [reflexivity|]. destruct k; cbn; [reflexivity|]. f_equal. apply IH. Qed.

Lemma firstn_skipn_ext : forall {A} lo len (l l' : list A), length l = length l' ->
  (forall j, (lo <= j < lo + len)%nat -> nth_error l j = nth_error l' j) -> firstn len (skipn lo l) = firstn len (skipn lo l').
Proof.
  induction lo as [|lo IH]; intros len l l' HL H.
  - cbn [skipn]. revert l l' HL H. induction len as [|len IHl]; intros l l' HL H; [reflexivity|].
    destruct l as [|a l]; destruct l' as [|a' l']; try discriminate; [reflexivity|]. cbn [firstn].
    pose proof (H 0%nat ltac:(lia)) as H0. cbn in H0. injection H0 as ->. f_equal.
    apply IHl; [cbn in HL; lia|]. intros j Hj. apply (H (S j)). lia.
  - destruct l as [|a l]; destruct l' as [|a' l']; try discriminate; [reflexivity|]. cbn [skipn].
    apply IH; [cbn in HL; lia|]. intros j Hj. apply (H (S j)). lia.
Qed.

(* a glyph inside the slice of an exact piece has its cluster inside the piece's rune range *)
Lemma pgo_at : forall gs i0 lo hi a b, piece_glyphs_ok gs i0 lo hi a b = true ->
  forall k G, nth_error gs k = Some G -> lo <= i0 + Z.of_nat k < hi -> a <= g_cluster G /\ g_cluster G + g_rc G <= b.
Proof.
  induction gs as [|g gs IH]; intros i0 lo hi a b H k G HG Hk; [destruct k; discriminate|].
  cbn [piece_glyphs_ok] in H. apply andb_prop in H. destruct H as [H1 H2].
  destruct k as [|k]; cbn in HG.
  - injection HG as ->. replace ((lo <=? i0) && (i0 <? hi)) with true in H1 by (symmetry; apply andb_true_intro; split; [apply Z.leb_le|apply Z.ltb_lt]; lia).
    apply andb_prop in H1. destruct H1 as [A B]. apply Z.leb_le in A, B. lia.
  - apply (IH (i0 + 1) lo hi a b H2 k G HG). lia.
Qed.

(* every glyph of an input array holds at least one rune *)
Lemma wf_rc_pos : forall st rs n k G, wf_runs st rs n = true -> 0 <= k < zlen rs -> In G (src_array st k) -> 1 <= g_rc G.
Proof.
  intros st rs n k G HW Hk HG. destruct (wf_runs_nth st rs n HW k Hk) as (_ & _ & _ & _ & _ & WG & _).
  apply wf_glyphs_clusters in WG. apply (cl_in _ _ _ WG G).
  unfold logical_glyphs. destruct (dir_rtl _); [apply in_rev; rewrite rev_involutive; exact HG|exact HG].
Qed.

Lemma nth_list_set : forall {A} (l : list A) k x j d,
  nth j (list_set l k x) d = if (j =? k)%nat && (k <? length l)%nat then x else nth j l d.
Proof.
  induction l as [|a l IH]; intros k x j d; cbn [list_set].
  - rewrite andb_false_r. reflexivity.
  - destruct k; destruct j; cbn [nth]; try reflexivity.
    rewrite IH. reflexivity.
Qed.

(* an edit of one glyph inside the slice of the exact piece f leaves the glyphs of every exact piece over a disjoint rune
   range as they were *)
Lemma other_piece_untouched : forall st rs n y f gi h,
  wf_runs st rs n = true -> PO st rs y -> PO st rs f ->
  (out_end y <= o_off f \/ out_end f <= o_off y) ->
  o_lo f <= gi < o_lo f + o_len f ->
  out_glyphs (store_update st (o_src f) gi h) y = out_glyphs st y.
Proof.
  intros st rs n y f gi h HW Py Pf Hd Hgi.
  pose proof Py as Py'. pose proof Pf as Pf'. unfold PO, piece_ok in Py', Pf'.
  repeat (apply andb_prop in Py'; destruct Py' as [Py' ?]). repeat (apply andb_prop in Pf'; destruct Pf' as [Pf' ?]).
  repeat match goal with H : (_ <=? _) = true |- _ => apply Z.leb_le in H | H : (_ <? _) = true |- _ => apply Z.ltb_lt in H end.
  assert (Gy : piece_glyphs_ok (src_array st (o_src y)) 0 (o_lo y) (o_lo y + o_len y) (o_off y) (out_end y) = true) by assumption.
  assert (Gf : piece_glyphs_ok (src_array st (o_src f)) 0 (o_lo f) (o_lo f + o_len f) (o_off f) (out_end f) = true) by assumption.
  unfold out_glyphs, store_update, src_array, zset.
  destruct (o_src f <? 0) eqn:E0; [reflexivity|]. apply Z.ltb_ge in E0.
  destruct (gi <? 0) eqn:E1; [apply Z.ltb_lt in E1; lia|].
  set (arr := znth [] st (o_src f)) in *.
  set (X := h (znth glyph_zero arr gi)).
  unfold znth at 1. destruct (o_src y <? 0) eqn:E2; [unfold znth; rewrite E2; reflexivity|]. apply Z.ltb_ge in E2.
  rewrite nth_list_set.
  destruct (Z.eq_dec (o_src y) (o_src f)) as [Es|Es].
  2:{ replace (Z.to_nat (o_src y) =? Z.to_nat (o_src f))%nat with false by (symmetry; apply Nat.eqb_neq; lia). cbn [andb].
      unfold znth. replace (o_src y <? 0) with false by (symmetry; apply Z.ltb_ge; lia). reflexivity. }
  rewrite Es in *. rewrite Nat.eqb_refl. cbn [andb].
  assert (Harr : (if (Z.to_nat (o_src f) <? length st)%nat then list_set arr (Z.to_nat gi) X else nth (Z.to_nat (o_src f)) st [])
                 = list_set arr (Z.to_nat gi) X).
  { destruct (Z.to_nat (o_src f) <? length st)%nat eqn:E3; [reflexivity|]. apply Nat.ltb_ge in E3.
    assert (Q : arr = []) by (unfold arr, znth; replace (o_src f <? 0) with false by (symmetry; apply Z.ltb_ge; lia); apply nth_overflow; exact E3).
    rewrite Q. rewrite nth_overflow by exact E3. reflexivity. }
  rewrite Harr. fold arr. unfold zfirstn, zskipn.
  apply firstn_skipn_ext; [apply list_set_length|].
  intros j Hj. apply list_set_nth_error_other. intros ->.
  (* the edited glyph would lie in both slices *)
  assert (HG : exists G, nth_error arr (Z.to_nat gi) = Some G).
  { destruct (nth_error arr (Z.to_nat gi)) eqn:E; [eauto|]. apply nth_error_None in E. exfalso. unfold src_array, zlen in *. unfold arr in E. lia. }
  destruct HG as [G HG].
  unfold src_array in Gy, Gf. fold arr in Gy, Gf.
  destruct (pgo_at _ _ _ _ _ _ Gf _ _ HG ltac:(lia)) as [F1 F2].
  destruct (pgo_at _ _ _ _ _ _ Gy _ _ HG ltac:(lia)) as [Y1 Y2].
  pose proof (wf_rc_pos st rs n (o_src f) G HW ltac:(lia) ltac:(unfold src_array; fold arr; eapply nth_error_In; eauto)) as RC.
  lia.
Qed.

Lemma Forall_list_set' : forall {A} (P : A -> Prop) l k x,
  (forall i y, nth_error l i = Some y -> i <> k -> P y) -> P x -> Forall P (list_set l k x).
Proof.
  intros A P. induction l as [|a l IH]; intros k x H Hx; cbn; [constructor|]. destruct k; cbn.
  - constructor; [exact Hx|]. apply Forall_forall. intros y Hy. destruct (In_nth_error _ _ Hy) as [i Hi]. apply (H (S i) y Hi). lia.
  - constructor; [apply (H 0%nat a); [reflexivity|lia]|]. apply IH; [|exact Hx]. intros i y Hi Hne. apply (H (S i) y Hi). lia.
Qed.

Lemma chain_nth_disjoint : forall l s e i k y f, chain s l e -> all_pos l ->
  nth_error l i = Some y -> nth_error l k = Some f -> i <> k -> out_end y <= o_off f \/ out_end f <= o_off y.
Proof.
  induction l as [|a l IH]; intros s e i k y f C P Hi Hk Hne; [destruct i; discriminate|].
  destruct (chain_cons_inv _ _ _ _ C) as [C1 C2]. inversion P; subst.
  destruct i as [|i]; destruct k as [|k]; cbn in Hi, Hk; try lia.
  - injection Hi as <-. left. destruct (chain_in_bounds _ _ _ _ C2 H2 (nth_error_In _ _ Hk)). unfold out_end in *. lia.
  - injection Hk as <-. right. destruct (chain_in_bounds _ _ _ _ C2 H2 (nth_error_In _ _ Hi)). unfold out_end in *. lia.
  - apply (IH _ _ i k y f C2 H2 Hi Hk). lia.
Qed.

Lemma znth_nth_error_len : forall l g, 0 < o_len (znth out_zero l g) -> 0 <= g /\ nth_error l (Z.to_nat g) = Some (znth out_zero l g).
Proof.
  intros l g H. unfold znth in *. destruct (g <? 0) eqn:E; [cbn in H; lia|]. apply Z.ltb_ge in E. split; [exact E|].
  destruct (nth_error l (Z.to_nat g)) eqn:N; [rewrite (nth_error_nth _ _ _ N); reflexivity|].
  apply nth_error_None in N. rewrite nth_overflow in H by exact N. cbn in H. lia.
Qed.

Lemma Forall_ga : forall (P : out -> Prop), (forall a b, ga a = ga b -> P a -> P b) ->
  forall l l', map ga l' = map ga l -> Forall P l -> Forall P l'.
Proof.
  intros P HP l l'. revert l. induction l' as [|x l' IH]; intros l R F; destruct l as [|y l]; try discriminate; [constructor|].
  cbn [map] in R. pose proof (f_equal (hd (ga x)) R) as R1. pose proof (f_equal (@tl _) R) as R2. cbn in R1, R2.
  inversion F; subst. constructor; [eapply HP; [symmetry; exact R1|assumption]|eapply IH; eauto].
Qed.
Lemma ga_geo : forall a b, ga a = ga b -> geo a = geo b.
Proof. intros a b H. exact (f_equal fst H). Qed.
Lemma map_ga_geo : forall l l', map ga l' = map ga l -> map geo l' = map geo l.
Proof.
  intros l l'. revert l. induction l' as [|x l' IH]; intros l R; destruct l as [|y l]; try discriminate; [reflexivity|].
  cbn [map] in *. pose proof (f_equal (hd (ga x)) R) as R1. pose proof (f_equal (@tl _) R) as R2. cbn in R1, R2.
  f_equal; [apply ga_geo; exact R1|apply IH; exact R2].
Qed.
Lemma map_ga_rng : forall l l', map ga l' = map ga l -> map rng l' = map rng l.
Proof.
  intros l l'. revert l. induction l' as [|x l' IH]; intros l R; destruct l as [|y l]; try discriminate; [reflexivity|].
  cbn [map] in *. pose proof (f_equal (hd (ga x)) R) as R1. pose proof (f_equal (@tl _) R) as R2. cbn in R1, R2.
  f_equal; [|apply IH; exact R2]. apply ga_geo in R1. apply geo_fields in R1. destruct R1 as (_ & A & B & C & _). unfold rng. congruence.
Qed.

(* postProcessLine, first half: bidi ordering and the trailing-whitespace trim *)
Lemma pp_first_A : forall st rs n w l s e w1 l1,
  wf_runs st rs n = true -> w_st w = st -> Forall (aok st) l -> Forall (PO st rs) l -> chain s l e -> all_pos l ->
  pp_first w (Some l) = (w1, l1) -> exists fl, l1 = Some fl /\ Forall (aok (w_st w1)) fl.
Proof.
  intros st rs n w l s e w1 l1 HW Hst HA HP HC Hpos H. unfold pp_first in H.
  destruct l as [|a l0]; [injection H as <- <-; exists []; split; [reflexivity|constructor]|].
  set (fl := compute_bidi_ordering (c_dir (w_cfg w)) (a :: l0)) in *.
  pose proof (bidi_ga (c_dir (w_cfg w)) (a :: l0)) as G. fold fl in G. clearbody fl.
  assert (A1 : Forall (aok st) fl) by (eapply Forall_aok_ga; eauto).
  assert (P1 : Forall (PO st rs) fl).
  { eapply (Forall_ga (PO st rs)); [|exact G|exact HP]. intros x y E Hx. unfold PO in *. rewrite <- (piece_ok_geo st rs x y (ga_geo _ _ E)). exact Hx. }
  assert (C1 : chain s fl e) by (unfold chain; rewrite (chain_rng _ _ _ (map_ga_rng _ _ G)); exact HC).
  assert (Q1 : all_pos fl).
  { eapply (Forall_ga (fun o => 0 < o_cnt o)); [|exact G|exact Hpos]. intros x y E Hx. apply ga_geo in E. apply geo_fields in E. destruct E as (_ & _ & E & _). lia. }
  destruct (c_notrim (w_cfg w)).
  { injection H as <- <-. exists fl. split; [reflexivity|]. destruct w; cbn in *. subst. exact A1. }
  cbv zeta in H. set (goal := match find_vis fl _ 0 with Some i => i | None => _ end) in H. clearbody goal.
  destruct (0 <? o_len (znth out_zero fl goal)) eqn:EL.
  2:{ injection H as <- <-. exists fl. split; [reflexivity|]. destruct w; cbn in *. subst. exact A1. }
  apply Z.ltb_lt in EL. destruct (znth_nth_error_len fl goal EL) as [Hg0 Hgn].
  set (fvr := znth out_zero fl goal) in *.
  set (gi := if dir_rtl (c_dir (w_cfg w)) then o_lo fvr else o_lo fvr + o_len fvr - 1) in H.
  assert (Hgi : o_lo fvr <= gi < o_lo fvr + o_len fvr) by (unfold gi; destruct (dir_rtl _); lia).
  rewrite Hst in H. set (st' := store_update st (o_src fvr) gi zero_adv) in H.
  injection H as <- <-. eexists. split; [reflexivity|].
  replace (w_st (set_start (set_st w st') _)) with st' by (destruct w; reflexivity).
  unfold zset. replace (goal <? 0) with false by (symmetry; apply Z.ltb_ge; lia).
  assert (Pf : PO st rs fvr) by (rewrite Forall_forall in P1; apply P1; eapply nth_error_In; eauto).
  apply Forall_list_set'; [|apply aok_recompute].
  intros i y Hi Hne.
  assert (Py : PO st rs y) by (rewrite Forall_forall in P1; apply P1; eapply nth_error_In; eauto).
  assert (Ay : aok st y) by (rewrite Forall_forall in A1; apply A1; eapply nth_error_In; eauto).
  unfold aok in *. unfold st'. rewrite (other_piece_untouched st rs n y fvr gi zero_adv HW Py Pf); [exact Ay| |exact Hgi].
  eapply chain_nth_disjoint; eauto.
Qed.

(* ---- one WrapNextLine call ---------------------------------------------------------------------------------------- *)

Lemma text_runs_Forall : forall (P : out -> Prop) tsrc l, Forall (fun r => o_src r <> tsrc -> P r) l -> Forall P (text_runs tsrc l).
Proof.
  intros P tsrc l H. unfold text_runs. apply Forall_forall. intros r Hr. apply filter_In in Hr. destruct Hr as [Hr1 Hr2].
  rewrite Forall_forall in H. apply (H r Hr1). unfold is_text in Hr2. apply negb_true_iff in Hr2. apply Z.eqb_neq. exact Hr2.
Qed.

Lemma pp_tail_line : forall cfg w line done w' wl d', pp_tail cfg w line done = (w', wl, d') ->
  w_st w' = w_st w
  /\ (wl_line wl = line
      \/ exists t l, wl_line wl = Some l /\ o_src t = o_src (c_truncator cfg)
           /\ map ga l = map ga ((match line with Some x => x | None => [] end) ++ [t])).
Proof.
  intros cfg w line done w' wl d' H. unfold pp_tail in H.
  destruct (w_truncating w).
  - destruct (c_trunc cfg - 1 =? 0).
    + destruct (_ || c_cont cfg); injection H as <- <- <-; cbn; (split; [destruct w; reflexivity|]).
      * right. eexists _, _. split; [reflexivity|]. split; [|apply bidi_ga]. reflexivity.
      * left. reflexivity.
    + destruct (done || _); injection H as <- <- <-; cbn; (split; [destruct w; reflexivity|left; reflexivity]).
  - destruct (done || _); injection H as <- <- <-; cbn; (split; [destruct w; reflexivity|left; reflexivity]).
Qed.

Lemma wnl_adv : forall n attrs w mw w' wl d line,
  CI n attrs w -> XB n w -> w_more w = true -> NS (w_st w) -> zlen (w_runs w) <= o_src (c_truncator (w_cfg w)) ->
  wrap_next_line w mw = Ok (w', wl, d) -> wl_line wl = Some line ->
  Forall (aok (w_st w')) (text_runs (o_src (c_truncator (w_cfg w))) line).
Proof.
  intros n attrs w mw w' wl d line HC HB Hm HN Hts H Hline. unfold wrap_next_line in H. rewrite Hm in H. cbn [negb] in H.
  destruct (CI_peek n attrs w HC) as (ci & run & PK). rewrite PK in H. cbn [negb] in H.
  destruct (CI_start_line n attrs w HC) as (T0 & O0 & A0 & N0 & Acc0).
  pose proof (XI_start_line n w HB) as X0.
  set (lc := mkLC _ _ _) in H.
  pose proof (outer_safe n (loop_fuel (start_line w)) (start_line w) lc T0 O0 X0) as OS.
  destruct (outer_loop _ (start_line w) lc) as [[w2 d2]| | |] eqn:OL; cbn [bind] in H; try discriminate.
  destruct OS as [X2 S2].
  destruct (outer_loop_ok n _ _ _ _ _ (proj1 (proj1 T0)) OL) as [I2 O2].
  destruct (outer_loop_J n (phi n (w_br w)) attrs _ _ _ _ _ T0 O0 (N0 lc) A0 (fun _ => Acc0) OL) as (P2 & _).
  destruct O2 as (Oc & Ot & Os & Om & Or & On & Oa).
  assert (A0' : AOK (w_st w) (start_line w)).
  { unfold AOK. destruct w; cbn. split; [reflexivity|]. split; [constructor|]. split; [constructor|discriminate]. }
  pose proof (outer_A (w_st w) HN _ _ _ _ _ A0' OL) as (St2 & _ & _ & AB).
  replace (w_cfg (start_line w)) with (w_cfg w) in * by (destruct w; reflexivity).
  replace (w_runs (start_line w)) with (w_runs w) in * by (destruct w; reflexivity).
  cbv beta iota zeta in H. injection H as PP. rewrite post_process_split in PP.
  destruct (pp_first w2 (s_best (w_sc w2))) as [w1 l1] eqn:PF.
  destruct (pp_tail_line _ _ _ _ _ _ _ PP) as [St' Alt]. rewrite St'.
  set (tsrc := o_src (c_truncator (w_cfg w))) in *. rewrite Oc in Alt. fold tsrc in Alt.
  pose proof HB as (HW & _).
  destruct (s_best (w_sc w2)) as [l|] eqn:EB.
  2:{ (* no best line: only the truncator can be returned *)
      cbn in PF. injection PF as <- <-. destruct Alt as [A|(t & l' & A1 & A2 & A3)]; [congruence|].
      rewrite A1 in Hline. injection Hline as <-. cbn [app] in A3.
      apply text_runs_Forall. eapply (Forall_ga (fun r => o_src r <> tsrc -> aok (w_st w2) r)); [|exact A3|].
      - intros x y E Hx Hy. eapply aok_ga; [exact E|]. apply Hx. apply ga_geo in E. apply geo_fields in E. destruct E as (_ & _ & _ & E & _). congruence.
      - constructor; [intros Q; congruence|constructor]. }
  destruct X2 as (_ & _ & _ & XBest). destruct (XBest l EB) as [FPO _]. rewrite St2, Or in FPO.
  assert (HL : chain (w_start w2) l (lend (w_start w2) l)).
  { destruct I2 as (_ & _ & _ & _ & HBo). destruct (HBo l EB) as [e He]. rewrite (lend_chain _ _ _ He). exact He. }
  pose proof P2 as (_ & _ & _ & _ & Hap & _).
  destruct (pp_first_A (w_st w) (w_runs w) n w2 l _ _ w1 l1 HW St2 (AB l eq_refl) FPO HL (Hap l EB) PF) as (fl & -> & Afl).
  assert (Hsrc : Forall (fun r => o_src r <> tsrc) l).
  { eapply Forall_impl; [|exact FPO]. intros r Hr. apply PO_src in Hr. unfold tsrc. lia. }
  destruct Alt as [A|(t & l' & A1 & A2 & A3)].
  - rewrite A in Hline. injection Hline as <-. apply text_runs_Forall. eapply Forall_impl; [|exact Afl]. intros r Hr _. exact Hr.
  - rewrite A1 in Hline. injection Hline as <-.
    apply text_runs_Forall. eapply (Forall_ga (fun r => o_src r <> tsrc -> aok (w_st w1) r)); [|exact A3|].
    + intros x y E Hx Hy. eapply aok_ga; [exact E|]. apply Hx. apply ga_geo in E. apply geo_fields in E. destruct E as (_ & _ & _ & E & _). congruence.
    + apply Forall_app. split; [eapply Forall_impl; [|exact Afl]; intros r Hr _; exact Hr|]. constructor; [intros Q; congruence|constructor].
Qed.

(* ---- any sequence of calls ---------------------------------------------------------------------------------------- *)

Definition no_start_spacing (st : store) : bool := forallb (forallb (fun g => g_sls g =? 0)) st.
Lemma no_start_spacing_NS : forall st, no_start_spacing st = true -> NS st.
Proof.
  intros st H. unfold no_start_spacing in H. apply Forall_forall. intros arr Ha. apply Forall_forall. intros g Hg.
  rewrite forallb_forall in H. specialize (H arr Ha). rewrite forallb_forall in H. apply Z.eqb_eq. exact (H g Hg).
Qed.

Lemma advance_returned_calls : forall n w cfg attrs runs widths wk rs mw w' wl d line,
  wf_runs (w_st w) runs n = true -> zlen attrs - 1 = n -> 1 <= n ->
  run_calls (prepare w cfg attrs runs 0 0) widths = Ok (wk, rs) -> w_more wk = true ->
  zlen runs <= o_src (c_truncator (w_cfg wk)) ->
  no_start_spacing (w_st wk) = true ->
  wrap_next_line wk mw = Ok (w', wl, d) -> wl_line wl = Some line ->
  forallb (advance_ok (w_st w')) (text_runs (o_src (c_truncator (w_cfg wk))) line) = true.
Proof.
  intros n w cfg attrs runs widths wk rs mw w' wl d line HW Ha Hn RC Hk Hts HNS WN Hl.
  pose proof (CI_prepare n w cfg attrs runs (wf_runs_ok _ _ _ HW) Ha Hn) as C0.
  pose proof (XB_prepare n w cfg attrs runs HW) as B0.
  destruct (run_calls_reach n attrs widths _ wk rs C0 eq_refl B0 RC Hk) as (C & B & R).
  change (w_runs (prepare w cfg attrs runs 0 0)) with runs in R.
  pose proof (wnl_adv n attrs wk mw w' wl d line C B Hk (no_start_spacing_NS _ HNS) ltac:(rewrite R; exact Hts) WN Hl) as Q.
  apply forallb_forall. intros r Hr. rewrite Forall_forall in Q. unfold advance_ok. apply Z.eqb_eq. exact (Q r Hr).
Qed.

(* ---- the core of the argument that is still missing for stores WITH start letter spacing ---------------------------- *)

Lemma pgo_out : forall gs i0 lo hi a b, piece_glyphs_ok gs i0 lo hi a b = true ->
  forall k G, nth_error gs k = Some G -> ~ (lo <= i0 + Z.of_nat k < hi) -> g_cluster G + g_rc G <= a \/ b <= g_cluster G.
Proof.
  induction gs as [|g gs IH]; intros i0 lo hi a b H k G HG Hk; [destruct k; discriminate|].
  cbn [piece_glyphs_ok] in H. apply andb_prop in H. destruct H as [H1 H2].
  destruct k as [|k]; cbn in HG.
  - injection HG as ->. replace ((lo <=? i0) && (i0 <? hi)) with false in H1.
    + apply orb_prop in H1. destruct H1 as [A|A]; apply Z.leb_le in A; lia.
    + symmetry. apply andb_false_iff. destruct (Z_le_dec lo i0); [right; apply Z.ltb_ge; lia|left; apply Z.leb_gt; lia].
  - apply (IH (i0 + 1) lo hi a b H2 k G HG). lia.
Qed.

Lemma nth_error_list_set_same : forall {A} (l : list A) k x, (k < length l)%nat -> nth_error (list_set l k x) k = Some x.
Proof. induction l as [|a l IH]; intros k x H; cbn in *; [lia|]. destruct k; cbn; [reflexivity|]. apply IH. lia. Qed.

(* trimStartLetterSpacing on Glyphs[0] of an exact piece r leaves the glyphs of an exact piece x with the same start and an
   end at or before the end of r as they are, as soon as Glyphs[0] of x is trimmed already: Glyphs[0] of r is Glyphs[0]
   of x (then the trim is the identity) or lies outside the slice of x.  LTR and RTL alike: the candidates of a line all
   start at the line start and never get shorter than the best line, which was cut with the trim. *)
Lemma trim_longer_piece_safe : forall st rs n x r,
  wf_runs st rs n = true -> PO st rs x -> PO st rs r ->
  o_off r = o_off x -> (o_src x = o_src r -> out_end x <= out_end r) -> 0 < o_len r ->
  (0 < o_len x -> g_sls (znth glyph_zero (src_array st (o_src x)) (o_lo x)) = 0) ->
  out_glyphs (store_update st (o_src r) (o_lo r) trim_glyph) x = out_glyphs st x.
Proof.
  intros st rs n x r HW Px Pr Hoff Hend Hlen Hs.
  pose proof Px as Px'. pose proof Pr as Pr'. unfold PO, piece_ok in Px', Pr'.
  repeat (apply andb_prop in Px'; destruct Px' as [Px' ?]). repeat (apply andb_prop in Pr'; destruct Pr' as [Pr' ?]).
  repeat match goal with H : (_ <=? _) = true |- _ => apply Z.leb_le in H | H : (_ <? _) = true |- _ => apply Z.ltb_lt in H end.
  assert (Gx : piece_glyphs_ok (src_array st (o_src x)) 0 (o_lo x) (o_lo x + o_len x) (o_off x) (out_end x) = true) by assumption.
  assert (Gr : piece_glyphs_ok (src_array st (o_src r)) 0 (o_lo r) (o_lo r + o_len r) (o_off r) (out_end r) = true) by assumption.
  unfold out_glyphs, store_update, src_array, zset.
  destruct (o_src r <? 0) eqn:E0; [reflexivity|]. apply Z.ltb_ge in E0.
  destruct (o_lo r <? 0) eqn:E1; [apply Z.ltb_lt in E1; lia|].
  set (arr := znth [] st (o_src r)) in *.
  set (X := trim_glyph (znth glyph_zero arr (o_lo r))).
  unfold znth at 1. destruct (o_src x <? 0) eqn:E2; [unfold znth; rewrite E2; reflexivity|]. apply Z.ltb_ge in E2.
  rewrite nth_list_set.
  destruct (Z.eq_dec (o_src x) (o_src r)) as [Es|Es].
  2:{ replace (Z.to_nat (o_src x) =? Z.to_nat (o_src r))%nat with false by (symmetry; apply Nat.eqb_neq; lia). cbn [andb].
      unfold znth. replace (o_src x <? 0) with false by (symmetry; apply Z.ltb_ge; lia). reflexivity. }
  specialize (Hend Es). rewrite Es in *. rewrite Nat.eqb_refl. cbn [andb].
  assert (Harr : (if (Z.to_nat (o_src r) <? length st)%nat then list_set arr (Z.to_nat (o_lo r)) X else nth (Z.to_nat (o_src r)) st [])
                 = list_set arr (Z.to_nat (o_lo r)) X).
  { destruct (Z.to_nat (o_src r) <? length st)%nat eqn:E3; [reflexivity|]. apply Nat.ltb_ge in E3.
    assert (Q : arr = []) by (unfold arr, znth; replace (o_src r <? 0) with false by (symmetry; apply Z.ltb_ge; lia); apply nth_overflow; exact E3).
    rewrite Q. rewrite nth_overflow by exact E3. reflexivity. }
  rewrite Harr. fold arr. unfold zfirstn, zskipn.
  apply firstn_skipn_ext; [apply list_set_length|].
  intros j Hj.
  destruct (Nat.eq_dec j (Z.to_nat (o_lo r))) as [->|Hne]; [|apply list_set_nth_error_other; exact Hne].
  (* Glyphs[0] of r lies in the slice of x: it is Glyphs[0] of x *)
  unfold src_array in Gx, Gr. fold arr in Gx, Gr.
  assert (Hlt : (Z.to_nat (o_lo r) < length arr)%nat) by (unfold src_array, zlen in *; unfold arr; lia).
  assert (Heq : o_lo r = o_lo x).
  { destruct (Z.eq_dec (o_lo r) (o_lo x)) as [E|E]; [exact E|exfalso].
    assert (Hlx : (Z.to_nat (o_lo x) < length arr)%nat) by lia.
    destruct (nth_error arr (Z.to_nat (o_lo x))) as [G0|] eqn:EG; [|apply nth_error_None in EG; lia].
    destruct (pgo_at _ _ _ _ _ _ Gx _ _ EG ltac:(lia)) as [F1 F2].
    pose proof (wf_rc_pos st rs n (o_src r) G0 HW ltac:(lia) ltac:(unfold src_array; fold arr; eapply nth_error_In; eauto)) as RC.
    destruct (pgo_out _ _ _ _ _ _ Gr _ _ EG ltac:(lia)) as [Q|Q]; lia. }
  rewrite nth_error_list_set_same by exact Hlt.
  destruct (nth_error arr (Z.to_nat (o_lo r))) as [G|] eqn:EG; [|apply nth_error_None in EG; lia].
  f_equal. unfold X. rewrite (nth_error_znth glyph_zero arr (o_lo r) G ltac:(lia) EG).
  apply trim_id. specialize (Hs ltac:(lia)). unfold src_array in Hs. fold arr in Hs. rewrite <- Heq in Hs.
  rewrite (nth_error_znth glyph_zero arr (o_lo r) G ltac:(lia) EG) in Hs. exact Hs.
Qed.
