(* Proofs for C14: the stateful model of FontMap (candidate cache + rune LRU) refines the stateless
   specification, for every hash function, cache size and operation sequence. *)
From TV Require Import Model.FontMap Spec.Resolve.
From Coq Require Import Permutation.
Open Scope Z_scope.

(* ---------------------------------------------------------------------------------------------- *)
(* generic list facts                                                                               *)

Lemma find_app {A} (P : A -> bool) (l1 l2 : list A) :
  find P (l1 ++ l2) = match find P l1 with Some x => Some x | None => find P l2 end.
Proof. induction l1 as [|x l1 IH]; cbn; [reflexivity|]. destruct (P x); auto. Qed.

Lemma find_none_iff {A} (P : A -> bool) l : find P l = None <-> forall x, In x l -> P x = false.
Proof.
  split.
  - intros H x Hx. eapply find_none; eauto.
  - induction l as [|y l IH]; cbn; intros H; [reflexivity|].
    rewrite (H y (or_introl eq_refl)). apply IH. intros; apply H; right; assumption.
Qed.

Lemma bind_ok {A B} (r : res A) (f : A -> res B) (b : B) :
  bind r f = Ok b -> exists a, r = Ok a /\ f a = Ok b.
Proof. destruct r; cbn; intros H; try discriminate. eauto. Qed.

Lemma zlist_eqb_eq a : forall b, zlist_eqb a b = true -> a = b.
Proof.
  induction a as [|x a IH]; destruct b as [|y b]; cbn; intros H; try discriminate; [reflexivity|].
  apply andb_prop in H. destruct H as [H1 H2]. apply Z.eqb_eq in H1. subst. f_equal. auto.
Qed.
Lemma zlist_eqb_refl a : zlist_eqb a a = true.
Proof. induction a; cbn; [reflexivity|]. rewrite Z.eqb_refl; assumption. Qed.

Lemma aspect_eqb_eq a b : aspect_eqb a b = true -> a = b.
Proof.
  destruct a, b; unfold aspect_eqb; cbn. intros H.
  apply andb_prop in H. destruct H as [H H3]. apply andb_prop in H. destruct H as [H1 H2].
  apply Z.eqb_eq in H1, H2, H3. subst. reflexivity.
Qed.
Lemma key_eqb_eq a b : key_eqb a b = true -> a = b.
Proof.
  destruct a, b; unfold key_eqb; cbn. intros H.
  apply andb_prop in H. destruct H as [H H4]. apply andb_prop in H. destruct H as [H H3].
  apply andb_prop in H. destruct H as [H1 H2].
  apply Z.eqb_eq in H1, H2, H4. apply aspect_eqb_eq in H3. subst. reflexivity.
Qed.
Lemma key_eqb_refl a : key_eqb a a = true.
Proof. destruct a as [h s [x y z] r]; unfold key_eqb, aspect_eqb; cbn. rewrite !Z.eqb_refl. reflexivity. Qed.

(* ---------------------------------------------------------------------------------------------- *)
(* the map of the LRU                                                                               *)

Lemma map_get_in k m e : map_get k m = Some e -> In (k, e) m.
Proof.
  induction m as [|[k' e'] m IH]; cbn; intros H; [discriminate|].
  destruct (key_eqb k k') eqn:E.
  - apply key_eqb_eq in E. inversion H; subst. left; reflexivity.
  - right; auto.
Qed.
Lemma map_set_in k e m x : In x (map_set k e m) -> x = (k, e) \/ In x m.
Proof.
  unfold map_set, map_del. intros [H|H]; [left; symmetry; assumption|]. apply filter_In in H. tauto.
Qed.
Lemma map_del_in k m x : In x (map_del k m) -> In x m.
Proof. unfold map_del. intros H. apply filter_In in H. tauto. Qed.

Lemma evict_in l : forall m max m' l', evict m l max = Ok (m', l') -> forall x, In x m' -> In x m.
Proof.
  induction l as [|o rest IH]; cbn; intros m max m' l' H x Hx.
  - destruct (zlen m >? max); inversion H; subst; assumption.
  - destruct (zlen m >? max).
    + eapply map_del_in. eapply IH; eauto.
    + inversion H; subst; assumption.
Qed.
Lemma evict_bound l : forall m max m' l', evict m l max = Ok (m', l') -> zlen m' <= max.
Proof.
  induction l as [|o rest IH]; cbn; intros m max m' l' H.
  - destruct (zlen m >? max) eqn:E; inversion H; subst. lia.
  - destruct (zlen m >? max) eqn:E.
    + eapply IH; eauto.
    + inversion H; subst. lia.
Qed.

(* ---------------------------------------------------------------------------------------------- *)
(* resolveForRune is "first covering candidate"                                                     *)

Definition face_of (db : list footprint) (faces : list (Z * Z)) (i : nat) : option Z :=
  match nth_error db i with Some fp => assoc_z (fp_loc fp) faces | None => None end.
Definition cached_all (db : list footprint) (faces : list (Z * Z)) : Prop :=
  forall fp, In fp db -> assoc_z (fp_loc fp) faces <> None.

Lemma rfr_spec db faces r : cached_all db faces -> forall c x,
  resolve_for_rune db faces c r = Ok x ->
  (find (covers db r) c = None /\ x = None) \/
  (exists i f, find (covers db r) c = Some i /\ face_of db faces i = Some f /\ x = Some f).
Proof.
  intros HC. induction c as [|i c IH]; cbn; intros x H.
  - inversion H; auto.
  - unfold covers at 1 3. unfold face_of.
    destruct (nth_error db i) as [fp|] eqn:E; [|discriminate].
    destruct (zmem r (fp_runes fp)) eqn:M.
    + destruct (assoc_z (fp_loc fp) faces) as [f|] eqn:A.
      * inversion H; subst. right. exists i, f. rewrite E. auto.
      * exfalso. apply (HC fp); [eapply nth_error_In; eauto|assumption].
    + apply IH; assumption.
Qed.

(* ---------------------------------------------------------------------------------------------- *)
(* scriptMap                                                                                        *)

Definition same_find (l1 l2 : list nat) : Prop := forall P, find P l1 = find P l2.

Lemma same_find_app a b c d : same_find a b -> same_find c d -> same_find (a ++ c) (b ++ d).
Proof. intros H1 H2 P. rewrite !find_app, H1, H2. reflexivity. Qed.
Lemma same_find_refl a : same_find a a.
Proof. intro; reflexivity. Qed.
Lemma same_find_dup a (i : nat) n : same_find (a ++ repeat i (S n)) (a ++ [i]).
Proof.
  apply same_find_app; [apply same_find_refl|]. intro P. cbn. destruct (P i) eqn:E; [reflexivity|].
  induction n; cbn; [reflexivity|]. rewrite E. assumption.
Qed.

Lemma smap_get_append_same s i m : smap_get s (smap_append s i m) = smap_get s m ++ [i].
Proof.
  unfold smap_get. induction m as [|[s' l] m IH]; cbn.
  - rewrite Z.eqb_refl. reflexivity.
  - destruct (s =? s') eqn:E; cbn; rewrite E; [reflexivity|]. assumption.
Qed.
Lemma smap_get_append_other s s' i m : s <> s' -> smap_get s (smap_append s' i m) = smap_get s m.
Proof.
  unfold smap_get. intros N. induction m as [|[s2 l] m IH]; cbn.
  - destruct (s =? s') eqn:E; [apply Z.eqb_eq in E; contradiction|reflexivity].
  - destruct (s' =? s2) eqn:E2; cbn.
    + apply Z.eqb_eq in E2; subst. destruct (s =? s2) eqn:E; [apply Z.eqb_eq in E; contradiction|reflexivity].
    + destruct (s =? s2); [reflexivity|assumption].
Qed.

Fixpoint zcount (s : Z) (l : list Z) : nat :=
  match l with [] => O | x :: r => if s =? x then S (zcount s r) else zcount s r end.
Lemma zcount_zmem s l : zmem s l = negb (Nat.eqb (zcount s l) 0).
Proof. induction l as [|x l IH]; cbn; [reflexivity|]. destruct (s =? x); cbn; auto. Qed.

Lemma smap_fold s i scripts : forall m,
  smap_get s (fold_left (fun m sc => smap_append sc i m) scripts m) = smap_get s m ++ repeat i (zcount s scripts).
Proof.
  induction scripts as [|x scripts IH]; cbn; intros m; [rewrite app_nil_r; reflexivity|].
  rewrite IH. destruct (s =? x) eqn:E.
  - apply Z.eqb_eq in E; subst. rewrite smap_get_append_same. rewrite <- app_assoc. reflexivity.
  - rewrite smap_get_append_other; [reflexivity|]. intro; subst. rewrite Z.eqb_refl in E. discriminate.
Qed.

Lemma script_indices_snoc db fp s :
  script_indices (db ++ [fp]) s = script_indices db s ++ (if zmem s (fp_scripts fp) then [length db] else []).
Proof.
  unfold script_indices. rewrite app_length. cbn [length]. rewrite Nat.add_1_r, seq_S, filter_app. cbn [filter].
  rewrite Nat.add_0_l. f_equal.
  - apply filter_ext_in. intros i Hi. apply in_seq in Hi. rewrite nth_error_app1 by lia. reflexivity.
  - rewrite nth_error_app2 by lia. rewrite Nat.sub_diag. cbn. destruct (zmem s (fp_scripts fp)); reflexivity.
Qed.

Definition smap_ok (db : list footprint) (m : list (Z * list nat)) : Prop :=
  forall s, same_find (smap_get s m) (script_indices db s).

Lemma smap_ok_add db m fp :
  smap_ok db m -> smap_ok (db ++ [fp]) (fold_left (fun m sc => smap_append sc (length db) m) (fp_scripts fp) m).
Proof.
  intros H s. rewrite smap_fold, script_indices_snoc, zcount_zmem.
  destruct (zcount s (fp_scripts fp)) as [|n]; cbn [Nat.eqb negb repeat].
  - apply same_find_app; [apply H|apply same_find_refl].
  - intro P. change (length db :: repeat (length db) n) with (repeat (length db) (S n)).
    rewrite (same_find_dup (smap_get s m) (length db) n P). revert P.
    apply same_find_app; [apply H|apply same_find_refl].
Qed.

(* ---------------------------------------------------------------------------------------------- *)

Section Refinement.
  Variable hash : Z -> list Z -> Z.
  Variable norm : Z -> Z.
  Variable is_generic : Z -> bool.
  Variable subst : list Z -> Z -> list (Z * (Z * bool)).
  Variable script_lang : Z -> Z.
  Variable empty_fam : Z.

  Local Notation stepM := (step hash norm is_generic subst script_lang empty_fam).
  Local Notation runM := (run hash norm is_generic subst script_lang empty_fam).
  Local Notation ccands := (compute_cands norm is_generic subst script_lang).
  Local Notation specA := (spec_answer norm is_generic subst script_lang).
  Local Notation specR := (spec_run norm is_generic subst script_lang empty_fam).
  Local Notation adb := (a_db norm).

  Definition pairs_of (l : list added) : list (Z * Z) := rev (map (fun x => (ad_loc x, ad_face x)) l).

  (* the part of the model state that the specification is a function of *)
  Definition abs_ok (a : astate) (fm : fontmap) : Prop :=
    fm_db fm = adb a /\ fm_faces fm = pairs_of (as_added a)
    /\ fm_first fm = option_map ad_face (hd_error (as_added a))
    /\ fm_query fm = as_query a /\ fm_script fm = as_script a /\ smap_ok (fm_db fm) (fm_smap fm).

  Lemma assoc_pairs k l :
    assoc_z k (map (fun x => (ad_loc x, ad_face x)) l) = option_map ad_face (find (fun x => k =? ad_loc x) l).
  Proof. induction l as [|x l IH]; cbn; [reflexivity|]. destruct (k =? ad_loc x); cbn; auto. Qed.

  Lemma face_of_face_at a i : face_of (adb a) (pairs_of (as_added a)) i = face_at norm a i.
  Proof.
    unfold face_of, face_at, pairs_of. destruct (nth_error (adb a) i); [|reflexivity].
    rewrite <- map_rev. apply assoc_pairs.
  Qed.

  Lemma cached_all_abs a : cached_all (adb a) (pairs_of (as_added a)).
  Proof.
    intros fp Hfp. unfold a_db in Hfp. apply in_map_iff in Hfp. destruct Hfp as [x [Hx Hin]]. subst fp.
    unfold pairs_of. rewrite <- map_rev, assoc_pairs. cbn [footprint_of fp_loc].
    destruct (find (fun x0 => ad_loc x =? ad_loc x0) (rev (as_added a))) eqn:F; [cbn; discriminate|].
    exfalso. rewrite find_none_iff in F. specialize (F x). rewrite Z.eqb_refl in F.
    assert (In x (rev (as_added a))) by (apply in_rev; rewrite rev_involutive; assumption).
    specialize (F H). discriminate.
  Qed.

  Lemma abs_ok_add_one a fm x :
    abs_ok a fm -> abs_ok (mkAstate (as_added a ++ [x]) (as_query a) (as_script a)) (add_one norm fm x).
  Proof.
    intros (Hdb & Hf & H1 & Hq & Hs & Hsm). unfold abs_ok, add_one, a_db. cbn.
    repeat split; auto.
    - rewrite Hdb. unfold a_db. rewrite map_app. reflexivity.
    - rewrite Hf. unfold pairs_of. rewrite map_app, rev_app_distr. reflexivity.
    - rewrite H1. destruct (as_added a); reflexivity.
    - apply (smap_ok_add _ _ (footprint_of norm x)). assumption.
  Qed.

  Lemma abs_ok_fold l : forall a fm,
    abs_ok a fm -> abs_ok (mkAstate (as_added a ++ l) (as_query a) (as_script a)) (fold_left (add_one norm) l fm).
  Proof.
    induction l as [|x l IH]; cbn; intros a fm H.
    - rewrite app_nil_r. destruct a; assumption.
    - specialize (IH _ _ (abs_ok_add_one a fm x H)). cbn in IH. rewrite <- app_assoc in IH. exact IH.
  Qed.

  (* every cached value is the specification's answer for the full key of its entry *)
  Definition cache_ok (a : astate) (fm : fontmap) : Prop :=
    forall k e, In (k, e) (l_map (fm_lru fm)) ->
      e_key e = k /\
      specA (mkAstate (as_added a) (mkQuery (e_fams e) (k_aspect k)) (k_script k)) (k_rune k) = Ok (e_val e).
  (* built => the candidates are those of the current database, query and script *)
  Definition built_ok (a : astate) (fm : fontmap) : Prop :=
    fm_built fm = true -> ccands (adb a) (as_query a) (as_script a) = Ok (fm_cands fm).
  Definition inv (a : astate) (fm : fontmap) : Prop := abs_ok a fm /\ cache_ok a fm /\ built_ok a fm.

  Lemma inv_init : inv a_init new_fontmap.
  Proof.
    unfold inv, abs_ok, cache_ok, built_ok, a_init, new_fontmap, a_db; cbn.
    repeat split; try discriminate; try contradiction.
  Qed.

  (* the body of ResolveFace after a miss computes the specification *)
  Lemma resolve_uncached_spec a fm r x :
    abs_ok a fm -> ccands (adb a) (as_query a) (as_script a) = Ok (fm_cands fm) ->
    resolve_uncached fm r = Ok x -> specA a r = Ok x.
  Proof.
    intros (Hdb & Hf & H1 & Hq & Hs & Hsm) HC H.
    unfold spec_answer. rewrite HC. cbn [bind]. f_equal.
    unfold priority_order. rewrite !find_app. rewrite Hdb in Hsm.
    rewrite <- (Hsm (as_script a) (covers (adb a) r)).
    unfold resolve_uncached in H. rewrite Hdb, Hf, Hs in H.
    pose proof (cached_all_abs a) as CA.
    repeat match type of H with
    | bind (resolve_for_rune _ _ ?c _) _ = Ok _ =>
        let y := fresh "y" in let Hy := fresh "Hy" in let H' := fresh "H" in
        apply bind_ok in H; destruct H as [y [Hy H]];
        apply (rfr_spec _ _ _ CA) in Hy;
        destruct Hy as [[Hy ->]|[i [f [Hy [Hfo ->]]]]];
        [rewrite Hy|rewrite Hy, <- face_of_face_at, Hfo; inversion H; reflexivity]
    end.
    rewrite H1 in H. unfold a_db in H. destruct (as_added a) as [|x0 l] eqn:EA; cbn in H |- *.
    - inversion H. reflexivity.
    - inversion H; reflexivity.
  Qed.

  Lemma cache_ok_same_map a fm fm' :
    l_map (fm_lru fm') = l_map (fm_lru fm) -> cache_ok a fm -> cache_ok a fm'.
  Proof. unfold cache_ok. intros E H k e Hin. rewrite E in Hin. auto. Qed.

  Lemma do_init_map l x : In x (l_map (lru_do_init l)) -> In x (l_map l).
  Proof. unfold lru_do_init. destruct (l_init l); cbn; [auto|intros []]. Qed.

  Lemma step_inv a fm o fm' out :
    inv a fm -> stepM fm o = Ok (fm', out) ->
    inv (astep empty_fam a o) fm' /\
    match o with
    | OpResolve r => exists x, out = Some x /\ specA a r = Ok x
    | _ => out = None
    end.
  Proof.
    intros (HA & HC & HB) H. destruct o as [l|q|s|n|r]; cbn in H.
    - (* AddFace / AddFont *)
      inversion H; subst; clear H. split; [|reflexivity].
      unfold inv. cbn [astep]. split; [|split].
      + pose proof (abs_ok_fold l a fm HA) as (Hdb & Hf & H1 & Hq & Hs & Hsm).
        unfold abs_ok, add_faces. cbn. auto 10.
      + unfold cache_ok, add_faces. cbn. intros k e [].
      + unfold built_ok, add_faces. cbn. discriminate.
    - (* SetQuery *)
      inversion H; subst; clear H. split; [|reflexivity].
      destruct HA as (Hdb & Hf & H1 & Hq & Hs & Hsm).
      unfold inv. split; [unfold abs_ok, set_query; cbn; auto 10|]. split.
      + intros k e Hin. apply (HC k e Hin).
      + unfold built_ok, set_query. cbn. discriminate.
    - (* SetScript *)
      inversion H; subst; clear H. split; [|reflexivity].
      destruct HA as (Hdb & Hf & H1 & Hq & Hs & Hsm).
      unfold inv. split; [unfold abs_ok, set_script; cbn; auto 10|]. split.
      + intros k e Hin. apply (HC k e Hin).
      + unfold built_ok, set_script. cbn. discriminate.
    - (* SetRuneCacheSize *)
      inversion H; subst; clear H. split; [|reflexivity].
      destruct HA as (Hdb & Hf & H1 & Hq & Hs & Hsm).
      unfold inv. split; [unfold abs_ok, set_cache_size; cbn; auto 10|]. split.
      + intros k e Hin. apply (HC k e Hin).
      + exact HB.
    - (* ResolveFace *)
      apply bind_ok in H. destruct H as [[fm2 ans] [HR H]]. cbn in H. inversion H; subst; clear H.
      cbn [astep]. unfold resolve_face, key_for in HR.
      set (l1 := lru_do_init (fm_lru fm)) in *.
      set (k := mkKey (hash (l_seed l1) (q_fams (fm_query fm))) (fm_script fm) (q_aspect (fm_query fm)) r) in *.
      assert (HC1 : cache_ok a (with_lru fm l1)).
      { intros k0 e Hin. cbn in Hin. apply do_init_map in Hin. auto. }
      destruct HA as (Hdb & Hf & H1 & Hq & Hs & Hsm).
      assert (Ea : a = mkAstate (as_added a) (mkQuery (q_fams (fm_query fm)) (q_aspect (fm_query fm))) (fm_script fm)).
      { rewrite Hq, Hs. destruct a as [ad [qf qa] sc]; reflexivity. }
      destruct (lru_get l1 k (fm_query fm)) as [[face l2]|] eqn:G.
      + (* hit *)
        inversion HR; subst; clear HR. unfold lru_get in G.
        destruct (map_get k (l_map l1)) as [lt|] eqn:MG; [|discriminate].
        destruct (zlist_eqb (e_fams lt) (q_fams (fm_query fm))) eqn:EF; [|discriminate].
        inversion G; subst; clear G. apply map_get_in in MG. apply zlist_eqb_eq in EF.
        destruct (HC1 _ _ MG) as [_ HS]. rewrite EF in HS. cbn in HS. rewrite <- Ea in HS.
        split.
        * unfold inv. split; [unfold abs_ok; cbn; auto 10|]. split.
          -- intros k0 e Hin. cbn in Hin. apply HC1. exact Hin.
          -- exact HB.
        * eauto.
      + (* miss *)
        apply bind_ok in HR. destruct HR as [fm1 [HBC HR]].
        apply bind_ok in HR. destruct HR as [face [HU HR]].
        apply bind_ok in HR. destruct HR as [l3 [HP HR]]. inversion HR; subst; clear HR.
        (* candidates *)
        assert (HX : abs_ok a fm1 /\ ccands (adb a) (as_query a) (as_script a) = Ok (fm_cands fm1)
                     /\ fm_built fm1 = true).
        { unfold build_candidates in HBC. cbn in HBC. destruct (fm_built fm) eqn:EB.
          - inversion HBC; subst. split; [unfold abs_ok; cbn; auto 10|]. split; [apply HB; assumption|assumption].
          - apply bind_ok in HBC. destruct HBC as [c [Hc HBC]]. inversion HBC; subst.
            rewrite Hdb, Hq, Hs in Hc. split; [unfold abs_ok; cbn; auto 10|]. split; [exact Hc|reflexivity]. }
        destruct HX as (HA1 & HCC & HB1).
        pose proof (resolve_uncached_spec a fm1 r ans HA1 HCC HU) as HS.
        split; [|eauto].
        destruct HA1 as (Hdb1 & Hf1 & H11 & Hq1 & Hs1 & Hsm1).
        unfold inv. split; [unfold abs_ok; cbn; auto 10|]. split.
        * (* the cache after Put *)
          unfold lru_put in HP. apply bind_ok in HP. destruct HP as [[m' lst'] [HE HP]].
          inversion HP; subst; clear HP.
          intros k0 e Hin. cbn in Hin. pose proof (evict_in _ _ _ _ _ HE _ Hin) as Hin2.
          apply map_set_in in Hin2. destruct Hin2 as [Hin2|Hin2].
          -- inversion Hin2; subst. cbn. split; [reflexivity|]. rewrite <- Ea. exact HS.
          -- apply do_init_map in Hin2. apply (HC1 _ _ Hin2).
        * intros _. cbn. exact HCC.
  Qed.

  Lemma run_refines ops : forall a fm fm' answers,
    inv a fm -> runM fm ops = Ok (fm', answers) -> specR a ops = Ok answers /\ exists a', inv a' fm'.
  Proof.
    induction ops as [|o ops IH]; cbn; intros a fm fm' answers HI H.
    - inversion H; subst. split; [reflexivity|eauto].
    - apply bind_ok in H. destruct H as [[fm1 out] [HS H]].
      apply bind_ok in H. destruct H as [[fm2 rest] [HR H]]. cbn in H. inversion H; subst; clear H.
      destruct (step_inv _ _ _ _ _ HI HS) as [HI1 Hout].
      destruct (IH _ _ _ _ HI1 HR) as [Hrest Hex].
      split; [|exact Hex].
      destruct o; cbn in Hout |- *; try (subst out; exact Hrest).
      destruct Hout as [x [-> Hx]]. cbn [astep] in Hrest. rewrite Hx. cbn. rewrite Hrest. reflexivity.
  Qed.

  (* main theorem: all answers of any operation sequence on a new FontMap are those of the specification *)
  Theorem resolve_refines_spec_lemma ops fm answers :
    runM new_fontmap ops = Ok (fm, answers) -> specR a_init ops = Ok answers.
  Proof. intros H. exact (proj1 (run_refines ops _ _ _ _ inv_init H)). Qed.
End Refinement.
