(* C17 — proofs about the ownership model (Model/Ownership.v). *)
From Coq Require Import List Arith Bool Lia.
From TV Require Import Model.Ownership.
Import ListNotations.

Lemma upd_same : forall (A : Type) (f : thread -> A) t a, upd f t a t = a.
Proof. intros. unfold upd. now rewrite Nat.eqb_refl. Qed.

Lemma upd_other : forall (A : Type) (f : thread -> A) t u a, u <> t -> upd f t a u = f u.
Proof. intros. unfold upd. destruct (Nat.eqb u t) eqn:E; [apply Nat.eqb_eq in E; contradiction|reflexivity]. Qed.

Lemma turns_repeat : forall t n, turns t (repeat t n) = n.
Proof. induction n; simpl; [reflexivity|]. rewrite Nat.eqb_refl, IHn. reflexivity. Qed.

Lemma firstn_nil' : forall (A : Type) n, firstn n (@nil A) = [].
Proof. destruct n; reflexivity. Qed.

(* ---------------------------------------------------------------------------------------------- *)
Section ByConstruction.
  Variables (sh st out : Type).
  Notation tstate := (tstate sh st out).
  Notation config := (config sh st out).
  Notation op := (op sh st out).

  (* frame: a step of another thread does not change my view *)
  Lemma step_frame : forall (s : sh) t u (c : config), u <> t -> step s t c u = c u.
  Proof. intros. unfold step. now apply upd_other. Qed.

  Lemma step_own : forall (s : sh) t (c : config), step s t c t = local_step s (c t).
  Proof. intros. unfold step. apply upd_same. Qed.

  (* commutation of confined steps of different threads (pointwise equality of configurations) *)
  Lemma steps_commute : forall (s : sh) t u (c : config), t <> u ->
    forall v, step s t (step s u c) v = step s u (step s t c) v.
  Proof.
    intros s t u c Htu v. unfold step, upd.
    destruct (Nat.eqb v t) eqn:Et; destruct (Nat.eqb v u) eqn:Eu; try reflexivity.
    - apply Nat.eqb_eq in Et, Eu. subst. contradiction.
    - apply Nat.eqb_eq in Et. subst v. rewrite Nat.eqb_sym in Eu. 
      destruct (Nat.eqb t u) eqn:E; [apply Nat.eqb_eq in E; contradiction|]. reflexivity.
    - apply Nat.eqb_eq in Eu. subst v.
      destruct (Nat.eqb u t) eqn:E; [apply Nat.eqb_eq in E; subst; contradiction|]. reflexivity.
  Qed.

  (* the view of thread t after any schedule is what t computes alone in as many steps as it was given *)
  Lemma run_view : forall (s : sh) sched (c : config) t, run s sched c t = alone s (turns t sched) (c t).
  Proof.
    induction sched as [|a rest IH]; intros c t; simpl; [reflexivity|].
    rewrite IH. destruct (Nat.eqb a t) eqn:E; simpl.
    - apply Nat.eqb_eq in E. subst a. now rewrite step_own.
    - apply Nat.eqb_neq in E. rewrite step_frame by congruence. reflexivity.
  Qed.

  Lemma alone_spec : forall (s : sh) n (p : list op) x acc,
    alone s n (mkT x p acc) = mkT (final s (firstn n p) x) (skipn n p) (acc ++ exec s (firstn n p) x).
  Proof.
    induction n as [|n IH]; intros p x acc; simpl.
    - now rewrite app_nil_r.
    - destruct p as [|o rest]; unfold local_step; simpl.
      + rewrite IH. rewrite firstn_nil', skipn_nil. reflexivity.
      + destruct (o s x) as [x' r] eqn:E. rewrite IH. rewrite <- app_assoc. reflexivity.
  Qed.

  Lemma interleaving_deterministic : forall (s : sh) (progs : thread -> list op) (privs : thread -> st) sched t,
    let k := turns t sched in
    let c := run s sched (initial progs privs) in
    t_outs (c t) = exec s (firstn k (progs t)) (privs t)
    /\ t_priv (c t) = final s (firstn k (progs t)) (privs t)
    /\ t_todo (c t) = skipn k (progs t).
  Proof.
    intros. subst c k. rewrite run_view. unfold initial. rewrite alone_spec. simpl. auto.
  Qed.

  Lemma complete_schedule : forall (s : sh) (progs : thread -> list op) (privs : thread -> st) sched t,
    length (progs t) <= turns t sched ->
    let c := run s sched (initial progs privs) in
    t_outs (c t) = exec s (progs t) (privs t) /\ t_priv (c t) = final s (progs t) (privs t) /\ t_todo (c t) = [].
  Proof.
    intros s progs privs sched t Hlen c.
    destruct (interleaving_deterministic s progs privs sched t) as (H1 & H2 & H3).
    subst c. rewrite H1, H2, H3. rewrite firstn_all2 by assumption. rewrite skipn_all2 by assumption. auto.
  Qed.

  (* two schedules giving every thread the same number of turns end in the same configuration *)
  Lemma schedule_irrelevant : forall (s : sh) (c : config) s1 s2,
    (forall t, turns t s1 = turns t s2) -> forall t, run s s1 c t = run s s2 c t.
  Proof. intros. rewrite !run_view. now rewrite H. Qed.
End ByConstruction.

(* ---------------------------------------------------------------------------------------------- *)
Section Footprint.
  Variables (loc val out : Type).
  Variable loc_eq_dec : forall a b : loc, {a = b} + {a <> b}.
  Variable owner : loc -> option thread.

  Notation heap := (heap loc val).
  Notation hop := (hop loc val out).
  Notation hconfig := (hconfig loc val out).
  Notation apply_writes := (apply_writes loc val loc_eq_dec).
  Notation write1 := (write1 loc val loc_eq_dec).
  Notation writes := (writes loc val out).
  Notation shared := (shared loc owner).
  Notation owned := (owned loc owner).
  Notation visible := (visible loc owner).
  Notation agree_on := (agree_on loc val).
  Notation writes_confined := (writes_confined loc val out owner).
  Notation reads_confined := (reads_confined loc val out owner).
  Notation no_shared_write := (no_shared_write loc val out owner).
  Notation no_foreign_write := (no_foreign_write loc val out owner).
  Notation confined := (confined loc val out owner).
  Notation hstep := (hstep loc val out loc_eq_dec).
  Notation hrun := (hrun loc val out loc_eq_dec).
  Notation halone := (halone loc val out loc_eq_dec).
  Notation hexec := (hexec loc val out loc_eq_dec).
  Notation hfinal := (hfinal loc val out loc_eq_dec).
  Notation hinitial := (hinitial loc val out).
  Notation all_confined := (all_confined loc val out owner).
  Notation all_no_shared_write := (all_no_shared_write loc val out owner).

  Lemma apply_writes_untouched : forall ws (h : heap) l, ~ In l (map fst ws) -> apply_writes h ws l = h l.
  Proof.
    unfold Ownership.apply_writes.
    induction ws as [|a ws IH]; intros h l Hn; simpl; [reflexivity|].
    rewrite IH by (intro; apply Hn; right; assumption).
    unfold Ownership.write1. destruct (loc_eq_dec l (fst a)); [|reflexivity].
    exfalso. apply Hn. left. congruence.
  Qed.

  Lemma apply_writes_agree : forall (P : loc -> Prop) ws (h h' : heap),
    agree_on P h h' -> agree_on P (apply_writes h ws) (apply_writes h' ws).
  Proof.
    unfold Ownership.apply_writes.
    induction ws as [|a ws IH]; intros h h' Ha; simpl; [assumption|].
    apply IH. intros l Hl. unfold Ownership.write1. destruct (loc_eq_dec l (fst a)); [reflexivity|now apply Ha].
  Qed.

  (* the two halves of write confinement *)
  Lemma writes_confined_split : forall t (o : hop),
    writes_confined t o <-> no_shared_write o /\ no_foreign_write t o.
  Proof.
    intros t o. unfold Ownership.writes_confined, Ownership.no_shared_write, Ownership.no_foreign_write,
      Ownership.owned, Ownership.shared. split.
    - intros H. split.
      + intros h l Hin Hs. specialize (H h l Hin). congruence.
      + intros h l u Hin Hu. specialize (H h l Hin). congruence.
    - intros [Hs Hf] h l Hin. destruct (owner l) as [u|] eqn:E.
      + f_equal. eapply Hf; eauto.
      + exfalso. eapply Hs; eauto.
  Qed.

  (* what thread t can see of a configuration *)
  Definition veq (t : thread) (c c' : hconfig) : Prop :=
    agree_on (visible t) (h_heap c) (h_heap c') /\ h_todo c t = h_todo c' t /\ h_outs c t = h_outs c' t.

  Lemma veq_refl : forall t c, veq t c c.
  Proof. intros. repeat split; auto. Qed.

  Lemma veq_trans : forall t c1 c2 c3, veq t c1 c2 -> veq t c2 c3 -> veq t c1 c3.
  Proof.
    intros t c1 c2 c3 (A1 & B1 & C1) (A2 & B2 & C2). repeat split; try congruence.
    intros l Hl. rewrite A1, A2; auto.
  Qed.

  (* a property of the pending operations survives a step *)
  Lemma hstep_todo_Forall : forall (P : hop -> Prop) t u (c : hconfig),
    Forall P (h_todo c u) -> Forall P (h_todo (hstep t c) u).
  Proof.
    intros P t u c H. unfold Ownership.hstep.
    destruct (h_todo c t) as [|o rest] eqn:E; [assumption|].
    destruct (o (h_heap c)) as [ws r]. simpl. unfold upd.
    destruct (Nat.eqb u t) eqn:Eu; [|assumption].
    apply Nat.eqb_eq in Eu. subst u. rewrite E in H. now inversion H.
  Qed.

  (* frame: a write-confined step of another thread is invisible to t *)
  Lemma hstep_frame : forall t u (c : hconfig), u <> t ->
    Forall (writes_confined u) (h_todo c u) -> veq t (hstep u c) c.
  Proof.
    intros t u c Hut Hc. unfold Ownership.hstep.
    destruct (h_todo c u) as [|o rest] eqn:E; [apply veq_refl|].
    destruct (o (h_heap c)) as [ws r] eqn:Eo. inversion Hc as [|? ? Ho _]; subst.
    repeat split; simpl.
    - intros l Hl. apply apply_writes_untouched. intro Hin.
      assert (Hw : In l (writes o (h_heap c))) by (unfold Ownership.writes; now rewrite Eo).
      specialize (Ho _ _ Hw). unfold Ownership.owned in Ho.
      destruct Hl as [Hl|Hl]; [unfold Ownership.shared in Hl|unfold Ownership.owned in Hl]; congruence.
    - apply upd_other. congruence.
    - apply upd_other. congruence.
  Qed.

  (* a read-confined step of t itself acts the same on configurations that look the same to t *)
  Lemma hstep_own : forall t (c c' : hconfig), veq t c c' ->
    Forall (reads_confined t) (h_todo c t) -> veq t (hstep t c) (hstep t c').
  Proof.
    intros t c c' (Hh & Ht & Ho) Hc. unfold Ownership.hstep. rewrite <- Ht.
    destruct (h_todo c t) as [|o rest] eqn:E; [repeat split; auto; congruence|].
    inversion Hc as [|? ? Hr _]; subst. rewrite <- (Hr _ _ Hh).
    destruct (o (h_heap c)) as [ws r]. repeat split; simpl.
    - now apply apply_writes_agree.
    - now rewrite !upd_same.
    - rewrite !upd_same. now rewrite Ho.
  Qed.

  Lemma Forall_confined_w : forall t l, Forall (confined t) l -> Forall (writes_confined t) l.
  Proof. intros t l H. eapply Forall_impl; [|exact H]. intros a [Hw _]. exact Hw. Qed.
  Lemma Forall_confined_r : forall t l, Forall (confined t) l -> Forall (reads_confined t) l.
  Proof. intros t l H. eapply Forall_impl; [|exact H]. intros a [_ Hr]. exact Hr. Qed.

  Lemma hrun_view : forall sched (c c' : hconfig) t,
    all_confined c -> Forall (confined t) (h_todo c' t) -> veq t c c' ->
    veq t (hrun sched c) (hrun (repeat t (turns t sched)) c').
  Proof.
    induction sched as [|a rest IH]; intros c c' t Hall Hc' Hv; simpl; [assumption|].
    destruct (Nat.eqb a t) eqn:E; simpl.
    - apply Nat.eqb_eq in E. subst a. apply IH.
      + intro u. apply hstep_todo_Forall. apply Hall.
      + now apply hstep_todo_Forall.
      + destruct Hv as (Hh & Ht & Ho).
        apply hstep_own; [repeat split; assumption|]. apply Forall_confined_r. apply Hall.
    - apply Nat.eqb_neq in E. apply IH.
      + intro u. apply hstep_todo_Forall. apply Hall.
      + assumption.
      + eapply veq_trans; [|exact Hv]. apply hstep_frame; [assumption|]. apply Forall_confined_w. apply Hall.
  Qed.

  Lemma footprint_view : forall sched (c : hconfig) t, all_confined c ->
    let k := turns t sched in
    h_outs (hrun sched c) t = h_outs (halone t k c) t
    /\ h_todo (hrun sched c) t = h_todo (halone t k c) t
    /\ agree_on (visible t) (h_heap (hrun sched c)) (h_heap (halone t k c)).
  Proof.
    intros sched c t Hall k. destruct (hrun_view sched c c t Hall (Hall t) (veq_refl t c)) as (A & B & C).
    unfold Ownership.halone. auto.
  Qed.

  (* running alone is the sequential reference semantics *)
  Lemma halone_spec : forall t n (c : hconfig),
    h_outs (halone t n c) t = h_outs c t ++ hexec (firstn n (h_todo c t)) (h_heap c)
    /\ h_todo (halone t n c) t = skipn n (h_todo c t)
    /\ h_heap (halone t n c) = hfinal (firstn n (h_todo c t)) (h_heap c).
  Proof.
    unfold Ownership.halone.
    induction n as [|n IH]; intros c; simpl.
    - now rewrite app_nil_r.
    - destruct (h_todo c t) as [|o rest] eqn:E.
      + assert (Hs : hstep t c = c) by (unfold Ownership.hstep; now rewrite E).
        rewrite Hs. destruct (IH c) as (A & B & C). rewrite A, B, C, E.
        rewrite firstn_nil', skipn_nil. simpl. auto.
      + destruct (o (h_heap c)) as [ws r] eqn:Eo.
        assert (Hs : hstep t c = mkH (apply_writes (h_heap c) ws) (upd (h_todo c) t rest)
                                     (upd (h_outs c) t (h_outs c t ++ [r])))
          by (unfold Ownership.hstep; rewrite E, Eo; reflexivity).
        rewrite Hs.
        match goal with |- context [hrun _ ?c1] => destruct (IH c1) as (A & B & C) end.
        rewrite A, B, C. simpl. rewrite !upd_same, Eo. rewrite <- app_assoc. simpl. auto.
  Qed.

  Lemma footprint_deterministic : forall (h : heap) (progs : thread -> list hop) sched t,
    (forall u, Forall (confined u) (progs u)) ->
    let k := turns t sched in
    let c := hrun sched (hinitial h progs) in
    h_outs c t = hexec (firstn k (progs t)) h
    /\ h_todo c t = skipn k (progs t)
    /\ agree_on (visible t) (h_heap c) (hfinal (firstn k (progs t)) h).
  Proof.
    intros h progs sched t Hall k c.
    destruct (footprint_view sched (hinitial h progs) t Hall) as (A & B & C).
    destruct (halone_spec t (turns t sched) (hinitial h progs)) as (A' & B' & C').
    subst c k. rewrite A, B, A', B'. rewrite C' in C. simpl in *. auto.
  Qed.

  Lemma shared_unchanged : forall sched (c : hconfig), all_no_shared_write c ->
    forall l, shared l -> h_heap (hrun sched c) l = h_heap c l.
  Proof.
    induction sched as [|a rest IH]; intros c Hall l Hl; simpl; [reflexivity|].
    rewrite IH; [| intro u; apply hstep_todo_Forall; apply Hall | assumption].
    unfold Ownership.hstep. destruct (h_todo c a) as [|o rest'] eqn:E; [reflexivity|].
    destruct (o (h_heap c)) as [ws r] eqn:Eo. simpl.
    apply apply_writes_untouched. intro Hin.
    specialize (Hall a). rewrite E in Hall. inversion Hall as [|? ? Ho _]; subst.
    apply (Ho (h_heap c) l); [|assumption]. unfold Ownership.writes. now rewrite Eo.
  Qed.

  Lemma all_confined_no_shared_write : forall c : hconfig, all_confined c -> all_no_shared_write c.
  Proof.
    intros c H t. eapply Forall_impl; [|apply (H t)]. intros o [Hw _].
    now apply (proj1 (writes_confined_split t o)) in Hw.
  Qed.

  (* confined steps of different threads commute (heap compared where either of them, or anybody, can look:
     everywhere) *)
  Lemma hsteps_commute_view : forall t u (c : hconfig) v, all_confined c -> t <> u ->
    veq v (hstep t (hstep u c)) (hstep u (hstep t c)).
  Proof.
    intros t u c v Hall Htu.
    pose proof (hrun_view [u; t] c c v Hall (Hall v) (veq_refl v c)) as H1.
    pose proof (hrun_view [t; u] c c v Hall (Hall v) (veq_refl v c)) as H2.
    simpl in H1, H2.
    assert (E : turns v [u; t] = turns v [t; u]) by (simpl; lia). simpl in E.
    destruct H1 as (A1 & B1 & C1), H2 as (A2 & B2 & C2).
    rewrite <- E in A2, B2, C2.
    repeat split.
    - intros l Hl. rewrite A1, A2; auto.
    - congruence.
    - congruence.
  Qed.
End Footprint.

(* ---------------------------------------------------------------------------------------------- *)
(* Instances used as non-vacuity examples in Props/C17.v *)
Module Ex.
  (* by construction: the shared heap is a "font" (advance per glyph), the private state a memo like
     Face.extentsCache; the observable tells whether the memo was hit, so private state matters *)
  Definition font := list nat.
  Definition cache := list (nat * nat).
  Fixpoint lookup (g : nat) (c : cache) : option nat :=
    match c with
    | [] => None
    | (k, v) :: r => if Nat.eqb k g then Some v else lookup g r
    end.
  Definition advance (g : nat) : op font cache (nat * bool) :=
    fun f c => match lookup g c with
               | Some v => (c, (v, true))
               | None => let v := nth g f 0 in ((g, v) :: c, (v, false))
               end.
  Definition the_font : font := [500; 620; 250; 700].
  Definition progs (t : thread) : list (op font cache (nat * bool)) :=
    match t with
    | 0 => [advance 1; advance 1; advance 3]
    | 1 => [advance 3; advance 0]
    | _ => [advance 2]
    end.
  Definition privs (t : thread) : cache := [].

  (* footprint: location 0 is shared, location t+1 belongs to thread t *)
  Definition owner (l : nat) : option thread := match l with 0 => None | S t => Some t end.
  (* adds the shared cell into its own cell, reports the old value of its own cell *)
  Definition acc (t : thread) : hop nat nat nat := fun h => ([(S t, h 0 + h (S t))], h (S t)).
  (* a memo written into the shared cell *)
  Definition bad : hop nat nat nat := fun h => ([(0, 1 + h 0)], h 0).
  (* reads the shared cell *)
  Definition peek : hop nat nat nat := fun h => ([], h 0).

  Lemma acc_confined : forall t, confined nat nat nat owner t (acc t).
  Proof.
    intro t. split.
    - intros h l Hin. unfold writes, acc in Hin. simpl in Hin. destruct Hin as [<-|[]]. reflexivity.
    - intros h h' Ha. unfold acc.
      rewrite (Ha 0) by (left; reflexivity). rewrite (Ha (S t)) by (right; reflexivity). reflexivity.
  Qed.

  Lemma peek_confined : forall t, confined nat nat nat owner t peek.
  Proof.
    intro t. split.
    - intros h l Hin. destruct Hin.
    - intros h h' Ha. unfold peek. rewrite (Ha 0) by (left; reflexivity). reflexivity.
  Qed.

  Lemma bad_writes_shared : ~ no_shared_write nat nat nat owner bad.
  Proof. intro H. apply (H (fun _ => 0) 0); [left; reflexivity|reflexivity]. Qed.

  Definition good_progs (t : thread) : list (hop nat nat nat) :=
    match t with 0 => [acc 0; peek; acc 0] | 1 => [acc 1; acc 1] | _ => [] end.
  Lemma good_progs_confined : forall u, Forall (confined nat nat nat owner u) (good_progs u).
  Proof.
    intros [|[|u]]; simpl; repeat constructor; try apply acc_confined; apply peek_confined.
  Qed.

  (* with the unconfined memo in thread 1, what thread 0 observes depends on the schedule *)
  Definition bad_progs (t : thread) : list (hop nat nat nat) :=
    match t with 0 => [peek] | 1 => [bad] | _ => [] end.
End Ex.
