(* Lemmas for C20: di.Direction, NewLanguage, NewLangID. *)
From TV Require Import Lib.GoNum Lib.Res Lib.Bytes Model.Unicode Model.Lang Spec.Unicode.

(* ---- finite domains: lifting a computed forallb to a bounded universal statement ---- *)
Definition zrange (n : nat) : list Z := map Z.of_nat (seq 0 n).
Lemma zrange_in n x : 0 <= x < Z.of_nat n -> In x (zrange n).
Proof.
  intro H. unfold zrange. apply in_map_iff. exists (Z.to_nat x). split; [lia|]. apply in_seq. lia.
Qed.
Lemma forallb_zrange (f : Z -> bool) n : forallb f (zrange n) = true -> forall x, 0 <= x < Z.of_nat n -> f x = true.
Proof. intros H x Hx. rewrite forallb_forall in H. apply H. apply zrange_in. exact Hx. Qed.

(* ---- Direction ---- *)
Definition is_byte (d : Z) : bool := (0 <=? d) && (d <? 256).
Definition other_bits (mask d d' : Z) : bool := Z.land d' (255 - mask) =? Z.land d (255 - mask).

Definition direction_ok (d : Z) : bool :=
  let o := observe d in
  (* SetProgression: sets the progression, keeps every other bit (hence axis and orientation) *)
  set_progression_ok o (observe (dir_set_progression d false)) false
  && set_progression_ok o (observe (dir_set_progression d true)) true
  && other_bits bit_progression d (dir_set_progression d false) && other_bits bit_progression d (dir_set_progression d true)
  && is_byte (dir_set_progression d false) && is_byte (dir_set_progression d true)
  (* SwitchAxis: flips the axis bit only, is an involution *)
  && switch_axis_ok o (observe (dir_switch_axis d)) && other_bits bit_axisVertical d (dir_switch_axis d)
  && (dir_switch_axis (dir_switch_axis d) =? d) && is_byte (dir_switch_axis d)
  (* SetSideways: vertical, orientation set to the argument, progression kept *)
  && set_sideways_ok o (observe (dir_set_sideways d false)) false
  && set_sideways_ok o (observe (dir_set_sideways d true)) true
  && is_byte (dir_set_sideways d false) && is_byte (dir_set_sideways d true)
  (* getters *)
  && Bool.eqb (dir_axis d) (dir_is_vertical d)
  && (dir_harfbuzz d =? 4 + (if dir_progression d then 1 else 0) + (if dir_is_vertical d then 2 else 0)).

Lemma direction_all_bytes : forallb direction_ok (zrange 256) = true.
Proof. vm_compute. reflexivity. Qed.
Lemma direction_ok_all : forall d, 0 <= d < 256 -> direction_ok d = true.
Proof. intros d H. apply (forallb_zrange direction_ok 256 direction_all_bytes). exact H. Qed.

(* ---- NewLanguage ---- *)
(* table facts: 256 entries; every non-zero value is a canonical byte (so ASCII) that canonMap maps to itself *)
Definition canon_table_ok (cm : list Z) : bool :=
  (zlen cm =? 256) && forallb (fun b => (b =? 0) || (canon_byte b && (znth 0 cm b =? b))) cm.
Lemma canonMap_ok : canon_table_ok canonMap = true. Proof. vm_compute. reflexivity. Qed.

Lemma canon_byte_ascii b : canon_byte b = true -> 0 < b < 128.
Proof.
  unfold canon_byte. intro H. apply orb_prop in H as [H|H]; [apply orb_prop in H as [H|H]|].
  - apply andb_prop in H as [A B]. apply Z.leb_le in A, B. lia.
  - apply andb_prop in H as [A B]. apply Z.leb_le in A, B. lia.
  - apply Z.eqb_eq in H. lia.
Qed.

Lemma new_language_from_in cm : forall s skip b, In b (new_language_from cm skip s) -> In b cm /\ b <> 0.
Proof.
  induction s as [|x t IH]; intros skip b Hin; [contradiction|].
  cbn [new_language_from] in Hin. destruct skip as [|k]; [|apply (IH k); exact Hin].
  destruct (decode_rune (x :: t)) as [r w]. apply in_app_or in Hin as [Hin|Hin]; [|apply (IH _ _ Hin)].
  unfold canon_emit in Hin. destruct (r >=? 255); [contradiction|].
  destruct (negb (znth 0 cm r =? 0)) eqn:E; [|contradiction]. destruct Hin as [<-|[]].
  apply negb_true_iff in E. apply Z.eqb_neq in E. split; [|exact E].
  unfold znth in *. destruct (r <? 0); [congruence|].
  destruct (nth_in_or_default (Z.to_nat r) cm 0) as [H|H]; [exact H|congruence].
Qed.

Lemma new_language_from_fixed cm : canon_table_ok cm = true ->
  forall l, (forall b, In b l -> In b cm /\ b <> 0) -> new_language_from cm 0 l = l.
Proof.
  intro Hok. unfold canon_table_ok in Hok. apply andb_prop in Hok as [_ Hall]. rewrite forallb_forall in Hall.
  induction l as [|b t IH]; intro H; [reflexivity|].
  destruct (H b (or_introl eq_refl)) as [Hb Hnz]. specialize (Hall b Hb).
  apply orb_prop in Hall as [Hz|Hc]; [apply Z.eqb_eq in Hz; congruence|].
  apply andb_prop in Hc as [Hc Hfix]. apply canon_byte_ascii in Hc. apply Z.eqb_eq in Hfix.
  cbn [new_language_from decode_rune].
  replace (b <? 128) with true by (symmetry; apply Z.ltb_lt; lia).
  unfold canon_emit. replace (b >=? 255) with false by (symmetry; rewrite Z.geb_leb; apply Z.leb_gt; lia).
  rewrite Hfix. replace (negb (b =? 0)) with true by (symmetry; apply negb_true_iff; apply Z.eqb_neq; lia).
  cbn [app Nat.pred]. f_equal. apply IH. intros b' Hb'. apply H. right. exact Hb'.
Qed.

Lemma new_language_idempotent_lemma : forall s, new_language (new_language s) = new_language s.
Proof.
  intro s. unfold new_language. apply (new_language_from_fixed canonMap canonMap_ok).
  intros b Hb. apply (new_language_from_in canonMap s 0%nat b Hb).
Qed.

Lemma new_language_canonical_lemma : forall s, canonical (new_language s) = true.
Proof.
  intro s. unfold canonical. apply forallb_forall. intros b Hb.
  destruct (new_language_from_in canonMap s 0%nat b Hb) as [Hin Hnz].
  pose proof canonMap_ok as Hok. unfold canon_table_ok in Hok. apply andb_prop in Hok as [_ Hall].
  rewrite forallb_forall in Hall. specialize (Hall b Hin).
  apply orb_prop in Hall as [Hz|Hc]; [apply Z.eqb_eq in Hz; congruence|]. apply andb_prop in Hc as [Hc _]. exact Hc.
Qed.

(* every byte of NewLanguage(s) is one of a-z, 0-9, '-' (written out, without canon_byte), for every list of integers:
   in particular a NUL byte - whose canonMap entry 0 is the "strip" marker - never survives *)
Lemma new_language_bytes_lemma : forall (s : list Z) (b : Z), In b (new_language s) ->
  97 <= b <= 122 \/ 48 <= b <= 57 \/ b = 45.
Proof.
  intros s b Hb. pose proof (new_language_canonical_lemma s) as H. unfold canonical in H.
  rewrite forallb_forall in H. specialize (H b Hb). unfold canon_byte in H.
  apply orb_prop in H as [H|H]; [apply orb_prop in H as [H|H]|].
  - left. apply andb_prop in H as [A B]. apply Z.leb_le in A, B. lia.
  - right. left. apply andb_prop in H as [A B]. apply Z.leb_le in A, B. lia.
  - right. right. apply Z.eqb_eq in H. exact H.
Qed.

(* a canonical string is returned unchanged: canonMap fixes each of the 37 canonical bytes *)
Lemma canon_bytes_fixed : forallb (fun b => implb (canon_byte b) (znth 0 canonMap b =? b)) (zrange 256) = true.
Proof. vm_compute. reflexivity. Qed.

Lemma new_language_fixes_canonical_lemma : forall l, canonical l = true -> new_language l = l.
Proof.
  unfold new_language. induction l as [|b t IH]; intro H; [reflexivity|].
  unfold canonical in H. cbn [forallb] in H. apply andb_prop in H as [Hb Ht].
  pose proof (canon_byte_ascii b Hb) as Hr.
  assert (Hfix : znth 0 canonMap b = b).
  { pose proof (forallb_zrange _ 256 canon_bytes_fixed b ltac:(lia)) as F. cbv beta in F. rewrite Hb in F.
    cbn [implb] in F. apply Z.eqb_eq in F. exact F. }
  cbn [new_language_from decode_rune].
  replace (b <? 128) with true by (symmetry; apply Z.ltb_lt; lia).
  unfold canon_emit. replace (b >=? 255) with false by (symmetry; rewrite Z.geb_leb; apply Z.leb_gt; lia).
  rewrite Hfix. replace (negb (b =? 0)) with true by (symmetry; apply negb_true_iff; apply Z.eqb_neq; lia).
  cbn [app Nat.pred]. f_equal. apply IH. exact Ht.
Qed.

(* ---- LangID ---- *)
Definition zb_eq (x y : Z * bool) : bool := (fst x =? fst y) && Bool.eqb (snd x) (snd y).
Definition langid_roundtrip_ok (id : Z) : bool :=
  match new_lang_id (lang_of_id id) with Ok r => zb_eq r (id, true) | _ => false end.
Lemma langid_all : forallb langid_roundtrip_ok (zrange (length languagesInfos)) = true.
Proof. vm_compute. reflexivity. Qed.
Lemma langid_roundtrip_lemma : forall id, 0 <= id < zlen languagesInfos -> new_lang_id (lang_of_id id) = Ok (id, true).
Proof.
  intros id H. pose proof (forallb_zrange langid_roundtrip_ok _ langid_all id H) as R.
  unfold langid_roundtrip_ok in R. destruct (new_lang_id (lang_of_id id)) as [[i ok]| | |]; try discriminate.
  unfold zb_eq in R. cbn [fst snd] in R. apply andb_prop in R as [R1 R2]. apply Z.eqb_eq in R1. apply eqb_prop in R2.
  subst. reflexivity.
Qed.
