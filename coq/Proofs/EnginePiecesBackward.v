(* C18: engines over the buffer of a right-to-left run (visual order: non-increasing clusters; the GSUB / GPOS lookups run
   forward over it).  GPOS pair positioning, GPOS mark-to-base and mark-to-mark attachment and GSUB single + ligature substitution meet the
   contract for this direction (sideR, rsorted) as well; every engine built from them is cut-safe.  (The legacy kerning
   reverses such a buffer itself: Proofs/EnginePieces.v fallback_kern_cut_safe_backward.) *)
From TV Require Import Model.MarkBase Model.GsubLig Model.PairPos Model.MarkMark Spec.LocalEngine.
From TV Require Import Proofs.LocalEngine Proofs.EngineItem Proofs.KernMachine Proofs.MarkBase Proofs.GsubLig.
From TV Require Import Proofs.Direction Proofs.ForwardRule Proofs.PairPos Proofs.MarkBaseDir Proofs.GsubSingleDir Proofs.GsubLigBackward Proofs.MarkMark.

Definition inv_r (l : list item) : Prop := rsorted l /\ nomult l.

Inductive rpiece := RPair (P : ppparams) | RMark (P : mbparams) | RGsub (P : gsparams) | RMarkMark (P : mbparams).
Definition rpiece_pass (p : rpiece) : @pass item unit :=
  match p with
  | RPair P => pp_pass P
  | RMark P => mb_pass P
  | RGsub P => gs_pass P
  | RMarkMark P => mm_pass P
  end.

Theorem rpiece_step_ok p : step_ok icl iutb sideR inv_r (rpiece_pass p).
Proof.
  destruct p as [P|P|P|P].
  - exact (pp_step_ok_mb_dir sideR rsorted dirR P).
  - exact (mb_step_ok_dir sideR rsorted dirR P).
  - exact (gs_step_ok_R P).
  - exact (mm_step_ok_mb_dir sideR rsorted dirR P).
Qed.

Theorem rpieces_cut_safe (ps : list rpiece) : cut_safe icl iutb sideR inv_r (map rpiece_pass ps).
Proof.
  apply wf_engine_cut_safe. apply wf_engine_unit. apply Forall_forall. intros q Hq.
  apply in_map_iff in Hq. destruct Hq as (p & <- & _). apply rpiece_step_ok.
Qed.
