(* C14: scoredFootprints.Less is a strict weak order; insertion sort (the model of sort.Stable) is a stable sort
   and, for a strict weak order, THE stable sort (uniqueness); retainsBestMatches never empties a non-empty
   candidate list when the aspects are valid. *)
From TV Require Import Model.FontMap.
From Coq Require Import Permutation Sorting.Sorted.
Open Scope Z_scope.

(* ---------------------------------------------------------------------------------------------- *)
(* Less as a lexicographic order on (class, score, minor)                                           *)

Definition sc_class (script : Z) (a : scored) : Z :=
  if sc_strong a then 0 else if ss_contains (fp_scripts (sc_fp a)) script then 1 else 2.
Definition fp_minor (f : footprint) : Z :=
  (if fp_user f then 0 else 4) + (if fp_mono f then 2 else 0) + (if fp_ttf f then 0 else 1).
Definition lex3 (c1 s1 m1 c2 s2 m2 : Z) : Prop := c1 < c2 \/ (c1 = c2 /\ (s1 < s2 \/ (s1 = s2 /\ m1 < m2))).

Lemma less0_lex si sj fi fj : less0 si sj fi fj = true <-> (si < sj \/ (si = sj /\ fp_minor fi < fp_minor fj)).
Proof.
  unfold less0, fp_minor.
  destruct (si <? sj) eqn:E1; [apply Z.ltb_lt in E1; split; [left; assumption|reflexivity]|].
  apply Z.ltb_ge in E1.
  destruct (si >? sj) eqn:E2; [apply Z.gtb_lt in E2; split; [discriminate|lia]|].
  assert (si = sj) by (rewrite Z.gtb_ltb in E2; apply Z.ltb_ge in E2; lia). subst.
  destruct (fp_user fi), (fp_user fj), (fp_mono fi), (fp_mono fj), (fp_ttf fi), (fp_ttf fj); cbn;
    split; intros H; try discriminate; try reflexivity; try lia.
Qed.

Lemma sf_less_lex script a b :
  sf_less script a b = true <->
  lex3 (sc_class script a) (sc_score a) (fp_minor (sc_fp a)) (sc_class script b) (sc_score b) (fp_minor (sc_fp b)).
Proof.
  unfold sf_less, sc_class, lex3.
  destruct (sc_strong a), (sc_strong b); cbn [andb negb].
  - rewrite less0_lex. lia.
  - split; [intros _; left|reflexivity]. destruct (ss_contains _ _); lia.
  - split; [discriminate|]. destruct (ss_contains _ _); lia.
  - destruct (ss_contains (fp_scripts (sc_fp a)) script), (ss_contains (fp_scripts (sc_fp b)) script); cbn [andb negb];
      try rewrite less0_lex; try lia.
Qed.

Lemma sf_less_false script a b :
  sf_less script a b = false <->
  ~ lex3 (sc_class script a) (sc_score a) (fp_minor (sc_fp a)) (sc_class script b) (sc_score b) (fp_minor (sc_fp b)).
Proof.
  rewrite <- sf_less_lex. destruct (sf_less script a b); split; intros H; try discriminate; try reflexivity.
  exfalso; auto.
Qed.

Definition incomparable (script : Z) (a b : scored) : Prop := sf_less script a b = false /\ sf_less script b a = false.

Lemma less_swo script :
  (forall a, sf_less script a a = false) /\
  (forall a b c, sf_less script a b = true -> sf_less script b c = true -> sf_less script a c = true) /\
  (forall a b c, incomparable script a b -> incomparable script b c -> incomparable script a c).
Proof.
  split; [|split].
  - intros a. apply sf_less_false. unfold lex3. lia.
  - intros a b c. rewrite !sf_less_lex. unfold lex3. lia.
  - intros a b c [H1 H2] [H3 H4]. unfold incomparable.
    apply sf_less_false in H1, H2, H3, H4. rewrite !sf_less_false. unfold lex3 in *. lia.
Qed.

(* ---------------------------------------------------------------------------------------------- *)
(* insertion sort is a stable sort; uniqueness of the stable sort for a strict weak order           *)

Section SortFacts.
  Context {A : Type} (lt : A -> A -> bool).
  Hypothesis lt_irrefl : forall a, lt a a = false.
  Hypothesis lt_trans : forall a b c, lt a b = true -> lt b c = true -> lt a c = true.
  Hypothesis inc_trans : forall a b c,
    lt a b = false -> lt b a = false -> lt b c = false -> lt c b = false -> lt a c = false /\ lt c a = false.

  Definition le (a b : A) : Prop := lt b a = false.
  Definition equivb (a b : A) : bool := negb (lt a b) && negb (lt b a).

  Lemma lt_asym a b : lt a b = true -> lt b a = false.
  Proof.
    intros H. destruct (lt b a) eqn:E; [|reflexivity].
    pose proof (lt_trans _ _ _ H E) as F. rewrite lt_irrefl in F. discriminate.
  Qed.
  (* negative transitivity *)
  Lemma le_trans a b c : le a b -> le b c -> le a c.
  Proof.
    unfold le. intros H1 H2. destruct (lt c a) eqn:E; [|reflexivity]. exfalso.
    destruct (lt a b) eqn:E1.
    - pose proof (lt_trans _ _ _ E E1) as F. rewrite F in H2. discriminate.
    - destruct (lt b c) eqn:E2.
      + pose proof (lt_trans _ _ _ E2 E) as F. rewrite F in H1. discriminate.
      + destruct (inc_trans a b c E1 H1 E2 H2) as [_ F]. rewrite F in E. discriminate.
  Qed.
  Lemma equivb_refl a : equivb a a = true.
  Proof. unfold equivb. rewrite lt_irrefl. reflexivity. Qed.
  Lemma equivb_sym a b : equivb a b = equivb b a.
  Proof. unfold equivb. apply andb_comm. Qed.
  Lemma equivb_trans a b c : equivb a b = true -> equivb b c = true -> equivb a c = true.
  Proof.
    unfold equivb. intros H1 H2. apply andb_prop in H1, H2. destruct H1 as [H1 H1'], H2 as [H2 H2'].
    apply negb_true_iff in H1, H1', H2, H2'. destruct (inc_trans a b c H1 H1' H2 H2') as [F1 F2]. rewrite F1, F2. reflexivity.
  Qed.

  Definition sorted (l : list A) : Prop := StronglySorted le l.

  Lemma insert_in x l y : In y (insert_sorted lt x l) <-> y = x \/ In y l.
  Proof.
    induction l as [|z l IH]; cbn; [intuition|].
    destruct (lt z x); cbn; [rewrite IH|]; intuition.
  Qed.

  Lemma insert_perm x l : Permutation (insert_sorted lt x l) (x :: l).
  Proof.
    induction l as [|z l IH]; cbn; [reflexivity|].
    destruct (lt z x); [|reflexivity]. rewrite IH. apply perm_swap.
  Qed.
  Lemma sort_perm l : Permutation (stable_sort lt l) l.
  Proof. induction l as [|x l IH]; cbn; [constructor|]. rewrite insert_perm. constructor. assumption. Qed.

  Lemma insert_sorted_ok x l : sorted l -> sorted (insert_sorted lt x l).
  Proof.
    induction l as [|z l IH]; cbn; intros H.
    - constructor; constructor.
    - inversion H as [|? ? Hs Hf]; subst. destruct (lt z x) eqn:E.
      + constructor; [apply IH; exact Hs|]. apply Forall_forall. intros y Hy. apply insert_in in Hy. destruct Hy as [->|Hy].
        * unfold le. apply lt_asym. assumption.
        * rewrite Forall_forall in Hf. auto.
      + constructor; [assumption|]. constructor; [exact E|].
        apply Forall_forall. intros y Hy. rewrite Forall_forall in Hf. apply (le_trans x z y); [exact E|auto].
  Qed.
  Lemma sort_sorted l : sorted (stable_sort lt l).
  Proof. induction l as [|x l IH]; cbn; [constructor|]. apply insert_sorted_ok. assumption. Qed.

  (* stability: the elements equivalent to any x keep their relative order *)
  Lemma insert_filter x a l :
    filter (equivb x) (insert_sorted lt a l) = filter (equivb x) (a :: l).
  Proof.
    induction l as [|z l IH]; [reflexivity|]. cbn [insert_sorted].
    destruct (lt z a) eqn:E; [|reflexivity].
    cbn [filter] in *. rewrite IH.
    destruct (equivb x a) eqn:Ea, (equivb x z) eqn:Ez; try reflexivity.
    exfalso. rewrite equivb_sym in Ez. pose proof (equivb_trans _ _ _ Ez Ea) as F.
    unfold equivb in F. rewrite E in F. discriminate.
  Qed.
  Lemma sort_stable l x : filter (equivb x) (stable_sort lt l) = filter (equivb x) l.
  Proof.
    induction l as [|a l IH]; [reflexivity|]. cbn [stable_sort fold_right].
    change (fold_right (insert_sorted lt) [] l) with (stable_sort lt l).
    rewrite insert_filter. cbn [filter]. rewrite IH. reflexivity.
  Qed.

  (* two sorted lists in which every equivalence class appears in the same order are equal *)
  Lemma sorted_stable_unique l1 : forall l2,
    sorted l1 -> sorted l2 -> (forall x, filter (equivb x) l1 = filter (equivb x) l2) -> l1 = l2.
  Proof.
    induction l1 as [|a r1 IH]; intros l2 S1 S2 HF.
    - destruct l2 as [|b r2]; [reflexivity|]. specialize (HF b). cbn in HF. rewrite equivb_refl in HF. discriminate.
    - destruct l2 as [|b r2].
      + specialize (HF a). cbn in HF. rewrite equivb_refl in HF. discriminate.
      + inversion S1 as [|? ? S1' F1]; inversion S2 as [|? ? S2' F2]; subst.
        rewrite Forall_forall in F1, F2.
        assert (Hab : equivb a b = true).
        { assert (Ia : In a (b :: r2)).
          { pose proof (HF a) as H. cbn [filter] in H. rewrite equivb_refl in H.
            assert (In a (filter (equivb a) (b :: r2))) by (cbn [filter]; rewrite <- H; left; reflexivity).
            apply filter_In in H0. tauto. }
          assert (Ib : In b (a :: r1)).
          { pose proof (HF b) as H. cbn [filter] in H. rewrite (equivb_refl b) in H.
            assert (In b (filter (equivb b) (a :: r1))) by (cbn [filter]; rewrite H; left; reflexivity).
            apply filter_In in H0. tauto. }
          unfold equivb. apply andb_true_intro. split; apply negb_true_iff.
          - destruct Ia as [->|Ia]; [apply lt_irrefl|]. apply (F2 _ Ia).
          - destruct Ib as [->|Ib]; [apply lt_irrefl|]. apply (F1 _ Ib). }
        assert (a = b).
        { pose proof (HF a) as H. cbn [filter] in H. rewrite equivb_refl, Hab in H. inversion H. reflexivity. }
        subst b. f_equal. apply IH; auto.
        intros x. pose proof (HF x) as H. cbn [filter] in H. destruct (equivb x a); [inversion H; reflexivity|assumption].
  Qed.

  (* any stable sort of l returns the list computed by insertion sort *)
  Lemma stable_sort_unique l l' :
    sorted l' -> (forall x, filter (equivb x) l' = filter (equivb x) l) -> l' = stable_sort lt l.
  Proof.
    intros S HF. apply sorted_stable_unique; [assumption|apply sort_sorted|].
    intros x. rewrite HF, sort_stable. reflexivity.
  Qed.
End SortFacts.

(* ---------------------------------------------------------------------------------------------- *)
(* retainsBestMatches keeps at least one candidate                                                  *)

Lemma stretch_loop_spec q : forall l n w, (forall s, In s l -> s > 0) -> n >= 0 -> w >= 0 ->
  match stretch_loop l q n w with
  | None => In q l
  | Some (n', w') =>
      (n' = n \/ In n' l) /\ (w' = w \/ In w' l) /\ (n > 0 -> n' > 0) /\ (w > 0 -> w' > 0) /\ n' >= 0 /\ w' >= 0 /\
      (n' = 0 -> forall s, In s l -> ~ s < q) /\ (w' = 0 -> forall s, In s l -> ~ s > q) /\
      (forall s, In s l -> s <> q)
  end.
Proof.
  induction l as [|s l IH]; cbn [stretch_loop]; intros n w Hp Hn Hw.
  - repeat split; auto; try lia; intros ? ? [].
  - assert (Hs : s > 0) by (apply Hp; left; reflexivity).
    assert (Hp' : forall s0, In s0 l -> s0 > 0) by (intros; apply Hp; right; assumption).
    destruct (s >? q) eqn:E1.
    + apply Z.gtb_lt in E1.
      set (w1 := if (w =? 0) || (s - q <? w - q) then s else w).
      assert (Hw1 : w1 > 0 /\ (w1 = w \/ w1 = s)).
      { unfold w1. destruct ((w =? 0) || (s - q <? w - q)) eqn:E; [lia|].
        apply orb_false_iff in E. destruct E as [E _]. apply Z.eqb_neq in E. lia. }
      specialize (IH n w1 Hp' Hn ltac:(lia)).
      destruct (stretch_loop l q n w1) as [[n' w']|]; [|right; assumption].
      destruct IH as (A1 & A2 & A3 & A4 & A5 & A6 & A7 & A8 & A9).
      assert (W' : w' > 0) by (apply A4; lia).
      refine (conj _ (conj _ (conj _ (conj _ (conj _ (conj _ (conj _ (conj _ _)))))))).
      * destruct A1; [left; assumption|right; right; assumption].
      * destruct A2 as [A2|A2]; [|right; right; assumption]. destruct Hw1 as [_ [?|?]]; [left; lia|right; left; lia].
      * exact A3.
      * intros _. exact W'.
      * exact A5.
      * exact A6.
      * intros Z0 s0 [<-|Hin]; [lia|]. apply A7; assumption.
      * intros Z0. exfalso. lia.
      * intros s0 [<-|Hin]; [lia|]. apply A9; assumption.
    + destruct (s <? q) eqn:E2.
      * apply Z.ltb_lt in E2.
        set (n1 := if q - s <? q - n then s else n).
        assert (Hn1 : n1 > 0 /\ (n1 = n \/ n1 = s)).
        { unfold n1. destruct (q - s <? q - n) eqn:E; [lia|]. apply Z.ltb_ge in E. lia. }
        specialize (IH n1 w Hp' ltac:(lia) Hw).
        destruct (stretch_loop l q n1 w) as [[n' w']|]; [|right; assumption].
        destruct IH as (A1 & A2 & A3 & A4 & A5 & A6 & A7 & A8 & A9).
        assert (N' : n' > 0) by (apply A3; lia).
        refine (conj _ (conj _ (conj _ (conj _ (conj _ (conj _ (conj _ (conj _ _)))))))).
        -- destruct A1 as [A1|A1]; [|right; right; assumption]. destruct Hn1 as [_ [?|?]]; [left; lia|right; left; lia].
        -- destruct A2; [left; assumption|right; right; assumption].
        -- intros _. exact N'.
        -- exact A4.
        -- exact A5.
        -- exact A6.
        -- intros Z0. exfalso. lia.
        -- intros Z0 s0 [<-|Hin]; [lia|]. apply A8; assumption.
        -- intros s0 [<-|Hin]; [lia|]. apply A9; assumption.
      * left. rewrite Z.gtb_ltb in E1. apply Z.ltb_ge in E1, E2. lia.
Qed.

Lemma weight_loop_stretch l q : forall f t,
  weight_loop l q f t = match stretch_loop l q t f with Some (n, w) => Some (w, n) | None => None end.
Proof.
  induction l as [|w l IH]; cbn; intros f t; [reflexivity|].
  destruct (w >? q); [apply IH|]. destruct (w <? q); [apply IH|reflexivity].
Qed.

Lemma match_stretch_in l q : l <> [] -> (forall s, In s l -> s > 0) -> In (match_stretch l q) l.
Proof.
  intros Hne Hp. unfold match_stretch. pose proof (stretch_loop_spec q l 0 0 Hp ltac:(lia) ltac:(lia)) as H.
  destruct (stretch_loop l q 0 0) as [[n w]|]; [|assumption].
  destruct H as (A1 & A2 & _ & _ & _ & _ & A7 & A8 & A9).
  assert (K : n = 0 -> w = 0 -> False).
  { intros Hn Hw. destruct l as [|s l]; [contradiction|].
    specialize (A7 Hn s (or_introl eq_refl)). specialize (A8 Hw s (or_introl eq_refl)). specialize (A9 s (or_introl eq_refl)). lia. }
  destruct (q <=? 8).
  - destruct (n =? 0) eqn:E; cbn.
    + apply Z.eqb_eq in E. destruct A2 as [A2|A2]; [exfalso; auto|assumption].
    + apply Z.eqb_neq in E. destruct A1 as [A1|A1]; [contradiction|assumption].
  - destruct (w =? 0) eqn:E; cbn.
    + apply Z.eqb_eq in E. destruct A1 as [A1|A1]; [exfalso; auto|assumption].
    + apply Z.eqb_neq in E. destruct A2 as [A2|A2]; [contradiction|assumption].
Qed.

Lemma match_weight_in l q : l <> [] -> (forall s, In s l -> s > 0) -> In (match_weight l q) l.
Proof.
  intros Hne Hp. unfold match_weight. rewrite weight_loop_stretch.
  pose proof (stretch_loop_spec q l 0 0 Hp ltac:(lia) ltac:(lia)) as H.
  destruct (stretch_loop l q 0 0) as [[t f]|]; [|assumption].
  destruct H as (A1 & A2 & _ & _ & _ & _ & A7 & A8 & A9).
  assert (K : t = 0 -> f = 0 -> False).
  { intros Hn Hw. destruct l as [|s l]; [contradiction|].
    specialize (A7 Hn s (or_introl eq_refl)). specialize (A8 Hw s (or_introl eq_refl)). specialize (A9 s (or_introl eq_refl)). lia. }
  assert (Ff : f <> 0 -> In f l) by (intros; destruct A2; [contradiction|assumption]).
  assert (Ft : t <> 0 -> In t l) by (intros; destruct A1; [contradiction|assumption]).
  assert (F0 : f = 0 -> t <> 0) by (intros ? ?; auto).
  destruct ((400 <=? q) && (q <=? 500)).
  - destruct (f =? 0) eqn:E; cbn.
    + apply Z.eqb_eq in E. destruct (t =? 0) eqn:E'; cbn; [apply Z.eqb_eq in E'; exfalso; auto|apply Z.eqb_neq in E'; auto].
    + apply Z.eqb_neq in E. destruct (f <=? 500); cbn; [auto|].
      destruct (t =? 0) eqn:E'; cbn; [auto|apply Z.eqb_neq in E'; auto].
  - destruct (q <? 400).
    + destruct (t =? 0) eqn:E'; cbn; [apply Z.eqb_eq in E'; apply Ff; intro; auto|apply Z.eqb_neq in E'; auto].
    + destruct (f =? 0) eqn:E; cbn; [apply Z.eqb_eq in E; auto|apply Z.eqb_neq in E; auto].
Qed.

Definition valid_fp (fp : footprint) : Prop :=
  (a_style (fp_aspect fp) = 1 \/ a_style (fp_aspect fp) = 2) /\ a_weight (fp_aspect fp) > 0 /\ a_stretch (fp_aspect fp) > 0.
Definition valid_style (a : aspect) : Prop := a_style a = 0 \/ a_style a = 1 \/ a_style a = 2.

Lemma filter_value_nonempty {A} (f : A -> Z) l v : In v (map f l) -> filter (fun x => f x =? v) l <> [].
Proof.
  intros H. apply in_map_iff in H. destruct H as [x [Hx Hin]]. intros E.
  assert (In x (filter (fun x => f x =? v) l)) by (apply filter_In; split; [assumption|apply Z.eqb_eq; assumption]).
  rewrite E in H. destruct H.
Qed.
Lemma map_nonempty {A B} (f : A -> B) l : l <> [] -> map f l <> [].
Proof. destruct l; cbn; [contradiction|discriminate]. Qed.

Lemma zmem_in x l : zmem x l = true <-> In x l.
Proof.
  induction l as [|y l IH]; cbn; [split; [discriminate|contradiction]|].
  rewrite orb_true_iff, IH, Z.eqb_eq. split; intros [H|H]; auto.
Qed.

Lemma match_style_ok l q : (forall s, In s l -> s = 1 \/ s = 2) -> q = 1 \/ q = 2 ->
  exists sty, match_style l q = Ok sty /\ (l <> [] -> In sty l).
Proof.
  intros Hv Hq. unfold match_style.
  assert (F : forallb (fun s => (0 <=? s) && (s <=? 2)) l = true).
  { apply forallb_forall. intros s Hs. destruct (Hv s Hs); subst; reflexivity. }
  rewrite F.
  assert (K : l <> [] -> zmem 1 l = false -> zmem 2 l = false -> False).
  { intros Hne H1 H2. destruct l as [|s l]; [contradiction|]. destruct (Hv s (or_introl eq_refl)); subst; cbn in *; discriminate. }
  destruct Hq; subst; cbn.
  - destruct (zmem 1 l) eqn:E1; [eexists; split; [reflexivity|intros _; apply zmem_in; assumption]|].
    destruct (zmem 2 l) eqn:E2; eexists; split; try reflexivity; intros Hne; [apply zmem_in; assumption|exfalso; auto].
  - destruct (zmem 2 l) eqn:E2; [eexists; split; [reflexivity|intros _; apply zmem_in; assumption]|].
    eexists; split; [reflexivity|]. intros Hne. destruct (zmem 1 l) eqn:E1; [apply zmem_in; assumption|exfalso; auto].
Qed.

Lemma retains_l_ok l q :
  (forall x, In x l -> valid_fp (snd x)) -> valid_style q ->
  exists l', retains_l l q = Ok l' /\ (forall x, In x l' -> In x l) /\ (l <> [] -> l' <> []).
Proof.
  intros Hv Hq. unfold retains_l.
  set (st := match_stretch _ _).
  set (l1 := filter (fun x => a_stretch (fp_aspect (snd x)) =? st) l).
  assert (S1 : forall x, In x l1 -> In x l) by (intros x Hx; apply filter_In in Hx; tauto).
  assert (N1 : l <> [] -> l1 <> []).
  { intros Hne. apply (filter_value_nonempty (fun x => a_stretch (fp_aspect (snd x)))).
    apply match_stretch_in; [apply map_nonempty; assumption|].
    intros s Hs. apply in_map_iff in Hs. destruct Hs as [x [<- Hx]]. apply (Hv x Hx). }
  destruct (match_style_ok (map (fun x => a_style (fp_aspect (snd x))) l1) (a_style (set_defaults q))) as [sty [Es Hs]].
  { intros s Hin. apply in_map_iff in Hin. destruct Hin as [x [<- Hx]]. apply (Hv x (S1 x Hx)). }
  { unfold set_defaults; cbn. destruct Hq as [H|[H|H]]; rewrite H; cbn; auto. }
  rewrite Es. cbn [bind].
  set (l2 := filter (fun x => a_style (fp_aspect (snd x)) =? sty) l1).
  assert (S2 : forall x, In x l2 -> In x l1) by (intros x Hx; apply filter_In in Hx; tauto).
  assert (N2 : l1 <> [] -> l2 <> []).
  { intros Hne. apply (filter_value_nonempty (fun x => a_style (fp_aspect (snd x)))). apply Hs. apply map_nonempty; assumption. }
  eexists. split; [reflexivity|]. split.
  - intros x Hx. apply filter_In in Hx. destruct Hx as [Hx _]. auto.
  - intros Hne. apply (filter_value_nonempty (fun x => a_weight (fp_aspect (snd x)))).
    apply match_weight_in; [apply map_nonempty; auto|].
    intros s Hin. apply in_map_iff in Hin. destruct Hin as [x [<- Hx]]. apply (Hv x (S1 x (S2 x Hx))).
Qed.
