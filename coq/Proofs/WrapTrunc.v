(* C04: truncation_lines — with TruncateAfterLines = k >= 1 at most k lines are returned, over any number of WrapNextLine
   calls and by WrapParagraph.  The countdown lives in postProcessLine: every call that runs while the wrapper is live
   decrements the counter, and the call that brings it to 0 reports done; after done every call returns the nil line. *)
From TV Require Import Model.Wrap Spec.Wrap Proofs.Wrap Proofs.WrapLines.

Lemma post_process_trunc : forall w line done w' wl d, post_process w line done = (w', wl, d) ->
  w_truncating w' = w_truncating w
  /\ c_trunc (w_cfg w') = (if w_truncating w then c_trunc (w_cfg w) - 1 else c_trunc (w_cfg w))
  /\ (w_truncating w = true -> c_trunc (w_cfg w) - 1 = 0 -> d = true).
Proof.
  intros w line done w' wl d H. rewrite post_process_split in H.
  destruct (pp_first w line) as [w1 l1] eqn:PF.
  assert (K : w_cfg w1 = w_cfg w /\ w_truncating w1 = w_truncating w).
  { unfold pp_first in PF. destruct line as [[|a fl]|]; try (inversion PF; subst; auto).
    cbv zeta in PF. destruct (c_notrim (w_cfg w)); [inversion PF; subst; destruct w; auto|].
    match type of PF with context [if ?c then _ else _] => destruct c end; inversion PF; subst; destruct w; cbn; auto. }
  destruct K as (K1 & K2). rewrite <- K2. clear PF K2.
  assert (G : forall cfg, pp_tail cfg w1 l1 done = (w', wl, d) ->
            w_truncating w' = w_truncating w1
            /\ c_trunc (w_cfg w') = (if w_truncating w1 then c_trunc cfg - 1 else c_trunc (w_cfg w1))
            /\ (w_truncating w1 = true -> c_trunc cfg - 1 = 0 -> d = true)).
  { clear. intros cfg H. unfold pp_tail in H. destruct (w_truncating w1) eqn:T.
    - destruct (c_trunc cfg - 1 =? 0) eqn:K.
      + destruct (_ || c_cont cfg); injection H as E1 E2 E3; rewrite <- E1, <- ?E3; destruct w1; cbn in *; auto.
      + apply Z.eqb_neq in K. destruct (done || _); injection H as E1 E2 E3; rewrite <- E1, <- ?E3; destruct w1; cbn in *; (split; [auto|split; [auto|intros; lia]]).
    - destruct (done || _); injection H as E1 E2 E3; rewrite <- E1, <- ?E3; destruct w1; cbn in *; (split; [auto|split; [auto|intros; discriminate]]). }
  destruct (G _ H) as (G1 & G2 & G3). split; [exact G1|]. split; [|exact G3].
  rewrite G2, K1. reflexivity.
Qed.

Lemma wnl_trunc : forall n attrs w mw w' wl d, CI n attrs w -> w_more w = true ->
  wrap_next_line w mw = Ok (w', wl, d) ->
  w_truncating w' = w_truncating w
  /\ c_trunc (w_cfg w') = (if w_truncating w then c_trunc (w_cfg w) - 1 else c_trunc (w_cfg w))
  /\ (w_truncating w = true -> c_trunc (w_cfg w) = 1 -> d = true).
Proof.
  intros n attrs w mw w' wl d HC Hm H. unfold wrap_next_line in H. rewrite Hm in H. cbn [negb] in H.
  destruct (CI_peek n attrs w HC) as (ci & run & PK). rewrite PK in H. cbn [negb] in H.
  destruct (CI_start_line n attrs w HC) as (T0 & _).
  set (lc := mkLC _ _ _) in H.
  destruct (outer_loop _ (start_line w) lc) as [[w2 d2]| | |] eqn:OL; cbn [bind] in H; try discriminate.
  destruct (outer_loop_ok n _ _ _ _ _ (proj1 (proj1 T0)) OL) as [_ O2].
  destruct O2 as (Oc & Ot & _).
  replace (w_cfg (start_line w)) with (w_cfg w) in Oc by (destruct w; reflexivity).
  replace (w_truncating (start_line w)) with (w_truncating w) in Ot by (destruct w; reflexivity).
  cbv beta iota zeta in H. injection H as PP.
  destruct (post_process_trunc _ _ _ _ _ _ PP) as (P1 & P2 & P3). rewrite Ot, Oc in *.
  split; [exact P1|]. split; [exact P2|]. intros A B. apply P3; [exact A|lia].
Qed.

Definition has_line (x : wrapped * bool) : bool := match wl_line (fst x) with Some _ => true | None => false end.
Definition nlines (rs : list (wrapped * bool)) : Z := zlen (filter has_line rs).

Lemma nlines_cons : forall x rs, nlines (x :: rs) = (if has_line x then 1 else 0) + nlines rs.
Proof. intros. unfold nlines. cbn [filter]. destruct (has_line x); [rewrite zlen_cons|]; lia. Qed.

Lemma run_calls_trunc : forall n attrs widths w (live : bool) w' rs,
  (match live return Prop with
   | true => CI n attrs w /\ w_more w = true /\ 1 <= c_trunc (w_cfg w)
   | false => w_more w = false end) ->
  run_calls w widths = Ok (w', rs) ->
  nlines rs <= (if live then c_trunc (w_cfg w) else 0).
Proof.
  intros n attrs. induction widths as [|mw rest IH]; intros w live w' rs HS H; cbn [run_calls] in H.
  { inversion H; subst. unfold nlines; cbn. destruct live; [destruct HS as (_ & _ & K); lia|lia]. }
  destruct (wrap_next_line w mw) as [[[w1 wl] d]| | |] eqn:WN; cbn [bind] in H; try discriminate.
  destruct (run_calls w1 rest) as [[w2 rs2]| | |] eqn:RC; cbn [bind fst snd] in H; try discriminate.
  inversion H; subst w' rs; clear H. rewrite nlines_cons.
  destruct live.
  - destruct HS as (HC & Hm & K).
    destruct (wrap_next_line_J n attrs w mw w1 wl d HC Hm WN) as (_ & _ & _ & L4 & L5).
    destruct (wnl_trunc n attrs w mw w1 wl d HC Hm WN) as (T1 & T2 & T3).
    assert (TR : w_truncating w = true).
    { destruct HC as (_ & _ & _ & _ & _ & _ & _ & HT & _). rewrite HT. apply Z.ltb_lt. lia. }
    rewrite TR in T2.
    assert (B : (if has_line (wl, d) then 1 else 0) <= 1) by (destruct (has_line (wl, d)); lia).
    destruct d.
    + destruct (L5 eq_refl) as [M1 _]. pose proof (IH w1 false w2 rs2 M1 RC) as X. cbn in X. lia.
    + destruct (L4 eq_refl) as (C1 & M1 & _).
      assert (K1 : 1 <= c_trunc (w_cfg w1)).
      { destruct (Z.eq_dec (c_trunc (w_cfg w)) 1) as [E|E]; [specialize (T3 TR E); discriminate|lia]. }
      pose proof (IH w1 true w2 rs2 (conj C1 (conj M1 K1)) RC) as X. cbn in X. lia.
  - unfold wrap_next_line in WN. rewrite HS in WN. cbn in WN. inversion WN; subst w1 wl d; clear WN.
    pose proof (IH w false w2 rs2 HS RC) as X. cbn in X. cbn. lia.
Qed.

Lemma truncation_lines_calls : forall n w cfg attrs runs widths w' rs,
  runs_ok runs n -> zlen attrs - 1 = n -> 1 <= n -> 1 <= c_trunc cfg ->
  run_calls (prepare w cfg attrs runs 0 0) widths = Ok (w', rs) ->
  nlines rs <= c_trunc cfg.
Proof.
  intros n w cfg attrs runs widths w' rs HR Hn H1 K H.
  apply (run_calls_trunc n attrs widths (prepare w cfg attrs runs 0 0) true w' rs); [|exact H].
  split; [apply CI_prepare; auto|]. split; [reflexivity|exact K].
Qed.

Lemma paragraph_loop_trunc : forall n attrs fuel w mw acc w' ls tr,
  CI n attrs w -> w_more w = true -> 1 <= c_trunc (w_cfg w) ->
  paragraph_loop fuel w mw acc = Ok (w', ls, tr) -> zlen ls <= zlen acc + c_trunc (w_cfg w).
Proof.
  intros n attrs. induction fuel as [|fuel IH]; intros w mw acc w' ls tr HC Hm K H; cbn [paragraph_loop] in H; [discriminate|].
  destruct (wrap_next_line w mw) as [[[w1 wl] d]| | |] eqn:WN; cbn [bind] in H; try discriminate.
  destruct (wrap_next_line_J n attrs w mw w1 wl d HC Hm WN) as (_ & _ & _ & L4 & L5).
  destruct (wnl_trunc n attrs w mw w1 wl d HC Hm WN) as (T1 & T2 & T3).
  assert (TR : w_truncating w = true).
  { destruct HC as (_ & _ & _ & _ & _ & _ & _ & HT & _). rewrite HT. apply Z.ltb_lt. lia. }
  rewrite TR in T2.
  assert (A : zlen (match wl_line wl with Some l => acc ++ [l] | None => acc end) <= zlen acc + 1).
  { destruct (wl_line wl); [rewrite zlen_app, zlen_cons, zlen_nil|]; lia. }
  destruct d.
  - inversion H; subst. lia.
  - destruct (L4 eq_refl) as (C1 & M1 & _).
    assert (K1 : 1 <= c_trunc (w_cfg w1)).
    { destruct (Z.eq_dec (c_trunc (w_cfg w)) 1) as [E|E]; [specialize (T3 TR E); discriminate|lia]. }
    pose proof (IH w1 mw _ w' ls tr C1 M1 K1 H). lia.
Qed.

Lemma truncation_lines_par : forall n w cfg attrs runs mw w' ls tr,
  runs_ok runs n -> zlen attrs - 1 = n -> 1 <= n -> 1 <= c_trunc cfg ->
  wrap_paragraph w cfg mw attrs runs = Ok (w', ls, tr) -> zlen ls <= c_trunc cfg.
Proof.
  intros n w cfg attrs runs mw w' ls tr HR Hn H1 K H. unfold wrap_paragraph in H.
  match type of H with (match ?f with Some _ => _ | None => _ end) = _ => destruct f end.
  - inversion H; subst. unfold zlen; cbn. lia.
  - pose proof (paragraph_loop_trunc n attrs _ _ mw [] w' ls tr (CI_prepare n w cfg attrs runs HR Hn H1) eq_refl K H) as X.
    rewrite zlen_nil in X. cbn in X. lia.
Qed.
