(* The first (decompose) round of otShapeNormalize (Model/Engine.v round1 and everything below it) preserves WF while output is
   in progress, never panics, and every loop fuel of the model is sufficient, for every buffer, decomposition function, cmap and
   Unicode data.  The only way not to return Ok is the recursion budget dfuel of decompose_rec. *)
From TV Require Import Model.Buffer Spec.Buffer Proofs.ShapeGlue Proofs.Buffer Proofs.BufferOps Proofs.BufferNewOps Proofs.BufferAll.
From TV Require Import Model.Engine Proofs.Engine Proofs.EngineRecompose.

(* ---------- buffer-level frame facts ---------- *)

Lemma zfirstn_last (o : list glyph) : 0 < zlen o -> zfirstn (zlen o - 1) o ++ [lastg o] = o.
Proof.
  induction o as [|x o' _] using rev_ind; [unfold zlen; cbn [length]; lia|]. intros _.
  unfold lastg. rewrite last_last. rewrite zlen_app, zlen_cons, zlen_nil.
  replace (zlen o' + (1 + 0) - 1) with (zlen o') by lia. rewrite zfirstn_app_exact. reflexivity.
Qed.

Lemma set_info_same_cl b i g : 0 <= i -> i < zlen (info b) -> cl g = cl (nth (Z.to_nat i) (info b) g0) ->
  same_cl b (set_info b i g) /\ zlen (info (set_info b i g)) = zlen (info b).
Proof.
  intros H0 H1 Ec. unfold set_info. cbn [info with_info]. split.
  - unfold same_cl. cbn [info out idx have_out level with_info]. rewrite cls_replace_nth by auto. auto.
  - apply zlen_replace_nth; auto.
Qed.

Lemma next_glyphs_frame b k : have_out b = true -> 0 <= idx b -> 0 <= k -> idx b + k <= zlen (info b) ->
  next_glyphs b k = Ok (with_idx (with_out b (out b ++ slice (idx b) (idx b + k) (info b))) (idx b + k)).
Proof.
  intros Hh H0 H1 H2. unfold next_glyphs. rewrite Hh.
  destruct (Z.leb_spec 0 (idx b)); [|lia]. destruct (Z.leb_spec 0 k); [|lia].
  destruct (Z.leb_spec (idx b + k) (zlen (info b))); [|lia]. reflexivity.
Qed.

(* replaceGlyphs(k, [u], nil) with the cursor inside the buffer *)
Lemma replace_glyphs_frame lo hi b k u : (level b =? 2) = false -> WF lo hi b = true -> have_out b = true ->
  0 <= k -> idx b < zlen (info b) -> idx b + k <= zlen (info b) ->
  exists b', replace_glyphs b k (Some [u]) None = Ok b' /\ WF lo hi b' = true /\ level b' = level b
    /\ idx b' = idx b + k /\ have_out b' = true /\ zlen (info b') = zlen (info b) /\ zlen (out b') = zlen (out b) + 1.
Proof.
  intros Hl Hw Hh K0 I2 K1. destruct (WF_parts lo hi b Hl Hw) as (I0 & I1 & _).
  destruct (op_step lo hi (OReplace k (Some [u]) None) b Hl Hw) as (b' & E & W & L); [|reflexivity|].
  { cbn [pre olen_ok]. rewrite Hh. destruct (Z.leb_spec 0 k); [|lia]. destruct (Z.leb_spec (idx b + k) (zlen (info b))); [|lia].
    destruct (Z.ltb_spec (idx b) (zlen (info b))); [|lia]. reflexivity. }
  cbn [run_op] in E. exists b'. split; [exact E|]. split; [exact W|].
  destruct (merge_full lo hi b (idx b) (idx b + k) Hl Hw) as (b1 & E1 & W1 & L1 & X1 & Hh1 & ZN1 & ZO1 & _).
  { cbn [pre]. destruct (Z.leb_spec 0 (idx b)); [|lia]. destruct (Z.leb_spec (idx b) (idx b + k)); [|lia].
    destruct (Z.leb_spec (idx b + k) (zlen (info b))); [|lia]. rewrite Z.leb_refl, orb_true_r. reflexivity. }
  unfold replace_glyphs in E. rewrite E1 in E. cbn [bind] in E.
  destruct (Z.ltb_spec (idx b1) (zlen (info b1))); [|lia].
  rewrite getg_ok in E by lia. cbn [bind] in E.
  cbn [olen] in E. rewrite zlen_cons, zlen_nil in E. cbn [Z.add Z.max Z.compare Pos.compare Z.ltb orb] in E.
  change (1 <? 1) with false in E. cbn [orb] in E.
  inversion E as [B']. cbn [level idx have_out info out with_idx with_out].
  rewrite zlen_app, zlen_cons, zlen_nil.
  repeat split; try congruence; try lia.
Qed.

Section Decompose.
  Variable ugc : Z -> Z.
  Variable udi : Z -> bool.
  Variable umcc : Z -> Z.
  Variable uspace : Z -> Z.
  Variable nominal : Z -> Z * bool.
  Variable variation : Z -> Z -> Z * bool.
  Variable sdecomp : Z -> option (Z * Z).
  Variable dfuel : nat.
  Variables lo hi : Z.

  Definition okf {A} (r : res A) (P : A -> Prop) : Prop := r = OutOfFuel \/ exists x, r = Ok x /\ P x.

  (* the data obligation under which the recursion budget of decompose is never exhausted *)
  Definition decomp_wf : Prop :=
    exists rank : Z -> nat, (forall ab a b, sdecomp ab = Some (a, b) -> (rank a < rank ab)%nat) /\ (forall u, (rank u < dfuel)%nat).

  (* Ok, or out of fuel and then the decomposition data is not well founded within dfuel *)
  Definition okt {A} (r : res A) (P : A -> Prop) : Prop := (r = OutOfFuel /\ ~ decomp_wf) \/ exists x, r = Ok x /\ P x.

  Lemma okt_okf {A} (r : res A) P : okt r P -> okf r P.
  Proof. intros [[E _]|H]; [left; exact E|right; exact H]. Qed.
  Lemma okt_total {A} (r : res A) P : decomp_wf -> okt r P -> exists x, r = Ok x /\ P x.
  Proof. intros D [[_ N]|H]; [contradiction|exact H]. Qed.
  Lemma okt_ok {A} (x : A) (P : A -> Prop) : P x -> okt (Ok x) P.
  Proof. intros H. right. exists x. auto. Qed.
  Lemma okt_ex {A} (r : res A) (P : A -> Prop) : (exists x, r = Ok x /\ P x) -> okt r P.
  Proof. intros H. right. exact H. Qed.
  Lemma okt_bind {A B} (r : res A) (f : A -> res B) P Q : okt r P -> (forall x, P x -> okt (f x) Q) -> okt (bind r f) Q.
  Proof. intros [[E N]|(x & E & Hx)] H; rewrite E; cbn [bind]; [left; auto|apply H; exact Hx]. Qed.
  Lemma okt_weaken {A} (r : res A) (P Q : A -> Prop) : okt r P -> (forall x, P x -> Q x) -> okt r Q.
  Proof. intros [H|(x & E & Hx)] I; [left; exact H|right; exists x; auto]. Qed.

  (* the state between the steps: output in progress, WF *)
  Definition good (e : ebuf) : Prop := (level (eb e) =? 2) = false /\ WF lo hi (eb e) = true /\ have_out (eb e) = true.
  (* what every step keeps *)
  (* the cursor never moves back, the output never shrinks, and it grows whenever the cursor advances *)
  Definition grow (e e' : ebuf) : Prop :=
    idx (eb e) <= idx (eb e') /\ zlen (out (eb e)) <= zlen (out (eb e'))
    /\ (idx (eb e) < idx (eb e') -> zlen (out (eb e)) < zlen (out (eb e'))).
  Definition fr (e e' : ebuf) : Prop :=
    good e' /\ level (eb e') = level (eb e) /\ zlen (info (eb e')) = zlen (info (eb e)) /\ dir e' = dir e /\ grow e e'.

  Lemma fr_refl e : good e -> fr e e.
  Proof. intros G. unfold fr, grow. repeat split; try apply G; lia. Qed.
  Lemma fr_trans e1 e2 e3 : fr e1 e2 -> fr e2 e3 -> fr e1 e3.
  Proof.
    intros (G2 & A & B & C & M) (G3 & A' & B' & C' & M'). unfold fr, grow in *.
    repeat split; try apply G3; try congruence; lia.
  Qed.

  Lemma good_idx e : good e -> 0 <= idx (eb e) /\ idx (eb e) <= zlen (info (eb e)).
  Proof. intros (Hl & Hw & _). destruct (WF_parts lo hi (eb e) Hl Hw) as (I0 & I1 & _). auto. Qed.

  (* a cluster-neutral edit of Info[i] *)
  Lemma set_info_fr e i g : good e -> 0 <= i -> i < zlen (info (eb e)) -> cl g = cl (nth (Z.to_nat i) (info (eb e)) g0) ->
    fr e (with_eb e (set_info (eb e) i g)) /\ idx (set_info (eb e) i g) = idx (eb e) /\ out (set_info (eb e) i g) = out (eb e).
  Proof.
    intros (Hl & Hw & Hh) H0 H1 Ec. destruct (set_info_same_cl (eb e) i g H0 H1 Ec) as [S Z].
    split; [|split; reflexivity]. unfold fr, good. cbn [eb with_eb dir].
    pose proof (WF_same_cl lo hi _ _ Hl Hw S) as W. destruct S as (_ & _ & _ & S4 & S5).
    rewrite S4, S5. unfold grow, set_info in *. cbn [eb with_eb idx out with_info]. repeat split; auto; lia.
  Qed.
  (* ---------- the primitive steps ---------- *)

  Lemma set_cur_gid_ok e g : good e -> idx (eb e) < zlen (info (eb e)) ->
    exists b1, set_cur_gid (eb e) g = Ok b1 /\ fr e (with_eb e b1) /\ idx b1 = idx (eb e) /\ out b1 = out (eb e).
  Proof.
    intros G I2. destruct (good_idx e G) as [I0 I1]. unfold set_cur_gid. rewrite getg_ok by lia. cbn [bind].
    eexists. split; [reflexivity|]. apply set_info_fr; auto.
  Qed.

  Lemma prev_set_props_ok e : good e -> 0 < zlen (out (eb e)) ->
    exists e', prev_set_props ugc udi umcc e = Ok e' /\ fr e e' /\ idx (eb e') = idx (eb e)
               /\ zlen (out (eb e')) = zlen (out (eb e)).
  Proof.
    intros (Hl & Hw & Hh) O. unfold prev_set_props. destruct (Z.eqb_spec (zlen (out (eb e))) 0); [lia|].
    destruct (compute_props ugc udi umcc (cp (lastg (out (eb e))))) as [p f].
    assert (ZO : forall g, zlen (zfirstn (zlen (out (eb e)) - 1) (out (eb e)) ++ [g]) = zlen (out (eb e))).
    { intros g. rewrite zlen_app, zlen_zfirstn, zlen_cons, zlen_nil by lia. lia. }
    eexists. split; [reflexivity|]. unfold fr, good, grow. rewrite !eb_or_scratch, dir_or_scratch.
    cbn [eb with_eb dir level have_out info idx out with_out]. rewrite ZO. repeat split; auto; try lia.
    apply (WF_same_cl lo hi (eb e)); auto. unfold same_cl. cbn [level have_out info idx out with_out]. repeat split; auto.
    pose proof (f_equal cls (zfirstn_last (out (eb e)) O)) as Ez. rewrite cls_app in Ez. rewrite cls_app.
    etransitivity; [|exact Ez]. reflexivity.
  Qed.

  Lemma output_char_ok e u g : good e -> idx (eb e) < zlen (info (eb e)) ->
    exists e', output_char ugc udi umcc e u g = Ok e' /\ fr e e' /\ idx (eb e') = idx (eb e)
               /\ zlen (out (eb e')) = zlen (out (eb e)) + 1.
  Proof.
    intros G I2. unfold output_char.
    destruct (set_cur_gid_ok e g G I2) as (b1 & E1 & F1 & X1 & O1). rewrite E1. cbn [bind].
    destruct F1 as ((Hl1 & Hw1 & Hh1) & L1 & Z1 & D1 & M1). cbn [eb with_eb dir] in *.
    destruct (replace_glyphs_frame lo hi b1 0 u Hl1 Hw1 Hh1) as (b2 & E2 & W2 & L2 & X2 & Hh2 & Z2 & O2); try lia.
    unfold output_rune. rewrite E2. cbn [bind].
    assert (G2 : good (with_eb e b2)). { unfold good. cbn [eb with_eb]. rewrite L2. auto. }
    destruct (prev_set_props_ok (with_eb e b2) G2) as (e' & E3 & F3 & X3 & O3).
    { cbn [eb with_eb]. pose proof (zlen_nonneg (out b1)). lia. }
    exists e'. split; [exact E3|]. cbn [eb with_eb] in *. rewrite O1 in O2.
    destruct F3 as (G3 & L3 & Z3 & D3 & M3). cbn [eb with_eb dir] in *. split; [|lia].
    unfold fr, grow. repeat split; try apply G3; try congruence; lia.
  Qed.

  Lemma next_char_ok e g : good e -> idx (eb e) < zlen (info (eb e)) ->
    exists e', next_char e g = Ok e' /\ fr e e' /\ idx (eb e') = idx (eb e) + 1.
  Proof.
    intros G I2. unfold next_char.
    destruct (set_cur_gid_ok e g G I2) as (b1 & E1 & F1 & X1 & O1). rewrite E1. cbn [bind].
    destruct F1 as ((Hl1 & Hw1 & Hh1) & L1 & Z1 & D1 & M1). cbn [eb with_eb dir] in *.
    destruct (good_idx e G) as [I0 I1].
    destruct (op_step lo hi ONext b1 Hl1 Hw1) as (b2 & E2 & W2 & L2); [cbn [pre]; apply Z.ltb_lt; lia|reflexivity|].
    cbn [run_op] in E2. rewrite E2. cbn [lift bind]. eexists. split; [reflexivity|].
    rewrite next_glyph_frame in E2 by (auto; lia). injection E2 as B2. subst b2.
    unfold fr, good, grow. cbn [eb with_eb dir level have_out info idx out with_out with_idx].
    rewrite zlen_app, zlen_cons, zlen_nil. pose proof (f_equal (@zlen glyph) O1) as O1'. repeat split; auto; try lia.
  Qed.

  (* ---------- decompose ---------- *)

  Lemma decompose_rec_ok : forall fuel shortest ab e, good e -> idx (eb e) < zlen (info (eb e)) ->
    (decompose_rec ugc udi umcc nominal sdecomp fuel shortest ab e = OutOfFuel
     /\ forall rank : Z -> nat, (forall ab a b, sdecomp ab = Some (a, b) -> (rank a < rank ab)%nat) -> (fuel <= rank ab)%nat)
    \/ exists r, decompose_rec ugc udi umcc nominal sdecomp fuel shortest ab e = Ok r
                 /\ fr e (fst r) /\ idx (eb (fst r)) = idx (eb e)
                 /\ 0 <= snd r /\ zlen (out (eb (fst r))) = zlen (out (eb e)) + snd r.
  Proof.
    induction fuel as [|f IH]; intros shortest ab e G I2.
    - left. split; [reflexivity|]. intros; lia.
    - cbn [decompose_rec]. destruct (sdecomp ab) as [[a b]|] eqn:Ed.
      2:{ right. exists (e, 0). cbn [fst snd]. split; [reflexivity|]. split; [apply fr_refl; exact G|]. repeat split; lia. }
      destruct (nominal b) as [bg bok].
      destruct (negb (b =? 0) && negb bok).
      { right. exists (e, 0). cbn [fst snd]. split; [reflexivity|]. split; [apply fr_refl; exact G|]. repeat split; lia. }
      destruct (nominal a) as [ag aok].
      assert (OB : forall e1 (k k' : Z), fr e e1 -> idx (eb e1) = idx (eb e) -> 0 <= k -> zlen (out (eb e1)) = zlen (out (eb e)) + k ->
                k' = k + 1 ->
                exists r, (do e2 <- output_char ugc udi umcc e1 b bg; Ok (e2, k')) = Ok r /\ fr e (fst r) /\ idx (eb (fst r)) = idx (eb e)
                          /\ 0 <= snd r /\ zlen (out (eb (fst r))) = zlen (out (eb e)) + snd r).
      { intros e1 k k' F1 X1 K0 O1 Ek.
        destruct (output_char_ok e1 b bg) as (e2 & E2 & F2 & X2 & O2); [apply F1|destruct F1 as (_ & _ & Z1 & _); lia|].
        rewrite E2. cbn [bind]. eexists. split; [reflexivity|]. cbn [fst snd]. split; [exact (fr_trans _ _ _ F1 F2)|]. repeat split; lia. }
      assert (OA : forall e0, fr e e0 -> idx (eb e0) = idx (eb e) -> zlen (out (eb e0)) = zlen (out (eb e)) ->
                exists r, (do e1 <- output_char ugc udi umcc e0 a ag;
                           if negb (b =? 0) then do e2 <- output_char ugc udi umcc e1 b bg; Ok (e2, 2) else Ok (e1, 1)) = Ok r
                          /\ fr e (fst r) /\ idx (eb (fst r)) = idx (eb e)
                          /\ 0 <= snd r /\ zlen (out (eb (fst r))) = zlen (out (eb e)) + snd r).
      { intros e0 F0 X0 O0.
        destruct (output_char_ok e0 a ag) as (e1 & E1 & F1 & X1 & O1); [apply F0|destruct F0 as (_ & _ & Z0 & _); lia|].
        rewrite E1. cbn [bind]. destruct (negb (b =? 0)).
        - apply (OB e1 1 2); [exact (fr_trans _ _ _ F0 F1)|lia|lia|lia|lia].
        - eexists. split; [reflexivity|]. cbn [fst snd]. split; [exact (fr_trans _ _ _ F0 F1)|]. repeat split; lia. }
      destruct (shortest && aok).
      { right. apply OA; [apply fr_refl; exact G|reflexivity|reflexivity]. }
      destruct (IH shortest a e G I2) as [[E N]|(r & E & F & X & R0 & RO)].
      + left. rewrite E. cbn [bind]. split; [reflexivity|]. intros rank Hr. pose proof (N rank Hr). pose proof (Hr ab a b Ed). lia.
      + right. rewrite E. cbn [bind]. destruct r as [e1 ret]. cbn [fst snd] in *.
        destruct (Z.eqb_spec ret 0) as [R|R]; cbn [negb].
        * destruct aok; [apply OA; auto; lia|]. eexists. split; [reflexivity|]. cbn [fst snd]. split; [exact F|]. repeat split; lia.
        * destruct (negb (b =? 0)); [apply (OB e1 ret (ret + 1)); auto|].
          eexists. split; [reflexivity|]. cbn [fst snd]. split; [exact F|]. repeat split; lia.
  Qed.
  Lemma next_char_fr e e1 g : fr e e1 -> idx (eb e1) = idx (eb e) -> idx (eb e) < zlen (info (eb e)) ->
    exists e', next_char e1 g = Ok e' /\ fr e e' /\ idx (eb e') = idx (eb e) + 1.
  Proof.
    intros F X I2. destruct (next_char_ok e1 g) as (e' & E & F' & X'); [apply F|destruct F as (_ & _ & Z1 & _); lia|].
    exists e'. split; [exact E|]. split; [exact (fr_trans _ _ _ F F')|lia].
  Qed.

  Lemma decompose_current_ok shortest e : good e -> idx (eb e) < zlen (info (eb e)) ->
    okt (decompose_current ugc udi umcc uspace nominal sdecomp dfuel shortest e)
        (fun e' => fr e e' /\ idx (eb e') = idx (eb e) + 1).
  Proof.
    intros G I2. destruct (good_idx e G) as [I0 I1]. unfold decompose_current. rewrite getg_ok by lia. cbn [bind].
    set (x := nth (Z.to_nat (idx (eb e))) (info (eb e)) g0).
    destruct (nominal (cp x)) as [gl ok].
    destruct (shortest && ok); [apply okt_ex, next_char_ok; auto|].
    destruct (decompose_rec_ok dfuel shortest (cp x) e G I2) as [[E N]|(r & E & F & X & R0 & RO)].
    - left. rewrite E. split; [reflexivity|]. intros (rank & R1 & R2). pose proof (N rank R1). pose proof (R2 (cp x)). lia.
    - rewrite E. cbn [bind]. destruct r as [e1 n]. cbn [fst snd] in *. apply okt_ex.
      pose proof F as (G1 & L1 & Z1 & D1 & M1).
      destruct (Z.eqb_spec n 0) as [N0|N0]; cbn [negb].
      2:{ destruct G1 as (Hl1 & Hw1 & Hh1).
        destruct (op_step lo hi OSkip (eb e1) Hl1 Hw1) as (b2 & E2 & W2 & L2); [cbn [pre]; apply Z.ltb_lt; lia|reflexivity|].
        cbn [run_op] in E2. rewrite E2. cbn [lift bind]. eexists. split; [reflexivity|].
        unfold skip_glyph in E2. injection E2 as B2. subst b2. unfold fr, good, grow. cbn [eb with_eb dir].
        cbn [level have_out info idx out with_idx]. repeat split; auto; lia. }
      destruct (negb shortest && ok); [apply next_char_fr; auto|].
      destruct (nominal 32) as [sg sok].
      match goal with |- exists e', (if ?c then _ else _) = _ /\ _ => destruct c end.
      + rewrite getg_ok by (destruct (good_idx e1 G1); lia). cbn [bind].
        set (x1 := nth (Z.to_nat (idx (eb e1))) (info (eb e1)) g0).
        destruct (set_info_fr e1 (idx (eb e1)) (set_up x1 (Z.lor (Z.shiftl (uspace (cp x)) 8) (Z.land (up x1) 255))) G1) as (F2 & X2 & _);
          [lia|lia|reflexivity|].
        destruct (next_char_fr e (with_eb e1 (set_info (eb e1) (idx (eb e1)) (set_up x1 (Z.lor (Z.shiftl (uspace (cp x)) 8) (Z.land (up x1) 255)))))
                    (if sok then sg else invisible e1)) as (e2 & E2 & F3 & X3);
          [exact (fr_trans _ _ _ F F2)|cbn [eb with_eb]; lia|exact I2|].
        rewrite E2. cbn [bind]. eexists. split; [reflexivity|]. split; [|exact X3].
        destruct F3 as (G3 & L3 & Z3 & D3 & M3).
        split; [exact G3|]. split; [exact L3|]. split; [exact Z3|]. split; [exact D3|exact M3].
      + destruct (nominal 8208) as [hg hok]. destruct ((cp x =? 8209) && hok); apply next_char_fr; auto.
  Qed.

  Lemma set_glyph_next_ok e : good e -> idx (eb e) < zlen (info (eb e)) ->
    exists e', set_glyph_next nominal e = Ok e' /\ fr e e' /\ idx (eb e') = idx (eb e) + 1.
  Proof.
    intros G I2. destruct (good_idx e G) as [I0 I1]. unfold set_glyph_next. rewrite getg_ok by lia. cbn [bind].
    apply next_char_ok; auto.
  Qed.

  (* ---------- the loops ---------- *)

  Lemma vs_skip_ok : forall fuel en e, good e -> en <= zlen (info (eb e)) -> (Z.to_nat (en - idx (eb e)) < fuel)%nat ->
    exists e', vs_skip nominal fuel en e = Ok e' /\ fr e e' /\ idx (eb e) <= idx (eb e') /\ idx (eb e') <= Z.max (idx (eb e)) en.
  Proof.
    induction fuel as [|f IH]; intros en e G En Hf; [lia|]. destruct (good_idx e G) as [I0 I1].
    cbn [vs_skip]. destruct (Z.ltb_spec (idx (eb e)) en).
    - rewrite getg_ok by lia. cbn [bind]. destruct (is_vs _).
      + destruct (set_glyph_next_ok e G) as (e1 & E1 & F1 & X1); [lia|]. rewrite E1. cbn [bind].
        pose proof F1 as (G1 & L1 & Z1 & D1 & M1).
        destruct (IH en e1 G1) as (e' & E' & F' & Xa & Xb); [lia|lia|].
        exists e'. split; [exact E'|]. split; [exact (fr_trans _ _ _ F1 F')|lia].
      + exists e. split; [reflexivity|]. split; [apply fr_refl; exact G|lia].
    - exists e. split; [reflexivity|]. split; [apply fr_refl; exact G|lia].
  Qed.

  Lemma vs_cluster_ok : forall fuel en e, good e -> en <= zlen (info (eb e)) -> (Z.to_nat (en - idx (eb e)) < fuel)%nat ->
    exists e', vs_cluster nominal variation fuel en e = Ok e' /\ fr e e' /\ idx (eb e') = Z.max (idx (eb e)) en.
  Proof.
    induction fuel as [|f IH]; intros en e G En Hf; [lia|]. destruct (good_idx e G) as [I0 I1].
    cbn [vs_cluster]. destruct (Z.ltb_spec (idx (eb e)) (en - 1)).
    - rewrite !getg_ok by lia. cbn [bind].
      set (x := nth (Z.to_nat (idx (eb e))) (info (eb e)) g0).
      set (y := nth (Z.to_nat (idx (eb e) + 1)) (info (eb e)) g0).
      destruct (is_vs (cp y)).
      + destruct (variation (cp x) (cp y)) as [vg vok].
        destruct (set_cur_gid_ok e vg G) as (b1 & E1 & F1 & X1 & O1); [lia|]. rewrite E1. cbn [bind].
        pose proof F1 as (G1 & L1 & Z1 & D1 & M1). cbn [eb with_eb dir] in L1, Z1, D1.
        assert (S2 : exists e2, (if vok then lift e (replace_glyphs b1 2 (Some [cp x]) None)
                                 else do e1 <- set_glyph_next nominal (with_eb e b1); set_glyph_next nominal e1) = Ok e2
                                /\ fr e e2 /\ idx (eb e2) = idx (eb e) + 2).
        { destruct vok.
          - destruct G1 as (Hl1 & Hw1 & Hh1). cbn [eb with_eb] in Hl1, Hw1, Hh1.
            destruct (replace_glyphs_frame lo hi b1 2 (cp x) Hl1 Hw1 Hh1) as (b2 & E2 & W2 & L2 & X2 & Hh2 & Z2 & O2); try lia.
            rewrite E2. cbn [lift bind]. eexists. split; [reflexivity|]. unfold fr, good, grow. cbn [eb with_eb dir].
            rewrite L2. rewrite O1 in O2. repeat split; auto; try lia.
          - destruct (set_glyph_next_ok (with_eb e b1) G1) as (e1 & E2 & F2 & X2); [cbn [eb with_eb]; lia|].
            rewrite E2. cbn [bind]. pose proof F2 as (G2 & L2 & Z2 & D2 & M2). cbn [eb with_eb dir] in *.
            destruct (set_glyph_next_ok e1 G2) as (e2 & E3 & F3 & X3); [lia|].
            exists e2. split; [exact E3|]. split; [exact (fr_trans _ _ _ F1 (fr_trans _ _ _ F2 F3))|lia]. }
        destruct S2 as (e2 & E2 & F2 & X2). rewrite E2. cbn [bind].
        pose proof F2 as (G2 & L2 & Z2 & D2 & M2).
        destruct (vs_skip_ok (S f) en e2 G2) as (e3 & E3 & F3 & Xa & Xb); [lia|lia|]. rewrite E3. cbn [bind].
        pose proof F3 as (G3 & L3 & Z3 & D3 & M3).
        destruct (IH en e3 G3) as (e' & E' & F' & X'); [lia|lia|].
        exists e'. split; [exact E'|]. split; [exact (fr_trans _ _ _ F2 (fr_trans _ _ _ F3 F'))|lia].
      + destruct (set_glyph_next_ok e G) as (e1 & E1 & F1 & X1); [lia|]. rewrite E1. cbn [bind].
        pose proof F1 as (G1 & L1 & Z1 & D1 & M1).
        destruct (IH en e1 G1) as (e' & E' & F' & X'); [lia|lia|].
        exists e'. split; [exact E'|]. split; [exact (fr_trans _ _ _ F1 F')|lia].
    - destruct (Z.ltb_spec (idx (eb e)) en).
      + destruct (set_glyph_next_ok e G) as (e1 & E1 & F1 & X1); [lia|]. exists e1. split; [exact E1|]. split; [exact F1|lia].
      + exists e. split; [reflexivity|]. split; [apply fr_refl; exact G|lia].
  Qed.

  Lemma dcc_loop_ok : forall fuel short en e, good e -> en <= zlen (info (eb e)) -> (Z.to_nat (en - idx (eb e)) < fuel)%nat ->
    okt (dcc_loop ugc udi umcc uspace nominal sdecomp dfuel fuel short en e)
        (fun e' => fr e e' /\ idx (eb e') = Z.max (idx (eb e)) en).
  Proof.
    induction fuel as [|f IH]; intros short en e G En Hf; [lia|]. destruct (good_idx e G) as [I0 I1].
    cbn [dcc_loop]. destruct (Z.ltb_spec (idx (eb e)) en).
    - apply (okt_bind _ _ _ _ (decompose_current_ok short e G ltac:(lia))). intros e1 (F1 & X1).
      pose proof F1 as (G1 & L1 & Z1 & D1 & M1).
      apply (okt_weaken _ _ _ (IH short en e1 G1 ltac:(lia) ltac:(lia))). intros e' (F' & X').
      split; [exact (fr_trans _ _ _ F1 F')|lia].
    - apply okt_ok. split; [apply fr_refl; exact G|lia].
  Qed.

  Lemma decompose_multi_ok en short e : good e -> en <= zlen (info (eb e)) ->
    okt (decompose_multi ugc udi umcc uspace nominal variation sdecomp dfuel en short e)
        (fun e' => fr e e' /\ idx (eb e') = Z.max (idx (eb e)) en).
  Proof.
    intros G En. unfold decompose_multi. destruct (existsb _ _).
    - apply okt_ex. apply vs_cluster_ok; auto; lia.
    - apply dcc_loop_ok; auto; lia.
  Qed.
  (* ---------- the round ---------- *)

  Lemma sc_scan_spec : forall l, cls (fst (sc_scan nominal l)) = cls l /\ zlen (fst (sc_scan nominal l)) = zlen l
    /\ 0 <= snd (sc_scan nominal l) /\ snd (sc_scan nominal l) <= zlen l.
  Proof.
    induction l as [|g r IH]; cbn [sc_scan]; [cbn [fst snd]; rewrite zlen_nil; repeat split; lia|].
    destruct (nominal (cp g)) as [gl ok]. destruct ok.
    - destruct (sc_scan nominal r) as [t k]. cbn [fst snd] in *. destruct IH as (C & Z & K0 & K1).
      rewrite !zlen_cons. cbn [cls map cl set_gid]. fold (cls t). fold (cls r). rewrite C. repeat split; lia.
    - cbn [fst snd]. rewrite !zlen_cons. pose proof (zlen_nonneg r). cbn [cls map cl set_gid]. repeat split; lia.
  Qed.

  Lemma round1_okt0 : forall fuel count might always simple e,
    good e -> count = zlen (info (eb e)) -> idx (eb e) < count -> (Z.to_nat (count - idx (eb e)) <= fuel)%nat ->
    okt (round1 ugc udi umcc uspace nominal variation sdecomp dfuel fuel count might always simple e)
        (fun r => fr e (fst r) /\ idx (eb (fst r)) = zlen (info (eb (fst r)))).
  Proof.
    induction fuel as [|f IH]; intros count might always simple e G Hc I2 Hf; [lia|].
    destruct (good_idx e G) as [I0 I1]. cbn [round1].
    set (b := eb e) in *. set (i0 := idx b) in *.
    pose proof (run_while_bound (fun g => negb (is_umark g)) (slice (i0 + 1) count (info b))) as RB.
    rewrite zlen_slice in RB by lia.
    set (en0 := i0 + 1 + run_while (fun g => negb (is_umark g)) (slice (i0 + 1) count (info b))) in *.
    set (en := if en0 <? count then en0 - 1 else en0).
    assert (Hen : i0 <= en /\ en <= count) by (unfold en; destruct (Z.ltb_spec en0 count); lia).
    match goal with |- okt (bind ?st _) _ =>
      assert (S1 : exists e1, st = Ok e1 /\ fr e e1 /\ i0 <= idx (eb e1) /\ idx (eb e1) <= en) end.
    { destruct might.
      2:{ exists e. split; [reflexivity|]. split; [apply fr_refl; exact G|fold b; fold i0; lia]. }
      pose proof (sc_scan_spec (slice i0 en (info b))) as (C & ZL & K0 & K1).
      destruct (sc_scan nominal (slice i0 en (info b))) as [l k]. cbn [fst snd] in *. rewrite zlen_slice in * by lia.
      set (b' := with_info b (zfirstn i0 (info b) ++ l ++ zskipn en (info b))).
      assert (Ci : cls (info b') = cls (info b)).
      { unfold b'. cbn [info with_info]. rewrite !cls_app, C. rewrite <- !cls_app.
        destruct (split3 (info b) i0 en) as (l1 & l2 & l3 & E & _ & _ & F1 & F2 & F3 & _); try lia.
        rewrite F1, F2, F3, <- E. reflexivity. }
      destruct G as (Hl & Hw & Hh). fold b in Hl, Hw, Hh.
      assert (S : same_cl b b') by (unfold same_cl, b'; cbn [info out idx have_out level with_info]; auto).
      pose proof (WF_same_cl lo hi b b' Hl Hw S) as W'.
      pose proof (cls_eq_zlen _ _ Ci) as Z'.
      assert (Hl' : (level b' =? 2) = false) by exact Hl.
      destruct (op_step lo hi (ONextN k) b' Hl' W') as (b2 & E2 & W2 & L2); [|reflexivity|].
      { cbn [pre]. change (idx b') with i0. rewrite Z'. destruct (Z.leb_spec 0 k); [|lia].
        destruct (Z.leb_spec (i0 + k) (zlen (info b))); [|lia]. reflexivity. }
      cbn [run_op] in E2. rewrite E2. cbn [lift bind]. eexists. split; [reflexivity|].
      rewrite next_glyphs_frame in E2; [|exact Hh|exact I0|lia|change (idx b') with i0; lia].
      injection E2 as B2. subst b2. unfold fr, good, grow. cbn [eb with_eb dir level have_out info idx out with_idx with_out] in *.
      fold b.
      assert (ZS : zlen (out b ++ slice (idx b) (idx b + k) (zfirstn i0 (info b) ++ l ++ zskipn en (info b))) = zlen (out b) + k).
      { change (zfirstn i0 (info b) ++ l ++ zskipn en (info b)) with (info b').
        rewrite zlen_app, zlen_slice by (fold i0; lia). lia. }
      rewrite ZS. change (idx b') with i0. change (have_out b') with (have_out b). change (level b') with (level b).
      fold i0. repeat split; auto; lia. }
    destruct S1 as (e1 & E1 & F1 & Xa & Xb). rewrite E1. cbn [bind].
    pose proof F1 as (G1 & L1 & Z1 & D1 & M1). fold b in L1, Z1.
    apply (okt_bind _ _ _ _ (dcc_loop_ok (Z.to_nat (en - idx (eb e1)) + 1) might en e1 G1 ltac:(lia) ltac:(lia))).
    intros e2 (F2 & X2). pose proof F2 as (G2 & L2 & Z2 & D2 & M2).
    pose proof (fr_trans _ _ _ F1 F2) as F02.
    destruct (Z.eqb_spec (idx (eb e2)) count) as [Eq|Ne].
    { apply okt_ok. cbn [fst]. split; [exact F02|lia]. }
    destruct (good_idx e2 G2) as [J0 J1].
    pose proof (run_while_bound is_umark (slice (idx (eb e2) + 1) count (info (eb e2)))) as RB2.
    rewrite zlen_slice in RB2 by lia.
    set (en2 := idx (eb e2) + 1 + run_while is_umark (slice (idx (eb e2) + 1) count (info (eb e2)))) in *.
    apply (okt_bind _ _ _ _ (decompose_multi_ok en2 always e2 G2 ltac:(lia))).
    intros e3 (F3 & X3). pose proof F3 as (G3 & L3 & Z3 & D3 & M3).
    pose proof (fr_trans _ _ _ F02 F3) as F03.
    destruct (Z.ltb_spec (idx (eb e3)) count).
    - apply (okt_weaken _ _ _ (IH count might always false e3 G3 ltac:(lia) ltac:(lia) ltac:(lia))).
      intros r (Fr & Xr). split; [exact (fr_trans _ _ _ F03 Fr)|exact Xr].
    - apply okt_ok. cbn [fst]. split; [exact F03|lia].
  Qed.

  (* the cursor has advanced, so the output is not empty *)
  Lemma round1_okt : forall fuel count might always simple e,
    good e -> count = zlen (info (eb e)) -> idx (eb e) < count -> (Z.to_nat (count - idx (eb e)) <= fuel)%nat ->
    okt (round1 ugc udi umcc uspace nominal variation sdecomp dfuel fuel count might always simple e)
        (fun r => fr e (fst r) /\ idx (eb (fst r)) = zlen (info (eb (fst r))) /\ 0 < zlen (out (eb (fst r)))).
  Proof.
    intros fuel count might always simple e G Hc I2 Hf.
    apply (okt_weaken _ _ _ (round1_okt0 fuel count might always simple e G Hc I2 Hf)).
    intros r (F & X). split; [exact F|]. split; [exact X|].
    destruct F as (_ & _ & Z & _ & _ & _ & M). pose proof (zlen_nonneg (out (eb e))). lia.
  Qed.

  (* ---------- the statements ---------- *)

  Lemma round1_ok : forall fuel count might always simple e,
    (level (eb e) =? 2) = false -> WF lo hi (eb e) = true -> have_out (eb e) = true ->
    count = zlen (info (eb e)) -> 0 <= idx (eb e) -> idx (eb e) < count -> (Z.to_nat (count - idx (eb e)) <= fuel)%nat ->
    okf (round1 ugc udi umcc uspace nominal variation sdecomp dfuel fuel count might always simple e)
        (fun r => WF lo hi (eb (fst r)) = true /\ level (eb (fst r)) = level (eb e) /\ have_out (eb (fst r)) = true
                  /\ zlen (info (eb (fst r))) = zlen (info (eb e)) /\ idx (eb (fst r)) = zlen (info (eb (fst r)))
                  /\ dir (fst r) = dir e /\ 0 < zlen (out (eb (fst r)))).
  Proof.
    intros fuel count might always simple e Hl Hw Hh Hc I0 I2 Hf.
    apply okt_okf. apply (okt_weaken _ _ _ (round1_okt fuel count might always simple e (conj Hl (conj Hw Hh)) Hc I2 Hf)).
    intros r (((Hl' & Hw' & Hh') & L & Z & D & M) & X & O). auto 10.
  Qed.

  Lemma round1_total : forall fuel count might always simple e, decomp_wf ->
    (level (eb e) =? 2) = false -> WF lo hi (eb e) = true -> have_out (eb e) = true ->
    count = zlen (info (eb e)) -> 0 <= idx (eb e) -> idx (eb e) < count -> (Z.to_nat (count - idx (eb e)) <= fuel)%nat ->
    exists r, round1 ugc udi umcc uspace nominal variation sdecomp dfuel fuel count might always simple e = Ok r
      /\ WF lo hi (eb (fst r)) = true /\ level (eb (fst r)) = level (eb e) /\ have_out (eb (fst r)) = true
      /\ zlen (info (eb (fst r))) = zlen (info (eb e)) /\ idx (eb (fst r)) = zlen (info (eb (fst r)))
      /\ dir (fst r) = dir e /\ 0 < zlen (out (eb (fst r))).
  Proof.
    intros fuel count might always simple e Dw Hl Hw Hh Hc I0 I2 Hf.
    destruct (okt_total _ _ Dw (round1_okt fuel count might always simple e (conj Hl (conj Hw Hh)) Hc I2 Hf))
      as (r & E & ((Hl' & Hw' & Hh') & L & Z & D & M) & X & O).
    exists r. auto 10.
  Qed.
  (* the call of normalize: fuel = count + 1 from the start of a non-empty buffer *)
  Lemma round1_from_start might always simple e :
    (level (eb e) =? 2) = false -> WF lo hi (eb e) = true -> have_out (eb e) = true -> idx (eb e) = 0 -> 0 < zlen (info (eb e)) ->
    okf (round1 ugc udi umcc uspace nominal variation sdecomp dfuel (Z.to_nat (zlen (info (eb e))) + 1) (zlen (info (eb e)))
           might always simple e)
        (fun r => WF lo hi (eb (fst r)) = true /\ level (eb (fst r)) = level (eb e) /\ have_out (eb (fst r)) = true
                  /\ zlen (info (eb (fst r))) = zlen (info (eb e)) /\ idx (eb (fst r)) = zlen (info (eb (fst r)))
                  /\ dir (fst r) = dir e /\ 0 < zlen (out (eb (fst r)))).
  Proof. intros Hl Hw Hh X N. apply round1_ok; auto; lia. Qed.
End Decompose.
