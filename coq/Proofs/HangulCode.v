(* The hand-written models of decomposeHangul / composeHangul (Model/Unicode.v, about which hangul_roundtrip and
   compose_decompose_inverse are proved) agree, on every rune, with the terms translated from the Go source on
   every run (Gen/HangulCode.v): the bounds of the model are the bounds of the code. *)
From TV Require Import Lib.GoNum Lib.Res Model.Unicode Model.Lang Spec.Unicode Proofs.Unicode Proofs.Decomp.
From TV Require Import Gen.HangulCode Model.UnicodeShape.


From Coq Require Import Lia ZifyBool.
(* sint32 as an opaque value with its defining equation: linear arithmetic then decides everything *)
Lemma sint32_spec x : exists k, sint32 x = x + 4294967296 * k /\ -2147483648 <= sint32 x < 2147483648.
Proof.
  unfold sint32, wrap32. cbv zeta.
  pose proof (Z.mod_pos_bound x 4294967296 ltac:(lia)) as B.
  pose proof (Z.div_mod x 4294967296 ltac:(lia)) as D.
  destruct (x mod 4294967296 <? 2147483648) eqn:E.
  - exists (- (x / 4294967296)). apply Z.ltb_lt in E. lia.
  - exists (- (x / 4294967296) - 1). apply Z.ltb_ge in E. lia.
Qed.

Ltac Zify.zify_post_hook ::= Z.quot_rem_to_equations; Z.div_mod_to_equations.

Ltac no_inner t := lazymatch t with context[sint32 _] => fail | _ => idtac end.
Ltac abstract_one t :=
  let k := fresh "k" in let v := fresh "v" in let E := fresh "E" in let R := fresh "R" in
  destruct (sint32_spec t) as (k & E & R); set (v := sint32 t) in *; clearbody v.
Ltac abstract_sint32 :=
  repeat match goal with
  | |- context[sint32 ?t] => no_inner t; abstract_one t
  | H : context[sint32 ?t] |- _ => no_inner t; abstract_one t
  end.
Ltac split_ifs :=
  repeat match goal with
  | |- context[if ?c then _ else _] => let H := fresh "C" in destruct c eqn:H
  end.
Ltac leaf := first [ reflexivity | exfalso; lia | repeat f_equal; lia ].
Ltac code_eq := cbv zeta; abstract_sint32; split_ifs; leaf.

(* Both equalities are decided by one shape-independent tactic (unfold, abstract every int32 wrap by its defining
   equation, split every conditional of both sides, linear arithmetic with quotient/remainder equations), so that a
   behaviour-preserving rewrite of the Go functions (renamed locals, named sub-conditions, reordered conjuncts)
   does not break them while a changed bound or operator does. *)
Lemma decompose_hangul_src_eq ab : is_rune ab -> decompose_hangul_src ab = decompose_hangul ab.
Proof.
  intro Hr. unfold is_rune in Hr. unfold decompose_hangul_src, decompose_hangul.
  unfold HangulSBase, HangulSCount, HangulTCount, HangulNCount, HangulLBase, HangulVBase, HangulTBase.
  code_eq.
Qed.

Lemma compose_hangul_src_eq a b : is_rune a -> is_rune b -> compose_hangul_src a b = compose_hangul a b.
Proof.
  intros Ha Hb. unfold is_rune in *. unfold compose_hangul_src, compose_hangul.
  unfold HangulSBase, HangulSCount, HangulTCount, HangulNCount, HangulLBase, HangulLCount, HangulVBase, HangulVCount, HangulTBase.
  code_eq.
Qed.

Lemma decompose_code_eq ab : is_rune ab -> decompose_code ab = decompose ab.
Proof. intro H. unfold decompose_code, decompose. rewrite (decompose_hangul_src_eq ab H). reflexivity. Qed.
Lemma compose_code_eq a b : is_rune a -> is_rune b -> compose_code a b = compose a b.
Proof. intros Ha Hb. unfold compose_code, compose. rewrite (compose_hangul_src_eq a b Ha Hb). reflexivity. Qed.

(* the round trips, stated on the translated functions *)
Lemma hangul_src_compose_decompose a b c : is_rune a -> is_rune b -> is_rune c ->
  compose_hangul_src a b = (c, true) -> decompose_hangul_src c = (a, b, true).
Proof.
  intros Ha Hb Hc H. rewrite (compose_hangul_src_eq a b Ha Hb) in H. rewrite (decompose_hangul_src_eq c Hc).
  exact (hangul_compose_decompose a b c H).
Qed.
Lemma hangul_src_decompose_compose c a b : is_rune c -> is_rune a -> is_rune b ->
  decompose_hangul_src c = (a, b, true) -> compose_hangul_src a b = (c, true).
Proof.
  intros Hc Ha Hb H. rewrite (decompose_hangul_src_eq c Hc) in H. rewrite (compose_hangul_src_eq a b Ha Hb).
  exact (hangul_decompose_compose c a b Hc H).
Qed.
Lemma compose_code_then_decompose_code a b c : is_rune a -> is_rune b -> is_rune c ->
  compose_code a b = (c, true) -> decompose_code c = (a, b, true).
Proof.
  intros Ha Hb Hc H. rewrite (compose_code_eq a b Ha Hb) in H. rewrite (decompose_code_eq c Hc).
  exact (compose_then_decompose a b c H).
Qed.
Lemma decompose_code_then_compose_code c a b : is_rune c -> is_rune a -> is_rune b ->
  decompose_code c = (a, b, true) -> excluded c = false -> compose_code a b = (c, true).
Proof.
  intros Hc Ha Hb H He. rewrite (decompose_code_eq c Hc) in H. rewrite (compose_code_eq a b Ha Hb).
  exact (decompose_then_compose c a b Hc H He).
Qed.
