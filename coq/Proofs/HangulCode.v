(* The hand-written models of decomposeHangul / composeHangul (Model/Unicode.v, about which hangul_roundtrip and
   compose_decompose_inverse are proved) agree, on every rune, with the terms translated from the Go source on
   every run (Gen/HangulCode.v): the bounds of the model are the bounds of the code. *)
From TV Require Import Lib.GoNum Lib.Res Model.Unicode Model.Lang Spec.Unicode Proofs.Unicode Proofs.Decomp.
From TV Require Import Gen.HangulCode Model.UnicodeShape.

Ltac Zify.zify_post_hook ::= Z.div_mod_to_equations.

Lemma decompose_hangul_src_eq ab : is_rune ab -> decompose_hangul_src ab = decompose_hangul ab.
Proof.
  intro Hr. unfold decompose_hangul_src, decompose_hangul.
  unfold HangulSBase, HangulSCount, HangulTCount, HangulNCount, HangulLBase, HangulVBase, HangulTBase.
  set (si := sint32 (ab - 44032)). cbv zeta.
  destruct ((si <? 0) || (si >=? 11172)) eqn:E; [reflexivity|].
  apply orb_false_iff in E as [E1 E2]. apply Z.ltb_ge in E1. rewrite Z.geb_leb in E2. apply Z.leb_gt in E2.
  rewrite !Z.rem_mod_nonneg, !Z.quot_div_nonneg by lia.
  destruct (negb (si mod 28 =? 0)).
  - rewrite (sint32_id (si / 28 * 28)) by lia. rewrite !sint32_id by lia. reflexivity.
  - rewrite !sint32_id by lia. reflexivity.
Qed.

Lemma compose_hangul_src_eq a b : is_rune a -> is_rune b -> compose_hangul_src a b = compose_hangul a b.
Proof.
  intros Ha Hb. unfold is_rune in *. unfold compose_hangul_src, compose_hangul.
  unfold HangulSBase, HangulSCount, HangulTCount, HangulNCount, HangulLBase, HangulLCount, HangulVBase, HangulVCount, HangulTBase.
  change (44032 + 11172) with 55204. change (4519 + 28) with 4547. change (4352 + 19) with 4371. change (4449 + 21) with 4470.
  rewrite !Z.geb_leb, !Z.gtb_ltb.
  destruct ((44032 <=? a) && (a <? 55204) && (4519 <? b) && (b <? 4547)) eqn:G1.
  - apply andb_prop in G1 as [G1 B2]. apply andb_prop in G1 as [G1 B1]. apply andb_prop in G1 as [A1 A2].
    apply Z.leb_le in A1. apply Z.ltb_lt in A2, B1, B2.
    rewrite (sint32_id (a - 44032)) by lia. cbn [andb].
    destruct (Z.rem (a - 44032) 28 =? 0); [|cbn [andb]].
    + rewrite (sint32_id (b - 4519)) by lia. rewrite sint32_id by lia. reflexivity.
    + replace (4352 <=? a) with true by (symmetry; apply Z.leb_le; lia).
      replace (a <? 4371) with false by (symmetry; apply Z.ltb_ge; lia). reflexivity.
  - cbn [andb].
    destruct ((4352 <=? a) && (a <? 4371) && (4449 <=? b) && (b <? 4470)) eqn:G2; [|reflexivity].
    apply andb_prop in G2 as [G2 B2]. apply andb_prop in G2 as [G2 B1]. apply andb_prop in G2 as [A1 A2].
    apply Z.leb_le in A1, B1. apply Z.ltb_lt in A2, B2. cbv zeta.
    rewrite (sint32_id (a - 4352)) by lia. rewrite (sint32_id (b - 4449)) by lia.
    rewrite (sint32_id ((a - 4352) * 588)) by lia. rewrite (sint32_id ((b - 4449) * 28)) by lia.
    rewrite (sint32_id (44032 + (a - 4352) * 588)) by lia. rewrite sint32_id by lia. reflexivity.
Qed.

Lemma decompose_code_eq ab : is_rune ab -> decompose_code ab = decompose ab.
Proof. intro H. unfold decompose_code, decompose. rewrite (decompose_hangul_src_eq ab H). reflexivity. Qed.
Lemma compose_code_eq a b : is_rune a -> is_rune b -> compose_code a b = compose a b.
Proof. intros Ha Hb. unfold compose_code, compose. rewrite (compose_hangul_src_eq a b Ha Hb). reflexivity. Qed.

(* the round trips, stated on the translated functions *)
Lemma hangul_src_compose_decompose a b c : is_rune a -> is_rune b -> is_rune c ->
  compose_hangul_src a b = (c, true) -> decompose_hangul_src c = (a, b, true).
Proof.
  intros Ha Hb Hc H. rewrite (compose_hangul_src_eq a b Ha Hb) in H. rewrite (decompose_hangul_src_eq c Hc).
  exact (hangul_compose_decompose a b c H).
Qed.
Lemma hangul_src_decompose_compose c a b : is_rune c -> is_rune a -> is_rune b ->
  decompose_hangul_src c = (a, b, true) -> compose_hangul_src a b = (c, true).
Proof.
  intros Hc Ha Hb H. rewrite (decompose_hangul_src_eq c Hc) in H. rewrite (compose_hangul_src_eq a b Ha Hb).
  exact (hangul_decompose_compose c a b Hc H).
Qed.
Lemma compose_code_then_decompose_code a b c : is_rune a -> is_rune b -> is_rune c ->
  compose_code a b = (c, true) -> decompose_code c = (a, b, true).
Proof.
  intros Ha Hb Hc H. rewrite (compose_code_eq a b Ha Hb) in H. rewrite (decompose_code_eq c Hc).
  exact (compose_then_decompose a b c H).
Qed.
Lemma decompose_code_then_compose_code c a b : is_rune c -> is_rune a -> is_rune b ->
  decompose_code c = (a, b, true) -> excluded c = false -> compose_code a b = (c, true).
Proof.
  intros Hc Ha Hb H He. rewrite (decompose_code_eq c Hc) in H. rewrite (compose_code_eq a b Ha Hb).
  exact (decompose_then_compose c a b Hc H He).
Qed.
