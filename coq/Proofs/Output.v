(* Lemmas for C12: geometry identities of shaping.Output. *)
From TV Require Import Lib.GoNum Lib.Res Model.Output Spec.Geometry.

Ltac zb := repeat match goal with
  | |- context [?a =? ?b] => let E := fresh "E" in destruct (Z.eqb_spec a b) as [E|E]
  | |- context [?a <? ?b] => let E := fresh "E" in destruct (Z.ltb_spec a b) as [E|E]
  | |- context [?a <=? ?b] => let E := fresh "E" in destruct (Z.leb_spec a b) as [E|E]
  end.

(* ---- 1. Advance = sum -------------------------------------------------------------------- *)
Lemma fold_sum_gen v gs : forall a, fold_left (fun a g => a + axis_adv v g) gs a = a + axis_sum v gs.
Proof.
  induction gs as [|g gs IH]; intros a; cbn [fold_left axis_sum fold_right]; [lia|]. rewrite IH.
  unfold axis_sum. lia.
Qed.
Lemma axis_sum_cons v g gs : axis_sum v (g :: gs) = axis_adv v g + axis_sum v gs.
Proof. reflexivity. Qed.
Lemma sum_adv_axis_sum v gs : sum_adv v gs = axis_sum v gs.
Proof. unfold sum_adv. rewrite fold_sum_gen. lia. Qed.

Lemma recompute_advance_ok o : advance_ok (recompute_advance o) = true.
Proof. unfold advance_ok, recompute_advance. cbn [o_adv o_dir o_glyphs]. rewrite sum_adv_axis_sum. apply Z.eqb_refl. Qed.

(* RecalculateAll: the three accumulators are independent folds *)
Definition asc_step (v : bool) (a : Z) (g : glyph) : Z :=
  let h := if v then g_xoff g + g_xbearing g + g_width g else g_ybearing g + g_yoff g in if a <? h then h else a.
Definition desc_step (v : bool) (d : Z) (g : glyph) : Z :=
  let p := if v then g_xoff g + g_xbearing g else g_ybearing g + g_yoff g + g_height g in if p <? d then p else d.

Lemma recalc_step_eq v adv a d g : recalc_step v (adv, a, d) g = (adv + axis_adv v g, asc_step v a g, desc_step v d g).
Proof. destruct v; reflexivity. Qed.
Lemma recalc_fold v gs : forall adv a d,
  fold_left (recalc_step v) gs (adv, a, d) = (adv + axis_sum v gs, fold_left (asc_step v) gs a, fold_left (desc_step v) gs d).
Proof.
  induction gs as [|g gs IH]; intros adv a d; [cbn; do 2 f_equal; lia|].
  rewrite axis_sum_cons. cbn [fold_left]. rewrite recalc_step_eq, IH. do 2 f_equal. lia.
Qed.

Lemma recalculate_all_eq o :
  recalculate_all o = mkOut (axis_sum (is_vertical (o_dir o)) (o_glyphs o)) (o_glyphs o)
                            (mkBounds (fold_left (asc_step (is_vertical (o_dir o))) (o_glyphs o) 0)
                                      (fold_left (desc_step (is_vertical (o_dir o))) (o_glyphs o) 0) 0) (o_dir o).
Proof. unfold recalculate_all. rewrite recalc_fold. reflexivity. Qed.

Lemma recalculate_all_advance_ok o : advance_ok (recalculate_all o) = true.
Proof. rewrite recalculate_all_eq. unfold advance_ok. cbn [o_adv o_dir o_glyphs]. apply Z.eqb_refl. Qed.

(* ---- 2. GlyphBounds enclose ---------------------------------------------------------------- *)
Lemma asc_fold_mono v gs : forall a, a <= fold_left (asc_step v) gs a.
Proof.
  induction gs as [|g gs IH]; intros a; cbn [fold_left]; [lia|].
  eapply Z.le_trans; [|apply IH]. unfold asc_step. cbv zeta. zb; lia.
Qed.
Lemma desc_fold_mono v gs : forall d, fold_left (desc_step v) gs d <= d.
Proof.
  induction gs as [|g gs IH]; intros d; cbn [fold_left]; [lia|].
  eapply Z.le_trans; [apply IH|]. unfold desc_step. cbv zeta. zb; lia.
Qed.
Lemma asc_fold_bound v gs : forall a g, In g gs -> extents_oriented g = true -> cross_hi v g <= fold_left (asc_step v) gs a.
Proof.
  induction gs as [|x gs IH]; intros a g Hin Ho; [destruct Hin|]. cbn [fold_left]. destruct Hin as [->|Hin].
  - eapply Z.le_trans; [|apply asc_fold_mono]. unfold extents_oriented in Ho. apply andb_prop in Ho as [H1 H2].
    apply Z.leb_le in H1, H2. unfold asc_step, cross_hi, ink_x1, ink_y1, ink_x0, ink_y0. cbv zeta. destruct v; zb; lia.
  - apply IH; assumption.
Qed.
Lemma desc_fold_bound v gs : forall d g, In g gs -> extents_oriented g = true -> fold_left (desc_step v) gs d <= cross_lo v g.
Proof.
  induction gs as [|x gs IH]; intros d g Hin Ho; [destruct Hin|]. cbn [fold_left]. destruct Hin as [->|Hin].
  - eapply Z.le_trans; [apply desc_fold_mono|]. unfold extents_oriented in Ho. apply andb_prop in Ho as [H1 H2].
    apply Z.leb_le in H1, H2. unfold desc_step, cross_lo, ink_x1, ink_y1, ink_x0, ink_y0. cbv zeta. destruct v; zb; lia.
  - apply IH; assumption.
Qed.

Lemma bounds_enclose_lemma o : forallb extents_oriented (o_glyphs o) = true -> bounds_enclose (recalculate_all o) = true.
Proof.
  intros H. rewrite recalculate_all_eq. unfold bounds_enclose. cbn [o_gbounds o_glyphs o_dir b_ascent b_descent b_gap].
  set (v := is_vertical (o_dir o)).
  rewrite !andb_true_iff. repeat split.
  - apply Z.leb_le. apply desc_fold_mono.
  - apply Z.leb_le. apply asc_fold_mono.
  - apply forallb_forall. intros g Hg. rewrite forallb_forall in H. apply andb_true_iff. split; apply Z.leb_le.
    + apply desc_fold_bound; [exact Hg | apply H; exact Hg].
    + apply asc_fold_bound; [exact Hg | apply H; exact Hg].
Qed.

(* tightness: the bounds are attained (by the baseline or by a glyph) *)
Lemma asc_fold_attained v gs : forall a, fold_left (asc_step v) gs a = a \/
  exists g, In g gs /\ fold_left (asc_step v) gs a = (if v then g_xoff g + g_xbearing g + g_width g else g_ybearing g + g_yoff g).
Proof.
  induction gs as [|x gs IH]; intros a; cbn [fold_left]; [left; reflexivity|].
  destruct (IH (asc_step v a x)) as [E|(g & Hg & E)].
  - rewrite E. unfold asc_step. cbv zeta. zb; [right; exists x; split; [left; reflexivity|reflexivity] | left; reflexivity].
  - right. exists g. split; [right; exact Hg|exact E].
Qed.
Lemma desc_fold_attained v gs : forall d, fold_left (desc_step v) gs d = d \/
  exists g, In g gs /\ fold_left (desc_step v) gs d = (if v then g_xoff g + g_xbearing g else g_ybearing g + g_yoff g + g_height g).
Proof.
  induction gs as [|x gs IH]; intros d; cbn [fold_left]; [left; reflexivity|].
  destruct (IH (desc_step v d x)) as [E|(g & Hg & E)].
  - rewrite E. unfold desc_step. cbv zeta. zb; [right; exists x; split; [left; reflexivity|reflexivity] | left; reflexivity].
  - right. exists g. split; [right; exact Hg|exact E].
Qed.

(* ---- 4. sideways --------------------------------------------------------------------------- *)
Lemma is_vertical_sideways d : is_vertical (set_sideways_true d) = true.
Proof. unfold is_vertical, set_sideways_true. rewrite Z.lor_spec. cbn. apply orb_true_r. Qed.

Lemma sideways_glyph_rot g : g_yadv g = 0 -> is_rot90 g (sideways_glyph g) = true.
Proof.
  intros H. unfold is_rot90, sideways_glyph, ink_x1, ink_y1, ink_x0, ink_y0.
  cbn [g_width g_height g_xbearing g_ybearing g_xadv g_yadv g_xoff g_yoff g_cluster g_runes g_glyphs].
  rewrite H. rewrite !andb_true_iff. repeat split; apply Z.eqb_eq; lia.
Qed.

Lemma sideways_sum gs : axis_sum true (map sideways_glyph gs) = - axis_sum false gs.
Proof. induction gs as [|g gs IH]; [reflexivity|]. cbn [map]. rewrite !axis_sum_cons, IH. cbn. lia. Qed.
Lemma sideways_asc gs : forall a, fold_left (asc_step true) (map sideways_glyph gs) a = fold_left (asc_step false) gs a.
Proof.
  induction gs as [|g gs IH]; intros a; [reflexivity|]. cbn [map fold_left]. rewrite IH. f_equal.
  unfold asc_step, sideways_glyph. cbn [g_width g_xbearing g_xoff]. cbv zeta. zb; lia.
Qed.
Lemma sideways_desc gs : forall d, fold_left (desc_step true) (map sideways_glyph gs) d = fold_left (desc_step false) gs d.
Proof.
  induction gs as [|g gs IH]; intros d; [reflexivity|]. cbn [map fold_left]. rewrite IH. f_equal.
  unfold desc_step, sideways_glyph. cbn [g_width g_xbearing g_xoff]. cbv zeta. zb; lia.
Qed.

Lemma all2_rot gs : forallb (fun g => g_yadv g =? 0) gs = true -> all2 is_rot90 gs (map sideways_glyph gs) = true.
Proof.
  induction gs as [|g gs IH]; intros H; [reflexivity|]. cbn [forallb] in H. apply andb_prop in H as [H1 H2].
  cbn [map all2]. rewrite sideways_glyph_rot by (apply Z.eqb_eq; exact H1). apply IH. exact H2.
Qed.

Lemma sideways_lemma h : is_vertical (o_dir h) = false -> cross_zero h = true ->
  sideways_ok (recalculate_all h) (recalculate_all (sideways h)) = true.
Proof.
  intros Hv Hc. rewrite !recalculate_all_eq. unfold sideways. cbn [o_dir o_glyphs].
  rewrite is_vertical_sideways, Hv. unfold sideways_ok. cbn [o_glyphs o_adv o_gbounds o_dir].
  rewrite sideways_sum, sideways_asc, sideways_desc.
  unfold cross_zero in Hc. rewrite Hv in Hc. cbn [cross_adv] in Hc.
  rewrite all2_rot by exact Hc. unfold bounds_eqb. cbn [b_ascent b_descent b_gap].
  rewrite !Z.eqb_refl. reflexivity.
Qed.

(* ---- 5a. word spacing ---------------------------------------------------------------------- *)
Lemma is_sep_eq r : is_word_separator r = word_separator r.
Proof.
  unfold is_word_separator, word_separator. cbn [existsb]. rewrite orb_false_r. rewrite <- !orb_assoc. reflexivity.
Qed.

Lemma same_shape_refl g : same_shape g g = true.
Proof. unfold same_shape. rewrite !Z.eqb_refl. reflexivity. Qed.

Lemma axis_adv_add v g d : axis_adv v (add_axis_adv v g d) = axis_adv v g + d.
Proof. destruct v; reflexivity. Qed.
Lemma cross_adv_add v g d : cross_adv v (add_axis_adv v g d) = cross_adv v g.
Proof. destruct v; reflexivity. Qed.
Lemma axis_adv_off v g d : axis_adv v (add_axis_off v g d) = axis_adv v g.
Proof. destruct v; reflexivity. Qed.
Lemma cross_adv_off v g d : cross_adv v (add_axis_off v g d) = cross_adv v g.
Proof. destruct v; reflexivity. Qed.
Lemma same_shape_add_adv v g d : same_shape g (add_axis_adv v g d) = true.
Proof. destruct v; unfold same_shape; cbn; rewrite !Z.eqb_refl; reflexivity. Qed.
Lemma same_shape_add_off v g d : same_shape g (add_axis_off v g d) = true.
Proof. destruct v; unfold same_shape; cbn; rewrite !Z.eqb_refl; reflexivity. Qed.

Lemma word_step_ok v text s g g' : word_step v text s g = Ok g' ->
  word_glyph_ok v text s g g' = true
  /\ axis_adv v g' = axis_adv v g + (if word_eligible text g then s else 0).
Proof.
  unfold word_step, word_glyph_ok, word_eligible.
  destruct ((g_runes g =? 1) && (g_glyphs g =? 1)) eqn:E1; cbn [negb].
  - destruct ((g_cluster g <? 0) || (zlen text <=? g_cluster g)) eqn:E2; [discriminate|].
    apply orb_false_elim in E2 as [E3 E4]. apply andb_prop in E1 as [E5 E6].
    replace (0 <=? g_cluster g) with true by lia. replace (g_cluster g <? zlen text) with true by lia.
    cbn [andb]. rewrite <- is_sep_eq.
    destruct (is_word_separator (znth 0 text (g_cluster g))); intros H; inversion H; subst g'; clear H.
    + rewrite axis_adv_off, axis_adv_add, cross_adv_off, cross_adv_add. split; [|reflexivity].
      rewrite !Z.eqb_refl. destruct v; unfold same_shape; cbn; rewrite !Z.eqb_refl; reflexivity.
    + split; [|lia]. rewrite same_shape_refl, !Z.eqb_refl. replace (axis_adv v g =? axis_adv v g + 0) with true by lia. reflexivity.
  - intros H; inversion H; subst g'. cbn [andb]. split; [|lia].
    rewrite same_shape_refl, !Z.eqb_refl. replace (axis_adv v g =? axis_adv v g + 0) with true by lia. reflexivity.
Qed.

Lemma word_loop_ok v text s : forall gs gs', word_loop v text s gs = Ok gs' ->
  all2 (word_glyph_ok v text s) gs gs' = true
  /\ axis_sum v gs' = axis_sum v gs + s * count_if (word_eligible text) gs.
Proof.
  induction gs as [|g gs IH]; intros gs' H; cbn [word_loop] in H.
  - inversion H. split; [reflexivity|cbn; lia].
  - destruct (word_step v text s g) as [g'| | |] eqn:E1; try discriminate. cbn [bind] in H.
    destruct (word_loop v text s gs) as [r'| | |] eqn:E2; try discriminate. cbn [bind] in H. inversion H; subst gs'.
    destruct (word_step_ok _ _ _ _ _ E1) as [A1 A2]. destruct (IH r' eq_refl) as [B1 B2].
    split; [cbn [all2]; rewrite A1, B1; reflexivity|].
    rewrite !axis_sum_cons, A2, B2. unfold count_if. cbn [fold_right]. fold (count_if (word_eligible text) gs).
    destruct (word_eligible text g); lia.
Qed.

Lemma word_spacing_lemma o text s o' : add_word_spacing o text s = Ok o' -> word_spacing_ok text s o o' = true.
Proof.
  unfold add_word_spacing. destruct (word_loop _ text s (o_glyphs o)) as [gs'| | |] eqn:E; try discriminate.
  cbn [bind]. intros H; inversion H; subst o'; clear H. destruct (word_loop_ok _ _ _ _ _ E) as [A B].
  unfold word_spacing_ok, recompute_advance, with_glyphs, advance_ok. cbn [o_dir o_glyphs o_adv].
  rewrite A, sum_adv_axis_sum, B, !Z.eqb_refl. reflexivity.
Qed.

(* no panic when the cluster indices lie in the text *)
Lemma word_spacing_total o text s :
  Forall (fun g => 0 <= g_cluster g < zlen text) (o_glyphs o) -> exists o', add_word_spacing o text s = Ok o'.
Proof.
  intros H. unfold add_word_spacing.
  assert (exists gs', word_loop (is_vertical (o_dir o)) text s (o_glyphs o) = Ok gs') as [gs' E].
  { induction H as [|g gs Hg _ IH]; [eexists; reflexivity|]. destruct IH as [r' Er]. cbn [word_loop].
    assert (exists g', word_step (is_vertical (o_dir o)) text s g = Ok g') as [g' Eg].
    { unfold word_step. destruct (negb _); [eexists; reflexivity|].
      replace ((g_cluster g <? 0) || (zlen text <=? g_cluster g)) with false by lia.
      destruct (is_word_separator _); eexists; reflexivity. }
    rewrite Eg, Er. eexists; reflexivity. }
  rewrite E. eexists; reflexivity.
Qed.

(* ---- 5c. trimStartLetterSpacing ------------------------------------------------------------- *)
Lemma all2_refl {A} (f : A -> A -> bool) : (forall x, f x x = true) -> forall l, all2 f l l = true.
Proof. intros H. induction l; [reflexivity|]. cbn. rewrite H, IHl. reflexivity. Qed.

Lemma trim_start_lemma o : trim_start_ok o (trim_start_letter_spacing o) = true
  /\ o_adv (trim_start_letter_spacing o) = o_adv o /\ o_dir (trim_start_letter_spacing o) = o_dir o.
Proof.
  unfold trim_start_ok, trim_start_letter_spacing. destruct (o_glyphs o) as [|g r] eqn:E.
  - rewrite E. repeat split; reflexivity.
  - cbn [with_glyphs o_glyphs o_dir o_adv]. split; [|split; reflexivity].
    set (v := is_vertical (o_dir o)).
    assert (all2 (fun p q => same_shape p q && (g_xadv p =? g_xadv q) && (g_yadv p =? g_yadv q) && (g_xoff p =? g_xoff q)
                        && (g_yoff p =? g_yoff q) && (g_startls p =? g_startls q) && (g_endls p =? g_endls q)) r r = true) as ->.
    { apply all2_refl. intros x. rewrite same_shape_refl, !Z.eqb_refl. reflexivity. }
    destruct v; unfold same_shape; cbn; rewrite !Z.eqb_refl; reflexivity.
Qed.

Lemma bounds_tight_lemma o :
  let v := is_vertical (o_dir o) in
  let b := o_gbounds (recalculate_all o) in
  (b_ascent b = 0 \/ exists g, In g (o_glyphs o) /\ b_ascent b = (if v then g_xoff g + g_xbearing g + g_width g else g_ybearing g + g_yoff g))
  /\ (b_descent b = 0 \/ exists g, In g (o_glyphs o) /\ b_descent b = (if v then g_xoff g + g_xbearing g else g_ybearing g + g_yoff g + g_height g)).
Proof.
  cbv zeta. rewrite recalculate_all_eq. cbn [o_gbounds b_ascent b_descent]. split.
  - apply asc_fold_attained.
  - apply desc_fold_attained.
Qed.

Lemma advance_lemma o :
  advance_ok (recompute_advance o) = true
  /\ advance_ok (recalculate_all o) = true
  /\ (forall text s o', add_word_spacing o text s = Ok o' -> advance_ok o' = true)
  /\ (forall s st en o', add_letter_spacing o s st en = Ok o' -> advance_ok o' = true)
  /\ advance_ok (recalculate_all (sideways o)) = true.
Proof.
  split; [apply recompute_advance_ok|]. split; [apply recalculate_all_advance_ok|]. split; [|split].
  - intros text s o'. unfold add_word_spacing. destruct (word_loop _ _ _ _); try discriminate.
    cbn [bind]. intros H; inversion H. apply recompute_advance_ok.
  - intros s st en o'. unfold add_letter_spacing. destruct (letter_loop _ _ _ _ _ _ _); try discriminate.
    cbn [bind]. intros H; inversion H. apply recompute_advance_ok.
  - apply recalculate_all_advance_ok.
Qed.

(* ---- 5b. letter spacing -------------------------------------------------------------------- *)
(* lists indexed by Z (framing) *)
Lemma zfirstn_app_l {A} n (l1 l2 : list A) : zlen l1 = n -> zfirstn n (l1 ++ l2) = l1.
Proof. intros <-. apply zfirstn_app_exact. Qed.
Lemma zskipn_app_l {A} n (l1 l2 : list A) : zlen l1 = n -> zskipn n (l1 ++ l2) = l2.
Proof. intros <-. apply zskipn_app_exact. Qed.
Lemma set_nth_app {A} (l1 l2 : list A) i x y : zlen l1 = i -> set_nth (l1 ++ y :: l2) i x = l1 ++ x :: l2.
Proof.
  intros H. unfold set_nth. rewrite zfirstn_app_l by assumption.
  replace (l1 ++ y :: l2) with ((l1 ++ [y]) ++ l2) by (rewrite <- app_assoc; reflexivity).
  rewrite zskipn_app_l; [reflexivity|]. rewrite zlen_app, zlen_cons, zlen_nil. lia.
Qed.
Lemma split_at {A} (l : list A) i : 0 <= i < zlen l -> exists l1 y l2, l = l1 ++ y :: l2 /\ zlen l1 = i.
Proof.
  intros H. exists (zfirstn i l).
  destruct (zskipn i l) as [|y l2] eqn:E.
  - assert (zlen (zskipn i l) = zlen l - i) by (apply zlen_zskipn; lia). rewrite E, zlen_nil in H0. lia.
  - exists y, l2. split.
    + rewrite <- E. unfold zfirstn, zskipn. symmetry. apply firstn_skipn.
    + apply zlen_zfirstn. lia.
Qed.
Lemma znth_app_mid {A} (d : A) l1 y l2 i : zlen l1 = i -> znth d (l1 ++ y :: l2) i = y.
Proof.
  intros H. unfold znth. pose proof (zlen_nonneg l1).
  destruct (i <? 0) eqn:E; [lia|].
  rewrite app_nth2 by (unfold zlen in *; lia).
  replace (Z.to_nat i - length l1)%nat with O by (unfold zlen in *; lia). reflexivity.
Qed.
Lemma zlen_set_nth {A} (l : list A) i x : 0 <= i < zlen l -> zlen (set_nth l i x) = zlen l.
Proof.
  intros H. destruct (split_at l i H) as (l1 & y & l2 & -> & Hl).
  rewrite (set_nth_app l1 l2 i x y Hl). rewrite !zlen_app, !zlen_cons. lia.
Qed.

Lemma frame_nth (done c rest : list glyph) i : 0 <= i < zlen c ->
  checked_nth (done ++ c ++ rest) (zlen done + i) = Ok (znth dummy_glyph c i).
Proof.
  intros H. pose proof (zlen_nonneg done). pose proof (zlen_nonneg rest).
  destruct (split_at c i H) as (c1 & y & c2 & -> & Hl).
  rewrite (znth_app_mid dummy_glyph c1 y c2 i Hl).
  replace (done ++ (c1 ++ y :: c2) ++ rest) with ((done ++ c1) ++ y :: (c2 ++ rest)) by (rewrite <- !app_assoc; reflexivity).
  unfold checked_nth.
  assert (zlen done + i < zlen ((done ++ c1) ++ y :: c2 ++ rest)).
  { rewrite !zlen_app, zlen_cons, zlen_app. pose proof (zlen_nonneg c2). lia. }
  destruct ((zlen done + i <? 0) || (zlen ((done ++ c1) ++ y :: c2 ++ rest) <=? zlen done + i)) eqn:E; [lia|].
  f_equal. apply znth_app_mid. rewrite zlen_app. lia.
Qed.
Lemma frame_set (done c rest : list glyph) i x : 0 <= i < zlen c ->
  set_nth (done ++ c ++ rest) (zlen done + i) x = done ++ set_nth c i x ++ rest.
Proof.
  intros H. destruct (split_at c i H) as (c1 & y & c2 & -> & Hl).
  rewrite (set_nth_app c1 c2 i x y Hl).
  replace (done ++ (c1 ++ y :: c2) ++ rest) with ((done ++ c1) ++ y :: (c2 ++ rest)) by (rewrite <- !app_assoc; reflexivity).
  rewrite (set_nth_app (done ++ c1) (c2 ++ rest) _ x y) by (rewrite zlen_app; lia).
  rewrite <- !app_assoc. reflexivity.
Qed.

Definition smod (v : bool) (h : Z) (g : glyph) : glyph :=
  let g1 := add_axis_off v (add_axis_adv v g h) h in with_ls g1 (g_startls g1 + h) (g_endls g1).
Definition emod (v : bool) (e : Z) (g : glyph) : glyph :=
  let g1 := add_axis_adv v g e in with_ls g1 (g_startls g1) (g_endls g1 + e).
Definition mod_cluster (v : bool) (s : Z) (sc ec : bool) (c : list glyph) : list glyph :=
  let c1 := if sc then set_nth c 0 (smod v (Z.quot s 2) (znth dummy_glyph c 0)) else c in
  if ec then set_nth c1 (zlen c - 1) (emod v (s - Z.quot s 2) (znth dummy_glyph c1 (zlen c - 1))) else c1.

Lemma zlen_mod_cluster v s sc ec c : c <> [] -> zlen (mod_cluster v s sc ec c) = zlen c.
Proof.
  intros Hc. assert (0 < zlen c) by (destruct c; [congruence|rewrite zlen_cons; pose proof (zlen_nonneg c); lia]).
  unfold mod_cluster. cbv zeta.
  assert (E1 : zlen (if sc then set_nth c 0 (smod v (Z.quot s 2) (znth dummy_glyph c 0)) else c) = zlen c).
  { destruct sc; [apply zlen_set_nth; lia|reflexivity]. }
  destruct ec; [rewrite zlen_set_nth; lia|exact E1].
Qed.

Definition is_nil {A} (l : list A) : bool := match l with [] => true | _ => false end.

Lemma letter_step_cluster v s is_start is_end done c rest :
  c <> [] -> g_glyphs (hd dummy_glyph c) = zlen c ->
  letter_step v s is_start is_end (done ++ c ++ rest) (zlen done) =
  Ok (done ++ mod_cluster v s ((0 <? zlen done) || negb is_start) (negb (is_nil rest) || negb is_end) c ++ rest,
      zlen done + zlen c).
Proof.
  intros Hc Hk.
  assert (Hpos : 0 < zlen c) by (destruct c; [congruence|rewrite zlen_cons; pose proof (zlen_nonneg c); lia]).
  assert (H0 : znth dummy_glyph c 0 = hd dummy_glyph c) by (destruct c; [congruence|reflexivity]).
  unfold letter_step. cbv zeta.
  replace (zlen done) with (zlen done + 0) at 1 by lia. rewrite frame_nth by lia. cbn [bind].
  rewrite H0, Hk.
  set (sc := (0 <? zlen done) || negb is_start).
  set (c1 := if sc then set_nth c 0 (smod v (Z.quot s 2) (znth dummy_glyph c 0)) else c).
  assert (Hc1 : zlen c1 = zlen c) by (unfold c1; destruct sc; [apply zlen_set_nth; lia|reflexivity]).
  assert (E1 : (if sc
                then do g <- checked_nth (done ++ c ++ rest) (zlen done);
                     Ok (set_nth (done ++ c ++ rest) (zlen done)
                           (with_ls (add_axis_off v (add_axis_adv v g (Z.quot s 2)) (Z.quot s 2))
                              (g_startls (add_axis_off v (add_axis_adv v g (Z.quot s 2)) (Z.quot s 2)) + Z.quot s 2)
                              (g_endls (add_axis_off v (add_axis_adv v g (Z.quot s 2)) (Z.quot s 2)))))
                else Ok (done ++ c ++ rest)) = Ok (done ++ c1 ++ rest)).
  { unfold c1. destruct sc; [|reflexivity].
    replace (zlen done) with (zlen done + 0) by lia. rewrite frame_nth by lia. cbn [bind].
    rewrite frame_set by lia. reflexivity. }
  rewrite E1. cbn [bind].
  assert (El : (zlen (done ++ c ++ rest) <=? zlen done + zlen c) = is_nil rest).
  { rewrite !zlen_app. destruct rest; cbn [is_nil]; [rewrite zlen_nil; lia|]. rewrite zlen_cons. pose proof (zlen_nonneg rest). lia. }
  rewrite El.
  unfold mod_cluster. cbv zeta. fold c1.
  destruct (negb (is_nil rest) || negb is_end); [|reflexivity].
  replace (zlen done + zlen c - 1) with (zlen done + (zlen c - 1)) by lia.
  rewrite frame_nth by lia. cbn [bind]. rewrite frame_set by lia. reflexivity.
Qed.

Fixpoint mod_all (v : bool) (s : Z) (is_start is_end first : bool) (cs : list (list glyph)) : list (list glyph) :=
  match cs with
  | [] => []
  | c :: r => mod_cluster v s (negb first || negb is_start) (negb (is_nil r) || negb is_end) c
              :: mod_all v s is_start is_end false r
  end.

Definition head_ok (c : list glyph) : Prop := c <> [] /\ g_glyphs (hd dummy_glyph c) = zlen c.

Lemma concat_nil_clusters (cs : list (list glyph)) : Forall head_ok cs -> is_nil (concat cs) = is_nil cs.
Proof. intros H. destruct H as [|c r [Hc _] _]; [reflexivity|]. destruct c; [congruence|reflexivity]. Qed.

Lemma letter_loop_clusters v s is_start is_end : forall cs done fuel,
  Forall head_ok cs -> (length cs <= fuel)%nat ->
  letter_loop fuel v s is_start is_end (done ++ concat cs) (zlen done)
  = Ok (done ++ concat (mod_all v s is_start is_end (zlen done =? 0) cs)).
Proof.
  induction cs as [|c r IH]; intros done fuel Hw Hf.
  - cbn [concat mod_all]. destruct fuel; cbn [letter_loop]; rewrite app_nil_r; rewrite Z.leb_refl; reflexivity.
  - inversion Hw as [|? ? [Hc Hk] Hr]; subst.
    assert (Hpos : 0 < zlen c) by (destruct c; [congruence|rewrite zlen_cons; pose proof (zlen_nonneg c); lia]).
    destruct fuel as [|f]; [cbn in Hf; lia|]. cbn [letter_loop concat].
    pose proof (zlen_nonneg done). pose proof (zlen_nonneg (concat r)).
    replace (zlen (done ++ c ++ concat r) <=? zlen done) with false by (rewrite !zlen_app; lia).
    rewrite letter_step_cluster by assumption. cbn [bind fst snd].
    rewrite concat_nil_clusters by exact Hr.
    set (c' := mod_cluster v s ((0 <? zlen done) || negb is_start) (negb (is_nil r) || negb is_end) c).
    assert (Hc' : zlen c' = zlen c) by (apply zlen_mod_cluster; exact Hc).
    replace (done ++ c' ++ concat r) with ((done ++ c') ++ concat r) by (rewrite <- app_assoc; reflexivity).
    replace (zlen done + zlen c) with (zlen (done ++ c')) by (rewrite zlen_app; lia).
    rewrite IH; [|exact Hr|cbn in Hf; lia].
    replace (zlen (done ++ c') =? 0) with false by (rewrite zlen_app; lia).
    cbn [mod_all concat]. rewrite <- app_assoc. unfold c'.
    replace (negb (zlen done =? 0)) with (0 <? zlen done) by lia. reflexivity.
Qed.

Lemma length_concat_ge (cs : list (list glyph)) : Forall head_ok cs -> (length cs <= length (concat cs))%nat.
Proof.
  induction 1 as [|c r [Hc _] _ IH]; [reflexivity|]. cbn [concat length]. rewrite app_length.
  destruct c; [congruence|cbn; lia].
Qed.

Lemma add_letter_spacing_clusters o s is_start is_end cs : o_glyphs o = concat cs -> Forall head_ok cs ->
  add_letter_spacing o s is_start is_end
  = Ok (recompute_advance (with_glyphs o (concat (mod_all (is_vertical (o_dir o)) s is_start is_end true cs)))).
Proof.
  intros E Hw. unfold add_letter_spacing. rewrite E.
  pose proof (letter_loop_clusters (is_vertical (o_dir o)) s is_start is_end cs [] (length (concat cs)) Hw (length_concat_ge cs Hw)) as L.
  cbn [app zlen length Z.of_nat Z.eqb] in L. rewrite L. reflexivity.
Qed.

(* -- the cluster-structured result against the specification -- *)
Definition gstep (v : bool) (x y : glyph) (eds ede : Z) : bool :=
  same_shape x y
  && (axis_adv v y =? axis_adv v x + (g_startls y - g_startls x) + (g_endls y - g_endls x))
  && (cross_adv v y =? cross_adv v x)
  && (g_startls y - g_startls x =? eds)
  && (g_endls y - g_endls x =? ede).

Lemma lof_cons v s is_end prev first is_start x a' y b' :
  letter_ok_from v s is_end prev first is_start (x :: a') (y :: b') =
  gstep v x y
    (if (match prev with None => true | Some c => negb (c =? g_cluster x) end) && (negb first || negb is_start) then start_share s else 0)
    (if (match a' with [] => true | x' :: _ => negb (g_cluster x' =? g_cluster x) end)
        && (negb (match a' with [] => true | _ => false end) || negb is_end) then end_share s else 0)
  && letter_ok_from v s is_end (Some (g_cluster x)) false is_start a' b'.
Proof. reflexivity. Qed.

Lemma gstep_id v g : gstep v g g 0 0 = true.
Proof. unfold gstep. rewrite same_shape_refl, !Z.sub_diag, !Z.add_0_r, !Z.eqb_refl. reflexivity. Qed.
Lemma gstep_s v g h : gstep v g (smod v h g) h 0 = true.
Proof. unfold gstep, smod, same_shape. destruct v; cbn; rewrite !Z.eqb_refl; cbn; rewrite ?andb_true_r, ?andb_true_iff; repeat split; apply Z.eqb_eq; lia. Qed.
Lemma gstep_e v g e : gstep v g (emod v e g) 0 e = true.
Proof. unfold gstep, emod, same_shape. destruct v; cbn; rewrite !Z.eqb_refl; cbn; rewrite ?andb_true_r, ?andb_true_iff; repeat split; apply Z.eqb_eq; lia. Qed.
Lemma gstep_se v g h e : gstep v g (emod v e (smod v h g)) h e = true.
Proof. unfold gstep, emod, smod, same_shape. destruct v; cbn; rewrite !Z.eqb_refl; cbn; rewrite ?andb_true_r, ?andb_true_iff; repeat split; apply Z.eqb_eq; lia. Qed.

Lemma set_nth_0 {A} (x g : A) t : set_nth (g :: t) 0 x = x :: t.
Proof. apply (set_nth_app [] t 0 x g). reflexivity. Qed.
Lemma set_nth_last {A} (x gl : A) l : set_nth (l ++ [gl]) (zlen (l ++ [gl]) - 1) x = l ++ [x].
Proof. apply set_nth_app. rewrite zlen_app, zlen_cons, zlen_nil. lia. Qed.
Lemma znth_last {A} (d gl : A) l : znth d (l ++ [gl]) (zlen (l ++ [gl]) - 1) = gl.
Proof. apply znth_app_mid. rewrite zlen_app, zlen_cons, zlen_nil. lia. Qed.

Lemma mod_cluster_single v s sc ec g :
  mod_cluster v s sc ec [g] =
  [ (if ec then emod v (s - Z.quot s 2) else fun x => x) ((if sc then smod v (Z.quot s 2) else fun x => x) g) ].
Proof.
  unfold mod_cluster. cbv zeta. change (zlen [g] - 1) with 0.
  destruct sc, ec; rewrite ?set_nth_0; reflexivity.
Qed.
Lemma mod_cluster_multi v s sc ec g mid gl :
  mod_cluster v s sc ec (g :: mid ++ [gl]) =
  (if sc then smod v (Z.quot s 2) g else g) :: mid ++ [if ec then emod v (s - Z.quot s 2) gl else gl].
Proof.
  unfold mod_cluster. cbv zeta.
  assert (E0 : znth dummy_glyph (g :: mid ++ [gl]) 0 = g) by reflexivity. rewrite E0.
  set (g' := smod v (Z.quot s 2) g).
  assert (L : forall a, zlen (g :: mid ++ [gl]) = zlen ((a :: mid) ++ [gl])).
  { intros a. cbn [app]. rewrite !zlen_cons. reflexivity. }
  destruct sc.
  - rewrite set_nth_0. destruct ec; [|reflexivity].
    rewrite (L g'). change (g' :: mid ++ [gl]) with ((g' :: mid) ++ [gl]).
    rewrite znth_last, set_nth_last. reflexivity.
  - destruct ec; [|reflexivity].
    rewrite (L g). change (g :: mid ++ [gl]) with ((g :: mid) ++ [gl]).
    rewrite znth_last, set_nth_last. reflexivity.
Qed.

Definition cidx (c : list glyph) : Z := g_cluster (hd dummy_glyph c).
Fixpoint wf_clusters (prev : option Z) (cs : list (list glyph)) : Prop :=
  match cs with
  | [] => True
  | c :: r => head_ok c /\ Forall (fun g => g_cluster g = cidx c) c
              /\ match prev with None => True | Some p => p <> cidx c end
              /\ wf_clusters (Some (cidx c)) r
  end.

Lemma wf_clusters_heads prev cs : wf_clusters prev cs -> Forall head_ok cs.
Proof. revert prev; induction cs as [|c r IH]; intros prev H; [constructor|]. destruct H as (H1 & _ & _ & H4). constructor; [exact H1|eapply IH; exact H4]. Qed.

(* what follows the current cluster in the glyph list: nothing, or a glyph of another cluster *)
Lemma next_of_clusters idx r : wf_clusters (Some idx) r ->
  (r = [] /\ concat r = []) \/ (exists g2 t, concat r = g2 :: t /\ g_cluster g2 <> idx /\ is_nil r = false).
Proof.
  destruct r as [|c2 r2]; [left; split; reflexivity|]. intros (H1 & H2 & H3 & _). right.
  destruct H1 as [Hc _]. destruct c2 as [|g2 t2]; [congruence|].
  exists g2, (t2 ++ concat r2). split; [reflexivity|]. split; [|reflexivity].
  unfold cidx in H3. cbn in H3. congruence.
Qed.

Lemma walk_mid v s is_end is_start idx : forall mid gl X Y,
  Forall (fun g => g_cluster g = idx) mid -> g_cluster gl = idx ->
  letter_ok_from v s is_end (Some idx) false is_start (mid ++ gl :: X) (mid ++ Y)
  = letter_ok_from v s is_end (Some idx) false is_start (gl :: X) Y.
Proof.
  induction mid as [|m mid IH]; intros gl X Y Hm Hg; [reflexivity|].
  inversion Hm as [|? ? Hm1 Hm2]; subst. cbn [app]. rewrite lof_cons. rewrite Hm1.
  rewrite Z.eqb_refl. cbn [negb andb].
  assert (E : (match mid ++ gl :: X with [] => true | x' :: _ => negb (g_cluster x' =? g_cluster gl) end) = false).
  { destruct mid as [|m2 mid2]; cbn [app].
    - rewrite Z.eqb_refl. reflexivity.
    - inversion Hm2 as [|? ? Hm3 ?]; subst. rewrite Hm3, Z.eqb_refl. reflexivity. }
  rewrite E. cbn [andb]. rewrite gstep_id. cbn [andb]. apply IH; [assumption|reflexivity].
Qed.

Lemma walk_clusters v s is_start is_end : forall cs prev first, wf_clusters prev cs ->
  letter_ok_from v s is_end prev first is_start (concat cs) (concat (mod_all v s is_start is_end first cs)) = true.
Proof.
  induction cs as [|c r IH]; intros prev first H; [reflexivity|].
  destruct H as ([Hc Hk] & Hall & Hprev & Hr). cbn [concat mod_all].
  specialize (IH (Some (cidx c)) false Hr).
  assert (Hst : (match prev with None => true | Some p => negb (p =? cidx c) end) = true).
  { destruct prev as [p|]; [|reflexivity]. apply negb_true_iff. apply Z.eqb_neq. exact Hprev. }
  set (sc := negb first || negb is_start). set (ec := negb (is_nil r) || negb is_end).
  (* what comes after the cluster *)
  assert (Hend : forall gl, g_cluster gl = cidx c ->
            (match concat r with [] => true | x' :: _ => negb (g_cluster x' =? g_cluster gl) end) = true
            /\ (match concat r with [] => true | _ => false end) = is_nil r).
  { intros gl Hgl. destruct (next_of_clusters _ _ Hr) as [[-> E]|(g2 & t & E & N & Nn)]; rewrite E.
    - split; reflexivity.
    - split; [apply negb_true_iff, Z.eqb_neq; congruence|symmetry; exact Nn]. }
  destruct c as [|g t]; [congruence|]. unfold cidx in *. cbn [hd] in *.
  destruct (@exists_last _ (g :: t)) as (l & gl & El); [discriminate|].
  destruct l as [|g0 mid].
  - (* single glyph cluster *)
    cbn [app] in El. inversion El; subst gl t. rewrite mod_cluster_single. cbn [app].
    rewrite lof_cons. rewrite Hst. destruct (Hend g eq_refl) as [E1 E2]. rewrite E1, E2. cbn [andb].
    fold sc ec. rewrite IH, andb_true_r.
    destruct sc, ec; unfold start_share, end_share; [apply gstep_se|apply gstep_s|apply gstep_e|apply gstep_id].
  - (* first glyph, middle glyphs, last glyph *)
    cbn [app] in El. inversion El; subst g0. rewrite H1 in *. clear El H1.
    assert (Hgl : g_cluster gl = g_cluster g).
    { rewrite Forall_forall in Hall. apply Hall. right. apply in_or_app. right. left. reflexivity. }
    assert (Hmid : Forall (fun x => g_cluster x = g_cluster g) mid).
    { rewrite Forall_forall in *. intros x Hx. apply Hall. right. apply in_or_app. left. exact Hx. }
    rewrite mod_cluster_multi. cbn [app]. rewrite <- !app_assoc. cbn [app].
    rewrite lof_cons. rewrite Hst. cbn [andb].
    assert (E : (match mid ++ gl :: concat r with [] => true | x' :: _ => negb (g_cluster x' =? g_cluster g) end) = false).
    { destruct mid as [|m2 mid2]; cbn [app].
      - rewrite Hgl, Z.eqb_refl. reflexivity.
      - inversion Hmid as [|? ? Hm3 ?]; subst. rewrite Hm3, Z.eqb_refl. reflexivity. }
    rewrite E. cbn [andb]. fold sc.
    assert (G1 : gstep v g (if sc then smod v (Z.quot s 2) g else g) (if sc then start_share s else 0) 0 = true).
    { destruct sc; [apply gstep_s|apply gstep_id]. }
    rewrite G1. cbn [andb].
    rewrite walk_mid by assumption. rewrite lof_cons. rewrite Hgl, Z.eqb_refl. cbn [negb andb].
    destruct (Hend gl Hgl) as [E1 E2]. rewrite Hgl in E1. rewrite E1, E2. cbn [andb]. fold ec.
    rewrite IH, andb_true_r.
    destruct ec; [apply gstep_e|apply gstep_id].
Qed.

Lemma axis_sum_app v a b : axis_sum v (a ++ b) = axis_sum v a + axis_sum v b.
Proof. induction a as [|g a IH]; [reflexivity|]. cbn [app]. rewrite !axis_sum_cons, IH. lia. Qed.
Lemma axis_adv_smod v h g : axis_adv v (smod v h g) = axis_adv v g + h.
Proof. destruct v; reflexivity. Qed.
Lemma axis_adv_emod v e g : axis_adv v (emod v e g) = axis_adv v g + e.
Proof. destruct v; reflexivity. Qed.

Lemma axis_sum_mod_cluster v s sc ec c : c <> [] ->
  axis_sum v (mod_cluster v s sc ec c) = axis_sum v c + (if sc then Z.quot s 2 else 0) + (if ec then s - Z.quot s 2 else 0).
Proof.
  intros Hc. destruct c as [|g t]; [congruence|].
  destruct (@exists_last _ (g :: t)) as (l & gl & El); [discriminate|]. destruct l as [|g0 mid].
  - cbn [app] in El. inversion El; subst. rewrite mod_cluster_single. rewrite !axis_sum_cons. cbn [axis_sum fold_right].
    destruct sc, ec; rewrite ?axis_adv_emod, ?axis_adv_smod; lia.
  - cbn [app] in El. inversion El; subst. rewrite mod_cluster_multi.
    rewrite !axis_sum_cons, !axis_sum_app, !axis_sum_cons. cbn [axis_sum fold_right].
    destruct sc, ec; rewrite ?axis_adv_emod, ?axis_adv_smod; lia.
Qed.

Lemma axis_sum_mod_all v s is_start is_end : forall cs first, Forall head_ok cs ->
  axis_sum v (concat (mod_all v s is_start is_end first cs)) =
  axis_sum v (concat cs)
  + (if is_nil cs then 0
     else s * (zlen cs - 1) + (if negb first || negb is_start then Z.quot s 2 else 0) + (if is_end then 0 else s - Z.quot s 2)).
Proof.
  induction cs as [|c r IH]; intros first Hw; [cbn; lia|].
  inversion Hw as [|? ? [Hc _] Hr]; subst. cbn [mod_all concat is_nil]. rewrite !axis_sum_app, axis_sum_mod_cluster by exact Hc.
  rewrite (IH false Hr). rewrite zlen_cons. destruct r as [|c2 r2].
  - cbn [is_nil negb orb zlen length Z.of_nat]. destruct is_end; cbn [negb]; lia.
  - cbn [is_nil negb orb]. rewrite zlen_cons. pose proof (zlen_nonneg r2). destruct is_end; lia.
Qed.

Lemma count_same idx : forall mid X, Forall (fun g => g_cluster g = idx) mid ->
  count_clusters (Some idx) (mid ++ X) = count_clusters (Some idx) X.
Proof.
  induction mid as [|m mid IH]; intros X H; [reflexivity|]. inversion H as [|? ? Hm Hr]; subst. cbn [app count_clusters].
  rewrite Z.eqb_refl. rewrite IH by assumption. lia.
Qed.
Lemma count_clusters_concat : forall cs prev, wf_clusters prev cs -> count_clusters prev (concat cs) = zlen cs.
Proof.
  induction cs as [|c r IH]; intros prev H; [reflexivity|]. destruct H as ([Hc _] & Hall & Hp & Hr).
  cbn [concat]. rewrite zlen_cons. destruct c as [|g t]; [congruence|]. unfold cidx in *. cbn [hd] in *.
  inversion Hall as [|? ? _ Ht]; subst. cbn [app count_clusters].
  rewrite count_same by exact Ht. rewrite (IH _ Hr).
  destruct prev as [p|]; [|lia]. replace (p =? g_cluster g) with false by lia. lia.
Qed.

Lemma letter_spacing_lemma o s is_start is_end cs : o_glyphs o = concat cs -> wf_clusters None cs ->
  exists o', add_letter_spacing o s is_start is_end = Ok o' /\ letter_spacing_ok s is_start is_end o o' = true.
Proof.
  intros E Hw. pose proof (wf_clusters_heads _ _ Hw) as Hh.
  eexists. split; [apply (add_letter_spacing_clusters o s is_start is_end cs E Hh)|].
  set (v := is_vertical (o_dir o)).
  unfold letter_spacing_ok, recompute_advance, with_glyphs, advance_ok. cbn [o_dir o_glyphs o_adv]. fold v.
  rewrite E, Z.eqb_refl, walk_clusters by exact Hw. rewrite sum_adv_axis_sum, Z.eqb_refl. cbn [andb]. rewrite andb_true_r.
  rewrite axis_sum_mod_all by exact Hh. rewrite count_clusters_concat by exact Hw.
  destruct cs as [|c r]; [reflexivity|]. cbn [is_nil negb orb].
  inversion Hh as [|? ? [Hc _] _]; subst. destruct c as [|g t]; [congruence|]. cbn [concat app].
  unfold start_share, end_share. apply Z.eqb_eq. destruct is_start; cbn [negb]; lia.
Qed.
