(* WF-preservation and panic-freedom of EVERY modelled buffer operation (C01 part 2), and the flag transfer of
   setCluster in merges / deletions (C18).  Continues Proofs/Buffer.v. *)
From TV Require Import Model.Buffer Spec.Buffer Proofs.ShapeGlue Proofs.Buffer.

(* ---------- stutter-subsequences: what every operation does to the cluster sequence ---------- *)

(* ss l l': l' is read off l by a head that only moves forward and may emit the element under it any number of times
   (removal of elements, duplication of an element next to itself, overwriting a block by one of its values) *)
Inductive ss : list Z -> list Z -> Prop :=
| ss_nil l : ss l []
| ss_keep x l l' : ss (x :: l) l' -> ss (x :: l) (x :: l')
| ss_skip x l l' : ss l l' -> ss (x :: l) l'.

Lemma ss_in l l' : ss l l' -> forall y, In y l' -> In y l.
Proof.
  induction 1; intros y Hy.
  - destruct Hy.
  - destruct Hy as [<-|Hy]; [left; reflexivity|apply IHss; exact Hy].
  - right. apply IHss. exact Hy.
Qed.

Lemma ss_mono rtl l l' : ss l l' -> mono rtl l = true -> mono rtl l' = true.
Proof.
  induction 1; intros Hm.
  - reflexivity.
  - specialize (IHss Hm). destruct l' as [|y l']; [reflexivity|].
    rewrite mono_cons2, IHss, andb_true_r.
    assert (Hy : In y (x :: l)) by (apply (ss_in _ _ H); left; reflexivity).
    assert (D : dirle rtl x y).
    { destruct Hy as [<-|Hy]; [apply dirle_refl|]. pose proof (mono_hd _ _ _ Hm) as F. rewrite Forall_forall in F. exact (F y Hy). }
    unfold dirle in D. destruct rtl; lia.
  - apply IHss. exact (mono_cons _ _ _ Hm).
Qed.

Lemma ss_monotone l l' : ss l l' -> monotone l = true -> monotone l' = true.
Proof.
  unfold monotone. intros S H. apply orb_prop in H. apply orb_true_intro.
  destruct H; [left|right]; eapply ss_mono; eassumption.
Qed.

Lemma ss_in_range lo hi l l' : ss l l' -> in_range lo hi l = true -> in_range lo hi l' = true.
Proof.
  intros S H. unfold in_range in *. rewrite forallb_forall in *. intros y Hy. apply H. exact (ss_in _ _ S y Hy).
Qed.

Lemma ss_refl l : ss l l.
Proof. induction l as [|x l IH]; [constructor|]. apply ss_keep. apply ss_skip. exact IH. Qed.

Lemma ss_skip_app a b b' : ss b b' -> ss (a ++ b) b'.
Proof. intros H. induction a as [|x a IH]; [exact H|]. cbn [app]. apply ss_skip. exact IH. Qed.

Lemma ss_app a a' b b' : ss a a' -> ss b b' -> ss (a ++ b) (a' ++ b').
Proof.
  intros Ha Hb. induction Ha.
  - cbn [app]. apply ss_skip_app. exact Hb.
  - cbn [app]. apply ss_keep. exact IHHa.
  - cbn [app]. apply ss_skip. exact IHHa.
Qed.

Lemma ss_const v m m' : In v m -> Forall (fun x => x = v) m' -> ss m m'.
Proof.
  intros Hin Hall. induction m as [|x m IH]; [destruct Hin|].
  destruct (Z.eq_dec x v) as [->|N].
  - clear IH Hin. induction Hall as [|y m' -> _ IH2]; [constructor|]. apply ss_keep. exact IH2.
  - destruct Hin as [E|Hin]; [contradiction|]. apply ss_skip. apply IH. exact Hin.
Qed.

Lemma ss_block a m z m' v : In v m -> Forall (fun x => x = v) m' -> ss (a ++ m ++ z) (a ++ m' ++ z).
Proof. intros. apply ss_app; [apply ss_refl|]. apply ss_app; [eapply ss_const; eassumption|apply ss_refl]. Qed.

Lemma ss_remove a m z : ss (a ++ m ++ z) (a ++ z).
Proof. apply ss_app; [apply ss_refl|]. apply ss_skip_app. apply ss_refl. Qed.

Lemma Forall_const_map {A} (v : Z) (l : list A) : Forall (fun x => x = v) (map (fun _ => v) l).
Proof. induction l; constructor; auto. Qed.

Lemma WF_ss lo hi b b' : (level b =? 2) = false -> WF lo hi b = true -> level b' = level b ->
  0 <= idx b' -> idx b' <= zlen (info b') -> ss (cls (bseq b)) (cls (bseq b')) -> WF lo hi b' = true.
Proof.
  intros Hl Hw Elv I0 I1 S. destruct (WF_parts lo hi b Hl Hw) as (_ & _ & Hm & Hr).
  apply WF_intro; [rewrite Elv; exact Hl|exact I0|exact I1|exact (ss_monotone _ _ S Hm)|exact (ss_in_range _ _ _ _ S Hr)].
Qed.

(* the shape of the conclusion of every per-operation lemma *)
Definition okwf (lo hi : Z) (b : buffer) (r : res buffer) : Prop :=
  exists b', r = Ok b' /\ WF lo hi b' = true /\ level b' = level b.

(* ---------- more about lists ---------- *)

Lemma cls_zskipn i l : cls (zskipn i l) = zskipn i (cls l).
Proof. unfold cls, zskipn. symmetry. apply skipn_map. Qed.
Lemma cls_zfirstn i l : cls (zfirstn i l) = zfirstn i (cls l).
Proof. unfold cls, zfirstn. symmetry. apply firstn_map. Qed.
Lemma zlen_cls l : zlen (cls l) = zlen l.
Proof. apply zlen_map. Qed.
Lemma cls_eq_zlen a b : cls a = cls b -> zlen a = zlen b.
Proof. intros E. rewrite <- (zlen_cls a), <- (zlen_cls b), E. reflexivity. Qed.

Lemma zfirstn_zskipn {A} i (l : list A) : zfirstn i l ++ zskipn i l = l.
Proof. unfold zfirstn, zskipn. apply firstn_skipn. Qed.

Lemma zfirstn_app_le {A} (l1 l2 : list A) i : i <= zlen l1 -> zfirstn i (l1 ++ l2) = zfirstn i l1.
Proof.
  intros H. unfold zfirstn, zlen in *. rewrite firstn_app.
  replace (Z.to_nat i - length l1)%nat with 0%nat by lia. cbn. apply app_nil_r.
Qed.

(* ---------- mergeClusters, with everything the callers need ---------- *)

Lemma set_cluster_last_zlen k c m l : 0 <= k -> k <= zlen l -> zlen (set_cluster_last k c m l) = zlen l.
Proof.
  intros H0 H1. destruct (set_cluster_last_view k c m l H0 H1) as (l1 & l2 & E & L & V).
  rewrite V. rewrite E at 1. rewrite !zlen_app, zlen_map. reflexivity.
Qed.

Lemma merge_full lo hi b s e : (level b =? 2) = false -> WF lo hi b = true -> pre (OMerge s e) b = true ->
  exists b', merge_clusters b s e = Ok b' /\ WF lo hi b' = true /\ level b' = level b
    /\ idx b' = idx b /\ have_out b' = have_out b /\ zlen (info b') = zlen (info b) /\ zlen (out b') = zlen (out b)
    /\ pos_len b' = pos_len b /\ pos_cap b' = pos_cap b
    /\ Forall (fun g => cl g = cl (nth (Z.to_nat s) (info b') g0)) (slice s e (info b')).
Proof.
  intros Hl Hw Hp. destruct (merge_clusters_wf lo hi b s e Hl Hw Hp) as (b' & E & W & L).
  exists b'. split; [exact E|]. split; [exact W|]. split; [exact L|].
  destruct (WF_parts lo hi b Hl Hw) as (I0 & I1 & _).
  cbn [pre] in Hp. pre_split Hp. apply Z.leb_le in Hp, Hp2, Hp1.
  destruct (Z_lt_le_dec (e - s) 2) as [Hsmall|Hbig].
  - unfold merge_clusters in E. destruct (Z.ltb_spec (e - s) 2); [|lia]. inversion E; subst b'.
    repeat split; auto.
    destruct (Z.eq_dec s e) as [->|N].
    + unfold slice. rewrite zfirstn_neg by lia. constructor.
    + rewrite (slice_cons g0 s e (info b)) by lia. constructor; [reflexivity|].
      unfold slice. rewrite zfirstn_neg by lia. constructor.
  - assert (Hbig2 : s + 2 <= e) by lia. destruct (merge_clusters_view b s e Hl I0 Hp Hbig2 Hp1) as (s' & e' & k & c & A1 & A2 & A3 & A4 & A5 & A6 & A7 & A8 & A9 & A10 & A11 & E2).
    destruct (merge_clusters_min_lemma b s e Hl I0 Hp Hbig2 Hp1) as (b2 & s2 & e2 & E3 & B1 & B2 & B3 & B4 & B5 & B6 & _).
    rewrite E in E3. inversion E3; subst b2. clear E3.
    rewrite E in E2. injection E2 as E4.
    assert (Hk : zlen (out b') = zlen (out b)) by (rewrite E4; cbn; apply set_cluster_last_zlen; lia).
    assert (F1 : idx b' = idx b) by (rewrite E4; reflexivity).
    assert (F2 : have_out b' = have_out b) by (rewrite E4; reflexivity).
    assert (F3 : pos_len b' = pos_len b) by (rewrite E4; reflexivity).
    assert (F4 : pos_cap b' = pos_cap b) by (rewrite E4; reflexivity).
    repeat (split; [assumption|]).
    rewrite Forall_forall in *. intros g Hg.
    assert (Hin : forall x, In x (slice s e (info b')) -> In x (slice s2 e2 (info b'))) by (intros x Hx; apply (slice_incl (info b') s2 s e e2); auto; lia).
    rewrite (B6 g (Hin g Hg)). symmetry. apply B6. apply Hin. apply nth_in_slice; lia.
Qed.

(* ---------- replaceGlyphs / replaceGlyph / outputRune / outputGlyphIndex ---------- *)

Lemma bseq_have b : have_out b = true -> bseq b = out b ++ zskipn (idx b) (info b).
Proof. intros H. unfold bseq. rewrite H. reflexivity. Qed.
Lemma bseq_nohave b : have_out b = false -> bseq b = info b.
Proof. intros H. unfold bseq. rewrite H. reflexivity. Qed.

Lemma Forall_app_intro {A} (P : A -> Prop) a b : Forall P a -> Forall P b -> Forall P (a ++ b).
Proof. intros. apply Forall_app. split; assumption. Qed.

Lemma replace_glyphs_wf lo hi b k c g : (level b =? 2) = false -> WF lo hi b = true -> pre (OReplace k c g) b = true ->
  okwf lo hi b (replace_glyphs b k c g).
Proof.
  intros Hl Hw Hp. destruct (WF_parts lo hi b Hl Hw) as (I0 & I1 & _).
  cbn [pre] in Hp. pre_split Hp. rename Hp into Hh. apply Z.leb_le in Hp3, Hp2.
  assert (Pm : pre (OMerge (idx b) (idx b + k)) b = true).
  { cbn [pre]. destruct (Z.leb_spec 0 (idx b)); [|lia]. destruct (Z.leb_spec (idx b) (idx b + k)); [|lia].
    destruct (Z.leb_spec (idx b + k) (zlen (info b))); [|lia]. rewrite Z.leb_refl, orb_true_r. reflexivity. }
  destruct (merge_full lo hi b (idx b) (idx b + k) Hl Hw Pm) as (b1 & E & W1 & L1 & F1 & F2 & F3 & F4 & _ & _ & FA).
  assert (Hl1 : (level b1 =? 2) = false) by (rewrite L1; exact Hl).
  unfold replace_glyphs. rewrite E. cbn [bind]. rewrite F1, F3.
  set (L := Z.max (olen c) (olen g)).
  assert (Hlen : (match c with Some l => zlen l <? L | None => false end) || (match g with Some l => zlen l <? L | None => false end) = false).
  { subst L. unfold olen_ok in Hp0. destruct c as [lc|], g as [lg|]; cbn [olen].
    - apply Z.eqb_eq in Hp0. rewrite Hp0, Z.max_id, Z.ltb_irrefl. reflexivity.
    - pose proof (zlen_nonneg lc). rewrite Z.max_l by lia. rewrite Z.ltb_irrefl. reflexivity.
    - pose proof (zlen_nonneg lg). rewrite Z.max_r by lia. rewrite Z.ltb_irrefl. reflexivity.
    - reflexivity. }
  assert (Hb1 : bseq b1 = out b1 ++ zskipn (idx b) (info b1)) by (rewrite bseq_have, F1 by congruence; reflexivity).
  (* the tail of the proof once orig is known *)
  assert (Tail : forall orig,
    (ss (cls (out b1 ++ zskipn (idx b) (info b1)))
        (cls (out b1 ++ map (fun i => mkGX (cl orig) (gf orig) (rest orig) (oget c (cp orig) i) (oget g (gid orig) i) (up orig) (gp orig)) (seq 0 (Z.to_nat L))
              ++ zskipn (idx b + k) (info b1)))) ->
    okwf lo hi b
      (if (match c with Some l => zlen l <? L | None => false end) || (match g with Some l => zlen l <? L | None => false end) then Panic 1
       else Ok (with_idx (with_out b1 (out b1 ++ map (fun i => mkGX (cl orig) (gf orig) (rest orig) (oget c (cp orig) i) (oget g (gid orig) i) (up orig) (gp orig)) (seq 0 (Z.to_nat L))))
                         (idx b + k)))).
  { intros orig S. rewrite Hlen. eexists. split; [reflexivity|]. split; [|exact L1].
    apply (WF_ss lo hi b1); auto; cbn [idx info with_idx with_out level]; try lia.
    rewrite Hb1. rewrite (bseq_have (with_idx _ _)) by (cbn; congruence). cbn [idx info out with_idx with_out].
    rewrite <- app_assoc. exact S. }
  assert (Hnew : forall orig, Forall (fun x => x = cl orig)
            (cls (map (fun i => mkGX (cl orig) (gf orig) (rest orig) (oget c (cp orig) i) (oget g (gid orig) i) (up orig) (gp orig)) (seq 0 (Z.to_nat L))))).
  { intros orig. unfold cls. rewrite map_map. cbn [cl]. apply Forall_const_map. }
  destruct (Z.ltb_spec (idx b) (zlen (info b))) as [Hin|Hend].
  - rewrite getg_ok by lia. cbn [bind]. apply Tail. set (orig := nth (Z.to_nat (idx b)) (info b1) g0).
    rewrite !cls_app.
    destruct (Z.eq_dec k 0) as [->|Nk].
    + rewrite Z.add_0_r. rewrite (zskipn_cons (info b1) (idx b)) by lia. fold orig. cbn [cls map]. fold (cls (zskipn (idx b + 1) (info b1))).
      change (cl orig :: cls (zskipn (idx b + 1) (info b1))) with ([cl orig] ++ cls (zskipn (idx b + 1) (info b1))).
      rewrite (app_assoc (cls (map _ _))).
      apply (ss_block _ _ _ _ (cl orig)); [left; reflexivity|]. apply Forall_app_intro; [apply Hnew|repeat constructor].
    + rewrite (zskipn_slice (info b1) (idx b) k) by lia. rewrite cls_app.
      apply (ss_block _ _ _ _ (cl orig)); [|apply Hnew]. apply in_cls. apply nth_in_slice; lia.
  - assert (idx b = zlen (info b)) by lia. assert (k = 0) by lia. subst k.
    destruct (Z.ltb_spec (idx b) (zlen (info b))) as [|_]; [lia|]. cbn [orb] in Hp1. apply negb_true_iff in Hp1.
    rewrite F4, Hp1. cbn [bind]. apply Tail. set (orig := lastg (out b1)).
    assert (One : out b1 <> []). { intros N. rewrite N, zlen_nil in F4. apply Z.eqb_neq in Hp1. lia. }
    rewrite Z.add_0_r, zskipn_all by lia. rewrite !app_nil_r.
    rewrite (app_removelast_last g0 One) at 1 2. fold (lastg (out b1)). fold orig. rewrite <- app_assoc, !cls_app. cbn [cls map].
    apply ss_app; [apply ss_refl|]. apply (ss_const (cl orig)); [left; reflexivity|].
    apply Forall_app_intro; [repeat constructor|apply Hnew].
Qed.

(* ---------- deleteGlyph ---------- *)

Lemma with_out_id b : with_out b (out b) = b.
Proof. destruct b; reflexivity. Qed.

Lemma delete_glyph_wf lo hi b : (level b =? 2) = false -> WF lo hi b = true -> pre ODelete b = true ->
  okwf lo hi b (delete_glyph b).
Proof.
  intros Hl Hw Hp. destruct (WF_parts lo hi b Hl Hw) as (I0 & I1 & _).
  cbn [pre] in Hp. pre_split Hp. rename Hp into Hh. apply Z.ltb_lt in Hp0.
  unfold delete_glyph. rewrite getg_ok by lia. cbn [bind].
  set (g := nth (Z.to_nat (idx b)) (info b) g0). set (c := cl g). set (rest := zskipn (idx b + 1) (info b)).
  assert (Eb : bseq b = out b ++ g :: rest).
  { rewrite bseq_have by exact Hh. rewrite (zskipn_cons (info b) (idx b)) by lia. reflexivity. }
  assert (Skip : forall o', ss (cls (out b ++ g :: rest)) (cls (o' ++ rest)) ->
            okwf lo hi b (Ok (with_idx (with_out b o') (idx b + 1)))).
  { intros o' S. eexists. split; [reflexivity|]. split; [|reflexivity].
    apply (WF_ss lo hi b); auto; cbn [idx info with_idx with_out level]; try lia.
    rewrite Eb. rewrite (bseq_have (with_idx _ _)) by (cbn; exact Hh). cbn [idx info out with_idx with_out]. exact S. }
  assert (Plain : okwf lo hi b (Ok (with_idx b (idx b + 1)))).
  { rewrite <- (with_out_id b) at 2. apply Skip. rewrite !cls_app.
    change (cls (g :: rest)) with ([cl g] ++ cls rest). apply ss_remove. }
  destruct (((idx b + 1 <? zlen (info b)) && (c =? cl (nth (Z.to_nat (idx b + 1)) (info b) g0)))
            || (negb (zlen (out b) =? 0) && (c =? cl (lastg (out b))))); [exact Plain|].
  destruct (Z.eqb_spec (zlen (out b)) 0) as [L0|LN]; cbn [negb].
  - destruct (Z.ltb_spec (idx b + 1) (zlen (info b))) as [Hnext|Hlast]; [|exact Plain].
    assert (Pm : pre (OMerge (idx b) (idx b + 2)) b = true).
    { cbn [pre]. destruct (Z.leb_spec 0 (idx b)); [|lia]. destruct (Z.leb_spec (idx b) (idx b + 2)); [|lia].
      destruct (Z.leb_spec (idx b + 2) (zlen (info b))); [|lia]. rewrite Z.leb_refl, orb_true_r. reflexivity. }
    destruct (merge_full lo hi b (idx b) (idx b + 2) Hl Hw Pm) as (b1 & E & W1 & L1 & F1 & F2 & F3 & _).
    rewrite E. cbn [bind].
    assert (Hl1 : (level b1 =? 2) = false) by (rewrite L1; exact Hl).
    destruct (skip_glyph_wf lo hi b1 Hl1 W1) as (b2 & E2 & W2 & L2).
    { cbn [pre]. apply Z.ltb_lt. lia. }
    unfold skip_glyph in E2. exists b2. split; [exact E2|]. split; [exact W2|congruence].
  - destruct (Z.ltb_spec c (cl (lastg (out b)))) as [Hlt|Hge]; [|exact Plain].
    set (oldC := cl (lastg (out b))) in *.
    destruct (set_cluster_last_run c (gf g) (out b) oldC) as (o1 & o2 & EO & LO & FO & VO). rewrite VO.
    apply Skip. rewrite EO, <- !app_assoc, !cls_app, cls_set_cluster.
    change (cls (g :: rest)) with ([c] ++ cls rest). rewrite (app_assoc (cls o2)).
    apply (ss_block _ _ _ _ c); [apply in_or_app; right; left; reflexivity|apply Forall_const_map].
Qed.

(* ---------- shiftForward, moveTo, removeOutput, clearPositions: the glyph sequence does not change ---------- *)

Lemma zlen_repeat {A} (x : A) n : zlen (repeat x n) = Z.of_nat n.
Proof. unfold zlen. rewrite repeat_length. reflexivity. Qed.

Lemma shift_forward_spec b count : 0 <= count -> 0 <= idx b -> idx b <= zlen (info b) ->
  exists b', shift_forward b count = Ok b' /\ idx b' = idx b + count /\ out b' = out b /\ have_out b' = have_out b
    /\ level b' = level b /\ zskipn (idx b') (info b') = zskipn (idx b) (info b) /\ zlen (info b') = zlen (info b) + count.
Proof.
  intros Hc I0 I1. unfold shift_forward.
  destruct (Z.ltb_spec count 0); [lia|]. destruct (Z.ltb_spec (idx b) 0); [lia|].
  destruct (Z.ltb_spec (zlen (info b)) (idx b)); [lia|]. cbn [orb].
  eexists. split; [reflexivity|]. cbn [idx info out have_out level with_idx with_info].
  assert (La : zlen (zfirstn (idx b + count) (info b ++ repeat g0 (Z.to_nat count))) = idx b + count).
  { apply zlen_zfirstn. rewrite zlen_app, zlen_repeat. lia. }
  repeat split; auto.
  - rewrite <- La at 1. apply zskipn_app_exact.
  - rewrite zlen_app, La, zlen_zskipn by lia. lia.
Qed.

Lemma shift_forward_wf lo hi b count : (level b =? 2) = false -> WF lo hi b = true -> pre (OShiftFwd count) b = true ->
  okwf lo hi b (shift_forward b count).
Proof.
  intros Hl Hw Hp. destruct (WF_parts lo hi b Hl Hw) as (I0 & I1 & _).
  cbn [pre] in Hp. pre_split Hp. apply Z.leb_le in Hp0.
  destruct (shift_forward_spec b count Hp0 I0 I1) as (b' & E & F1 & F2 & F3 & F4 & F5 & F6).
  exists b'. split; [exact E|]. split; [|exact F4].
  apply (WF_same lo hi b); auto; try lia.
  rewrite !bseq_have by congruence. rewrite F2, F5. reflexivity.
Qed.

Lemma move_to_wf lo hi b i : (level b =? 2) = false -> WF lo hi b = true -> pre (OMoveTo i) b = true ->
  okwf lo hi b (move_to b i).
Proof.
  intros Hl Hw Hp. destruct (WF_parts lo hi b Hl Hw) as (I0 & I1 & _).
  cbn [pre] in Hp. pre_split Hp. apply Z.leb_le in Hp.
  unfold move_to. destruct (have_out b) eqn:Hh; cbn [negb].
  - apply Z.leb_le in Hp0.
    destruct (Z.ltb_spec (zlen (out b)) i) as [Hfwd|Hnf].
    + destruct (Z.leb_spec 0 (idx b)); [|lia]. destruct (Z.leb_spec (idx b + (i - zlen (out b))) (zlen (info b))); [|lia]. cbn [andb].
      eexists. split; [reflexivity|]. split; [|reflexivity].
      apply (WF_same lo hi b); auto; cbn [idx info with_idx with_out level]; try lia.
      rewrite !bseq_have by (cbn; exact Hh). cbn [idx info out with_idx with_out].
      rewrite <- app_assoc. rewrite <- zskipn_slice by lia. reflexivity.
    + destruct (Z.ltb_spec i (zlen (out b))) as [Hback|Hsame].
      * destruct (Z.ltb_spec i 0); [lia|].
        set (count := zlen (out b) - i).
        assert (B1 : exists b1, (if idx b <? count then shift_forward b (count - idx b) else Ok b) = Ok b1
                  /\ out b1 = out b /\ have_out b1 = have_out b /\ level b1 = level b
                  /\ count <= idx b1 /\ idx b1 <= zlen (info b1) /\ zskipn (idx b1) (info b1) = zskipn (idx b) (info b)).
        { destruct (Z.ltb_spec (idx b) count).
          - destruct (shift_forward_spec b (count - idx b)) as (b1 & E & F1 & F2 & F3 & F4 & F5 & F6); try lia.
            exists b1. repeat split; auto; lia.
          - exists b. repeat split; auto. }
        destruct B1 as (b1 & E1 & F2 & F3 & F4 & C1 & C2 & F5). rewrite E1. cbn [bind].
        destruct (Z.ltb_spec (idx b1) count); [lia|]. destruct (Z.ltb_spec (zlen (info b1)) (idx b1)); [lia|]. cbn [orb].
        eexists. split; [reflexivity|]. split; [|exact F4].
        assert (Lf : zlen (zfirstn (idx b1 - count) (info b1)) = idx b1 - count) by (apply zlen_zfirstn; subst count; lia).
        apply (WF_same lo hi b); auto; cbn [idx info with_idx with_out with_info level]; try (subst count; lia).
        -- rewrite !zlen_app, Lf, !zlen_zskipn by (rewrite ?F2; subst count; lia). rewrite F2. subst count. lia.
        -- rewrite !bseq_have by (cbn; congruence). cbn [idx info out with_idx with_out with_info].
           rewrite <- Lf at 1. rewrite zskipn_app_exact.
           replace (idx b1 - count + count) with (idx b1) by lia. rewrite F5, F2, app_assoc, zfirstn_zskipn. reflexivity.
      * eexists. split; [reflexivity|]. split; [exact Hw|reflexivity].
  - apply Z.leb_le in Hp0. eexists. split; [reflexivity|]. split; [|reflexivity].
    apply (WF_same lo hi b); auto; cbn [idx info with_idx level]; try lia.
    rewrite !bseq_nohave by (cbn; exact Hh). reflexivity.
Qed.

Lemma ss_suffix i (l : list Z) : ss l (zskipn i l).
Proof. rewrite <- (zfirstn_zskipn i l) at 1. apply ss_skip_app. apply ss_refl. Qed.

Lemma remove_output_wf lo hi b set : (level b =? 2) = false -> WF lo hi b = true -> pre (ORemoveOut set) b = true ->
  okwf lo hi b (remove_output b set).
Proof.
  intros Hl Hw Hp. destruct (WF_parts lo hi b Hl Hw) as (I0 & I1 & _).
  cbn [pre] in Hp. apply negb_true_iff in Hp.
  unfold remove_output. eexists. split; [reflexivity|]. split; [|reflexivity].
  apply (WF_ss lo hi b); auto. rewrite (bseq_nohave b Hp). destruct set.
  - rewrite bseq_have by reflexivity. cbn [out info idx with_out with_have app]. rewrite cls_zskipn. apply ss_suffix.
  - rewrite bseq_nohave by reflexivity. apply ss_refl.
Qed.

Lemma clear_positions_wf lo hi b : (level b =? 2) = false -> WF lo hi b = true -> pre OClearPos b = true ->
  okwf lo hi b (clear_positions b).
Proof.
  intros Hl Hw Hp. destruct (WF_parts lo hi b Hl Hw) as (I0 & I1 & _).
  cbn [pre] in Hp. apply negb_true_iff in Hp.
  unfold clear_positions. eexists. split; [reflexivity|]. split; [|reflexivity].
  apply (WF_same lo hi b); auto. rewrite (bseq_nohave b Hp). rewrite bseq_nohave by reflexivity. reflexivity.
Qed.

(* ---------- reverseRange, Reverse, reverseClusters: the direction of the cluster sequence flips ---------- *)

Lemma mono_rev rtl l : mono rtl l = true -> mono (negb rtl) (rev l) = true.
Proof.
  induction l as [|x l IH]; intros H; [reflexivity|]. cbn [rev].
  apply mono_app_intro; [apply IH; exact (mono_cons _ _ _ H)|reflexivity|].
  intros p q Hp [<-|[]]. apply in_rev in Hp. pose proof (mono_hd _ _ _ H) as F. rewrite Forall_forall in F.
  specialize (F p Hp). unfold dirle in *. destruct rtl; cbn [negb]; lia.
Qed.

Lemma monotone_rev l : monotone l = true -> monotone (rev l) = true.
Proof.
  unfold monotone. intros H. apply orb_prop in H. apply orb_true_intro.
  destruct H as [H|H]; [right|left]; exact (mono_rev _ _ H).
Qed.

Lemma in_range_rev lo hi l : in_range lo hi l = true -> in_range lo hi (rev l) = true.
Proof. unfold in_range. rewrite !forallb_forall. intros H x Hx. apply H. apply in_rev. exact Hx. Qed.

Lemma const_snoc (v : Z) l : Forall (fun x => x = v) l -> l ++ [v] = v :: l.
Proof. induction 1 as [|x l -> _ IH]; [reflexivity|]. cbn [app]. rewrite IH. reflexivity. Qed.

Lemma rev_const (v : Z) l : Forall (fun x => x = v) l -> rev l = l.
Proof.
  induction 1 as [|x l -> H IH]; [reflexivity|]. cbn [rev]. rewrite IH. apply const_snoc. exact H.
Qed.

Lemma cls_rev l : cls (rev l) = rev (cls l).
Proof. unfold cls. apply map_rev. Qed.

Lemma slice_whole {A} (l : list A) : slice 0 (zlen l) l = l.
Proof. unfold slice. rewrite zskipn_0, Z.sub_0_r. apply zfirstn_all. lia. Qed.

(* reversing a range whose glyphs share one cluster value does not change the cluster sequence *)
Lemma reverse_range_const b s e v : 0 <= s -> s <= e -> e <= zlen (info b) ->
  Forall (fun g => cl g = v) (slice s e (info b)) ->
  exists b', reverse_range b s e = Ok b' /\ cls (info b') = cls (info b) /\ zlen (info b') = zlen (info b)
    /\ out b' = out b /\ idx b' = idx b /\ have_out b' = have_out b /\ level b' = level b.
Proof.
  intros H0 H1 H2 Hc. unfold reverse_range. destruct (Z.ltb_spec (e - s) 2); [exists b; repeat split; auto|].
  destruct (Z.leb_spec 0 s); [|lia]. destruct (Z.leb_spec e (zlen (info b))); [|lia]. cbn [andb negb].
  eexists. split; [reflexivity|]. cbn [info out idx have_out level with_info].
  assert (Ec : cls (zfirstn s (info b) ++ rev (slice s e (info b)) ++ zskipn e (info b)) = cls (info b)).
  { destruct (split3 (info b) s e H0 H1 H2) as (l1 & l2 & l3 & E & _ & _ & F & S & K & _).
    rewrite F, S, K. rewrite E. rewrite !cls_app, cls_rev. f_equal. f_equal. apply (rev_const v).
    rewrite <- S. unfold cls. apply Forall_forall. intros x Hx. apply in_map_iff in Hx. destruct Hx as (g & <- & Hg).
    rewrite Forall_forall in Hc. exact (Hc g Hg). }
  repeat split; auto. exact (cls_eq_zlen _ _ Ec).
Qed.

Lemma rev_short {A} (l : list A) : zlen l < 2 -> rev l = l.
Proof.
  destruct l as [|x [|y l]]; try reflexivity. rewrite !zlen_cons. pose proof (zlen_nonneg l). lia.
Qed.

Lemma reverse_whole b :
  exists b', reverse b = Ok b' /\ cls (info b') = rev (cls (info b)) /\ zlen (info b') = zlen (info b)
    /\ out b' = out b /\ idx b' = idx b /\ have_out b' = have_out b /\ level b' = level b.
Proof.
  unfold reverse, reverse_range. rewrite Z.sub_0_r. destruct (Z.ltb_spec (zlen (info b)) 2).
  - exists b. repeat split; auto. rewrite <- cls_rev, rev_short by assumption. reflexivity.
  - rewrite Z.leb_refl. cbn [andb negb Z.leb]. rewrite Z.leb_refl. cbn [negb]. eexists. split; [reflexivity|]. cbn [info out idx have_out level with_info].
    rewrite slice_whole, zfirstn_neg, zskipn_all, app_nil_r by lia. cbn [app].
    repeat split; auto; [apply cls_rev|apply zlen_rev].
Qed.

Lemma WF_reversed lo hi b b' : (level b =? 2) = false -> WF lo hi b = true -> have_out b = false ->
  level b' = level b -> have_out b' = false -> idx b' = idx b -> zlen (info b') = zlen (info b) ->
  cls (info b') = rev (cls (info b)) -> WF lo hi b' = true.
Proof.
  intros Hl Hw Hh Elv Hh' Ei El Ec. destruct (WF_parts lo hi b Hl Hw) as (I0 & I1 & Hm & Hr).
  rewrite (bseq_nohave b Hh) in Hm, Hr.
  apply WF_intro; [rewrite Elv; exact Hl|lia|lia| |]; rewrite (bseq_nohave b' Hh'), Ec.
  - apply monotone_rev. exact Hm.
  - apply in_range_rev. exact Hr.
Qed.

Lemma WF_same_info lo hi b b' : (level b =? 2) = false -> WF lo hi b = true -> have_out b = false ->
  level b' = level b -> have_out b' = false -> idx b' = idx b -> zlen (info b') = zlen (info b) ->
  cls (info b') = cls (info b) -> WF lo hi b' = true.
Proof.
  intros Hl Hw Hh Elv Hh' Ei El Ec. destruct (WF_parts lo hi b Hl Hw) as (I0 & I1 & _).
  apply (WF_same lo hi b); auto; try lia. rewrite (bseq_nohave b Hh), (bseq_nohave b' Hh'). exact Ec.
Qed.

Lemma reverse_range_wf lo hi b s e : (level b =? 2) = false -> WF lo hi b = true -> pre (ORevRange s e) b = true ->
  okwf lo hi b (reverse_range b s e).
Proof.
  intros Hl Hw Hp. cbn [pre] in Hp. pre_split Hp. apply negb_true_iff in Hp. apply Z.leb_le in Hp3, Hp2, Hp1.
  apply orb_prop in Hp0. destruct Hp0 as [Hwhole|Hconst].
  - apply andb_prop in Hwhole. destruct Hwhole as [Es Ee]. apply Z.eqb_eq in Es, Ee. subst s e.
    destruct (reverse_whole b) as (b' & E & Ec & El & _ & Ei & Eh & Elv). unfold reverse in E.
    exists b'. split; [exact E|]. split; [|exact Elv].
    apply (WF_reversed lo hi b); auto; congruence.
  - rewrite forallb_forall in Hconst.
    destruct (reverse_range_const b s e (cl (nth (Z.to_nat s) (info b) g0))) as (b' & E & Ec & El & _ & Ei & Eh & Elv); auto.
    { apply Forall_forall. intros g Hg. apply Z.eqb_eq. exact (Hconst g Hg). }
    exists b'. split; [exact E|]. split; [|exact Elv].
    apply (WF_same_info lo hi b); auto; congruence.
Qed.

Lemma reverse_wf lo hi b : (level b =? 2) = false -> WF lo hi b = true -> pre OReverse b = true ->
  okwf lo hi b (reverse b).
Proof.
  intros Hl Hw Hp. cbn [pre] in Hp. apply negb_true_iff in Hp.
  destruct (reverse_whole b) as (b' & E & Ec & El & _ & Ei & Eh & Elv).
  exists b'. split; [exact E|]. split; [|exact Elv]. apply (WF_reversed lo hi b); auto; congruence.
Qed.

(* a range described pointwise *)
Lemma Forall_slice_nth (P : glyph -> Prop) l e : forall m s, Z.to_nat (e - s) = m -> 0 <= s -> s <= e -> e <= zlen l ->
  (forall j, s <= j < e -> P (nth (Z.to_nat j) l g0)) -> Forall P (slice s e l).
Proof.
  induction m as [|m IH]; intros s Em H0 H1 H2 Hp.
  - unfold slice. rewrite zfirstn_neg by lia. constructor.
  - rewrite (slice_cons g0 s e l) by lia. constructor; [apply Hp; lia|]. apply IH; try lia. intros j Hj. apply Hp. lia.
Qed.

Lemma nth_cls l j : nth j (cls l) 0 = cl (nth j l g0).
Proof. unfold cls. change 0 with (cl g0). apply map_nth. Qed.

(* the loop of reverseGroups: cls stays L0, [start, i) is a block of one cluster value *)
Lemma rg_fold b0 L0 n : zlen L0 = n ->
  forall k a b start, cls (info b) = L0 -> out b = out b0 /\ idx b = idx b0 /\ have_out b = have_out b0 /\ level b = level b0 ->
    0 <= start -> start <= Z.of_nat a -> Z.of_nat a + Z.of_nat k + 1 <= n ->
    (forall j, start <= j < Z.of_nat a + 1 -> nth (Z.to_nat j) L0 0 = nth (Z.to_nat start) L0 0) ->
    exists b' start', fold_left rg_step (map (fun i => i + 1) (map Z.of_nat (seq a k))) (Ok (b, start)) = Ok (b', start')
      /\ cls (info b') = L0 /\ (out b' = out b0 /\ idx b' = idx b0 /\ have_out b' = have_out b0 /\ level b' = level b0)
      /\ 0 <= start' /\ start' <= Z.of_nat a + Z.of_nat k
      /\ (forall j, start' <= j < Z.of_nat a + Z.of_nat k + 1 -> nth (Z.to_nat j) L0 0 = nth (Z.to_nat start') L0 0).
Proof.
  intros Hn. induction k as [|k IH]; intros a b start Ec Es S0 S1 S2 Blk.
  - exists b, start. cbn [seq map fold_left]. repeat split; try tauto; try lia. intros j Hj. apply Blk. lia.
  - cbn [seq map fold_left]. unfold rg_step at 2. cbn [bind].
    replace (Z.of_nat a + 1 - 1) with (Z.of_nat a) by lia.
    rewrite <- !nth_cls, Ec.
    destruct (Z.eqb_spec (nth (Z.to_nat (Z.of_nat a)) L0 0) (nth (Z.to_nat (Z.of_nat a + 1)) L0 0)) as [Eq|Ne].
    + destruct (IH (S a) b start Ec Es S0) as (b' & st' & E & R); try lia.
      { intros j Hj. destruct (Z.eq_dec j (Z.of_nat a + 1)) as [->|N].
        - rewrite <- Eq. apply Blk. lia.
        - apply Blk. lia. }
      exists b', st'. split; [exact E|]. replace (Z.of_nat a + Z.of_nat (S k)) with (Z.of_nat (S a) + Z.of_nat k) by lia. exact R.
    + assert (El : zlen (info b) = n) by (rewrite <- Hn, <- Ec; symmetry; apply zlen_cls).
      destruct (reverse_range_const b start (Z.of_nat a + 1) (nth (Z.to_nat start) L0 0)) as (b1 & E1 & Ec1 & El1 & F1 & F2 & F3 & F4); try lia.
      { apply (Forall_slice_nth _ _ _ _ _ eq_refl); try lia. intros j Hj. rewrite <- nth_cls, Ec. apply Blk. lia. }
      rewrite E1. cbn [bind].
      destruct (IH (S a) b1 (Z.of_nat a + 1)) as (b' & st' & E & R); try lia.
      { rewrite Ec1. exact Ec. }
      { destruct Es as (Q1 & Q2 & Q3 & Q4). repeat split; congruence. }
      { intros j Hj. replace j with (Z.of_nat a + 1) by lia. reflexivity. }
      exists b', st'. split; [exact E|]. replace (Z.of_nat a + Z.of_nat (S k)) with (Z.of_nat (S a) + Z.of_nat k) by lia. exact R.
Qed.

Lemma reverse_clusters_spec b :
  exists b', reverse_clusters b = Ok b' /\ cls (info b') = rev (cls (info b)) /\ zlen (info b') = zlen (info b)
    /\ out b' = out b /\ idx b' = idx b /\ have_out b' = have_out b /\ level b' = level b.
Proof.
  unfold reverse_clusters. destruct (Z.eqb_spec (zlen (info b)) 0) as [Z0|NZ].
  - exists b. apply zlen_zero_nil in Z0. rewrite Z0. repeat split; auto.
  - pose proof (zlen_nonneg (info b)) as Hn.
    set (n := zlen (info b)) in *.
    destruct (rg_fold b (cls (info b)) n (zlen_cls _) (Z.to_nat (n - 1)) 0%nat b 0) as (b1 & st & E & Ec & Es & S0 & S1 & Blk); auto; try lia.
    { intros j Hj. replace j with 0 by lia. reflexivity. }
    unfold zseq. rewrite E. cbn [bind].
    assert (El1 : zlen (info b1) = n) by (unfold n; rewrite <- (zlen_cls (info b)), <- Ec; symmetry; apply zlen_cls).
    destruct (reverse_range_const b1 st n (nth (Z.to_nat st) (cls (info b)) 0)) as (b2 & E2 & Ec2 & El2 & F1 & F2 & F3 & F4); try lia.
    { apply (Forall_slice_nth _ _ _ _ _ eq_refl); try lia. intros j Hj. rewrite <- nth_cls, Ec. apply Blk. lia. }
    rewrite E2. cbn [bind].
    destruct (reverse_whole b2) as (b3 & E3 & Ec3 & El3 & G1 & G2 & G3 & G4).
    exists b3. split; [exact E3|]. destruct Es as (Q1 & Q2 & Q3 & Q4).
    repeat split; try congruence; try lia.
Qed.

Lemma reverse_clusters_wf lo hi b : (level b =? 2) = false -> WF lo hi b = true -> pre ORevClusters b = true ->
  okwf lo hi b (reverse_clusters b).
Proof.
  intros Hl Hw Hp. cbn [pre] in Hp. apply negb_true_iff in Hp.
  destruct (reverse_clusters_spec b) as (b' & E & Ec & El & _ & Ei & Eh & Elv).
  exists b'. split; [exact E|]. split; [|exact Elv]. apply (WF_reversed lo hi b); auto; congruence.
Qed.

(* ---------- the glyph-flag setters: clusters, lengths and the cursor are untouched ---------- *)

Definition keeps_cl (f : glyph -> glyph) : Prop := forall g, cl (f g) = cl g.

Lemma cls_map_keeps f l : keeps_cl f -> cls (map f l) = cls l.
Proof. intros K. unfold cls. rewrite map_map. apply map_ext. exact K. Qed.

Lemma cls_map_range f s e l : keeps_cl f -> 0 <= s -> s <= e -> e <= zlen l -> cls (map_range f s e l) = cls l.
Proof.
  intros K H0 H1 H2. destruct (map_range_view f s e l H0 H1 H2) as (l1 & l2 & l3 & E & _ & _ & _ & V).
  rewrite V. rewrite E at 1. rewrite !cls_app, cls_map_keeps by exact K. reflexivity.
Qed.

Lemma keeps_or_flags m : keeps_cl (or_flags m).
Proof. intros g. reflexivity. Qed.
Lemma keeps_cond c m : keeps_cl (fun g => if c =? cl g then g else or_flags m g).
Proof. intros g. destruct (c =? cl g); reflexivity. Qed.

Lemma run_ne_bound c l : 0 <= run_ne c l <= zlen l.
Proof.
  induction l as [|g r IH]; cbn [run_ne]; [cbn; lia|]. rewrite zlen_cons. destruct (cl g =? c); lia.
Qed.

Lemma zlen_slice {A} (l : list A) s e : 0 <= s -> s <= e -> e <= zlen l -> zlen (slice s e l) = e - s.
Proof. intros. unfold slice. rewrite zlen_zfirstn; [lia|]. rewrite zlen_zskipn by lia. lia. Qed.

Lemma or_range_ok m s e l : 0 <= s -> e <= zlen l -> exists l', or_range m s e l = Ok l' /\ cls l' = cls l.
Proof.
  intros H0 H1. unfold or_range. destruct (Z.leb_spec e s); [exists l; auto|].
  destruct (Z.leb_spec 0 s); [|lia]. destruct (Z.leb_spec e (zlen l)); [|lia]. cbn [andb].
  eexists. split; [reflexivity|]. apply cls_map_range; [apply keeps_or_flags|lia..].
Qed.

Lemma find_min_ok lv infos s e c : (lv =? 2) = false -> s = e \/ (0 <= s /\ s < e /\ e <= zlen infos) ->
  exists c', find_min_cluster lv infos s e c = Ok c'.
Proof.
  intros Hl H. unfold find_min_cluster. destruct (Z.eqb_spec s e); [eexists; reflexivity|].
  destruct H as [H|(H0 & H1 & H2)]; [contradiction|]. rewrite Hl, !getg_ok by lia. cbn [bind]. eexists. reflexivity.
Qed.

Lemma infos_set_ok lv infos s e c m : s = e \/ (0 <= s /\ s < e /\ e <= zlen infos) ->
  exists r, infos_set_glyph_flags lv infos s e c m = Ok r /\ cls (fst r) = cls infos.
Proof.
  intros H. unfold infos_set_glyph_flags. destruct (Z.eqb_spec s e); [eexists; split; reflexivity|].
  destruct H as [H|(H0 & H1 & H2)]; [contradiction|]. rewrite !getg_ok by lia. cbn [bind].
  destruct (Z.leb_spec e s); [lia|].
  pose proof (zlen_slice infos s e) as Ls.
  destruct ((lv =? 2) || (negb (c =? cl (nth (Z.to_nat s) infos g0)) && negb (c =? cl (nth (Z.to_nat (e - 1)) infos g0)))).
  - eexists. split; [reflexivity|]. cbn [fst]. apply cls_map_range; [apply keeps_cond|lia..].
  - destruct (c =? cl (nth (Z.to_nat s) infos g0)).
    + pose proof (run_ne_bound (cl (nth (Z.to_nat s) infos g0)) (rev (slice s e infos))) as B. rewrite zlen_rev, Ls in B by lia.
      eexists. split; [reflexivity|]. cbn [fst]. apply cls_map_range; [apply keeps_or_flags|lia..].
    + pose proof (run_ne_bound (cl (nth (Z.to_nat (e - 1)) infos g0)) (slice s e infos)) as B. rewrite Ls in B by lia.
      eexists. split; [reflexivity|]. cbn [fst]. apply cls_map_range; [apply keeps_or_flags|lia..].
Qed.

(* what a flag setter leaves alone *)
Definition same_cl (b b' : buffer) : Prop :=
  cls (info b') = cls (info b) /\ cls (out b') = cls (out b) /\ idx b' = idx b /\ have_out b' = have_out b /\ level b' = level b.

Lemma same_cl_refl b : same_cl b b.
Proof. repeat split. Qed.

Lemma WF_same_cl lo hi b b' : (level b =? 2) = false -> WF lo hi b = true -> same_cl b b' -> WF lo hi b' = true.
Proof.
  intros Hl Hw (E1 & E2 & E3 & E4 & E5). destruct (WF_parts lo hi b Hl Hw) as (I0 & I1 & _).
  apply (WF_same lo hi b); auto; try lia.
  - rewrite (cls_eq_zlen _ _ E1). lia.
  - unfold bseq. rewrite E4. destruct (have_out b); [|exact E1]. rewrite !cls_app, !cls_zskipn, E1, E2, E3. reflexivity.
Qed.

Lemma set_glyph_flags_ok b m s e0 i f : (level b =? 2) = false -> 0 <= idx b -> idx b <= zlen (info b) ->
  pre (OSetFlags m s e0 i f) b = true ->
  exists b', set_glyph_flags b m s e0 i f = Ok b' /\ same_cl b b'.
Proof.
  intros Hl I0 I1 Hp. cbn [pre] in Hp. apply andb_prop in Hp. destruct Hp as [H0 Hp]. apply Z.leb_le in H0.
  unfold set_glyph_flags. set (e := Z.min e0 (zlen (info b))).
  assert (He : e <= zlen (info b)) by (subst e; lia).
  destruct (i && negb f && (e - s <? 2)) eqn:Early; [exists b; split; [reflexivity|apply same_cl_refl]|].
  cbn [have_out with_gf info out level idx].
  destruct (negb f || negb (have_out b)) eqn:Branch.
  - destruct i; cbn [negb].
    + (* interior, in the buffer *)
      assert (Hs : s = e \/ (0 <= s /\ s < e /\ e <= zlen (info b))).
      { destruct f; cbn [negb andb orb] in *.
        - destruct (have_out b); [discriminate|]. cbn [negb orb] in Hp. apply Z.leb_le in Hp. fold e in Hp. lia.
        - destruct (Z.ltb_spec (e - s) 2); [discriminate|]. lia. }
      destruct (find_min_ok (level b) (info b) s e max_int Hl Hs) as (c & Ec). rewrite Ec. cbn [bind].
      destruct (infos_set_ok (level b) (info b) s e c m Hs) as (r & Er & Cr). rewrite Er. cbn [bind].
      eexists. split; [reflexivity|]. repeat split; cbn; auto.
    + destruct (or_range_ok m s e (info b) H0 He) as (l' & El & Cl). rewrite El. cbn [bind].
      eexists. split; [reflexivity|]. repeat split; cbn; auto.
  - apply orb_false_iff in Branch. destruct Branch as [Bf Bh]. apply negb_false_iff in Bf, Bh. subst f. rewrite Bh in Hp.
    apply andb_prop in Hp. destruct Hp as [Hs Hi]. apply Z.leb_le in Hs, Hi.
    assert (Hie : idx b <= e) by (subst e; lia).
    destruct i; cbn [negb].
    + assert (H1 : idx b = e \/ (0 <= idx b /\ idx b < e /\ e <= zlen (info b))) by lia.
      assert (H2 : s = zlen (out b) \/ (0 <= s /\ s < zlen (out b) /\ zlen (out b) <= zlen (out b))) by lia.
      destruct (find_min_ok (level b) (info b) (idx b) e max_int Hl H1) as (c1 & Ec1). rewrite Ec1. cbn [bind].
      destruct (find_min_ok (level b) (out b) s (zlen (out b)) c1 Hl H2) as (c & Ec). rewrite Ec. cbn [bind].
      destruct (infos_set_ok (level b) (out b) s (zlen (out b)) c m H2) as (ro & Ero & Cro). rewrite Ero. cbn [bind].
      destruct (infos_set_ok (level b) (info b) (idx b) e c m H1) as (ri & Eri & Cri). rewrite Eri. cbn [bind].
      eexists. split; [reflexivity|]. repeat split; cbn; auto.
    + destruct (or_range_ok m s (zlen (out b)) (out b) H0 (Z.le_refl _)) as (o' & Eo & Co). rewrite Eo. cbn [bind].
      destruct (or_range_ok m (idx b) e (info b) I0 He) as (i' & Ei & Ci). rewrite Ei. cbn [bind].
      eexists. split; [reflexivity|]. repeat split; cbn; auto.
Qed.

Lemma flag_setter_wf lo hi b r : (level b =? 2) = false -> WF lo hi b = true ->
  (exists b', r = Ok b' /\ same_cl b b') -> okwf lo hi b r.
Proof.
  intros Hl Hw (b' & E & S). exists b'. split; [exact E|]. split; [exact (WF_same_cl lo hi b b' Hl Hw S)|].
  destruct S as (_ & _ & _ & _ & L). exact L.
Qed.

Lemma flag_ops_same_cl o b : (level b =? 2) = false -> 0 <= idx b -> idx b <= zlen (info b) -> pre o b = true ->
  match o with
  | OSetFlags _ _ _ _ _ | OUnsafeBreak _ _ | OUnsafeConcat _ _ | OTatweel _ _ | OUnsafeBreakOut _ _ | OUnsafeConcatOut _ _ =>
      exists b', run_op o b = Ok b' /\ same_cl b b'
  | _ => True
  end.
Proof.
  intros Hl I0 I1 Hp. destruct o; try exact I; cbn [run_op].
  - apply set_glyph_flags_ok; assumption.
  - unfold unsafe_to_break. apply set_glyph_flags_ok; auto. cbn [pre] in *. rewrite Hp. reflexivity.
  - unfold unsafe_to_concat. destruct (negb (fl_concat b)); [exists b; split; [reflexivity|apply same_cl_refl]|].
    apply set_glyph_flags_ok; auto. cbn [pre] in *. rewrite Hp. reflexivity.
  - unfold safe_to_insert_tatweel, unsafe_to_break. destruct (negb (fl_tatweel b));
      (apply set_glyph_flags_ok; auto; cbn [pre] in *; rewrite Hp; reflexivity).
  - unfold unsafe_to_break_from_outbuffer. apply set_glyph_flags_ok; auto.
  - unfold unsafe_to_concat_from_outbuffer. destruct (negb (fl_concat b)); [exists b; split; [reflexivity|apply same_cl_refl]|].
    apply set_glyph_flags_ok; auto.
Qed.

(* ---------- mergeOutClusters ---------- *)

Lemma zlen_map_range f s e l : 0 <= s -> s <= e -> e <= zlen l -> zlen (map_range f s e l) = zlen l.
Proof.
  intros H0 H1 H2. destruct (map_range_view f s e l H0 H1 H2) as (l1 & l2 & l3 & E & _ & _ & _ & V).
  rewrite V. rewrite E at 1. rewrite !zlen_app, zlen_map. reflexivity.
Qed.

Lemma merge_out_clusters_wf lo hi b s e : (level b =? 2) = false -> WF lo hi b = true -> pre (OMergeOut s e) b = true ->
  okwf lo hi b (merge_out_clusters b s e).
Proof.
  intros Hl Hw Hp. destruct (WF_parts lo hi b Hl Hw) as (I0 & I1 & _).
  cbn [pre] in Hp. pre_split Hp. rename Hp into Hh. apply Z.leb_le in Hp0, Hp1, Hp2.
  unfold merge_out_clusters. rewrite Hl.
  destruct (Z.ltb_spec (e - s) 2) as [Hsmall|Hbig]; [exists b; auto|].
  destruct (Z.leb_spec 0 s); [|lia]. destruct (Z.leb_spec e (zlen (out b))); [|lia]. cbn [andb negb].
  set (o := out b) in *.
  set (c := min_cl (cl (nth (Z.to_nat s) o g0)) (slice (s + 1) e o)).
  set (s' := s - run_eq (cl (nth (Z.to_nat s) o g0)) (rev (zfirstn s o))).
  set (e' := e + run_eq (cl (nth (Z.to_nat (e - 1)) o g0)) (zskipn e o)).
  assert (Hs' : 0 <= s' /\ s' <= s).
  { pose proof (run_eq_bound (cl (nth (Z.to_nat s) o g0)) (rev (zfirstn s o))) as B. rewrite zlen_rev, zlen_zfirstn in B by lia. subst s'. lia. }
  assert (He' : e <= e' /\ e' <= zlen o).
  { pose proof (run_eq_bound (cl (nth (Z.to_nat (e - 1)) o g0)) (zskipn e o)) as B. rewrite zlen_zskipn in B by lia. subst e'. lia. }
  assert (Hc : In c (cls (slice s e o))).
  { rewrite (slice_cons g0 s e o) by lia. destruct (min_cl_spec (cl (nth (Z.to_nat s) o g0)) (slice (s + 1) e o)) as (A1 & _ & _).
    fold c in A1. destruct A1 as [->|A1]; [left; reflexivity|right; exact A1]. }
  destruct (map_range_view (set_cluster c fl0) s' e' o) as (o1 & o2 & o3 & EO & LO1 & LO2 & SO & VO); try lia.
  assert (Hc2 : In c (cls o2)).
  { rewrite <- SO. unfold cls in *. apply in_map_iff in Hc. destruct Hc as (g & Eg & Hg). apply in_map_iff. exists g.
    split; [exact Eg|]. apply (slice_incl o s' s e e'); auto; lia. }
  assert (Eb : bseq b = o1 ++ o2 ++ o3 ++ zskipn (idx b) (info b)).
  { rewrite bseq_have by exact Hh. fold o. rewrite EO at 1. rewrite <- !app_assoc. reflexivity. }
  destruct (Z.eqb_spec e' (zlen o)) as [Eend|Nend].
  - destruct (Z.ltb_spec (idx b) 0); [lia|].
    set (endC := cl (nth (Z.to_nat (e' - 1)) o g0)).
    pose proof (run_eq_bound endC (zskipn (idx b) (info b))) as Bk. rewrite zlen_zskipn in Bk by lia.
    set (k := run_eq endC (zskipn (idx b) (info b))) in *.
    destruct (map_range_view (set_cluster c fl0) (idx b) (idx b + k) (info b)) as (i1 & i2 & i3 & EI & LI1 & LI2 & SI & VI); try lia.
    assert (o3 = []). { apply zlen_zero_nil. pose proof (f_equal zlen EO) as Z. rewrite !zlen_app in Z. lia. }
    subst o3.
    eexists. split; [reflexivity|]. split; [|reflexivity].
    apply (WF_ss lo hi b); auto; cbn [idx info out with_info with_out level]; try lia.
    { rewrite zlen_map_range by lia. lia. }
    rewrite Eb. rewrite (bseq_have (with_out _ _)) by (cbn; exact Hh). cbn [idx info out with_info with_out].
    rewrite VO, VI. rewrite EI at 1. rewrite <- LI1 at 1 2. rewrite !zskipn_app_exact.
    rewrite !app_nil_l, <- !app_assoc, !cls_app, !cls_set_cluster. cbn [app].
    change (cls []) with (@nil Z). cbn [app]. rewrite (app_assoc (cls o2)), (app_assoc (map _ o2)).
    apply (ss_block _ _ _ _ c); [apply in_or_app; left; exact Hc2|].
    apply Forall_app_intro; apply Forall_const_map.
  - eexists. split; [reflexivity|]. split; [|reflexivity].
    apply (WF_ss lo hi b); auto; cbn [idx info out with_out level]; try lia.
    rewrite Eb. rewrite (bseq_have (with_out _ _)) by (cbn; exact Hh). cbn [idx info out with_out].
    rewrite VO, <- !app_assoc, !cls_app, cls_set_cluster.
    apply (ss_block _ _ _ _ c); [exact Hc2|apply Forall_const_map].
Qed.

(* ---------- propagateFlags ---------- *)

Lemma propagate_level b b' : propagate_flags b = Ok b' -> level b' = level b.
Proof.
  unfold propagate_flags. destruct (negb (has_gf b)); [intros H; inversion H; reflexivity|].
  destruct (pf_loop _ _ _ _); cbn [bind]; intros H; inversion H. reflexivity.
Qed.

Lemma propagate_wf lo hi b : (level b =? 2) = false -> WF lo hi b = true -> pre OPropagate b = true ->
  okwf lo hi b (propagate_flags b).
Proof.
  intros Hl Hw Hp. cbn [pre] in Hp. apply negb_true_iff in Hp.
  destruct (WF_parts lo hi b Hl Hw) as (_ & _ & Hm & _). rewrite (bseq_nohave b Hp) in Hm.
  destruct (propagate_flags_uniform b) as (b' & E & Ec & Eo & Ei & Eh & _); [rewrite Hl; reflexivity|exact Hm|].
  pose proof (propagate_level b b' E) as Elv.
  exists b'. split; [exact E|]. split; [|exact Elv].
  apply (WF_same_cl lo hi b); auto. repeat split; auto. rewrite Eo. reflexivity.
Qed.

(* ---------- deleteGlyphsInplace ---------- *)

Lemma zskipn_zskipn {A} a b (l : list A) : 0 <= a -> 0 <= b -> zskipn a (zskipn b l) = zskipn (b + a) l.
Proof. intros. unfold zskipn. rewrite skipn_skipn'. f_equal. lia. Qed.

Lemma zskipn_map {A B} (f : A -> B) i l : zskipn i (map f l) = map f (zskipn i l).
Proof. unfold zskipn. apply skipn_map. Qed.

Lemma zskipn_map_range f s e p l : 0 <= s -> s <= p -> p <= e -> e <= zlen l ->
  zskipn p (map_range f s e l) = map f (slice p e l) ++ zskipn e l.
Proof.
  intros H0 H1 H2 H3. unfold map_range.
  rewrite zskipn_app_ge by (rewrite zlen_zfirstn; lia). rewrite zlen_zfirstn by lia.
  rewrite zskipn_app_lt by (rewrite zlen_map, zlen_slice; lia).
  rewrite zskipn_map. f_equal. f_equal.
  rewrite (slice_split l s p e) by lia.
  rewrite <- (zlen_slice l s p) at 1 by lia. apply zskipn_app_exact.
Qed.

Definition dgi_inv (lo hi : Z) (rtl : bool) (n lv : Z) (st : buffer * Z) (i : Z) : Prop :=
  let '(b, j) := st in
  zlen (info b) = n /\ have_out b = false /\ idx b = 0 /\ level b = lv /\ 0 <= j /\ j <= i
  /\ mono rtl (cls (zfirstn j (info b) ++ zskipn i (info b))) = true
  /\ in_range lo hi (cls (zfirstn j (info b) ++ zskipn i (info b))) = true.

Lemma dgi_step_ok lo hi rtl n lv filt b j i : (lv =? 2) = false -> dgi_inv lo hi rtl n lv (b, j) i -> 0 <= i -> i < n ->
  exists st', dgi_step filt n (Ok (b, j)) i = Ok st' /\ dgi_inv lo hi rtl n lv st' (i + 1).
Proof.
  intros Hlv (Ln & Hh & Hi & Elv & J0 & J1 & Hm & Hr) I0 I1.
  unfold dgi_step. cbn [bind]. set (inf := info b) in *. set (g := nth (Z.to_nat i) inf g0).
  assert (EV : zfirstn j inf ++ zskipn i inf = zfirstn j inf ++ g :: zskipn (i + 1) inf).
  { rewrite (zskipn_cons inf i) by lia. reflexivity. }
  rewrite EV in Hm, Hr.
  (* closing a case: the new state, with the new virtual sequence a stutter-subsequence of the old one *)
  assert (Done : forall b' j', zlen (info b') = n -> have_out b' = false -> idx b' = 0 -> level b' = lv -> 0 <= j' -> j' <= i + 1 ->
            ss (cls (zfirstn j inf ++ g :: zskipn (i + 1) inf)) (cls (zfirstn j' (info b') ++ zskipn (i + 1) (info b'))) ->
            exists st', Ok (b', j') = Ok st' /\ dgi_inv lo hi rtl n lv st' (i + 1)).
  { intros b' j' A1 A2 A3 A4 A5 A6 S. exists (b', j'). split; [reflexivity|]. unfold dgi_inv.
    repeat split; auto; [exact (ss_mono _ _ _ S Hm)|exact (ss_in_range _ _ _ _ S Hr)]. }
  assert (Drop : exists st', Ok (b, j) = Ok st' /\ dgi_inv lo hi rtl n lv st' (i + 1)).
  { apply Done; auto; try lia. fold inf. rewrite !cls_app. change (cls (g :: zskipn (i + 1) inf)) with ([cl g] ++ cls (zskipn (i + 1) inf)).
    apply ss_remove. }
  destruct (filt g).
  - destruct ((i + 1 <? n) && (cl g =? cl (nth (Z.to_nat (i + 1)) inf g0))); [exact Drop|].
    destruct (Z.eqb_spec j 0) as [J00|JN]; cbn [negb].
    + destruct (Z.ltb_spec (i + 1) n) as [Hnext|Hlast]; [|exact Drop].
      assert (Hlb : (level b =? 2) = false) by (rewrite Elv; exact Hlv). assert (Ln2 : zlen (info b) = n) by exact Ln.
      destruct (merge_clusters_view b i (i + 2) Hlb) as (s' & e' & k & c & A1 & A2 & A3 & A4 & A5 & A6 & A7 & A8 & A9 & A10 & A11 & E); try lia.
      rewrite E. cbn [bind]. fold inf in A5, A9, E |- *.
      apply Done; cbn [info have_out idx level with_info with_out]; auto; try lia.
      { rewrite zlen_map_range by lia. exact Ln. }
      subst j. rewrite !zfirstn_neg by lia. cbn [app].
      rewrite zskipn_map_range by lia.
      unfold g. rewrite <- (zskipn_cons inf i) by lia.
      rewrite (zskipn_slice inf i (e' - i)) by lia. replace (i + (e' - i)) with e' by lia.
      rewrite !cls_app, cls_set_cluster.
      rewrite <- (app_nil_l (cls (slice i e' inf) ++ _)). rewrite <- (app_nil_l (map _ _ ++ _)).
      apply (ss_block _ _ _ _ c); [|apply Forall_const_map].
      unfold cls in *. apply in_map_iff in A9. destruct A9 as (x & Ex & Hx). apply in_map_iff. exists x. split; [exact Ex|].
      apply (slice_incl inf i i (i + 2) e'); auto; lia.
    + destruct (Z.ltb_spec (cl g) (cl (nth (Z.to_nat (j - 1)) inf g0))); [|exact Drop].
      set (oldC := cl (nth (Z.to_nat (j - 1)) inf g0)).
      pose proof (run_eq_bound oldC (rev (zfirstn j inf))) as Bk. rewrite zlen_rev, zlen_zfirstn in Bk by lia.
      set (k := run_eq oldC (rev (zfirstn j inf))) in *.
      destruct (map_range_view (set_cluster (cl g) (gf g)) (j - k) j inf) as (l1 & l2 & l3 & EI & L1 & L2 & _ & V); try lia.
      assert (L12 : zlen (l1 ++ l2) = j) by (rewrite zlen_app; lia).
      assert (L12' : zlen (l1 ++ map (set_cluster (cl g) (gf g)) l2) = j) by (rewrite zlen_app, zlen_map; lia).
      apply Done; cbn [info have_out idx level with_info]; auto; try lia.
      { rewrite zlen_map_range by lia. exact Ln. }
      rewrite V. rewrite EI.
      rewrite (app_assoc l1 l2 l3), (app_assoc l1 (map _ l2) l3).
      assert (F1 : zfirstn j ((l1 ++ l2) ++ l3) = l1 ++ l2) by (rewrite <- L12; apply zfirstn_app_exact).
      assert (F2 : zfirstn j ((l1 ++ map (set_cluster (cl g) (gf g)) l2) ++ l3) = l1 ++ map (set_cluster (cl g) (gf g)) l2)
        by (rewrite <- L12'; apply zfirstn_app_exact).
      rewrite F1, F2.
      rewrite !zskipn_app_ge by lia. rewrite L12, L12'.
      rewrite <- !app_assoc, !cls_app, cls_set_cluster.
      change (cls (g :: zskipn (i + 1 - j) l3)) with ([cl g] ++ cls (zskipn (i + 1 - j) l3)). rewrite (app_assoc (cls l2)).
      apply (ss_block _ _ _ _ (cl g)); [apply in_or_app; right; left; reflexivity|apply Forall_const_map].
  - destruct (Z.eqb_spec j i) as [Eji|Nji].
    + apply Done; auto; try lia. fold inf. subst j. rewrite <- EV, !zfirstn_zskipn. apply ss_refl.
    + assert (Lf : zlen (zfirstn j inf ++ [g]) = j + 1) by (rewrite zlen_app, zlen_zfirstn, zlen_cons, zlen_nil; lia).
      apply Done; cbn [info have_out idx level with_info]; auto; try lia.
      { rewrite !zlen_app, zlen_zfirstn, zlen_zskipn, zlen_cons, zlen_nil by lia. lia. }
      rewrite (app_assoc (zfirstn j inf) [g]).
      rewrite <- Lf at 1. rewrite zfirstn_app_exact. rewrite zskipn_app_ge by lia. rewrite Lf.
      rewrite zskipn_zskipn by lia. replace (j + 1 + (i + 1 - (j + 1))) with (i + 1) by lia.
      rewrite <- app_assoc. apply ss_refl.
Qed.

Lemma dgi_fold lo hi rtl n lv filt : (lv =? 2) = false -> forall k a st, dgi_inv lo hi rtl n lv st (Z.of_nat a) -> Z.of_nat a + Z.of_nat k <= n ->
  exists st', fold_left (dgi_step filt n) (map Z.of_nat (seq a k)) (Ok st) = Ok st' /\ dgi_inv lo hi rtl n lv st' (Z.of_nat a + Z.of_nat k).
Proof.
  intros Hlv. induction k as [|k IH]; intros a st Inv Hb.
  - exists st. split; [reflexivity|]. rewrite Z.add_0_r. exact Inv.
  - cbn [seq map fold_left]. destruct st as [b j].
    destruct (dgi_step_ok lo hi rtl n lv filt b j (Z.of_nat a) Hlv Inv) as (st1 & E1 & Inv1); try lia.
    rewrite E1. replace (Z.of_nat a + 1) with (Z.of_nat (S a)) in Inv1 by lia.
    destruct (IH (S a) st1 Inv1) as (st' & E & Inv'); [lia|].
    exists st'. split; [exact E|]. replace (Z.of_nat a + Z.of_nat (S k)) with (Z.of_nat (S a) + Z.of_nat k) by lia. exact Inv'.
Qed.

Lemma delete_glyphs_inplace_wf lo hi filt b : (level b =? 2) = false -> WF lo hi b = true ->
  negb (have_out b) && (idx b =? 0) = true -> okwf lo hi b (delete_glyphs_inplace filt b).
Proof.
  intros Hl Hw Hp. apply andb_prop in Hp. destruct Hp as [Hh Hi]. apply negb_true_iff in Hh. apply Z.eqb_eq in Hi.
  destruct (WF_parts lo hi b Hl Hw) as (_ & _ & Hm & Hr). rewrite (bseq_nohave b Hh) in Hm, Hr.
  unfold monotone in Hm. apply orb_prop in Hm.
  assert (exists rtl, mono rtl (cls (info b)) = true) as [rtl Hrtl] by (destruct Hm; [exists false|exists true]; assumption).
  unfold delete_glyphs_inplace. set (n := zlen (info b)). pose proof (zlen_nonneg (info b)) as Hn. fold n in Hn.
  destruct (dgi_fold lo hi rtl n (level b) filt Hl (Z.to_nat n) 0%nat (b, 0)) as ([b' j] & E & Inv); try lia.
  { unfold dgi_inv. rewrite zfirstn_neg, zskipn_0 by lia. cbn [app]. repeat split; auto; lia. }
  unfold zseq. rewrite E. cbn [bind].
  destruct Inv as (Ln & Hh' & Hi' & Elv & J0 & J1 & Hm' & Hr').
  replace (Z.of_nat 0 + Z.of_nat (Z.to_nat n)) with n in * by lia.
  rewrite zskipn_all, app_nil_r in Hm', Hr' by lia.
  eexists. split; [reflexivity|]. split; [|exact Elv].
  apply WF_intro; cbn [level idx info with_pos with_info]; try lia.
  - rewrite zlen_zfirstn by lia. lia.
  - rewrite bseq_nohave by (cbn; exact Hh'). cbn [info with_pos with_info]. unfold monotone. destruct rtl; rewrite Hm'; auto using orb_true_r.
  - rewrite bseq_nohave by (cbn; exact Hh'). cbn [info with_pos with_info]. exact Hr'.
Qed.

(* ---------- C18: what setCluster does to the glyph flags in merges and deletions ---------- *)

(* g' is g, or g moved to cluster c with its three glyph flags REPLACED by m (setCluster(c, m) on a glyph of another cluster) *)
Definition mrel (c : Z) (m : fl) (g g' : glyph) : Prop := g' = g \/ g' = set_cluster c m g.

Lemma mrel_same_cluster c m g g' : mrel c m g g' -> cl g' = cl g -> g' = g.
Proof.
  intros [H|H] E; [exact H|]. subst g'. unfold set_cluster in *. destruct (Z.eqb_spec (cl g) c); [reflexivity|].
  cbn [cl] in E. congruence.
Qed.

Lemma mrel_of_min c m g g' : mrel c m g g' -> cl g = c -> g' = g.
Proof. intros [H|H] E; [exact H|]. subst g'. unfold set_cluster. rewrite E, Z.eqb_refl. reflexivity. Qed.

Lemma mrel_moved c m g g' : mrel c m g g' -> cl g' <> cl g -> cl g' = c /\ gf g' = m.
Proof.
  intros [H|H] N; [subst; contradiction|]. subst g'. unfold set_cluster in *. destruct (Z.eqb_spec (cl g) c); [contradiction|].
  split; reflexivity.
Qed.

Lemma Forall2_refl {A} (R : A -> A -> Prop) l : (forall x, R x x) -> Forall2 R l l.
Proof. intros H. induction l; constructor; auto. Qed.

Lemma Forall2_map_r {A} (R : A -> A -> Prop) f l : (forall x, R x (f x)) -> Forall2 R l (map f l).
Proof. intros H. induction l; constructor; auto. Qed.

Lemma Forall2_map_range (R : glyph -> glyph -> Prop) f s e l : (forall x, R x x) -> (forall x, R x (f x)) ->
  0 <= s -> s <= e -> e <= zlen l -> Forall2 R l (map_range f s e l).
Proof.
  intros Hr Hf H0 H1 H2. destruct (map_range_view f s e l H0 H1 H2) as (l1 & l2 & l3 & E & _ & _ & _ & V).
  rewrite V. rewrite E at 1. apply Forall2_app; [apply Forall2_refl; exact Hr|].
  apply Forall2_app; [apply Forall2_map_r; exact Hf|apply Forall2_refl; exact Hr].
Qed.

Lemma Forall2_in_l {A} (R : A -> A -> Prop) l l' x : Forall2 R l l' -> In x l -> exists y, In y l' /\ R x y.
Proof.
  induction 1 as [|a b l l' Hab _ IH]; intros Hx; [destruct Hx|].
  destruct Hx as [<-|Hx]; [exists b; split; [left; reflexivity|exact Hab]|].
  destruct (IH Hx) as (y & Hy & Ry). exists y. split; [right; exact Hy|exact Ry].
Qed.

Lemma mrel_refl c m g : mrel c m g g.
Proof. left. reflexivity. Qed.
Lemma mrel_set c m g : mrel c m g (set_cluster c m g).
Proof. right. reflexivity. Qed.

(* mergeClusters(s, e): glyph by glyph, in Info and in the out-buffer, a glyph either is untouched or moves to the
   minimum cluster c of the range with its glyph flags cleared; bsfHasGlyphFlags is not touched *)
Lemma merge_flag_transfer b s e : (level b =? 2) = false -> 0 <= idx b -> 0 <= s -> s + 2 <= e -> e <= zlen (info b) ->
  exists b', merge_clusters b s e = Ok b'
    /\ Forall2 (mrel (lmin (cls (slice s e (info b)))) fl0) (info b) (info b')
    /\ Forall2 (mrel (lmin (cls (slice s e (info b)))) fl0) (out b) (out b')
    /\ has_gf b' = has_gf b.
Proof.
  intros Hl Hi H0 H1 H2.
  destruct (merge_clusters_view b s e Hl Hi H0 H1 H2) as (s' & e' & k & c & A1 & A2 & A3 & A4 & A5 & A6 & A7 & A8 & A9 & A10 & A11 & E).
  rewrite E. eexists. split; [reflexivity|]. cbn [info out has_gf with_info with_out].
  rewrite (lmin_char c _ A9 A10).
  split; [|split; [|reflexivity]].
  - apply Forall2_map_range; [apply mrel_refl|apply mrel_set|lia..].
  - unfold set_cluster_last. apply Forall2_map_range; [apply mrel_refl|apply mrel_set|lia..].
Qed.

(* propagateFlags never drops an unsafe-to-break flag: the cluster of a flagged glyph is flagged as a whole *)
Lemma fold_or_utb : forall run acc, (utb acc = true \/ exists g, In g run /\ utb (gf g) = true) ->
  utb (fold_left (fun a g => fl_or a (gf g)) run acc) = true.
Proof.
  induction run as [|x run IH]; intros acc H; cbn [fold_left].
  - destruct H as [H|(g & [] & _)]. exact H.
  - apply IH. destruct H as [H|(g & [<-|Hg] & Hu)].
    + left. cbn. rewrite H. reflexivity.
    + left. cbn. rewrite Hu. apply orb_true_r.
    + right. exists g. auto.
Qed.

Lemma cluster_mask_utb flip clear run g : In g run -> utb (gf g) = true -> utb (cluster_mask flip clear run) = true.
Proof.
  intros Hg Hu. unfold cluster_mask.
  assert (H : utb (fold_left (fun a g => fl_or a (gf g)) run fl0) = true) by (apply fold_or_utb; right; exists g; auto).
  destruct (fold_left (fun a g => fl_or a (gf g)) run fl0) as [u c t]. cbn in H. subst u.
  destruct flip, clear, t; reflexivity.
Qed.

Lemma pf_loop_cls flip clear : forall fuel l l', pf_loop fuel flip clear l = Ok l' -> cls l' = cls l.
Proof.
  induction fuel as [|f IH]; intros l l' E.
  - destruct l; [injection E as <-; reflexivity|discriminate E].
  - destruct l as [|x r]; [injection E as <-; reflexivity|]. cbn [pf_loop] in E.
    pose proof (span_eq_spec (cl x) r) as S. destruct (span_eq (cl x) r) as [a z]. destruct S as (Er & _).
    destruct (pf_loop f flip clear z) as [z'| | |] eqn:Ez'; cbn [bind] in E; try discriminate E.
    injection E as <-. rewrite Er. cbn [cls map app cl]. f_equal. fold (cls (a ++ z)).
    change (map cl (map (fun x0 => mkGX (cl x0) (cluster_mask flip clear (x :: a)) 0 (cp x0) (gid x0) (up x0) (gp x0)) a ++ z'))
      with (cls (map (fun x0 => mkGX (cl x0) (cluster_mask flip clear (x :: a)) 0 (cp x0) (gid x0) (up x0) (gp x0)) a ++ z')).
    rewrite !cls_app, (IH _ _ Ez'). f_equal. unfold cls. rewrite map_map. reflexivity.
Qed.

Lemma pf_loop_utb rtl flip clear : forall fuel l l', mono rtl (cls l) = true -> pf_loop fuel flip clear l = Ok l' ->
  forall g, In g l -> utb (gf g) = true -> forall h, In h l' -> cl h = cl g -> utb (gf h) = true.
Proof.
  induction fuel as [|f IH]; intros l l' Hm E g Hg Hu h Hh Hc.
  - destruct l; [destruct Hg|discriminate E].
  - destruct l as [|x r]; [destruct Hg|]. cbn [pf_loop] in E.
    pose proof (span_eq_spec (cl x) r) as S. destruct (span_eq (cl x) r) as [a z]. destruct S as (Er & Ha & Ez & _).
    cbn [cls map] in Hm. destruct (dropeq_sorted rtl (cl x) (cls r) Hm) as [Hmz Hstrict]. rewrite <- Ez in Hmz, Hstrict.
    destruct (pf_loop f flip clear z) as [z'| | |] eqn:Ez'; cbn [bind] in E; try discriminate E.
    assert (El' : l' = map (fun y => mkGX (cl y) (cluster_mask flip clear (x :: a)) 0 (cp y) (gid y) (up y) (gp y)) (x :: a) ++ z') by (injection E as <-; reflexivity).
    clear E. subst l'.
    assert (Hblk : forall y, In y (x :: a) -> cl y = cl x).
    { intros y [<-|Hy]; [reflexivity|]. rewrite Forall_forall in Ha. exact (Ha y Hy). }
    assert (Hzs : forall y, In y z -> cl y <> cl x).
    { intros y Hy. rewrite Forall_forall in Hstrict. specialize (Hstrict _ (in_cls y z Hy)). unfold dirlt in Hstrict. destruct rtl; lia. }
    assert (Hcz : cls z' = cls z) by exact (pf_loop_cls _ _ _ _ _ Ez').
    assert (Hg' : In g (x :: a) \/ In g z).
    { destruct Hg as [<-|Hg]; [left; left; reflexivity|]. rewrite Er in Hg. apply in_app_or in Hg. destruct Hg; [left; right; assumption|right; assumption]. }
    apply in_app_or in Hh. destruct Hh as [Hh|Hh].
    + apply in_map_iff in Hh. destruct Hh as (y & <- & Hy). cbn [gf cl] in *.
      destruct Hg' as [Hg'|Hg'].
      * exact (cluster_mask_utb flip clear (x :: a) g Hg' Hu).
      * exfalso. apply (Hzs g Hg'). rewrite <- Hc. apply Hblk. exact Hy.
    + destruct Hg' as [Hg'|Hg'].
      * exfalso. assert (In (cl h) (cls z)) by (rewrite <- Hcz; apply in_cls; exact Hh).
        unfold cls in H. apply in_map_iff in H. destruct H as (y & Ey & Hy). apply (Hzs y Hy). rewrite Ey, Hc. apply Hblk. exact Hg'.
      * exact (IH z z' Hmz Ez' g Hg' Hu h Hh Hc).
Qed.

Lemma propagate_keeps_unsafe b b' : (level b =? 2) = false -> monotone (cls (info b)) = true -> has_gf b = true ->
  propagate_flags b = Ok b' ->
  forall g, In g (info b) -> utb (gf g) = true -> forall h, In h (info b') -> cl h = cl g -> utb (gf h) = true.
Proof.
  intros Hl Hm Hg E. unfold propagate_flags in E. rewrite Hg in E. cbn [negb] in E.
  destruct (pf_loop _ _ _ _) as [l'| | |] eqn:El; cbn [bind] in E; try discriminate E. injection E as <-. cbn [info with_info].
  unfold monotone in Hm. apply orb_prop in Hm.
  destruct Hm as [Hm|Hm]; eapply pf_loop_utb; eassumption.
Qed.

(* mergeClusters then propagateFlags: the merged cluster c = min of the range keeps an unsafe-to-break flag it had *)
Lemma merge_preserves_unsafe_lemma lo hi b s e : (level b =? 2) = false -> WF lo hi b = true -> have_out b = false ->
  has_gf b = true -> 0 <= s -> s + 2 <= e -> e <= zlen (info b) ->
  exists b1 b2, merge_clusters b s e = Ok b1 /\ propagate_flags b1 = Ok b2
    /\ Forall2 (mrel (lmin (cls (slice s e (info b)))) fl0) (info b) (info b1)
    /\ cls (info b2) = cls (info b1)
    /\ (forall g, In g (info b) -> cl g = lmin (cls (slice s e (info b))) -> utb (gf g) = true ->
        forall h, In h (info b2) -> cl h = cl g -> utb (gf h) = true).
Proof.
  intros Hl Hw Hh Hg H0 H1 H2. destruct (WF_parts lo hi b Hl Hw) as (I0 & I1 & _).
  destruct (merge_flag_transfer b s e Hl I0 H0 H1 H2) as (b1 & E1 & F1 & _ & G1).
  assert (Pm : pre (OMerge s e) b = true).
  { cbn [pre]. rewrite Hh. destruct (Z.leb_spec 0 s); [|lia]. destruct (Z.leb_spec s e); [|lia].
    destruct (Z.leb_spec e (zlen (info b))); [|lia]. reflexivity. }
  destruct (merge_full lo hi b s e Hl Hw Pm) as (b1' & E1' & W1 & L1 & _ & Hh1 & _).
  rewrite E1 in E1'. injection E1' as <-.
  assert (Hl1 : (level b1 =? 2) = false) by (rewrite L1; exact Hl).
  destruct (WF_parts lo hi b1 Hl1 W1) as (_ & _ & Hm1 & _). rewrite bseq_nohave in Hm1 by congruence.
  destruct (propagate_flags_uniform b1) as (b2 & E2 & Ec2 & _); [rewrite Hl1; reflexivity|exact Hm1|].
  exists b1, b2. split; [exact E1|]. split; [exact E2|]. split; [exact F1|]. split; [exact Ec2|].
  intros g Hgin Hc Hu h Hhin Hch.
  destruct (Forall2_in_l _ _ _ g F1 Hgin) as (g' & Hg' & R). pose proof (mrel_of_min _ _ _ _ R Hc) as ->.
  apply (propagate_keeps_unsafe b1 b2 Hl1 Hm1) with (g := g); auto. congruence.
Qed.

(* deleteGlyph: glyph by glyph, an out-buffer glyph either is untouched or takes over the cluster of the deleted glyph
   TOGETHER WITH its glyph flags (backward merge); Info glyphs are untouched or merged forward with cleared flags *)
Lemma delete_flag_transfer b : (level b =? 2) = false -> 0 <= idx b -> idx b < zlen (info b) ->
  exists b' c', delete_glyph b = Ok b'
    /\ Forall2 (mrel (cl (nth (Z.to_nat (idx b)) (info b) g0)) (gf (nth (Z.to_nat (idx b)) (info b) g0))) (out b) (out b')
    /\ Forall2 (mrel c' fl0) (info b) (info b')
    /\ has_gf b' = has_gf b /\ idx b' = idx b + 1.
Proof.
  intros Hl I0 I1. unfold delete_glyph. rewrite getg_ok by lia. cbn [bind].
  set (g := nth (Z.to_nat (idx b)) (info b) g0).
  assert (Plain : exists b' c', Ok (with_idx b (idx b + 1)) = Ok b'
            /\ Forall2 (mrel (cl g) (gf g)) (out b) (out b') /\ Forall2 (mrel c' fl0) (info b) (info b')
            /\ has_gf b' = has_gf b /\ idx b' = idx b + 1).
  { eexists. exists 0. split; [reflexivity|]. cbn. repeat split; auto; apply Forall2_refl; apply mrel_refl. }
  destruct (((idx b + 1 <? zlen (info b)) && (cl g =? cl (nth (Z.to_nat (idx b + 1)) (info b) g0)))
            || (negb (zlen (out b) =? 0) && (cl g =? cl (lastg (out b))))); [exact Plain|].
  destruct (Z.eqb_spec (zlen (out b)) 0) as [L0|LN]; cbn [negb].
  - destruct (Z.ltb_spec (idx b + 1) (zlen (info b))) as [Hnext|Hlast]; [|exact Plain].
    destruct (merge_flag_transfer b (idx b) (idx b + 2) Hl I0) as (b1 & E & F1 & F2 & G); try lia.
    rewrite E. cbn [bind]. eexists. eexists. split; [reflexivity|]. cbn [out info has_gf idx with_idx].
    split; [|split; [exact F1|split; [exact G|]]].
    + apply zlen_zero_nil in L0. rewrite L0 in *. inversion F2. constructor.
    + unfold merge_clusters in E. destruct (Z.ltb_spec (idx b + 2 - idx b) 2); [lia|]. rewrite Hl in E.
      destruct (negb _) in E; [discriminate E|]. injection E as <-. reflexivity.
  - destruct (Z.ltb_spec (cl g) (cl (lastg (out b)))); [|exact Plain].
    pose proof (run_eq_bound (cl (lastg (out b))) (rev (out b))) as Bk. rewrite zlen_rev in Bk.
    eexists. exists 0. split; [reflexivity|]. cbn [out info has_gf idx with_idx with_out].
    split; [|repeat split; auto; apply Forall2_refl; apply mrel_refl].
    unfold set_cluster_last. apply Forall2_map_range; [apply mrel_refl|apply mrel_set|lia..].
Qed.


(* ---------- C18: every interior flag setter marks exactly the interior of its window ---------- *)

Lemma set_flags_marks_interior b m s e : (level b =? 2) = false -> 0 <= s ->
  monotone (cls (info b)) = true -> Forall (fun g => cl g <= max_int) (info b) ->
  exists b', set_glyph_flags b m s e true false = Ok b'
    /\ info b' = marks_interior m s e (info b)
    /\ out b' = out b /\ idx b' = idx b /\ have_out b' = have_out b /\ level b' = level b
    /\ (b' = b \/ has_gf b' = true).
Proof.
  intros Hl H0 Hm Hmax. unfold set_glyph_flags, marks_interior.
  set (e' := Z.min e (zlen (info b))). cbn [andb negb orb].
  destruct (Z.ltb_spec (e' - s) 2) as [Hsmall|Hbig].
  - exists b. repeat split; auto.
  - assert (He' : e' <= zlen (info b)) by (subst e'; lia).
    cbn [level info with_gf have_out].
    unfold monotone in Hm. apply orb_prop in Hm.
    assert (exists rtl, mono rtl (cls (info b)) = true) as [rtl Hr] by (destruct Hm; [exists false|exists true]; assumption).
    destruct (split3 (info b) s e') as (l1 & l2 & l3 & EI & L1 & L2 & _ & S2 & _ & _); try lia.
    assert (HmX : mono rtl (cls (slice s e' (info b))) = true) by (rewrite S2; rewrite EI in Hr; exact (mono_sub rtl _ _ _ Hr)).
    assert (Xne : slice s e' (info b) <> []) by (rewrite S2; intros N; rewrite N, zlen_nil in L2; lia).
    unfold find_min_cluster. destruct (Z.eqb_spec s e'); [lia|]. rewrite Hl. rewrite !getg_ok by lia. cbn [bind].
    assert (Ec : Z.min max_int (Z.min (cl (nth (Z.to_nat s) (info b) g0)) (cl (nth (Z.to_nat (e' - 1)) (info b) g0)))
                 = lmin (cls (slice s e' (info b)))).
    { rewrite (lmin_mono_ends rtl _ HmX Xne), hd_slice, last_slice by lia.
      rewrite Forall_forall in Hmax.
      assert (cl (nth (Z.to_nat s) (info b) g0) <= max_int).
      { apply Hmax. apply nth_In. unfold zlen in *. lia. }
      lia. }
    rewrite Ec.
    destruct (infos_set_monotone (level b) (info b) s e' m rtl Hl H0) as (t & Et); try lia; [exact HmX|].
    cbv zeta in Et. rewrite Et. cbn [bind fst]. eexists. split; [reflexivity|]. cbn.
    repeat split; auto.
Qed.

Lemma unsafe_concat_marks_interior_lemma b s e : (level b =? 2) = false -> 0 <= s ->
  monotone (cls (info b)) = true -> Forall (fun g => cl g <= max_int) (info b) ->
  exists b', unsafe_to_concat b s e = Ok b'
    /\ info b' = (if fl_concat b then marks_interior m_concat s e (info b) else info b)
    /\ out b' = out b /\ idx b' = idx b /\ have_out b' = have_out b /\ level b' = level b
    /\ (b' = b \/ has_gf b' = true).
Proof.
  intros Hl H0 Hm Hmax. unfold unsafe_to_concat. destruct (fl_concat b); cbn [negb].
  - apply set_flags_marks_interior; assumption.
  - exists b. repeat split; auto.
Qed.

Lemma tatweel_marks_interior_lemma b s e : (level b =? 2) = false -> 0 <= s ->
  monotone (cls (info b)) = true -> Forall (fun g => cl g <= max_int) (info b) ->
  exists b', safe_to_insert_tatweel b s e = Ok b'
    /\ info b' = marks_interior (if fl_tatweel b then m_tatweel else m_break) s e (info b)
    /\ out b' = out b /\ idx b' = idx b /\ have_out b' = have_out b /\ level b' = level b
    /\ (b' = b \/ has_gf b' = true).
Proof.
  intros Hl H0 Hm Hmax. unfold safe_to_insert_tatweel, unsafe_to_break. destruct (fl_tatweel b); cbn [negb];
    apply set_flags_marks_interior; assumption.
Qed.

(* infosSetGlyphFlags on a monotone window of at least ONE glyph (Proofs/Buffer.v infos_set_monotone asks for two) *)
Lemma infos_set_monotone1 lv infos s e m rtl : (lv =? 2) = false -> 0 <= s -> s + 1 <= e -> e <= zlen infos ->
  mono rtl (cls (slice s e infos)) = true ->
  let c := lmin (cls (slice s e infos)) in
  exists t, infos_set_glyph_flags lv infos s e c m
            = Ok (map_range (fun g => if cl g =? c then g else or_flags m g) s e infos, t).
Proof.
  intros Hl H0 H1 H2 Hm c. unfold infos_set_glyph_flags.
  destruct (Z.eqb_spec s e); [lia|]. rewrite !getg_ok by lia. cbn [bind].
  destruct (Z.leb_spec e s); [lia|]. rewrite Hl. cbn [orb].
  set (X := slice s e infos) in *.
  assert (Xne : X <> []). { intros N. pose proof (f_equal zlen N) as Z. unfold X, slice in Z. rewrite zlen_zfirstn in Z; [cbn in Z; lia|]. rewrite zlen_zskipn by lia. lia. }
  assert (Eh : hd g0 X = nth (Z.to_nat s) infos g0) by (apply hd_slice; lia).
  assert (El : last X g0 = nth (Z.to_nat (e - 1)) infos g0) by (apply last_slice; lia).
  rewrite <- Eh, <- El.
  assert (Ec : c = Z.min (cl (hd g0 X)) (cl (last X g0))) by (apply (lmin_mono_ends rtl); assumption).
  destruct (map_range_view (fun g => if cl g =? c then g else or_flags m g) s e infos) as (l1 & l2 & l3 & EI & L1 & L2 & S2 & V); try lia.
  fold X in S2. subst l2. rewrite V.
  destruct (Z.eqb_spec c (cl (hd g0 X))) as [Ea|Na]; cbn [negb andb].
  - (* minimum at the start: flag the trailing glyphs outside the first cluster *)
    rewrite <- Ea. eexists. f_equal. f_equal.
    destruct (run_ne_split c (rev X)) as (p & q & Er & Lp & Fp & Hq).
    assert (EX : X = rev q ++ rev p) by (rewrite <- rev_app_distr, <- Er, rev_involutive; reflexivity).
    assert (Fq : Forall (fun g => cl g = c) (rev q)).
    { destruct q as [|y q]; [constructor|]. destruct Hq as [Hq|Hq]; [discriminate|]. cbn [hd] in Hq.
      apply (mono_all_eq rtl); [|destruct (rev (y :: q)) eqn:R; [apply (f_equal (@rev glyph)) in R; rewrite rev_involutive in R; discriminate|congruence]| |].
      - rewrite EX in Hm. rewrite <- (app_nil_l (rev (y :: q) ++ rev p)) in Hm. exact (mono_sub rtl [] _ _ Hm).
      - rewrite EX in Ea. destruct (rev (y :: q)) eqn:R; [apply (f_equal (@rev glyph)) in R; rewrite rev_involutive in R; discriminate|].
        cbn [app hd] in Ea. cbn [hd]. congruence.
      - cbn [rev]. rewrite last_last. exact Hq. }
    destruct (map_range_view (or_flags m) (e - run_ne c (rev X)) e infos) as (k1 & k2 & k3 & EK & K1 & K2 & _ & VK).
    { pose proof (f_equal zlen EX) as Z. rewrite zlen_app, !zlen_rev in Z.
      assert (zlen X = e - s). { pose proof (f_equal zlen EI) as Z2. rewrite !zlen_app in Z2. lia. }
      pose proof (zlen_nonneg q). lia. }
    { pose proof (zlen_nonneg p). lia. }
    { lia. }
    rewrite VK. rewrite EI in EK. rewrite EX in EK.
    assert (Z1 : zlen (l1 ++ rev q) = zlen k1).
    { pose proof (f_equal zlen EX) as Z. pose proof (f_equal zlen EI) as Z2. rewrite !zlen_app, ?zlen_rev in *. lia. }
    rewrite <- !app_assoc in EK. rewrite (app_assoc l1) in EK.
    destruct (app_eq_len _ _ _ _ EK Z1) as [<- EK2].
    assert (Z2 : zlen (rev p) = zlen k2) by (rewrite zlen_rev; lia).
    destruct (app_eq_len _ _ _ _ EK2 Z2) as [<- <-].
    rewrite EX, map_app, <- !app_assoc. f_equal. f_equal; [|f_equal].
    + symmetry. apply map_id_on. eapply Forall_impl; [|exact Fq]. intros g Hg. cbv beta in *. rewrite Hg, Z.eqb_refl. reflexivity.
    + apply map_ext_in. intros g Hg. apply in_rev in Hg. rewrite Forall_forall in Fp. specialize (Fp g Hg).
      destruct (Z.eqb_spec (cl g) c); [contradiction|reflexivity].
  - (* minimum at the end only *)
    assert (Ez : c = cl (last X g0)) by lia. destruct (Z.eqb_spec c (cl (last X g0))); [|contradiction]. cbn [negb andb].
    rewrite <- Ez. eexists. f_equal. f_equal.
    destruct (run_ne_split c X) as (p & q & EX & Lp & Fp & Hq).
    assert (Fq : Forall (fun g => cl g = c) q).
    { destruct q as [|y q]; [constructor|]. destruct Hq as [Hq|Hq]; [discriminate|]. cbn [hd] in Hq.
      apply (mono_all_eq rtl); [|congruence|exact Hq|].
      - rewrite EX in Hm. rewrite <- (app_nil_r (y :: q)) in Hm. exact (mono_sub rtl p _ [] Hm).
      - rewrite EX in Ez. rewrite Ez. rewrite last_app_ne by congruence. reflexivity. }
    destruct (map_range_view (or_flags m) s (s + run_ne c X) infos) as (k1 & k2 & k3 & EK & K1 & K2 & _ & VK).
    { lia. }
    { pose proof (zlen_nonneg p). lia. }
    { pose proof (f_equal zlen EX) as Z. pose proof (f_equal zlen EI) as Z2. rewrite !zlen_app in *. pose proof (zlen_nonneg q). lia. }
    rewrite VK. rewrite EI in EK. rewrite EX in EK.
    assert (Z1 : zlen l1 = zlen k1) by lia.
    destruct (app_eq_len _ _ _ _ EK Z1) as [<- EK2].
    rewrite <- app_assoc in EK2.
    assert (Z2 : zlen p = zlen k2) by lia.
    destruct (app_eq_len _ _ _ _ EK2 Z2) as [<- <-].
    rewrite EX, map_app, <- !app_assoc. f_equal. f_equal; [|f_equal].
    + apply map_ext_in. intros g Hg. rewrite Forall_forall in Fp. specialize (Fp g Hg).
      destruct (Z.eqb_spec (cl g) c); [contradiction|reflexivity].
    + symmetry. apply map_id_on. eapply Forall_impl; [|exact Fq]. intros g Hg. cbv beta in *. rewrite Hg, Z.eqb_refl. reflexivity.
Qed.

Definition cond_flag (c : Z) (m : fl) (g : glyph) : glyph := if cl g =? c then g else or_flags m g.

Lemma map_range_ext f f' s e l : (forall g, f g = f' g) -> map_range f s e l = map_range f' s e l.
Proof. intros H. unfold map_range. f_equal. f_equal. apply map_ext. exact H. Qed.

Lemma map_range_empty f s l : map_range f s s l = l.
Proof. unfold map_range, slice. rewrite Z.sub_diag. rewrite (zfirstn_neg _ 0) by lia. cbn [map app]. apply zfirstn_zskipn. Qed.

(* c is a lower bound of the clusters of a monotone window: exactly the glyphs of the window outside cluster c are flagged *)
Lemma infos_set_lower lv infos s e c m rtl : (lv =? 2) = false -> 0 <= s -> s <= e -> e <= zlen infos ->
  mono rtl (cls (slice s e infos)) = true -> Forall (fun x => c <= x) (cls (slice s e infos)) ->
  exists t, infos_set_glyph_flags lv infos s e c m = Ok (map_range (cond_flag c m) s e infos, t).
Proof.
  intros Hl H0 H1 H2 Hm Hlow.
  destruct (Z.eq_dec s e) as [->|Ne].
  { unfold infos_set_glyph_flags. rewrite Z.eqb_refl, map_range_empty. eexists. reflexivity. }
  set (X := slice s e infos) in *.
  assert (Xne : X <> []). { intros N. pose proof (f_equal zlen N) as Z. unfold X in Z. rewrite zlen_slice, zlen_nil in Z by lia. lia. }
  assert (Eh : hd g0 X = nth (Z.to_nat s) infos g0) by (apply hd_slice; lia).
  assert (El : last X g0 = nth (Z.to_nat (e - 1)) infos g0) by (apply last_slice; lia).
  destruct (Z.eq_dec c (lmin (cls X))) as [->|Nc].
  - destruct (infos_set_monotone1 lv infos s e m rtl Hl H0) as (t & Et); try lia; [exact Hm|].
    cbv zeta in Et. fold X in Et. exists t. rewrite Et. reflexivity.
  - assert (Hlt : c < lmin (cls X)).
    { assert (cls X <> []) by (destruct X; [congruence|discriminate]). pose proof (lmin_lower c _ H Hlow). lia. }
    assert (Hall : forall g, In g X -> c < cl g).
    { intros g Hg. pose proof (lmin_le _ _ (in_cls g X Hg)). lia. }
    unfold infos_set_glyph_flags. destruct (Z.eqb_spec s e); [lia|]. rewrite !getg_ok by lia. cbn [bind].
    destruct (Z.leb_spec e s); [lia|]. rewrite Hl. cbn [orb]. rewrite <- Eh, <- El.
    assert (A1 : c <> cl (hd g0 X)). { assert (In (hd g0 X) X) by (destruct X; [congruence|left; reflexivity]). specialize (Hall _ H3). lia. }
    assert (A2 : c <> cl (last X g0)). { specialize (Hall _ (last_in X Xne)). lia. }
    destruct (Z.eqb_spec c (cl (hd g0 X))); [contradiction|]. destruct (Z.eqb_spec c (cl (last X g0))); [contradiction|]. cbn [negb andb].
    eexists. f_equal. f_equal. apply map_range_ext. intros g. unfold cond_flag. rewrite (Z.eqb_sym c (cl g)). reflexivity.
Qed.

Lemma lmin_app a b : a <> [] -> b <> [] -> lmin (a ++ b) = Z.min (lmin a) (lmin b).
Proof.
  intros Ha Hb. pose proof (lmin_in a Ha). pose proof (lmin_in b Hb).
  apply lmin_char.
  - destruct (Z.min_spec (lmin a) (lmin b)) as [[_ ->]|[_ ->]]; apply in_or_app; [left|right]; assumption.
  - apply Forall_forall. intros x Hx. apply in_app_or in Hx. destruct Hx as [Hx|Hx]; [pose proof (lmin_le _ _ Hx)|pose proof (lmin_le _ _ Hx)]; lia.
Qed.

Lemma find_min_mono lv infos s e c rtl : (lv =? 2) = false -> 0 <= s -> s <= e -> e <= zlen infos ->
  mono rtl (cls (slice s e infos)) = true ->
  find_min_cluster lv infos s e c = Ok (if s =? e then c else Z.min c (lmin (cls (slice s e infos)))).
Proof.
  intros Hl H0 H1 H2 Hm. unfold find_min_cluster. destruct (Z.eqb_spec s e); [reflexivity|].
  rewrite Hl, !getg_ok by lia. cbn [bind]. f_equal. f_equal.
  assert (Xne : slice s e infos <> []). { intros N. pose proof (f_equal zlen N) as Z. rewrite zlen_slice, zlen_nil in Z by lia. lia. }
  rewrite (lmin_mono_ends rtl _ Hm Xne), hd_slice, last_slice by lia. reflexivity.
Qed.

(* unsafeToBreakFromOutbuffer(s, e) with output in progress, on a buffer whose glyph sequence out ++ unread input is
   monotone: the inspected window is out[s:] followed by Info[idx:min(e,len)]; exactly its glyphs outside its minimal
   cluster receive the flags *)
Lemma unsafe_break_out_lemma b s e : (level b =? 2) = false -> have_out b = true ->
  0 <= s -> s <= zlen (out b) -> 0 <= idx b -> idx b <= zlen (info b) -> idx b <= e ->
  monotone (cls (bseq b)) = true -> Forall (fun g => cl g <= max_int) (bseq b) ->
  let e' := Z.min e (zlen (info b)) in
  let c := lmin (cls (slice s (zlen (out b)) (out b) ++ slice (idx b) e' (info b))) in
  exists b', unsafe_to_break_from_outbuffer b s e = Ok b'
    /\ out b' = map_range (cond_flag c m_break) s (zlen (out b)) (out b)
    /\ info b' = map_range (cond_flag c m_break) (idx b) e' (info b)
    /\ idx b' = idx b /\ have_out b' = true /\ level b' = level b /\ has_gf b' = true.
Proof.
  intros Hl Hh S0 S1 I0 I1 Ie Hm Hmax e' c.
  assert (He' : idx b <= e' /\ e' <= zlen (info b)) by (subst e'; lia).
  set (ol := zlen (out b)) in *.
  rewrite (bseq_have b Hh) in Hm, Hmax.
  unfold monotone in Hm. apply orb_prop in Hm.
  assert (exists rtl, mono rtl (cls (out b ++ zskipn (idx b) (info b))) = true) as [rtl Hr] by (destruct Hm; [exists false|exists true]; assumption).
  set (XO := slice s ol (out b)) in *. set (XI := slice (idx b) e' (info b)) in *.
  (* the window as a contiguous part of the glyph sequence *)
  assert (Eseq : out b ++ zskipn (idx b) (info b) = zfirstn s (out b) ++ (XO ++ XI) ++ zskipn e' (info b)).
  { rewrite (zskipn_slice (info b) (idx b) (e' - idx b)) by lia. replace (idx b + (e' - idx b)) with e' by lia. fold XI.
    rewrite <- (zfirstn_zskipn s (out b)) at 1. unfold XO, slice. rewrite (zfirstn_all (zskipn s (out b))) by (rewrite zlen_zskipn by lia; lia).
    rewrite <- !app_assoc. reflexivity. }
  assert (HmW : mono rtl (cls (XO ++ XI)) = true) by (rewrite Eseq in Hr; exact (mono_sub rtl _ _ _ Hr)).
  assert (HmO : mono rtl (cls XO) = true).
  { rewrite cls_app in HmW. destruct (mono_app _ _ _ HmW) as (A & _). exact A. }
  assert (HmI : mono rtl (cls XI) = true).
  { rewrite cls_app in HmW. destruct (mono_app _ _ _ HmW) as (_ & A & _). exact A. }
  assert (HmaxW : forall g, In g (XO ++ XI) -> cl g <= max_int).
  { intros g Hg. rewrite Forall_forall in Hmax. apply Hmax. rewrite Eseq. apply in_or_app. right. apply in_or_app. left. exact Hg. }
  assert (LO : zlen XO = ol - s) by (unfold XO; apply zlen_slice; lia).
  assert (LI : zlen XI = e' - idx b) by (unfold XI; apply zlen_slice; lia).
  assert (Hc_low : Forall (fun x => c <= x) (cls (XO ++ XI))).
  { apply Forall_forall. intros x Hx. subst c. apply lmin_le. exact Hx. }
  assert (HlowO : Forall (fun x => c <= x) (cls XO)) by (rewrite cls_app in Hc_low; apply Forall_app in Hc_low; tauto).
  assert (HlowI : Forall (fun x => c <= x) (cls XI)) by (rewrite cls_app in Hc_low; apply Forall_app in Hc_low; tauto).
  unfold unsafe_to_break_from_outbuffer, set_glyph_flags. fold e'. cbn [andb negb orb].
  cbn [have_out with_gf info out level idx]. rewrite Hh. cbn [negb orb]. fold ol.
  rewrite (find_min_mono (level b) (info b) (idx b) e' max_int rtl Hl) by (try lia; exact HmI). cbn [bind]. fold XI.
  rewrite (find_min_mono (level b) (out b) s ol _ rtl Hl) by (try lia; exact HmO). cbn [bind]. fold XO.
  (* the two-stage minimum is the minimum of the window *)
  assert (Ec : (if s =? ol then (if idx b =? e' then max_int else Z.min max_int (lmin (cls XI)))
                else Z.min (if idx b =? e' then max_int else Z.min max_int (lmin (cls XI))) (lmin (cls XO))) = c
               \/ (s = ol /\ idx b = e')).
  { destruct (Z.eqb_spec s ol) as [Es|Ns]; destruct (Z.eqb_spec (idx b) e') as [Ei|Ni]; [right; auto|left..].
    - assert (XO = []) by (apply zlen_zero_nil; lia). subst c. rewrite H. cbn [app].
      assert (XI <> []) by (intros N; rewrite N, zlen_nil in LI; lia).
      pose proof (lmin_in (cls XI)) as P. assert (cls XI <> []) by (destruct XI; [congruence|discriminate]). specialize (P H1).
      unfold cls in P. apply in_map_iff in P. destruct P as (g & Eg & Hg). specialize (HmaxW g (in_or_app _ _ _ (or_intror Hg))).
      fold (cls XI) in Eg. lia.
    - assert (XI = []) by (apply zlen_zero_nil; lia). subst c. rewrite H, app_nil_r.
      assert (XO <> []) by (intros N; rewrite N, zlen_nil in LO; lia).
      pose proof (lmin_in (cls XO)) as P. assert (cls XO <> []) by (destruct XO; [congruence|discriminate]). specialize (P H1).
      unfold cls in P. apply in_map_iff in P. destruct P as (g & Eg & Hg). specialize (HmaxW g (in_or_app _ _ _ (or_introl Hg))).
      fold (cls XO) in Eg. lia.
    - assert (XO <> []) by (intros N; rewrite N, zlen_nil in LO; lia).
      assert (XI <> []) by (intros N; rewrite N, zlen_nil in LI; lia).
      assert (cls XO <> []) by (destruct XO; [congruence|discriminate]). assert (cls XI <> []) by (destruct XI; [congruence|discriminate]).
      subst c. rewrite cls_app, lmin_app by assumption.
      pose proof (lmin_in (cls XI) H2) as P. unfold cls in P. apply in_map_iff in P. destruct P as (g & Eg & Hg).
      specialize (HmaxW g (in_or_app _ _ _ (or_intror Hg))). fold (cls XI) in Eg. lia. }
  destruct Ec as [Ec|[Es Ei]].
  - rewrite Ec.
    destruct (infos_set_lower (level b) (out b) s ol c m_break rtl Hl) as (t1 & E1); try lia; [exact HmO|exact HlowO|].
    destruct (infos_set_lower (level b) (info b) (idx b) e' c m_break rtl Hl) as (t2 & E2); try lia; [exact HmI|exact HlowI|].
    rewrite E1. cbn [bind]. rewrite E2. cbn [bind fst].
    eexists. split; [reflexivity|]. cbn. repeat split; auto.
  - unfold infos_set_glyph_flags. rewrite <- Es, <- Ei, !Z.eqb_refl. cbn [bind fst].
    eexists. split; [reflexivity|]. cbn. rewrite !map_range_empty. repeat split; auto.
Qed.
